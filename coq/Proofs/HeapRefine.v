(* HeapRefine -- the abstraction [abs] of the heap to plain value lists commutes with every
   list-model operation: the heap model refines the simple list model ([spec_step]). *)
From Coq Require Import List Arith Bool QArith Lia.
Import ListNotations.
From PD Require Import Model.Heap Proofs.Heap Proofs.HeapWf Proofs.HeapSep Proofs.HeapTimes Proofs.HeapNI.
Local Open Scope nat_scope.

(* ------------------------------------------------------------------------------------ *)
(* abs_vals                                                                               *)
(* ------------------------------------------------------------------------------------ *)

Lemma vals_abs h ls vs : vals_of h ls = Some vs -> abs_vals h ls = vs.
Proof.
  unfold vals_of, abs_vals. revert vs; induction ls as [|l ls IH]; simpl; intros vs H.
  - inversion H; auto.
  - destruct (val_of h l); [|discriminate]. destruct (mapM (val_of h) ls); [|discriminate].
    inversion H; subst. simpl. f_equal. apply IH; auto.
Qed.

Lemma abs_vals_app h a b : abs_vals h (a ++ b) = abs_vals h a ++ abs_vals h b.
Proof. unfold abs_vals. apply flat_map_app. Qed.

Lemma abs_vals_vals h ls : wf h -> locs_ok h ls -> vals_of h ls = Some (abs_vals h ls).
Proof.
  intros W H. destruct (vals_of_ok h ls W H) as [vs Hv]. rewrite (vals_abs _ _ _ Hv). exact Hv.
Qed.

Lemma abs_vals_length h ls : wf h -> locs_ok h ls -> length (abs_vals h ls) = length ls.
Proof. intros W H. eapply mapM_length. apply abs_vals_vals; auto. Qed.

Lemma abs_vals_nth h ls i : wf h -> locs_ok h ls ->
  nth_error (abs_vals h ls) i = match nth_error ls i with Some l => val_of h l | None => None end.
Proof.
  intros W H. pose proof (abs_vals_vals h ls W H) as Hv. unfold vals_of in Hv.
  destruct (nth_error ls i) as [l|] eqn:E.
  - destruct (mapM_nth _ _ _ _ _ Hv E) as (b & Hb & Hn). rewrite Hn, Hb. reflexivity.
  - apply nth_error_None. rewrite abs_vals_length by auto. apply nth_error_None. exact E.
Qed.

Lemma abs_vals_tables h h' ls : objs h' = objs h -> store h' = store h -> abs_vals h' ls = abs_vals h ls.
Proof.
  intros E1 E2. apply abs_vals_ext. intros l _. unfold val_of, obj_of. rewrite E1, E2. reflexivity.
Qed.


(* allocation *)
Lemma val_of_alloc_old h vs l : wf h -> l < length (objs h) -> val_of (alloc h vs) l = val_of h l.
Proof.
  intros W Hl. unfold val_of, obj_of. hs. rewrite nth_error_app1 by exact Hl.
  destruct (nth_error (objs h) l) as [s|] eqn:E; auto.
  pose proof (Forall_nth_error _ _ _ _ (wf_objs _ W) E) as X. simpl in X.
  apply nth_error_app1. exact X.
Qed.

Lemma abs_vals_alloc_old h vs ls : wf h -> locs_ok h ls -> abs_vals (alloc h vs) ls = abs_vals h ls.
Proof.
  intros W H. apply abs_vals_ext. intros l Hl. apply val_of_alloc_old; auto.
  unfold locs_ok in H. rewrite Forall_forall in H. auto.
Qed.

Lemma val_of_alloc_new h vs i : i < length vs -> val_of (alloc h vs) (length (objs h) + i) = nth_error vs i.
Proof.
  intros Hi. unfold val_of, obj_of. hs.
  rewrite nth_error_app2 by lia. replace (length (objs h) + i - length (objs h)) with i by lia.
  assert (E : nth_error (seq (length (store h)) (length vs)) i = Some (length (store h) + i)).
  { clear -Hi. revert i Hi. generalize (length (store h)). induction (length vs) as [|n IH]; intros s i Hi; [lia|].
    destruct i; simpl; [f_equal; lia|]. rewrite IH by lia. f_equal. lia. }
  unfold loc, sloc in *. rewrite E. rewrite nth_error_app2 by lia.
  replace (length (store h) + i - length (store h)) with i by lia. reflexivity.
Qed.

Lemma mapM_seq_pointwise {B} (f : nat -> option B) a (vs : list B) :
  (forall i, i < length vs -> f (a + i) = nth_error vs i) -> mapM f (seq a (length vs)) = Some vs.
Proof.
  revert a; induction vs as [|v vs IH]; intros a H; simpl; auto.
  pose proof (H 0 ltac:(simpl; lia)) as H0. rewrite Nat.add_0_r in H0. simpl in H0. rewrite H0.
  rewrite IH; auto. intros i Hi. specialize (H (S i) ltac:(simpl; lia)). simpl in H.
  rewrite <- H. f_equal. lia.
Qed.

Lemma vals_of_alloc_new h vs : vals_of (alloc h vs) (new_locs h (length vs)) = Some vs.
Proof. unfold vals_of, new_locs. apply mapM_seq_pointwise. intros i Hi. apply val_of_alloc_new; auto. Qed.

Lemma abs_vals_alloc_new h vs : abs_vals (alloc h vs) (new_locs h (length vs)) = vs.
Proof. apply vals_abs, vals_of_alloc_new. Qed.

Lemma abs_vals_alloc_new1 h v : abs_vals (alloc h [v]) (new_locs h 1) = [v].
Proof. apply (abs_vals_alloc_new h [v]). Qed.

Lemma map_ext_Forall {A B} (f g : A -> B) (P : A -> Prop) l :
  Forall P l -> (forall a, P a -> f a = g a) -> map f l = map g l.
Proof. intros H Hfg. apply map_ext_in. intros a Ha. rewrite Forall_forall in H. auto. Qed.

Definition spec_eq_intro a b c d e f a' b' c' d' e' f' :
  a = a' -> b = b' -> c = c' -> d = d' -> e = e' -> f = f' -> mkS a b c d e f = mkS a' b' c' d' e' f'.
Proof. intros; subst; reflexivity. Qed.

(* abs only depends on the tables, on the values of the objects in range and on the content of the
   times lists in range *)
Lemma abs_ext h h' :
  wf h -> hnd h' = hnd h -> ems h' = ems h -> tcs h' = tcs h -> trs h' = trs h -> tls h' = tls h ->
  tvars h' = tvars h ->
  (forall l, l < length (objs h) -> val_of h' l = val_of h l) ->
  (forall tl, tl < length (tlists h) -> tl_get h' tl = tl_get h tl) ->
  abs h' = abs h.
Proof.
  intros W E1 E2 E3 E4 E5 E6 V T. unfold abs. rewrite E1, E2, E3, E4, E5, E6.
  assert (AV : forall ls, locs_ok h ls -> abs_vals h' ls = abs_vals h ls).
  { intros ls H. apply abs_vals_ext. intros l Hl. apply V. unfold locs_ok in H. rewrite Forall_forall in H. auto. }
  apply spec_eq_intro; auto.
  - apply AV. apply (wf_hnd _ W).
  - eapply map_ext_Forall; [apply (wf_ems _ W)|]. intros e He. simpl in He. f_equal. apply AV; auto.
  - eapply map_ext_Forall; [apply (wf_tc_tl _ W)|]. intros t Ht. simpl in Ht. f_equal. unfold tc_times. auto.
  - eapply map_ext_Forall with (P := fun k => locs_ok h (tr_drops k) /\ tr_tl k < length (tlists h)).
    + apply Forall_forall. intros k Hk. split.
      * pose proof (wf_trs _ W) as X. rewrite Forall_forall in X. auto.
      * pose proof (wf_tr_tl _ W) as X. rewrite Forall_forall in X. auto.
    + intros k [H1 H2]. f_equal; [unfold tr_times; auto|apply AV; auto].
  - eapply map_ext_Forall; [apply (wf_tvars _ W)|]. intros tl Htl. simpl in Htl. auto.
Qed.

Lemma abs_alloc h vs : wf h -> abs (alloc h vs) = abs h.
Proof.
  intros W. apply abs_ext; auto.
  - intros l Hl. apply val_of_alloc_old; auto.
Qed.

Lemma abs_alloc_tl h ts : wf h -> abs (alloc_tl h ts) = abs h.
Proof.
  intros W. apply abs_ext; auto.
  intros tl Htl. apply (tl_get_alloc_old h (alloc_tl h ts) ts); auto.
Qed.

(* abs of the table-level setters (values are looked up in objs/store only) *)
Lemma abs_with_hnd h ls : abs (with_hnd h ls) = sp_hnd (abs h) (abs_vals h ls).
Proof. reflexivity. Qed.
Lemma abs_set_em h c e : abs (set_em h c e) = sp_ems (abs h) (upd (s_ems (abs h)) c (e_dtype e, abs_vals h (e_mem e))).
Proof. unfold abs, sp_ems. hs. simpl. rewrite map_upd. reflexivity. Qed.
Lemma abs_push_em h e : abs (push_em h e) = sp_ems (abs h) (s_ems (abs h) ++ [(e_dtype e, abs_vals h (e_mem e))]).
Proof. unfold abs, sp_ems. hs. simpl. rewrite map_app. reflexivity. Qed.
Lemma abs_set_tc h t x : abs (set_tc h t x) = sp_tcs (abs h) (upd (s_tcs (abs h)) t (tc_times h x, tc_ems x)).
Proof. unfold abs, sp_tcs. hs. simpl. rewrite map_upd. reflexivity. Qed.
Lemma abs_push_tc h x : abs (push_tc h x) = sp_tcs (abs h) (s_tcs (abs h) ++ [(tc_times h x, tc_ems x)]).
Proof. unfold abs, sp_tcs. hs. simpl. rewrite map_app. reflexivity. Qed.
Lemma abs_set_tr h k x : abs (set_tr h k x) = sp_trs (abs h) (upd (s_trs (abs h)) k (tr_times h x, abs_vals h (tr_drops x))).
Proof. unfold abs, sp_trs. hs. simpl. rewrite map_upd. reflexivity. Qed.
Lemma abs_push_tr h x : abs (push_tr h x) = sp_trs (abs h) (s_trs (abs h) ++ [(tr_times h x, abs_vals h (tr_drops x))]).
Proof. unfold abs, sp_trs. hs. simpl. rewrite map_app. reflexivity. Qed.
Lemma abs_push_arr h r : abs (push_arr h r) = abs h.
Proof. reflexivity. Qed.
Lemma abs_with_tls h x : abs (with_tls h x) = sp_tls (abs h) x.
Proof. reflexivity. Qed.
Lemma abs_with_tvars h x : abs (with_tvars h x) = sp_tvars (abs h) (map (tl_get h) x).
Proof. reflexivity. Qed.

(* lookups in the abstract state *)
Lemma abs_hnd_nth h i : wf h ->
  nth_error (s_hnd (abs h)) i = match nth_error (hnd h) i with Some l => val_of h l | None => None end.
Proof. intros W. simpl. apply abs_vals_nth; auto. apply (wf_hnd _ W). Qed.

Lemma abs_ems_nth h c :
  nth_error (s_ems (abs h)) c = option_map (fun e => (e_dtype e, abs_vals h (e_mem e))) (nth_error (ems h) c).
Proof. simpl. rewrite nth_error_map. reflexivity. Qed.

Lemma abs_tcs_nth h t :
  nth_error (s_tcs (abs h)) t = option_map (fun x => (tc_times h x, tc_ems x)) (nth_error (tcs h) t).
Proof. simpl. rewrite nth_error_map. reflexivity. Qed.

Lemma abs_trs_nth h k :
  nth_error (s_trs (abs h)) k = option_map (fun x => (tr_times h x, abs_vals h (tr_drops x))) (nth_error (trs h) k).
Proof. simpl. rewrite nth_error_map. reflexivity. Qed.

Lemma mapM_hnd_abs h is ls : wf h -> mapM (nth_error (hnd h)) is = Some ls ->
  mapM (nth_error (s_hnd (abs h))) is = Some (abs_vals h ls).
Proof.
  intros W. revert ls; induction is as [|i is IH]; simpl; intros ls H.
  - inversion H; reflexivity.
  - destruct (nth_error (hnd h) i) as [l|] eqn:E; [|discriminate].
    destruct (mapM (nth_error (hnd h)) is) as [r|] eqn:Er; [|discriminate].
    inversion H; subst. pose proof (abs_hnd_nth h i W) as X. simpl in X. rewrite X, E.
    destruct (val_of_ok h l W (wf_hnd_lt _ _ _ W E)) as [v Hv]. rewrite Hv.
    pose proof (IH r eq_refl) as IH'. simpl in IH'. rewrite IH'.
    unfold abs_vals at 2. simpl. rewrite Hv. reflexivity.
Qed.

Lemma mapM_hnd_abs_none h is : wf h -> mapM (nth_error (hnd h)) is = None ->
  mapM (nth_error (s_hnd (abs h))) is = None.
Proof.
  intros W. induction is as [|i is IH]; simpl; intros H; [discriminate|].
  pose proof (abs_hnd_nth h i W) as X. simpl in X. rewrite X.
  destruct (nth_error (hnd h) i) as [l|] eqn:E; auto.
  destruct (val_of_ok h l W (wf_hnd_lt _ _ _ W E)) as [v Hv]. rewrite Hv.
  destruct (mapM (nth_error (hnd h)) is); [discriminate|]. simpl in IH. rewrite IH; auto.
Qed.

(* a write at position i of a duplicate-free list of objects *)
Lemma abs_vals_write_at h ls i l0 s v' :
  wf h -> NoDup (objs h) -> NoDup ls -> locs_ok h ls -> nth_error ls i = Some l0 -> obj_of h l0 = Some s ->
  abs_vals (set_store h s v') ls = upd (abs_vals h ls) i v'.
Proof.
  intros W N. revert i; induction ls as [|l ls IH]; intros i ND H Hi Hs; [destruct i; discriminate|].
  inversion ND as [|? ? Hnin ND']; subst. inversion H as [|? ? Hl Hls]; subst.
  destruct (val_of_ok h l W Hl) as [v Hv].
  change (abs_vals (set_store h s v') (l :: ls)) with
    ((match val_of (set_store h s v') l with Some x => [x] | None => [] end) ++ abs_vals (set_store h s v') ls).
  change (abs_vals h (l :: ls)) with ((match val_of h l with Some x => [x] | None => [] end) ++ abs_vals h ls).
  rewrite Hv. destruct i as [|i]; simpl in Hi.
  - inversion Hi; subst l0. simpl.
    assert (Hs' : s < length (store h)).
    { unfold obj_of in Hs. pose proof (Forall_nth_error _ _ _ _ (wf_objs _ W) Hs) as X. exact X. }
    unfold val_of at 1. unfold obj_of. hs. unfold obj_of in Hs. rewrite Hs.
    rewrite nth_error_upd_eq by exact Hs'. simpl. f_equal.
    eapply abs_vals_write_other; eauto.
  - simpl. rewrite (val_of_write_other h l0 s v' l N Hs).
    + rewrite Hv. simpl. f_equal. apply IH; auto.
    + intros ->. apply Hnin. eapply nth_error_In; eauto.
Qed.

Opaque abs.

Definition refines (h : heap) (o : op) : Prop :=
  spec_step (abs h) o = (abs (fst (exec h o)), snd (exec h o)).

Lemma val_of_obj h l v : val_of h l = Some v -> exists s, obj_of h l = Some s /\ nth_error (store h) s = Some v.
Proof. unfold val_of. destruct (obj_of h l) as [s|]; [eauto|discriminate]. Qed.

Lemma map_change_at {A B} (f f' : A -> B) l c e :
  nth_error l c = Some e ->
  (forall c' e', c' <> c -> nth_error l c' = Some e' -> f' e' = f e') ->
  map f' l = upd (map f l) c (f' e).
Proof.
  revert c; induction l as [|a l IH]; intros [|c] H Hf; simpl in *; try discriminate.
  - inversion H; subst. f_equal. apply map_ext_in. intros x Hx.
    apply In_nth_error in Hx as [n Hn]. apply (Hf (S n)); auto.
  - f_equal.
    + apply (Hf 0); auto.
    + apply IH; auto. intros c' e' Hc He. apply (Hf (S c')); auto.
Qed.

Lemma refine_new h v : wf h -> refines h (ONew v).
Proof.
  intros W. unfold refines. simpl. unfold exec_new. simpl fst. simpl snd.
  rewrite abs_with_hnd, abs_alloc, abs_vals_app, abs_vals_alloc_old, abs_vals_alloc_new1 by (auto; apply (wf_hnd _ W)).
  reflexivity.
Qed.

Lemma refine_emnew h : refines h OEmNew.
Proof. unfold refines. simpl. rewrite abs_push_em. reflexivity. Qed.

Lemma rejects_dt e v f x : rejects (mkE (e_dtype e) x) v f = rejects e v f.
Proof. reflexivity. Qed.
Lemma new_dtype_dt e v x : new_dtype (mkE (e_dtype e) x) v = new_dtype e v.
Proof. reflexivity. Qed.

Lemma refine_append_loc h c l v f :
  wf h -> l < length (objs h) -> val_of h l = Some v ->
  sp_append (abs h) c v f = (abs (fst (append_loc h c l true f)), snd (append_loc h c l true f)).
Proof.
  intros W Hl Hv. unfold sp_append, append_loc. rewrite abs_ems_nth.
  destruct (nth_error (ems h) c) as [e|] eqn:Ee; simpl; auto.
  rewrite Hv. unfold em_add. rewrite rejects_dt. destruct (rejects e v f); simpl; auto.
  rewrite abs_set_em, abs_alloc by auto. cbn [e_dtype e_mem].
  rewrite abs_vals_app, abs_vals_alloc_old, abs_vals_alloc_new1 by (auto; eapply wf_em; eauto).
  reflexivity.
Qed.

Lemma append_loc_val h c l cp f l' :
  wf h -> l' < length (objs h) -> val_of (fst (append_loc h c l cp f)) l' = val_of h l'.
Proof.
  intros W Hl. unfold append_loc. destruct (nth_error (ems h) c); simpl; auto.
  destruct (val_of h l); simpl; auto. unfold em_add. destruct (rejects e v f); simpl; auto.
  destruct cp; simpl; auto. apply (val_of_alloc_old h [v] l' W Hl).
Qed.

Lemma refine_extend_locs h c ls f :
  wf h -> locs_ok h ls ->
  sp_extend (abs h) c (abs_vals h ls) f = (abs (fst (extend_locs h c ls true f)), snd (extend_locs h c ls true f)).
Proof.
  revert h; induction ls as [|l ls IH]; intros h W H; simpl; auto.
  inversion H as [|? ? Hl Hls]; subst.
  destruct (val_of_ok h l W Hl) as [v Hv].
  change (abs_vals h (l :: ls)) with ((match val_of h l with Some x => [x] | None => [] end) ++ abs_vals h ls).
  rewrite Hv. simpl. rewrite (refine_append_loc h c l v f W Hl Hv).
  destruct (wf_append_loc h c l true f W Hl) as (W1 & Hle & _).
  destruct (append_loc h c l true f) as [h1 [|e]] eqn:E; simpl in *; auto.
  assert (Hls1 : locs_ok h1 ls) by (eapply Forall_lt_mono with (f := fun x => x); [|exact Hls]; exact Hle).
  rewrite <- (IH h1 W1 Hls1). f_equal.
  symmetry. apply abs_vals_ext. intros l' Hl'.
  pose proof (append_loc_val h c l true f l' W) as X. rewrite E in X. simpl in X. apply X.
  unfold locs_ok in Hls. rewrite Forall_forall in Hls. auto.
Qed.

Lemma refine_append h c i f : wf h -> refines h (OAppend c i true f).
Proof.
  intros W. unfold refines. simpl. unfold exec_append. rewrite abs_hnd_nth by auto.
  destruct (nth_error (hnd h) i) as [l|] eqn:Ei; simpl; auto.
  destruct (val_of_ok h l W (wf_hnd_lt _ _ _ W Ei)) as [v Hv]. rewrite Hv.
  apply refine_append_loc; auto. eapply wf_hnd_lt; eauto.
Qed.

Lemma refine_extend h c is f : wf h -> refines h (OExtend c is true f).
Proof.
  intros W. unfold refines. simpl. unfold exec_extend.
  destruct (mapM (nth_error (hnd h)) is) as [ls|] eqn:E.
  - rewrite (mapM_hnd_abs h is ls W E). rewrite abs_ems_nth.
    destruct (nth_error (ems h) c); simpl; auto.
    apply refine_extend_locs; auto. eapply locs_ok_mapM_hnd; eauto.
  - rewrite (mapM_hnd_abs_none h is W E). reflexivity.
Qed.

(* writes *)
Transparent abs.
Lemma abs_write_handle h i l0 s v' :
  wf h -> Sep h -> nth_error (hnd h) i = Some l0 -> obj_of h l0 = Some s ->
  abs (set_store h s v') = sp_hnd (abs h) (upd (s_hnd (abs h)) i v').
Proof.
  intros W S Hi Hs. destruct S as (S1 & S2 & S3). assert (S : Sep h) by (repeat split; auto).
  assert (WO : writes_only h (set_store h s v') l0) by (right; eauto).
  unfold abs, sp_hnd. hs. simpl. apply spec_eq_intro; auto.
  - apply abs_vals_write_at with (l0 := l0); auto; [|apply (wf_hnd _ W)].
    apply NoDup_cnt. intros a. pose proof (Sep_roots_le h a S) as X. rewrite roots_cnt in X. nlia.
  - apply map_ext_in. intros e He. apply In_nth_error in He as [c Hc]. f_equal.
    eapply writes_only_vals; eauto. eapply sep_hnd_em; eauto.
  - apply map_ext_in. intros t Ht. apply In_nth_error in Ht as [k Hk]. f_equal.
    eapply writes_only_vals; eauto. eapply sep_hnd_tr; eauto.
Qed.

Lemma abs_write_member h c e i l0 s v' :
  wf h -> Sep h -> nth_error (ems h) c = Some e -> nth_error (e_mem e) i = Some l0 -> obj_of h l0 = Some s ->
  abs (set_store h s v') = sp_ems (abs h) (upd (s_ems (abs h)) c (e_dtype e, upd (abs_vals h (e_mem e)) i v')).
Proof.
  intros W S He Hi Hs. destruct S as (S1 & S2 & S3). assert (S : Sep h) by (repeat split; auto).
  assert (WO : writes_only h (set_store h s v') l0) by (right; eauto).
  assert (Hin : In l0 (e_mem e)) by (eapply nth_error_In; eauto).
  unfold abs, sp_ems. hs. simpl. apply spec_eq_intro; auto.
  - eapply writes_only_vals; eauto. intros Hh. apply In_nth_error in Hh as [j Hj].
    eapply (sep_em_hnd h c e l0 j l0); eauto.
  - rewrite <- (abs_vals_write_at h (e_mem e) i l0 s v' W S1); auto.
    + apply (map_change_at (fun e0 => (e_dtype e0, abs_vals h (e_mem e0)))
                           (fun e0 => (e_dtype e0, abs_vals (set_store h s v') (e_mem e0))) (ems h) c e He).
      intros c' e' Hc He'. f_equal. eapply writes_only_vals; eauto. eapply (sep_em_em h c c'); eauto.
    + eapply sep_em_nodup; eauto.
    + eapply wf_em; eauto.
  - apply map_ext_in. intros t Ht. apply In_nth_error in Ht as [k Hk]. f_equal.
    eapply writes_only_vals; eauto. eapply sep_em_tr; eauto.
Qed.

Opaque abs.

Lemma refine_seth h i k q : wf h -> Sep h -> refines h (OSetH i k q).
Proof.
  intros W S. unfold refines. simpl. unfold exec_seth. rewrite abs_hnd_nth by auto.
  destruct (nth_error (hnd h) i) as [l|] eqn:Ei; simpl; auto.
  destruct (val_of_ok h l W (wf_hnd_lt _ _ _ W Ei)) as [v Hv]. rewrite Hv.
  destruct (val_of_obj _ _ _ Hv) as (s & Hs & Hst).
  unfold write_loc. rewrite Hs. unfold write_sloc. rewrite Hst.
  destruct (set_flat v k q) as [v'|]; simpl; auto.
  rewrite (abs_write_handle h i l s v' W S Ei Hs). reflexivity.
Qed.

Lemma refine_setm h c i k q : wf h -> Sep h -> refines h (OSetM c i k q).
Proof.
  intros W S. unfold refines. simpl. unfold exec_setm, sp_set_member. rewrite abs_ems_nth.
  destruct (nth_error (ems h) c) as [e|] eqn:Ee; simpl; auto.
  rewrite abs_vals_nth by (auto; eapply wf_em; eauto).
  destruct (nth_error (e_mem e) i) as [l|] eqn:Ei; simpl; auto.
  destruct (val_of_ok h l W (wf_mem_lt _ _ _ _ _ W Ee Ei)) as [v Hv]. rewrite Hv.
  destruct (val_of_obj _ _ _ Hv) as (s & Hs & Hst).
  unfold write_loc. rewrite Hs. unfold write_sloc. rewrite Hst.
  destruct (set_flat v k q) as [v'|]; simpl; auto.
  rewrite (abs_write_member h c e i l s v' W S Ee Ei Hs). reflexivity.
Qed.

Lemma refine_merge h c i j ip v : wf h -> Sep h -> refines h (OMerge c i j ip v).
Proof.
  intros W S. unfold refines. simpl. unfold exec_merge. rewrite abs_ems_nth.
  destruct (nth_error (ems h) c) as [e|] eqn:Ee; simpl; auto.
  rewrite !abs_vals_nth by (auto; eapply wf_em; eauto).
  destruct (nth_error (e_mem e) i) as [li|] eqn:Ei; simpl; auto.
  destruct (val_of_ok h li W (wf_mem_lt _ _ _ _ _ W Ee Ei)) as [vi Hvi]. rewrite Hvi.
  destruct (nth_error (e_mem e) j) as [lj|] eqn:Ej; simpl; auto.
  destruct (val_of_ok h lj W (wf_mem_lt _ _ _ _ _ W Ee Ej)) as [vj Hvj]. rewrite Hvj.
  destruct (val_of_obj _ _ _ Hvi) as (s & Hs & Hst). rewrite Hs.
  destruct ip; simpl.
  - rewrite (abs_write_member h c e i li s v W S Ee Ei Hs). reflexivity.
  - destruct (merge_status vi vj); simpl; auto.
    rewrite abs_with_hnd, abs_alloc, abs_vals_app, abs_vals_alloc_old, abs_vals_alloc_new1 by (auto; apply (wf_hnd _ W)).
    reflexivity.
Qed.

(* new emulsions *)
Lemma abs_new_em_vals h vs : wf h -> abs (new_em_vals h vs) = sp_new_em (abs h) vs.
Proof.
  intros W. unfold new_em_vals. rewrite abs_push_em, abs_alloc by auto. cbn [e_dtype e_mem].
  rewrite abs_vals_alloc_new. reflexivity.
Qed.

Lemma refine_copy h c q : wf h -> refines h (OCopy c q).
Proof.
  intros W. unfold refines. simpl. unfold exec_copy. rewrite abs_ems_nth.
  destruct (nth_error (ems h) c) as [e|] eqn:Ee; simpl; auto.
  rewrite (abs_vals_vals h (e_mem e) W (wf_em _ _ _ W Ee)). simpl.
  rewrite abs_new_em_vals by auto. reflexivity.
Qed.

Lemma refine_slice h c lo hi : wf h -> refines h (OSlice c lo hi).
Proof.
  intros W. unfold refines. simpl. unfold exec_slice, new_em_from. rewrite abs_ems_nth.
  destruct (nth_error (ems h) c) as [e|] eqn:Ee; simpl; auto.
  pose proof (abs_vals_vals h (e_mem e) W (wf_em _ _ _ W Ee)) as Hv.
  unfold vals_of in *. rewrite (mapM_slice _ lo hi _ _ Hv). simpl.
  rewrite abs_new_em_vals by auto. reflexivity.
Qed.

Lemma refine_add h c1 c2 : wf h -> refines h (OAdd c1 c2).
Proof.
  intros W. unfold refines. simpl. unfold exec_add, new_em_from. rewrite !abs_ems_nth.
  destruct (nth_error (ems h) c1) as [e1|] eqn:E1; simpl; auto.
  destruct (nth_error (ems h) c2) as [e2|] eqn:E2; simpl; auto.
  pose proof (abs_vals_vals h (e_mem e1) W (wf_em _ _ _ W E1)) as H1.
  pose proof (abs_vals_vals h (e_mem e2) W (wf_em _ _ _ W E2)) as H2.
  unfold vals_of in *. rewrite (mapM_app _ _ _ _ _ H1 H2). simpl.
  rewrite abs_new_em_vals by auto. reflexivity.
Qed.

Lemma abs_vals_filter_by h bs ls : wf h -> locs_ok h ls ->
  abs_vals h (filter_by bs ls) = filter_by bs (abs_vals h ls).
Proof.
  intros W H. apply vals_abs. unfold vals_of. apply mapM_filter_by. apply abs_vals_vals; auto.
Qed.

Lemma refine_remove_small h c q : wf h -> refines h (ORemoveSmall c q).
Proof.
  intros W. unfold refines. simpl. unfold exec_remove_small. rewrite abs_ems_nth.
  destruct (nth_error (ems h) c) as [e|] eqn:Ee; simpl; auto.
  rewrite (abs_vals_vals h (e_mem e) W (wf_em _ _ _ W Ee)). simpl.
  rewrite abs_set_em. cbn [e_dtype e_mem].
  rewrite abs_vals_filter_by by (auto; eapply wf_em; eauto). rewrite filter_by_filter. reflexivity.
Qed.

Lemma refine_remove_overlap h c r : wf h -> refines h (ORemoveOverlap c r).
Proof.
  intros W. unfold refines. simpl. unfold exec_remove_overlap. rewrite abs_ems_nth.
  destruct (nth_error (ems h) c) as [e|] eqn:Ee; simpl; auto.
  rewrite (abs_vals_vals h (e_mem e) W (wf_em _ _ _ W Ee)). simpl.
  destruct (pairwise_ok (abs_vals h (e_mem e))); simpl; auto.
  rewrite abs_set_em. cbn [e_dtype e_mem].
  rewrite abs_vals_filter_by by (auto; eapply wf_em; eauto). reflexivity.
Qed.

(* get_linked_data does not change any value *)
Lemma repoint_vals (h : heap) vs os ls rows :
  let st' := store h ++ vs in
  (forall l, match nth_error os l with Some s => nth_error st' s | None => None end = val_of h l) ->
  Forall2 (fun l s => nth_error st' s = val_of h l) ls rows ->
  (forall l, match nth_error (repoint os ls rows) l with Some s => nth_error st' s | None => None end = val_of h l).
Proof.
  intros st'. revert os rows; induction ls as [|l0 ls IH]; intros os rows H F l; simpl.
  - apply H.
  - destruct rows as [|s rows]; [apply H|]. inversion F; subst.
    apply IH; auto. intros l1. destruct (Nat.eq_dec l0 l1) as [->|Hne].
    + destruct (Nat.lt_ge_cases l1 (length os)).
      * rewrite nth_error_upd_eq by auto. auto.
      * rewrite upd_out by auto. apply H.
    + rewrite nth_error_upd_neq by auto. apply H.
Qed.

Lemma abs_link h ls vs :
  wf h -> vals_of h ls = Some vs ->
  abs (push_arr (with_objs (with_store h (store h ++ vs))
                           (repoint (objs h) ls (seq (length (store h)) (length vs))))
                (seq (length (store h)) (length vs))) = abs h.
Proof.
  intros W Hv. rewrite abs_push_arr.
  set (h' := with_objs (with_store h (store h ++ vs)) (repoint (objs h) ls (seq (length (store h)) (length vs)))).
  assert (V : forall l, val_of h' l = val_of h l).
  { intros l. unfold val_of at 1. unfold obj_of, h'. hs.
    apply (repoint_vals h vs (objs h) ls (seq (length (store h)) (length vs))).
    - intros l1. unfold val_of, obj_of. unfold loc, sloc in *.
      destruct (@nth_error nat (objs h) l1) as [s|] eqn:E; auto.
      pose proof (Forall_nth_error _ _ _ _ (wf_objs _ W) E) as X. simpl in X.
      apply nth_error_app1. exact X.
    - clear h'. unfold vals_of in Hv. revert vs Hv. generalize (store h) as st.
      induction ls as [|l0 ls IH]; intros st vs Hv; simpl in Hv.
      + inversion Hv; subst. constructor.
      + destruct (val_of h l0) as [v|] eqn:E0; [|discriminate].
        destruct (mapM (val_of h) ls) as [r|] eqn:Er; [|discriminate]. inversion Hv; subst.
        simpl. constructor.
        * rewrite nth_error_app2 by lia. rewrite Nat.sub_diag. simpl. symmetry. exact E0.
        * specialize (IH (st ++ [v]) r eq_refl). rewrite app_length in IH. simpl in IH.
          rewrite Nat.add_1_r in IH. rewrite <- app_assoc in IH. exact IH. }
  Transparent abs. unfold abs. Opaque abs. unfold h' at 2 3 4 5. hs. apply spec_eq_intro; auto.
  - apply abs_vals_ext; auto.
  - apply map_ext. intros e. f_equal. apply abs_vals_ext; auto.
  - apply map_ext. intros e. f_equal. apply abs_vals_ext; auto.
Qed.

Lemma refine_link h c : wf h -> refines h (OLink c).
Proof.
  intros W. unfold refines. simpl. unfold exec_link. rewrite abs_ems_nth.
  destruct (nth_error (ems h) c) as [e|] eqn:Ee; simpl; auto.
  pose proof (abs_vals_vals h (e_mem e) W (wf_em _ _ _ W Ee)) as Hv. rewrite Hv.
  destruct (objs_of_ok h (e_mem e) (wf_em _ _ _ W Ee)) as [ss Hs]. rewrite Hs.
  destruct (abs_vals h (e_mem e)) as [|v0 vs] eqn:Ea.
  - destruct (e_dtype e); reflexivity.
  - destruct (negb (all_eqb Nat.eqb (map cls (v0 :: vs)))); [reflexivity|].
    destruct (all_eqb dtype_eqb (map dtype_of (v0 :: vs))).
    + cbn [fst snd]. rewrite (abs_link h (e_mem e) (v0 :: vs) W Hv). reflexivity.
    + reflexivity.
Qed.

(* time courses *)
Lemma mapM_nth_map {A B} (F : A -> B) (l : list A) cs :
  mapM (nth_error (map F l)) cs = option_map (map F) (mapM (nth_error l) cs).
Proof.
  induction cs as [|c cs IH]; simpl; auto.
  rewrite nth_error_map. destruct (nth_error l c); simpl; auto.
  rewrite IH. destruct (mapM (nth_error l) cs); reflexivity.
Qed.

Definition absE (h : heap) (e : emul) := (e_dtype e, abs_vals h (e_mem e)).

Lemma s_hnd_abs h : s_hnd (abs h) = abs_vals h (hnd h).
Proof. Transparent abs. reflexivity. Qed.
Lemma s_ems_abs h : s_ems (abs h) = map (absE h) (ems h).
Proof. reflexivity. Qed.
Lemma s_tcs_abs h : s_tcs (abs h) = map (fun t => (tc_times h t, tc_ems t)) (tcs h).
Proof. reflexivity. Qed.
Lemma s_trs_abs h : s_trs (abs h) = map (fun k => (tr_times h k, abs_vals h (tr_drops k))) (trs h).
Proof. reflexivity. Qed.
Lemma s_tls_abs h : s_tls (abs h) = tls h.
Proof. reflexivity. Qed.
Lemma s_tvars_abs h : s_tvars (abs h) = map (tl_get h) (tvars h).
Proof. reflexivity. Qed.
Opaque abs.

Lemma abs_tvars_nth h j : nth_error (s_tvars (abs h)) j = option_map (tl_get h) (nth_error (tvars h) j).
Proof. rewrite s_tvars_abs, nth_error_map. reflexivity. Qed.

Lemma abs_vals_new_em_old h vs ls : wf h -> locs_ok h ls -> abs_vals (new_em_vals h vs) ls = abs_vals h ls.
Proof.
  intros W H. unfold new_em_vals. rewrite (abs_vals_tables (alloc h vs) (push_em (alloc h vs) _)) by reflexivity.
  apply abs_vals_alloc_old; auto.
Qed.

Lemma abs_copy_ems h es h1 :
  wf h -> Forall (fun e => locs_ok h (e_mem e)) es -> copy_ems h es = Some h1 ->
  abs h1 = sp_ems (abs h) (s_ems (abs h) ++ map sp_fresh (map (absE h) es)).
Proof.
  revert h; induction es as [|e es IH]; simpl; intros h W H E.
  - inversion E; subst. rewrite app_nil_r. destruct (abs h1); reflexivity.
  - inversion H as [|? ? He Hes]; subst.
    rewrite (abs_vals_vals h (e_mem e) W He) in E.
    assert (Hes' : Forall (fun e0 => locs_ok (new_em_vals h (abs_vals h (e_mem e))) (e_mem e0)) es).
    { eapply Forall_impl; [|exact Hes]. intros a Ha.
      eapply Forall_lt_mono with (f := fun x => x); [|exact Ha]. apply objs_new_em_vals. }
    rewrite (IH _ (wf_new_em_vals h _ W) Hes' E).
    rewrite abs_new_em_vals by auto. unfold sp_new_em, sp_ems. cbn [s_ems s_hnd s_tcs s_trs s_tls s_tvars].
    rewrite <- app_assoc. simpl. f_equal. f_equal. f_equal. f_equal.
    apply map_ext_Forall with (P := fun e0 => locs_ok h (e_mem e0)); auto.
    intros a Ha. unfold absE. f_equal. apply abs_vals_new_em_old; auto.
Qed.

Lemma tc_times_in h h' tl ems0 : tl_get h' tl = tl_get h tl -> tc_times h' (mkTC tl ems0) = tl_get h tl.
Proof. intros E. unfold tc_times. exact E. Qed.

Lemma refine_build_tc h es ts :
  wf h -> Forall (fun e => locs_ok h (e_mem e)) es ->
  sp_build_tc (abs h) (map (absE h) es) ts = (abs (fst (build_tc h es ts)), snd (build_tc h es ts)).
Proof.
  intros W H. unfold sp_build_tc, build_tc.
  destruct (copy_ems_total h es W H) as [h1 H1]. rewrite H1. rewrite !map_length.
  destruct (Nat.eqb (length ts) (length es)); simpl; auto.
  destruct (wf_copy_ems h es h1 W H H1) as [W1 _].
  destruct (copy_ems_tables h es h1 H1) as (_ & _ & _ & _ & _ & T6 & _).
  rewrite abs_push_tc, abs_alloc_tl by auto. unfold tc_times. cbn [tc_tl tc_ems].
  rewrite <- T6. rewrite (tl_get_alloc_new h1 (alloc_tl h1 ts) ts) by reflexivity.
  rewrite (abs_copy_ems h es h1 W H H1). unfold new_cids. rewrite s_ems_abs, map_length. reflexivity.
Qed.

Lemma refine_build_tr h vs ts :
  wf h -> sp_build_tr (abs h) vs ts = (abs (fst (build_tr h vs ts)), snd (build_tr h vs ts)).
Proof.
  intros W. unfold sp_build_tr, build_tr. destruct (same_dims vs); simpl; auto.
  destruct (Nat.eqb (length ts) (length vs)); simpl; auto.
  rewrite abs_push_tr. unfold tr_times. cbn [tr_tl tr_drops].
  rewrite (abs_vals_tables (alloc h vs) (alloc_tl (alloc h vs) ts)) by reflexivity.
  rewrite abs_alloc_tl, abs_alloc by (auto; apply wf_alloc; auto).
  change (length (tlists h)) with (length (tlists (alloc h vs))).
  rewrite (tl_get_alloc_new (alloc h vs) (alloc_tl (alloc h vs) ts) ts) by reflexivity.
  rewrite abs_vals_alloc_new. reflexivity.
Qed.

Lemma tc_times_ok h t tc : wf h -> nth_error (tcs h) t = Some tc -> times_of h (tc_tl tc) = Some (tc_times h tc).
Proof.
  intros W E. destruct (times_of_ok h (tc_tl tc) (wf_tc_tl_lt _ _ _ W E)) as [ts Hts].
  unfold tc_times. rewrite (tl_get_some _ _ _ Hts). exact Hts.
Qed.
Lemma tr_times_ok h k tr : wf h -> nth_error (trs h) k = Some tr -> times_of h (tr_tl tr) = Some (tr_times h tr).
Proof.
  intros W E. destruct (times_of_ok h (tr_tl tr) (wf_tr_tl_lt _ _ _ W E)) as [ts Hts].
  unfold tr_times. rewrite (tl_get_some _ _ _ Hts). exact Hts.
Qed.
Lemma tvar_times_ok h j tl : wf h -> nth_error (tvars h) j = Some tl -> times_of h tl = Some (tl_get h tl).
Proof.
  intros W E. destruct (times_of_ok h tl (wf_tvar_lt _ _ _ W E)) as [ts Hts].
  rewrite (tl_get_some _ _ _ Hts). exact Hts.
Qed.

Lemma refine_tcnew h cs times : wf h -> refines h (OTcNew cs times).
Proof.
  intros W. unfold refines. simpl. unfold exec_tcnew. rewrite s_ems_abs, mapM_nth_map.
  destruct (mapM (nth_error (ems h)) cs) as [es|] eqn:E; simpl; auto.
  rewrite map_length. apply refine_build_tc; auto. eapply wf_mapM_ems; eauto.
Qed.

Lemma refine_tccopy h t : wf h -> refines h (OTcCopy t).
Proof.
  intros W. unfold refines. simpl. unfold exec_tccopy. rewrite abs_tcs_nth.
  destruct (nth_error (tcs h) t) as [tc|] eqn:Et; simpl; auto.
  rewrite (tc_times_ok h t tc W Et). rewrite s_ems_abs, mapM_nth_map.
  destruct (mapM (nth_error (ems h)) (tc_ems tc)) as [es|] eqn:E; simpl; auto.
  apply refine_build_tc; auto. eapply wf_mapM_ems; eauto.
Qed.

Lemma refine_tcnewl h cs j : wf h -> refines h (OTcNewL cs j).
Proof.
  intros W. unfold refines. simpl. unfold exec_tcnewl. rewrite s_ems_abs, mapM_nth_map, abs_tvars_nth.
  destruct (mapM (nth_error (ems h)) cs) as [es|] eqn:E; simpl; auto.
  destruct (nth_error (tvars h) j) as [tl|] eqn:Ej; simpl; auto.
  rewrite (tvar_times_ok h j tl W Ej).
  apply refine_build_tc; auto. eapply wf_mapM_ems; eauto.
Qed.

Lemma refine_tcslice h t lo hi : wf h -> refines h (OTcSlice t lo hi).
Proof.
  intros W. unfold refines. simpl. unfold exec_tcslice. rewrite abs_tcs_nth.
  destruct (nth_error (tcs h) t) as [tc|] eqn:Et; simpl; auto.
  rewrite (tc_times_ok h t tc W Et). rewrite s_ems_abs, mapM_nth_map.
  destruct (mapM (nth_error (ems h)) (slice lo hi (tc_ems tc))) as [es|] eqn:E; simpl; auto.
  apply refine_build_tc; auto. eapply wf_mapM_ems; eauto.
Qed.

Lemma refine_tcappend_bad h t : refines h (OTcAppendBad t).
Proof.
  unfold refines. simpl. unfold exec_tcappend_bad. rewrite abs_tcs_nth.
  destruct (nth_error (tcs h) t); reflexivity.
Qed.

Lemma upd_upd {A} (l : list A) n x y : upd (upd l n x) n y = upd l n y.
Proof. revert n; induction l as [|a l IH]; intros [|n]; simpl; auto. f_equal; auto. Qed.

(* a write to the times list of time course t *)
Transparent abs.
Lemma abs_set_tl_tc h t tc x :
  wf h -> Aligned h -> nth_error (tcs h) t = Some tc ->
  abs (set_tl h (tc_tl tc) x) = sp_tcs (abs h) (upd (s_tcs (abs h)) t (x, tc_ems tc)).
Proof.
  intros W (S & _) Et. assert (Hlt : tc_tl tc < length (tlists h)) by (eapply wf_tc_tl_lt; eauto).
  set (h' := set_tl h (tc_tl tc) x).
  assert (E3 : tlists h' = upd (tlists h) (tc_tl tc) x) by reflexivity.
  unfold abs, sp_tcs. apply spec_eq_intro; auto.
  - cbn [s_tcs]. change (tcs h') with (tcs h).
    rewrite (map_change_at (fun t0 => (tc_times h t0, tc_ems t0)) (fun t0 => (tc_times h' t0, tc_ems t0)) (tcs h) t tc Et).
    + f_equal. f_equal. unfold tc_times. apply (tl_get_set_same h h' (tc_tl tc) x); auto.
    + intros t' tc' Hne E'. f_equal. unfold tc_times. apply (tl_get_set_other h h' (tc_tl tc) x); auto.
      eapply (tsep_tc_tc h t t'); eauto.
  - cbn [s_trs]. change (trs h') with (trs h). apply map_ext_in. intros k Hk.
    apply In_nth_error in Hk as [n Hn]. f_equal. unfold tr_times.
    apply (tl_get_set_other h h' (tc_tl tc) x); auto. eapply tsep_tc_tr; eauto.
  - cbn [s_tvars]. change (tvars h') with (tvars h). apply map_ext_in. intros tl Htl.
    apply In_nth_error in Htl as [n Hn]. apply (tl_get_set_other h h' (tc_tl tc) x); auto.
    intros ->. eapply tsep_tv_tc; eauto.
Qed.

Lemma abs_set_tl_tr h k tr x :
  wf h -> Aligned h -> nth_error (trs h) k = Some tr ->
  abs (set_tl h (tr_tl tr) x) = sp_trs (abs h) (upd (s_trs (abs h)) k (x, abs_vals h (tr_drops tr))).
Proof.
  intros W (S & _) Et. assert (Hlt : tr_tl tr < length (tlists h)) by (eapply wf_tr_tl_lt; eauto).
  set (h' := set_tl h (tr_tl tr) x).
  assert (E3 : tlists h' = upd (tlists h) (tr_tl tr) x) by reflexivity.
  unfold abs, sp_trs. apply spec_eq_intro; auto.
  - cbn [s_tcs]. change (tcs h') with (tcs h). apply map_ext_in. intros tc Hc.
    apply In_nth_error in Hc as [n Hn]. f_equal. unfold tc_times.
    apply (tl_get_set_other h h' (tr_tl tr) x); auto. intros Heq. eapply (tsep_tc_tr h n k); eauto.
  - cbn [s_trs]. change (trs h') with (trs h).
    rewrite (map_change_at (fun k0 => (tr_times h k0, abs_vals h (tr_drops k0)))
                           (fun k0 => (tr_times h' k0, abs_vals h' (tr_drops k0))) (trs h) k tr Et).
    + f_equal. f_equal. unfold tr_times. apply (tl_get_set_same h h' (tr_tl tr) x); auto.
    + intros k' tr' Hne E'. f_equal. unfold tr_times. apply (tl_get_set_other h h' (tr_tl tr) x); auto.
      eapply (tsep_tr_tr h k k'); eauto.
  - cbn [s_tvars]. change (tvars h') with (tvars h). apply map_ext_in. intros tl Htl.
    apply In_nth_error in Htl as [n Hn]. apply (tl_get_set_other h h' (tr_tl tr) x); auto.
    intros ->. eapply tsep_tv_tr; eauto.
Qed.

Lemma abs_set_tl_tvar h j tl x :
  wf h -> Aligned h -> nth_error (tvars h) j = Some tl ->
  abs (set_tl h tl x) = sp_tvars (abs h) (upd (s_tvars (abs h)) j x).
Proof.
  intros W (S & _) Ej. assert (Hlt : tl < length (tlists h)) by (eapply wf_tvar_lt; eauto).
  set (h' := set_tl h tl x).
  assert (E3 : tlists h' = upd (tlists h) tl x) by reflexivity.
  unfold abs, sp_tvars. apply spec_eq_intro; auto.
  - cbn [s_tcs]. change (tcs h') with (tcs h). apply map_ext_in. intros tc Hc.
    apply In_nth_error in Hc as [n Hn]. f_equal. unfold tc_times.
    apply (tl_get_set_other h h' tl x); auto. eapply tsep_tv_tc; eauto.
  - cbn [s_trs]. change (trs h') with (trs h). apply map_ext_in. intros k Hk.
    apply In_nth_error in Hk as [n Hn]. f_equal. unfold tr_times.
    apply (tl_get_set_other h h' tl x); auto. eapply tsep_tv_tr; eauto.
  - cbn [s_tvars]. change (tvars h') with (tvars h).
    rewrite (map_change_at (tl_get h) (tl_get h') (tvars h) j tl Ej).
    + f_equal. apply (tl_get_set_same h h' tl x); auto.
    + intros j' tl' Hne E'. apply (tl_get_set_other h h' tl x); auto.
      intros ->. apply Hne. eapply tsep_tv_tv; eauto.
Qed.
Opaque abs.

Lemma Aligned_new_em_vals h vs : Aligned h -> Aligned (new_em_vals h vs).
Proof. apply Aligned_same; reflexivity. Qed.
Lemma Aligned_alloc h vs : Aligned h -> Aligned (alloc h vs).
Proof. apply Aligned_same; reflexivity. Qed.

Lemma refine_tcappend h t c tm cp : wf h -> Aligned h -> refines h (OTcAppend t c tm cp).
Proof.
  intros W A. unfold refines. simpl. unfold exec_tcappend. rewrite abs_tcs_nth, abs_ems_nth.
  destruct (nth_error (tcs h) t) as [tc|] eqn:Et; simpl; auto.
  destruct (nth_error (ems h) c) as [e|] eqn:Ee; simpl; auto.
  rewrite (abs_vals_vals h (e_mem e) W (wf_em _ _ _ W Ee)).
  rewrite (tc_times_ok h t tc W Et). cbn [fst snd].
  rewrite abs_set_tc. cbn [tc_ems tc_tl].
  set (h1 := new_em_vals h (abs_vals h (e_mem e))).
  assert (W1 : wf h1) by (apply wf_new_em_vals; auto).
  assert (A1 : Aligned h1) by (apply Aligned_new_em_vals; auto).
  assert (Et1 : nth_error (tcs h1) t = Some tc) by exact Et.
  set (x := tc_times h tc ++ [match tm with Some q => q | None => default_time (tc_times h tc) end]).
  rewrite (abs_set_tl_tc h1 t tc x W1 A1 Et1).
  unfold tc_times at 1. cbn [tc_tl].
  rewrite (tl_get_set_same h1 (set_tl h1 (tc_tl tc) x) (tc_tl tc) x) by (auto; eapply wf_tc_tl_lt; eauto).
  unfold h1. rewrite abs_new_em_vals by auto.
  unfold sp_tcs, sp_new_em, sp_ems. cbn [s_hnd s_ems s_tcs s_trs s_tls s_tvars]. rewrite upd_upd.
  rewrite s_ems_abs, map_length. reflexivity.
Qed.

Lemma refine_tcclear h t : wf h -> refines h (OTcClear t).
Proof.
  intros W. unfold refines. simpl. unfold exec_tcclear. rewrite abs_tcs_nth.
  destruct (nth_error (tcs h) t); simpl; auto. rewrite abs_set_tc, abs_alloc_tl by auto.
  unfold tc_times. cbn [tc_tl tc_ems].
  rewrite (tl_get_alloc_new h (alloc_tl h []) []) by reflexivity. reflexivity.
Qed.

(* tracks *)
Lemma refine_trnew h is times : wf h -> refines h (OTrNew is times).
Proof.
  intros W. unfold refines. simpl. unfold exec_trnew.
  destruct (mapM (nth_error (hnd h)) is) as [ls|] eqn:E.
  - rewrite (mapM_hnd_abs h is ls W E).
    rewrite (abs_vals_vals h ls W (locs_ok_mapM_hnd _ _ _ W E)). apply refine_build_tr; auto.
  - rewrite (mapM_hnd_abs_none h is W E). reflexivity.
Qed.

Lemma refine_trnewl h is j : wf h -> refines h (OTrNewL is j).
Proof.
  intros W. unfold refines. simpl. unfold exec_trnewl. rewrite abs_tvars_nth.
  destruct (mapM (nth_error (hnd h)) is) as [ls|] eqn:E.
  - rewrite (mapM_hnd_abs h is ls W E).
    destruct (nth_error (tvars h) j) as [tl|] eqn:Ej; simpl; auto.
    rewrite (abs_vals_vals h ls W (locs_ok_mapM_hnd _ _ _ W E)). rewrite (tvar_times_ok h j tl W Ej).
    apply refine_build_tr; auto.
  - rewrite (mapM_hnd_abs_none h is W E). reflexivity.
Qed.

Lemma refine_trcopy h k : wf h -> refines h (OTrCopy k).
Proof.
  intros W. unfold refines. simpl. unfold exec_trcopy. rewrite abs_trs_nth.
  destruct (nth_error (trs h) k) as [tr|] eqn:Et; simpl; auto.
  rewrite (abs_vals_vals h (tr_drops tr) W (wf_tr _ _ _ W Et)). rewrite (tr_times_ok h k tr W Et).
  apply refine_build_tr; auto.
Qed.

Lemma refine_trslice h k lo hi : wf h -> refines h (OTrSlice k lo hi).
Proof.
  intros W. unfold refines. simpl. unfold exec_trslice. rewrite abs_trs_nth.
  destruct (nth_error (trs h) k) as [tr|] eqn:Et; simpl; auto.
  pose proof (abs_vals_vals h (tr_drops tr) W (wf_tr _ _ _ W Et)) as Hd.
  unfold vals_of in *. rewrite (mapM_slice _ lo hi _ _ Hd). rewrite (tr_times_ok h k tr W Et).
  apply refine_build_tr; auto.
Qed.

Lemma refine_trappend h k i tm : wf h -> Aligned h -> refines h (OTrAppend k i tm).
Proof.
  intros W A. unfold refines. simpl. unfold exec_trappend. rewrite abs_trs_nth, abs_hnd_nth by auto.
  destruct (nth_error (trs h) k) as [tr|] eqn:Et; simpl; auto.
  destruct (nth_error (hnd h) i) as [l|] eqn:Ei; simpl; auto.
  destruct (val_of_ok h l W (wf_hnd_lt _ _ _ W Ei)) as [v Hv]. rewrite Hv.
  pose proof (abs_vals_vals h (tr_drops tr) W (wf_tr _ _ _ W Et)) as Hd. unfold vals_of in Hd. rewrite Hd.
  rewrite (tr_times_ok h k tr W Et).
  match goal with |- context [if ?b then _ else _] => destruct b end; simpl; auto.
  rewrite abs_set_tr. cbn [tr_tl tr_drops].
  set (h1 := alloc h [v]).
  assert (W1 : wf h1) by (apply wf_alloc; auto).
  assert (A1 : Aligned h1) by (apply Aligned_alloc; auto).
  assert (Et1 : nth_error (trs h1) k = Some tr) by exact Et.
  set (x := tr_times h tr ++ [match tm with Some q => q | None => default_time (tr_times h tr) end]).
  rewrite (abs_set_tl_tr h1 k tr x W1 A1 Et1).
  unfold tr_times at 1. cbn [tr_tl].
  rewrite (tl_get_set_same h1 (set_tl h1 (tr_tl tr) x) (tr_tl tr) x) by (auto; eapply wf_tr_tl_lt; eauto).
  rewrite (abs_vals_tables h1 (set_tl h1 (tr_tl tr) x)) by reflexivity.
  unfold h1. rewrite abs_alloc by auto.
  rewrite abs_vals_app, abs_vals_alloc_old, abs_vals_alloc_new1 by (auto; eapply wf_tr; eauto).
  unfold sp_trs. cbn [s_hnd s_ems s_tcs s_trs s_tls s_tvars]. rewrite upd_upd. reflexivity.
Qed.

Lemma refine_trappend_bad h k : refines h (OTrAppendBad k).
Proof.
  unfold refines. simpl. unfold exec_trappend_bad. rewrite abs_trs_nth.
  destruct (nth_error (trs h) k); reflexivity.
Qed.

Lemma refine_tlnew h ks : refines h (OTlNew ks).
Proof.
  unfold refines. simpl. unfold exec_tlnew. rewrite s_trs_abs, mapM_nth_map.
  destruct (mapM (nth_error (trs h)) ks); simpl; auto.
Qed.

Lemma mapM_times_total h trl : wf h -> Forall (fun k => tr_tl k < length (tlists h)) trl ->
  mapM (fun tr => times_of h (tr_tl tr)) trl = Some (map (tr_times h) trl).
Proof.
  intros W. induction trl as [|tr trl IH]; simpl; intros H; auto.
  inversion H; subst. destruct (times_of_ok h (tr_tl tr) H2) as [ts Hts]. rewrite Hts.
  rewrite IH by auto. f_equal. f_equal. unfold tr_times. rewrite (tl_get_some _ _ _ Hts). reflexivity.
Qed.

Lemma refine_tlremove h l q : wf h -> refines h (OTlRemoveShort l q).
Proof.
  intros W. unfold refines. simpl. unfold exec_tlremove. rewrite s_tls_abs.
  destruct (nth_error (tls h) l) as [ks|]; simpl; auto.
  rewrite s_trs_abs, mapM_nth_map.
  destruct (mapM (nth_error (trs h)) ks) as [trl|] eqn:E; simpl; auto.
  rewrite (mapM_times_total h trl W (mapM_nth_error_P _ _ _ _ (wf_tr_tl _ W) E)).
  cbn [fst snd]. rewrite abs_with_tls, !map_map. reflexivity.
Qed.

(* the caller's lists of times *)
Lemma refine_tlistnew h ts : wf h -> refines h (OTlistNew ts).
Proof.
  intros W. unfold refines. simpl. unfold exec_tlistnew. cbn [fst snd].
  rewrite abs_with_tvars, abs_alloc_tl by auto. rewrite map_app. cbn [map].
  rewrite (tl_get_alloc_new h (alloc_tl h ts) ts) by reflexivity.
  rewrite s_tvars_abs. f_equal. f_equal. f_equal.
  eapply map_ext_Forall; [apply (wf_tvars _ W)|]. intros tl Htl.
  symmetry. apply (tl_get_alloc_old h (alloc_tl h ts) ts); auto.
Qed.

Lemma refine_tlistappend h j q : wf h -> Aligned h -> refines h (OTlistAppend j q).
Proof.
  intros W A. unfold refines. simpl. unfold exec_tlistappend. rewrite abs_tvars_nth.
  destruct (nth_error (tvars h) j) as [tl|] eqn:Ej; simpl; auto.
  rewrite (tvar_times_ok h j tl W Ej). cbn [fst snd].
  rewrite (abs_set_tl_tvar h j tl _ W A Ej). reflexivity.
Qed.

Lemma refine_tlistset h j i q : wf h -> Aligned h -> refines h (OTlistSet j i q).
Proof.
  intros W A. unfold refines. simpl. unfold exec_tlistset. rewrite abs_tvars_nth.
  destruct (nth_error (tvars h) j) as [tl|] eqn:Ej; simpl; auto.
  rewrite (tvar_times_ok h j tl W Ej).
  destruct (i <? length (tl_get h tl)); simpl; auto.
  rewrite (abs_set_tl_tvar h j tl _ W A Ej). reflexivity.
Qed.

(* ---- constructor, clones, general slices ---- *)

Lemma extend_locs_val h c ls cp f l' :
  wf h -> locs_ok h ls -> l' < length (objs h) ->
  val_of (fst (extend_locs h c ls cp f)) l' = val_of h l'.
Proof.
  revert h; induction ls as [|l ls IH]; intros h W H Hl; simpl; auto.
  inversion H as [|? ? Hl0 Hls]; subst.
  destruct (wf_append_loc h c l cp f W Hl0) as (W1 & Hle & _).
  pose proof (append_loc_val h c l cp f l' W Hl) as X.
  destruct (append_loc h c l cp f) as [h1 [|e]]; simpl in *; auto.
  rewrite IH; auto; [|lia].
  eapply Forall_lt_mono with (f := fun x => x); [|exact Hls]. exact Hle.
Qed.

Lemma construct_val h dt ls cp f l' :
  wf h -> locs_ok h ls -> l' < length (objs h) ->
  val_of (fst (construct h dt ls cp f)) l' = val_of h l'.
Proof.
  intros W H Hl. destruct (construct h dt ls cp f) as [h1 [|x]] eqn:E; simpl.
  - rewrite (construct_ok _ _ _ _ _ _ E).
    rewrite (extend_locs_val (push_em h (mkE dt [])) (length (ems h)) ls cp f l' (wf_push_em_empty h dt W) H Hl).
    reflexivity.
  - rewrite (construct_err _ _ _ _ _ _ _ E). reflexivity.
Qed.

Lemma refine_construct h dt ls f :
  wf h -> locs_ok h ls ->
  sp_construct (abs h) dt (abs_vals h ls) f
  = (abs (fst (construct h dt ls true f)), snd (construct h dt ls true f)).
Proof.
  intros W H. unfold sp_construct, construct.
  pose proof (refine_extend_locs (push_em h (mkE dt [])) (length (ems h)) ls f (wf_push_em_empty h dt W) H) as R.
  rewrite abs_push_em in R. cbn [e_dtype e_mem] in R.
  rewrite (abs_vals_tables h (push_em h (mkE dt [])) ls) in R by reflexivity.
  change (abs_vals h []) with (@nil value) in R.
  replace (length (s_ems (abs h))) with (length (ems h)) by (rewrite s_ems_abs, map_length; reflexivity).
  rewrite R.
  destruct (extend_locs (push_em h (mkE dt [])) (length (ems h)) ls true f) as [h1 [|x]]; reflexivity.
Qed.

Lemma refine_emctor h is dt f : wf h -> refines h (OEmCtor is dt true f).
Proof.
  intros W. unfold refines. simpl. unfold exec_emctor.
  destruct (mapM (nth_error (hnd h)) is) as [ls|] eqn:E.
  - rewrite (mapM_hnd_abs h is ls W E). pose proof (locs_ok_mapM_hnd _ _ _ W E) as Hls.
    destruct dt as [i|]; [|apply refine_construct; auto].
    rewrite abs_hnd_nth by auto. destruct (nth_error (hnd h) i) as [l|] eqn:Ei; simpl; auto.
    destruct (val_of_ok h l W (wf_hnd_lt _ _ _ W Ei)) as [v Hv]. rewrite Hv. apply refine_construct; auto.
  - rewrite (mapM_hnd_abs_none h is W E). reflexivity.
Qed.

Lemma refine_emclone h c : wf h -> refines h (OEmClone c).
Proof.
  intros W. unfold refines. simpl. unfold exec_emclone. rewrite abs_ems_nth.
  destruct (nth_error (ems h) c) as [e|] eqn:Ee; simpl; auto.
  apply refine_construct; auto. eapply wf_em; eauto.
Qed.

Lemma refine_sel h c idxs : wf h -> refines h (OSel c idxs).
Proof.
  intros W. unfold refines. simpl. unfold exec_sel, new_em_from. rewrite abs_ems_nth.
  destruct (nth_error (ems h) c) as [e|] eqn:Ee; simpl; auto.
  pose proof (abs_vals_vals h (e_mem e) W (wf_em _ _ _ W Ee)) as Hv.
  unfold vals_of in *. rewrite (mapM_sel _ idxs _ _ Hv). simpl.
  rewrite abs_new_em_vals by auto. reflexivity.
Qed.

Lemma refine_tcsel h t idxs : wf h -> refines h (OTcSel t idxs).
Proof.
  intros W. unfold refines. simpl. unfold exec_tcsel. rewrite abs_tcs_nth.
  destruct (nth_error (tcs h) t) as [tc|] eqn:Et; simpl; auto.
  rewrite (tc_times_ok h t tc W Et). rewrite s_ems_abs, mapM_nth_map.
  destruct (mapM (nth_error (ems h)) (sel idxs (tc_ems tc))) as [es|] eqn:E; simpl; auto.
  apply refine_build_tc; auto. eapply wf_mapM_ems; eauto.
Qed.

Lemma refine_trsel h k idxs : wf h -> refines h (OTrSel k idxs).
Proof.
  intros W. unfold refines. simpl. unfold exec_trsel. rewrite abs_trs_nth.
  destruct (nth_error (trs h) k) as [tr|] eqn:Et; simpl; auto.
  pose proof (abs_vals_vals h (tr_drops tr) W (wf_tr _ _ _ W Et)) as Hd.
  unfold vals_of in *. rewrite (mapM_sel _ idxs _ _ Hd). rewrite (tr_times_ok h k tr W Et).
  apply refine_build_tr; auto.
Qed.

Lemma refine_clone_ems h es :
  wf h -> Forall (fun e => locs_ok h (e_mem e)) es ->
  sp_clone_ems (abs h) (map (absE h) es) = (abs (fst (clone_ems h es)), snd (clone_ems h es)).
Proof.
  revert h; induction es as [|e es IH]; intros h W H; simpl; auto.
  inversion H as [|? ? He Hes]; subst.
  rewrite (refine_construct h (e_dtype e) (e_mem e) false W He).
  pose proof (wf_construct h (e_dtype e) (e_mem e) true false W He) as W1.
  pose proof (fun l' => construct_val h (e_dtype e) (e_mem e) true false l' W He) as V.
  destruct (construct h (e_dtype e) (e_mem e) true false) as [h1 [|x]] eqn:E; simpl in *; auto.
  destruct (construct_tables _ _ _ _ _ _ W He E) as (_ & _ & _ & _ & _ & _ & _ & _ & T9).
  assert (Hes1 : Forall (fun e0 => locs_ok h1 (e_mem e0)) es).
  { eapply Forall_impl; [|exact Hes]. intros a Ha.
    eapply Forall_lt_mono with (f := fun x => x); [|exact Ha]. exact T9. }
  rewrite <- (IH h1 W1 Hes1). f_equal.
  apply map_ext_Forall with (P := fun e0 => locs_ok h (e_mem e0)); auto.
  intros a Ha. unfold absE. f_equal. symmetry. apply abs_vals_ext. intros l Hl. apply V.
  unfold locs_ok in Ha. rewrite Forall_forall in Ha. auto.
Qed.

Lemma refine_tcclone h t : wf h -> refines h (OTcClone t).
Proof.
  intros W. unfold refines. simpl. unfold exec_tcclone. rewrite abs_tcs_nth.
  destruct (nth_error (tcs h) t) as [tc|] eqn:Et; simpl; auto.
  rewrite (tc_times_ok h t tc W Et). rewrite s_ems_abs, mapM_nth_map.
  destruct (mapM (nth_error (ems h)) (tc_ems tc)) as [es|] eqn:E; simpl; auto.
  pose proof (wf_mapM_ems _ _ _ W E) as Hes.
  rewrite (refine_clone_ems h es W Hes).
  destruct (clone_ems_inv h es W Hes) as (W1 & _ & _ & _ & _ & _ & _ & T6 & _ & _ & _).
  destruct (clone_ems h es) as [h1 [|x]]; simpl in *; auto.
  rewrite abs_push_tc, abs_alloc_tl by auto. unfold tc_times at 2. cbn [tc_tl tc_ems].
  rewrite <- T6. rewrite (tl_get_alloc_new h1 (alloc_tl h1 (tc_times h tc)) (tc_times h tc)) by reflexivity.
  unfold new_cids. rewrite !map_length. reflexivity.
Qed.

Lemma refine_extend_self h c f : wf h -> refines h (OExtendSelf c true f).
Proof.
  intros W. unfold refines. simpl. unfold exec_extend_self. rewrite abs_ems_nth.
  destruct (nth_error (ems h) c) as [e|] eqn:Ee; simpl; auto.
  apply refine_extend_locs; auto. eapply wf_em; eauto.
Qed.

(* ------------------------------------------------------------------------------------ *)
(* the refinement theorem                                                                *)
(* ------------------------------------------------------------------------------------ *)

Theorem abs_refines_list h o :
  wf h -> Sep h -> Aligned h -> list_op o = true ->
  spec_step (abs h) o = (abs (fst (exec h o)), snd (exec h o)).
Proof.
  intros W S A Ho. destruct_op o; simpl in Ho; try discriminate; try subst cp.
  - apply refine_new; auto.
  - apply refine_seth; auto.
  - apply refine_emnew.
  - apply refine_append; auto.
  - apply refine_extend; auto.
  - apply refine_setm; auto.
  - apply refine_copy; auto.
  - apply refine_slice; auto.
  - apply refine_add; auto.
  - apply refine_remove_small; auto.
  - apply refine_remove_overlap; auto.
  - apply refine_link; auto.
  - apply refine_merge; auto.
  - apply refine_tcnew; auto.
  - apply refine_tcappend; auto.
  - apply refine_tcappend_bad.
  - apply refine_tcslice; auto.
  - apply refine_tcclear; auto.
  - apply refine_trnew; auto.
  - apply refine_trappend; auto.
  - apply refine_trappend_bad.
  - apply refine_trslice; auto.
  - apply refine_tlnew.
  - apply refine_tlremove; auto.
  - apply refine_tccopy; auto.
  - apply refine_tcnewl; auto.
  - apply refine_trcopy; auto.
  - apply refine_trnewl; auto.
  - apply refine_tlistnew; auto.
  - apply refine_tlistappend; auto.
  - apply refine_tlistset; auto.
  - apply refine_emctor; auto.
  - apply refine_emclone; auto.
  - apply refine_sel; auto.
  - apply refine_tcsel; auto.
  - apply refine_trsel; auto.
  - apply refine_tcclone; auto.
  - apply refine_extend_self; auto.
Qed.

(* over whole operation sequences, from the empty heap: same contents and same outcomes *)
Fixpoint spec_trace (s : spec) (os : list op) : list outcome :=
  match os with
  | [] => []
  | o :: r => snd (spec_step s o) :: spec_trace (fst (spec_step s o)) r
  end.

Theorem abs_refines_list_run os : forall h,
  wf h -> Sep h -> Aligned h -> Forall (fun o => list_op o = true) os ->
  abs (run h os) = spec_run (abs h) os /\ map snd (run_trace h os) = spec_trace (abs h) os.
Proof.
  induction os as [|o os IH]; intros h W S A H; simpl; auto.
  inversion H as [|? ? Ho Hos]; subst.
  pose proof (abs_refines_list h o W S A Ho) as R.
  assert (So : sep_op o = true) by (destruct o; simpl in *; auto; discriminate).
  destruct (IH (fst (exec h o)) (wf_step h o W) (Sep_step h o W S So) (aligned_step h o W A) Hos) as [I1 I2].
  rewrite R. simpl. rewrite I1, I2. auto.
Qed.

Corollary abs_refines_list_from_empty os :
  Forall (fun o => list_op o = true) os ->
  abs (run emp os) = spec_run (abs emp) os /\ map snd (run_trace emp os) = spec_trace (abs emp) os.
Proof. apply abs_refines_list_run; [apply wf_emp|apply Sep_emp|apply Aligned_emp]. Qed.

(* ------------------------------------------------------------------------------------ *)
(* consequences for the times lists: edits of one collection (or of a caller's list) do not  *)
(* reach any other collection or caller list                                             *)
(* ------------------------------------------------------------------------------------ *)

Theorem tc_append_frame h t c tm cp :
  wf h -> Sep h -> Aligned h ->
  let s := abs h in let s' := abs (fst (exec h (OTcAppend t c tm cp))) in
  (forall t', t' <> t -> nth_error (s_tcs s') t' = nth_error (s_tcs s) t') /\
  s_trs s' = s_trs s /\ s_tvars s' = s_tvars s /\ s_hnd s' = s_hnd s /\
  (forall c', c' < length (s_ems s) -> nth_error (s_ems s') c' = nth_error (s_ems s) c').
Proof.
  intros W S A. cbn zeta.
  pose proof (abs_refines_list h (OTcAppend t c tm cp) W S A eq_refl) as R.
  apply (f_equal fst) in R. cbn [fst] in R. rewrite <- R. clear R. simpl.
  destruct (nth_error (s_tcs (abs h)) t) as [[ts cs]|]; [|repeat split; auto].
  destruct (nth_error (s_ems (abs h)) c) as [e|]; [|repeat split; auto].
  cbn [fst sp_tcs sp_ems s_tcs s_trs s_tvars s_hnd s_ems]. repeat split; auto.
  - intros t' Hne. apply nth_error_upd_neq. auto.
  - intros c' Hc. apply nth_error_app1. exact Hc.
Qed.

Theorem tr_append_frame h k i tm :
  wf h -> Sep h -> Aligned h ->
  let s := abs h in let s' := abs (fst (exec h (OTrAppend k i tm))) in
  (forall k', k' <> k -> nth_error (s_trs s') k' = nth_error (s_trs s) k') /\
  s_tcs s' = s_tcs s /\ s_tvars s' = s_tvars s /\ s_hnd s' = s_hnd s /\ s_ems s' = s_ems s.
Proof.
  intros W S A. cbn zeta.
  pose proof (abs_refines_list h (OTrAppend k i tm) W S A eq_refl) as R.
  apply (f_equal fst) in R. cbn [fst] in R. rewrite <- R. clear R. simpl.
  destruct (nth_error (s_trs (abs h)) k) as [[ts dvs]|]; [|repeat split; auto].
  destruct (nth_error (s_hnd (abs h)) i) as [v|]; [|repeat split; auto].
  match goal with |- context [if ?b then _ else _] => destruct b end; [|repeat split; auto].
  cbn [fst sp_trs s_tcs s_trs s_tvars s_hnd s_ems]. repeat split; auto.
  intros k' Hne. apply nth_error_upd_neq. auto.
Qed.

(* mutating a list of times that the caller owns changes no collection *)
Theorem tlist_mutation_frame h o :
  wf h -> Sep h -> Aligned h ->
  (exists j q, o = OTlistAppend j q) \/ (exists j i q, o = OTlistSet j i q) ->
  let s := abs h in let s' := abs (fst (exec h o)) in
  s_tcs s' = s_tcs s /\ s_trs s' = s_trs s /\ s_ems s' = s_ems s /\ s_hnd s' = s_hnd s.
Proof.
  intros W S A Ho. cbn zeta.
  assert (L : list_op o = true) by (destruct Ho as [(j & q & ->)|(j & i & q & ->)]; reflexivity).
  pose proof (abs_refines_list h o W S A L) as R.
  apply (f_equal fst) in R. cbn [fst] in R. rewrite <- R. clear R.
  destruct Ho as [(j & q & ->)|(j & i & q & ->)]; simpl.
  - destruct (nth_error (s_tvars (abs h)) j); repeat split; auto.
  - destruct (nth_error (s_tvars (abs h)) j) as [ts|]; [|repeat split; auto].
    destruct (i <? length ts); repeat split; auto.
Qed.

(* a copy-constructed time course / track is independent of its source: the copy is number
   [length (tcs h)]; appending to the copy leaves the source's times and members unchanged, and
   vice versa *)
Theorem tc_copy_independent h t c tm cp :
  wf h -> Sep h -> Aligned h -> t < length (tcs h) ->
  let h1 := fst (exec h (OTcCopy t)) in
  let t' := length (tcs h) in
  nth_error (s_tcs (abs (fst (exec h1 (OTcAppend t' c tm cp))))) t = nth_error (s_tcs (abs h1)) t /\
  nth_error (s_tcs (abs (fst (exec h1 (OTcAppend t c tm cp))))) t' = nth_error (s_tcs (abs h1)) t'.
Proof.
  intros W S A Ht h1 t'.
  assert (W1 : wf h1) by (apply wf_step; auto).
  assert (S1 : Sep h1) by (apply Sep_step; auto).
  assert (A1 : Aligned h1) by (apply aligned_step; auto).
  split.
  - apply (tc_append_frame h1 t' c tm cp W1 S1 A1). unfold t'. lia.
  - apply (tc_append_frame h1 t c tm cp W1 S1 A1). unfold t'. lia.
Qed.

Theorem tr_copy_independent h k i tm :
  wf h -> Sep h -> Aligned h -> k < length (trs h) ->
  let h1 := fst (exec h (OTrCopy k)) in
  let k' := length (trs h) in
  nth_error (s_trs (abs (fst (exec h1 (OTrAppend k' i tm))))) k = nth_error (s_trs (abs h1)) k /\
  nth_error (s_trs (abs (fst (exec h1 (OTrAppend k i tm))))) k' = nth_error (s_trs (abs h1)) k'.
Proof.
  intros W S A Hk h1 k'.
  assert (W1 : wf h1) by (apply wf_step; auto).
  assert (S1 : Sep h1) by (apply Sep_step; auto).
  assert (A1 : Aligned h1) by (apply aligned_step; auto).
  split.
  - apply (tr_append_frame h1 k' i tm W1 S1 A1). unfold k'. lia.
  - apply (tr_append_frame h1 k i tm W1 S1 A1). unfold k'. lia.
Qed.
