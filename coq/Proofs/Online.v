(* Proofs/Online.v -- C14: folding `append` over a history equals mapping the analysis over the
   stored fields; the length-scale handler is total and keeps its two lists aligned.
   Generic in the glue tables; Proofs/C14.v instantiates them with the generated ones. *)
From Coq Require Import String List Bool Arith Lia QArith.
From PD Require Import Model.Online.
Import ListNotations.

(* ------------------------------------------------------------------------------------------ *)
(* map_res / fold_res                                                                           *)
(* ------------------------------------------------------------------------------------------ *)
Lemma map_res_length {E A B} (f : A -> res E B) : forall l ys, map_res f l = Ok ys -> length ys = length l.
Proof.
  induction l as [|x l IH]; intros ys H; simpl in H.
  - inversion H; reflexivity.
  - destruct (f x) as [y|e]; simpl in H; [|discriminate].
    destruct (map_res f l) as [ys'|e]; simpl in H; [|discriminate].
    inversion H; subst. simpl. f_equal. apply IH. reflexivity.
Qed.

Lemma map_res_cons_ok {E A B} (f : A -> res E B) x l ys :
  map_res f (x :: l) = Ok ys -> exists y ys', f x = Ok y /\ map_res f l = Ok ys' /\ ys = y :: ys'.
Proof.
  simpl. destruct (f x) as [y|e]; simpl; [|discriminate].
  destruct (map_res f l) as [ys'|e]; simpl; [|discriminate].
  intros H; inversion H; subst. eauto.
Qed.

(* when nothing raises, map_res is map *)
Lemma map_res_total {E A B} (f : A -> res E B) (g : A -> B) :
  forall l, (forall x, In x l -> f x = Ok (g x)) -> map_res f l = Ok (map g l).
Proof.
  induction l as [|x l IH]; intros H; [reflexivity|]. simpl.
  rewrite (H x) by (left; reflexivity). simpl. rewrite IH; [reflexivity|].
  intros y Hy. apply H. right. exact Hy.
Qed.

Lemma fst_combine {A B} : forall (l : list A) (l' : list B), length l = length l' -> map fst (combine l l') = l.
Proof.
  induction l as [|x l IH]; intros [|y l'] H; try discriminate; [reflexivity|].
  simpl. f_equal. apply IH. simpl in H. lia.
Qed.

Lemma snd_combine {A B} : forall (l : list A) (l' : list B), length l = length l' -> map snd (combine l l') = l'.
Proof.
  induction l as [|x l IH]; intros [|y l'] H; try discriminate; [reflexivity|].
  simpl. f_equal. apply IH. simpl in H. lia.
Qed.

(* ------------------------------------------------------------------------------------------ *)
(* EmulsionTimeCourse                                                                           *)
(* ------------------------------------------------------------------------------------------ *)
Section TimeCourse.
  Variable emulsion : Type.

  Lemma fold_append_emulsions : forall (es : list emulsion) (s : tc emulsion),
    tc_emulsions (fold_left (fun s e => tc_append s e None) es s) = tc_emulsions s ++ es.
  Proof.
    induction es as [|e es IH]; intros s; simpl.
    - rewrite app_nil_r. reflexivity.
    - rewrite IH. simpl. rewrite <- app_assoc. reflexivity.
  Qed.

  (* the constructor accepts exactly the time lists that are as long as the emulsion list, and then
     stores both unchanged (the default times written by its internal appends are overwritten) *)
  Lemma tc_make_ok (es : list emulsion) (ts : list Q) :
    length ts = length es -> tc_make es (Some ts) = Ok (mk_tc_raw es ts).
  Proof.
    intros H. unfold tc_make. rewrite fold_append_emulsions. simpl.
    rewrite H, Nat.eqb_refl. reflexivity.
  Qed.

  Lemma tc_make_mismatch (es : list emulsion) (ts : list Q) :
    length ts <> length es -> tc_make es (Some ts) = Err LengthMismatch.
  Proof.
    intros H. unfold tc_make. rewrite fold_append_emulsions. simpl.
    apply Nat.eqb_neq in H. rewrite H. reflexivity.
  Qed.

  Lemma tc_make_default_times (es : list emulsion) :
    tc_make es None = Ok (mk_tc_raw es (range_q (length es))).
  Proof.
    unfold tc_make. rewrite fold_append_emulsions. simpl.
    unfold range_q. rewrite map_length, seq_length, Nat.eqb_refl. reflexivity.
  Qed.

  (* appending with an explicit time never consults the stored times *)
  Lemma tc_append_explicit (s : tc emulsion) e t :
    tc_append s e (Some t) = mk_tc_raw (tc_emulsions s ++ [e]) (tc_times s ++ [t]).
  Proof. reflexivity. Qed.

  (* the default-time rule (not used by the tracker): 0 for the first frame, last + 1 afterwards *)
  Lemma tc_append_default_first e : tc_append (@tc_empty emulsion) e None = mk_tc_raw [e] [0%Q].
  Proof. reflexivity. Qed.
End TimeCourse.

(* ------------------------------------------------------------------------------------------ *)
(* online = offline                                                                             *)
(* ------------------------------------------------------------------------------------------ *)
Section OnlineOffline.
  Variable value : Type.
  Variable parse : string -> value.
  Variables raw field emulsion exn : Type.
  Variable extract : option value -> raw -> res exn field.
  Variable locate : list (string * option value) -> field -> res exn emulsion.
  Variable G : tracker_glue.
  Variable O : offline_glue.

  Notation handle := (handle value parse raw field emulsion exn extract locate G).
  Notation online := (online value parse raw field emulsion exn extract locate G).
  Notation from_storage := (from_storage value parse field emulsion exn locate G O).
  Notation lift := (lift exn).

  (* the fold over the history, for a tracker that passes the time explicitly *)
  Lemma online_fold user : g_append_explicit_time G = true ->
    forall history fields s0,
      map_res (extract (tracker_source value parse G user)) (map fst history) = Ok fields ->
      online user s0 history =
      bind (lift (map_res (locate (tracker_options value parse G user)) fields))
           (fun es => Ok (mk_tc_raw (tc_emulsions s0 ++ es) (tc_times s0 ++ map snd history))).
  Proof.
    intros Ht. induction history as [|[r t] h IH]; intros fields s0 Hx.
    - simpl in Hx. inversion Hx; subst. simpl. rewrite !app_nil_r. destruct s0; reflexivity.
    - change (map fst ((r, t) :: h)) with (r :: map fst h) in Hx.
      apply map_res_cons_ok in Hx. destruct Hx as (f & fs & Hf & Hfs & ->).
      unfold online in *. simpl. unfold handle at 1. simpl. rewrite Hf. simpl.
      destruct (locate (tracker_options value parse G user) f) as [e|err]; simpl; [|reflexivity].
      rewrite Ht. rewrite (IH fs _ Hfs). simpl.
      destruct (map_res (locate (tracker_options value parse G user)) fs) as [es|err]; simpl; [|reflexivity].
      rewrite <- !app_assoc. reflexivity.
  Qed.

  (* the offline analysis of stored (field, time) pairs *)
  Lemma from_storage_map user : o_times_from_storage O = true ->
    forall fields times, length times = length fields ->
      from_storage user (combine fields times) =
      bind (lift (map_res (locate (offline_options value parse G O user)) fields))
           (fun es => Ok (mk_tc_raw es times)).
  Proof.
    intros Ht fields times Hlen. unfold from_storage.
    rewrite fst_combine, snd_combine by lia. rewrite Ht.
    destruct (map_res (locate (offline_options value parse G O user)) fields) as [es|err] eqn:Hm; simpl;
      [|reflexivity].
    rewrite tc_make_ok; [reflexivity|]. apply map_res_length in Hm. lia.
  Qed.

  (* C14, first part.  Premises about the glue tables (discharged for the generated tables in
     Proofs/C14.v): the tracker's analysis runs with the options the offline analysis runs with when
     given the same settings; the field it analyses is selected by the `source` it was given; the time
     is passed to append; the offline path takes its times from the storage. *)
  Theorem online_eq_offline_generic user :
    tracker_options value parse G user = offline_options value parse G O (same_settings value user) ->
    g_append_explicit_time G = true ->
    o_times_from_storage O = true ->
    forall history fields,
      map_res (extract (tracker_source value parse G user)) (map fst history) = Ok fields ->
      online user tc_empty history = from_storage (same_settings value user) (combine fields (map snd history)).
  Proof.
    intros Hopt Ht Hts history fields Hx.
    rewrite (online_fold user Ht history fields tc_empty Hx).
    rewrite from_storage_map; [| exact Hts |].
    - rewrite <- Hopt. reflexivity.
    - apply map_res_length in Hx. rewrite !map_length in *. lia.
  Qed.

  (* a tracker that continues an existing time course appends the offline result to it *)
  Theorem online_continues_generic user s0 :
    tracker_options value parse G user = offline_options value parse G O (same_settings value user) ->
    g_append_explicit_time G = true ->
    o_times_from_storage O = true ->
    forall history fields,
      map_res (extract (tracker_source value parse G user)) (map fst history) = Ok fields ->
      online user s0 history =
      bind (from_storage (same_settings value user) (combine fields (map snd history)))
           (fun s => Ok (mk_tc_raw (tc_emulsions s0 ++ tc_emulsions s) (tc_times s0 ++ tc_times s))).
  Proof.
    intros Hopt Ht Hts history fields Hx.
    rewrite (online_fold user Ht history fields s0 Hx).
    rewrite from_storage_map; [| exact Hts |].
    - rewrite <- Hopt.
      destruct (map_res (locate (tracker_options value parse G user)) fields); reflexivity.
    - apply map_res_length in Hx. rewrite !map_length in *. lia.
  Qed.

  (* a mismatch of the two list lengths is rejected by the constructor *)
  Lemma tc_constructor_checks_lengths (es : list emulsion) ts :
    (exists s, tc_make es (Some ts) = Ok s) <-> length ts = length es.
  Proof.
    split.
    - intros [s Hs]. destruct (Nat.eq_dec (length ts) (length es)) as [E|N]; [exact E|].
      rewrite tc_make_mismatch in Hs by exact N. discriminate.
    - intros E. eexists. apply tc_make_ok. exact E.
  Qed.
End OnlineOffline.

(* ------------------------------------------------------------------------------------------ *)
(* LengthScaleTracker                                                                           *)
(* ------------------------------------------------------------------------------------------ *)
Section LengthScale.
  Variable value : Type.
  Variable parse : string -> value.
  Variables raw field exn number : Type.
  Variable nan : number.
  Variable extract : option value -> raw -> res exn field.
  Variable analysis : list (string * option value) -> field -> res exn number.
  Variable L : length_glue.

  Notation ls_handle := (ls_handle value parse raw field exn number nan extract analysis L).
  Notation ls_online := (ls_online value parse raw field exn number nan extract analysis L).
  Notation ls_state := (ls_state number).

  (* the value the tracker has to record for a frame *)
  Definition recorded (user : kwdict value) (f : field) : number :=
    match analysis (ls_keywords value parse L user) f with Ok v => v | Err _ => nan end.

  Definition ls_source (user : kwdict value) : option value :=
    attr_value value parse (l_ctor_assign L) (l_ctor_defaults L) user (l_source_attr L).

  Lemma ls_fold user :
    l_pre_appends L = [] ->
    l_post_appends L = ["times"; "length_scales"]%string ->
    l_handler_exits L = false ->
    catches_everything L = true ->
    forall history fields (s : ls_state),
      map_res (extract (ls_source user)) (map fst history) = Ok fields ->
      fold_res (ls_handle user) history s =
      Ok (mk_ls number (ls_times number s ++ map snd history) (ls_values number s ++ map (recorded user) fields)).
  Proof.
    intros Hpre Hpost Hexit Hcatch.
    induction history as [|[r t] h IH]; intros fields s Hx.
    - simpl in Hx. inversion Hx; subst. simpl. rewrite !app_nil_r. destruct s; reflexivity.
    - change (map fst ((r, t) :: h)) with (r :: map fst h) in Hx.
      apply map_res_cons_ok in Hx. destruct Hx as (f & fs & Hf & Hfs & ->).
      simpl. unfold Online.ls_handle at 1. simpl. fold (ls_source user). rewrite Hf. simpl.
      rewrite Hpre, Hpost, Hexit, Hcatch. simpl.
      unfold recorded at 1.
      destruct (analysis (ls_keywords value parse L user) f) as [v|e]; simpl;
        rewrite (IH fs _ Hfs); simpl; rewrite <- !app_assoc; reflexivity.
  Qed.

  (* C14, second part: the handler never raises (the result is Ok for every history whose frames
     the source selection fits), records exactly the analysis value or nan, and its lists stay aligned *)
  Theorem length_tracker_total_generic user :
    l_pre_appends L = [] ->
    l_post_appends L = ["times"; "length_scales"]%string ->
    l_handler_exits L = false ->
    catches_everything L = true ->
    forall history fields,
      map_res (extract (ls_source user)) (map fst history) = Ok fields ->
      exists s, ls_online user history = Ok s /\
                ls_times number s = map snd history /\
                ls_values number s = map (recorded user) fields /\
                length (ls_times number s) = length history /\
                length (ls_values number s) = length history.
  Proof.
    intros Hpre Hpost Hexit Hcatch history fields Hx.
    eexists. split; [apply (ls_fold user Hpre Hpost Hexit Hcatch history fields (ls_empty number) Hx)|].
    simpl. repeat split; try reflexivity.
    - apply map_length.
    - rewrite map_length. apply map_res_length in Hx. rewrite map_length in Hx. exact Hx.
  Qed.
End LengthScale.
