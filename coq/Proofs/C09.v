(* C09 -- analysis never aborts on valid input and returns finite droplets.
   "Never raises" = call-site precondition theorems: every partial operation of the models (division by a cell
   count / a merged volume, the guarded quotient of polar_coordinates, cdist / argmin / list indices of the
   tracker, the start vector of least_squares, the internal spanning signal of the cylindrical locator) has an
   explicit domain or an explicit error value, and the theorems show the error values are not produced on valid
   input.  Most of them are proved elsewhere (C02, C03, C04, C06, C12, C19); this file adds the missing ones. *)
From Coq Require Import QArith ZArith List Arith Bool Lia Lqa.
Import ListNotations.
From PD Require Import Model.Grid Model.MergeLoop Model.Locate Model.LocateSym Model.Totality
  Proofs.MergeLoop Proofs.LocateCart Proofs.C02.
Local Open Scope Q_scope.

(* ------------------------------------------------------------------------------------------ *)
(* Cartesian grids: every candidate has a position of the grid's dimension and a positive volume *)
(* ------------------------------------------------------------------------------------------ *)
Lemma insert_sorted_in x : forall l y, In y (insert_sorted x l) <-> y = x \/ In y l.
Proof.
  induction l as [|z l IH]; intros y; cbn [insert_sorted].
  - simpl. intuition.
  - destruct (Nat.ltb x z) eqn:E1.
    + simpl. intuition.
    + destruct (Nat.eqb_spec x z) as [E2|E2].
      * subst z. simpl. intuition.
      * simpl. rewrite IH. intuition.
Qed.

Lemma reps_in st n i : In i (reps st n) <-> exists k, (k < n)%nat /\ cl st k = i.
Proof.
  unfold reps.
  assert (G : forall l acc, In i (fold_left (fun acc k => insert_sorted (cl st k) acc) l acc)
                            <-> In i acc \/ exists k, In k l /\ cl st k = i).
  { induction l as [|k l IH]; intros acc; cbn [fold_left].
    - split; [intros H; left; exact H|intros [H|(k & [] & _)]; exact H].
    - rewrite IH, insert_sorted_in. split.
      + intros [[->|H]|(k' & Hk' & E)].
        * right. exists k. split; [left; reflexivity|reflexivity].
        * left. exact H.
        * right. exists k'. split; [right; exact Hk'|exact E].
      + intros [H|(k' & [<-|Hk'] & E)].
        * left. right. exact H.
        * left. left. symmetry. exact E.
        * right. exists k'. split; assumption. }
  rewrite G. split.
  - intros [[]|(k & Hk & E)]. exists k. apply in_seq in Hk. split; [lia|exact E].
  - intros (k & Hk & E). right. exists k. split; [apply in_seq; lia|exact E].
Qed.

Lemma normalize_length : forall g p, length p = length g -> length (normalize g p) = length g.
Proof.
  induction g as [|a g IH]; intros [|x p] H; cbn [normalize length] in *; try reflexivity; try discriminate H.
  f_equal. apply IH. lia.
Qed.

Lemma cell_to_grid_length : forall g c, length c = length g -> length (cell_to_grid g c) = length g.
Proof.
  induction g as [|a g IH]; intros [|x c] H; cbn [cell_to_grid length] in *; try reflexivity; try discriminate H.
  f_equal. apply IH. lia.
Qed.

(* the divisor of the centre of mass (ndimage.center_of_mass) is a positive cell count *)
Lemma cart_count_pos g img k : wf_img g img -> (k < num_labels img)%nat -> 0 < count (members img k).
Proof. intros Hwf Hk. apply count_pos. apply (wf_dense g img Hwf). exact Hk. Qed.

(* at EVERY stage of the merge loop (after any prefix of the boundary pairs) every cluster carries a positive
   volume: the divisor v_l + v_h of the weighted average is positive in every executed merge *)
Lemma cart_merge_volumes_pos g img es1 es2 : grid_ok g -> wf_img g img -> edges g img = es1 ++ es2 ->
  forall k, (k < num_labels img)%nat ->
  let st := merge_all (shapeN g) (init_state (pos0 img) (vol0 g img)) es1 in 0 < mvol st (cl st k).
Proof.
  intros Hg Hwf Hes k Hk st.
  assert (Hok : edges_ok (num_labels img) es1).
  { intros kl kh ax Hin. apply (edges_edges_ok g img kl kh ax). rewrite Hes. apply in_or_app. left. exact Hin. }
  pose proof (merge_volume (shapeN g) (num_labels img) (pos0 img) (vol0 g img) (inst_vol0_pos g img Hg Hwf)
                es1 Hok k Hk) as Hv.
  cbv zeta in Hv. fold st in Hv. rewrite Hv.
  apply (msum_pos (num_labels img) (vol0 g img) (inst_vol0_pos g img Hg Hwf)). exact Hk.
Qed.

Lemma cart_merge_divisor_pos g img es1 kl kh ax es2 : grid_ok g -> wf_img g img ->
  edges g img = es1 ++ (kl, kh, ax) :: es2 ->
  let st := merge_all (shapeN g) (init_state (pos0 img) (vol0 g img)) es1 in
  0 < mvol st (cl st kl) + mvol st (cl st kh).
Proof.
  intros Hg Hwf Hes st.
  destruct (edges_edges_ok g img kl kh ax) as [Hl Hh]; [rewrite Hes; apply in_or_app; right; left; reflexivity|].
  pose proof (cart_merge_volumes_pos g img es1 _ Hg Hwf Hes kl Hl) as H1.
  pose proof (cart_merge_volumes_pos g img es1 _ Hg Hwf Hes kh Hh) as H2.
  cbv zeta in H1, H2. fold st in H1, H2. lra.
Qed.

Theorem cart_located_finite g lab : grid_ok g -> wf_img g (mk_limage (gshape g) lab) ->
  forall c, In c (candidates g lab) -> length (fst c) = length g /\ 0 < snd c.
Proof.
  intros Hg Hwf c Hc. unfold candidates in Hc. cbv zeta in Hc.
  apply in_map_iff in Hc. destruct Hc as (i & <- & Hi). cbn [fst snd].
  apply reps_in in Hi. destruct Hi as (k & Hk & <-). split.
  - apply normalize_length. apply cell_to_grid_length. rewrite map_length, seq_length. reflexivity.
  - apply (cart_merge_volumes_pos g _ (edges g (mk_limage (gshape g) lab)) [] Hg Hwf); [|exact Hk].
    symmetry. apply app_nil_r.
Qed.

(* no more candidates than labels *)
Lemma cart_candidates_from_labels g lab c : In c (candidates g lab) ->
  exists k, (k < num_labels (mk_limage (gshape g) lab))%nat /\
            snd c = mvol (final_state g (mk_limage (gshape g) lab)) (cl (final_state g (mk_limage (gshape g) lab)) k).
Proof.
  intros Hc. unfold candidates in Hc. cbv zeta in Hc.
  apply in_map_iff in Hc. destruct Hc as (i & <- & Hi). apply reps_in in Hi. destruct Hi as (k & Hk & <-).
  exists k. split; [exact Hk|reflexivity].
Qed.

(* num_labels = 0 (the early return): no candidates, nothing is divided *)
Lemma cart_empty g lab : num_labels (mk_limage (gshape g) lab) = 0%nat -> candidates g lab = [].
Proof. intros H. unfold candidates. cbv zeta. rewrite H. reflexivity. Qed.

(* ------------------------------------------------------------------------------------------ *)
(* radial grids                                                                                *)
(* ------------------------------------------------------------------------------------------ *)
Theorem radial_total r_lo dr m : 0 < dr ->
  locate_radial r_lo dr m = None \/ exists r, locate_radial r_lo dr m = Some r /\ r_lo < r.
Proof.
  intros Hdr. unfold locate_radial. destruct (leading_trues m) as [|n]; [left; reflexivity|right].
  eexists. split; [reflexivity|].
  assert (H : 0 < inject_Z (Z.of_nat (S n))) by (change 0 with (inject_Z 0); rewrite <- Zlt_Qlt; lia).
  pose proof (Qmult_lt_0_compat _ _ H Hdr). lra.
Qed.

(* ------------------------------------------------------------------------------------------ *)
(* cylindrical grids                                                                           *)
(* ------------------------------------------------------------------------------------------ *)
Lemma members_in img k c : In c (members img k) -> In (c, S k) img.
Proof.
  unfold members. intros H. apply in_map_iff in H. destruct H as ([c' l] & E & H). cbn [fst] in E. subst c'.
  apply filter_In in H. destruct H as [H E]. cbn [snd] in E. apply Nat.eqb_eq in E. subst l. exact H.
Qed.

Lemma on_axis_nonempty cs : on_axis cs = true -> cs <> [].
Proof. intros H ->. discriminate H. Qed.

Lemma zmax_lt cs b : cs <> [] -> (forall c, In c cs -> (zidx c < b)%Z) -> (zmax cs < b)%Z.
Proof.
  intros Hne Hall. unfold zmax.
  assert (G : forall init l, (init < b)%Z -> (forall c, In c l -> (zidx c < b)%Z) ->
                             (fold_right (fun c m => Z.max (zidx c) m) init l < b)%Z).
  { intros init l Hi. induction l as [|c l IH]; intros Hl; cbn [fold_right]; [exact Hi|].
    pose proof (Hl c (or_introl eq_refl)). assert ((fold_right (fun c m => Z.max (zidx c) m) init l < b)%Z).
    { apply IH. intros c' Hc'. apply Hl. right. exact Hc'. }
    lia. }
  apply G; [|exact Hall]. destruct cs as [|c cs]; [congruence|]. apply Hall. left. reflexivity.
Qed.

(* the label image of the mask itself never contains a cluster that `spans`: the internal RuntimeError
   (_SpanningDropletSignal) cannot be raised by the second, unprotected call in
   _locate_droplets_in_mask_cylindrical *)
Theorem cyl_unpadded_never_spans g img : unpadded g img -> cyl_single g img <> Spanning.
Proof.
  intros Hun. unfold cyl_single. cbv zeta.
  destruct (existsb _ _) eqn:E; [|discriminate].
  exfalso. apply existsb_exists in E. destruct E as (k & Hk & Hs).
  apply filter_In in Hk. destruct Hk as [_ Hax].
  unfold spans in Hs. apply andb_true_iff in Hs. destruct Hs as [_ Hs]. apply Z.ltb_lt in Hs.
  assert ((zmax (members img k) < cg_nz g)%Z).
  { apply zmax_lt; [apply on_axis_nonempty; exact Hax|]. intros c Hc. apply (Hun c (S k)). apply members_in. exact Hc. }
  lia.
Qed.

(* ... so the model's fallback value for that case is never used: cyl_candidates is, on every path, the
   candidate list of a call that returned *)
Theorem cyl_candidates_total g img_pad img : unpadded g img ->
  exists ds, cyl_single g img = Found ds /\
    (cyl_candidates g img_pad img = ds \/
     exists dp, cg_per g = true /\ cyl_single g img_pad = Found dp /\ cyl_candidates g img_pad img = cyl_window g dp).
Proof.
  intros Hun. pose proof (cyl_unpadded_never_spans g img Hun) as Hns.
  destruct (cyl_single g img) as [|ds] eqn:E; [congruence|]. exists ds. split; [reflexivity|].
  unfold cyl_candidates. rewrite E. destruct (cg_per g) eqn:Ep; [|left; reflexivity].
  destruct (cyl_single g img_pad) as [|dp] eqn:Epad; [left; reflexivity|].
  right. exists dp. repeat split; reflexivity.
Qed.

Lemma cyl_dr_pos g : cyl_ok g -> 0 < cg_dr g.
Proof.
  intros (Hnr & _ & HR & _). unfold cg_dr, Qdiv. apply Qmult_lt_0_compat; [exact HR|].
  apply Qinv_lt_0_compat. change 0 with (inject_Z 0). rewrite <- Zlt_Qlt. exact Hnr.
Qed.

Lemma cyl_dz_pos g : cyl_ok g -> 0 < cg_dz g.
Proof.
  intros (_ & Hnz & _ & Hz). unfold cg_dz, Qdiv. apply Qmult_lt_0_compat; [lra|].
  apply Qinv_lt_0_compat. change 0 with (inject_Z 0). rewrite <- Zlt_Qlt. exact Hnz.
Qed.

Lemma shell_pos g i : cyl_ok g -> (0 <= i)%Z -> 0 < shell g i.
Proof.
  intros Hg Hi. unfold shell. cbv zeta.
  pose proof (cyl_dr_pos g Hg) as Hdr. pose proof (cyl_dz_pos g Hg) as Hdz.
  assert (Hi' : 0 <= inject_Z i) by (change 0 with (inject_Z 0); rewrite <- Zle_Qle; exact Hi).
  apply Qmult_lt_0_compat; [|exact Hdz].
  setoid_replace ((inject_Z i + 1) * cg_dr g * ((inject_Z i + 1) * cg_dr g) - inject_Z i * cg_dr g * (inject_Z i * cg_dr g))
    with ((2 * inject_Z i + 1) * (cg_dr g * cg_dr g)) by ring.
  apply Qmult_lt_0_compat; [lra|]. apply Qmult_lt_0_compat; exact Hdr.
Qed.

Lemma csum_pos cs (f : cell -> Q) : cs <> [] -> (forall c, In c cs -> 0 < f c) -> 0 < csum cs f.
Proof.
  unfold csum. intros Hne Hf. destruct cs as [|c cs]; [congruence|]. cbn [fold_right].
  assert (G : forall l, (forall c, In c l -> 0 < f c) -> 0 <= fold_right (fun c s => f c + s) 0 l).
  { induction l as [|c' l IH]; intros Hl; cbn [fold_right]; [lra|].
    pose proof (Hl c' (or_introl eq_refl)). assert (0 <= fold_right (fun c s => f c + s) 0 l).
    { apply IH. intros c'' Hc''. apply Hl. right. exact Hc''. }
    lra. }
  pose proof (Hf c (or_introl eq_refl)). assert (0 <= fold_right (fun c s => f c + s) 0 cs).
  { apply G. intros c' Hc'. apply Hf. right. exact Hc'. }
  lra.
Qed.

(* every candidate of one call: built from a non-empty cluster (the divisor of the mean z index is a positive
   count) and of positive volume (so SphericalDroplet.from_volume gets a positive argument) *)
Theorem cyl_located_finite g img ds : cyl_ok g -> r_nonneg img -> cyl_single g img = Found ds ->
  forall d, In d ds -> 0 < snd d /\
    exists k, (k < num_labels img)%nat /\ d = cyl_droplet g (members img k) /\ 0 < count (members img k).
Proof.
  intros Hg Hr Hs d Hd. destruct (cyl_single_members g img ds Hs d Hd) as (k & Hk & Hax & ->).
  pose proof (on_axis_nonempty _ Hax) as Hne. split.
  - rewrite cyl_droplet_volume. apply csum_pos; [exact Hne|]. intros c Hc. apply shell_pos; [exact Hg|].
    apply (Hr c (S k)). apply members_in. exact Hc.
  - exists k. split; [exact Hk|]. split; [reflexivity|]. apply count_pos. exact Hne.
Qed.

Lemma cyl_window_snd g ds d : In d (cyl_window g ds) -> exists d0, In d0 ds /\ snd d = snd d0.
Proof.
  unfold cyl_window. intros H. apply filter_In in H. destruct H as [H _]. apply in_map_iff in H.
  destruct H as (d0 & <- & H0). exists d0. split; [exact H0|reflexivity].
Qed.

(* all candidates handed to the final remove_overlapping(), on every code path, have positive volume *)
Theorem cyl_candidates_finite g img_pad img : cyl_ok g -> r_nonneg img -> r_nonneg img_pad ->
  forall d, In d (cyl_candidates g img_pad img) -> 0 < snd d.
Proof.
  intros Hg Hr Hrp d Hd. unfold cyl_candidates in Hd. cbv zeta in Hd.
  assert (Hplain : forall d', In d' (match cyl_single g img with Found ds => ds | Spanning => [] end) -> 0 < snd d').
  { intros d' Hd'. destruct (cyl_single g img) as [|ds] eqn:E; [destruct Hd'|].
    apply (cyl_located_finite g img ds Hg Hr E d' Hd'). }
  destruct (cg_per g); [|apply Hplain; exact Hd].
  destruct (cyl_single g img_pad) as [|dp] eqn:Ep; [apply Hplain; exact Hd|].
  destruct (cyl_window_snd g dp d Hd) as (d0 & Hd0 & ->).
  apply (cyl_located_finite g img_pad dp Hg Hrp Ep d0 Hd0).
Qed.

(* ------------------------------------------------------------------------------------------ *)
(* radius from volume (SphericalDroplet.from_volume), R-layer                                  *)
(* ------------------------------------------------------------------------------------------ *)
From Coq Require Import Reals Lra.
From PD Require Import Model.Num Gen.Gen_spherical Gen.Gen_droplet_basic Proofs.C12.
Local Open Scope R_scope.

Theorem from_volume_finite v : 0 <= v ->
  (0 <= drop_from_volume_1 v /\ drop_volume_1 (drop_from_volume_1 v) = v) /\
  (0 <= drop_from_volume_2 v /\ drop_volume_2 (drop_from_volume_2 v) = v) /\
  (0 <= drop_from_volume_3 v /\ drop_volume_3 (drop_from_volume_3 v) = v).
Proof.
  intros Hv. destruct (droplet_from_volume_volume v Hv) as (H1 & H2 & H3).
  repeat split; try assumption.
  - unfold drop_from_volume_1, rfv_scalar_1. lra.
  - unfold drop_from_volume_2, rfv_scalar_2. apply sqrt_pos.
  - unfold drop_from_volume_3, rfv_scalar_3. apply pow_nn_nonneg.
Qed.

(* positive volume (what the locate models deliver) gives a positive radius *)
Theorem from_volume_pos v : 0 < v ->
  0 < drop_from_volume_1 v /\ 0 < drop_from_volume_2 v /\ 0 < drop_from_volume_3 v.
Proof.
  intros Hv. repeat split.
  - unfold drop_from_volume_1, rfv_scalar_1. lra.
  - unfold drop_from_volume_2, rfv_scalar_2. apply sqrt_lt_R0. apply Rdiv_lt_0_compat; [exact Hv|apply PI_RGT_0].
  - unfold drop_from_volume_3, rfv_scalar_3. rewrite pow_nn_pos.
    + unfold Rpower. apply exp_pos.
    + apply Rdiv_lt_0_compat; [lra|]. pose proof PI_RGT_0. lra.
Qed.

(* ------------------------------------------------------------------------------------------ *)
(* the documented errors                                                                       *)
(* ------------------------------------------------------------------------------------------ *)
From PD Require Import Gen.Gen_analysis Gen.Gen_shapes Model.Request Proofs.Profile Proofs.C19.
Local Open Scope Z_scope.

(* exactly two error sources in the generated guards: modes > 0 in one dimension (locate_droplets) and a
   droplet / grid dimension mismatch (rendering); both are ValueError; every other request passes the guards *)
Theorem documented_errors :
  (forall r, 1 <= rq_dim r <= 3 ->
     (locate_error r = Some ModesInOneDimension <-> (0 < rq_modes r /\ rq_dim r = 1)) /\
     (locate_error r = None <-> ~ (0 < rq_modes r /\ rq_dim r = 1)) /\
     (forall cands, locate_unrefined r cands = RaiseValueError <-> locate_error r = Some ModesInOneDimension) /\
     (forall cands, locate_error r = None -> exists ds, locate_unrefined r cands = Located ds /\ length ds = length cands)) /\
  (forall dd gd,
     (render_error_of dd gd = Some DimensionMismatch <-> dd <> gd) /\
     (render_error_of dd gd = None <-> dd = gd) /\
     (render_guard dd gd = None \/ render_guard dd gd = Some ValueError)) /\
  (forall r, locate_error r = None \/ locate_error r = Some ModesInOneDimension) /\
  (forall dd gd, render_error_of dd gd = None \/ render_error_of dd gd = Some DimensionMismatch).
Proof.
  split; [|split; [|split]].
  - intros r Hd. pose proof (guard_table (rq_dim r) (modes_pos r) Hd) as Hg.
    assert (Hm : modes_pos r = true <-> 0 < rq_modes r) by (unfold modes_pos; apply Z.ltb_lt).
    assert (HG : modes_guard (rq_dim r) (modes_pos r) = true <-> (0 < rq_modes r /\ rq_dim r = 1)).
    { rewrite Hg, Hm. reflexivity. }
    unfold locate_error, locate_unrefined.
    destruct (modes_guard (rq_dim r) (modes_pos r)) eqn:E.
    + assert (H : 0 < rq_modes r /\ rq_dim r = 1) by (apply HG; reflexivity).
      split; [split; [intros _; exact H|intros _; reflexivity]|].
      split; [split; [discriminate|intros Hn; exfalso; apply Hn; exact H]|].
      split; [intros cands; split; intros _; reflexivity|intros cands Hc; discriminate Hc].
    + assert (H : ~ (0 < rq_modes r /\ rq_dim r = 1)) by (intros H'; apply HG in H'; discriminate H').
      split; [split; [discriminate|intros H'; exfalso; exact (H H')]|].
      split; [split; [intros _; exact H|intros _; reflexivity]|].
      split; [intros cands; split; discriminate|].
      intros cands _. eexists. split; [reflexivity|apply map_length].
  - intros dd gd. destruct (render_guard_char dd gd) as [[H1 H2] H3]. unfold render_error_of.
    destruct (render_guard dd gd) as [[]|] eqn:E.
    + split; [split; [intros _ Heq; specialize (H2 Heq); discriminate H2|intros _; reflexivity]|].
      split; [split; [discriminate|intros Heq; specialize (H2 Heq); discriminate H2]|].
      right. reflexivity.
    + split; [split; [discriminate|intros Hne; exfalso; apply Hne; apply H1; reflexivity]|].
      split; [split; [intros _; apply H1; reflexivity|intros _; reflexivity]|].
      left. reflexivity.
  - intros r. unfold locate_error. destruct (modes_guard _ _); [right|left]; reflexivity.
  - intros dd gd. unfold render_error_of. destruct (render_guard dd gd) as [[]|]; [right|left]; reflexivity.
Qed.

(* the observed-outcome function of the correspondence is what the guards and the tracking theorem say *)
From PD Require Import Model.Tracking Proofs.C06.

Lemma model_outcome_track distance cutoff frames : model_outcome (CallTrack distance cutoff frames) = ObsOk.
Proof.
  unfold model_outcome. cbv zeta.
  destruct (track_total (if distance then MDistance (fun _ _ => 1%Q) cutoff else MOverlap (fun _ _ => false)) frames)
    as [trs ->]. reflexivity.
Qed.

(* ------------------------------------------------------------------------------------------ *)
(* non-vacuity                                                                                 *)
(* ------------------------------------------------------------------------------------------ *)
Local Open Scope Q_scope.

Definition ex_cgrid : cylgrid := {| cg_nr := 2; cg_nz := 3; cg_R := 2; cg_zlo := 0; cg_zhi := 3; cg_per := true |}.
(* mask (r, z): on-axis cluster at z = 0, off-axis cell at (1, 2) which joins the cluster across the periodic boundary;
   ex_cimg_pad = labels of the mask padded by one period on both sides *)
Definition ex_cimg : limage := mk_limage [2; 3]%Z [1; 0; 0;  1; 0; 2]%nat.
Definition ex_cimg_pad : limage := mk_limage [2; 9]%Z [1; 0; 0; 2; 0; 0; 3; 0; 0;  1; 0; 2; 2; 0; 3; 3; 0; 4]%nat.

Definition qred2 (d : Q * Q) : Q * Q := (Qred (fst d), Qred (snd d)).

Lemma ex_cyl_facts : cyl_ok ex_cgrid /\ unpadded ex_cgrid ex_cimg /\ r_nonneg ex_cimg /\ r_nonneg ex_cimg_pad /\
  (exists ds, cyl_single ex_cgrid ex_cimg = Found ds /\ map qred2 ds = [(1 # 2, 4)]) /\
  map qred2 (cyl_candidates ex_cgrid ex_cimg_pad ex_cimg) = [(1 # 6, 7)].
Proof.
  split; [repeat split; reflexivity|].
  assert (Hin : forall (P : Locate.cell -> Prop) (im : limage), Forall (fun p => P (fst p)) im -> forall c l, In (c, l) im -> P c).
  { intros P im HF c l Hin. rewrite Forall_forall in HF. apply (HF (c, l) Hin). }
  split; [|split; [|split; [|split]]].
  - unfold unpadded. apply (Hin (fun c => (zidx c < cg_nz ex_cgrid)%Z) ex_cimg). vm_compute. repeat constructor.
  - unfold r_nonneg. apply (Hin (fun c => (0 <= ridx c)%Z) ex_cimg). vm_compute. repeat constructor; discriminate.
  - unfold r_nonneg. apply (Hin (fun c => (0 <= ridx c)%Z) ex_cimg_pad). vm_compute. repeat constructor; discriminate.
  - eexists. split; [vm_compute; reflexivity|vm_compute; reflexivity].
  - vm_compute. reflexivity.
Qed.

Definition ex_grid2 : grid :=
  [ {| ncell := 3; alo := 0; ahi := 3; aper := true |}; {| ncell := 3; alo := 0; ahi := 3; aper := true |} ].

Lemma ex_cart_facts : grid_ok ex_grid2 /\ wf_img ex_grid2 (mk_limage (gshape ex_grid2) [0;1;0; 2;0;3; 2;2;0]%nat) /\
  length (candidates ex_grid2 [0;1;0; 2;0;3; 2;2;0]%nat) = 1%nat.
Proof.
  split; [apply grid_okb_true; vm_compute; reflexivity|].
  split; [apply wf_imgb_true; vm_compute; reflexivity|vm_compute; reflexivity].
Qed.
