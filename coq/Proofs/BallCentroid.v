(* C01 geometry, part 2: the centroid of a digitised ball lies within half a cell of the true centre.
     rows_centroid  : a disjoint union (concatenation) of rows each with |sum (i + 1/2 - gamma)| <= |row|/2
                      satisfies the same bound;
     within_centroid: generalised statement for { idx in box | dist2 < s2 } with an arbitrary bound
                      s2 <= r^2, by induction over the axis list (slices of a ball are balls of the
                      same centre with a smaller bound);
     ball_centroid  : | sum_{idx in B} (idx_k + 1/2 - gamma_k) | <= |B| / 2   for B = ball_cells g c r,
                      when the sphere does not reach beyond the box along axis k;
     ball_centre_within_half_cell : the centre of mass lo_k + (mean idx_k + 1/2) h_k differs from c_k
                      by at most h_k / 2. *)
From Coq Require Import QArith Qabs ZArith List Arith Bool Lia Lqa Setoid Morphisms.
Import ListNotations.
From PD Require Import Model.Grid Model.Render Model.MergeLoop Model.Locate Model.Ball
  Proofs.Render Proofs.MergeLoop Proofs.Components Proofs.LocateCart Proofs.BallRow.
Local Open Scope Q_scope.

(* ---- sums ---- *)
Lemma lsum_abs_le {A : Type} (l : list A) (F C : A -> Q) :
  (forall x, In x l -> Qabs (F x) <= C x) -> Qabs (lsum l F) <= lsum l C.
Proof.
  induction l as [|x l IH]; intros H; cbn [lsum].
  - apply Qabs_Qle_condition. split; lra.
  - eapply Qle_trans; [apply Qabs_triangle|].
    apply Qplus_le_compat; [apply H; left; reflexivity|].
    apply IH. intros y Hy. apply H. right. exact Hy.
Qed.

Lemma lsum_flat_map {A B : Type} (F : A -> list B) (l : list A) f :
  lsum (flat_map F l) f == lsum l (fun i => lsum (F i) f).
Proof.
  induction l as [|x l IH]; cbn [flat_map lsum]; [reflexivity|]. rewrite lsum_app, IH. reflexivity.
Qed.

Lemma lsum_swap {A B : Type} (l1 : list A) (l2 : list B) (F : A -> B -> Q) :
  lsum l1 (fun a => lsum l2 (fun b => F a b)) == lsum l2 (fun b => lsum l1 (fun a => F a b)).
Proof.
  induction l1 as [|a l1 IH]; cbn [lsum].
  - induction l2 as [|b l2 IH2]; cbn [lsum]; [reflexivity|]. rewrite <- IH2. ring.
  - rewrite IH. rewrite <- lsum_plus. reflexivity.
Qed.

Lemma lsum_all_cells_cons n rest (G : list Z -> Q) :
  lsum (all_cells (n :: rest)) G
  == lsum (zrange (Z.to_nat n) 0) (fun i => lsum (all_cells rest) (fun t => G (i :: t))).
Proof.
  cbn [all_cells]. rewrite lsum_flat_map. apply lsum_ext. intros i _. rewrite lsum_map. reflexivity.
Qed.

(* ---- (2) gluing rows ---- *)
Theorem rows_centroid {A : Type} (rows : list (list A)) (f : A -> Q) :
  (forall row, In row rows -> Qabs (lsum row f) <= (1 # 2) * inject_Z (Z.of_nat (length row))) ->
  Qabs (lsum (concat rows) f) <= (1 # 2) * inject_Z (Z.of_nat (length (concat rows))).
Proof.
  induction rows as [|row rows IH]; intros H; cbn [concat].
  - cbn [lsum length]. change (inject_Z (Z.of_nat 0)) with 0. apply Qabs_Qle_condition. split; lra.
  - rewrite lsum_app, app_length, Nat2Z.inj_add, inject_Z_plus.
    eapply Qle_trans; [apply Qabs_triangle|].
    assert (H1 := H row (or_introl eq_refl)).
    assert (H2 := IH (fun r Hr => H r (or_intror Hr))). lra.
Qed.

(* ---- geometry of one axis ---- *)
Definition axis_ok (a : axis) : Prop := (0 < ncell a)%Z /\ alo a < ahi a.

Lemma adisc_pos a : axis_ok a -> 0 < adisc a.
Proof.
  intros [Hn Hlo]. unfold adisc, asize, Qdiv. apply Qmult_lt_0_compat; [lra|].
  apply Qinv_lt_0_compat. change 0 with (inject_Z 0). rewrite <- Zlt_Qlt. exact Hn.
Qed.

Lemma centre1_rowoff a x i : axis_ok a -> centre1 a i - x == adisc a * rowoff (gam a x) i.
Proof.
  intros Hok. pose proof (adisc_pos a Hok) as Hh. unfold centre1, rowoff, gam.
  set (h := adisc a) in *. field. intros E. rewrite E in Hh. discriminate Hh.
Qed.

Lemma d2cell_cons a g x c i t : aper a = false ->
  d2cell (a :: g) (x :: c) (i :: t) == (centre1 a i - x) * (centre1 a i - x) + d2cell g c t.
Proof.
  intros Hper. unfold d2cell, dist2. cbn [cell_centre diff_vec sumsq fold_right].
  unfold diff1. rewrite Hper. reflexivity.
Qed.

Lemma d2cell_nonneg g c t : 0 <= d2cell g c t.
Proof. unfold d2cell, dist2. apply sumsq_nonneg. Qed.

(* a cell of the row whose centre is closer than r to x lies in the box when the sphere fits *)
Lemma row_in_box a x r i : axis_ok a -> 0 <= r -> fits1 a x r ->
  (adisc a * rowoff (gam a x) i) * (adisc a * rowoff (gam a x) i) < r * r -> (0 <= i < ncell a)%Z.
Proof.
  intros Hok Hr [Hlo Hhi] Hm. pose proof (adisc_pos a Hok) as Hh.
  rewrite <- (centre1_rowoff a x i Hok) in Hm.
  destruct Hok as [Hn Hlh]. pose proof (ncell_adisc a Hn) as EN. unfold asize in EN.
  unfold centre1 in Hm. set (h := adisc a) in *. set (N := inject_Z (ncell a)) in *.
  set (I := inject_Z i) in *.
  set (u := alo a + (I + (1 # 2)) * h - x) in *.
  assert (Hu1 : - r < u) by nra. assert (Hu2 : u < r) by nra.
  assert (H1 : 0 < (I + (1 # 2)) * h) by (unfold u in *; lra).
  assert (H2 : (I + (1 # 2)) * h < N * h) by (unfold u in *; lra).
  assert (H3 : - (1 # 2) < I) by nra.
  assert (H4 : I + (1 # 2) < N) by nra.
  split.
  - destruct (Z_lt_le_dec i 0) as [Hi|Hi]; [exfalso|exact Hi].
    assert (Hi' : (i <= -1)%Z) by lia. rewrite Zle_Qle in Hi'. fold I in Hi'.
    change (inject_Z (-1)) with (- (1)) in Hi'. lra.
  - destruct (Z_lt_le_dec i (ncell a)) as [Hi|Hi]; [exact Hi|exfalso].
    rewrite Zle_Qle in Hi. fold I N in Hi. lra.
Qed.

(* slicing: fixing the first coordinate / the remaining coordinates *)
Lemma within_cons_tail a g x c s2 i t : aper a = false ->
  within (a :: g) (x :: c) s2 (i :: t)
  = within g c (s2 - (centre1 a i - x) * (centre1 a i - x)) t.
Proof.
  intros Hper. apply bool_eq_iff. unfold within. rewrite !Qlt_bool_iff, (d2cell_cons a g x c i t Hper). lra.
Qed.

Lemma within_cons_head a g x c s2 i t : aper a = false -> axis_ok a ->
  within (a :: g) (x :: c) s2 (i :: t) = rowb (adisc a) (gam a x) (s2 - d2cell g c t) i.
Proof.
  intros Hper Hok. apply bool_eq_iff. unfold within, rowb.
  rewrite !Qlt_bool_iff, (d2cell_cons a g x c i t Hper), <- (centre1_rowoff a x i Hok). lra.
Qed.

(* ---- (3) generalised: slices { dist2 < s2 } with s2 <= r^2 ---- *)
Theorem within_centroid : forall g, nonper g -> forall c k a x r s2,
  nth_error g k = Some a -> nth_error c k = Some x -> axis_ok a ->
  0 <= r -> s2 <= r * r -> fits1 a x r ->
  Qabs (lsum (all_cells (gshape g))
             (fun idx => ind (within g c s2 idx) (rowoff (gam a x) (nth k idx 0%Z))))
  <= (1 # 2) * lsum (all_cells (gshape g)) (fun idx => ind (within g c s2 idx) 1).
Proof.
  intros g Hnp. induction Hnp as [|a0 g Hper0 Hnp IH]; intros c k a x r s2 Hg Hc Hok Hr Hs Hfit.
  - destruct k; discriminate Hg.
  - destruct c as [|x0 c]; [destruct k; discriminate Hc|].
    unfold gshape. cbn [map]. fold (gshape g). rewrite !lsum_all_cells_cons.
    rewrite <- lsum_scale.
    destruct k as [|k].
    + (* the rows run along the first axis: exchange the sums, one row per tail *)
      cbn [nth_error] in Hg, Hc. injection Hg as ->. injection Hc as ->.
      rewrite lsum_swap.
      assert (E : lsum (zrange (Z.to_nat (ncell a)) 0)
                    (fun i => (1 # 2) * lsum (all_cells (gshape g))
                                             (fun t => ind (within (a :: g) (x :: c) s2 (i :: t)) 1))
                  == lsum (all_cells (gshape g))
                       (fun t => (1 # 2) * lsum (zrange (Z.to_nat (ncell a)) 0)
                                             (fun i => ind (within (a :: g) (x :: c) s2 (i :: t)) 1))).
      { rewrite lsum_scale, lsum_swap, <- lsum_scale. reflexivity. }
      rewrite E. apply lsum_abs_le. intros t _. cbn [nth].
      assert (E1 : lsum (zrange (Z.to_nat (ncell a)) 0)
                     (fun i => ind (within (a :: g) (x :: c) s2 (i :: t)) (rowoff (gam a x) i))
                   == lsum (zrange (Z.to_nat (ncell a)) 0)
                        (fun i => ind (rowb (adisc a) (gam a x) (s2 - d2cell g c t) i) (rowoff (gam a x) i))).
      { apply lsum_ext. intros i _. rewrite (within_cons_head a g x c s2 i t Hper0 Hok). reflexivity. }
      assert (E2 : lsum (zrange (Z.to_nat (ncell a)) 0)
                     (fun i => ind (within (a :: g) (x :: c) s2 (i :: t)) 1)
                   == lsum (zrange (Z.to_nat (ncell a)) 0)
                        (fun i => ind (rowb (adisc a) (gam a x) (s2 - d2cell g c t) i) 1)).
      { apply lsum_ext. intros i _. rewrite (within_cons_head a g x c s2 i t Hper0 Hok). reflexivity. }
      rewrite E1, E2. apply row_ind_sum; [apply adisc_pos; exact Hok|].
      intros i Hm. unfold rowmem in Hm. pose proof (d2cell_nonneg g c t) as Hd.
      assert (Hi : (0 <= i < ncell a)%Z) by (apply (row_in_box a x r i Hok Hr Hfit); lra).
      lia.
    + (* the rows run along a later axis: every slice is a lower-dimensional instance *)
      cbn [nth_error] in Hg, Hc. apply lsum_abs_le. intros i _. cbn [nth].
      set (q := (centre1 a0 i - x0) * (centre1 a0 i - x0)).
      assert (Hq : 0 <= q) by (unfold q; generalize (centre1 a0 i - x0); intros z; nra).
      assert (E1 : lsum (all_cells (gshape g))
                     (fun t => ind (within (a0 :: g) (x0 :: c) s2 (i :: t)) (rowoff (gam a x) (nth k t 0%Z)))
                   == lsum (all_cells (gshape g))
                        (fun t => ind (within g c (s2 - q) t) (rowoff (gam a x) (nth k t 0%Z)))).
      { apply lsum_ext. intros t _. rewrite (within_cons_tail a0 g x0 c s2 i t Hper0). reflexivity. }
      assert (E2 : lsum (all_cells (gshape g)) (fun t => ind (within (a0 :: g) (x0 :: c) s2 (i :: t)) 1)
                   == lsum (all_cells (gshape g)) (fun t => ind (within g c (s2 - q) t) 1)).
      { apply lsum_ext. intros t _. rewrite (within_cons_tail a0 g x0 c s2 i t Hper0). reflexivity. }
      rewrite E1, E2. apply (IH c k a x r (s2 - q) Hg Hc Hok Hr); [lra|exact Hfit].
Qed.

(* ---- the concrete ball ---- *)
Lemma inside_within g c r idx : 0 <= r -> inside g c r idx = within g c (r * r) idx.
Proof.
  intros Hr. unfold inside, within, d2cell. apply Qle_bool_iff in Hr. rewrite Hr. reflexivity.
Qed.

Lemma ball_cells_neg g c r : ~ 0 <= r -> ball_cells g c r = [].
Proof.
  intros Hr. unfold ball_cells.
  assert (H : forall l, filter (inside g c r) l = []).
  { induction l as [|idx l IH]; cbn [filter]; [reflexivity|].
    rewrite inside_radius_0 by lra. exact IH. }
  apply H.
Qed.

Lemma grid_ok_axis g k a : grid_ok g -> nth_error g k = Some a -> axis_ok a.
Proof.
  intros Hg Hn. unfold grid_ok in Hg. rewrite Forall_forall in Hg. exact (Hg a (nth_error_In _ _ Hn)).
Qed.

Theorem ball_centroid g c r k a x : grid_ok g -> nonper g ->
  nth_error g k = Some a -> nth_error c k = Some x -> fits1 a x r ->
  Qabs (lsum (ball_cells g c r) (fun idx => coordQ idx k + (1 # 2) - gam a x))
  <= (1 # 2) * inject_Z (Z.of_nat (length (ball_cells g c r))).
Proof.
  intros Hg Hnp Hk Hc Hfit.
  destruct (Qlt_le_dec r 0) as [Hr|Hr].
  - rewrite ball_cells_neg by lra. cbn [lsum length]. change (inject_Z (Z.of_nat 0)) with 0.
    apply Qabs_Qle_condition. split; lra.
  - rewrite <- lsum_one. unfold ball_cells. rewrite <- !lsum_filter.
    pose proof (within_centroid g Hnp c k a x r (r * r) Hk Hc (grid_ok_axis g k a Hg Hk) Hr
                  (Qle_refl _) Hfit) as H.
    assert (E1 : lsum (all_cells (gshape g))
                   (fun idx => ind (inside g c r idx) (coordQ idx k + (1 # 2) - gam a x))
                 == lsum (all_cells (gshape g))
                      (fun idx => ind (within g c (r * r) idx) (rowoff (gam a x) (nth k idx 0%Z)))).
    { apply lsum_ext. intros idx _. rewrite (inside_within g c r idx Hr). reflexivity. }
    assert (E2 : lsum (all_cells (gshape g)) (fun idx => ind (inside g c r idx) 1)
                 == lsum (all_cells (gshape g)) (fun idx => ind (within g c (r * r) idx) 1)).
    { apply lsum_ext. intros idx _. rewrite (inside_within g c r idx Hr). reflexivity. }
    rewrite E1, E2. exact H.
Qed.

(* the centre of mass in grid coordinates, as the locator reports it: lo + (mean index + 1/2) h *)
Definition ball_com (g : grid) (c : list Q) (r : Q) (k : nat) (a : axis) : Q :=
  alo a + (lsum (ball_cells g c r) (fun idx => coordQ idx k)
           / inject_Z (Z.of_nat (length (ball_cells g c r))) + (1 # 2)) * adisc a.

Theorem ball_centre_within_half_cell g c r k a x : grid_ok g -> nonper g ->
  nth_error g k = Some a -> nth_error c k = Some x -> fits1 a x r ->
  ball_cells g c r <> [] ->
  Qabs (ball_com g c r k a - x) <= adisc a / 2.
Proof.
  intros Hg Hnp Hk Hc Hfit Hne.
  pose proof (ball_centroid g c r k a x Hg Hnp Hk Hc Hfit) as H.
  pose proof (adisc_pos a (grid_ok_axis g k a Hg Hk)) as Hh.
  unfold ball_com. set (B := ball_cells g c r) in *.
  set (n := inject_Z (Z.of_nat (length B))) in *.
  assert (Hn : 0 < n).
  { unfold n. change 0 with (inject_Z 0). rewrite <- Zlt_Qlt. destruct B; [congruence|cbn [length]; lia]. }
  assert (Hn0 : ~ n == 0) by (intros E; rewrite E in Hn; discriminate Hn).
  assert (Hh0 : ~ adisc a == 0) by (intros E; rewrite E in Hh; discriminate Hh).
  assert (E : lsum B (fun idx => coordQ idx k + (1 # 2) - gam a x)
              == lsum B (fun idx => coordQ idx k) + ((1 # 2) - gam a x) * n).
  { assert (E0 : lsum B (fun idx => coordQ idx k + (1 # 2) - gam a x)
                 == lsum B (fun idx => coordQ idx k + ((1 # 2) - gam a x))).
    { apply lsum_ext. intros idx _. ring. }
    rewrite E0, lsum_plus, lsum_const. reflexivity. }
  rewrite E in H. set (S := lsum B (fun idx => coordQ idx k)) in *.
  assert (E3 : alo a + (S / n + (1 # 2)) * adisc a - x
               == adisc a * ((S + ((1 # 2) - gam a x) * n) / n)).
  { unfold gam. field. split; assumption. }
  rewrite E3. set (W := S + ((1 # 2) - gam a x) * n) in *.
  apply Qabs_Qle_condition in H. destruct H as [H1 H2].
  assert (E4 : adisc a / 2 == (1 # 2) * adisc a) by field. rewrite E4.
  assert (Hw1 : - (1 # 2) <= W / n).
  { apply Qle_shift_div_l; [exact Hn|]. lra. }
  assert (Hw2 : W / n <= 1 # 2).
  { apply Qle_shift_div_r; [exact Hn|]. lra. }
  set (V := W / n) in *. apply Qabs_Qle_condition. split; nra.
Qed.

Print Assumptions rows_centroid.
Print Assumptions within_centroid.
Print Assumptions ball_centroid.
Print Assumptions ball_centre_within_half_cell.
