(* Spectrum, part 3: the premises `dft_spec` are satisfiable -- the executable 1-d DFT for N = 4
   (Model.Spectrum.dft4, complex values as pairs) satisfies every identity of the oracle specification. *)
From Coq Require Import Reals Lra List ZArith Lia Bool Arith.
Import ListNotations.
From PD Require Import Model.Spectrum.
Local Open Scope R_scope.

Lemma sqrt_4 : sqrt 4 = 2.
Proof. replace 4 with (2 * 2) by ring. apply sqrt_square. lra. Qed.

Lemma all_idx_4 : all_idx [4%nat] = [[0%nat]; [1%nat]; [2%nat]; [3%nat]].
Proof. reflexivity. Qed.

Lemma swap_at_single {A} i (a : A) : swap_at i [a] = [a].
Proof. destruct i as [|[|i]]; reflexivity. Qed.

Ltac four_modes Hk :=
  rewrite all_idx_4 in Hk; simpl in Hk;
  destruct Hk as [Hk|[Hk|[Hk|[Hk|[]]]]]; subst.

Lemma dft4_parseval : dft_parseval dom4 dft4.
Proof.
  intros shape x Hd. unfold dom4 in Hd. subst shape. rewrite all_idx_4.
  unfold sum_over, rsum, cabs2, dft4. simpl. field.
Qed.

Lemma dft4_zero_mode : dft_zero_mode dom4 dft4.
Proof.
  intros shape x Hd. unfold dom4 in Hd. subst shape. unfold size_of. rewrite all_idx_4.
  unfold sum_over, rsum, dft4. simpl. replace (1 + 1 + 1 + 1) with 4 by ring. rewrite sqrt_4.
  f_equal. field.
Qed.

Lemma dft4_homogeneous : dft_homogeneous dom4 dft4.
Proof.
  intros shape c x k Hd Hk. unfold dom4 in Hd. subst shape. four_modes Hk;
    unfold cabs2, dft4; simpl; ring.
Qed.

Lemma dft4_shift : dft_shift dom4 dft4.
Proof.
  intros shape s x k Hd Hk. unfold dom4 in Hd. subst shape.
  destruct s as [|a s].
  - reflexivity.
  - assert (Hm : forall m, shift_idx [4%nat] (a :: s) [m] = [((m + a mod 4) mod 4)%nat]).
    { intros m. cbn [shift_idx]. f_equal. symmetry. apply Nat.add_mod_idemp_r. lia. }
    assert (Hb : (a mod 4 < 4)%nat) by (apply Nat.mod_upper_bound; lia).
    unfold cabs2, dft4. rewrite !Hm. clear Hm.
    destruct (a mod 4)%nat as [|[|[|[|b]]]]; [| | | |lia];
      four_modes Hk; simpl; ring.
Qed.

Lemma dft4_reflect : dft_reflect dom4 dft4.
Proof.
  intros shape ax x k Hd Hk. unfold dom4 in Hd. subst shape.
  destruct ax as [|ax]; four_modes Hk; unfold cabs2, dft4; simpl; try ring;
    destruct ax; simpl; ring.
Qed.

Lemma dft4_axis_swap : dft_axis_swap dom4 dft4.
Proof.
  intros shape i x k Hd _ Hk. unfold dom4 in Hd. subst shape. rewrite swap_at_single in *.
  four_modes Hk; unfold cabs2, dft4; rewrite !swap_at_single; reflexivity.
Qed.

Theorem dft4_spec : dft_spec dom4 dft4.
Proof.
  repeat split; [apply dft4_parseval|apply dft4_zero_mode|apply dft4_homogeneous|apply dft4_shift
                 |apply dft4_reflect|apply dft4_axis_swap].
Qed.

(* sanity: without norm="ortho" the transform is NOT norm preserving (what the fft_norm_ortho fact guards) *)
Lemma dft4_backward_not_parseval :
  exists x, sum_over (all_idx [4%nat]) (fun k => cabs2 (dft4 false [4%nat] x k)) <>
            sum_over (all_idx [4%nat]) (fun n => x n ^ 2).
Proof.
  exists (fun _ => 1). rewrite all_idx_4. unfold sum_over, rsum, cabs2, dft4. simpl. lra.
Qed.

(* the N = 4 transform satisfies the cosine-support premise (q = 1 is the only resolved wave) *)
Lemma cos_quarter_turns phi :
  cos (2 * PI * INR 1 * INR 0 / INR 4 + phi) = cos phi /\
  cos (2 * PI * INR 1 * INR 1 / INR 4 + phi) = - sin phi /\
  cos (2 * PI * INR 1 * INR 2 / INR 4 + phi) = - cos phi /\
  cos (2 * PI * INR 1 * INR 3 / INR 4 + phi) = sin phi.
Proof.
  repeat split.
  - f_equal. simpl. field.
  - replace (2 * PI * INR 1 * INR 1 / INR 4 + phi) with (PI / 2 + phi) by (simpl; field).
    rewrite cos_plus, cos_PI2, sin_PI2. ring.
  - replace (2 * PI * INR 1 * INR 2 / INR 4 + phi) with (phi + PI) by (simpl; field).
    apply neg_cos.
  - replace (2 * PI * INR 1 * INR 3 / INR 4 + phi) with (3 * (PI / 2) + phi) by (simpl; field).
    rewrite cos_plus, cos_3PI2, sin_3PI2. ring.
Qed.

Lemma dft4_cosine : dft_cosine dom4 dft4.
Proof.
  intros N q A phi c Hd Hq1 Hq4. unfold dom4 in Hd. injection Hd as ->.
  assert (q = 1%nat) by lia. subst q.
  destruct (cos_quarter_turns phi) as [C0 [C1 [C2 C3]]].
  assert (SC : sin phi * sin phi + cos phi * cos phi = 1) by (pose proof (sin2_cos2 phi) as H; unfold Rsqr in H; exact H).
  repeat split.
  - intros m Hm H0 H1 H3. assert (m = 2%nat) by (simpl in H3; lia). subst m.
    unfold cabs2, dft4, cosine_field. cbn [fst snd]. rewrite C0, C1, C2, C3. field.
  - unfold cabs2, dft4, cosine_field. cbn [fst snd]. rewrite C0, C1, C2, C3.
    replace (INR 4) with 4 by (simpl; ring). nra.
  - change (4 - 1)%nat with 3%nat. unfold cabs2, dft4, cosine_field. cbn [fst snd]. rewrite C0, C1, C2, C3.
    replace (INR 4) with 4 by (simpl; ring). nra.
Qed.
