(* C01 geometry, part 1: one lattice row of a digitised ball.
   For h > 0, gamma, s2 the row R = { i : Z | (h (i + 1/2 - gamma))^2 < s2 } satisfies
     ball_row_convex   : R is convex;
     ball_row_interval : for its least and greatest elements a, b:
                         -1 < (a + 1/2 - gamma) + (b + 1/2 - gamma) < 1;
     ball_row_sum      : | sum_{i=a..b} (i + 1/2 - gamma) | <= (b - a + 1) / 2;
     row_ind_sum       : for a window [s, s+m) of integers that contains R, the indicator sums satisfy
                         | sum_{i in window} [i in R] (i + 1/2 - gamma) | <= (1/2) sum_{i in window} [i in R].
   No square roots: everything is stated on squares. *)
From Coq Require Import QArith Qabs ZArith List Arith Bool Lia Lqa Setoid Morphisms.
Import ListNotations.
From PD Require Import Model.Grid Model.Render Model.MergeLoop Model.Ball Proofs.Render Proofs.MergeLoop Proofs.Components.
Local Open Scope Q_scope.

(* ---- the algebraic core (scaled by h) ---- *)
Lemma interval_core h X Y T : 0 < h ->
  X * X < T -> Y * Y < T -> T <= (X - h) * (X - h) -> T <= (Y + h) * (Y + h) ->
  - h < X + Y /\ X + Y < h.
Proof.
  intros Hh HX HY HXm HYp.
  assert (HX2 : 2 * X < h) by nra.
  assert (HY2 : - h < 2 * Y) by nra.
  split.
  - destruct (Qlt_le_dec (- h) (X + Y)) as [H|H]; [exact H|exfalso].
    (* X <= -(Y + h) < 0, so X^2 >= (Y+h)^2 >= T *)
    assert (H1 : 0 < Y + h) by lra.
    assert (H2 : X <= - (Y + h)) by lra.
    assert (H3 : (Y + h) * (Y + h) <= X * X) by nra.
    lra.
  - destruct (Qlt_le_dec (X + Y) h) as [H|H]; [exact H|exfalso].
    assert (H1 : 0 < h - X) by lra.
    assert (H2 : h - X <= Y) by lra.
    assert (H3 : (X - h) * (X - h) <= Y * Y) by nra.
    lra.
Qed.

Lemma sq_between a m b : a <= m -> m <= b -> m * m <= a * a \/ m * m <= b * b.
Proof.
  intros H1 H2. destruct (Qlt_le_dec m 0) as [Hm|Hm].
  - left. nra.
  - right. nra.
Qed.

Lemma rowoff_le gamma i j : (i <= j)%Z -> rowoff gamma i <= rowoff gamma j.
Proof. intros H. unfold rowoff. rewrite Zle_Qle in H. lra. Qed.

Lemma rowoff_succ gamma i : rowoff gamma (i + 1) == rowoff gamma i + 1.
Proof. unfold rowoff. rewrite inject_Z_plus. change (inject_Z 1) with 1. ring. Qed.

Lemma rowoff_pred gamma i : rowoff gamma (i - 1) == rowoff gamma i - 1.
Proof.
  unfold rowoff, Z.sub. rewrite inject_Z_plus. change (inject_Z (- (1))) with (- (1)). ring.
Qed.

Lemma rowoff_shift gamma i k : rowoff gamma (i + k) == rowoff gamma i + inject_Z k.
Proof. unfold rowoff. rewrite inject_Z_plus. ring. Qed.

(* ---- (1a) the row is convex ---- *)
Theorem ball_row_convex h gamma s2 i j k : (i <= j <= k)%Z ->
  rowmem h gamma s2 i -> rowmem h gamma s2 k -> rowmem h gamma s2 j.
Proof.
  unfold rowmem. intros [Hij Hjk] Hi Hk.
  pose proof (rowoff_le gamma i j Hij) as H1. pose proof (rowoff_le gamma j k Hjk) as H2.
  set (x := rowoff gamma i) in *. set (y := rowoff gamma j) in *. set (z := rowoff gamma k) in *.
  destruct (Qlt_le_dec h 0) as [Hh|Hh].
  - destruct (sq_between (h * z) (h * y) (h * x)) as [H|H]; [nra|nra|lra|lra].
  - destruct (sq_between (h * x) (h * y) (h * z)) as [H|H]; [nra|nra|lra|lra].
Qed.

(* ---- (1b) least and greatest element: the midpoint of the row is within 1/2 of gamma ---- *)
Theorem ball_row_interval h gamma s2 imin imax : 0 < h ->
  rowmem h gamma s2 imin -> rowmem h gamma s2 imax ->
  ~ rowmem h gamma s2 (imin - 1) -> ~ rowmem h gamma s2 (imax + 1) ->
  - (1) < rowoff gamma imin + rowoff gamma imax /\ rowoff gamma imin + rowoff gamma imax < 1.
Proof.
  unfold rowmem. intros Hh Hmin Hmax Hlo Hhi.
  apply Qnot_lt_le in Hlo. apply Qnot_lt_le in Hhi.
  rewrite rowoff_pred in Hlo. rewrite rowoff_succ in Hhi.
  set (x := rowoff gamma imin) in *. set (y := rowoff gamma imax) in *.
  destruct (interval_core h (h * x) (h * y) s2 Hh Hmin Hmax) as [H1 H2].
  - assert (E : h * x - h == h * (x - 1)) by ring. rewrite E. exact Hlo.
  - assert (E : h * y + h == h * (y + 1)) by ring. rewrite E. exact Hhi.
  - split; nra.
Qed.

(* ---- arithmetic series over an integer interval ---- *)
Lemma lsum_app {A : Type} (l1 l2 : list A) f : lsum (l1 ++ l2) f == lsum l1 f + lsum l2 f.
Proof. induction l1 as [|x l1 IH]; cbn [app lsum]; [ring|rewrite IH; ring]. Qed.

Lemma lsum_zrange_affine d m : forall a,
  lsum (zrange m a) (fun i => inject_Z i + d)
  == inject_Z (Z.of_nat m) * (inject_Z a + d)
     + inject_Z (Z.of_nat m) * (inject_Z (Z.of_nat m) - 1) / 2.
Proof.
  induction m as [|m IH]; intros a.
  - cbn [zrange lsum]. change (inject_Z (Z.of_nat 0)) with 0. field.
  - cbn [zrange lsum]. rewrite IH. rewrite Nat2Z.inj_succ. unfold Z.succ. rewrite !inject_Z_plus.
    change (inject_Z 1) with 1. field.
Qed.

Lemma zrange_length m : forall a, length (zrange m a) = m.
Proof. induction m as [|m IH]; intros a; cbn [zrange length]; [reflexivity|]. rewrite IH. reflexivity. Qed.

Lemma zrange_app m1 : forall m2 a, zrange (m1 + m2) a = zrange m1 a ++ zrange m2 (a + Z.of_nat m1)%Z.
Proof.
  induction m1 as [|m1 IH]; intros m2 a.
  - cbn [plus zrange app]. f_equal. cbn [Z.of_nat]. lia.
  - cbn [plus zrange app]. f_equal. rewrite IH. f_equal. f_equal. lia.
Qed.

Lemma zrange_In m : forall a i, In i (zrange m a) <-> (a <= i < a + Z.of_nat m)%Z.
Proof.
  induction m as [|m IH]; intros a i; cbn [zrange In].
  - lia.
  - rewrite IH. lia.
Qed.

(* ---- (1c) the mean of a complete row [a, b] is within 1/2 of gamma ---- *)
Theorem ball_row_sum h gamma s2 a b : 0 < h -> (a <= b)%Z ->
  rowmem h gamma s2 a -> rowmem h gamma s2 b ->
  ~ rowmem h gamma s2 (a - 1) -> ~ rowmem h gamma s2 (b + 1) ->
  Qabs (lsum (zrange (Z.to_nat (b - a + 1)) a) (rowoff gamma)) <= inject_Z (b - a + 1) / 2.
Proof.
  intros Hh Hab Ha Hb Hlo Hhi.
  destruct (ball_row_interval h gamma s2 a b Hh Ha Hb Hlo Hhi) as [H1 H2].
  assert (E : lsum (zrange (Z.to_nat (b - a + 1)) a) (rowoff gamma)
              == inject_Z (b - a + 1) / 2 * (rowoff gamma a + rowoff gamma b)).
  { assert (E1 : lsum (zrange (Z.to_nat (b - a + 1)) a) (rowoff gamma)
                 == lsum (zrange (Z.to_nat (b - a + 1)) a) (fun i => inject_Z i + ((1 # 2) - gamma))).
    { apply lsum_ext. intros i _. unfold rowoff. ring. }
    rewrite E1, lsum_zrange_affine. rewrite Z2Nat.id by lia.
    unfold rowoff. unfold Z.sub. rewrite !inject_Z_plus, inject_Z_opp. change (inject_Z 1) with 1. field. }
  rewrite E. set (M := inject_Z (b - a + 1)).
  assert (HM : 0 <= M). { unfold M. change 0 with (inject_Z 0). rewrite <- Zle_Qle. lia. }
  set (w := rowoff gamma a + rowoff gamma b) in *.
  clearbody M w.
  assert (Hp1 : 0 <= M * (w + 1)) by (apply Qmult_le_0_compat; lra).
  assert (Hp2 : 0 <= M * (1 - w)) by (apply Qmult_le_0_compat; lra).
  assert (E2 : M / 2 == (1 # 2) * M) by field. rewrite E2.
  apply Qabs_Qle_condition. split; lra.
Qed.

(* ---- boolean rows inside a window of integers ---- *)
Lemma rowb_iff h gamma s2 i : rowb h gamma s2 i = true <-> rowmem h gamma s2 i.
Proof. unfold rowb, rowmem. apply Qlt_bool_iff. Qed.

Lemma rowb_false_iff h gamma s2 i : rowb h gamma s2 i = false <-> ~ rowmem h gamma s2 i.
Proof.
  rewrite <- rowb_iff. destruct (rowb h gamma s2 i); split; intros H; try reflexivity; try discriminate H.
  - exfalso. apply H. reflexivity.
  - intros H'. discriminate H'.
Qed.

(* a convex boolean set meets a window [s, s+m) in nothing or in a subinterval [a, b] *)
Lemma convex_window (p : Z -> bool) :
  (forall i j k, (i <= j <= k)%Z -> p i = true -> p k = true -> p j = true) ->
  forall m s,
    (forall i, (s <= i < s + Z.of_nat m)%Z -> p i = false) \/
    exists a b, (s <= a)%Z /\ (a <= b)%Z /\ (b < s + Z.of_nat m)%Z /\
      forall i, (s <= i < s + Z.of_nat m)%Z -> (p i = true <-> (a <= i <= b)%Z).
Proof.
  intros Hconv. induction m as [|m IH]; intros s.
  - left. intros i Hi. lia.
  - destruct (IH (s + 1)%Z) as [Hnone|(a & b & Hsa & Hab & Hbm & Hiff)].
    + destruct (p s) eqn:Es.
      * right. exists s, s. split; [lia|]. split; [lia|]. split; [lia|].
        intros i Hi. split.
        -- intros Hp. destruct (Z.eq_dec i s) as [->|Hne]; [lia|].
           rewrite Hnone in Hp by lia. discriminate Hp.
        -- intros Hi'. assert (i = s) by lia. subst i. exact Es.
      * left. intros i Hi. destruct (Z.eq_dec i s) as [->|Hne]; [exact Es|]. apply Hnone. lia.
    + right. destruct (p s) eqn:Es.
      * exists s, b. split; [lia|]. split; [lia|]. split; [lia|].
        intros i Hi. destruct (Z.eq_dec i s) as [->|Hne].
        -- split; [intros _; lia|intros _; exact Es].
        -- split.
           ++ intros Hp. apply Hiff in Hp; lia.
           ++ intros Hi'. assert (Hb : p b = true) by (apply Hiff; lia).
              apply (Hconv s i b); [lia|exact Es|exact Hb].
      * exists a, b. split; [lia|]. split; [lia|]. split; [lia|].
        intros i Hi. destruct (Z.eq_dec i s) as [->|Hne].
        -- rewrite Es. split; [discriminate|lia].
        -- apply Hiff. lia.
Qed.

Lemma lsum_ind_false {A : Type} (l : list A) (p : A -> bool) f :
  (forall x, In x l -> p x = false) -> lsum l (fun x => ind (p x) (f x)) == 0.
Proof.
  induction l as [|x l IH]; intros H; cbn [lsum]; [reflexivity|].
  rewrite (H x) by (left; reflexivity). cbn [ind].
  rewrite IH by (intros y Hy; apply H; right; exact Hy). ring.
Qed.

Lemma lsum_ind_true {A : Type} (l : list A) (p : A -> bool) f :
  (forall x, In x l -> p x = true) -> lsum l (fun x => ind (p x) (f x)) == lsum l f.
Proof.
  induction l as [|x l IH]; intros H; cbn [lsum]; [reflexivity|].
  rewrite (H x) by (left; reflexivity). cbn [ind].
  rewrite IH by (intros y Hy; apply H; right; exact Hy). ring.
Qed.

(* a window [s, s+m) in which p holds exactly on [a, b]: indicator sums reduce to sums over [a, b] *)
Lemma window_sum (p : Z -> bool) (f : Z -> Q) m s a b :
  (s <= a)%Z -> (a <= b)%Z -> (b < s + Z.of_nat m)%Z ->
  (forall i, (s <= i < s + Z.of_nat m)%Z -> (p i = true <-> (a <= i <= b)%Z)) ->
  lsum (zrange m s) (fun i => ind (p i) (f i)) == lsum (zrange (Z.to_nat (b - a + 1)) a) f.
Proof.
  intros Hsa Hab Hbm Hiff.
  assert (Em : m = (Z.to_nat (a - s) + (Z.to_nat (b - a + 1) + Z.to_nat (s + Z.of_nat m - b - 1)))%nat) by lia.
  rewrite Em at 1. rewrite !zrange_app, !lsum_app.
  rewrite (lsum_ind_false (zrange (Z.to_nat (a - s)) s)).
  2:{ intros i Hi. apply zrange_In in Hi. destruct (p i) eqn:E; [|reflexivity]. apply Hiff in E; lia. }
  rewrite (lsum_ind_false (zrange (Z.to_nat (s + Z.of_nat m - b - 1)) _)).
  2:{ intros i Hi. apply zrange_In in Hi. destruct (p i) eqn:E; [|reflexivity]. apply Hiff in E; lia. }
  rewrite lsum_ind_true.
  2:{ intros i Hi. apply zrange_In in Hi. apply Hiff; lia. }
  replace (s + Z.of_nat (Z.to_nat (a - s)))%Z with a by lia. ring.
Qed.

(* ---- (1d) indicator form over a window that contains the whole row ---- *)
Theorem row_ind_sum h gamma s2 m s : 0 < h ->
  (forall i, rowmem h gamma s2 i -> (s <= i < s + Z.of_nat m)%Z) ->
  Qabs (lsum (zrange m s) (fun i => ind (rowb h gamma s2 i) (rowoff gamma i)))
  <= (1 # 2) * lsum (zrange m s) (fun i => ind (rowb h gamma s2 i) 1).
Proof.
  intros Hh Hwin.
  destruct (convex_window (rowb h gamma s2)) with (m := m) (s := s) as [Hnone|(a & b & Hsa & Hab & Hbm & Hiff)].
  - intros i j k Hijk Hi Hk. apply rowb_iff. apply rowb_iff in Hi. apply rowb_iff in Hk.
    exact (ball_row_convex h gamma s2 i j k Hijk Hi Hk).
  - rewrite !lsum_ind_false by (intros i Hi; apply zrange_In in Hi; apply Hnone; exact Hi).
    apply Qabs_Qle_condition. split; lra.
  - rewrite (window_sum _ _ m s a b Hsa Hab Hbm Hiff).
    rewrite (window_sum _ (fun _ => 1) m s a b Hsa Hab Hbm Hiff).
    rewrite lsum_one, zrange_length, Z2Nat.id by lia.
    assert (Ha : rowmem h gamma s2 a) by (apply rowb_iff, Hiff; lia).
    assert (Hb : rowmem h gamma s2 b) by (apply rowb_iff, Hiff; lia).
    assert (Hlo : ~ rowmem h gamma s2 (a - 1)).
    { intros Hm. pose proof (Hwin _ Hm) as Hw. apply rowb_iff in Hm. apply Hiff in Hm; lia. }
    assert (Hhi : ~ rowmem h gamma s2 (b + 1)).
    { intros Hm. pose proof (Hwin _ Hm) as Hw. apply rowb_iff in Hm. apply Hiff in Hm; lia. }
    pose proof (ball_row_sum h gamma s2 a b Hh Hab Ha Hb Hlo Hhi) as H.
    assert (E2 : inject_Z (b - a + 1) / 2 == (1 # 2) * inject_Z (b - a + 1)) by field.
    rewrite E2 in H. exact H.
Qed.

Print Assumptions ball_row_convex.
Print Assumptions ball_row_interval.
Print Assumptions ball_row_sum.
Print Assumptions row_ind_sum.
