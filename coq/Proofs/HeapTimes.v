(* HeapTimes -- times lists are objects of their own.  Invariant [Aligned], preserved by EVERY
   operation (default flags or not, failing operations included):
     * no times list object is held by two collections, or by a collection and a caller variable
       ([TSep]);
     * for every time course and every track, its times list is as long as its member list.  *)
From Coq Require Import List Arith Bool QArith Lia.
Import ListNotations.
From PD Require Import Model.Heap Proofs.Heap Proofs.HeapWf Proofs.HeapSep.
Local Open Scope nat_scope.

Definition TSep (h : heap) : Prop := NoDup (tl_roots h).
Definition tc_aligned (h : heap) (t : tcourse) : Prop := length (tc_times h t) = length (tc_ems t).
Definition tr_aligned (h : heap) (k : track) : Prop := length (tr_times h k) = length (tr_drops k).
Definition Aligned (h : heap) : Prop :=
  TSep h /\ Forall (tc_aligned h) (tcs h) /\ Forall (tr_aligned h) (trs h).

Lemma Aligned_emp : Aligned emp.
Proof. repeat split; constructor. Qed.

(* ---- lists ---- *)

Lemma map_upd {A B} (f : A -> B) l c x : map f (upd l c x) = upd (map f l) c (f x).
Proof. revert c; induction l as [|a l IH]; intros [|c]; simpl; auto. f_equal; auto. Qed.

Lemma upd_same {A} (l : list A) n x : nth_error l n = Some x -> upd l n x = l.
Proof.
  revert n; induction l as [|a l IH]; intros [|n] H; simpl in *; try discriminate.
  - inversion H; auto.
  - f_equal; auto.
Qed.

Lemma nth_error_upd {A} (l : list A) n m x :
  nth_error (upd l n x) m = if Nat.eqb n m then (if m <? length l then Some x else None) else nth_error l m.
Proof.
  destruct (Nat.eqb n m) eqn:E.
  - apply Nat.eqb_eq in E. subst m. destruct (n <? length l) eqn:L.
    + apply Nat.ltb_lt in L. apply nth_error_upd_eq; auto.
    + apply Nat.ltb_ge in L. rewrite upd_out by auto. apply nth_error_None. auto.
  - apply Nat.eqb_neq in E. apply nth_error_upd_neq; auto.
Qed.

Lemma Forall_nth {A} (P : A -> Prop) l : Forall P l <-> (forall i y, nth_error l i = Some y -> P y).
Proof.
  split.
  - intros H i y E. eapply Forall_nth_error; eauto.
  - intros H. apply Forall_forall. intros x Hx. apply In_nth_error in Hx as [i Hi]. eauto.
Qed.

Lemma Forall_upd_except {A} (P : A -> Prop) l n x :
  (forall i y, i <> n -> nth_error l i = Some y -> P y) -> P x -> Forall P (upd l n x).
Proof.
  intros H Hx. apply Forall_nth. intros i y E. rewrite nth_error_upd in E.
  destruct (Nat.eqb n i) eqn:B.
  - destruct (i <? length l); inversion E; subst; auto.
  - apply Nat.eqb_neq in B. eapply H; eauto.
Qed.

Lemma cnt_upd (l : list nat) n x y a :
  nth_error l n = Some x -> cnt (upd l n y) a + cnt [x] a = cnt l a + cnt [y] a.
Proof.
  revert n; induction l as [|z l IH]; intros [|n] H; simpl in *; try discriminate.
  - inversion H; subst. destruct (Nat.eq_dec x a), (Nat.eq_dec y a); lia.
  - specialize (IH n H). simpl in IH. destruct (Nat.eq_dec z a); lia.
Qed.

(* ---- content of times lists ---- *)

Lemma tl_get_some h tl ts : times_of h tl = Some ts -> tl_get h tl = ts.
Proof. intros H. unfold tl_get. rewrite H. reflexivity. Qed.

Lemma tl_get_alloc_old h h1 ts tl :
  tlists h1 = tlists h ++ [ts] -> tl < length (tlists h) -> tl_get h1 tl = tl_get h tl.
Proof. intros E H. unfold tl_get, times_of. rewrite E, nth_error_app1 by exact H. reflexivity. Qed.

Lemma tl_get_alloc_new h h1 ts : tlists h1 = tlists h ++ [ts] -> tl_get h1 (length (tlists h)) = ts.
Proof.
  intros E. unfold tl_get, times_of. rewrite E, nth_error_app2 by lia. rewrite Nat.sub_diag. reflexivity.
Qed.

Lemma tl_get_set_other h h1 tl x tl' :
  tlists h1 = upd (tlists h) tl x -> tl' <> tl -> tl_get h1 tl' = tl_get h tl'.
Proof. intros E H. unfold tl_get, times_of. rewrite E, nth_error_upd_neq by auto. reflexivity. Qed.

Lemma tl_get_set_same h h1 tl x :
  tlists h1 = upd (tlists h) tl x -> tl < length (tlists h) -> tl_get h1 tl = x.
Proof. intros E H. unfold tl_get, times_of. rewrite E, nth_error_upd_eq by auto. reflexivity. Qed.

Lemma tl_get_same h h1 tl : tlists h1 = tlists h -> tl_get h1 tl = tl_get h tl.
Proof. intros E. unfold tl_get, times_of. rewrite E. reflexivity. Qed.

(* ---- positions in tl_roots ---- *)

Lemma tl_roots_lt h : wf h -> Forall (fun tl => tl < length (tlists h)) (tl_roots h).
Proof.
  intros W. unfold tl_roots. apply Forall_app; split; [|apply Forall_app; split].
  - apply Forall_map. apply (wf_tc_tl _ W).
  - apply Forall_map. apply (wf_tr_tl _ W).
  - apply (wf_tvars _ W).
Qed.

Lemma tl_roots_cnt h a :
  cnt (tl_roots h) a = cnt (map tc_tl (tcs h)) a + cnt (map tr_tl (trs h)) a + cnt (tvars h) a.
Proof. unfold tl_roots. rewrite !cnt_app. lia. Qed.

Lemma cnt_two (l : list nat) i j a :
  i <> j -> nth_error l i = Some a -> nth_error l j = Some a -> 2 <= cnt l a.
Proof.
  revert i j; induction l as [|z l IH]; intros [|i] [|j] Hne Hi Hj; simpl in *; try discriminate; try congruence.
  - inversion Hi; subst. destruct (Nat.eq_dec a a); [|congruence].
    pose proof (cnt_In l a (nth_error_In _ _ Hj)). unfold cnt in *. lia.
  - inversion Hj; subst. destruct (Nat.eq_dec a a); [|congruence].
    pose proof (cnt_In l a (nth_error_In _ _ Hi)). unfold cnt in *. lia.
  - assert (i <> j) by congruence. specialize (IH i j H Hi Hj). unfold cnt in *. destruct (Nat.eq_dec z a); lia.
Qed.

Lemma TSep_le h a : TSep h -> cnt (tl_roots h) a <= 1.
Proof. intros H. apply NoDup_cnt. exact H. Qed.

Lemma tsep_tc_tc h t t' tc tc' :
  TSep h -> t <> t' -> nth_error (tcs h) t = Some tc -> nth_error (tcs h) t' = Some tc' -> tc_tl tc' <> tc_tl tc.
Proof.
  intros S Hne E E' Heq. pose proof (TSep_le h (tc_tl tc) S) as X. rewrite tl_roots_cnt in X.
  assert (2 <= cnt (map tc_tl (tcs h)) (tc_tl tc)).
  { apply (cnt_two _ t t'); auto; rewrite nth_error_map; [rewrite E|rewrite E']; simpl; [reflexivity|rewrite Heq; reflexivity]. }
  lia.
Qed.

Lemma tsep_tc_tr h t k tc tr :
  TSep h -> nth_error (tcs h) t = Some tc -> nth_error (trs h) k = Some tr -> tr_tl tr <> tc_tl tc.
Proof.
  intros S E E' Heq. pose proof (TSep_le h (tc_tl tc) S) as X. rewrite tl_roots_cnt in X.
  assert (1 <= cnt (map tc_tl (tcs h)) (tc_tl tc)).
  { apply cnt_In. apply in_map_iff. exists tc. split; auto. eapply nth_error_In; eauto. }
  assert (1 <= cnt (map tr_tl (trs h)) (tc_tl tc)).
  { apply cnt_In. apply in_map_iff. exists tr. split; auto. eapply nth_error_In; eauto. }
  lia.
Qed.

Lemma tsep_tr_tr h k k' tr tr' :
  TSep h -> k <> k' -> nth_error (trs h) k = Some tr -> nth_error (trs h) k' = Some tr' -> tr_tl tr' <> tr_tl tr.
Proof.
  intros S Hne E E' Heq. pose proof (TSep_le h (tr_tl tr) S) as X. rewrite tl_roots_cnt in X.
  assert (2 <= cnt (map tr_tl (trs h)) (tr_tl tr)).
  { apply (cnt_two _ k k'); auto; rewrite nth_error_map; [rewrite E|rewrite E']; simpl; [reflexivity|rewrite Heq; reflexivity]. }
  lia.
Qed.

Lemma tsep_tv_tc h j tl t tc :
  TSep h -> nth_error (tvars h) j = Some tl -> nth_error (tcs h) t = Some tc -> tc_tl tc <> tl.
Proof.
  intros S E E' Heq. pose proof (TSep_le h tl S) as X. rewrite tl_roots_cnt in X.
  pose proof (cnt_In (tvars h) tl (nth_error_In _ _ E)).
  assert (1 <= cnt (map tc_tl (tcs h)) tl).
  { apply cnt_In. apply in_map_iff. exists tc. split; auto. eapply nth_error_In; eauto. }
  lia.
Qed.

Lemma tsep_tv_tr h j tl k tr :
  TSep h -> nth_error (tvars h) j = Some tl -> nth_error (trs h) k = Some tr -> tr_tl tr <> tl.
Proof.
  intros S E E' Heq. pose proof (TSep_le h tl S) as X. rewrite tl_roots_cnt in X.
  pose proof (cnt_In (tvars h) tl (nth_error_In _ _ E)).
  assert (1 <= cnt (map tr_tl (trs h)) tl).
  { apply cnt_In. apply in_map_iff. exists tr. split; auto. eapply nth_error_In; eauto. }
  lia.
Qed.

Lemma tsep_tv_tv h j j' tl :
  TSep h -> nth_error (tvars h) j = Some tl -> nth_error (tvars h) j' = Some tl -> j = j'.
Proof.
  intros S E E'. destruct (Nat.eq_dec j j'); auto. exfalso.
  pose proof (TSep_le h tl S) as X. rewrite tl_roots_cnt in X.
  pose proof (cnt_two (tvars h) j j' tl n E E'). lia.
Qed.

(* ---- the primitive steps ---- *)

(* nothing relevant changes *)
Lemma Aligned_same h h' :
  tcs h' = tcs h -> trs h' = trs h -> tlists h' = tlists h -> tvars h' = tvars h -> Aligned h -> Aligned h'.
Proof.
  intros E1 E2 E3 E4 (S & A1 & A2). unfold Aligned, TSep, tl_roots. rewrite E1, E2, E4. repeat split; auto.
  - eapply Forall_impl; [|exact A1]. intros t Ht. unfold tc_aligned, tc_times in *.
    rewrite (tl_get_same h h') by auto. exact Ht.
  - eapply Forall_impl; [|exact A2]. intros t Ht. unfold tr_aligned, tr_times in *.
    rewrite (tl_get_same h h') by auto. exact Ht.
Qed.

(* a new collection with a new times list of the right length *)
Lemma Aligned_push_tc h h' ts cs :
  wf h -> Aligned h -> length ts = length cs ->
  tcs h' = tcs h ++ [mkTC (length (tlists h)) cs] -> trs h' = trs h ->
  tlists h' = tlists h ++ [ts] -> tvars h' = tvars h -> Aligned h'.
Proof.
  intros W (S & A1 & A2) L E1 E2 E3 E4. split; [|split].
  - unfold TSep. eapply (sep_grow (length (tlists h)) (tl_roots h) _ 1 (tl_roots_lt h W) S).
    intros a. unfold tl_roots. rewrite E1, E2, E4, map_app, !cnt_app. simpl. nlia.
  - rewrite E1. apply Forall_app; split.
    + apply Forall_nth. intros i tc Ei. pose proof (Forall_nth_error _ _ _ _ A1 Ei) as X.
      unfold tc_aligned, tc_times in *. rewrite (tl_get_alloc_old h h' ts); auto.
      pose proof (Forall_nth_error _ _ _ _ (wf_tc_tl _ W) Ei) as Y. exact Y.
    + constructor; auto. unfold tc_aligned, tc_times. cbn [tc_tl tc_ems].
      rewrite (tl_get_alloc_new h h' ts); auto.
  - rewrite E2. apply Forall_nth. intros i tr Ei. pose proof (Forall_nth_error _ _ _ _ A2 Ei) as X.
    unfold tr_aligned, tr_times in *. rewrite (tl_get_alloc_old h h' ts); auto.
    pose proof (Forall_nth_error _ _ _ _ (wf_tr_tl _ W) Ei) as Y. exact Y.
Qed.

Lemma Aligned_push_tr h h' ts ds :
  wf h -> Aligned h -> length ts = length ds ->
  trs h' = trs h ++ [mkTR (length (tlists h)) ds] -> tcs h' = tcs h ->
  tlists h' = tlists h ++ [ts] -> tvars h' = tvars h -> Aligned h'.
Proof.
  intros W (S & A1 & A2) L E1 E2 E3 E4. split; [|split].
  - unfold TSep. eapply (sep_grow (length (tlists h)) (tl_roots h) _ 1 (tl_roots_lt h W) S).
    intros a. unfold tl_roots. rewrite E1, E2, E4, map_app, !cnt_app. simpl. nlia.
  - rewrite E2. apply Forall_nth. intros i tc Ei. pose proof (Forall_nth_error _ _ _ _ A1 Ei) as X.
    unfold tc_aligned, tc_times in *. rewrite (tl_get_alloc_old h h' ts); auto.
    pose proof (Forall_nth_error _ _ _ _ (wf_tc_tl _ W) Ei) as Y. exact Y.
  - rewrite E1. apply Forall_app; split.
    + apply Forall_nth. intros i tr Ei. pose proof (Forall_nth_error _ _ _ _ A2 Ei) as X.
      unfold tr_aligned, tr_times in *. rewrite (tl_get_alloc_old h h' ts); auto.
      pose proof (Forall_nth_error _ _ _ _ (wf_tr_tl _ W) Ei) as Y. exact Y.
    + constructor; auto. unfold tr_aligned, tr_times. cbn [tr_tl tr_drops].
      rewrite (tl_get_alloc_new h h' ts); auto.
Qed.

(* append: one more time in the collection's own list, one more member *)
Lemma Aligned_tc_append h h' t tc ts tm x :
  wf h -> Aligned h -> nth_error (tcs h) t = Some tc -> times_of h (tc_tl tc) = Some ts ->
  tcs h' = upd (tcs h) t (mkTC (tc_tl tc) (tc_ems tc ++ [x])) -> trs h' = trs h ->
  tlists h' = upd (tlists h) (tc_tl tc) (ts ++ [tm]) -> tvars h' = tvars h -> Aligned h'.
Proof.
  intros W (S & A1 & A2) Et Hts E1 E2 E3 E4.
  assert (Hlt : tc_tl tc < length (tlists h)) by (eapply wf_tc_tl_lt; eauto).
  split; [|split].
  - unfold TSep, tl_roots. rewrite E1, E2, E4, map_upd. cbn [tc_tl].
    rewrite upd_same; [exact S|]. rewrite nth_error_map, Et. reflexivity.
  - rewrite E1. apply Forall_upd_except.
    + intros i tc' Hne Ei. pose proof (Forall_nth_error _ _ _ _ A1 Ei) as X.
      unfold tc_aligned, tc_times in *. rewrite (tl_get_set_other h h' (tc_tl tc) (ts ++ [tm])); auto.
      eapply (tsep_tc_tc h t i); eauto.
    + unfold tc_aligned, tc_times. cbn [tc_tl tc_ems].
      rewrite (tl_get_set_same h h' (tc_tl tc) (ts ++ [tm])); auto.
      pose proof (Forall_nth_error _ _ _ _ A1 Et) as X. unfold tc_aligned, tc_times in X.
      rewrite (tl_get_some _ _ _ Hts) in X. rewrite !app_length. simpl. lia.
  - rewrite E2. apply Forall_nth. intros i tr Ei. pose proof (Forall_nth_error _ _ _ _ A2 Ei) as X.
    unfold tr_aligned, tr_times in *. rewrite (tl_get_set_other h h' (tc_tl tc) (ts ++ [tm])); auto.
    eapply tsep_tc_tr; eauto.
Qed.

Lemma Aligned_tr_append h h' k tr ts tm ds :
  wf h -> Aligned h -> nth_error (trs h) k = Some tr -> times_of h (tr_tl tr) = Some ts -> length ds = 1 ->
  trs h' = upd (trs h) k (mkTR (tr_tl tr) (tr_drops tr ++ ds)) -> tcs h' = tcs h ->
  tlists h' = upd (tlists h) (tr_tl tr) (ts ++ [tm]) -> tvars h' = tvars h -> Aligned h'.
Proof.
  intros W (S & A1 & A2) Et Hts Hds E1 E2 E3 E4.
  assert (Hlt : tr_tl tr < length (tlists h)) by (eapply wf_tr_tl_lt; eauto).
  split; [|split].
  - unfold TSep, tl_roots. rewrite E1, E2, E4, map_upd. cbn [tr_tl].
    rewrite upd_same; [exact S|]. rewrite nth_error_map, Et. reflexivity.
  - rewrite E2. apply Forall_nth. intros i tc Ei. pose proof (Forall_nth_error _ _ _ _ A1 Ei) as X.
    unfold tc_aligned, tc_times in *. rewrite (tl_get_set_other h h' (tr_tl tr) (ts ++ [tm])); auto.
    intros Heq. eapply (tsep_tc_tr h i k); eauto.
  - rewrite E1. apply Forall_upd_except.
    + intros i tr' Hne Ei. pose proof (Forall_nth_error _ _ _ _ A2 Ei) as X.
      unfold tr_aligned, tr_times in *. rewrite (tl_get_set_other h h' (tr_tl tr) (ts ++ [tm])); auto.
      eapply (tsep_tr_tr h k i); eauto.
    + unfold tr_aligned, tr_times. cbn [tr_tl tr_drops].
      rewrite (tl_get_set_same h h' (tr_tl tr) (ts ++ [tm])); auto.
      pose proof (Forall_nth_error _ _ _ _ A2 Et) as X. unfold tr_aligned, tr_times in X.
      rewrite (tl_get_some _ _ _ Hts) in X. rewrite !app_length. simpl. lia.
Qed.

(* clear: a new empty list object replaces the old one *)
Lemma Aligned_tc_clear h h' t tc :
  wf h -> Aligned h -> nth_error (tcs h) t = Some tc ->
  tcs h' = upd (tcs h) t (mkTC (length (tlists h)) []) -> trs h' = trs h ->
  tlists h' = tlists h ++ [[]] -> tvars h' = tvars h -> Aligned h'.
Proof.
  intros W (S & A1 & A2) Et E1 E2 E3 E4. split; [|split].
  - unfold TSep. eapply (sep_grow (length (tlists h)) (tl_roots h) _ 1 (tl_roots_lt h W) S).
    intros a. unfold tl_roots. rewrite E1, E2, E4, map_upd, !cnt_app. cbn [tc_tl].
    assert (En : nth_error (map tc_tl (tcs h)) t = Some (tc_tl tc)) by (rewrite nth_error_map, Et; reflexivity).
    pose proof (cnt_upd (map tc_tl (tcs h)) t (tc_tl tc) (length (tlists h)) a En) as X. simpl seq. nlia.
  - rewrite E1. apply Forall_upd_except.
    + intros i tc' Hne Ei. pose proof (Forall_nth_error _ _ _ _ A1 Ei) as X.
      unfold tc_aligned, tc_times in *. rewrite (tl_get_alloc_old h h' []); auto.
      pose proof (Forall_nth_error _ _ _ _ (wf_tc_tl _ W) Ei) as Y. exact Y.
    + unfold tc_aligned, tc_times. cbn [tc_tl tc_ems]. rewrite (tl_get_alloc_new h h' []); auto.
  - rewrite E2. apply Forall_nth. intros i tr Ei. pose proof (Forall_nth_error _ _ _ _ A2 Ei) as X.
    unfold tr_aligned, tr_times in *. rewrite (tl_get_alloc_old h h' []); auto.
    pose proof (Forall_nth_error _ _ _ _ (wf_tr_tl _ W) Ei) as Y. exact Y.
Qed.

(* the caller's own lists *)
Lemma Aligned_tlist_new h h' ts :
  wf h -> Aligned h -> tcs h' = tcs h -> trs h' = trs h ->
  tlists h' = tlists h ++ [ts] -> tvars h' = tvars h ++ [length (tlists h)] -> Aligned h'.
Proof.
  intros W (S & A1 & A2) E1 E2 E3 E4. split; [|split].
  - unfold TSep. eapply (sep_grow (length (tlists h)) (tl_roots h) _ 1 (tl_roots_lt h W) S).
    intros a. unfold tl_roots. rewrite E1, E2, E4, !cnt_app. simpl seq. nlia.
  - rewrite E1. apply Forall_nth. intros i tc Ei. pose proof (Forall_nth_error _ _ _ _ A1 Ei) as X.
    unfold tc_aligned, tc_times in *. rewrite (tl_get_alloc_old h h' ts); auto.
    pose proof (Forall_nth_error _ _ _ _ (wf_tc_tl _ W) Ei) as Y. exact Y.
  - rewrite E2. apply Forall_nth. intros i tr Ei. pose proof (Forall_nth_error _ _ _ _ A2 Ei) as X.
    unfold tr_aligned, tr_times in *. rewrite (tl_get_alloc_old h h' ts); auto.
    pose proof (Forall_nth_error _ _ _ _ (wf_tr_tl _ W) Ei) as Y. exact Y.
Qed.

Lemma Aligned_tlist_write h h' j tl x :
  Aligned h -> nth_error (tvars h) j = Some tl -> tcs h' = tcs h -> trs h' = trs h ->
  tlists h' = upd (tlists h) tl x -> tvars h' = tvars h -> Aligned h'.
Proof.
  intros (S & A1 & A2) Ej E1 E2 E3 E4. split; [|split].
  - unfold TSep, tl_roots. rewrite E1, E2, E4. exact S.
  - rewrite E1. apply Forall_nth. intros i tc Ei. pose proof (Forall_nth_error _ _ _ _ A1 Ei) as X.
    unfold tc_aligned, tc_times in *. rewrite (tl_get_set_other h h' tl x); auto.
    eapply tsep_tv_tc; eauto.
  - rewrite E2. apply Forall_nth. intros i tr Ei. pose proof (Forall_nth_error _ _ _ _ A2 Ei) as X.
    unfold tr_aligned, tr_times in *. rewrite (tl_get_set_other h h' tl x); auto.
    eapply tsep_tv_tr; eauto.
Qed.

(* ---- every operation ---- *)

Lemma extend_locs_times h c ls cp f :
  let h' := fst (extend_locs h c ls cp f) in
  tcs h' = tcs h /\ trs h' = trs h /\ tlists h' = tlists h /\ tvars h' = tvars h.
Proof.
  revert h; induction ls as [|l ls IH]; intros h; simpl; auto.
  assert (X : let h1 := fst (append_loc h c l cp f) in
              tcs h1 = tcs h /\ trs h1 = trs h /\ tlists h1 = tlists h /\ tvars h1 = tvars h).
  { unfold append_loc. destruct (nth_error (ems h) c); simpl; auto.
    destruct (val_of h l); simpl; auto. unfold em_add.
    destruct (rejects e v f); simpl; auto. destruct cp; simpl; auto. }
  destruct (append_loc h c l cp f) as [h1 [|e]]; simpl in *; auto.
  destruct (IH h1) as (I1 & I2 & I3 & I4). destruct X as (X1 & X2 & X3 & X4).
  rewrite I1, I2, I3, I4. auto.
Qed.

Lemma construct_times h dt ls cp f :
  let h' := fst (construct h dt ls cp f) in
  tcs h' = tcs h /\ trs h' = trs h /\ tlists h' = tlists h /\ tvars h' = tvars h.
Proof.
  unfold construct.
  pose proof (extend_locs_times (push_em h (mkE dt [])) (length (ems h)) ls cp f) as X.
  destruct (extend_locs (push_em h (mkE dt [])) (length (ems h)) ls cp f) as [h1 [|x]]; simpl in *; auto.
Qed.

Lemma Aligned_build_tc h es ts : wf h -> Aligned h -> Aligned (fst (build_tc h es ts)).
Proof.
  intros W A. unfold build_tc. destruct (copy_ems h es) as [h1|] eqn:Ec; simpl; auto.
  destruct (copy_ems_tables h es h1 Ec) as (T1 & T2 & _ & _ & _ & T6 & T7 & _).
  destruct (Nat.eqb (length ts) (length es)) eqn:B; simpl; auto.
  apply Nat.eqb_eq in B.
  apply (Aligned_push_tc h _ ts (new_cids h (length es)) W A); hs; auto.
  - unfold new_cids. rewrite seq_length. exact B.
  - rewrite T1. reflexivity.
  - rewrite T6. reflexivity.
Qed.

Lemma Aligned_build_tr h vs ts : wf h -> Aligned h -> Aligned (fst (build_tr h vs ts)).
Proof.
  intros W A. unfold build_tr. destruct (same_dims vs); simpl; auto.
  destruct (Nat.eqb (length ts) (length vs)) eqn:B; simpl; auto.
  apply Nat.eqb_eq in B.
  apply (Aligned_push_tr h _ ts (new_locs h (length vs)) W A); hs; auto.
  unfold new_locs. rewrite seq_length. exact B.
Qed.

Ltac same_times := apply Aligned_same; auto; reflexivity.

Theorem aligned_step h o : wf h -> Aligned h -> Aligned (fst (exec h o)).
Proof.
  intros W A. destruct_op o; simpl;
    try (unfold exec_new, exec_view, exec_seth, exec_append,
           exec_get, exec_setm, exec_copy, exec_slice, exec_sel, exec_add, exec_remove_small,
           exec_remove_overlap, exec_link, exec_writea, exec_merge, exec_tcappend_bad,
           exec_trappend_bad, exec_trget, exec_tlnew, exec_tlremove,
           append_loc, em_add, new_em_from, write_loc, write_sloc;
         dm; simpl; auto; apply (Aligned_same h); auto; reflexivity).
  - (* extend *) unfold exec_extend. dm; simpl; auto.
    match goal with |- context [extend_locs ?h ?c ?l ?cp ?f] =>
      destruct (extend_locs_times h c l cp f) as (X1 & X2 & X3 & X4) end.
    apply (Aligned_same h); auto.
  - (* tcnew *) unfold exec_tcnew. dm; simpl; auto; apply Aligned_build_tc; auto.
  - (* tcappend *) unfold exec_tcappend. destruct (nth_error (tcs h) t) as [tc|] eqn:Et; simpl; auto.
    destruct (nth_error (ems h) c) as [e|]; simpl; auto.
    destruct (vals_of h (e_mem e)) as [vs|]; simpl; auto.
    destruct (times_of h (tc_tl tc)) as [ts|] eqn:Hts; simpl; auto.
    eapply (Aligned_tc_append h _ t tc ts); eauto; reflexivity.
  - (* tcslice *) unfold exec_tcslice. dm; simpl; auto; apply Aligned_build_tc; auto.
  - (* tcclear *) unfold exec_tcclear. destruct (nth_error (tcs h) t) as [tc|] eqn:Et; simpl; auto.
    eapply (Aligned_tc_clear h _ t tc); eauto; reflexivity.
  - (* trnew *) unfold exec_trnew. dm; simpl; auto; apply Aligned_build_tr; auto.
  - (* trappend *) unfold exec_trappend. destruct (nth_error (trs h) k) as [tr|] eqn:Et; simpl; auto.
    destruct (nth_error (hnd h) i) as [l|]; simpl; auto.
    destruct (val_of h l) as [v|]; simpl; auto.
    destruct (mapM (val_of h) (tr_drops tr)) as [dvs|]; simpl; auto.
    destruct (times_of h (tr_tl tr)) as [ts|] eqn:Hts; simpl; auto.
    match goal with |- context [if ?b then _ else _] => destruct b end; simpl; auto.
    eapply (Aligned_tr_append h _ k tr ts _ (new_locs h 1)); eauto; reflexivity.
  - (* trslice *) unfold exec_trslice. dm; simpl; auto; apply Aligned_build_tr; auto.
  - (* tccopy *) unfold exec_tccopy. dm; simpl; auto; apply Aligned_build_tc; auto.
  - (* tcnewl *) unfold exec_tcnewl. dm; simpl; auto; apply Aligned_build_tc; auto.
  - (* trcopy *) unfold exec_trcopy. dm; simpl; auto; apply Aligned_build_tr; auto.
  - (* trnewl *) unfold exec_trnewl. dm; simpl; auto; apply Aligned_build_tr; auto.
  - (* tlistnew *) unfold exec_tlistnew. simpl fst. eapply (Aligned_tlist_new h _ ts); eauto; reflexivity.
  - (* tlistappend *) unfold exec_tlistappend. destruct (nth_error (tvars h) j) as [tl|] eqn:Ej; simpl; auto.
    destruct (times_of h tl) as [ts0|]; simpl; auto.
    eapply (Aligned_tlist_write h _ j tl); eauto; reflexivity.
  - (* tlistset *) unfold exec_tlistset. destruct (nth_error (tvars h) j) as [tl|] eqn:Ej; simpl; auto.
    destruct (times_of h tl) as [ts0|]; simpl; auto. destruct (i <? length ts0); simpl; auto.
    eapply (Aligned_tlist_write h _ j tl); eauto; reflexivity.
  - (* emctor *) unfold exec_emctor. dm; simpl; auto;
      match goal with |- context [construct ?h ?d ?l ?cp ?f] =>
        destruct (construct_times h d l cp f) as (X1 & X2 & X3 & X4) end;
      apply (Aligned_same h); auto.
  - (* emclone *) unfold exec_emclone. dm; simpl; auto.
    match goal with |- context [construct ?h ?d ?l ?cp ?f] =>
      destruct (construct_times h d l cp f) as (X1 & X2 & X3 & X4) end.
    apply (Aligned_same h); auto.
  - (* tcsel *) unfold exec_tcsel. dm; simpl; auto; apply Aligned_build_tc; auto.
  - (* trsel *) unfold exec_trsel. dm; simpl; auto; apply Aligned_build_tr; auto.
  - (* tcclone *) unfold exec_tcclone. destruct (nth_error (tcs h) t) as [tc|] eqn:Et; simpl; auto.
    destruct (times_of h (tc_tl tc)) as [ts|] eqn:Hts; simpl; auto.
    destruct (mapM (nth_error (ems h)) (tc_ems tc)) as [es|] eqn:E; simpl; auto.
    destruct (clone_ems_inv h es W (wf_mapM_ems _ _ _ W E)) as (_ & _ & _ & T2 & T3 & _ & _ & T6 & T7 & _).
    destruct (clone_ems h es) as [h1 [|x]]; simpl in *; auto.
    apply (Aligned_push_tc h _ ts (new_cids h (length es)) W A); hs; auto.
    + unfold new_cids. rewrite seq_length, (mapM_length _ _ _ E).
      destruct A as (_ & A1 & _). pose proof (Forall_nth_error _ _ _ _ A1 Et) as X.
      unfold tc_aligned, tc_times in X. rewrite (tl_get_some _ _ _ Hts) in X. exact X.
    + rewrite T2. reflexivity.
    + rewrite T6. reflexivity.
  - (* extend_self *) unfold exec_extend_self. dm; simpl; auto.
    match goal with |- context [extend_locs ?h ?c ?l ?cp ?f] =>
      destruct (extend_locs_times h c l cp f) as (X1 & X2 & X3 & X4) end.
    apply (Aligned_same h); auto.
Qed.

(* times and members stay aligned, and no times list is shared, under EVERY operation sequence *)
Theorem aligned_run os : forall h, wf h -> Aligned h -> Aligned (run h os).
Proof.
  induction os as [|o os IH]; intros h W A; simpl; auto.
  apply IH; [apply wf_step|apply aligned_step]; auto.
Qed.
