(* Spectrum, part 7a: complex numbers as pairs, finite sums, roots of unity (orthogonality). *)
From Coq Require Import Reals Lra List ZArith Lia Bool Permutation Arith.
Import ListNotations.
From PD Require Import Model.Spectrum Proofs.SpectrumLists.
Local Open Scope R_scope.

Lemma pair_eq (a b : R * R) : fst a = fst b -> snd a = snd b -> a = b.
Proof. destruct a, b. simpl. intros -> ->. reflexivity. Qed.

Ltac calg := apply pair_eq; unfold cadd, cmul, cscal; cbn [fst snd]; ring.

Definition czero : R * R := (0, 0).
Definition cconj (a : R * R) : R * R := (fst a, - snd a).
(* real inner product of two complex numbers: Re (a * conj b) *)
Definition cdot (a b : R * R) : R := fst a * fst b + snd a * snd b.
(* Im (conj a * b) *)
Definition ccross (a b : R * R) : R := fst a * snd b - snd a * fst b.

Lemma cabs2_cmul a b : cabs2 (cmul a b) = cabs2 a * cabs2 b.
Proof. unfold cabs2, cmul. cbn [fst snd]. ring. Qed.

Lemma cabs2_cscal c a : cabs2 (cscal c a) = c ^ 2 * cabs2 a.
Proof. unfold cabs2, cscal. cbn [fst snd]. ring. Qed.

Lemma cabs2_cexp t : cabs2 (cexp t) = 1.
Proof. unfold cabs2, cexp. cbn [fst snd]. pose proof (sin2_cos2 t) as H. unfold Rsqr in H. lra. Qed.

Lemma cabs2_dot a : cabs2 a = cdot a a.
Proof. reflexivity. Qed.

Lemma cabs2_zero_inv a : cabs2 a = 0 -> a = czero.
Proof.
  unfold cabs2. intros H. apply pair_eq; unfold czero; cbn [fst snd]; nra.
Qed.

Lemma cexp_plus a b : cexp (a + b) = cmul (cexp a) (cexp b).
Proof. unfold cexp. apply pair_eq; unfold cmul; cbn [fst snd]; [apply cos_plus|rewrite sin_plus; ring]. Qed.

Lemma cexp_0 : cexp 0 = (1, 0).
Proof. unfold cexp. rewrite cos_0, sin_0. reflexivity. Qed.

Lemma cexp_neg t : cexp (- t) = cconj (cexp t).
Proof. unfold cexp, cconj. cbn [fst snd]. rewrite cos_neg, sin_neg. reflexivity. Qed.

Lemma cexp_period_nat t n : cexp (t + 2 * PI * INR n) = cexp t.
Proof.
  unfold cexp. replace (t + 2 * PI * INR n) with (t + 2 * INR n * PI) by ring.
  rewrite cos_period, sin_period. reflexivity.
Qed.

Lemma cexp_period_nat_minus t n : cexp (t - 2 * PI * INR n) = cexp t.
Proof. rewrite <- (cexp_period_nat (t - 2 * PI * INR n) n). f_equal. ring. Qed.

Lemma cmul_1_l a : cmul (1, 0) a = a.
Proof. calg. Qed.

Lemma cmul_comm a b : cmul a b = cmul b a.
Proof. calg. Qed.

Lemma cmul_assoc a b c : cmul a (cmul b c) = cmul (cmul a b) c.
Proof. calg. Qed.

Lemma cmul_cscal_r c a b : cmul a (cscal c b) = cscal c (cmul a b).
Proof. calg. Qed.

Lemma cscal_cscal c d a : cscal c (cscal d a) = cscal (c * d) a.
Proof. calg. Qed.

Lemma cscal_1 a : cscal 1 a = a.
Proof. calg. Qed.

(* ------------------------------------------------------------------ finite sums of complex numbers *)
Lemma csum_cons a l : csum (a :: l) = cadd a (csum l).
Proof. reflexivity. Qed.

Lemma csum_components l : csum l = (rsum (map fst l), rsum (map snd l)).
Proof.
  induction l as [|a l IH]; [reflexivity|]. rewrite csum_cons, IH. cbn [map]. rewrite !rsum_cons. reflexivity.
Qed.

Lemma csum_map_components {A} (f : A -> R * R) l :
  csum (map f l) = (rsum (map (fun a => fst (f a)) l), rsum (map (fun a => snd (f a)) l)).
Proof. rewrite csum_components, !map_map. reflexivity. Qed.

Lemma csum_map_ext_in {A} (f g : A -> R * R) l :
  (forall a, In a l -> f a = g a) -> csum (map f l) = csum (map g l).
Proof. intros H. f_equal. apply map_ext_in. exact H. Qed.

Lemma csum_map_cscal {A} c (f : A -> R * R) l : csum (map (fun a => cscal c (f a)) l) = cscal c (csum (map f l)).
Proof. induction l as [|a l IH]; [unfold csum; simpl; calg|]. cbn [map]. rewrite !csum_cons, IH. calg. Qed.

Lemma csum_map_cmul_l {A} u (f : A -> R * R) l : csum (map (fun a => cmul u (f a)) l) = cmul u (csum (map f l)).
Proof. induction l as [|a l IH]; [unfold csum; simpl; calg|]. cbn [map]. rewrite !csum_cons, IH. calg. Qed.

Lemma csum_perm l l' : Permutation l l' -> csum l = csum l'.
Proof.
  intros HP. rewrite !csum_components.
  rewrite (rsum_perm _ _ (Permutation_map fst HP)), (rsum_perm _ _ (Permutation_map snd HP)). reflexivity.
Qed.

Lemma csum_reindex {A} (l' l : list A) (p : A -> A) (f : A -> R * R) :
  Permutation (map p l') l -> csum (map (fun a => f (p a)) l') = csum (map f l).
Proof.
  intros HP. rewrite <- (csum_perm _ _ (Permutation_map f HP)). rewrite map_map. reflexivity.
Qed.

Lemma rsum_map_plus {A} (f g : A -> R) l : rsum (map (fun a => f a + g a) l) = rsum (map f l) + rsum (map g l).
Proof. induction l as [|a l IH]; cbn [map]; [unfold rsum; simpl; ring|rewrite !rsum_cons, IH; ring]. Qed.

Lemma rsum_map_zero {A} (l : list A) : rsum (map (fun _ => 0) l) = 0.
Proof. induction l as [|a l IH]; cbn [map]; [reflexivity|rewrite rsum_cons, IH; ring]. Qed.

(* exchange of two finite sums *)
Lemma rsum_exchange {A B} (f : A -> B -> R) la lb :
  rsum (map (fun a => rsum (map (fun b => f a b) lb)) la) = rsum (map (fun b => rsum (map (fun a => f a b) la)) lb).
Proof.
  induction la as [|a la IH]; cbn [map].
  - rewrite rsum_map_zero. reflexivity.
  - rewrite rsum_cons, IH, <- rsum_map_plus. reflexivity.
Qed.

Lemma csum_exchange {A B} (f : A -> B -> R * R) la lb :
  csum (map (fun a => csum (map (fun b => f a b) lb)) la) = csum (map (fun b => csum (map (fun a => f a b) la)) lb).
Proof.
  rewrite !csum_map_components. apply pair_eq; cbn [fst snd].
  - rewrite (rsum_map_ext_in _ (fun a => rsum (map (fun b => fst (f a b)) lb)))
      by (intros; rewrite csum_map_components; reflexivity).
    rewrite rsum_exchange. apply rsum_map_ext_in. intros. rewrite csum_map_components. reflexivity.
  - rewrite (rsum_map_ext_in _ (fun a => rsum (map (fun b => snd (f a b)) lb)))
      by (intros; rewrite csum_map_components; reflexivity).
    rewrite rsum_exchange. apply rsum_map_ext_in. intros. rewrite csum_map_components. reflexivity.
Qed.

(* |sum a_i|^2 = sum_i sum_j <a_i, a_j> *)
Lemma cabs2_csum {A} (f : A -> R * R) l :
  cabs2 (csum (map f l)) = rsum (map (fun a => rsum (map (fun b => cdot (f a) (f b)) l)) l).
Proof.
  rewrite csum_map_components. unfold cabs2. cbn [fst snd].
  assert (H : forall (g h : A -> R), rsum (map g l) * rsum (map h l) =
                                     rsum (map (fun a => rsum (map (fun b => g a * h b) l)) l)).
  { intros g h.
    rewrite (rsum_map_ext_in (fun a => rsum (map (fun b => g a * h b) l)) (fun a => rsum (map h l) * g a))
      by (intros a _; rewrite (rsum_map_scale (g a) h l); ring).
    rewrite (rsum_map_scale (rsum (map h l)) g l). ring. }
  rewrite !H, <- rsum_map_plus. apply rsum_map_ext_in. intros a _. rewrite <- rsum_map_plus. reflexivity.
Qed.

Lemma csum_app l1 l2 : csum (l1 ++ l2) = cadd (csum l1) (csum l2).
Proof. induction l1 as [|a l IH]; [unfold csum; simpl; calg|]. simpl app. rewrite !csum_cons, IH. calg. Qed.

(* ------------------------------------------------------------------ geometric sum of a root of unity *)
Lemma geom_sum t n :
  cmul (cadd (cexp t) (-1, 0)) (csum (map (fun k => cexp (t * INR k)) (seq 0 n))) = cadd (cexp (t * INR n)) (-1, 0).
Proof.
  induction n as [|n IH].
  - simpl seq. cbn [map]. rewrite Rmult_0_r, cexp_0. unfold csum. simpl. calg.
  - rewrite seq_S, map_app, csum_app. cbn [map plus]. rewrite csum_cons.
    replace (csum []) with czero by reflexivity.
    rewrite S_INR. replace (t * (INR n + 1)) with (t * INR n + t) by ring. rewrite cexp_plus.
    set (S := csum (map (fun k => cexp (t * INR k)) (seq 0 n))) in *.
    set (w := cexp t) in *. set (wn := cexp (t * INR n)) in *.
    assert (E : cmul (cadd w (-1, 0)) (cadd S (cadd wn czero)) =
                cadd (cmul (cadd w (-1, 0)) S) (cmul (cadd w (-1, 0)) wn)) by (unfold czero; calg).
    rewrite E, IH. unfold czero. calg.
Qed.

Lemma cexp_not_one t : 0 < t < 2 * PI -> cabs2 (cadd (cexp t) (-1, 0)) <> 0.
Proof.
  intros Ht H. apply cabs2_zero_inv in H. unfold cadd, cexp, czero in H. cbn [fst snd] in H.
  injection H as Hc Hs. assert (Hs' : sin t = 0) by lra.
  destruct (sin_eq_O_2PI_0 t ltac:(lra) ltac:(lra) Hs') as [E|[E|E]]; try lra.
  rewrite E, cos_PI in Hc. lra.
Qed.

Lemma angle_as_mult N d k : (0 < N)%nat -> angle N d k = 2 * PI * INR d / INR N * INR k.
Proof. intros HN. unfold angle. assert (INR N <> 0) by (apply not_0_INR; lia). field. assumption. Qed.

(* orthogonality of the characters of Z/N: sum_k exp(2 pi i d k / N) = 0 for 0 < d < N *)
Lemma roots_sum_zero N d : (0 < d < N)%nat -> csum (map (fun k => cexp (angle N d k)) (seq 0 N)) = czero.
Proof.
  intros Hd. assert (HN : (0 < N)%nat) by lia.
  assert (HN' : 0 < INR N) by (apply lt_0_INR; exact HN).
  assert (Hd1 : 0 < INR d) by (apply lt_0_INR; lia). assert (Hd2 : INR d < INR N) by (apply lt_INR; lia).
  set (t := 2 * PI * INR d / INR N).
  rewrite (csum_map_ext_in _ (fun k => cexp (t * INR k))) by (intros; rewrite angle_as_mult by exact HN; reflexivity).
  pose proof (geom_sum t N) as G.
  assert (EN : cexp (t * INR N) = (1, 0)).
  { replace (t * INR N) with (0 + 2 * PI * INR d) by (unfold t; field; lra). rewrite cexp_period_nat. apply cexp_0. }
  rewrite EN in G. replace (cadd (1, 0) (-1, 0)) with czero in G by (unfold czero; calg).
  apply (f_equal cabs2) in G. rewrite cabs2_cmul in G.
  replace (cabs2 czero) with 0 in G by (unfold cabs2, czero; cbn [fst snd]; ring).
  assert (Ht : 0 < t < 2 * PI).
  { pose proof PI_RGT_0. unfold t. split.
    - apply Rdiv_lt_0_compat; [|exact HN']. apply Rmult_lt_0_compat; lra.
    - apply (Rmult_lt_reg_r (INR N)); [exact HN'|]. replace (2 * PI * INR d / INR N * INR N) with (2 * PI * INR d) by (field; lra).
      apply Rmult_lt_compat_l; lra. }
  apply cabs2_zero_inv. pose proof (cexp_not_one t Ht) as Hne.
  destruct (Rmult_integral _ _ G) as [Z|Z]; [contradiction|exact Z].
Qed.

Lemma sum_cos_sin_roots N d : (0 < d < N)%nat ->
  rsum (map (fun k => cos (angle N d k)) (seq 0 N)) = 0 /\ rsum (map (fun k => sin (angle N d k)) (seq 0 N)) = 0.
Proof.
  intros Hd. pose proof (roots_sum_zero N d Hd) as H. rewrite csum_map_components in H.
  unfold cexp, czero in H. cbn [fst snd] in H. injection H as H1 H2. split; assumption.
Qed.

Lemma rsum_const {A} c (l : list A) : rsum (map (fun _ => c) l) = INR (length l) * c.
Proof.
  induction l as [|a l IH]; [unfold rsum; simpl; ring|]. cbn [map]. rewrite rsum_cons, IH.
  change (length (a :: l)) with (S (length l)). rewrite S_INR. ring.
Qed.

(* sum_k cos(2 pi k (n - m) / N) = N [n = m],  sum_k sin(2 pi k (n - m) / N) = 0   for n, m < N *)
Lemma character_orthogonality N n m : (n < N)%nat -> (m < N)%nat ->
  rsum (map (fun k => cos (angle N k n - angle N k m)) (seq 0 N)) = (if Nat.eq_dec n m then INR N else 0) /\
  rsum (map (fun k => sin (angle N k n - angle N k m)) (seq 0 N)) = 0.
Proof.
  intros Hn Hm. assert (HN : INR N <> 0) by (apply not_0_INR; lia).
  destruct (Nat.eq_dec n m) as [->|Hne].
  - split.
    + rewrite (rsum_map_ext_in _ (fun _ => 1)) by (intros; rewrite Rminus_diag_eq by reflexivity; apply cos_0).
      rewrite rsum_const, seq_length. ring.
    + rewrite (rsum_map_ext_in _ (fun _ => 0)) by (intros; rewrite Rminus_diag_eq by reflexivity; apply sin_0).
      apply rsum_map_zero.
  - destruct (lt_dec m n) as [Hlt|Hge].
    + destruct (sum_cos_sin_roots N (n - m) ltac:(lia)) as [Hc Hs].
      assert (E : forall k, angle N k n - angle N k m = angle N (n - m) k).
      { intros k. unfold angle. rewrite minus_INR by lia. field. exact HN. }
      split; [rewrite (rsum_map_ext_in _ (fun k => cos (angle N (n - m) k))) by (intros; rewrite E; reflexivity); exact Hc
             |rewrite (rsum_map_ext_in _ (fun k => sin (angle N (n - m) k))) by (intros; rewrite E; reflexivity); exact Hs].
    + destruct (sum_cos_sin_roots N (m - n) ltac:(lia)) as [Hc Hs].
      assert (E : forall k, angle N k n - angle N k m = - angle N (m - n) k).
      { intros k. unfold angle. rewrite minus_INR by lia. field. exact HN. }
      split.
      * rewrite (rsum_map_ext_in _ (fun k => cos (angle N (m - n) k))) by (intros; rewrite E, cos_neg; reflexivity). exact Hc.
      * rewrite (rsum_map_ext_in _ (fun k => -1 * sin (angle N (m - n) k)))
          by (intros; rewrite E, sin_neg; ring).
        rewrite rsum_map_scale, Hs. ring.
Qed.
