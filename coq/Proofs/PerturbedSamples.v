(* Tactic preparing the translator's sample goals of C13 for `sample_tac` (interval): run the
   generated loops on a literal amplitude list one iteration at a time (deciding the `if a != 0`
   guards on literals as they appear, so that the accumulator stays a plain expression), evaluate
   the degree of mode k and turn `INR <literal>` into a real literal. *)
From Coq Require Import Reals Lra ZArith List.
Import ListNotations.
From PD Require Import Model.Num Model.NumZ Model.Perturbed Gen.Gen_spherical Gen.Gen_spherical_index
  Gen.Gen_perturbed.
Local Open Scope R_scope.

Ltac decide_guards :=
  repeat match goal with
  | |- context [Req_EM_T ?x 0] =>
      let E := fresh "E" in
      destruct (Req_EM_T x 0) as [E|E];
      [try (exfalso; lra) | try (exfalso; apply E; lra)]; clear E;
      cbn beta iota zeta
  end.

Ltac eval_degrees :=
  repeat match goal with
  | |- context [fst (index_lm ?z)] =>
      let v := eval vm_compute in (fst (index_lm z)) in change (fst (index_lm z)) with v
  end.

(* unrolling by rewriting (a `change` would make the conversion checker compare real literals) *)
Lemma fold_modes_cons {X A : Type} (f : nat -> X -> A -> A) n x l acc :
  fold_modes f n (x :: l) acc = fold_modes f (S n) l (f n x acc).
Proof. reflexivity. Qed.

Lemma fold_modes_nil {X A : Type} (f : nat -> X -> A -> A) n acc : fold_modes f n [] acc = acc.
Proof. reflexivity. Qed.

Ltac run_loops :=
  repeat first
  [ rewrite fold_modes_cons;
    unfold dist2d_step, curv2d_step, perim_approx2d_step, line2d_step, dist3d_step, curv3d_step,
      dist3s_step, curv3s_step;
    cbn [fst snd]; decide_guards; cbn [fst snd]
  | rewrite fold_modes_nil ].

Ltac perturbed_prep :=
  unfold Yreal, Ysym, Nreal, Nsym, Pshape, Lshape, H_radial;
  cbn beta iota zeta;
  unfold pos2d_0, pos2d_1, unit2d_0, unit2d_1, pos3d_0, pos3d_1, pos3d_2, unit3d_0, unit3d_1, unit3d_2,
    pos3s_0, pos3s_1, pos3s_2, unit3s_0, unit3s_1, unit3s_2;
  unfold dist2d, curv2d, vol2d, set_vol2d, perim_approx2d, line2d, surface2d,
    dist3d, curv3d, volapprox3d, dist3s, curv3s, volapprox3s, vol3d_integrand, vfr_scalar_3;
  run_loops;
  cbn [fst snd map flat_amps flat_map app sum_list fold_right];
  cbn beta iota zeta;
  cbn [fst snd Z.of_nat Pos.of_succ_nat Pos.succ];
  eval_degrees;
  rewrite ?INR_IZR_INZ;
  cbn [fst snd Z.of_nat Pos.of_succ_nat Pos.succ].
