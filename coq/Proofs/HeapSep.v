(* HeapSep -- the separation invariant [Sep]: no droplet object is referenced twice, no two
   objects share a record, no emulsion belongs to two time-course slots.  It is preserved by
   every default-flag operation ([sep_op]); under it, a mutation through one reference leaves
   everything that is reachable through any other reference unchanged (noninterference). *)
From Coq Require Import List Arith Bool QArith Lia.
Import ListNotations.
From PD Require Import Model.Heap Proofs.Heap Proofs.HeapWf.
Local Open Scope nat_scope.

Definition cnt := count_occ Nat.eq_dec.
Ltac nlia := unfold loc, sloc, cid, tloc in *; lia.

Definition Sep (h : heap) : Prop :=
  NoDup (objs h) /\ NoDup (roots h) /\ NoDup (concat (map tc_ems (tcs h))).

Lemma Sep_emp : Sep emp.
Proof. repeat split; simpl; constructor. Qed.

(* ------------------------------------------------------------------------------------ *)
(* counting                                                                               *)
(* ------------------------------------------------------------------------------------ *)

Lemma NoDup_cnt l : NoDup l <-> forall x, cnt l x <= 1.
Proof. apply NoDup_count_occ. Qed.

Lemma cnt_app l1 l2 a : cnt (l1 ++ l2) a = cnt l1 a + cnt l2 a.
Proof. apply count_occ_app. Qed.

Lemma cnt_concat_upd {A} (f : A -> list nat) L c x y a :
  nth_error L c = Some x ->
  cnt (concat (map f (upd L c y))) a + cnt (f x) a = cnt (concat (map f L)) a + cnt (f y) a.
Proof.
  revert c; induction L as [|z L IH]; intros [|c] H; simpl in *; try discriminate.
  - inversion H; subst. rewrite !cnt_app. lia.
  - rewrite !cnt_app. specialize (IH c H). lia.
Qed.

Lemma cnt_concat_snoc {A} (f : A -> list nat) L y a :
  cnt (concat (map f (L ++ [y]))) a = cnt (concat (map f L)) a + cnt (f y) a.
Proof.
  rewrite map_app, concat_app, cnt_app. simpl. rewrite app_nil_r. reflexivity.
Qed.

Lemma cnt_concat_nth {A} (f : A -> list nat) L c x a :
  nth_error L c = Some x -> cnt (f x) a <= cnt (concat (map f L)) a.
Proof.
  revert c; induction L as [|z L IH]; intros [|c] H; simpl in *; try discriminate.
  - inversion H; subst. rewrite cnt_app. lia.
  - rewrite cnt_app. specialize (IH c H). lia.
Qed.

Lemma cnt_concat_nth2 {A} (f : A -> list nat) L c1 c2 x1 x2 a :
  c1 <> c2 -> nth_error L c1 = Some x1 -> nth_error L c2 = Some x2 ->
  cnt (f x1) a + cnt (f x2) a <= cnt (concat (map f L)) a.
Proof.
  revert c1 c2; induction L as [|z L IH]; intros [|c1] [|c2] Hne H1 H2; simpl in *; try discriminate; try congruence.
  - inversion H1; subst. rewrite cnt_app. pose proof (cnt_concat_nth f L c2 x2 a H2). lia.
  - inversion H2; subst. rewrite cnt_app. pose proof (cnt_concat_nth f L c1 x1 a H1). lia.
  - rewrite cnt_app. assert (c1 <> c2) by congruence. specialize (IH c1 c2 H H1 H2). lia.
Qed.

Lemma cnt_bound N ls a : Forall (fun l => l < N) ls -> N <= a -> cnt ls a = 0.
Proof.
  intros H Ha. apply count_occ_not_In. intros Hin. rewrite Forall_forall in H. apply H in Hin. lia.
Qed.

Lemma cnt_seq_le s n a : cnt (seq s n) a <= 1.
Proof. apply NoDup_cnt. apply seq_NoDup. Qed.

Lemma cnt_seq_below s n a : a < s -> cnt (seq s n) a = 0.
Proof. intros H. apply count_occ_not_In. intros Hin. apply in_seq in Hin. lia. Qed.

Lemma cnt_filter_by bs l a : cnt (filter_by bs l) a <= cnt l a.
Proof.
  revert l; induction bs as [|b bs IH]; intros [|x l]; simpl; try lia.
  specialize (IH l). destruct b; simpl; destruct (Nat.eq_dec x a); lia.
Qed.

Lemma cnt_In l a : In a l -> 1 <= cnt l a.
Proof. intros H. apply (count_occ_In Nat.eq_dec) in H. unfold cnt. lia. Qed.

Lemma cnt_zero_notin l a : cnt l a = 0 -> ~ In a l.
Proof. intros H. apply (count_occ_not_In Nat.eq_dec). exact H. Qed.

(* NoDup is kept when fresh elements (a block of consecutive new identifiers) are added and
   old ones are dropped *)
Lemma sep_grow N R R' n :
  Forall (fun l => l < N) R -> NoDup R ->
  (forall a, cnt R' a <= cnt R a + cnt (seq N n) a) -> NoDup R'.
Proof.
  intros HR HN H. apply NoDup_cnt. intros a. specialize (H a).
  rewrite NoDup_cnt in HN. specialize (HN a).
  destruct (Nat.lt_ge_cases a N) as [Hlt|Hge].
  - rewrite cnt_seq_below in H by exact Hlt. lia.
  - rewrite (cnt_bound N R a HR Hge) in H. pose proof (cnt_seq_le N n a). lia.
Qed.

Lemma roots_lt h : wf h -> Forall (fun l => l < length (objs h)) (roots h).
Proof.
  intros W. unfold roots. apply Forall_app; split; [apply (wf_hnd _ W)|]. apply Forall_app; split.
  - apply Forall_concat. apply Forall_map. apply (wf_ems _ W).
  - apply Forall_concat. apply Forall_map. apply (wf_trs _ W).
Qed.

Lemma tc_cids_lt h : wf h -> Forall (fun c => c < length (ems h)) (concat (map tc_ems (tcs h))).
Proof. intros W. apply Forall_concat. apply Forall_map. apply (wf_tcs _ W). Qed.

Lemma NoDup_app_fresh (l : list nat) N n :
  Forall (fun x => x < N) l -> NoDup l -> NoDup (l ++ seq N n).
Proof.
  intros H HN. eapply (sep_grow N l _ n H HN). intros a. rewrite cnt_app. lia.
Qed.

(* ------------------------------------------------------------------------------------ *)
(* Sep is preserved by the primitive steps                                               *)
(* ------------------------------------------------------------------------------------ *)

Lemma Sep_same h h' :
  objs h' = objs h -> roots h' = roots h -> tcs h' = tcs h -> Sep h -> Sep h'.
Proof. intros E1 E2 E3 (S1 & S2 & S3). unfold Sep. rewrite E1, E2, E3. auto. Qed.

Lemma NoDup_objs_alloc h vs : wf h -> NoDup (objs h) -> NoDup (objs (alloc h vs)).
Proof. intros W H. simpl. apply NoDup_app_fresh; auto. apply (wf_objs _ W). Qed.

Lemma Sep_new_hnd h v : wf h -> Sep h -> Sep (with_hnd (alloc h [v]) (hnd h ++ new_locs h 1)).
Proof.
  intros W (S1 & S2 & S3). split; [|split]; auto.
  - apply NoDup_objs_alloc; auto.
  - eapply (sep_grow (length (objs h)) (roots h) _ 1 (roots_lt h W) S2).
    intros a. unfold roots; hs. unfold new_locs. rewrite !cnt_app. nlia.
Qed.

Lemma Sep_em_append_fresh h c e d v :
  wf h -> Sep h -> nth_error (ems h) c = Some e ->
  Sep (set_em (alloc h [v]) c (mkE d (e_mem e ++ new_locs h 1))).
Proof.
  intros W (S1 & S2 & S3) E. split; [|split]; auto.
  - apply NoDup_objs_alloc; auto.
  - eapply (sep_grow (length (objs h)) (roots h) _ 1 (roots_lt h W) S2).
    intros a. unfold roots; hs. unfold new_locs. rewrite !cnt_app.
    pose proof (cnt_concat_upd e_mem (ems h) c e (mkE d (e_mem e ++ seq (length (objs h)) 1)) a E) as X.
    cbn [e_mem tr_drops tc_ems] in X. rewrite cnt_app in X. nlia.
Qed.

Lemma Sep_em_filter h c e d bs :
  wf h -> Sep h -> nth_error (ems h) c = Some e ->
  Sep (set_em h c (mkE d (filter_by bs (e_mem e)))).
Proof.
  intros W (S1 & S2 & S3) E. split; [|split]; auto.
  eapply (sep_grow (length (objs h)) (roots h) _ 0 (roots_lt h W) S2).
  intros a. unfold roots; hs. rewrite !cnt_app.
  pose proof (cnt_concat_upd e_mem (ems h) c e (mkE d (filter_by bs (e_mem e))) a E) as X.
  cbn [e_mem] in X. pose proof (cnt_filter_by bs (e_mem e) a). nlia.
Qed.

Lemma Sep_push_em_fresh h d vs :
  wf h -> Sep h -> Sep (push_em (alloc h vs) (mkE d (new_locs h (length vs)))).
Proof.
  intros W (S1 & S2 & S3). split; [|split]; auto.
  - apply NoDup_objs_alloc; auto.
  - eapply (sep_grow (length (objs h)) (roots h) _ (length vs) (roots_lt h W) S2).
    intros a. unfold roots; hs. unfold new_locs. rewrite !cnt_app, cnt_concat_snoc. simpl. nlia.
Qed.

Lemma Sep_new_em_vals h vs : wf h -> Sep h -> Sep (new_em_vals h vs).
Proof. intros W S. unfold new_em_vals. apply Sep_push_em_fresh; auto. Qed.

Lemma Sep_alloc_tl h ts : Sep h -> Sep (alloc_tl h ts).
Proof. apply Sep_same; reflexivity. Qed.
Lemma Sep_set_tl h tl ts : Sep h -> Sep (set_tl h tl ts).
Proof. apply Sep_same; reflexivity. Qed.

Lemma Sep_push_tr_fresh h h1 tl vs :
  wf h -> Sep h -> objs h1 = objs (alloc h vs) -> hnd h1 = hnd h -> ems h1 = ems h -> trs h1 = trs h ->
  tcs h1 = tcs h ->
  Sep (push_tr h1 (mkTR tl (new_locs h (length vs)))).
Proof.
  intros W (S1 & S2 & S3) E1 E2 E3 E4 E5. split; [|split].
  - hs. rewrite E1. apply NoDup_objs_alloc; auto.
  - eapply (sep_grow (length (objs h)) (roots h) _ (length vs) (roots_lt h W) S2).
    intros a. unfold roots; hs. rewrite E2, E3, E4. unfold new_locs. rewrite !cnt_app, cnt_concat_snoc. simpl. nlia.
  - hs. rewrite E5. exact S3.
Qed.

Lemma Sep_tr_append_fresh h h1 k tr tl v :
  wf h -> Sep h -> nth_error (trs h) k = Some tr ->
  objs h1 = objs (alloc h [v]) -> hnd h1 = hnd h -> ems h1 = ems h -> trs h1 = trs h -> tcs h1 = tcs h ->
  Sep (set_tr h1 k (mkTR tl (tr_drops tr ++ new_locs h 1))).
Proof.
  intros W (S1 & S2 & S3) E E1 E2 E3 E4 E5. split; [|split].
  - hs. rewrite E1. apply NoDup_objs_alloc; auto.
  - eapply (sep_grow (length (objs h)) (roots h) _ 1 (roots_lt h W) S2).
    intros a. unfold roots; hs. rewrite E2, E3, E4. unfold new_locs. rewrite !cnt_app.
    pose proof (cnt_concat_upd tr_drops (trs h) k tr (mkTR tl (tr_drops tr ++ seq (length (objs h)) 1)) a E) as X.
    cbn [e_mem tr_drops tc_ems] in X. rewrite cnt_app in X. nlia.
  - hs. rewrite E5. exact S3.
Qed.

Lemma Sep_set_store h s v : Sep h -> Sep (set_store h s v).
Proof. apply Sep_same; reflexivity. Qed.

Lemma Sep_append_loc h c l f :
  wf h -> Sep h -> Sep (fst (append_loc h c l true f)).
Proof.
  intros W S. unfold append_loc. destruct (nth_error (ems h) c) as [e|] eqn:E; simpl; auto.
  destruct (val_of h l) as [v|]; simpl; auto. unfold em_add.
  destruct (rejects e v f); simpl; auto. apply Sep_em_append_fresh; auto.
Qed.

Lemma Sep_extend_locs h c ls f :
  wf h -> locs_ok h ls -> Sep h -> Sep (fst (extend_locs h c ls true f)).
Proof.
  revert h; induction ls as [|l ls IH]; intros h W H S; simpl; auto.
  inversion H; subst.
  destruct (wf_append_loc h c l true f W) as (W1 & Hle & _); auto.
  pose proof (Sep_append_loc h c l f W S) as S1.
  destruct (append_loc h c l true f) as [h1 [|e]]; simpl in *; auto.
  apply IH; auto. eapply Forall_lt_mono with (f := fun x => x); [|exact H3]. exact Hle.
Qed.

Lemma Sep_push_em_empty h dt : Sep h -> Sep (push_em h (mkE dt [])).
Proof.
  intros S. eapply Sep_same; [| | |exact S]; try reflexivity.
  unfold roots; hs. rewrite map_app, concat_app. simpl. rewrite app_nil_r. reflexivity.
Qed.

Lemma Sep_construct h dt ls f :
  wf h -> locs_ok h ls -> Sep h -> Sep (fst (construct h dt ls true f)).
Proof.
  intros W H S. destruct (construct h dt ls true f) as [h1 [|x]] eqn:E; simpl.
  - rewrite (construct_ok _ _ _ _ _ _ E).
    apply Sep_extend_locs; [apply wf_push_em_empty; auto|exact H|apply Sep_push_em_empty; auto].
  - rewrite (construct_err _ _ _ _ _ _ _ E). exact S.
Qed.

Lemma Sep_clone_ems h es :
  wf h -> Forall (fun e => locs_ok h (e_mem e)) es -> Sep h -> Sep (fst (clone_ems h es)).
Proof.
  revert h; induction es as [|e es IH]; intros h W H S; simpl; auto.
  inversion H as [|? ? He Hes]; subst.
  pose proof (wf_construct h (e_dtype e) (e_mem e) true false W He) as W1.
  pose proof (Sep_construct h (e_dtype e) (e_mem e) false W He S) as S1.
  destruct (construct h (e_dtype e) (e_mem e) true false) as [h1 [|x]] eqn:E; simpl in *; auto.
  destruct (construct_tables _ _ _ _ _ _ W He E) as (_ & _ & _ & _ & _ & _ & _ & _ & T9).
  apply IH; auto. eapply Forall_impl; [|exact Hes]. intros a Ha.
  eapply Forall_lt_mono with (f := fun x => x); [|exact Ha]. exact T9.
Qed.

Lemma Sep_copy_ems h es h1 :
  wf h -> Forall (fun e => locs_ok h (e_mem e)) es -> Sep h -> copy_ems h es = Some h1 -> Sep h1.
Proof.
  revert h; induction es as [|e es IH]; simpl; intros h W H S E.
  - inversion E; subst; auto.
  - destruct (vals_of h (e_mem e)) as [vs|]; [|discriminate]. inversion H; subst.
    eapply (IH (new_em_vals h vs)); eauto.
    + apply wf_new_em_vals; auto.
    + eapply Forall_impl; [|exact H3]. intros a Ha.
      eapply Forall_lt_mono with (f := fun x => x); [|exact Ha]. apply objs_new_em_vals.
    + apply Sep_new_em_vals; auto.
Qed.

(* time-course tables *)
Lemma Sep_push_tc h h1 tl n :
  wf h -> Sep h1 -> tcs h1 = tcs h -> Sep (push_tc h1 (mkTC tl (new_cids h n))).
Proof.
  intros W (S1 & S2 & S3) E. split; [|split]; auto.
  eapply (sep_grow (length (ems h)) (concat (map tc_ems (tcs h))) _ n (tc_cids_lt h W)).
  - rewrite <- E. exact S3.
  - intros a. hs. rewrite E, cnt_concat_snoc. simpl. unfold new_cids. nlia.
Qed.

Lemma Sep_tc_append h h1 t tc tl :
  wf h -> Sep h1 -> tcs h1 = tcs h -> nth_error (tcs h) t = Some tc ->
  Sep (set_tc h1 t (mkTC tl (tc_ems tc ++ [length (ems h)]))).
Proof.
  intros W (S1 & S2 & S3) E Et. split; [|split]; auto.
  eapply (sep_grow (length (ems h)) (concat (map tc_ems (tcs h))) _ 1 (tc_cids_lt h W)).
  - rewrite <- E. exact S3.
  - intros a. hs. rewrite E.
    pose proof (cnt_concat_upd tc_ems (tcs h) t tc (mkTC tl (tc_ems tc ++ [length (ems h)])) a Et) as X.
    cbn [tc_ems] in X. rewrite cnt_app in X. unfold new_cids. simpl seq. nlia.
Qed.

Lemma Sep_tc_clear h t tc tl ts :
  wf h -> Sep h -> nth_error (tcs h) t = Some tc -> Sep (set_tc (alloc_tl h ts) t (mkTC tl [])).
Proof.
  intros W (S1 & S2 & S3) Et. split; [|split]; auto.
  eapply (sep_grow (length (ems h)) (concat (map tc_ems (tcs h))) _ 0 (tc_cids_lt h W) S3).
  intros a. hs.
  pose proof (cnt_concat_upd tc_ems (tcs h) t tc (mkTC tl []) a Et) as X. cbn [tc_ems] in X.
  change (cnt [] a) with 0 in X. simpl seq. change (cnt [] a) with 0. nlia.
Qed.

(* get_linked_data: members are re-pointed to fresh rows *)
Lemma NoDup_upd_fresh (os : list nat) l s : NoDup os -> ~ In s os -> NoDup (upd os l s).
Proof.
  revert l; induction os as [|o os IH]; intros [|l] H Hs; simpl; auto.
  - inversion H; subst. constructor; auto. simpl in Hs. tauto.
  - inversion H; subst. simpl in Hs. constructor.
    + intros Hin. apply In_upd in Hin. destruct Hin as [->|Hin]; tauto.
    + apply IH; auto.
Qed.

Lemma NoDup_repoint os ls rows :
  NoDup os -> NoDup rows -> (forall s, In s rows -> ~ In s os) -> NoDup (repoint os ls rows).
Proof.
  revert os rows; induction ls as [|l ls IH]; intros os [|s rows] H1 H2 H3; simpl; auto.
  inversion H2; subst. apply IH; auto.
  - apply NoDup_upd_fresh; auto. apply H3; simpl; auto.
  - intros s' Hs' Hin. apply In_upd in Hin. destruct Hin as [->|Hin]; [tauto|].
    apply (H3 s'); simpl; auto.
Qed.

Lemma Sep_link h ls vs :
  wf h -> Sep h ->
  Sep (push_arr (with_objs (with_store h (store h ++ vs))
                           (repoint (objs h) ls (seq (length (store h)) (length vs))))
                (seq (length (store h)) (length vs))).
Proof.
  intros W (S1 & S2 & S3). split; [|split]; auto. hs.
  apply NoDup_repoint; auto.
  - apply seq_NoDup.
  - intros s Hs Hin. apply in_seq in Hs.
    pose proof (wf_objs _ W) as X. rewrite Forall_forall in X. apply X in Hin. lia.
Qed.

Lemma Sep_build_tc h es ts :
  wf h -> Forall (fun e => locs_ok h (e_mem e)) es -> Sep h -> Sep (fst (build_tc h es ts)).
Proof.
  intros W H S. unfold build_tc. destruct (copy_ems h es) as [h1|] eqn:Ec; simpl; auto.
  match goal with |- context [if ?b then _ else _] => destruct b end; simpl; auto.
  apply Sep_push_tc; auto.
  - apply Sep_alloc_tl. apply (Sep_copy_ems h es h1 W H S Ec).
  - apply copy_ems_tables in Ec. simpl. tauto.
Qed.

Lemma Sep_build_tr h vs ts : wf h -> Sep h -> Sep (fst (build_tr h vs ts)).
Proof.
  intros W S. unfold build_tr. destruct (same_dims vs); simpl; auto.
  match goal with |- context [if ?b then _ else _] => destruct b end; simpl; auto.
  apply Sep_push_tr_fresh; auto.
Qed.

(* ------------------------------------------------------------------------------------ *)
(* every default-flag operation preserves Sep                                            *)
(* ------------------------------------------------------------------------------------ *)

Theorem Sep_step h o : wf h -> Sep h -> sep_op o = true -> Sep (fst (exec h o)).
Proof.
  intros W S Ho. destruct_op o; simpl in Ho; try discriminate; simpl.
  - (* new *) unfold exec_new. hs. apply Sep_new_hnd; auto.
  - (* seth *) unfold exec_seth, write_loc, write_sloc. dm; simpl; auto; try (apply Sep_set_store; auto).
  - (* emnew *) eapply Sep_same; [| | |exact S]; try reflexivity.
    unfold roots; hs. rewrite map_app, concat_app. simpl. rewrite app_nil_r. reflexivity.
  - (* append *) subst cp. unfold exec_append. destruct (nth_error (hnd h) i); simpl; auto.
    apply Sep_append_loc; auto.
  - (* extend *) subst cp. unfold exec_extend.
    destruct (mapM (nth_error (hnd h)) is) as [ls|] eqn:E; simpl; auto.
    destruct (nth_error (ems h) c); simpl; auto.
    apply Sep_extend_locs; auto. eapply locs_ok_mapM_hnd; eauto.
  - (* setm *) unfold exec_setm, write_loc, write_sloc. dm; simpl; auto; try (apply Sep_set_store; auto).
  - (* copy *) unfold exec_copy. dm; simpl; auto; apply Sep_new_em_vals; auto.
  - (* slice *) unfold exec_slice, new_em_from. dm; simpl; auto; apply Sep_new_em_vals; auto.
  - (* add *) unfold exec_add, new_em_from. dm; simpl; auto; apply Sep_new_em_vals; auto.
  - (* remove_small *) unfold exec_remove_small. destruct (nth_error (ems h) c) as [e|] eqn:E; simpl; auto.
    destruct (vals_of h (e_mem e)); simpl; auto. apply Sep_em_filter; auto.
  - (* remove_overlap *) unfold exec_remove_overlap. destruct (nth_error (ems h) c) as [e|] eqn:E; simpl; auto.
    destruct (vals_of h (e_mem e)); simpl; auto. destruct (pairwise_ok l); simpl; auto.
    apply Sep_em_filter; auto.
  - (* link *) unfold exec_link. destruct (nth_error (ems h) c) as [e|] eqn:E; simpl; auto.
    destruct (vals_of h (e_mem e)) as [vs|]; simpl; auto.
    destruct (mapM (obj_of h) (e_mem e)) as [ss|]; simpl; auto.
    destruct vs as [|v0 vs]; [destruct (e_dtype e); simpl; auto; try (eapply Sep_same; [| | |exact S]; reflexivity)|].
    destruct (negb (all_eqb Nat.eqb (map cls (v0 :: vs)))); [simpl; auto|].
    destruct (all_eqb dtype_eqb (map dtype_of (v0 :: vs))); hs.
    + apply Sep_link; auto.
    + try (eapply Sep_same; [| | |exact S]; reflexivity); auto.
  - (* writea *) unfold exec_writea, write_sloc. dm; simpl; auto; try (apply Sep_set_store; auto).
  - (* merge *) unfold exec_merge. dm; simpl; auto; try (apply Sep_set_store; auto);
      try (apply Sep_new_hnd; auto).
  - (* tcnew *) unfold exec_tcnew. destruct (mapM (nth_error (ems h)) cs) as [es|] eqn:E; simpl; auto.
    apply Sep_build_tc; auto. eapply wf_mapM_ems; eauto.
  - (* tcappend *) unfold exec_tcappend. destruct (nth_error (tcs h) t) as [tc|] eqn:Et; simpl; auto.
    destruct (nth_error (ems h) c) as [e|]; simpl; auto.
    destruct (vals_of h (e_mem e)) as [vs|]; simpl; auto.
    destruct (times_of h (tc_tl tc)) as [ts|]; simpl; auto.
    apply Sep_tc_append; auto. apply Sep_set_tl, Sep_new_em_vals; auto.
  - (* tcappend_bad *) unfold exec_tcappend_bad. dm; simpl; auto.
  - (* tcslice *) unfold exec_tcslice. destruct (nth_error (tcs h) t) as [tc|] eqn:Et; simpl; auto.
    destruct (times_of h (tc_tl tc)); simpl; auto.
    destruct (mapM (nth_error (ems h)) (slice lo hi (tc_ems tc))) as [es|] eqn:E; simpl; auto.
    apply Sep_build_tc; auto. eapply wf_mapM_ems; eauto.
  - (* tcclear *) unfold exec_tcclear. destruct (nth_error (tcs h) t) as [tc|] eqn:Et; simpl; auto.
    eapply Sep_tc_clear; eauto.
  - (* trnew *) unfold exec_trnew. dm; simpl; auto; apply Sep_build_tr; auto.
  - (* trappend *) unfold exec_trappend. destruct (nth_error (trs h) k) as [tr|] eqn:Et; simpl; auto.
    destruct (nth_error (hnd h) i) as [l|]; simpl; auto.
    destruct (val_of h l) as [v|]; simpl; auto.
    destruct (mapM (val_of h) (tr_drops tr)) as [dvs|]; simpl; auto.
    destruct (times_of h (tr_tl tr)) as [ts0|]; simpl; auto.
    match goal with |- context [if ?b then _ else _] => destruct b end; simpl; auto.
    apply (Sep_tr_append_fresh h _ k tr (tr_tl tr) v); auto.
  - (* trappend_bad *) unfold exec_trappend_bad. dm; simpl; auto.
  - (* trslice *) unfold exec_trslice. dm; simpl; auto; apply Sep_build_tr; auto.
  - (* tlnew *) unfold exec_tlnew. dm; simpl; auto; try (eapply Sep_same; [| | |exact S]; reflexivity).
  - (* tlremove *) unfold exec_tlremove. dm; simpl; auto; try (eapply Sep_same; [| | |exact S]; reflexivity).
  - (* tccopy *) unfold exec_tccopy. destruct (nth_error (tcs h) t) as [tc|] eqn:Et; simpl; auto.
    destruct (times_of h (tc_tl tc)); simpl; auto.
    destruct (mapM (nth_error (ems h)) (tc_ems tc)) as [es|] eqn:E; simpl; auto.
    apply Sep_build_tc; auto. eapply wf_mapM_ems; eauto.
  - (* tcnewl *) unfold exec_tcnewl. destruct (mapM (nth_error (ems h)) cs) as [es|] eqn:E; simpl; auto.
    destruct (nth_error (tvars h) j); simpl; auto. destruct (times_of h t); simpl; auto.
    apply Sep_build_tc; auto. eapply wf_mapM_ems; eauto.
  - (* trcopy *) unfold exec_trcopy. dm; simpl; auto; apply Sep_build_tr; auto.
  - (* trnewl *) unfold exec_trnewl. dm; simpl; auto; apply Sep_build_tr; auto.
  - (* tlistnew *) unfold exec_tlistnew. apply (Sep_same h); try reflexivity. exact S.
  - (* tlistappend *) unfold exec_tlistappend. dm; simpl; auto; apply (Sep_same h); try reflexivity; exact S.
  - (* tlistset *) unfold exec_tlistset. destruct (nth_error (tvars h) j) as [tl|]; simpl; auto.
    destruct (times_of h tl) as [ts0|]; simpl; auto. destruct (i <? length ts0); simpl; auto.
  - (* emctor *) subst cp. unfold exec_emctor.
    destruct (mapM (nth_error (hnd h)) is) as [ls|] eqn:E; simpl; auto.
    pose proof (locs_ok_mapM_hnd _ _ _ W E) as Hls.
    destruct dt as [i|]; [|apply Sep_construct; auto].
    destruct (nth_error (hnd h) i) as [l|]; simpl; auto.
    destruct (val_of h l) as [v|]; simpl; auto. apply Sep_construct; auto.
  - (* emclone *) unfold exec_emclone. destruct (nth_error (ems h) c) as [e|] eqn:Ee; simpl; auto.
    apply Sep_construct; auto. eapply wf_em; eauto.
  - (* sel *) unfold exec_sel, new_em_from. dm; simpl; auto; apply Sep_new_em_vals; auto.
  - (* tcsel *) unfold exec_tcsel. destruct (nth_error (tcs h) t) as [tc|] eqn:Et; simpl; auto.
    destruct (times_of h (tc_tl tc)); simpl; auto.
    destruct (mapM (nth_error (ems h)) (sel idxs (tc_ems tc))) as [es|] eqn:E; simpl; auto.
    apply Sep_build_tc; auto. eapply wf_mapM_ems; eauto.
  - (* trsel *) unfold exec_trsel. dm; simpl; auto; apply Sep_build_tr; auto.
  - (* tcclone *) unfold exec_tcclone. destruct (nth_error (tcs h) t) as [tc|] eqn:Et; simpl; auto.
    destruct (times_of h (tc_tl tc)) as [ts|]; simpl; auto.
    destruct (mapM (nth_error (ems h)) (tc_ems tc)) as [es|] eqn:E; simpl; auto.
    pose proof (Sep_clone_ems h es W (wf_mapM_ems _ _ _ W E) S) as S1.
    destruct (clone_ems_inv h es W (wf_mapM_ems _ _ _ W E)) as (_ & _ & _ & T2 & _).
    destruct (clone_ems h es) as [h1 [|x]]; simpl in *; auto.
    apply Sep_push_tc; auto.
  - (* extend_self *) subst cp. unfold exec_extend_self.
    destruct (nth_error (ems h) c) as [e|] eqn:Ee; simpl; auto.
    apply Sep_extend_locs; auto. eapply wf_em; eauto.
Qed.

Theorem Sep_run os : forall h, wf h -> Sep h -> Forall (fun o => sep_op o = true) os -> Sep (run h os).
Proof.
  induction os as [|o os IH]; intros h W S H; simpl; auto.
  inversion H; subst. apply IH; auto; [apply wf_step|apply Sep_step]; auto.
Qed.
