(* C01 geometry, part 4: separated balls neither share a cell nor touch through a face.
   Separation condition of the simple version (no square roots): there is ONE non-periodic axis a
   (number k) along which the centres are at least  r1 + r2 + h_a  apart:
        r1 + r2 + adisc a <= | c1_k - c2_k |.
   (The other axes may be periodic or not; only the k-th term of the squared distance is used.)
     balls_cells_apart   : cells p in ball 1 and q in ball 2 are neither equal nor face-adjacent
                           (any index vectors of the grid's dimension, in the box or not);
     balls_disjoint      : ball_cells 1 and ball_cells 2 have no common cell;
     balls_not_adjacent  : no cell of ball_cells 1 is face-adjacent to a cell of ball_cells 2. *)
From Coq Require Import QArith Qabs ZArith List Arith Bool Lia Lqa Setoid Morphisms.
Import ListNotations.
From PD Require Import Model.Grid Model.Render Model.MergeLoop Model.Locate Model.Ball
  Proofs.Render Proofs.MergeLoop Proofs.Components Proofs.LocateCart Proofs.BallRow Proofs.BallCentroid.
Local Open Scope Q_scope.

(* ---- one coordinate of the squared distance ---- *)
Lemma sumsq_nth : forall v k d, nth_error v k = Some d -> d * d <= sumsq v.
Proof.
  induction v as [|y v IH]; intros [|k] d H; cbn [nth_error] in H; try discriminate H;
    cbn [sumsq fold_right]; fold (sumsq v).
  - injection H as ->. pose proof (sumsq_nonneg v). lra.
  - pose proof (IH k d H). nra.
Qed.

Lemma diff_vec_nth : forall g k a p q pk qk,
  nth_error g k = Some a -> nth_error p k = Some pk -> nth_error q k = Some qk ->
  nth_error (diff_vec g p q) k = Some (diff1 a pk qk).
Proof.
  induction g as [|b g IH]; intros [|k] a [|x p] [|y q] pk qk Hg Hp Hq; cbn [nth_error] in *;
    try discriminate; cbn [diff_vec nth_error].
  - congruence.
  - apply IH; assumption.
Qed.

Lemma cell_centre_nth : forall g k a idx i,
  nth_error g k = Some a -> nth_error idx k = Some i ->
  nth_error (cell_centre g idx) k = Some (centre1 a i).
Proof.
  induction g as [|b g IH]; intros [|k] a [|j idx] i Hg Hi; cbn [nth_error] in *;
    try discriminate; cbn [cell_centre nth_error].
  - congruence.
  - apply IH; assumption.
Qed.

Lemma nth_error_nth_Z : forall (l : list Z) k, (k < length l)%nat -> nth_error l k = Some (nth k l 0%Z).
Proof.
  induction l as [|x l IH]; intros [|k] H; cbn [length] in H; try lia; cbn [nth_error nth]; [reflexivity|].
  apply IH. lia.
Qed.

(* a covered cell is closer than r to the centre along every non-periodic axis *)
Lemma inside_axis g c r idx k a x : nth_error g k = Some a -> aper a = false ->
  nth_error c k = Some x -> length idx = length g -> inside g c r idx = true ->
  0 <= r /\ - r < centre1 a (nth k idx 0%Z) - x /\ centre1 a (nth k idx 0%Z) - x < r.
Proof.
  intros Hg Hper Hc Hlen Hin. apply inside_iff in Hin. destruct Hin as [Hr Hd].
  assert (Hk : (k < length idx)%nat) by (rewrite Hlen; apply nth_error_Some; congruence).
  pose proof (cell_centre_nth g k a idx _ Hg (nth_error_nth_Z idx k Hk)) as Hcc.
  pose proof (diff_vec_nth g k a c _ x _ Hg Hc Hcc) as Hdv.
  apply sumsq_nth in Hdv. unfold diff1 in Hdv. rewrite Hper in Hdv. unfold dist2 in Hd.
  set (u := centre1 a (nth k idx 0%Z) - x) in *. split; [exact Hr|]. split; nra.
Qed.

Lemma face_adj_coord p q k : face_adj p q -> (Z.abs (nth k p 0 - nth k q 0) <= 1)%Z.
Proof.
  intros H. apply face_adj_nth in H. destruct H as (_ & ax & _ & Hd & Ho).
  destruct (Nat.eq_dec k ax) as [->|Hne]; [lia|]. rewrite (Ho k Hne). lia.
Qed.

Lemma face_adj_length p q : face_adj p q -> length p = length q.
Proof. intros H. apply face_adj_nth in H. tauto. Qed.

(* ---- (5) simple version ---- *)
Theorem balls_cells_apart g c1 r1 c2 r2 k a x1 x2 :
  nth_error g k = Some a -> aper a = false -> axis_ok a ->
  nth_error c1 k = Some x1 -> nth_error c2 k = Some x2 ->
  r1 + r2 + adisc a <= Qabs (x1 - x2) ->
  forall p q, length p = length g -> length q = length g ->
    inside g c1 r1 p = true -> inside g c2 r2 q = true -> p <> q /\ ~ face_adj p q.
Proof.
  intros Hg Hper Hok Hc1 Hc2 Hsep p q Hlp Hlq Hp Hq.
  destruct (inside_axis g c1 r1 p k a x1 Hg Hper Hc1 Hlp Hp) as (Hr1 & Hp1 & Hp2).
  destruct (inside_axis g c2 r2 q k a x2 Hg Hper Hc2 Hlq Hq) as (Hr2 & Hq1 & Hq2).
  pose proof (adisc_pos a Hok) as Hh.
  assert (Hkey : (Z.abs (nth k p 0 - nth k q 0) <= 1)%Z -> False).
  { intros Hd. unfold centre1 in *. set (h := adisc a) in *.
    set (i := nth k p 0%Z) in *. set (j := nth k q 0%Z) in *.
    assert (Hd1 : (i - j <= 1)%Z) by lia. assert (Hd2 : (-1 <= i - j)%Z) by lia.
    rewrite Zle_Qle in Hd1, Hd2. unfold Z.sub in Hd1, Hd2. rewrite inject_Z_plus, inject_Z_opp in Hd1, Hd2.
    change (inject_Z 1) with 1 in Hd1. change (inject_Z (-1)) with (- (1)) in Hd2.
    set (I := inject_Z i) in *. set (J := inject_Z j) in *.
    assert (Hlt : Qabs (x1 - x2) < r1 + r2 + h).
    { apply Qabs_Qlt_condition. split; nra. }
    lra. }
  split.
  - intros ->. apply Hkey. lia.
  - intros Hf. apply Hkey. apply face_adj_coord. exact Hf.
Qed.

Lemma ball_cells_spec g c r idx :
  In idx (ball_cells g c r) <-> LocateCart.in_range (gshape g) idx /\ inside g c r idx = true.
Proof. unfold ball_cells. rewrite filter_In, all_cells_spec. reflexivity. Qed.

Lemma ball_cells_length g c r idx : In idx (ball_cells g c r) -> length idx = length g.
Proof.
  intros H. apply ball_cells_spec in H. destruct H as [H _]. apply in_range_length in H.
  rewrite H. unfold gshape. apply map_length.
Qed.

(* the covered cells are listed once each, and there are as many as `true` entries of the rendered mask *)
Lemma ball_cells_nodup g c r : NoDup (ball_cells g c r).
Proof. unfold ball_cells. apply NoDup_filter. apply nodup_all_cells. Qed.

Lemma ball_cells_count g c r :
  length (ball_cells g c r) = length (filter (fun b : bool => b) (mask_sphere g c r)).
Proof.
  unfold ball_cells, mask_sphere. induction (all_cells (gshape g)) as [|idx l IH]; cbn [filter map]; [reflexivity|].
  destruct (inside g c r idx); cbn [length]; congruence.
Qed.

Theorem balls_disjoint g c1 r1 c2 r2 k a x1 x2 :
  nth_error g k = Some a -> aper a = false -> axis_ok a ->
  nth_error c1 k = Some x1 -> nth_error c2 k = Some x2 ->
  r1 + r2 + adisc a <= Qabs (x1 - x2) ->
  forall p, In p (ball_cells g c1 r1) -> ~ In p (ball_cells g c2 r2).
Proof.
  intros Hg Hper Hok Hc1 Hc2 Hsep p Hp Hq.
  pose proof (ball_cells_length _ _ _ _ Hp) as Hl.
  apply ball_cells_spec in Hp. apply ball_cells_spec in Hq.
  destruct (balls_cells_apart g c1 r1 c2 r2 k a x1 x2 Hg Hper Hok Hc1 Hc2 Hsep p p Hl Hl (proj2 Hp) (proj2 Hq))
    as [Hne _].
  apply Hne. reflexivity.
Qed.

Theorem balls_not_adjacent g c1 r1 c2 r2 k a x1 x2 :
  nth_error g k = Some a -> aper a = false -> axis_ok a ->
  nth_error c1 k = Some x1 -> nth_error c2 k = Some x2 ->
  r1 + r2 + adisc a <= Qabs (x1 - x2) ->
  forall p q, In p (ball_cells g c1 r1) -> In q (ball_cells g c2 r2) -> ~ face_adj p q.
Proof.
  intros Hg Hper Hok Hc1 Hc2 Hsep p q Hp Hq.
  pose proof (ball_cells_length _ _ _ _ Hp) as Hlp. pose proof (ball_cells_length _ _ _ _ Hq) as Hlq.
  apply ball_cells_spec in Hp. apply ball_cells_spec in Hq.
  exact (proj2 (balls_cells_apart g c1 r1 c2 r2 k a x1 x2 Hg Hper Hok Hc1 Hc2 Hsep p q Hlp Hlq
                  (proj2 Hp) (proj2 Hq))).
Qed.

Print Assumptions balls_cells_apart.
Print Assumptions balls_disjoint.
Print Assumptions balls_not_adjacent.
