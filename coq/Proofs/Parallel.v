(* Proofs/Parallel.v -- C15: the result of a pool map does not depend on the schedule. *)
From Coq Require Import List Bool Arith Lia Permutation.
From PD Require Import Model.Parallel.
Import ListNotations.

(* ------------------------------------------------------------------------------------------ *)
(* the schedule completes every task exactly once                                               *)
(* ------------------------------------------------------------------------------------------ *)
Lemma pick_none sigma r : pick sigma r = None -> r = [].
Proof.
  destruct r as [|i r]; [reflexivity|]. simpl.
  destruct (pick sigma r) as [[j r']|]; [destruct (Nat.leb _ _)|]; discriminate.
Qed.

Lemma pick_perm sigma r : forall i r', pick sigma r = Some (i, r') -> Permutation r (i :: r').
Proof.
  induction r as [|a r IH]; intros i r' H; [discriminate|]. simpl in H.
  destruct (pick sigma r) as [[j r'']|] eqn:Hp.
  - destruct (Nat.leb (rank sigma a) (rank sigma j)) eqn:Hle; inversion H; subst.
    + apply Permutation_refl.
    + specialize (IH _ _ eq_refl).
      eapply Permutation_trans; [apply perm_skip; exact IH|]. apply perm_swap.
  - apply pick_none in Hp. subst. inversion H; subst. apply Permutation_refl.
Qed.

Lemma fill_app w : forall queue running r q, fill w running queue = (r, q) -> r ++ q = running ++ queue.
Proof.
  induction queue as [|i queue IH]; intros running r q H; simpl in H.
  - inversion H; reflexivity.
  - destruct (Nat.ltb (length running) w) eqn:Hlt.
    + apply IH in H. rewrite H, <- app_assoc. reflexivity.
    + inversion H; reflexivity.
Qed.

Lemma fill_running_nonempty w : forall queue running r q,
  1 <= w -> fill w running queue = (r, q) -> running ++ queue <> [] -> r <> [].
Proof.
  induction queue as [|i queue IH]; intros running r q Hw H Hne; simpl in H.
  - inversion H; subst. rewrite app_nil_r in Hne. exact Hne.
  - destruct (Nat.ltb (length running) w) eqn:Hlt.
    + eapply IH; [exact Hw | exact H |]. destruct running; discriminate.
    + inversion H; subst. apply Nat.ltb_ge in Hlt. destruct r; [simpl in Hlt; lia | discriminate].
Qed.

Lemma run_perm w sigma : 1 <= w -> forall fuel running queue,
  length running + length queue = fuel -> Permutation (run fuel w sigma running queue) (running ++ queue).
Proof.
  intros Hw. induction fuel as [|k IH]; intros running queue Hlen.
  - destruct running; [|simpl in Hlen; lia]. destruct queue; [|simpl in Hlen; lia]. apply Permutation_refl.
  - simpl. destruct (fill w running queue) as [r q] eqn:Hf.
    pose proof (fill_app _ _ _ _ _ Hf) as Happ.
    assert (Hne : running ++ queue <> []).
    { intros E. apply (f_equal (@length nat)) in E. rewrite app_length in E. simpl in E. lia. }
    pose proof (fill_running_nonempty _ _ _ _ _ Hw Hf Hne) as Hr.
    destruct (pick sigma r) as [[i r']|] eqn:Hp.
    + pose proof (pick_perm _ _ _ _ Hp) as Hperm.
      rewrite <- Happ.
      assert (Hlen' : length r' + length q = k).
      { apply Permutation_length in Hperm. simpl in Hperm.
        apply (f_equal (@length nat)) in Happ. rewrite !app_length in Happ. lia. }
      specialize (IH r' q Hlen').
      eapply Permutation_trans; [apply perm_skip; exact IH|].
      change (i :: r' ++ q) with ((i :: r') ++ q). apply Permutation_app_tail. apply Permutation_sym. exact Hperm.
    + apply pick_none in Hp. contradiction.
Qed.

(* every task finishes exactly once, whatever the speed ranking and the (positive) number of workers *)
Lemma completion_order_perm n w sigma : 1 <= w -> Permutation (completion_order n w sigma) (seq 0 n).
Proof.
  intros Hw. unfold completion_order.
  apply (run_perm w sigma Hw n [] (seq 0 n)). simpl. apply seq_length.
Qed.

(* with a single worker the tasks finish in submission order *)
Lemma fill_one : forall queue i, fill 1 [i] queue = ([i], queue).
Proof. destruct queue; reflexivity. Qed.

Lemma run_one_worker sigma : forall fuel queue, length queue = fuel -> run fuel 1 sigma [] queue = queue.
Proof.
  induction fuel as [|k IH]; intros queue Hlen.
  - destruct queue; [reflexivity | discriminate].
  - destruct queue as [|i queue]; [discriminate|]. simpl. rewrite fill_one. simpl.
    f_equal. apply IH. simpl in Hlen. lia.
Qed.

Lemma completion_order_one_worker n sigma : completion_order n 1 sigma = seq 0 n.
Proof. unfold completion_order. apply run_one_worker, seq_length. Qed.

(* with at least as many workers as tasks every permutation IS the completion order: the
   quantification over sigma ranges over all n! orders in which the tasks can finish *)
Lemma fill_all w : forall queue running,
  length running + length queue <= w -> fill w running queue = (running ++ queue, []).
Proof.
  induction queue as [|i queue IH]; intros running Hlen; simpl.
  - rewrite app_nil_r. reflexivity.
  - simpl in Hlen. assert (Hlt : Nat.ltb (length running) w = true) by (apply Nat.ltb_lt; lia).
    rewrite Hlt. rewrite IH by (rewrite app_length; simpl; lia). rewrite <- app_assoc. reflexivity.
Qed.

Lemma rank_app_notin i : forall pre s, ~ In i pre -> rank (pre ++ s) i = length pre + rank s i.
Proof.
  induction pre as [|a pre IH]; intros s Hn; [reflexivity|]. simpl.
  destruct (Nat.eqb i a) eqn:E.
  - apply Nat.eqb_eq in E. subst. exfalso. apply Hn. left. reflexivity.
  - rewrite IH; [reflexivity|]. intros Hin. apply Hn. right. exact Hin.
Qed.

Lemma nodup_app_disjoint (j : nat) : forall pre s, NoDup (pre ++ s) -> In j pre -> In j s -> False.
Proof.
  induction pre as [|a pre IH]; intros s Hnd Hp Hs; [contradiction|].
  simpl in Hnd. inversion Hnd as [|x l Hnotin Hnd']; subst.
  destruct Hp as [->|Hp].
  - apply Hnotin. apply in_or_app. right. exact Hs.
  - exact (IH s Hnd' Hp Hs).
Qed.

Lemma pick_min sigma i : forall r,
  In i r -> (forall j, In j r -> j <> i -> rank sigma i < rank sigma j) ->
  exists r', pick sigma r = Some (i, r').
Proof.
  induction r as [|a r IH]; intros Hin Hmin; [contradiction|]. simpl.
  destruct (pick sigma r) as [[j r'']|] eqn:Hp.
  - pose proof (pick_perm _ _ _ _ Hp) as Hperm.
    assert (Hj : In j r) by (apply (Permutation_in j (Permutation_sym Hperm)); left; reflexivity).
    destruct (Nat.eq_dec a i) as [->|Hai].
    + assert (Hle : Nat.leb (rank sigma i) (rank sigma j) = true).
      { apply Nat.leb_le. destruct (Nat.eq_dec j i) as [->|Hji]; [lia|].
        specialize (Hmin j (or_intror Hj) Hji). lia. }
      rewrite Hle. eexists; reflexivity.
    + destruct Hin as [Hin|Hin]; [congruence|].
      destruct (IH Hin) as [r' Hr'].
      { intros k Hk Hki. apply Hmin; [right; exact Hk | exact Hki]. }
      assert (Hji : j = i) by congruence. rewrite Hji.
      assert (Hgt : Nat.leb (rank sigma a) (rank sigma i) = false).
      { apply Nat.leb_gt. apply Hmin; [left; reflexivity | exact Hai]. }
      rewrite Hgt. eexists; reflexivity.
  - apply pick_none in Hp. subst. destruct Hin as [->|[]]. eexists; reflexivity.
Qed.

Lemma run_all_workers w : forall suf pre r,
  NoDup (pre ++ suf) -> Permutation r suf -> run (length suf) w (pre ++ suf) r [] = suf.
Proof.
  induction suf as [|i suf IH]; intros pre r Hnd Hperm; [reflexivity|]. simpl.
  assert (Hnotin : ~ In i pre).
  { intros Hin. apply (nodup_app_disjoint i pre (i :: suf) Hnd Hin). left. reflexivity. }
  assert (Hri : rank (pre ++ i :: suf) i = length pre).
  { rewrite rank_app_notin by exact Hnotin. simpl. rewrite Nat.eqb_refl. lia. }
  assert (Hnd_suf : NoDup (i :: suf)).
  { clear -Hnd. induction pre as [|a pre IHp]; [exact Hnd|]. simpl in Hnd. inversion Hnd; subst. auto. }
  destruct (pick_min (pre ++ i :: suf) i r) as [r' Hr'].
  - apply (Permutation_in i (Permutation_sym Hperm)). left. reflexivity.
  - intros j Hj Hji. rewrite Hri.
    assert (Hjs : In j suf).
    { apply (Permutation_in j Hperm) in Hj. destruct Hj as [Hj|Hj]; [congruence | exact Hj]. }
    assert (Hjpre : ~ In j pre).
    { intros Hin. apply (nodup_app_disjoint j pre (i :: suf) Hnd Hin). right. exact Hjs. }
    rewrite rank_app_notin by exact Hjpre. simpl.
    assert (E : Nat.eqb j i = false) by (apply Nat.eqb_neq; exact Hji). rewrite E. lia.
  - replace (fill w r []) with (r, @nil nat) by (destruct r; reflexivity).
    rewrite Hr'. f_equal.
    pose proof (pick_perm _ _ _ _ Hr') as Hp.
    assert (Hperm' : Permutation r' suf).
    { apply (Permutation_cons_inv (a := i)). eapply Permutation_trans; [apply Permutation_sym; exact Hp | exact Hperm]. }
    specialize (IH (pre ++ [i]) r'). rewrite <- app_assoc in IH. simpl in IH. apply IH; assumption.
Qed.

Lemma completion_order_all_workers n w sigma :
  n <= w -> Permutation sigma (seq 0 n) -> completion_order n w sigma = sigma.
Proof.
  intros Hw Hperm. unfold completion_order.
  assert (Hlen : length sigma = n) by (apply Permutation_length in Hperm; rewrite seq_length in Hperm; exact Hperm).
  destruct n as [|n'].
  - destruct sigma; [reflexivity | discriminate].
  - cbn [run]. rewrite fill_all by (simpl; rewrite seq_length; lia). cbn [app].
    assert (Hnd : NoDup sigma) by (apply (Permutation_NoDup (Permutation_sym Hperm)), seq_NoDup).
    pose proof (run_all_workers w sigma [] (seq 0 (S n')) Hnd (Permutation_sym Hperm)) as H.
    rewrite Hlen in H. cbn [app run] in H.
    replace (fill w (seq 0 (S n')) []) with (seq 0 (S n'), @nil nat) in H by reflexivity.
    exact H.
Qed.

(* ------------------------------------------------------------------------------------------ *)
(* gathering by submission index                                                                *)
(* ------------------------------------------------------------------------------------------ *)
Section Gather.
  Variables A B : Type.
  Variable f : A -> B.

  Lemma find_completions xs k x : forall order,
    In k order -> nth_error xs k = Some x -> find_result k (completions f xs order) = Some (f x).
  Proof.
    induction order as [|i o IH]; intros Hin Hk; [contradiction|]. simpl.
    destruct (Nat.eq_dec k i) as [->|Hne].
    - rewrite Hk. simpl. rewrite Nat.eqb_refl. reflexivity.
    - destruct Hin as [Hin|Hin]; [congruence|].
      destruct (nth_error xs i) eqn:Hi.
      + simpl. apply Nat.eqb_neq in Hne. rewrite Hne. apply IH; assumption.
      + apply IH; assumption.
  Qed.

  Lemma gather_seq xs order : forall xs2 a,
    (forall k, a <= k < a + length xs2 -> In k order) ->
    (forall j, j < length xs2 -> nth_error xs (a + j) = nth_error xs2 j) ->
    gather_by_index (completions f xs order) (seq a (length xs2)) = Some (map f xs2).
  Proof.
    induction xs2 as [|x xs2 IH]; intros a Hin Hnth; [reflexivity|]. simpl.
    assert (Hx : nth_error xs a = Some x).
    { specialize (Hnth 0). simpl in Hnth. rewrite Nat.add_0_r in Hnth. apply Hnth. lia. }
    rewrite (find_completions xs a x order); [| apply Hin; simpl; lia | exact Hx].
    rewrite (IH (S a)).
    - reflexivity.
    - intros k Hk. apply Hin. simpl. lia.
    - intros j Hj. specialize (Hnth (S j)). simpl in Hnth. rewrite <- Hnth; [f_equal; lia | lia].
  Qed.

  (* reading by submission index returns the results in submission order for every completion
     order in which every task occurs *)
  Lemma gather_by_index_any_order xs order :
    Permutation order (seq 0 (length xs)) ->
    gather_by_index (completions f xs order) (seq 0 (length xs)) = Some (map f xs).
  Proof.
    intros Hperm. apply gather_seq.
    - intros k Hk. apply (Permutation_in k (Permutation_sym Hperm)). apply in_seq. lia.
    - intros j _. reflexivity.
  Qed.

  Theorem pool_map_schedule_free xs sigma w : 1 <= w -> pool_map f xs sigma w = Some (map f xs).
  Proof.
    intros Hw. unfold pool_map, pool_store. apply gather_by_index_any_order.
    apply completion_order_perm. exact Hw.
  Qed.

  (* one worker: also the completion-order gatherer returns the serial result *)
  Lemma completions_seq : forall xs2 xs1, completions f (xs1 ++ xs2) (seq (length xs1) (length xs2))
                                        = combine (seq (length xs1) (length xs2)) (map f xs2).
  Proof.
    induction xs2 as [|x xs2 IH]; intros xs1; [reflexivity|]. simpl.
    rewrite nth_error_app2 by lia. rewrite Nat.sub_diag. simpl.
    f_equal. specialize (IH (xs1 ++ [x])). rewrite <- app_assoc, app_length in IH. simpl in IH.
    rewrite Nat.add_1_r in IH. exact IH.
  Qed.

  Lemma pool_map_completion_one_worker xs sigma : pool_map_completion f xs sigma 1 = map f xs.
  Proof.
    unfold pool_map_completion, pool_store, gather_completion. rewrite completion_order_one_worker.
    pose proof (completions_seq xs []) as H. simpl in H. rewrite H.
    clear H. generalize 0. induction xs as [|x xs IH]; intros a; [reflexivity|]. simpl. f_equal. apply IH.
  Qed.
End Gather.

(* a gatherer that returns the results in completion order is NOT schedule free *)
Theorem completion_order_refuted :
  exists (f : nat -> nat) (xs : list nat) (sigma : list nat) (w : nat),
    Permutation sigma (seq 0 (length xs)) /\ 1 <= w /\ pool_map_completion f xs sigma w <> map f xs.
Proof.
  exists (fun x => x), [10; 20], [1; 0], 2. split; [|split].
  - simpl. apply perm_swap.
  - lia.
  - vm_compute. discriminate.
Qed.

(* ------------------------------------------------------------------------------------------ *)
(* the call sites                                                                               *)
(* ------------------------------------------------------------------------------------------ *)
Definition valid_nproc (P : parallel_glue) (np : nproc) (ncpu ntasks : nat) : Prop :=
  is_serial P np = true \/ 1 <= workers P np ncpu ntasks.

Section CallSites.
  Variables A C : Type.
  Variable is_none : C -> bool.
  Variable P : parallel_glue.
  Variable f : A -> C.

  Theorem mapped_par_eq_ser np ncpu sigma xs :
    p_gather P = GatherByIndex ->
    p_parallel_filters_none P = p_serial_filters_none P ->
    valid_nproc P np ncpu (length xs) ->
    mapped is_none P f f np ncpu sigma xs = Done (keep is_none (p_serial_filters_none P) (map f xs)).
  Proof.
    intros Hg Hf Hv. unfold mapped.
    destruct (is_serial P np) eqn:Hs; [reflexivity|].
    destruct Hv as [Hv|Hv]; [congruence|].
    destruct (Nat.eqb (workers P np ncpu (length xs)) 0) eqn:Hz; [apply Nat.eqb_eq in Hz; lia|].
    rewrite Hg. simpl. rewrite pool_map_schedule_free by exact Hv. rewrite Hf. reflexivity.
  Qed.

  (* consequently the outcome is the same for any two process counts and any two schedules *)
  Corollary mapped_independent np1 np2 ncpu1 ncpu2 sigma1 sigma2 xs :
    p_gather P = GatherByIndex ->
    p_parallel_filters_none P = p_serial_filters_none P ->
    valid_nproc P np1 ncpu1 (length xs) -> valid_nproc P np2 ncpu2 (length xs) ->
    mapped is_none P f f np1 ncpu1 sigma1 xs = mapped is_none P f f np2 ncpu2 sigma2 xs.
  Proof. intros Hg Hf H1 H2. rewrite !mapped_par_eq_ser by assumption. reflexivity. Qed.

  (* a worker count of zero is rejected by the pool (ValueError), as in the implementation *)
  Lemma mapped_zero_workers np ncpu sigma xs :
    is_serial P np = false -> workers P np ncpu (length xs) = 0 ->
    mapped is_none P f f np ncpu sigma xs = Failed BadWorkerCount.
  Proof. intros Hs Hw. unfold mapped. rewrite Hs, Hw. reflexivity. Qed.
End CallSites.

(* ------------------------------------------------------------------------------------------ *)
(* tasks with an options object                                                                 *)
(* ------------------------------------------------------------------------------------------ *)
Section OptionsState.
  Variables A C O : Type.
  Variable is_none : C -> bool.
  Variable P : parallel_glue.
  Variable task : O -> A -> C * O.

  (* a task that copies before writing leaves the shared object alone: the serial branch is a plain map *)
  Lemma serial_tasks_copying o : forall xs,
    serial_tasks true task o xs = (map (fun x => fst (task o x)) xs, o).
  Proof.
    induction xs as [|x xs IH]; [reflexivity|]. simpl. unfold call_task at 1.
    destruct (task o x) as [y o'] eqn:E. rewrite IH. simpl. reflexivity.
  Qed.

  Theorem mapped_with_options_par_eq_ser o np ncpu sigma xs :
    p_gather P = GatherByIndex ->
    p_parallel_filters_none P = p_serial_filters_none P ->
    valid_nproc P np ncpu (length xs) ->
    mapped_with_options is_none P true task o np ncpu sigma xs
    = Done (keep is_none (p_serial_filters_none P) (map (fun x => fst (task o x)) xs), o).
  Proof.
    intros Hg Hf Hv. unfold mapped_with_options.
    destruct (is_serial P np) eqn:Hs.
    - rewrite serial_tasks_copying. reflexivity.
    - destruct Hv as [Hv|Hv]; [congruence|].
      destruct (Nat.eqb (workers P np ncpu (length xs)) 0) eqn:Hz; [apply Nat.eqb_eq in Hz; lia|].
      rewrite Hg. simpl. rewrite pool_map_schedule_free by exact Hv. rewrite Hf.
      f_equal. f_equal. f_equal. apply map_ext. intros x. unfold call_task. destruct (task o x); reflexivity.
  Qed.
End OptionsState.

(* sharing without copying: a two-task instance in which the serial and the pool branch differ.
   options = Some s | None ("x_scale" set / unset); the task does `o.setdefault(x_scale, x)` and returns o[x_scale] *)
Definition setdefault_task (o : option nat) (x : nat) : option nat * option nat :=
  match o with Some s => (Some s, Some s) | None => (Some x, Some x) end.

Definition plain_glue : parallel_glue :=
  {| p_serial_when := 1; p_max_workers := MWAutoElseGiven; p_gather := GatherByIndex;
     p_serial_filters_none := true; p_parallel_filters_none := true |}.

Definition none_nat (o : option nat) : bool := match o with None => true | Some _ => false end.

Theorem shared_options_refuted :
  exists (sigma : list nat),
    mapped_with_options none_nat plain_glue false setdefault_task None (NPInt 1) 4 sigma [1; 2]
      = Done ([Some 1; Some 1], Some 1) /\
    mapped_with_options none_nat plain_glue false setdefault_task None (NPInt 2) 4 sigma [1; 2]
      = Done ([Some 1; Some 2], None).
Proof. exists [1; 0]. split; vm_compute; reflexivity. Qed.

(* ------------------------------------------------------------------------------------------ *)
(* tasks that may write into their argument                                                     *)
(* ------------------------------------------------------------------------------------------ *)
Section ArgumentsState.
  Variables A C : Type.
  Variable is_none : C -> bool.
  Variable P : parallel_glue.
  Variable task : A -> C * A.

  Theorem mapped_with_arguments_par_eq_ser np ncpu sigma xs :
    p_gather P = GatherByIndex ->
    p_parallel_filters_none P = p_serial_filters_none P ->
    valid_nproc P np ncpu (length xs) ->
    mapped_with_arguments is_none P true task np ncpu sigma xs
    = Done (keep is_none (p_serial_filters_none P) (map (fun x => fst (task x)) xs), xs).
  Proof.
    intros Hg Hf Hv. unfold mapped_with_arguments.
    destruct (is_serial P np) eqn:Hs.
    - unfold argument_after. rewrite map_id. reflexivity.
    - destruct Hv as [Hv|Hv]; [congruence|].
      destruct (Nat.eqb (workers P np ncpu (length xs)) 0) eqn:Hz; [apply Nat.eqb_eq in Hz; lia|].
      rewrite Hg. simpl. rewrite pool_map_schedule_free by exact Hv. rewrite Hf. reflexivity.
  Qed.
End ArgumentsState.

(* fitting in place: the task overwrites the object it is handed with its result.  Serially the caller's
   candidates are overwritten, with two processes they are not *)
Definition in_place_task (x : nat) : option nat * nat := (Some (x + 10), x + 10).

Theorem shared_arguments_refuted :
  exists (sigma : list nat),
    mapped_with_arguments none_nat plain_glue false in_place_task (NPInt 1) 4 sigma [1; 2]
      = Done ([Some 11; Some 12], [11; 12]) /\
    mapped_with_arguments none_nat plain_glue false in_place_task (NPInt 2) 4 sigma [1; 2]
      = Done ([Some 11; Some 12], [1; 2]).
Proof. exists [1; 0]. split; vm_compute; reflexivity. Qed.

(* a worker count capped by the number of tasks without a lower bound asks the pool for zero workers when there
   is nothing to do: "auto" fails where every explicit count returns the empty result *)
Theorem capped_workers_refuted :
  let P := {| p_serial_when := 1; p_max_workers := MWAutoCapped; p_gather := GatherByIndex;
              p_serial_filters_none := true; p_parallel_filters_none := true |} in
  mapped none_nat P (fun x : nat => Some x) (fun x => Some x) NPAuto 8 [] [] = Failed BadWorkerCount /\
  mapped none_nat P (fun x : nat => Some x) (fun x => Some x) (NPInt 2) 8 [] [] = Done [].
Proof. split; vm_compute; reflexivity. Qed.
