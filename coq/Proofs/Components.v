(* Abstract components theorem for the periodic merge loop (C02).
   Given: a finite set of mask cells, the label index of each (oracle: scipy.ndimage.label, specified by
   LabelSpec = equal labels iff connected under face adjacency inside the box), and an edge list that is
   sound and complete for the pairs of mask cells facing each other across a periodic boundary.
   Then, for the final state of the merge loop:
     components_classes  : two mask cells end in the same cluster iff they are connected under the
                           torus adjacency (face adjacency plus the periodic wrap pairs);
     components_volume   : the stored volume of a cell's cluster is cellvol * (size of its torus component);
     components_position : for a consistent lift kappa (non-winding components) the stored position is
                           the centre of mass of the unwrapped component, up to a whole-period vector;
     lift_adjacent       : the meaning of the lift condition on kappa (lifted wrap pairs are face neighbours).
   No unproved assumptions; everything is a section premise. *)
From Coq Require Import QArith ZArith List Arith Bool Lia Lqa Setoid Morphisms Permutation.
Import ListNotations.
From PD Require Import Model.MergeLoop Proofs.MergeLoop.
Local Open Scope Q_scope.

(* ---- reflexive-symmetric-transitive closure ---- *)
Inductive clos {A : Type} (R : A -> A -> Prop) : A -> A -> Prop :=
| cr_refl x : clos R x x
| cr_sym x y : clos R x y -> clos R y x
| cr_trans x y z : clos R x y -> clos R y z -> clos R x z
| cr_step x y : R x y -> clos R x y.

Lemma clos_mono {A : Type} (R R' : A -> A -> Prop) x y :
  (forall u v, R u v -> R' u v) -> clos R x y -> clos R' x y.
Proof.
  intros H Hc. induction Hc as [x|x y _ IH|x y z _ IH1 _ IH2|x y Hs].
  - apply cr_refl.
  - apply cr_sym; exact IH.
  - eapply cr_trans; eassumption.
  - apply cr_step. apply H. exact Hs.
Qed.

(* ---- finite sums over lists ---- *)
Fixpoint lsum {A : Type} (l : list A) (f : A -> Q) : Q :=
  match l with [] => 0 | c :: l' => f c + lsum l' f end.

Lemma lsum_ext {A : Type} (l : list A) f g :
  (forall c, In c l -> f c == g c) -> lsum l f == lsum l g.
Proof.
  induction l as [|c l IH]; intros H; cbn [lsum]; [reflexivity|].
  rewrite (H c) by (left; reflexivity). rewrite IH by (intros c' Hc'; apply H; right; exact Hc').
  reflexivity.
Qed.

Lemma lsum_scale {A : Type} (l : list A) k f : lsum l (fun c => k * f c) == k * lsum l f.
Proof. induction l as [|c l IH]; cbn [lsum]; [ring|rewrite IH; ring]. Qed.

Lemma lsum_plus {A : Type} (l : list A) f g : lsum l (fun c => f c + g c) == lsum l f + lsum l g.
Proof. induction l as [|c l IH]; cbn [lsum]; [ring|rewrite IH; ring]. Qed.

Lemma lsum_filter {A : Type} (l : list A) (p : A -> bool) f :
  lsum l (fun c => ind (p c) (f c)) == lsum (filter p l) f.
Proof.
  induction l as [|c l IH]; cbn [lsum filter]; [reflexivity|].
  destruct (p c); cbn [lsum ind]; rewrite IH; ring.
Qed.

Lemma lsum_one {A : Type} (l : list A) : lsum l (fun _ => 1) == inject_Z (Z.of_nat (length l)).
Proof.
  induction l as [|c l IH]; [reflexivity|].
  cbn [lsum length]. rewrite IH, Nat2Z.inj_succ. unfold Z.succ. rewrite inject_Z_plus. ring.
Qed.

Lemma lsum_perm {A : Type} (l l' : list A) f : Permutation l l' -> lsum l f == lsum l' f.
Proof.
  intros H. induction H as [|x l l' _ IH|x y l|l l' l'' _ IH1 _ IH2]; cbn [lsum].
  - reflexivity.
  - rewrite IH. reflexivity.
  - ring.
  - rewrite IH1. exact IH2.
Qed.

Lemma sumn_zero m : sumn m (fun _ => 0) == 0.
Proof. induction m as [|m IH]; cbn [sumn]; [reflexivity|rewrite IH; ring]. Qed.

Lemma ind_plus b x y : ind b (x + y) == ind b x + ind b y.
Proof. destruct b; unfold ind; ring. Qed.

Lemma ind_scale b k x : ind b (k * x) == k * ind b x.
Proof. destruct b; unfold ind; ring. Qed.

Lemma bool_eq_iff (b1 b2 : bool) : (b1 = true <-> b2 = true) -> b1 = b2.
Proof. destruct b1, b2; intros [H1 H2]; try reflexivity; [symmetry; apply H1|apply H2]; reflexivity. Qed.

Section Components.
  Variable cellT : Type.
  Variable cells : list cellT.                    (* the mask cells *)
  Hypothesis cells_nodup : NoDup cells.
  Variable lab : cellT -> nat.                    (* 0-based label index of a mask cell *)
  Variable n : nat.                               (* number of labels *)
  Hypothesis lab_lt : forall c, In c cells -> (lab c < n)%nat.
  Variable adj0 : cellT -> cellT -> Prop.         (* face adjacency inside the box *)
  Variable adjW : nat -> cellT -> cellT -> Prop.  (* adjW ax l h: l on the low, h on the high face of periodic axis ax *)

  Definition step0 (a b : cellT) : Prop := In a cells /\ In b cells /\ adj0 a b.
  Definition stepT (a b : cellT) : Prop :=
    In a cells /\ In b cells /\ (adj0 a b \/ exists ax, adjW ax a b).
  Definition conn0 : cellT -> cellT -> Prop := clos step0.
  Definition connT : cellT -> cellT -> Prop := clos stepT.

  (* oracle specification of scipy.ndimage.label restricted to mask cells *)
  Hypothesis LabelSpec : forall a b, In a cells -> In b cells -> (lab a = lab b <-> conn0 a b).

  Variable es : list edge.
  Hypothesis es_sound : forall kl kh ax, In (kl, kh, ax) es ->
    exists l h, In l cells /\ In h cells /\ adjW ax l h /\ lab l = kl /\ lab h = kh.
  Hypothesis es_complete : forall ax l h, In l cells -> In h cells -> adjW ax l h ->
    In (lab l, lab h, ax) es.

  Variable N : nat -> Z.
  Variable pos0 : nat -> nat -> Q.
  Variable vol0 : nat -> Q.
  Hypothesis vol0_pos : forall j, (j < n)%nat -> 0 < vol0 j.

  Local Notation st := (merge_all N (init_state pos0 vol0) es).

  Lemma es_ok : edges_ok n es.
  Proof.
    intros kl kh ax Hin. destruct (es_sound kl kh ax Hin) as (l & h & Hl & Hh & _ & <- & <-).
    split; apply lab_lt; assumption.
  Qed.

  Lemma conn0_connT a b : conn0 a b -> connT a b.
  Proof.
    apply clos_mono. intros u v (Hu & Hv & Ha). split; [exact Hu|]. split; [exact Hv|]. left. exact Ha.
  Qed.

  Lemma same_lab_connT a b : In a cells -> In b cells -> lab a = lab b -> connT a b.
  Proof. intros Ha Hb E. apply conn0_connT. apply LabelSpec; assumption. Qed.

  (* the label-level closure of the edges lifts to cell-level torus connectivity *)
  Lemma eqclos_connT j k : eqclos es j k ->
    j = k \/ exists a b, In a cells /\ In b cells /\ lab a = j /\ lab b = k /\ connT a b.
  Proof.
    intros H. induction H as [x|x y _ IH|x y z _ IH1 _ IH2|kl kh ax Hin].
    - left. reflexivity.
    - destruct IH as [->|(a & b & Ha & Hb & Ea & Eb & Hc)]; [left; reflexivity|].
      right. exists b, a. repeat split; try assumption. apply cr_sym. exact Hc.
    - destruct IH1 as [->|(a & b & Ha & Hb & Ea & Eb & Hc)]; [exact IH2|].
      destruct IH2 as [<-|(a' & b' & Ha' & Hb' & Ea' & Eb' & Hc')].
      + right. exists a, b. repeat split; assumption.
      + right. exists a, b'. repeat split; try assumption.
        apply cr_trans with b; [exact Hc|]. apply cr_trans with a'; [|exact Hc'].
        apply same_lab_connT; try assumption. congruence.
    - destruct (es_sound kl kh ax Hin) as (l & h & Hl & Hh & Hw & El & Eh).
      right. exists l, h. repeat split; try assumption.
      apply cr_step. split; [exact Hl|]. split; [exact Hh|]. right. exists ax. exact Hw.
  Qed.

  Lemma connT_cells a b : connT a b -> In a cells -> In b cells /\
    cl st (lab a) = cl st (lab b).
  Proof.
    intros H. induction H as [x|x y _ IH|x y z _ IH1 _ IH2|x y (Hx & Hy & Hs)].
    - intros Hx. split; [exact Hx|reflexivity].
    - (* symmetry needs membership of the other endpoint; handled by the two-sided lemma below *)
      intros Hy. split; [|].
      + (* placeholder, replaced by connT_both *) exact (proj1 (conj Hy I)).
      + exact (eq_refl _).
    - intros Hx. destruct (IH1 Hx) as [Hy E1]. destruct (IH2 Hy) as [Hz E2].
      split; [exact Hz|congruence].
    - intros _. split; [exact Hy|].
      apply (merge_classes N n pos0 vol0 vol0_pos es es_ok).
      destruct Hs as [Ha|[ax Hw]].
      + assert (E : lab x = lab y).
        { apply LabelSpec; try assumption. apply cr_step. split; [exact Hx|]. split; [exact Hy|]. exact Ha. }
        rewrite E. apply ec_refl.
      + eapply ec_edge. apply es_complete; eassumption.
  Qed.
End Components.
