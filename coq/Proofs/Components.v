(* Abstract components theorem for the periodic merge loop (C02).
   Given: a finite set of mask cells, the label index of each (oracle: scipy.ndimage.label, specified by
   LabelSpec = equal labels iff connected under face adjacency inside the box), and an edge list that is
   sound and complete for the pairs of mask cells facing each other across a periodic boundary.
   Then, for the final state of the merge loop:
     components_classes  : two mask cells end in the same cluster iff they are connected under the
                           torus adjacency (face adjacency plus the periodic wrap pairs);
     components_volume   : the stored volume of a cell's cluster is cellvol * (size of its torus component);
     components_position : for a consistent lift kappa (non-winding components) the stored position is
                           the centre of mass of the unwrapped component, up to a whole-period vector;
     lift_adjacent       : the meaning of the lift condition on kappa (lifted wrap pairs are face neighbours).
   No unproved assumptions; everything is a section premise. *)
From Coq Require Import QArith ZArith List Arith Bool Lia Lqa Setoid Morphisms Permutation.
Import ListNotations.
From PD Require Import Model.MergeLoop Proofs.MergeLoop.
Local Open Scope Q_scope.

(* ---- reflexive-symmetric-transitive closure ---- *)
Inductive clos {A : Type} (R : A -> A -> Prop) : A -> A -> Prop :=
| cr_refl x : clos R x x
| cr_sym x y : clos R x y -> clos R y x
| cr_trans x y z : clos R x y -> clos R y z -> clos R x z
| cr_step x y : R x y -> clos R x y.

Lemma clos_mono {A : Type} (R R' : A -> A -> Prop) x y :
  (forall u v, R u v -> R' u v) -> clos R x y -> clos R' x y.
Proof.
  intros H Hc. induction Hc as [x|x y _ IH|x y z _ IH1 _ IH2|x y Hs].
  - apply cr_refl.
  - apply cr_sym; exact IH.
  - eapply cr_trans; eassumption.
  - apply cr_step. apply H. exact Hs.
Qed.

(* ---- finite sums over lists ---- *)
Fixpoint lsum {A : Type} (l : list A) (f : A -> Q) : Q :=
  match l with [] => 0 | c :: l' => f c + lsum l' f end.

Lemma lsum_ext {A : Type} (l : list A) f g :
  (forall c, In c l -> f c == g c) -> lsum l f == lsum l g.
Proof.
  induction l as [|c l IH]; intros H; cbn [lsum]; [reflexivity|].
  rewrite (H c) by (left; reflexivity). rewrite IH by (intros c' Hc'; apply H; right; exact Hc').
  reflexivity.
Qed.

Lemma lsum_scale {A : Type} (l : list A) k f : lsum l (fun c => k * f c) == k * lsum l f.
Proof. induction l as [|c l IH]; cbn [lsum]; [ring|rewrite IH; ring]. Qed.

Lemma lsum_plus {A : Type} (l : list A) f g : lsum l (fun c => f c + g c) == lsum l f + lsum l g.
Proof. induction l as [|c l IH]; cbn [lsum]; [ring|rewrite IH; ring]. Qed.

Lemma lsum_filter {A : Type} (l : list A) (p : A -> bool) f :
  lsum l (fun c => ind (p c) (f c)) == lsum (filter p l) f.
Proof.
  induction l as [|c l IH]; cbn [lsum filter]; [reflexivity|].
  destruct (p c); cbn [lsum ind]; rewrite IH; ring.
Qed.

Lemma lsum_one {A : Type} (l : list A) : lsum l (fun _ => 1) == inject_Z (Z.of_nat (length l)).
Proof.
  induction l as [|c l IH]; [reflexivity|].
  cbn [lsum length]. rewrite IH, Nat2Z.inj_succ. unfold Z.succ. rewrite inject_Z_plus. ring.
Qed.

Lemma lsum_perm {A : Type} (l l' : list A) f : Permutation l l' -> lsum l f == lsum l' f.
Proof.
  intros H. induction H as [|x l l' _ IH|x y l|l l' l'' _ IH1 _ IH2]; cbn [lsum].
  - reflexivity.
  - rewrite IH. reflexivity.
  - ring.
  - rewrite IH1. exact IH2.
Qed.

Lemma sumn_zero m : sumn m (fun _ => 0) == 0.
Proof. induction m as [|m IH]; cbn [sumn]; [reflexivity|rewrite IH; ring]. Qed.

Lemma ind_plus b x y : ind b (x + y) == ind b x + ind b y.
Proof. destruct b; unfold ind; ring. Qed.

Lemma ind_scale b k x : ind b (k * x) == k * ind b x.
Proof. destruct b; unfold ind; ring. Qed.

Lemma bool_eq_iff (b1 b2 : bool) : (b1 = true <-> b2 = true) -> b1 = b2.
Proof. destruct b1, b2; intros [H1 H2]; try reflexivity; [symmetry; apply H1|apply H2]; reflexivity. Qed.

Section Components.
  Variable cellT : Type.
  Variable cells : list cellT.                    (* the mask cells *)
  Hypothesis cells_nodup : NoDup cells.
  Variable lab : cellT -> nat.                    (* 0-based label index of a mask cell *)
  Variable n : nat.                               (* number of labels *)
  Hypothesis lab_lt : forall c, In c cells -> (lab c < n)%nat.
  Variable adj0 : cellT -> cellT -> Prop.         (* face adjacency inside the box *)
  Variable adjW : nat -> cellT -> cellT -> Prop.  (* adjW ax l h: l on the low, h on the high face of periodic axis ax *)

  Definition step0 (a b : cellT) : Prop := In a cells /\ In b cells /\ adj0 a b.
  Definition stepT (a b : cellT) : Prop :=
    In a cells /\ In b cells /\ (adj0 a b \/ exists ax, adjW ax a b).
  Definition conn0 : cellT -> cellT -> Prop := clos step0.
  Definition connT : cellT -> cellT -> Prop := clos stepT.

  (* oracle specification of scipy.ndimage.label restricted to mask cells *)
  Hypothesis LabelSpec : forall a b, In a cells -> In b cells -> (lab a = lab b <-> conn0 a b).

  Variable es : list edge.
  Hypothesis es_sound : forall kl kh ax, In (kl, kh, ax) es ->
    exists l h, In l cells /\ In h cells /\ adjW ax l h /\ lab l = kl /\ lab h = kh.
  Hypothesis es_complete : forall ax l h, In l cells -> In h cells -> adjW ax l h ->
    In (lab l, lab h, ax) es.

  Variable N : nat -> Z.
  Variable pos0 : nat -> nat -> Q.
  Variable vol0 : nat -> Q.
  Hypothesis vol0_pos : forall j, (j < n)%nat -> 0 < vol0 j.

  Local Notation st := (merge_all N (init_state pos0 vol0) es).

  Lemma es_ok : edges_ok n es.
  Proof.
    intros kl kh ax Hin. destruct (es_sound kl kh ax Hin) as (l & h & Hl & Hh & _ & <- & <-).
    split; apply lab_lt; assumption.
  Qed.

  Lemma conn0_connT a b : conn0 a b -> connT a b.
  Proof.
    apply clos_mono. intros u v (Hu & Hv & Ha). split; [exact Hu|]. split; [exact Hv|]. left. exact Ha.
  Qed.

  Lemma same_lab_connT a b : In a cells -> In b cells -> lab a = lab b -> connT a b.
  Proof. intros Ha Hb E. apply conn0_connT. apply LabelSpec; assumption. Qed.

  (* the label-level closure of the edges lifts to cell-level torus connectivity *)
  Lemma eqclos_connT j k : eqclos es j k ->
    j = k \/ exists a b, In a cells /\ In b cells /\ lab a = j /\ lab b = k /\ connT a b.
  Proof.
    intros H. induction H as [x|x y _ IH|x y z _ IH1 _ IH2|kl kh ax Hin].
    - left. reflexivity.
    - destruct IH as [->|(a & b & Ha & Hb & Ea & Eb & Hc)]; [left; reflexivity|].
      right. exists b, a. repeat split; try assumption. apply cr_sym. exact Hc.
    - destruct IH1 as [->|(a & b & Ha & Hb & Ea & Eb & Hc)]; [exact IH2|].
      destruct IH2 as [<-|(a' & b' & Ha' & Hb' & Ea' & Eb' & Hc')].
      + right. exists a, b. repeat split; assumption.
      + right. exists a, b'. repeat split; try assumption.
        apply cr_trans with b; [exact Hc|]. apply cr_trans with a'; [|exact Hc'].
        apply same_lab_connT; try assumption. congruence.
    - destruct (es_sound kl kh ax Hin) as (l & h & Hl & Hh & Hw & El & Eh).
      right. exists l, h. repeat split; try assumption.
      apply cr_step. split; [exact Hl|]. split; [exact Hh|]. right. exists ax. exact Hw.
  Qed.

  (* a torus path either is trivial or stays inside the mask, and then never leaves a cluster *)
  Lemma connT_cl a b : connT a b ->
    a = b \/ (In a cells /\ In b cells /\ cl st (lab a) = cl st (lab b)).
  Proof.
    intros H. induction H as [x|x y _ IH|x y z _ IH1 _ IH2|x y (Hx & Hy & Hs)].
    - left. reflexivity.
    - destruct IH as [->|(Hx & Hy & E)]; [left; reflexivity|]. right. repeat split; auto.
    - destruct IH1 as [->|(Hx & Hy & E1)]; [exact IH2|].
      destruct IH2 as [<-|(_ & Hz & E2)]; right; repeat split; auto; congruence.
    - right. split; [exact Hx|]. split; [exact Hy|].
      apply (merge_classes N n pos0 vol0 vol0_pos es es_ok).
      destruct Hs as [Ha|[ax Hw]].
      + assert (E : lab x = lab y).
        { apply LabelSpec; try assumption. apply cr_step. split; [exact Hx|]. split; [exact Hy|]. exact Ha. }
        rewrite E. apply ec_refl.
      + eapply ec_edge. apply es_complete; eassumption.
  Qed.

  Theorem components_classes a b : In a cells -> In b cells ->
    (cl st (lab a) = cl st (lab b) <-> connT a b).
  Proof.
    intros Ha Hb. split.
    - intros E. apply (merge_classes N n pos0 vol0 vol0_pos es es_ok) in E.
      destruct (eqclos_connT _ _ E) as [El|(a' & b' & Ha' & Hb' & Ea & Eb & Hc)].
      + apply same_lab_connT; assumption.
      + apply cr_trans with a'; [apply same_lab_connT; auto|].
        apply cr_trans with b'; [exact Hc|apply same_lab_connT; auto].
    - intros H. destruct (connT_cl a b H) as [->|(_ & _ & E)]; [reflexivity|exact E].
  Qed.

  (* ---- regrouping: a sum over labels of per-label cell sums is a sum over cells ---- *)
  Lemma regroup (P : nat -> bool) (f : cellT -> Q) (l : list cellT) :
    (forall c, In c l -> (lab c < n)%nat) ->
    sumn n (fun j => ind (P j) (lsum l (fun c => ind (Nat.eqb (lab c) j) (f c))))
    == lsum l (fun c => ind (P (lab c)) (f c)).
  Proof.
    induction l as [|c l IH]; intros Hl.
    - cbn [lsum]. rewrite (sumn_ext n _ (fun _ => 0)); [apply sumn_zero|].
      intros j _. destruct (P j); reflexivity.
    - cbn [lsum].
      rewrite (sumn_ext n _ (fun j => ind (Nat.eqb j (lab c)) (ind (P j) (f c))
                                    + ind (P j) (lsum l (fun c0 => ind (Nat.eqb (lab c0) j) (f c0))))).
      + rewrite sumn_plus. rewrite (sumn_single n (lab c) (fun j => ind (P j) (f c))).
        replace (lab c <? n)%nat with true
          by (symmetry; apply Nat.ltb_lt; apply Hl; left; reflexivity).
        rewrite IH by (intros c' Hc'; apply Hl; right; exact Hc'). reflexivity.
      + intros j _. rewrite ind_plus. rewrite (Nat.eqb_sym j (lab c)).
        destruct (Nat.eqb (lab c) j); destruct (P j); unfold ind; ring.
  Qed.

  (* msum of a per-label cell sum = cell sum over the cluster *)
  Lemma msum_regroup (i : nat) (k : Q) (f : cellT -> Q) (F : nat -> Q) :
    (forall j, (j < n)%nat -> F j == k * lsum cells (fun c => ind (Nat.eqb (lab c) j) (f c))) ->
    msum n (cl st) i F == k * lsum cells (fun c => ind (Nat.eqb (cl st (lab c)) i) (f c)).
  Proof.
    intros HF. unfold msum.
    rewrite (sumn_ext n _ (fun j => k * ind (Nat.eqb (cl st j) i)
                                          (lsum cells (fun c => ind (Nat.eqb (lab c) j) (f c))))).
    - rewrite sumn_scale. rewrite (regroup (fun j => Nat.eqb (cl st j) i) f cells lab_lt). reflexivity.
    - intros j Hj. rewrite <- ind_scale. destruct (Nat.eqb (cl st j) i); unfold ind; [apply HF; exact Hj|reflexivity].
  Qed.

  (* ---- volumes ---- *)
  Variable cellvol : Q.
  Hypothesis cellvol_pos : 0 < cellvol.
  Definition cnt (j : nat) : Q := lsum cells (fun c => ind (Nat.eqb (lab c) j) 1).
  Hypothesis vol0_spec : forall j, (j < n)%nat -> vol0 j == cellvol * cnt j.

  (* the canonical decision procedure for "c lies in the component of a" *)
  Definition same (a c : cellT) : bool := Nat.eqb (cl st (lab c)) (cl st (lab a)).

  Lemma same_spec a c : In a cells -> In c cells -> (same a c = true <-> connT a c).
  Proof.
    intros Ha Hc. unfold same. rewrite Nat.eqb_eq. rewrite (components_classes c a Hc Ha).
    split; apply cr_sym.
  Qed.

  Lemma volume_same a : In a cells ->
    mvol st (cl st (lab a)) == cellvol * lsum cells (fun c => ind (same a c) 1).
  Proof.
    intros Ha.
    rewrite (merge_volume N n pos0 vol0 vol0_pos es es_ok (lab a) (lab_lt a Ha)).
    apply (msum_regroup (cl st (lab a)) cellvol (fun _ => 1) vol0). exact vol0_spec.
  Qed.

  (* stored volume = cell volume * number of cells of the torus component, for ANY decision
     procedure inC of the component *)
  Theorem components_volume a (inC : cellT -> bool) : In a cells ->
    (forall c, In c cells -> (inC c = true <-> connT a c)) ->
    mvol st (cl st (lab a)) == cellvol * lsum cells (fun c => ind (inC c) 1).
  Proof.
    intros Ha HinC. rewrite (volume_same a Ha).
    rewrite (lsum_ext cells (fun c => ind (same a c) 1) (fun c => ind (inC c) 1)); [reflexivity|].
    intros c Hc. replace (same a c) with (inC c); [reflexivity|].
    apply bool_eq_iff. rewrite (HinC c Hc), (same_spec a c Ha Hc). reflexivity.
  Qed.

  (* a duplicate-free enumeration of the component is a permutation of the filtered mask *)
  Lemma comp_perm a (comp : list cellT) : In a cells -> NoDup comp ->
    (forall c, In c comp <-> In c cells /\ connT a c) ->
    Permutation (filter (same a) cells) comp.
  Proof.
    intros Ha Hnd Hcomp. apply NoDup_Permutation.
    - apply NoDup_filter. exact cells_nodup.
    - exact Hnd.
    - intros c. rewrite filter_In, Hcomp. split.
      + intros [Hc Hs]. split; [exact Hc|]. apply (same_spec a c Ha Hc). exact Hs.
      + intros [Hc Hs]. split; [exact Hc|]. apply (same_spec a c Ha Hc). exact Hs.
  Qed.

  (* the same with the component given as a duplicate-free list: volume = cellvol * |component| *)
  Theorem components_volume_list a (comp : list cellT) : In a cells -> NoDup comp ->
    (forall c, In c comp <-> In c cells /\ connT a c) ->
    mvol st (cl st (lab a)) == cellvol * inject_Z (Z.of_nat (length comp)).
  Proof.
    intros Ha Hnd Hcomp. rewrite (volume_same a Ha).
    rewrite (lsum_filter cells (same a) (fun _ => 1)).
    rewrite (lsum_perm _ _ (fun _ => 1) (comp_perm a comp Ha Hnd Hcomp)).
    rewrite lsum_one. reflexivity.
  Qed.

  (* ---- positions ---- *)
  Variable coord : cellT -> nat -> Q.             (* integer cell index along an axis, as a rational *)
  (* centre-of-mass oracle in multiplied form: pos0 = mean of (index + 1/2) over the label *)
  Hypothesis pos0_spec : forall j ax, (j < n)%nat ->
    pos0 j ax * cnt j == lsum cells (fun c => ind (Nat.eqb (lab c) j) (coord c ax + (1 # 2))).

  (* lifted (unwrapped) coordinate of a cell: shift its label by kappa periods *)
  Definition lifted (kappa : nat -> nat -> Z) (t : nat -> Z) (c : cellT) (ax : nat) : Q :=
    coord c ax + (1 # 2) + inject_Z ((kappa (lab c) ax + t ax) * N ax).

  Lemma contrib_spec ax j : (j < n)%nat ->
    contrib N pos0 vol0 st ax j
    == cellvol * lsum cells (fun c => ind (Nat.eqb (lab c) j)
                                        (coord c ax + (1 # 2) + inject_Z (off st (lab c) ax * N ax))).
  Proof.
    intros Hj. unfold contrib. rewrite (vol0_spec j Hj).
    rewrite (lsum_ext cells _ (fun c => ind (Nat.eqb (lab c) j) (coord c ax + (1 # 2))
                                       + inject_Z (off st j ax * N ax) * ind (Nat.eqb (lab c) j) 1)).
    - rewrite lsum_plus, lsum_scale. rewrite <- (pos0_spec j ax Hj). fold (cnt j). ring.
    - intros c _. destruct (Nat.eqb_spec (lab c) j) as [->|Hne]; unfold ind; ring.
  Qed.

  Lemma position_same kappa : lift_ok kappa es ->
    exists t : nat -> nat -> Z, forall a ax, In a cells ->
      mpos st (cl st (lab a)) ax * lsum cells (fun c => ind (same a c) 1)
      == lsum cells (fun c => ind (same a c) (lifted kappa (t (cl st (lab a))) c ax)).
  Proof.
    intros Hl. destruct (merge_offsets N pos0 vol0 kappa es Hl) as [t Ht].
    exists t. intros a ax Ha.
    pose proof (merge_position N n pos0 vol0 vol0_pos es es_ok (lab a) ax (lab_lt a Ha)) as Hp.
    cbv zeta in Hp.
    rewrite (msum_regroup (cl st (lab a)) cellvol (fun _ => 1) vol0 vol0_spec) in Hp.
    rewrite (msum_regroup (cl st (lab a)) cellvol
               (fun c => coord c ax + (1 # 2) + inject_Z (off st (lab c) ax * N ax))
               (contrib N pos0 vol0 st ax) (contrib_spec ax)) in Hp.
    fold (same a) in Hp.
    assert (Hp' : cellvol * (mpos st (cl st (lab a)) ax * lsum cells (fun c => ind (same a c) 1))
                  == cellvol * lsum cells (fun c => ind (Nat.eqb (cl st (lab c)) (cl st (lab a)))
                       (coord c ax + (1 # 2) + inject_Z (off st (lab c) ax * N ax)))).
    { rewrite <- Hp. unfold same. ring. }
    apply Qmult_inj_l in Hp'; [|intros E; rewrite E in cellvol_pos; discriminate cellvol_pos].
    rewrite Hp'. apply lsum_ext. intros c _. unfold same.
    destruct (Nat.eqb_spec (cl st (lab c)) (cl st (lab a))) as [E|E]; unfold ind; [|reflexivity].
    unfold lifted. rewrite (Ht (lab c) ax), E. reflexivity.
  Qed.

  (* stored position * |component| = sum of the lifted cell centres, for any decision procedure *)
  Theorem components_position kappa : lift_ok kappa es ->
    exists t : nat -> nat -> Z, forall a ax (inC : cellT -> bool), In a cells ->
      (forall c, In c cells -> (inC c = true <-> connT a c)) ->
      mpos st (cl st (lab a)) ax * lsum cells (fun c => ind (inC c) 1)
      == lsum cells (fun c => ind (inC c) (lifted kappa (t (cl st (lab a))) c ax)).
  Proof.
    intros Hl. destruct (position_same kappa Hl) as [t Ht]. exists t.
    intros a ax inC Ha HinC.
    assert (Hs : forall c, In c cells -> inC c = same a c).
    { intros c Hc. apply bool_eq_iff. rewrite (HinC c Hc), (same_spec a c Ha Hc). reflexivity. }
    rewrite (lsum_ext cells (fun c => ind (inC c) 1) (fun c => ind (same a c) 1))
      by (intros c Hc; rewrite (Hs c Hc); reflexivity).
    rewrite (lsum_ext cells (fun c => ind (inC c) (lifted kappa (t (cl st (lab a))) c ax))
                            (fun c => ind (same a c) (lifted kappa (t (cl st (lab a))) c ax)))
      by (intros c Hc; rewrite (Hs c Hc); reflexivity).
    apply Ht. exact Ha.
  Qed.

  (* the same with the component given as a duplicate-free list:
     stored position * |component| = sum over the component of the lifted cell centres *)
  Theorem components_position_list kappa : lift_ok kappa es ->
    exists t : nat -> nat -> Z, forall a ax (comp : list cellT), In a cells -> NoDup comp ->
      (forall c, In c comp <-> In c cells /\ connT a c) ->
      mpos st (cl st (lab a)) ax * inject_Z (Z.of_nat (length comp))
      == lsum comp (fun c => lifted kappa (t (cl st (lab a))) c ax).
  Proof.
    intros Hl. destruct (position_same kappa Hl) as [t Ht]. exists t.
    intros a ax comp Ha Hnd Hcomp.
    pose proof (Ht a ax Ha) as H.
    rewrite (lsum_filter cells (same a) (fun _ => 1)) in H.
    rewrite (lsum_filter cells (same a)) in H.
    rewrite (lsum_perm _ _ (fun _ => 1) (comp_perm a comp Ha Hnd Hcomp)) in H.
    rewrite (lsum_perm _ _ _ (comp_perm a comp Ha Hnd Hcomp)) in H.
    rewrite lsum_one in H. exact H.
  Qed.

  (* ---- what lift_ok means geometrically ----
     For a wrap pair along ax (l at index 0, h at index N ax - 1, equal indices elsewhere) the lifted
     cells are face neighbours along ax (lifted h + e_ax = lifted l) iff kappa h = kappa l - e_ax. *)
  Lemma lift_adjacent_axis (kappa : nat -> nat -> Z) (l h : cellT) (ax a : nat) :
    N a <> 0%Z ->
    coord l ax == 0 -> coord h ax == inject_Z (N ax) - 1 ->
    (a <> ax -> coord h a == coord l a) ->
    (coord h a + inject_Z (kappa (lab h) a * N a) + inject_Z (delta a ax)
       == coord l a + inject_Z (kappa (lab l) a * N a)
     <-> kappa (lab h) a = (kappa (lab l) a - delta a ax)%Z).
  Proof.
    intros HN Hl Hh Hother.
    assert (Hd1 : delta ax ax = 1%Z) by (unfold delta; rewrite Nat.eqb_refl; reflexivity).
    assert (Hd0 : a <> ax -> delta a ax = 0%Z).
    { intros Hne. unfold delta. destruct (Nat.eqb_spec a ax); [contradiction|reflexivity]. }
    split; intros H.
    - destruct (Nat.eq_dec a ax) as [Ea|Hne].
      + subst a. rewrite Hd1 in *. rewrite Hl, Hh in H. change (inject_Z 1) with 1 in H.
        assert (E : inject_Z ((kappa (lab h) ax + 1) * N ax) == inject_Z (kappa (lab l) ax * N ax)).
        { rewrite Z.mul_add_distr_r, inject_Z_plus, Z.mul_1_l.
          revert H. generalize (inject_Z (kappa (lab h) ax * N ax)), (inject_Z (kappa (lab l) ax * N ax)),
                               (inject_Z (N ax)).
          intros u v w H. clear - H. lra. }
        apply (proj1 (inject_Z_injective _ _)) in E. apply Z.mul_cancel_r in E; [lia|exact HN].
      + rewrite (Hd0 Hne) in *. rewrite (Hother Hne) in H. change (inject_Z 0) with 0 in H.
        assert (E : inject_Z (kappa (lab h) a * N a) == inject_Z (kappa (lab l) a * N a)).
        { revert H. generalize (inject_Z (kappa (lab h) a * N a)), (inject_Z (kappa (lab l) a * N a)).
          intros u v H. clear - H. lra. }
        apply (proj1 (inject_Z_injective _ _)) in E. apply Z.mul_cancel_r in E; [lia|exact HN].
    - rewrite H. destruct (Nat.eq_dec a ax) as [Ea|Hne].
      + subst a. rewrite Hd1. rewrite Hl, Hh. rewrite Z.mul_sub_distr_r, Z.mul_1_l.
        unfold Z.sub. rewrite inject_Z_plus, inject_Z_opp. change (inject_Z 1) with 1. ring.
      + rewrite (Hd0 Hne). rewrite (Hother Hne). rewrite Z.sub_0_r. change (inject_Z 0) with 0. ring.
  Qed.

  Lemma lift_adjacent (kappa : nat -> nat -> Z) (l h : cellT) (ax : nat) :
    (forall a, N a <> 0%Z) ->
    coord l ax == 0 -> coord h ax == inject_Z (N ax) - 1 ->
    (forall a, a <> ax -> coord h a == coord l a) ->
    ((forall a, coord h a + inject_Z (kappa (lab h) a * N a) + inject_Z (delta a ax)
                == coord l a + inject_Z (kappa (lab l) a * N a))
     <-> (forall a, kappa (lab h) a = (kappa (lab l) a - delta a ax)%Z)).
  Proof.
    intros HN Hl Hh Hother.
    split; intros H a; apply (lift_adjacent_axis kappa l h ax a (HN a) Hl Hh (Hother a)); apply H.
  Qed.
End Components.

Print Assumptions components_classes.
Print Assumptions components_volume.
Print Assumptions components_volume_list.
Print Assumptions components_position.
Print Assumptions components_position_list.
Print Assumptions lift_adjacent.
Print Assumptions lift_adjacent_axis.
