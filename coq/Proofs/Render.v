(* C03, D-layer proofs: periodic images, roll equivariance and totality of the angle computation
   for the exact-rational rendering model (Model/Render.v over Model/Grid.v). *)
From Coq Require Import ZArith QArith Qround Qabs List Bool Lia Lra Psatz Setoid Morphisms.
From PD Require Import Model.Grid Model.Render.
Import ListNotations.
Local Open Scope Q_scope.

(* ---------------------------------------------------------------------------------------- *)
(* floor, modulo and the periodic wrap                                                       *)
(* ---------------------------------------------------------------------------------------- *)
Lemma Qpos_neq0 L : 0 < L -> ~ L == 0.
Proof. intros H E. rewrite E in H. apply (Qlt_irrefl 0). exact H. Qed.

Lemma Qfloor_unique x n : inject_Z n <= x -> x < inject_Z (n + 1) -> Qfloor x = n.
Proof.
  intros Hlo Hhi.
  assert (H1 : (n <= Qfloor x)%Z).
  { rewrite <- (Qfloor_Z n). apply Qfloor_resp_le. exact Hlo. }
  assert (H2 : (Qfloor x < n + 1)%Z).
  { rewrite Zlt_Qlt. apply Qle_lt_trans with x; [apply Qfloor_le|exact Hhi]. }
  lia.
Qed.

Lemma Qfloor_add_Z x m : Qfloor (x + inject_Z m) = (Qfloor x + m)%Z.
Proof.
  apply Qfloor_unique.
  - rewrite inject_Z_plus. apply Qplus_le_l. apply Qfloor_le.
  - replace (Qfloor x + m + 1)%Z with ((Qfloor x + 1) + m)%Z by ring.
    rewrite inject_Z_plus. apply Qplus_lt_l. apply Qlt_floor.
Qed.

Lemma Qmod_comp x y L : x == y -> Qmod x L == Qmod y L.
Proof.
  intros H. unfold Qmod.
  assert (E : Qfloor (x / L) = Qfloor (y / L)) by (apply Qfloor_comp; rewrite H; reflexivity).
  rewrite E, H. reflexivity.
Qed.

Lemma Qmod_add_period x L m : 0 < L -> Qmod (x + inject_Z m * L) L == Qmod x L.
Proof.
  intros HL. unfold Qmod.
  assert (E : (x + inject_Z m * L) / L == x / L + inject_Z m) by (field; apply Qpos_neq0; exact HL).
  rewrite E, Qfloor_add_Z, inject_Z_plus. ring.
Qed.

Lemma wrap1_comp L d d' : d == d' -> wrap1 L d == wrap1 L d'.
Proof. intros H. unfold wrap1. rewrite (Qmod_comp (d + L / 2) (d' + L / 2)); [reflexivity|]. rewrite H. reflexivity. Qed.

(* core lemma: the wrap has period L *)
Lemma wrap1_add_period L d m : 0 < L -> wrap1 L (d + inject_Z m * L) == wrap1 L d.
Proof.
  intros HL. unfold wrap1.
  rewrite (Qmod_comp (d + inject_Z m * L + L / 2) (d + L / 2 + inject_Z m * L)) by ring.
  rewrite Qmod_add_period by exact HL. reflexivity.
Qed.

Lemma wrap1_add_L L d : 0 < L -> wrap1 L (d + L) == wrap1 L d.
Proof.
  intros HL. rewrite <- (wrap1_add_period L d 1 HL). apply wrap1_comp. ring.
Qed.

(* the wrapped difference lies in [-L/2, L/2) and differs from d by a whole number of periods *)
Lemma Qmod_range x L : 0 < L -> 0 <= Qmod x L /\ Qmod x L < L.
Proof.
  intros HL. unfold Qmod.
  pose proof (Qfloor_le (x / L)) as H1. pose proof (Qlt_floor (x / L)) as H2.
  rewrite inject_Z_plus in H2.
  assert (E : x == x / L * L) by (field; apply Qpos_neq0; exact HL).
  assert (E1 : inject_Z 1 == 1) by reflexivity.
  revert H1 H2. generalize (inject_Z (Qfloor (x / L))). intros n H1 H2.
  revert E H1 H2. generalize (x / L). intros q E H1 H2.
  split; nra.
Qed.

Lemma wrap1_range L d : 0 < L -> - (L / 2) <= wrap1 L d /\ wrap1 L d < L / 2.
Proof.
  intros HL. unfold wrap1. destruct (Qmod_range (d + L / 2) L HL) as [H1 H2].
  unfold Qdiv in *. change (/ 2) with (1 # 2) in *. split; lra.
Qed.

(* ---------------------------------------------------------------------------------------- *)
(* lists of rationals up to ==                                                               *)
(* ---------------------------------------------------------------------------------------- *)
Definition Qlist_eq : list Q -> list Q -> Prop := Forall2 Qeq.

Lemma Qlist_eq_refl l : Qlist_eq l l.
Proof. induction l; constructor; [reflexivity|assumption]. Qed.

Lemma sumsq_comp v v' : Qlist_eq v v' -> sumsq v == sumsq v'.
Proof.
  intros H. induction H as [|x y l l' Hxy _ IH]; simpl; [reflexivity|]. rewrite Hxy, IH. reflexivity.
Qed.

Lemma Qle_bool_comp x y x' y' : x == x' -> y == y' -> Qle_bool x y = Qle_bool x' y'.
Proof.
  intros Hx Hy. apply eq_true_iff_eq. rewrite !Qle_bool_iff, Hx, Hy. reflexivity.
Qed.

Lemma Qlt_bool_comp x y x' y' : x == x' -> y == y' -> Qlt_bool x y = Qlt_bool x' y'.
Proof. intros Hx Hy. unfold Qlt_bool. f_equal. apply Qle_bool_comp; assumption. Qed.

Lemma Qlt_bool_iff x y : Qlt_bool x y = true <-> x < y.
Proof.
  unfold Qlt_bool. rewrite negb_true_iff. split; intros H.
  - apply Qnot_le_lt. intros Hle. apply Qle_bool_iff in Hle. congruence.
  - destruct (Qle_bool y x) eqn:E; [|reflexivity]. apply Qle_bool_iff in E. lra.
Qed.

Lemma inside_comp g c c' r idx idx' :
  dist2 g c (cell_centre g idx) == dist2 g c' (cell_centre g idx') ->
  inside g c r idx = inside g c' r idx'.
Proof. intros H. unfold inside. f_equal. apply Qlt_bool_comp; [exact H|reflexivity]. Qed.

(* ---------------------------------------------------------------------------------------- *)
(* cell centres under index shifts                                                           *)
(* ---------------------------------------------------------------------------------------- *)
Lemma ncell_adisc a : (0 < ncell a)%Z -> inject_Z (ncell a) * adisc a == asize a.
Proof.
  intros HN. unfold adisc. assert (H : 0 < inject_Z (ncell a)) by (change 0 with (inject_Z 0); rewrite <- Zlt_Qlt; exact HN).
  field. apply Qpos_neq0. exact H.
Qed.

(* the centre of cell (i - k) mod N is the centre of cell i moved by -k cells and a whole number of periods *)
Lemma centre1_roll a i k : (0 < ncell a)%Z ->
  centre1 a ((i - k) mod ncell a) ==
  centre1 a i - inject_Z k * adisc a + inject_Z (- ((i - k) / ncell a)) * asize a.
Proof.
  intros HN. pose proof (ncell_adisc a HN) as HL.
  assert (E : ((i - k) mod ncell a = i - k - ncell a * ((i - k) / ncell a))%Z).
  { pose proof (Z.div_mod (i - k) (ncell a)). lia. }
  rewrite E. unfold centre1. rewrite <- HL.
  rewrite inject_Z_opp. unfold Zminus. rewrite !inject_Z_plus, !inject_Z_opp, inject_Z_mult. ring.
Qed.

(* one periodic axis: translating the centre by k cells = reading the cell k places back *)
Lemma diff1_roll a x i k : aper a = true -> (0 < ncell a)%Z -> alo a < ahi a ->
  diff1 a (x + inject_Z k * adisc a) (centre1 a i) == diff1 a x (centre1 a ((i - k) mod ncell a)).
Proof.
  intros Hp HN HL. unfold diff1. rewrite Hp.
  assert (HLpos : 0 < asize a) by (unfold asize; lra).
  rewrite (wrap1_comp (asize a) (centre1 a ((i - k) mod ncell a) - x)
             (centre1 a i - (x + inject_Z k * adisc a) + inject_Z (- ((i - k) / ncell a)) * asize a)).
  - rewrite wrap1_add_period by exact HLpos. reflexivity.
  - rewrite centre1_roll by exact HN. ring.
Qed.

Lemma diff1_period a x y m : aper a = true -> alo a < ahi a ->
  diff1 a (x + inject_Z m * asize a) y == diff1 a x y.
Proof.
  intros Hp HL. unfold diff1. rewrite Hp.
  assert (HLpos : 0 < asize a) by (unfold asize; lra).
  rewrite (wrap1_comp (asize a) (y - (x + inject_Z m * asize a)) (y - x + inject_Z (- m) * asize a)).
  - apply wrap1_add_period. exact HLpos.
  - rewrite inject_Z_opp. ring.
Qed.

(* ---------------------------------------------------------------------------------------- *)
(* induction over the axis list                                                              *)
(* ---------------------------------------------------------------------------------------- *)
Lemma diff_vec_roll g : forall ax a k c idx,
  nth_error g ax = Some a -> aper a = true -> (0 < ncell a)%Z -> alo a < ahi a ->
  Qlist_eq (diff_vec g (shift_at ax (inject_Z k * adisc a) c) (cell_centre g idx))
           (diff_vec g c (cell_centre g (roll_at g ax k idx))).
Proof.
  induction g as [|a0 g IH]; intros ax a k c idx Hnth Hp HN HL.
  - destruct ax; discriminate.
  - destruct ax as [|ax].
    + simpl in Hnth. injection Hnth as ->.
      destruct c as [|x c]; [simpl; constructor|].
      destruct idx as [|i idx]; [simpl; constructor|].
      simpl. constructor; [apply diff1_roll; assumption|apply Qlist_eq_refl].
    + simpl in Hnth.
      destruct c as [|x c]; [simpl; constructor|].
      destruct idx as [|i idx]; [simpl; constructor|].
      simpl. constructor; [reflexivity|]. apply IH; assumption.
Qed.

Lemma diff_vec_period g : forall ax a m c q,
  nth_error g ax = Some a -> aper a = true -> alo a < ahi a ->
  Qlist_eq (diff_vec g (shift_at ax (inject_Z m * asize a) c) q) (diff_vec g c q).
Proof.
  induction g as [|a0 g IH]; intros ax a m c q Hnth Hp HL.
  - destruct ax; discriminate.
  - destruct ax as [|ax].
    + simpl in Hnth. injection Hnth as ->.
      destruct c as [|x c]; [simpl; constructor|].
      destruct q as [|y q]; [simpl; constructor|].
      simpl. constructor; [apply diff1_period; assumption|apply Qlist_eq_refl].
    + simpl in Hnth.
      destruct c as [|x c]; [simpl; constructor|].
      destruct q as [|y q]; [simpl; constructor|].
      simpl. constructor; [reflexivity|]. apply IH; assumption.
Qed.

(* cellwise: the squared distance rolls *)
Lemma dist2_roll g ax a k c idx :
  nth_error g ax = Some a -> aper a = true -> (0 < ncell a)%Z -> alo a < ahi a ->
  dist2 g (shift_at ax (inject_Z k * adisc a) c) (cell_centre g idx) ==
  dist2 g c (cell_centre g (roll_at g ax k idx)).
Proof. intros. unfold dist2. apply sumsq_comp, diff_vec_roll; assumption. Qed.

Lemma inside_roll g ax a k c r idx :
  nth_error g ax = Some a -> aper a = true -> (0 < ncell a)%Z -> alo a < ahi a ->
  inside g (shift_at ax (inject_Z k * adisc a) c) r idx = inside g c r (roll_at g ax k idx).
Proof. intros. apply inside_comp, dist2_roll; assumption. Qed.

Lemma mask_roll g ax a k c r :
  nth_error g ax = Some a -> aper a = true -> (0 < ncell a)%Z -> alo a < ahi a ->
  mask_sphere g (shift_at ax (inject_Z k * adisc a) c) r = rolled_mask_sphere g ax k c r.
Proof.
  intros. unfold mask_sphere, rolled_mask_sphere. apply map_ext. intros idx. apply inside_roll; assumption.
Qed.

Lemma dist2_period g ax a m c q :
  nth_error g ax = Some a -> aper a = true -> alo a < ahi a ->
  dist2 g (shift_at ax (inject_Z m * asize a) c) q == dist2 g c q.
Proof. intros. unfold dist2. apply sumsq_comp, diff_vec_period; assumption. Qed.

Lemma inside_period g ax a m c r idx :
  nth_error g ax = Some a -> aper a = true -> alo a < ahi a ->
  inside g (shift_at ax (inject_Z m * asize a) c) r idx = inside g c r idx.
Proof. intros. apply inside_comp, dist2_period; assumption. Qed.

Lemma mask_period g ax a m c r :
  nth_error g ax = Some a -> aper a = true -> alo a < ahi a ->
  mask_sphere g (shift_at ax (inject_Z m * asize a) c) r = mask_sphere g c r.
Proof. intros. unfold mask_sphere. apply map_ext. intros idx. apply inside_period; assumption. Qed.

(* the rolled index is again a cell of the grid, and rolling back returns the cell *)
Lemma roll_in_range g : forall ax a k idx,
  nth_error g ax = Some a -> (0 < ncell a)%Z -> in_range g idx -> in_range g (roll_at g ax k idx).
Proof.
  induction g as [|a0 g IH]; intros ax a k idx Hnth HN Hin.
  - destruct ax; discriminate.
  - destruct idx as [|i idx]; [destruct Hin|]. destruct Hin as [Hi Hin].
    destruct ax as [|ax]; simpl in *.
    + injection Hnth as ->. split; [apply Z.mod_pos_bound; exact HN|exact Hin].
    + split; [exact Hi|]. apply IH with a; assumption.
Qed.

Lemma roll_inverse g : forall ax a k idx,
  nth_error g ax = Some a -> (0 < ncell a)%Z -> in_range g idx ->
  roll_at g ax (- k) (roll_at g ax k idx) = idx.
Proof.
  induction g as [|a0 g IH]; intros ax a k idx Hnth HN Hin.
  - destruct ax; discriminate.
  - destruct idx as [|i idx]; [destruct Hin|]. destruct Hin as [Hi Hin].
    destruct ax as [|ax]; simpl in *.
    + injection Hnth as ->. f_equal.
      replace ((i - k) mod ncell a - - k)%Z with ((i - k) mod ncell a + k)%Z by ring.
      rewrite Zplus_mod_idemp_l. replace (i - k + k)%Z with i by ring. apply Z.mod_small. exact Hi.
    + f_equal. apply IH with a; assumption.
Qed.

(* every cell listed by all_cells is a cell of the grid (so the statements above cover the image) *)
Lemma zrange_in n : forall s i, In i (zrange n s) -> (s <= i < s + Z.of_nat n)%Z.
Proof.
  induction n as [|n IH]; intros s i Hin; simpl in Hin; [destruct Hin|].
  destruct Hin as [<-|Hin]; [lia|]. apply IH in Hin. lia.
Qed.

Lemma all_cells_in_range g idx : In idx (all_cells (gshape g)) -> in_range g idx.
Proof.
  revert idx. induction g as [|a g IH]; intros idx Hin; simpl in Hin.
  - destruct Hin as [<-|[]]. exact I.
  - apply in_flat_map in Hin. destruct Hin as [i [Hi Hin]].
    apply in_map_iff in Hin. destruct Hin as [rest [<- Hrest]].
    simpl. split; [|apply IH; exact Hrest].
    apply zrange_in in Hi. destruct (ncell a) as [|p|p] eqn:En.
    + simpl in Hi. lia.
    + rewrite Z2Nat.id in Hi by lia. lia.
    + simpl in Hi. lia.
Qed.

(* ---------------------------------------------------------------------------------------- *)
(* sharp emulsion mask: cellwise OR, independent of the droplet order                        *)
(* ---------------------------------------------------------------------------------------- *)
Lemma inside_any_iff g ds idx :
  inside_any g ds idx = true <-> exists d, In d ds /\ inside g (fst d) (snd d) idx = true.
Proof. unfold inside_any. apply existsb_exists. Qed.

Lemma inside_any_perm g ds ds' idx :
  (forall d, In d ds <-> In d ds') -> inside_any g ds idx = inside_any g ds' idx.
Proof.
  intros H. apply eq_true_iff_eq. rewrite !inside_any_iff.
  split; intros [d [Hin Hd]]; exists d; (split; [apply H; exact Hin|exact Hd]).
Qed.

Lemma mask_emulsion_perm g ds ds' :
  (forall d, In d ds <-> In d ds') -> mask_emulsion g ds = mask_emulsion g ds'.
Proof. intros H. unfold mask_emulsion. apply map_ext. intros idx. apply inside_any_perm. exact H. Qed.

Lemma mask_emulsion_single g c r : mask_emulsion g [(c, r)] = mask_sphere g c r.
Proof.
  unfold mask_emulsion, mask_sphere. apply map_ext. intros idx. unfold inside_any. simpl.
  apply orb_false_r.
Qed.

(* a negative radius (rejected by the constructor anyway) and radius 0 render nothing *)
Lemma sumsq_nonneg v : 0 <= sumsq v.
Proof. induction v as [|x v IH]; simpl; [lra|]. nra. Qed.

Lemma inside_radius_0 g c r idx : r <= 0 -> inside g c r idx = false.
Proof.
  intros Hr. unfold inside. destruct (Qle_bool 0 r) eqn:E; [|reflexivity]. simpl.
  apply Qle_bool_iff in E. assert (E0 : r == 0) by lra.
  destruct (Qlt_bool (dist2 g c (cell_centre g idx)) (r * r)) eqn:El; [|reflexivity].
  apply Qlt_bool_iff in El. pose proof (sumsq_nonneg (diff_vec g c (cell_centre g idx))) as Hs.
  unfold dist2 in El. rewrite E0 in El. lra.
Qed.

Lemma inside_iff g c r idx :
  inside g c r idx = true <-> 0 <= r /\ dist2 g c (cell_centre g idx) < r * r.
Proof. unfold inside. rewrite andb_true_iff, Qle_bool_iff, Qlt_bool_iff. reflexivity. Qed.

(* ---------------------------------------------------------------------------------------- *)
(* the angle computation is defined for every cell                                           *)
(* ---------------------------------------------------------------------------------------- *)
Lemma cos_theta_total dz dist : 0 <= dist -> dz * dz <= dist * dist ->
  exists v, cos_theta dz dist = Some v /\ - (1) <= v /\ v <= 1.
Proof.
  intros Hd Hz. unfold cos_theta. destruct (Qlt_bool 0 dist) eqn:E.
  - apply Qlt_bool_iff in E. unfold Qdiv_opt.
    destruct (Qeq_bool dist 0) eqn:E0; [apply Qeq_bool_iff in E0; lra|].
    exists (dz / dist). split; [reflexivity|].
    assert (Hb : - dist <= dz /\ dz <= dist) by (split; nra).
    split.
    + apply Qle_shift_div_l; [exact E|]. lra.
    + apply Qle_shift_div_r; [exact E|]. lra.
  - exists 1. split; [reflexivity|]. split; lra.
Qed.

(* the defect this obligation exposed: without the guard the centre cell has no angle *)
Lemma cos_theta_unguarded_undefined : cos_theta_unguarded 0 0 = None.
Proof. reflexivity. Qed.

Lemma Qsign_range x : (-1 <= Qsign x <= 1)%Z.
Proof. unfold Qsign. destruct (Qnum x); simpl; lia. Qed.

Lemma polar_angles_total diff dist : (1 <= length diff <= 3)%nat ->
  0 <= dist -> dist * dist == sumsq diff ->
  exists a, polar_angles diff dist = Some a /\ angles_ok a.
Proof.
  intros Hlen Hd Hs.
  destruct diff as [|dx [|dy [|dz [|w rest]]]]; simpl in Hlen; try lia.
  - exists (Sign1 (Qsign dx)). split; [reflexivity|apply Qsign_range].
  - exists (Polar2 dy dx). split; [reflexivity|exact I].
  - simpl in Hs.
    destruct (cos_theta_total dz dist Hd) as [v [Hv Hr]]; [nra|].
    exists (Spher3 v dy dx). unfold polar_angles. rewrite Hv. split; [reflexivity|exact Hr].
Qed.

Lemma diff_vec_length g : forall p q, length p = length g -> length q = length g ->
  length (diff_vec g p q) = length g.
Proof.
  induction g as [|a g IH]; intros p q Hp Hq; destruct p, q; simpl in *; try discriminate; try reflexivity.
  f_equal. apply IH; lia.
Qed.

Lemma cell_centre_length g : forall idx, length idx = length g -> length (cell_centre g idx) = length g.
Proof.
  induction g as [|a g IH]; intros idx H; destruct idx; simpl in *; try discriminate; try reflexivity.
  f_equal. apply IH; lia.
Qed.

Lemma angle_total_grid g c idx dist : (1 <= length g <= 3)%nat ->
  length c = length g -> length idx = length g ->
  0 <= dist -> dist * dist == dist2 g c (cell_centre g idx) ->
  exists a, polar_angles (diff_vec g c (cell_centre g idx)) dist = Some a /\ angles_ok a.
Proof.
  intros Hg Hc Hi Hd Hs. apply polar_angles_total; [|exact Hd|exact Hs].
  rewrite diff_vec_length; [exact Hg|exact Hc|apply cell_centre_length; exact Hi].
Qed.

(* in particular the cell whose centre coincides with the droplet centre (dist = 0) has angles *)
Lemma angle_total_centre g c idx : (1 <= length g <= 3)%nat ->
  length c = length g -> length idx = length g ->
  dist2 g c (cell_centre g idx) == 0 ->
  exists a, polar_angles (diff_vec g c (cell_centre g idx)) 0 = Some a /\ angles_ok a.
Proof.
  intros Hg Hc Hi H0. apply angle_total_grid; try assumption; [lra|]. rewrite H0. ring.
Qed.
