(* The periodic metric of Model/Grid.v (py-pde's CartesianGrid.distance) is invariant under moving a
   point by one period: droplets keep their distance -- hence their identity under both matching
   methods -- across a periodic boundary. *)
From Coq Require Import ZArith QArith Qround Lia List.
Import ListNotations.
From PD Require Import Model.Grid.
Local Open Scope Q_scope.

Lemma Qfloor_unique (q : Q) (z : Z) : inject_Z z <= q -> q < inject_Z (z + 1) -> Qfloor q = z.
Proof.
  intros Hle Hlt.
  assert (H1 := Qfloor_le q). assert (H2 := Qlt_floor q).
  assert (A : (z < Qfloor q + 1)%Z).
  { rewrite Zlt_Qlt. eapply Qle_lt_trans; eauto. }
  assert (B : (Qfloor q < z + 1)%Z).
  { rewrite Zlt_Qlt. eapply Qle_lt_trans; eauto. }
  lia.
Qed.

Lemma Qfloor_plus1 (q : Q) : Qfloor (q + 1) = (Qfloor q + 1)%Z.
Proof.
  apply Qfloor_unique.
  - rewrite inject_Z_plus. apply Qplus_le_compat; [apply Qfloor_le|apply Qle_refl].
  - replace (Qfloor q + 1 + 1)%Z with ((Qfloor q + 1) + 1)%Z by lia.
    rewrite (inject_Z_plus (Qfloor q + 1) 1).
    apply Qplus_lt_le_compat; [apply Qlt_floor|apply Qle_refl].
Qed.

Lemma Qmod_plus_period x L : ~ L == 0 -> Qmod (x + L) L == Qmod x L.
Proof.
  intros HL. unfold Qmod.
  assert (E : Qfloor ((x + L) / L) = (Qfloor (x / L) + 1)%Z).
  { rewrite <- Qfloor_plus1. apply Qfloor_comp. field. exact HL. }
  rewrite E, inject_Z_plus. simpl. ring.
Qed.

Lemma wrap1_plus_period L d : ~ L == 0 -> wrap1 L (d + L) == wrap1 L d.
Proof.
  intros HL. unfold wrap1.
  assert (E : Qmod (d + L + L / 2) L == Qmod (d + L / 2) L).
  { rewrite <- (Qmod_plus_period (d + L / 2) L HL). unfold Qmod.
    assert (F : Qfloor ((d + L + L / 2) / L) = Qfloor ((d + L / 2 + L) / L)).
    { apply Qfloor_comp. field. exact HL. }
    rewrite F. ring. }
  rewrite E. reflexivity.
Qed.

(* difference along one periodic axis: moving either point by the period changes nothing *)
Lemma diff1_shift_period a p q :
  aper a = true -> ~ asize a == 0 -> diff1 a p (q + asize a) == diff1 a p q.
Proof.
  intros Hp HL. unfold diff1. rewrite Hp.
  assert (E : wrap1 (asize a) (q + asize a - p) == wrap1 (asize a) (q - p + asize a)).
  { unfold wrap1, Qmod.
    assert (F : Qfloor ((q + asize a - p + asize a / 2) / asize a)
                = Qfloor ((q - p + asize a + asize a / 2) / asize a)).
    { apply Qfloor_comp. field. exact HL. }
    rewrite F. ring. }
  rewrite E. apply wrap1_plus_period. exact HL.
Qed.

(* one-dimensional periodic grid: squared distance invariant under a shift by the period *)
Lemma pdist_shift_invariant_1d a p q :
  aper a = true -> ~ asize a == 0 -> dist2 [a] [p] [q + asize a] == dist2 [a] [p] [q].
Proof.
  intros Hp HL. unfold dist2, sumsq. simpl. rewrite (diff1_shift_period a p q Hp HL). reflexivity.
Qed.
