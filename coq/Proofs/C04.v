(* C04: the theorems about `refine` (Model/Refine.v), relative to the optimiser specification `lsq_spec`. *)
From Coq Require Import QArith Qround ZArith List Bool Arith Lia Lra Psatz.
Import ListNotations.
From PD Require Import Model.Grid Gen.Gen_refine Model.Refine Proofs.RefineVec Proofs.Render Proofs.Refine.
Local Open Scope Q_scope.

(* ---------------------------------------------------------------------------------------- *)
(* inversion of `refine` and of `unflat`                                                     *)
(* ---------------------------------------------------------------------------------------- *)
Lemma unflat_inv c dim d r0 : unflat c dim d = Some r0 ->
  d_cls r0 = c /\ d_pos r0 = firstn dim d /\ exists w, d_width r0 = Some w /\ skipn dim d = d_rad r0 :: w :: d_amp r0.
Proof.
  unfold unflat. destruct (skipn dim d) as [|r [|w amp]] eqn:E; try discriminate.
  intros H. injection H as <-. simpl. repeat split. exists w. split; reflexivity.
Qed.

Lemma prepare_drop g st vmin_o vmax_o adjust c p : prepare g st vmin_o vmax_o adjust c = inr p ->
  p_drop p = promoted c /\ p_dim p = length (d_pos (promoted c)) /\ length (d_pos (promoted c)) = g_dim g.
Proof.
  unfold prepare. destruct (Nat.eqb (length (d_pos (promoted c))) (g_dim g)) eqn:Ed; simpl negb; cbv iota; [|discriminate].
  apply Nat.eqb_eq in Ed.
  destruct (data_bounds _ _ _ _) as [l h]. destruct (fit_bounds _ l h) as [b0 b1].
  destruct (levels vmin_o vmax_o st) as [vmin vmax]. unfold normalised_levels. cbv iota beta.
  destruct adjust; intros H; injection H as <-; simpl; repeat split; exact Ed.
Qed.

Section Main.
  Variable lsq : (list Q -> list Q) -> list Q -> list ext -> list ext -> list Q.
  Variable hyp : list Q -> Q.
  Variable dev : list Q -> Q -> Q -> list Q.

  Lemma refine_inv g st vmin_o vmax_o adjust c r : refine lsq hyp dev g st vmin_o vmax_o adjust c = ROk r ->
    exists p d r0, prepare g st vmin_o vmax_o adjust c = inr p /\ fitted lsq dev adjust p = inr d /\
      unflat (d_cls (p_drop p)) (p_dim p) d = Some r0 /\
      r = {| d_cls := d_cls r0; d_pos := final_pos hyp g (d_pos r0); d_rad := d_rad r0;
             d_width := d_width r0; d_amp := d_amp r0 |}.
  Proof.
    unfold refine. destruct (prepare g st vmin_o vmax_o adjust c) as [e|p] eqn:Ep; [discriminate|].
    destruct (fitted lsq dev adjust p) as [e|d] eqn:Ef; [discriminate|].
    unfold finish. destruct (unflat (d_cls (p_drop p)) (p_dim p) d) as [r0|] eqn:Eu; [|discriminate].
    intros H. injection H as <-. exists p, d, r0. repeat split; assumption.
  Qed.

  (* ---- class ------------------------------------------------------------------------------ *)
  Theorem refine_class g st vmin_o vmax_o adjust c r :
    refine lsq hyp dev g st vmin_o vmax_o adjust c = ROk r ->
    d_cls r = promote (d_cls c) /\ is_diffuse (d_cls r) = true /\ exists w, d_width r = Some w.
  Proof.
    intros H. destruct (refine_inv _ _ _ _ _ _ _ H) as (p & d & r0 & Ep & Ef & Eu & ->).
    destruct (unflat_inv _ _ _ _ Eu) as (Ec & _ & w & Ew & _).
    destruct (prepare_drop _ _ _ _ _ _ _ Ep) as (Edrop & _).
    destruct (promoted_class c) as [E1 E2]. simpl. rewrite Ec, Edrop.
    split; [exact E1|]. split; [exact E2|]. exists w. exact Ew.
  Qed.

  (* ---- bounds ----------------------------------------------------------------------------- *)
  Theorem refine_bounds g st vmin_o vmax_o adjust c r : lsq_spec lsq -> wf c ->
    refine lsq hyp dev g st vmin_o vmax_o adjust c = ROk r ->
    0 <= d_rad r /\ (exists w, d_width r = Some w /\ 0 <= w) /\
    Forall (fun a => -1 <= a /\ a <= 1) (d_amp r) /\ length (d_amp r) = length (d_amp (promoted c)).
  Proof.
    intros Hspec Hwf H. destruct (refine_inv _ _ _ _ _ _ _ H) as (p & d & r0 & Ep & Ef & Eu & ->).
    destruct (unflat_inv _ _ _ _ Eu) as (_ & _ & w & Ew & Esk).
    destruct (fitted_char lsq hyp dev g st vmin_o vmax_o adjust c p Hwf Ep d Hspec Ef) as (Hlen & _ & Hm).
    destruct (prepare_shape g st vmin_o vmax_o adjust c p Hwf Ep) as (_ & _ & _ & Hdim & _ & Hflat & Hfree & _).
    set (dim := length (d_pos (promoted c))) in *. set (modes := length (d_amp (promoted c))) in *.
    assert (Hd : (dim <= length d)%nat).
    { rewrite Hlen, Hflat, app_length. fold dim. lia. }
    rewrite <- (firstn_skipn dim d) in Hm. rewrite Hfree in Hm.
    apply within_masked_app in Hm.
    - rewrite Hdim in Esk. rewrite Esk in Hm. simpl in Hm. destruct Hm as [H1 [H2 H3]].
      destruct (H1 eq_refl) as [Hr _]. destruct (H2 eq_refl) as [Hw _].
      apply Qle_bool_iff in Hr. apply Qle_bool_iff in Hw. simpl.
      split; [exact Hr|]. split; [exists w; split; [exact Ew|exact Hw]|].
      split; [apply (within_masked_tail modes); exact H3|].
      apply (within_masked_nil_tail modes _ _ _ H3).
    - rewrite repeat_length. symmetry. apply free_mask_length.
    - rewrite firstn_length, free_mask_length. lia.
    - rewrite repeat_length. symmetry. apply free_mask_length.
  Qed.

  (* ---- grid arities ------------------------------------------------------------------------ *)
  Lemma norm_point_char g c : norm_point g c = normalize (g_axes g) c.
  Proof. reflexivity. Qed.

  Lemma normalize_length gr : forall v, length v = length gr -> length (normalize gr v) = length gr.
  Proof.
    induction gr as [|a gr IH]; intros v H; destruct v as [|x v]; try discriminate; [reflexivity|].
    simpl. f_equal. apply IH. simpl in H. lia.
  Qed.

  Lemma normalised_length g pos : wf_grid g -> length pos = g_dim g ->
    length (to_cart g (norm_point g (to_grid hyp g pos))) = length pos.
  Proof.
    intros Hg Hl. rewrite norm_point_char. unfold to_cart, to_grid, wf_grid, g_dim in *.
    destruct (g_family g).
    - rewrite normalize_length by exact Hl. symmetry. exact Hl.
    - destruct (g_axes g) as [|a [|b gr]]; try discriminate. simpl. rewrite Hl. reflexivity.
    - destruct (g_axes g) as [|a [|b gr]]; try discriminate. simpl. rewrite Hl. reflexivity.
    - destruct (g_axes g) as [|a [|b [|c gr]]]; try discriminate.
      destruct pos as [|x [|y [|z [|? ?]]]]; try discriminate. reflexivity.
  Qed.

  (* ---- constrained coordinates -------------------------------------------------------------- *)
  Theorem refine_constrained_untouched g st vmin_o vmax_o adjust c r : wf c -> wf_grid g ->
    refine lsq hyp dev g st vmin_o vmax_o adjust c = ROk r ->
    forall i, In i (constraints g) -> nth_error (d_pos r) i = nth_error (d_pos c) i.
  Proof.
    intros Hwf Hg H i Hi. destruct (refine_inv _ _ _ _ _ _ _ H) as (p & d & r0 & Ep & Ef & Eu & ->).
    destruct (unflat_inv _ _ _ _ Eu) as (_ & Epos & _).
    destruct (prepare_shape g st vmin_o vmax_o adjust c p Hwf Ep) as (Hdimg & _ & _ & Hdim & _ & Hflat & Hfree & _).
    set (dim := length (d_pos (promoted c))) in *.
    pose proof (constraints_lt g) as Hlt. rewrite Forall_forall in Hlt. specialize (Hlt i Hi).
    unfold fitted in Ef. destruct (lsq_precondition (p_x0 p) (p_lo p) (p_hi p)); [discriminate|].
    pose proof (free_flat_length g st vmin_o vmax_o adjust c p Hwf Ep) as Hfl.
    assert (Es : scatter (p_free p) (p_flat p)
                   (answer_droplet_part adjust (lsq (fit_function dev adjust p) (p_x0 p) (p_lo p) (p_hi p))) = Some d).
    { rewrite <- (writeback_char g st vmin_o vmax_o adjust c p Ep). destruct (if adjust then _ else _); [injection Ef as <-; reflexivity|discriminate]. }
    assert (Hlen : length d = length (p_flat p)) by (eapply scatter_length; eauto).
    assert (Hkeep : nth_error d i = nth_error (p_flat p) i).
    { eapply scatter_keeps; eauto. rewrite Hfree. rewrite nth_error_app1 by (rewrite free_mask_length; lia).
      rewrite Hdimg. apply free_mask_constrained. exact Hi. }
    simpl. unfold final_pos, final_position.
    assert (Hd : (dim <= length d)%nat) by (rewrite Hlen, Hflat, app_length; fold dim; lia).
    assert (Lold : length (d_pos r0) = dim) by (rewrite Epos, Hdim, firstn_length; lia).
    rewrite nth_error_copy_many by (rewrite normalised_length; [reflexivity|exact Hg|congruence]).
    assert (Ex : existsb (Nat.eqb i) (constraints g) = true).
    { apply existsb_exists. exists i. split; [exact Hi|apply Nat.eqb_refl]. }
    rewrite Ex, Epos, Hdim. rewrite nth_error_firstn_lt by lia. rewrite Hkeep, Hflat.
    rewrite nth_error_app1 by (fold dim; lia). rewrite (proj1 (promoted_pos c)). reflexivity.
  Qed.

  (* ---- periodic coordinates end inside the box ------------------------------------------------ *)
  Lemma norm1_in_box a x : aper a = true -> alo a < ahi a -> alo a <= norm1 a x /\ norm1 a x < ahi a.
  Proof.
    intros Hp HL. unfold norm1. rewrite Hp.
    assert (HLpos : 0 < asize a) by (unfold asize; lra).
    destruct (Qmod_range (x - alo a) (asize a) HLpos) as [H1 H2]. unfold asize in *. split; lra.
  Qed.

  Lemma nth_error_normalize gr : forall v i a x, nth_error gr i = Some a -> nth_error v i = Some x ->
    nth_error (normalize gr v) i = Some (norm1 a x).
  Proof.
    induction gr as [|a0 gr IH]; intros v i a x Ha Hx; [destruct i; discriminate|].
    destruct v as [|x0 v]; [destruct i; discriminate|].
    destruct i as [|i]; simpl in *; [injection Ha as <-; injection Hx as <-; reflexivity|]. eapply IH; eauto.
  Qed.

  Theorem refine_position_normalised g st vmin_o vmax_o adjust c r : wf c -> wf_grid g ->
    refine lsq hyp dev g st vmin_o vmax_o adjust c = ROk r ->
    (g_family g = FCart -> forall i a, nth_error (g_axes g) i = Some a -> aper a = true -> alo a < ahi a ->
       exists x, nth_error (d_pos r) i = Some x /\ alo a <= x /\ x < ahi a) /\
    (g_family g = FCyl -> forall a, nth_error (g_axes g) 1 = Some a -> aper a = true -> alo a < ahi a ->
       exists z, nth_error (d_pos r) 2 = Some z /\ alo a <= z /\ z < ahi a).
  Proof.
    intros Hwf Hg H. destruct (refine_inv _ _ _ _ _ _ _ H) as (p & d & r0 & Ep & Ef & Eu & ->).
    destruct (unflat_inv _ _ _ _ Eu) as (_ & Epos & _).
    destruct (prepare_shape g st vmin_o vmax_o adjust c p Hwf Ep) as (Hdimg & _ & _ & Hdim & _ & Hflat & _).
    pose proof (fitted_inr_length lsq dev g st vmin_o vmax_o adjust c p Hwf Ep d Ef) as Hlen.
    set (dim := length (d_pos (promoted c))) in *.
    assert (Hd : (dim <= length d)%nat) by (rewrite Hlen, Hflat, app_length; fold dim; lia).
    assert (Lold : length (d_pos r0) = g_dim g) by (rewrite Epos, Hdim, firstn_length; lia).
    cbn [d_pos]. unfold final_pos, final_position. split.
    - intros Hf i a Ha Hper HL.
      assert (Hi : (i < length (g_axes g))%nat) by (apply nth_error_Some; congruence).
      assert (Hdg : g_dim g = length (g_axes g)) by (unfold g_dim; rewrite Hf; reflexivity).
      destruct (nth_error (d_pos r0) i) as [x|] eqn:Ex; [|apply nth_error_None in Ex; lia].
      exists (norm1 a x). split; [|apply norm1_in_box; assumption].
      rewrite nth_error_copy_many by (rewrite normalised_length; [reflexivity|exact Hg|exact Lold]).
      unfold constraints. rewrite Hf. simpl existsb. cbv iota.
      rewrite norm_point_char. unfold to_cart, to_grid. rewrite Hf. eapply nth_error_normalize; eauto.
    - intros Hf a Ha Hper HL.
      assert (Hdg : g_dim g = 3%nat) by (unfold g_dim; rewrite Hf; reflexivity).
      unfold wf_grid in Hg. rewrite Hf in Hg.
      destruct (g_axes g) as [|ar [|az [|? ?]]] eqn:Eax; try discriminate. simpl in Ha. injection Ha as <-.
      destruct (d_pos r0) as [|x [|y [|z [|? ?]]]] eqn:Er0; try (simpl in Lold; lia).
      exists (norm1 az z). split; [|apply norm1_in_box; assumption].
      rewrite nth_error_copy_many.
      + unfold constraints. rewrite Hf. simpl existsb. cbv iota.
        rewrite norm_point_char. unfold to_cart, to_grid. rewrite Hf, Eax. reflexivity.
      + rewrite norm_point_char. unfold to_cart, to_grid. rewrite Hf, Eax. reflexivity.
  Qed.

  (* ---- start feasibility, totality -------------------------------------------------------------- *)
  (* for every valid candidate and every intensity option the optimiser is reached with lo < hi and
     lo <= x0 <= hi; with fitted intensities exactly when the effective levels satisfy vmin < vmax *)
  Theorem refine_start_feasible g st vmin_o vmax_o adjust c p : wf c -> valid g c ->
    prepare g st vmin_o vmax_o adjust c = inr p ->
    (adjust = false \/ p_vmin p < p_vmax p) ->
    lsq_precondition (p_x0 p) (p_lo p) (p_hi p) = None /\
    within (p_lo p) (p_x0 p) (p_hi p) = true /\ strict (p_lo p) (p_hi p) = true.
  Proof.
    intros Hwf Hv Ep Hlev.
    assert (Hpre : lsq_precondition (p_x0 p) (p_lo p) (p_hi p) = None).
    { apply (start_feasible g st vmin_o vmax_o adjust c p Hwf Ep Hv).
      intros Ha. destruct Hlev as [Hl|Hl]; [congruence|exact Hl]. }
    split; [exact Hpre|]. unfold lsq_precondition in Hpre.
    destruct (negb _); [discriminate|]. destruct (strict (p_lo p) (p_hi p)); [|discriminate].
    destruct (within (p_lo p) (p_x0 p) (p_hi p)); [|discriminate]. split; reflexivity.
  Qed.

  Theorem refine_degenerate_range g st vmin_o vmax_o c p : wf c ->
    prepare g st vmin_o vmax_o true c = inr p -> ~ p_vmin p < p_vmax p ->
    refine lsq hyp dev g st vmin_o vmax_o true c = RErr EBoundsNotStrict.
  Proof.
    intros Hwf Ep Hn. unfold refine. rewrite Ep. unfold fitted.
    rewrite (degenerate_range_rejected g st vmin_o vmax_o true c p Hwf Ep eq_refl Hn). reflexivity.
  Qed.

  (* what `prepare` needs: matching dimension *)
  Lemma prepare_ok g st vmin_o vmax_o adjust c : length (d_pos c) = g_dim g ->
    exists p, prepare g st vmin_o vmax_o adjust c = inr p.
  Proof.
    intros Hd. unfold prepare. rewrite (proj1 (promoted_pos c)), Hd, Nat.eqb_refl. simpl negb. cbv iota.
    destruct (data_bounds _ _ _ _) as [l h]. destruct (fit_bounds _ l h) as [b0 b1].
    destruct (levels vmin_o vmax_o st) as [vmin vmax]. unfold normalised_levels. cbv iota beta.
    destruct adjust; eexists; reflexivity.
  Qed.

  Theorem refine_ok g st vmin_o vmax_o adjust c : lsq_spec lsq -> wf c -> valid g c ->
    length (d_pos c) = g_dim g ->
    (adjust = false \/ level_min vmin_o st < level_max vmax_o st) ->
    exists r, refine lsq hyp dev g st vmin_o vmax_o adjust c = ROk r.
  Proof.
    intros Hspec Hwf Hv Hd Hlev.
    destruct (prepare_ok g st vmin_o vmax_o adjust c Hd) as [p Ep].
    destruct (prepare_shape g st vmin_o vmax_o adjust c p Hwf Ep) as (_ & El' & _ & Hdim & _ & Hflat & _).
    destruct El' as (vmin0 & vmax0 & El' & Esc & Evmin & Evmax & _).
    unfold levels in El'. injection El' as E1 E2. rewrite E1, E2 in Hlev.
    assert (Hlev' : adjust = false \/ p_vmin p < p_vmax p).
    { destruct Hlev as [H|H]; [left; exact H|right]. rewrite Evmin, Evmax. apply div_scale_lt; [|exact H].
      rewrite Esc. apply level_scale_pos. }
    clear Hlev. rename Hlev' into Hlev.
    destruct (refine_start_feasible g st vmin_o vmax_o adjust c p Hwf Hv Ep Hlev) as (Hpre & _).
    destruct (fitted_ok lsq dev g st vmin_o vmax_o adjust c p Hwf Ep Hspec Hpre) as [d Ed].
    unfold refine. rewrite Ep, Ed. unfold finish.
    pose proof (fitted_inr_length lsq dev g st vmin_o vmax_o adjust c p Hwf Ep d Ed) as Hlen.
    unfold unflat. destruct (skipn (p_dim p) d) as [|r0 [|w0 amp]] eqn:Es.
    - exfalso. assert (L : length (skipn (p_dim p) d) = 0%nat) by (rewrite Es; reflexivity).
      rewrite skipn_length, Hlen, Hflat, app_length, Hdim in L. simpl in L. lia.
    - exfalso. assert (L : length (skipn (p_dim p) d) = 1%nat) by (rewrite Es; reflexivity).
      rewrite skipn_length, Hlen, Hflat, app_length, Hdim in L. simpl in L. lia.
    - eexists; reflexivity.
  Qed.

  (* ---- cost ------------------------------------------------------------------------------------------ *)
  (* data vector of the returned droplet *)
  Definition flat_of (r : droplet) : list Q :=
    flat (d_pos r) (d_rad r) (match d_width r with Some w => w | None => 0 end) (d_amp r).

  (* the rendered field, hence the deviation, does not change when the position is normalised
     (premise: periodic images of a droplet render identically, C03 render_periodic_image; discharged for
     Cartesian grids by `cart_final_pos_diff` below when dev depends on the position through the grid's
     difference vectors only) *)
  Definition dev_normalisation_invariant (g : rgrid) : Prop :=
    forall pos rest a b, length pos = g_dim g -> dev (final_pos hyp g pos ++ rest) a b = dev (pos ++ rest) a b.

  Theorem refine_cost_le g st vmin_o vmax_o adjust c r p : lsq_spec lsq -> wf c ->
    dev_normalisation_invariant g ->
    prepare g st vmin_o vmax_o adjust c = inr p ->
    refine lsq hyp dev g st vmin_o vmax_o adjust c = ROk r ->
    exists vminf vrngf,
      sumsq (dev (flat_of r) vminf vrngf) <= sumsq (dev (p_flat p) (p_vmin p) (p_vrng p)) /\
      (adjust = false -> vminf = p_vmin p /\ vrngf = p_vrng p).
  Proof.
    intros Hspec Hwf Hinv Ep H. destruct (refine_inv _ _ _ _ _ _ _ H) as (p' & d & r0 & Ep' & Ef & Eu & ->).
    rewrite Ep in Ep'. injection Ep' as <-.
    destruct (unflat_inv _ _ _ _ Eu) as (_ & Epos & w & Ew & Esk).
    destruct (fitted_cost lsq dev g st vmin_o vmax_o adjust c p Hwf Ep d Hspec Ef) as (vminf & vrngf & Hc & Hlv).
    exists vminf, vrngf. split; [|exact Hlv].
    destruct (prepare_shape g st vmin_o vmax_o adjust c p Hwf Ep) as (Hdimg & _ & _ & Hdim & _ & Hflat & _).
    pose proof (fitted_inr_length lsq dev g st vmin_o vmax_o adjust c p Hwf Ep d Ef) as Hlen.
    assert (Hd : (p_dim p <= length d)%nat) by (rewrite Hlen, Hflat, app_length, Hdim; lia).
    unfold flat_of, flat. simpl. rewrite Ew, <- Esk, Epos, Hinv.
    - rewrite firstn_skipn. exact Hc.
    - rewrite firstn_length, Hdim, <- Hdimg. rewrite Hdim in Hd. lia.
  Qed.

  (* ---- fixed point ------------------------------------------------------------------------------------ *)
  Theorem refine_fixed_point g st vmin_o vmax_o adjust c r p : lsq_spec lsq -> wf c ->
    dev_normalisation_invariant g ->
    prepare g st vmin_o vmax_o adjust c = inr p ->
    refine lsq hyp dev g st vmin_o vmax_o adjust c = ROk r ->
    sumsq (dev (p_flat p) (p_vmin p) (p_vrng p)) == 0 ->
    exists vminf vrngf, sumsq (dev (flat_of r) vminf vrngf) == 0.
  Proof.
    intros Hspec Hwf Hinv Ep H Hz.
    destruct (refine_cost_le g st vmin_o vmax_o adjust c r p Hspec Hwf Hinv Ep H) as (vminf & vrngf & Hc & _).
    exists vminf, vrngf. pose proof (sumsq_nonneg (dev (flat_of r) vminf vrngf)). lra.
  Qed.

  (* with a solver that stops at stationary points the candidate itself (promoted, default width,
     position normalised) is returned *)
  Theorem refine_fixed_point_unchanged g st vmin_o vmax_o adjust c p : lsq_stationary lsq -> wf c -> valid g c ->
    prepare g st vmin_o vmax_o adjust c = inr p ->
    (adjust = false \/ p_vmin p < p_vmax p) ->
    sumsq (dev (p_flat p) (p_vmin p) (p_vrng p)) == 0 ->
    let q := promoted c in
    refine lsq hyp dev g st vmin_o vmax_o adjust c =
    ROk {| d_cls := d_cls q; d_pos := final_pos hyp g (d_pos q); d_rad := d_rad q;
           d_width := Some (p_width p); d_amp := d_amp q |}.
  Proof.
    intros Hstat Hwf Hv Ep Hlev Hz q.
    destruct (refine_start_feasible g st vmin_o vmax_o adjust c p Hwf Hv Ep Hlev) as (Hpre & _).
    unfold refine. rewrite Ep.
    rewrite (fitted_stationary lsq dev g st vmin_o vmax_o adjust c p Hwf Ep Hstat Hpre Hz).
    destruct (prepare_shape g st vmin_o vmax_o adjust c p Hwf Ep) as (_ & _ & Hdrop & Hdim & Hw & Hflat & _).
    unfold finish, unflat. rewrite Hflat, Hdim, Hdrop. fold q.
    rewrite skipn_app, skipn_all, Nat.sub_diag, firstn_app, firstn_all, Nat.sub_diag. simpl.
    rewrite app_nil_r, Hw. reflexivity.
  Qed.
End Main.

(* ---------------------------------------------------------------------------------------- *)
(* Cartesian grids: normalising the position does not change any difference vector           *)
(* ---------------------------------------------------------------------------------------- *)
Lemma norm1_shift a x : aper a = true -> alo a < ahi a ->
  exists m, norm1 a x == x + inject_Z m * asize a.
Proof.
  intros Hp HL. unfold norm1. rewrite Hp. exists (- Qfloor ((x - alo a) / asize a))%Z.
  unfold Qmod. rewrite inject_Z_opp. ring.
Qed.

Lemma diff1_comp a x x' y : x == x' -> diff1 a x y == diff1 a x' y.
Proof.
  intros H. unfold diff1. destruct (aper a); [apply wrap1_comp|]; rewrite H; reflexivity.
Qed.

Lemma diff1_norm1 a x y : (aper a = true -> alo a < ahi a) -> diff1 a (norm1 a x) y == diff1 a x y.
Proof.
  intros H. destruct (aper a) eqn:Hp.
  - destruct (norm1_shift a x Hp (H eq_refl)) as [m Em].
    rewrite (diff1_comp a _ _ y Em). apply diff1_period; [exact Hp|exact (H eq_refl)].
  - unfold norm1. rewrite Hp. reflexivity.
Qed.

Lemma diff_vec_normalize gr : forall p q, Forall (fun a => aper a = true -> alo a < ahi a) gr ->
  Qlist_eq (diff_vec gr (normalize gr p) q) (diff_vec gr p q).
Proof.
  induction gr as [|a gr IH]; intros p q H; [constructor|].
  inversion H as [|? ? Ha Hr]; subst.
  destruct p as [|x p]; [constructor|]. destruct q as [|y q]; [constructor|].
  simpl. constructor; [apply diff1_norm1; exact Ha|apply IH; exact Hr].
Qed.

(* on a Cartesian grid the final position is the normalised one and every difference vector to it is unchanged *)
Theorem cart_final_pos_diff hyp g pos q : g_family g = FCart ->
  Forall (fun a => aper a = true -> alo a < ahi a) (g_axes g) ->
  final_pos hyp g pos = normalize (g_axes g) pos /\
  Qlist_eq (diff_vec (g_axes g) (final_pos hyp g pos) q) (diff_vec (g_axes g) pos q) /\
  dist2 (g_axes g) (final_pos hyp g pos) q == dist2 (g_axes g) pos q.
Proof.
  intros Hf Hax.
  assert (E : final_pos hyp g pos = normalize (g_axes g) pos).
  { unfold final_pos, final_position, constraints, to_cart, to_grid. rewrite Hf. reflexivity. }
  rewrite E. split; [reflexivity|]. split; [apply diff_vec_normalize; exact Hax|].
  unfold dist2. apply sumsq_comp. apply diff_vec_normalize; exact Hax.
Qed.

(* ---------------------------------------------------------------------------------------- *)
(* the fit region extends the candidate's binary image by more than two interface widths     *)
(* ---------------------------------------------------------------------------------------- *)
Theorem fit_region_dilation w : 0 <= w ->
  (1 <= dilation_passed (dilation_iterations w))%Z /\
  2 * w < inject_Z (dilation_passed (dilation_iterations w)) /\
  inject_Z (dilation_passed (dilation_iterations w)) <= 2 * w + 1.
Proof.
  intros Hw. unfold dilation_passed, dilation_iterations.
  assert (H2 : 0 <= 2 * w) by lra. rewrite (py_int_nonneg _ H2).
  pose proof (Qfloor_le (2 * w)) as H1. pose proof (Qlt_floor (2 * w)) as H3.
  assert (H0 : (0 <= Qfloor (2 * w))%Z).
  { change 0%Z with (Qfloor 0). apply Qfloor_resp_le. exact H2. }
  rewrite inject_Z_plus in *. change (inject_Z 1) with 1 in *.
  split; [lia|]. split; lra.
Qed.

(* ---------------------------------------------------------------------------------------- *)
(* non-vacuity: an optimiser that satisfies the specification, and concrete runs             *)
(* ---------------------------------------------------------------------------------------- *)
Definition lsq_identity (f : list Q -> list Q) (x0 : list Q) (lo hi : list ext) : list Q := x0.

Lemma precondition_none x0 lo hi : lsq_precondition x0 lo hi = None -> within lo x0 hi = true /\ strict lo hi = true.
Proof.
  unfold lsq_precondition. destruct (negb _); [discriminate|]. destruct (strict lo hi); [|discriminate].
  destruct (within lo x0 hi); [|discriminate]. intros _. split; reflexivity.
Qed.

Lemma identity_lsq_spec : lsq_spec lsq_identity /\ lsq_stationary lsq_identity.
Proof.
  split.
  - intros f x0 lo hi Hpre. unfold lsq_identity. split; [apply (precondition_none _ _ _ Hpre)|apply Qle_refl].
  - intros f x0 lo hi _ _. reflexivity.
Qed.

(* a 4 x 4 Cartesian grid, periodic along x; a cylindrical grid with periodic z *)
Definition ex_cart : rgrid :=
  {| g_family := FCart; g_axes := [ {| ncell := 4; alo := 0; ahi := 4; aper := true |};
                                    {| ncell := 4; alo := 0; ahi := 4; aper := false |} ] |}.
Definition ex_cyl : rgrid :=
  {| g_family := FCyl; g_axes := [ {| ncell := 3; alo := 0; ahi := 3; aper := false |};
                                   {| ncell := 8; alo := 0; ahi := 4; aper := true |} ] |}.
Definition ex_sph : droplet := {| d_cls := RSpherical; d_pos := [5; 1]; d_rad := 1; d_width := None; d_amp := [] |}.
Definition ex_axi : droplet :=
  {| d_cls := RP3DAxi; d_pos := [3 # 10; 4 # 10; -(1 # 2)]; d_rad := 1; d_width := Some (1 # 2); d_amp := [0; 1 # 10] |}.
(* an "optimiser" that moves the free droplet parameters and the intensities: the answer of the cylindrical run *)
Definition ex_lsq_cyl (f : list Q -> list Q) (x0 : list Q) (lo hi : list ext) : list Q :=
  [-(1 # 4); 5 # 4; 3 # 4; 1 # 20; -(1 # 5); 1 # 10; 9 # 10].

(* results are compared up to == on rationals (the model does not reduce fractions) *)
Definition res_is (r : rres) (d : droplet) : bool :=
  match r with ROk m => droplet_agree [0; 1; 2]%nat m d | RErr _ => false end.

Lemma ex_runs :
  res_is (refine lsq_identity (fun _ => 0) (fun _ _ _ => []) ex_cart (Some (0, 1)) None None true ex_sph)
    {| d_cls := RDiffuse; d_pos := [1; 1]; d_rad := 1; d_width := Some 1; d_amp := [] |} = true /\
  res_is (refine ex_lsq_cyl (fun _ => 1 # 2) (fun _ _ _ => []) ex_cyl (Some (0, 1)) (Some 0) (Some 1) true ex_axi)
    {| d_cls := RP3DAxi; d_pos := [3 # 10; 4 # 10; 15 # 4]; d_rad := 5 # 4; d_width := Some (3 # 4);
       d_amp := [1 # 20; -(1 # 5)] |} = true /\
  refine lsq_identity (fun _ => 0) (fun _ _ _ => []) ex_cart (Some (1, 1)) None None true ex_sph = RErr EBoundsNotStrict /\
  res_is (refine lsq_identity (fun _ => 0) (fun _ _ _ => []) ex_cart None None None true ex_sph)
    {| d_cls := RDiffuse; d_pos := [1; 1]; d_rad := 1; d_width := Some 1; d_amp := [] |} = true /\
  wf ex_sph /\ wf ex_axi /\ valid ex_cart ex_sph /\ valid ex_cyl ex_axi /\ wf_grid ex_cart /\ wf_grid ex_cyl.
Proof.
  repeat split; try (vm_compute; reflexivity); try (intros; discriminate); try (vm_compute; intros; discriminate).
  - repeat constructor.
  - repeat constructor; vm_compute; intros; discriminate.
Qed.
