(* C01 on Cartesian grids with periodic axes: several mutually separated sharp spheres.
   Generalises c01_multi (non-periodic) and c01_periodic_single of Proofs/C01Cart.v.
   Premises: grid_ok g;  every sphere satisfies pfits (periodic axis: 2 r + 2 h <= L, centre anywhere;
   non-periodic axis: the sphere lies inside the box) and covers at least one cell;  spheres with
   different list indices are separated,  (r_i + r_j + hmax)^2 <= dist2 g c_i c_j  with the PERIODIC squared
   distance and hmax >= every spacing (in the sections: the abstract form apartT = no common cell, no face
   contact, no contact across a periodic boundary, derived by Proofs/BallTorusSep.balls_apart_torus);
   wf_img, LabelSpecImg, non-zero labels = cells covered by some sphere.
     c01_multi_periodic_components : two mask cells end in the same cluster of the merge loop
                                     <-> they are torus-connected <-> they lie in the same ball;
     c01_multi_periodic            : candidates g lab has one entry per sphere (entry number cidx i for
                                     sphere i, cidx injective), with volume = cell volume * number of covered
                                     cells and centre within half a grid spacing per axis under the periodic
                                     metric, inside the box along periodic axes. *)
From Coq Require Import QArith Qabs Qround ZArith List Arith Bool Lia Lqa Setoid Morphisms Permutation Sorted.
Import ListNotations.
From PD Require Import Model.Grid Model.Render Model.MergeLoop Model.Locate Model.Ball
  Proofs.Render Proofs.MergeLoop Proofs.Components Proofs.LocateCart
  Proofs.BallRow Proofs.BallCentroid Proofs.BallSep Proofs.BallConn Proofs.BallEuclid Proofs.BallTorus
  Proofs.BallLift Proofs.BallTorusSep Proofs.C01Cart.
Local Open Scope Q_scope.

Local Notation in_rangeL := LocateCart.in_range.

(* ------------------------------------------------------------------------------------------ *)
(* np.unique of the cluster map: members, no duplicates, positions                              *)
(* ------------------------------------------------------------------------------------------ *)
Lemma insert_sorted_mem x : forall l y, In y (insert_sorted x l) <-> y = x \/ In y l.
Proof.
  induction l as [|z l IH]; intros y; cbn [insert_sorted].
  - cbn [In]. intuition.
  - destruct (Nat.ltb x z) eqn:E1.
    + cbn [In]. intuition.
    + destruct (Nat.eqb_spec x z) as [E2|E2].
      * subst z. cbn [In]. intuition.
      * cbn [In]. rewrite IH. intuition.
Qed.

Lemma insert_sorted_sorted x : forall l, StronglySorted lt l -> StronglySorted lt (insert_sorted x l).
Proof.
  induction l as [|z l IH]; intros Hs; cbn [insert_sorted].
  - constructor; [constructor|constructor].
  - inversion Hs as [|z' l' Hl Hz]; subst.
    destruct (Nat.ltb_spec x z) as [E1|E1].
    + constructor; [exact Hs|]. constructor; [exact E1|].
      rewrite Forall_forall in *. intros y Hy. specialize (Hz y Hy). lia.
    + destruct (Nat.eqb_spec x z) as [E2|E2]; [exact Hs|].
      constructor; [apply IH; exact Hl|].
      rewrite Forall_forall in *. intros y Hy. apply insert_sorted_mem in Hy.
      destruct Hy as [->|Hy]; [lia|exact (Hz y Hy)].
Qed.

Lemma sorted_nodup : forall l, StronglySorted lt l -> NoDup l.
Proof.
  induction l as [|z l IH]; intros Hs; [constructor|].
  inversion Hs as [|z' l' Hl Hz]; subst. constructor; [|apply IH; exact Hl].
  intros Hin. rewrite Forall_forall in Hz. specialize (Hz z Hin). lia.
Qed.

Lemma reps_mem st n i : In i (reps st n) <-> exists k, (k < n)%nat /\ cl st k = i.
Proof.
  unfold reps.
  assert (G : forall l acc, In i (fold_left (fun acc k => insert_sorted (cl st k) acc) l acc)
                            <-> In i acc \/ exists k, In k l /\ cl st k = i).
  { induction l as [|k l IH]; intros acc; cbn [fold_left].
    - split; [intros H; left; exact H|intros [H|(k & [] & _)]; exact H].
    - rewrite IH, insert_sorted_mem. split.
      + intros [[->|H]|(k' & Hk' & E)].
        * right. exists k. split; [left; reflexivity|reflexivity].
        * left. exact H.
        * right. exists k'. split; [right; exact Hk'|exact E].
      + intros [H|(k' & [<-|Hk'] & E)].
        * left. right. exact H.
        * left. left. symmetry. exact E.
        * right. exists k'. split; assumption. }
  rewrite G. split.
  - intros [[]|(k & Hk & E)]. exists k. apply in_seq in Hk. split; [lia|exact E].
  - intros (k & Hk & E). right. exists k. split; [apply in_seq; lia|exact E].
Qed.

Lemma reps_nodup st n : NoDup (reps st n).
Proof.
  apply sorted_nodup. unfold reps.
  assert (G : forall l acc, StronglySorted lt acc ->
                StronglySorted lt (fold_left (fun acc k => insert_sorted (cl st k) acc) l acc)).
  { induction l as [|k l IH]; intros acc Hs; cbn [fold_left]; [exact Hs|].
    apply IH. apply insert_sorted_sorted. exact Hs. }
  apply G. constructor.
Qed.

Fixpoint index_of (v : nat) (l : list nat) : nat :=
  match l with
  | [] => 0%nat
  | x :: l' => if Nat.eqb x v then 0%nat else S (index_of v l')
  end.

Lemma index_of_nth v : forall l, In v l -> nth_error l (index_of v l) = Some v.
Proof.
  induction l as [|x l IH]; intros H; [destruct H|]. cbn [index_of].
  destruct (Nat.eqb_spec x v) as [->|E]; [reflexivity|]. cbn [nth_error]. apply IH.
  destruct H as [H|H]; [congruence|exact H].
Qed.

(* ------------------------------------------------------------------------------------------ *)
(* stored position of a cluster in terms of the stored offsets                                  *)
(* ------------------------------------------------------------------------------------------ *)
Lemma position_off_cluster g img p ax (comp : list cell) : grid_ok g -> wf_img g img ->
  In p (mask_cells img) -> NoDup comp ->
  (forall q, In q comp <-> In q (mask_cells img) /\
                           cl (final_state g img) (clab img q) = cl (final_state g img) (clab img p)) ->
  mpos (final_state g img) (cl (final_state g img) (clab img p)) ax * inject_Z (Z.of_nat (length comp))
  == lsum comp (fun q => coordQ q ax + (1 # 2)
                         + inject_Z (off (final_state g img) (clab img q) ax * shapeN g ax)).
Proof.
  intros Hok Hwf Hp Hnd Hcomp. set (st := final_state g img). set (v := cl st (clab img p)).
  set (cells := mask_cells img).
  pose proof (merge_position (shapeN g) (num_labels img) (pos0 img) (vol0 g img)
                (inst_vol0_pos g img Hok Hwf) (edges g img) (edges_edges_ok g img)
                (clab img p) ax (clab_lt img p Hp)) as H.
  cbv zeta in H. change (merge_all (shapeN g) (init_state (pos0 img) (vol0 g img)) (edges g img)) with st in H.
  fold v in H.
  pose proof (msum_regroup cell cells (clab img) (num_labels img) (clab_lt img) (edges g img) (shapeN g)
                (pos0 img) (vol0 g img) v (cell_volume g) (fun _ => 1) (vol0 g img)
                (inst_vol0_spec g img Hwf)) as R1.
  pose proof (msum_regroup cell cells (clab img) (num_labels img) (clab_lt img) (edges g img) (shapeN g)
                (pos0 img) (vol0 g img) v (cell_volume g)
                (fun q => coordQ q ax + (1 # 2) + inject_Z (off st (clab img q) ax * shapeN g ax))
                (contrib (shapeN g) (pos0 img) (vol0 g img) st ax)
                (contrib_spec cell cells (clab img) (num_labels img) (edges g img) (shapeN g)
                   (pos0 img) (vol0 g img) (cell_volume g) (inst_vol0_spec g img Hwf)
                   coordQ (inst_pos0_spec g img Hwf) ax)) as R2.
  change (merge_all (shapeN g) (init_state (pos0 img) (vol0 g img)) (edges g img)) with st in R1, R2.
  rewrite R1, R2 in H.
  assert (HP : Permutation (filter (fun q => Nat.eqb (cl st (clab img q)) v) cells) comp).
  { apply NoDup_Permutation; [apply NoDup_filter; exact (nodup_mask_cells g img Hwf)|exact Hnd|].
    intros q. rewrite filter_In, Nat.eqb_eq, Hcomp. reflexivity. }
  rewrite !lsum_filter in H. rewrite !(lsum_perm _ _ _ HP) in H. rewrite lsum_one in H.
  pose proof (cell_volume_pos g Hok) as Hcv.
  assert (H' : cell_volume g * (mpos st v ax * inject_Z (Z.of_nat (length comp)))
               == cell_volume g * lsum comp (fun q => coordQ q ax + (1 # 2)
                                    + inject_Z (off st (clab img q) ax * shapeN g ax))).
  { rewrite <- H. ring. }
  apply Qmult_inj_l in H'; [exact H'|]. intros E. rewrite E in Hcv. discriminate Hcv.
Qed.

(* from the lifted mean to the reported coordinate (one axis) *)
Lemma axis_position_of_lifted g c r k a x m (T : Z) : grid_ok g -> pfits g c r -> ball_cells g c r <> [] ->
  nth_error g k = Some a -> nth_error c k = Some x -> (aper a = false -> T = 0%Z) ->
  m * inject_Z (Z.of_nat (length (ball_cells g c r)))
  == lsum (ball_cells g c r) (fun q => rowoff (gam a x) (liftZ a x (nth k q 0%Z)))
     + (gam a x + inject_Z (T * ncell a)) * inject_Z (Z.of_nat (length (ball_cells g c r))) ->
  let pk := norm1 a (alo a + m * adisc a) in
  Qabs (diff1 a x pk) <= adisc a / 2 /\ (aper a = true -> alo a <= pk /\ pk < ahi a).
Proof.
  intros Hok Hpf Hne Ha Hx HT0 HT.
  destruct (pfits_nth g c r Hpf k a Ha) as (x' & Hx' & Hf1). assert (x' = x) by congruence. subst x'.
  pose proof (grid_ok_axis g k a Hok Ha) as Hoka. pose proof (adisc_pos a Hoka) as Hh.
  pose proof (torus_ball_centroid g c r k a x Hok Ha Hx (pfits1_tfits1 a x r Hoka Hf1)) as Hcen.
  assert (Hr : 0 <= r).
  { destruct (ball_cells g c r) as [|p ps] eqn:E; [congruence|].
    assert (Hp : In p (ball_cells g c r)) by (rewrite E; left; reflexivity).
    apply ball_cells_spec in Hp. destruct Hp as [_ Hi]. apply inside_iff in Hi. tauto. }
  set (n := inject_Z (Z.of_nat (length (ball_cells g c r)))) in *.
  assert (Hn : 0 < n).
  { unfold n. change 0 with (inject_Z 0). rewrite <- Zlt_Qlt.
    destruct (ball_cells g c r); [congruence|cbn [length]; lia]. }
  destruct (mean_bound m (gam a x + inject_Z (T * ncell a)) _ n Hn HT Hcen) as [D1 D2].
  set (D := m - (gam a x + inject_Z (T * ncell a))) in *.
  assert (Egam : gam a x * adisc a == x - alo a).
  { unfold gam. field. intros E. rewrite E in Hh. discriminate Hh. }
  assert (Eh2 : adisc a / 2 == (1 # 2) * adisc a) by field.
  assert (Em : alo a + m * adisc a - x == D * adisc a + inject_Z T * asize a).
  { unfold D. rewrite inject_Z_mult, <- (ncell_adisc a (proj1 Hoka)).
    assert (E : alo a + m * adisc a - x == m * adisc a - gam a x * adisc a) by (rewrite Egam; ring).
    rewrite E. ring. }
  cbv zeta. unfold norm1, diff1. destruct (aper a) eqn:Hper.
  - unfold pfits1 in Hf1. rewrite Hper in Hf1.
    assert (HL : 0 < asize a) by lra.
    split.
    + unfold Qmod. set (fl := Qfloor ((alo a + m * adisc a - alo a) / asize a)).
      rewrite (wrap1_comp (asize a) _ (D * adisc a + inject_Z (T - fl) * asize a)).
      2:{ unfold Zminus. rewrite inject_Z_plus, inject_Z_opp.
          assert (E : alo a + m * adisc a - alo a - inject_Z fl * asize a + alo a - x
                      == (alo a + m * adisc a - x) - inject_Z fl * asize a) by ring.
          rewrite E, Em. ring. }
      rewrite (wrap1_add_period (asize a) (D * adisc a) (T - fl) HL).
      assert (P1 : 0 <= adisc a * (D + (1 # 2))) by (apply Qmult_le_0_compat; lra).
      assert (P2 : 0 <= adisc a * ((1 # 2) - D)) by (apply Qmult_le_0_compat; lra).
      rewrite (wrap1_small (asize a) (D * adisc a) HL) by lra.
      rewrite Eh2. apply Qabs_Qle_condition. split; lra.
    + intros _. destruct (Qmod_range (alo a + m * adisc a - alo a) (asize a) HL) as [Q1 Q2].
      unfold asize in Q2 at 2. split; lra.
  - rewrite (HT0 eq_refl) in Em. change (inject_Z 0) with 0 in Em.
    split; [|discriminate].
    assert (E : alo a + m * adisc a - x == D * adisc a) by (rewrite Em; ring).
    rewrite E, Eh2.
    assert (P1 : 0 <= adisc a * (D + (1 # 2))) by (apply Qmult_le_0_compat; lra).
    assert (P2 : 0 <= adisc a * ((1 # 2) - D)) by (apply Qmult_le_0_compat; lra).
    apply Qabs_Qle_condition. split; lra.
Qed.

(* ------------------------------------------------------------------------------------------ *)
(* several spheres                                                                              *)
(* ------------------------------------------------------------------------------------------ *)
Definition apartT (g : grid) (d1 d2 : sphere) : Prop :=
  forall p q, length p = length g -> length q = length g ->
    inside g (fst d1) (snd d1) p = true -> inside g (fst d2) (snd d2) q = true ->
    p <> q /\ ~ tadj g p q.

Lemma apartT_of_dist g d1 d2 hmax : grid_ok g ->
  length (fst d1) = length g -> length (fst d2) = length g ->
  0 <= hmax -> Forall (fun a => adisc a <= hmax) g ->
  (snd d1 + snd d2 + hmax) * (snd d1 + snd d2 + hmax) <= dist2 g (fst d1) (fst d2) -> apartT g d1 d2.
Proof.
  intros Hok H1 H2 Hh0 Hh Hsep p q.
  exact (balls_apart_torus g (fst d1) (snd d1) (fst d2) (snd d2) hmax Hok H1 H2 Hh0 Hh Hsep p q).
Qed.

Lemma pfits_length g c r : pfits g c r -> length c = length g.
Proof. intros H. induction H as [|a x g c _ _ IH]; cbn [length]; congruence. Qed.

Section MultiPer.
  Variable g : grid.
  Variable ds : list sphere.
  Variable img : limage.
  Hypothesis Hok : grid_ok g.
  Hypothesis Hpf : forall d, In d ds -> pfits g (fst d) (snd d).
  Hypothesis Hne : forall d, In d ds -> ball_cells g (fst d) (snd d) <> [].
  Hypothesis Hsep : forall i j di dj, nth_error ds i = Some di -> nth_error ds j = Some dj ->
    i <> j -> apartT g di dj.
  Hypothesis Hwf : wf_img g img.
  Hypothesis Hspec : LabelSpecImg img.
  Hypothesis Hmask : mask_is_emulsion g ds img.

  Local Notation st := (final_state g img).
  Local Notation cells := (mask_cells img).

  Lemma mp_mask p : In p cells <-> exists i d, nth_error ds i = Some d /\ in_ball g d p.
  Proof. exact (multi_mask_cells g ds img Hwf Hmask p). Qed.

  Lemma mp_in_mask i d p : nth_error ds i = Some d -> in_ball g d p -> In p cells.
  Proof. intros Hd Hb. apply mp_mask. exists i, d. split; assumption. Qed.

  Lemma mp_step i j di dj p q : nth_error ds i = Some di -> nth_error ds j = Some dj ->
    in_ball g di p -> in_ball g dj q -> p = q \/ tadj g p q \/ tadj g q p -> i = j.
  Proof.
    intros Hi Hj Hp Hq Hpq. destruct (Nat.eq_dec i j) as [E|E]; [exact E|exfalso].
    pose proof (ball_cells_length _ _ _ _ Hp) as Hlp. pose proof (ball_cells_length _ _ _ _ Hq) as Hlq.
    apply ball_cells_spec in Hp. apply ball_cells_spec in Hq.
    destruct (Hsep i j di dj Hi Hj E p q Hlp Hlq (proj2 Hp) (proj2 Hq)) as [H1 H2].
    assert (E' : j <> i) by congruence.
    destruct (Hsep j i dj di Hj Hi E' q p Hlq Hlp (proj2 Hq) (proj2 Hp)) as [_ H3].
    destruct Hpq as [Hpq|[Hpq|Hpq]]; contradiction.
  Qed.

  Lemma mp_unique i j di dj p : nth_error ds i = Some di -> nth_error ds j = Some dj ->
    in_ball g di p -> in_ball g dj p -> i = j /\ di = dj.
  Proof.
    intros Hi Hj Hp Hq. assert (E : i = j) by (apply (mp_step i j di dj p p); auto).
    split; [exact E|]. subst j. congruence.
  Qed.

  Lemma stepT_tadj x y : stepT cell cells face_adj (wrap_pair g) x y -> x = y \/ tadj g x y \/ tadj g y x.
  Proof.
    intros (Hx & _ & [Hf|[ax Hw]]).
    - right. left. apply face_adj_tadj; [exact Hf|].
      apply mp_mask in Hx. destruct Hx as (i & d & _ & Hb). exact (ball_cells_length _ _ _ _ Hb).
    - destruct (wrap_pair_tadj ax g x y Hw) as [H|H]; [right; left; exact H|left; exact H].
  Qed.

  Lemma mp_conn_same p q : torus_conn g img p q -> p = q \/ same_ball g ds p q.
  Proof.
    unfold torus_conn, connT. intros H.
    induction H as [x|x y _ IH|x y z _ IH1 _ IH2|x y Hs].
    - left. reflexivity.
    - destruct IH as [->|(i & d & Hd & Hp & Hq)]; [left; reflexivity|].
      right. exists i, d. split; [exact Hd|]. split; assumption.
    - destruct IH1 as [->|(i & d & Hd & Hp & Hq)]; [exact IH2|].
      destruct IH2 as [<-|(j & d' & Hd' & Hq' & Hz)]; [right; exists i, d; split; [exact Hd|split; assumption]|].
      destruct (mp_unique i j d d' y Hd Hd' Hq Hq') as [-> ->].
      right. exists j, d'. split; [exact Hd'|]. split; assumption.
    - right. pose proof (stepT_tadj x y Hs) as Ht. destruct Hs as (Hx & Hy & _).
      apply mp_mask in Hx. apply mp_mask in Hy.
      destruct Hx as (i & d & Hd & Hp). destruct Hy as (j & d' & Hd' & Hq).
      assert (E : i = j) by (apply (mp_step i j d d' x y Hd Hd' Hp Hq); exact Ht).
      subst j. assert (d' = d) by congruence. subst d'.
      exists i, d. split; [exact Hd|]. split; assumption.
  Qed.

  Lemma mp_same_conn p q : same_ball g ds p q -> torus_conn g img p q.
  Proof.
    intros (i & d & Hd & Hp & Hq). pose proof (nth_error_In _ _ Hd) as Hin.
    pose proof (ball_torus_connected g (fst d) (snd d) (ball_cells g (fst d) (snd d)) Hok
                  (pfits_tfits g (fst d) (snd d) Hok (Hpf d Hin)) (fun p0 => iff_refl _) p q Hp Hq) as H.
    unfold torus_conn, connT in *. revert H. apply clos_mono.
    intros u v (Hu & Hv & Hs). split; [exact (mp_in_mask i d u Hd Hu)|].
    split; [exact (mp_in_mask i d v Hd Hv)|exact Hs].
  Qed.

  (* the clusters of the merge loop = the torus components = the balls *)
  Theorem c01_multi_periodic_components p q : In p cells -> In q cells ->
    (cl st (clab img p) = cl st (clab img q) <-> torus_conn g img p q) /\
    (torus_conn g img p q <-> same_ball g ds p q).
  Proof.
    intros Hp Hq. split; [exact (locate_cart_components g img Hok Hwf Hspec p q Hp Hq)|].
    split; [|apply mp_same_conn].
    intros H. destruct (mp_conn_same p q H) as [<-|Hs]; [|exact Hs].
    apply mp_mask in Hp. destruct Hp as (i & d & Hd & Hb).
    exists i, d. split; [exact Hd|]. split; assumption.
  Qed.

  Lemma mp_cluster_iff p q : In p cells -> In q cells ->
    (cl st (clab img p) = cl st (clab img q) <-> same_ball g ds p q).
  Proof. intros Hp Hq. destruct (c01_multi_periodic_components p q Hp Hq) as [H1 H2]. rewrite H1. exact H2. Qed.

  (* the cluster of droplet number i: that of its first covered cell *)
  Definition crep (i : nat) : nat :=
    match nth_error ds i with
    | Some d => match ball_cells g (fst d) (snd d) with
                | p :: _ => cl st (clab img p)
                | [] => 0%nat
                end
    | None => 0%nat
    end.

  Lemma crep_witness i d : nth_error ds i = Some d ->
    exists p0, in_ball g d p0 /\ crep i = cl st (clab img p0).
  Proof.
    intros Hd. pose proof (Hne d (nth_error_In _ _ Hd)) as Hn. unfold crep, in_ball. rewrite Hd.
    destruct (ball_cells g (fst d) (snd d)) as [|p0 ps] eqn:E; [congruence|].
    exists p0. split; [left; reflexivity|reflexivity].
  Qed.

  Lemma crep_cells i d p : nth_error ds i = Some d -> In p cells ->
    (cl st (clab img p) = crep i <-> in_ball g d p).
  Proof.
    intros Hd Hp. destruct (crep_witness i d Hd) as (p0 & Hp0 & ->).
    rewrite (mp_cluster_iff p p0 Hp (mp_in_mask i d p0 Hd Hp0)). split.
    - intros (j & d' & Hd' & Hq & Hq0). destruct (mp_unique i j d d' p0 Hd Hd' Hp0 Hq0) as [-> ->]. exact Hq.
    - intros Hb. exists i, d. split; [exact Hd|]. split; assumption.
  Qed.

  Lemma crep_in i d : nth_error ds i = Some d -> In (crep i) (reps st (num_labels img)).
  Proof.
    intros Hd. destruct (crep_witness i d Hd) as (p0 & Hp0 & ->). apply reps_mem.
    exists (clab img p0). split; [|reflexivity]. apply clab_lt. exact (mp_in_mask i d p0 Hd Hp0).
  Qed.

  Lemma crep_inj i j di dj : nth_error ds i = Some di -> nth_error ds j = Some dj -> crep i = crep j -> i = j.
  Proof.
    intros Hi Hj E. destruct (crep_witness i di Hi) as (p & Hp & Ep).
    pose proof (mp_in_mask i di p Hi Hp) as Hm.
    assert (Hb : in_ball g dj p) by (apply (crep_cells j dj p Hj Hm); congruence).
    exact (proj1 (mp_unique i j di dj p Hi Hj Hp Hb)).
  Qed.

  Lemma crep_surj v : In v (reps st (num_labels img)) -> exists i d, nth_error ds i = Some d /\ crep i = v.
  Proof.
    intros Hv. apply reps_mem in Hv. destruct Hv as (k & Hk & <-).
    destruct (label_has_cell g img k Hwf Hk) as (q & Hq & Hl).
    pose proof Hq as Hq'. apply mp_mask in Hq'. destruct Hq' as (i & d & Hd & Hb).
    exists i, d. split; [exact Hd|]. symmetry.
    replace k with (clab img q) by (unfold clab; rewrite Hl; reflexivity).
    apply (crep_cells i d q Hd Hq). exact Hb.
  Qed.

  Theorem mp_num_clusters : length (reps st (num_labels img)) = length ds.
  Proof.
    set (R := reps st (num_labels img)). set (m := length ds).
    assert (Hnth : forall i, (i < m)%nat -> exists d, nth_error ds i = Some d).
    { intros i Hi. destruct (nth_error ds i) as [d|] eqn:E; [exists d; reflexivity|].
      apply nth_error_None in E. unfold m in Hi. lia. }
    set (L := map crep (seq 0 m)).
    assert (HL : NoDup L).
    { apply nodup_map_inj_on; [apply seq_NoDup|]. intros i j Hi Hj E.
      apply in_seq in Hi. apply in_seq in Hj.
      destruct (Hnth i) as [di Hdi]; [lia|]. destruct (Hnth j) as [dj Hdj]; [lia|].
      exact (crep_inj i j di dj Hdi Hdj E). }
    assert (H1 : incl L R).
    { intros v Hv. apply in_map_iff in Hv. destruct Hv as (i & <- & Hi). apply in_seq in Hi.
      destruct (Hnth i) as [d Hd]; [lia|]. exact (crep_in i d Hd). }
    assert (H2 : incl R L).
    { intros v Hv. destruct (crep_surj v Hv) as (i & d & Hd & <-).
      apply in_map. apply in_seq. assert (i < length ds)%nat by (apply nth_error_Some; congruence).
      unfold m. lia. }
    pose proof (NoDup_incl_length HL H1) as L1.
    pose proof (NoDup_incl_length (reps_nodup st (num_labels img)) H2) as L2.
    unfold L in L1, L2. rewrite map_length, seq_length in *. fold R in L2. lia.
  Qed.

  (* ---- volume ---- *)
  Theorem mp_volume i d : nth_error ds i = Some d ->
    mvol st (crep i) == cell_volume g * inject_Z (Z.of_nat (length (ball_cells g (fst d) (snd d)))).
  Proof.
    intros Hd. destruct (crep_witness i d Hd) as (p0 & Hp0 & E).
    pose proof (mp_in_mask i d p0 Hd Hp0) as Hm0. rewrite E.
    apply (locate_cart_volume g img Hok Hwf Hspec p0 (ball_cells g (fst d) (snd d)) Hm0
             (ball_cells_nodup g (fst d) (snd d))).
    intros q. split.
    - intros Hq. split; [exact (mp_in_mask i d q Hd Hq)|].
      apply mp_same_conn. exists i, d. split; [exact Hd|]. split; assumption.
    - intros [Hq Hc]. destruct (mp_conn_same p0 q Hc) as [<-|(j & d' & Hd' & Hq0 & Hqq)]; [exact Hp0|].
      destruct (mp_unique i j d d' p0 Hd Hd' Hp0 Hq0) as [-> ->]. exact Hqq.
  Qed.

  (* ---- position: the lift, per cell and per label ---- *)
  Definition cof (p : cell) : list Q :=
    match find (fun d => inside g (fst d) (snd d) p) ds with Some d => fst d | None => [] end.

  Lemma cof_ball i d p : nth_error ds i = Some d -> in_ball g d p -> cof p = fst d.
  Proof.
    intros Hd Hb. unfold cof.
    destruct (find (fun d0 => inside g (fst d0) (snd d0) p) ds) as [d'|] eqn:E.
    - apply find_some in E. destruct E as [Hin Hi]. apply In_nth_error in Hin. destruct Hin as [j Hj].
      assert (Hb' : in_ball g d' p).
      { apply ball_cells_spec. split; [|exact Hi]. apply ball_cells_spec in Hb. exact (proj1 Hb). }
      destruct (mp_unique i j d d' p Hd Hj Hb Hb') as [_ ->]. reflexivity.
    - exfalso. pose proof (find_none _ _ E d (nth_error_In _ _ Hd)) as Hn. cbv beta in Hn.
      apply ball_cells_spec in Hb. destruct Hb as [_ Hi]. congruence.
  Qed.

  Definition kcellM (p : cell) (ax : nat) : Z :=
    match nth_error g ax, nth_error (cof p) ax with
    | Some a, Some x => ksh a x (nth ax p 0%Z)
    | _, _ => 0%Z
    end.
  Definition kappaM (k ax : nat) : Z :=
    match members img k with p :: _ => kcellM p ax | [] => 0%Z end.

  Lemma kcellM_adj p q ax : In p cells -> In q cells -> face_adj p q -> kcellM p ax = kcellM q ax.
  Proof.
    intros Hp Hq Hf.
    pose proof Hp as Hp'. apply mp_mask in Hp'. destruct Hp' as (i & d & Hd & Hbp).
    pose proof Hq as Hq'. apply mp_mask in Hq'. destruct Hq' as (j & d' & Hd' & Hbq).
    assert (E : i = j).
    { apply (mp_step i j d d' p q Hd Hd' Hbp Hbq). right. left.
      apply face_adj_tadj; [exact Hf|exact (ball_cells_length _ _ _ _ Hbp)]. }
    subst j. assert (d' = d) by congruence. subst d'.
    unfold kcellM. rewrite (cof_ball i d p Hd Hbp), (cof_ball i d q Hd Hbq).
    destruct (nth_error g ax) as [a|] eqn:Ha; [|reflexivity].
    destruct (nth_error (fst d) ax) as [x|] eqn:Hx; [|reflexivity].
    destruct (pfits_nth g (fst d) (snd d) (Hpf d (nth_error_In _ _ Hd)) ax a Ha) as (x' & Hx' & Hf1).
    assert (x' = x) by congruence. subst x'.
    exact (ksh_face_adj g (fst d) (snd d) p q ax a x Hok Ha Hx Hf1 Hbp Hbq Hf).
  Qed.

  Lemma kcellM_conn p q : box_conn img p q -> forall ax, kcellM p ax = kcellM q ax.
  Proof.
    unfold box_conn, conn0. intros H ax.
    induction H as [x|x y _ IH|x y z _ IH1 _ IH2|x y (Hx & Hy & Hf)]; try congruence.
    exact (kcellM_adj x y ax Hx Hy Hf).
  Qed.

  Lemma kappaM_cell p ax : In p cells -> kappaM (clab img p) ax = kcellM p ax.
  Proof.
    intros Hp. unfold kappaM.
    assert (Hpm : In p (members img (clab img p))).
    { apply (members_mask g img (clab img p) p Hwf). split; [exact Hp|].
      apply mask_cells_spec in Hp. unfold clab. lia. }
    destruct (members img (clab img p)) as [|p0 ps] eqn:E; [destruct Hpm|].
    assert (Hp0 : In p0 (members img (clab img p))) by (rewrite E; left; reflexivity).
    apply (members_mask g img (clab img p) p0 Hwf) in Hp0. destruct Hp0 as [Hm0 Hl0].
    apply kcellM_conn. apply (Hspec p0 p Hm0 Hp). apply mask_cells_spec in Hp. unfold clab in Hl0. lia.
  Qed.

  Lemma kappaM_lift_ok : lift_ok kappaM (edges g img).
  Proof.
    intros kl kh ax Hin a'.
    destruct (edges_sound g img kl kh ax Hok Hwf Hin) as (l & h & Hl & Hh & Hw & <- & <-).
    rewrite (kappaM_cell h a' Hh), (kappaM_cell l a' Hl).
    pose proof Hl as Hl'. apply mp_mask in Hl'. destruct Hl' as (i & d & Hd & Hbl).
    pose proof Hh as Hh'. apply mp_mask in Hh'. destruct Hh' as (j & d' & Hd' & Hbh).
    assert (E : i = j).
    { apply (mp_step i j d d' l h Hd Hd' Hbl Hbh).
      destruct (wrap_pair_tadj ax g l h Hw) as [H|H]; [right; left; exact H|left; exact H]. }
    subst j. assert (d' = d) by congruence. subst d'.
    apply (wrap_pair_nth g ax l h Hok) in Hw. destruct Hw as (Hp & _ & _ & H0 & HN & Ho).
    unfold delta, kcellM. rewrite (cof_ball i d l Hd Hbl), (cof_ball i d h Hd Hbh).
    pose proof (Hpf d (nth_error_In _ _ Hd)) as Hpfd.
    destruct (Nat.eqb_spec a' ax) as [->|Hneq].
    - destruct Hp as (a0 & Hn & Hper).
      destruct (pfits_nth g (fst d) (snd d) Hpfd ax a0 Hn) as (x & Hx & Hf1).
      rewrite Hn, Hx, H0, HN, (shapeN_nth_error g ax a0 Hn).
      destruct (ball_axis_lift g (fst d) (snd d) h ax a0 x Hok Hn Hx Hbh) as [Hr Hd0].
      rewrite HN, (shapeN_nth_error g ax a0 Hn) in Hd0.
      exact (ksh_wrap a0 x (snd d) (grid_ok_axis g ax a0 Hok Hn) Hper Hr Hf1 Hd0).
    - rewrite (Ho a' Hneq). lia.
  Qed.

  (* the members of the cluster of droplet i are its covered cells *)
  Lemma mp_comp i d p0 : nth_error ds i = Some d -> in_ball g d p0 ->
    forall q, In q (ball_cells g (fst d) (snd d)) <->
              In q cells /\ cl st (clab img q) = cl st (clab img p0).
  Proof.
    intros Hd Hp0 q. pose proof (mp_in_mask i d p0 Hd Hp0) as Hm0. split.
    - intros Hq. pose proof (mp_in_mask i d q Hd Hq) as Hmq. split; [exact Hmq|].
      apply (mp_cluster_iff q p0 Hmq Hm0). exists i, d. split; [exact Hd|]. split; assumption.
    - intros [Hmq Hc]. apply (mp_cluster_iff q p0 Hmq Hm0) in Hc.
      destruct Hc as (j & d' & Hd' & Hqq & Hq0).
      destruct (mp_unique i j d d' p0 Hd Hd' Hp0 Hq0) as [-> ->]. exact Hqq.
  Qed.

  Lemma mp_position_lifted i d ax a x : nth_error ds i = Some d ->
    nth_error g ax = Some a -> nth_error (fst d) ax = Some x ->
    exists T : Z, (aper a = false -> T = 0%Z) /\
      mpos st (crep i) ax * inject_Z (Z.of_nat (length (ball_cells g (fst d) (snd d))))
      == lsum (ball_cells g (fst d) (snd d)) (fun q => rowoff (gam a x) (liftZ a x (nth ax q 0%Z)))
         + (gam a x + inject_Z (T * ncell a)) * inject_Z (Z.of_nat (length (ball_cells g (fst d) (snd d)))).
  Proof.
    intros Hd Ha Hx. destruct (crep_witness i d Hd) as (p0 & Hp0 & E). rewrite E.
    pose proof (mp_in_mask i d p0 Hd Hp0) as Hm0. set (v := cl st (clab img p0)).
    pose proof (position_off_cluster g img p0 ax (ball_cells g (fst d) (snd d)) Hok Hwf Hm0
                  (ball_cells_nodup g (fst d) (snd d)) (mp_comp i d p0 Hd Hp0)) as H.
    fold v in H.
    assert (Hgen : forall T : Z,
              (forall q, in_ball g d q -> off st (clab img q) ax = (kcellM q ax + T)%Z) ->
              mpos st v ax * inject_Z (Z.of_nat (length (ball_cells g (fst d) (snd d))))
              == lsum (ball_cells g (fst d) (snd d)) (fun q => rowoff (gam a x) (liftZ a x (nth ax q 0%Z)))
                 + (gam a x + inject_Z (T * ncell a))
                   * inject_Z (Z.of_nat (length (ball_cells g (fst d) (snd d))))).
    { intros T HT. rewrite H. rewrite <- lsum_const, <- lsum_plus. apply lsum_ext. intros q Hq.
      rewrite (HT q Hq). unfold kcellM. rewrite (cof_ball i d q Hd Hq), Ha, Hx.
      rewrite (shapeN_nth_error g ax a Ha). unfold rowoff, liftZ, coordQ.
      rewrite !inject_Z_plus, !inject_Z_mult, inject_Z_plus. ring. }
    destruct (aper a) eqn:Hper.
    - destruct (merge_offsets (shapeN g) (pos0 img) (vol0 g img) kappaM (edges g img) kappaM_lift_ok) as [t Ht].
      change (merge_all (shapeN g) (init_state (pos0 img) (vol0 g img)) (edges g img)) with st in Ht.
      exists (t v ax). split; [discriminate|]. apply Hgen. intros q Hq.
      pose proof (mp_in_mask i d q Hd Hq) as Hmq.
      rewrite (Ht (clab img q) ax), (kappaM_cell q ax Hmq).
      rewrite (proj2 (proj1 (mp_comp i d p0 Hd Hp0 q) Hq)). reflexivity.
    - exists 0%Z. split; [reflexivity|]. apply Hgen. intros q Hq.
      assert (Hk : kcellM q ax = 0%Z).
      { unfold kcellM, ksh. rewrite (cof_ball i d q Hd Hq), Ha, Hx, Hper. reflexivity. }
      rewrite Hk. unfold final_state. apply off_no_edge; [|reflexivity].
      intros kl kh ax' Hin E'. subst ax'. apply in_edges in Hin. destruct Hin as [Hin _].
      apply periodic_axes_spec in Hin. destruct Hin as (a1 & Ha1 & Hp1). congruence.
  Qed.

  Theorem mp_axis_position i d k a x : nth_error ds i = Some d ->
    nth_error g k = Some a -> nth_error (fst d) k = Some x ->
    let pk := norm1 a (alo a + mpos st (crep i) k * adisc a) in
    Qabs (diff1 a x pk) <= adisc a / 2 /\ (aper a = true -> alo a <= pk /\ pk < ahi a).
  Proof.
    intros Hd Ha Hx. destruct (mp_position_lifted i d k a x Hd Ha Hx) as (T & HT0 & HT).
    pose proof (nth_error_In _ _ Hd) as Hin.
    exact (axis_position_of_lifted g (fst d) (snd d) k a x (mpos st (crep i) k) T Hok (Hpf d Hin)
             (Hne d Hin) Ha Hx HT0 HT).
  Qed.
End MultiPer.

(* one candidate per sphere *)
Theorem c01_multi_periodic g (ds : list sphere) lab hmax :
  let img := mk_limage (gshape g) lab in
  grid_ok g ->
  (forall d, In d ds -> pfits g (fst d) (snd d)) ->
  (forall d, In d ds -> ball_cells g (fst d) (snd d) <> []) ->
  0 <= hmax -> Forall (fun a => adisc a <= hmax) g ->
  (forall i j di dj, nth_error ds i = Some di -> nth_error ds j = Some dj -> i <> j ->
     (snd di + snd dj + hmax) * (snd di + snd dj + hmax) <= dist2 g (fst di) (fst dj)) ->
  wf_img g img -> LabelSpecImg img -> mask_is_emulsion g ds img ->
  length (candidates g lab) = length ds /\
  exists cidx : nat -> nat,
    (forall i, (i < length ds)%nat -> (cidx i < length ds)%nat) /\
    (forall i j, (i < length ds)%nat -> (j < length ds)%nat -> cidx i = cidx j -> i = j) /\
    forall i d, nth_error ds i = Some d ->
      exists pos vol,
        nth_error (candidates g lab) (cidx i) = Some (pos, vol) /\
        vol == cell_volume g * inject_Z (Z.of_nat (length (ball_cells g (fst d) (snd d)))) /\
        length pos = length g /\
        forall k a x, nth_error g k = Some a -> nth_error (fst d) k = Some x ->
          exists pk, nth_error pos k = Some pk /\
            Qabs (diff1 a x pk) <= adisc a / 2 /\ (aper a = true -> alo a <= pk /\ pk < ahi a).
Proof.
  intros img Hok Hpf Hne Hh0 Hh Hdist Hwf Hspec Hmask.
  assert (Hsep : forall i j di dj, nth_error ds i = Some di -> nth_error ds j = Some dj ->
                   i <> j -> apartT g di dj).
  { intros i j di dj Hi Hj Hij. apply (apartT_of_dist g di dj hmax Hok); try assumption.
    - apply pfits_length with (r := snd di). apply Hpf. exact (nth_error_In _ _ Hi).
    - apply pfits_length with (r := snd dj). apply Hpf. exact (nth_error_In _ _ Hj).
    - exact (Hdist i j di dj Hi Hj Hij). }
  set (st := final_state g img). set (R := reps st (num_labels img)).
  set (F := fun v => (normalize g (cell_to_grid g (map (mpos st v) (seq 0 (length g)))), mvol st v)).
  assert (Hcand : candidates g lab = map F R) by reflexivity.
  pose proof (mp_num_clusters g ds img Hok Hpf Hne Hsep Hwf Hspec Hmask) as HlenR. fold st R in HlenR.
  split; [rewrite Hcand, map_length; exact HlenR|].
  exists (fun i => index_of (crep g ds img i) R).
  assert (Hnth : forall i, (i < length ds)%nat -> exists d, nth_error ds i = Some d).
  { intros i Hi. destruct (nth_error ds i) as [d|] eqn:E; [exists d; reflexivity|].
    apply nth_error_None in E. lia. }
  assert (HinR : forall i d, nth_error ds i = Some d -> In (crep g ds img i) R).
  { intros i d Hd. exact (crep_in g ds img Hne Hwf Hmask i d Hd). }
  split; [|split].
  - intros i Hi. destruct (Hnth i Hi) as [d Hd]. rewrite <- HlenR.
    apply nth_error_Some. rewrite (index_of_nth _ R (HinR i d Hd)). discriminate.
  - intros i j Hi Hj E. destruct (Hnth i Hi) as [di Hdi]. destruct (Hnth j Hj) as [dj Hdj].
    pose proof (index_of_nth _ R (HinR i di Hdi)) as E1.
    pose proof (index_of_nth _ R (HinR j dj Hdj)) as E2.
    rewrite E in E1. rewrite E1 in E2. injection E2 as E2.
    exact (crep_inj g ds img Hok Hpf Hne Hsep Hwf Hspec Hmask i j di dj Hdi Hdj E2).
  - intros i d Hd. set (v := crep g ds img i).
    exists (fst (F v)), (snd (F v)). split; [|split; [|split]].
    + rewrite Hcand. rewrite (map_nth_error F _ R (index_of_nth v R (HinR i d Hd))).
      destruct (F v). reflexivity.
    + exact (mp_volume g ds img Hok Hpf Hne Hsep Hwf Hspec Hmask i d Hd).
    + apply normalize_cell_to_grid_length.
    + intros k a x Ha Hx. exists (norm1 a (alo a + mpos st v k * adisc a)). split.
      * exact (normalize_cell_to_grid_nth_gen g (mpos st v) 0 k a Ha).
      * exact (mp_axis_position g ds img Hok Hpf Hne Hsep Hwf Hspec Hmask i d k a x Hd Ha Hx).
Qed.

(* ---- the premises are satisfiable: two spheres on a periodic line of 12 unit cells, one of them
        straddling the boundary ---- *)
Definition exm_grid : grid := [ {| ncell := 12; alo := 0; ahi := 12; aper := true |} ].
Definition exm_d1 : sphere := ([1 # 5], 6 # 5).      (* covers cells 11 and 0 *)
Definition exm_d2 : sphere := ([6], 6 # 5).          (* covers cells 5 and 6 *)
Definition exm_lab : list nat := [1; 0; 0; 0; 0; 2; 2; 0; 0; 0; 0; 3]%nat.

Example c01_multi_periodic_nonvacuous :
  let g := exm_grid in let ds := [exm_d1; exm_d2] in
  let img := mk_limage (gshape g) exm_lab in
  grid_ok g /\
  (forall d, In d ds -> pfits g (fst d) (snd d)) /\
  (forall d, In d ds -> ball_cells g (fst d) (snd d) <> []) /\
  0 <= 1 /\ Forall (fun a => adisc a <= 1) g /\
  (forall i j di dj, nth_error ds i = Some di -> nth_error ds j = Some dj -> i <> j ->
     (snd di + snd dj + 1) * (snd di + snd dj + 1) <= dist2 g (fst di) (fst dj)) /\
  wf_img g img /\ LabelSpecImg img /\ mask_is_emulsion g ds img /\ num_labels img = 3%nat.
Proof.
  intros g ds img.
  assert (Hok : grid_ok g) by (apply grid_okb_true; vm_compute; reflexivity).
  assert (Hb1 : ball_cells g (fst exm_d1) (snd exm_d1) = [[0]; [11]]%Z) by (vm_compute; reflexivity).
  assert (Hb2 : ball_cells g (fst exm_d2) (snd exm_d2) = [[5]; [6]]%Z) by (vm_compute; reflexivity).
  split; [exact Hok|].
  split.
  { intros d [<-|[<-|[]]]; (constructor; [|constructor]); unfold pfits1; cbn [aper exm_grid];
      apply Qle_bool_iff; vm_compute; reflexivity. }
  split; [intros d [<-|[<-|[]]]; [rewrite Hb1|rewrite Hb2]; discriminate|].
  split; [discriminate|].
  split; [constructor; [apply Qle_bool_iff; vm_compute; reflexivity|constructor]|].
  split.
  { intros i j di dj Hi Hj Hij.
    destruct i as [|[|i]]; destruct j as [|[|j]]; cbn in Hi, Hj; try congruence;
      try (destruct i; discriminate Hi); try (destruct j; discriminate Hj);
      injection Hi as <-; injection Hj as <-; apply Qle_bool_iff; vm_compute; reflexivity. }
  split; [apply wf_imgb_true; vm_compute; reflexivity|].
  split; [|split; [intros idx Hr; mask_enum Hr|vm_compute; reflexivity]].
  assert (Hm : mask_cells img = [[0]; [5]; [6]; [11]]%Z) by (vm_compute; reflexivity).
  intros a b Ha Hb. split.
  - intros E. unfold box_conn, conn0. rewrite Hm in Ha, Hb. cbn [In] in Ha, Hb.
    repeat (destruct Ha as [<-|Ha]); try (destruct Ha);
      repeat (destruct Hb as [<-|Hb]); try (destruct Hb);
      first [ apply cr_refl | exfalso; vm_compute in E; discriminate E
            | apply cr_step; unfold step0; rewrite Hm; cbn [In];
              split; [tauto|split; [tauto|apply fa_here; reflexivity]] ].
  - intros Hc. unfold box_conn, conn0 in Hc.
    assert (Hinv : forall x y, clos (step0 cell (mask_cells img) face_adj) x y ->
                     (In x (mask_cells img) -> In y (mask_cells img) /\ lab_of img x = lab_of img y) /\
                     (In y (mask_cells img) -> In x (mask_cells img) /\ lab_of img x = lab_of img y)).
    { intros x y H. induction H as [x|x y _ [IH1 IH2]|x y z _ [IH1 IH2] _ [IH3 IH4]|x y (Hx & Hy & Hf)].
      - split; intros H0; (split; [exact H0|reflexivity]).
      - split; intros H0; [destruct (IH2 H0) as [H1 H2]|destruct (IH1 H0) as [H1 H2]];
          (split; [exact H1|congruence]).
      - split; intros H0.
        + destruct (IH1 H0) as [H1 E1]. destruct (IH3 H1) as [H2 E2]. split; [exact H2|congruence].
        + destruct (IH4 H0) as [H1 E1]. destruct (IH2 H1) as [H2 E2]. split; [exact H2|congruence].
      - assert (E : lab_of img x = lab_of img y).
        { rewrite Hm in Hx, Hy. cbn [In] in Hx, Hy.
          repeat (destruct Hx as [<-|Hx]); try (destruct Hx);
            repeat (destruct Hy as [<-|Hy]); try (destruct Hy);
            first [ reflexivity
                  | exfalso; inversion Hf as [x' y' c' Hd|x' c' d' Hf']; subst;
                    first [lia|inversion Hf'] ]. }
        split; intros _; (split; [assumption|exact E]). }
    exact (proj2 (proj1 (Hinv a b Hc) Ha)).
Qed.

Print Assumptions position_off_cluster.
Print Assumptions c01_multi_periodic_components.
Print Assumptions mp_num_clusters.
Print Assumptions c01_multi_periodic.
Print Assumptions c01_multi_periodic_nonvacuous.
