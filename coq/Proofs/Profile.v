(* C03, R-layer: facts about the elementwise expressions of the three `_get_phase_field` bodies, the
   scaling line of `get_phase_field` and the sum/clip of `Emulsion.get_phasefield`, as GENERATED from
   the current source (Gen_shapes).  Every proof goes through small characterising lemmas
   (`*_char`) closed by `lra`/`ring`, so that algebraically harmless rewrites of the source are
   absorbed while a changed comparison operator, operand order or scale factor is not. *)
From Coq Require Import Reals Lra List Permutation ZArith Bool.
From PD Require Import Gen.Gen_shapes.
Import ListNotations.
Local Open Scope R_scope.

(* ---------------------------------------------------------------------------------------- *)
(* tanh: range and strict monotonicity, from its exponential form                            *)
(* ---------------------------------------------------------------------------------------- *)
Lemma tanh_alt x : tanh x = 1 - 2 / (exp x * exp x + 1).
Proof.
  unfold tanh, sinh, cosh. rewrite exp_Ropp. pose proof (exp_pos x) as He.
  assert (Hq : 0 < exp x * exp x) by (apply Rmult_lt_0_compat; exact He).
  field. repeat split; lra.
Qed.

Lemma tanh_lt_1 x : tanh x < 1.
Proof.
  rewrite tanh_alt. pose proof (exp_pos x) as He.
  assert (Hq : 0 < exp x * exp x) by (apply Rmult_lt_0_compat; exact He).
  assert (Hd : 0 < 2 / (exp x * exp x + 1)) by (apply Rdiv_lt_0_compat; lra). lra.
Qed.

Lemma tanh_gt_m1 x : -1 < tanh x.
Proof.
  rewrite tanh_alt. pose proof (exp_pos x) as He.
  assert (Hq : 0 < exp x * exp x) by (apply Rmult_lt_0_compat; exact He).
  assert (Hd : 2 / (exp x * exp x + 1) < 2).
  { apply (Rmult_lt_reg_r (exp x * exp x + 1)); [lra|].
    unfold Rdiv. rewrite Rmult_assoc, Rinv_l by lra. lra. }
  lra.
Qed.

Lemma tanh_increasing x y : x < y -> tanh x < tanh y.
Proof.
  intros Hxy. rewrite !tanh_alt.
  pose proof (exp_pos x) as Hx. pose proof (exp_pos y) as Hy.
  pose proof (exp_increasing x y Hxy) as Hlt.
  assert (Hsq : exp x * exp x < exp y * exp y) by (apply Rmult_le_0_lt_compat; lra).
  assert (Hq : 0 < exp x * exp x) by (apply Rmult_lt_0_compat; exact Hx).
  assert (Hinv : / (exp y * exp y + 1) < / (exp x * exp x + 1)).
  { apply Rinv_lt_contravar; [apply Rmult_lt_0_compat; lra | lra]. }
  unfold Rdiv. lra.
Qed.

Lemma tanh_monotone x y : x <= y -> tanh x <= tanh y.
Proof. intros [H|H]; [left; apply tanh_increasing; exact H | subst; right; reflexivity]. Qed.

Lemma tanh_zero : tanh 0 = 0.
Proof. rewrite tanh_alt, exp_0. field. Qed.

Lemma tanh_pos_iff x : 0 < tanh x <-> 0 < x.
Proof.
  split; intros H.
  - destruct (Rlt_le_dec 0 x) as [Hx|Hx]; [exact Hx|].
    pose proof (tanh_monotone x 0 Hx) as Hm. rewrite tanh_zero in Hm. lra.
  - rewrite <- tanh_zero. apply tanh_increasing; exact H.
Qed.

Lemma tanh_neg_iff x : tanh x < 0 <-> x < 0.
Proof.
  split; intros H.
  - destruct (Rlt_le_dec x 0) as [Hx|Hx]; [exact Hx|].
    pose proof (tanh_monotone 0 x Hx) as Hm. rewrite tanh_zero in Hm. lra.
  - rewrite <- tanh_zero. apply tanh_increasing; exact H.
Qed.

Lemma div_pos_iff a w : 0 < w -> (0 < a / w <-> 0 < a).
Proof.
  intros Hw. split; intros H.
  - replace a with (a / w * w) by (field; lra). apply Rmult_lt_0_compat; assumption.
  - apply Rdiv_lt_0_compat; assumption.
Qed.

Lemma div_le_compat a b w : 0 < w -> a <= b -> a / w <= b / w.
Proof.
  intros Hw Hab. unfold Rdiv. apply Rmult_le_compat_r; [left; apply Rinv_0_lt_compat; exact Hw|exact Hab].
Qed.

(* ---------------------------------------------------------------------------------------- *)
(* characterising lemmas of the generated definitions                                        *)
(* ---------------------------------------------------------------------------------------- *)
Ltac mask_char :=
  match goal with |- context [if ?c then true else false] => destruct c as [Hc|Hc] end;
  split; intros Hm; try discriminate; try reflexivity; try lra; exfalso; lra.

Lemma spherical_mask_char d r : spherical_mask d r = true <-> d < r.
Proof. unfold spherical_mask. mask_char. Qed.
Lemma diffuse_mask_char d r : diffuse_mask d r = true <-> d < r.
Proof. unfold diffuse_mask. mask_char. Qed.
Lemma perturbed_mask_char d i : perturbed_mask d i = true <-> d < i.
Proof. unfold perturbed_mask. mask_char. Qed.

Lemma spherical_inside_char d r : spherical_inside d r <-> d < r.
Proof. unfold spherical_inside. lra. Qed.
Lemma diffuse_inside_char d r : diffuse_inside d r <-> d < r.
Proof. unfold diffuse_inside. lra. Qed.
Lemma perturbed_inside_char d i : perturbed_inside d i <-> d < i.
Proof. unfold perturbed_inside. lra. Qed.

Lemma diffuse_profile_char d r w : diffuse_profile d r w = 1 / 2 + 1 / 2 * tanh ((r - d) / w).
Proof. unfold diffuse_profile. lra. Qed.
Lemma perturbed_profile_char d i w : perturbed_profile d i w = 1 / 2 + 1 / 2 * tanh ((i - d) / w).
Proof. unfold perturbed_profile. lra. Qed.

Lemma scale_value_char vmin vmax p : scale_value vmin vmax p = vmin + (vmax - vmin) * p.
Proof. unfold scale_value. ring. Qed.

Lemma clip_bounds_char : clip_lo = 0 /\ clip_hi = 1.
Proof. unfold clip_lo, clip_hi. split; lra. Qed.

Lemma mask_of_bool (b : bool) (P : Prop) : (b = true <-> P) -> (b = false <-> ~ P).
Proof. intros [H1 H2]. destruct b; split; intros H; try discriminate; auto.
  - exfalso. apply H. apply H1. reflexivity.
  - intros HP. apply H2 in HP. discriminate.
Qed.

Lemma astype_float_char b : (astype_float b = 1 <-> b = true) /\ (astype_float b = 0 <-> b = false).
Proof. unfold astype_float. destruct b; repeat split; intros H; try reflexivity; try discriminate; exfalso; lra. Qed.

(* the generic shape shared by the diffuse and the perturbed variant *)
Definition tanh_profile (d i w : R) : R := 1 / 2 + 1 / 2 * tanh ((i - d) / w).

Lemma diffuse_field_char b d r w :
  (w = 0 \/ b = true -> diffuse_field b d r w = astype_float (diffuse_mask d r)) /\
  (w <> 0 -> b = false -> diffuse_field b d r w = tanh_profile d r w).
Proof.
  unfold diffuse_field. split.
  - intros [H|H]; destruct (Req_EM_T w 0) as [E|E]; try reflexivity; try contradiction.
    subst b. reflexivity.
  - intros Hw Hb. destruct (Req_EM_T w 0) as [E|E]; [contradiction|]. subst b.
    apply diffuse_profile_char.
Qed.

Lemma perturbed_field_char b d i w :
  (w = 0 \/ b = true -> perturbed_field b d i w = astype_float (perturbed_mask d i)) /\
  (w <> 0 -> b = false -> perturbed_field b d i w = tanh_profile d i w).
Proof.
  unfold perturbed_field. split.
  - intros [H|H]; destruct (Req_EM_T w 0) as [E|E]; try reflexivity; try contradiction.
    subst b. reflexivity.
  - intros Hw Hb. destruct (Req_EM_T w 0) as [E|E]; [contradiction|]. subst b.
    apply perturbed_profile_char.
Qed.

Lemma render_dtype_char : render_dtype_is_bool = false.
Proof. reflexivity. Qed.

(* the branch predicate is exactly the condition under which the sharp branch is taken *)
Lemma diffuse_sharp_branch_char w b : diffuse_sharp_branch w b <-> (w = 0 \/ b = true).
Proof. unfold diffuse_sharp_branch. tauto. Qed.
Lemma perturbed_sharp_branch_char w b : perturbed_sharp_branch w b <-> (w = 0 \/ b = true).
Proof. unfold perturbed_sharp_branch. tauto. Qed.

(* ---------------------------------------------------------------------------------------- *)
(* generic facts about  tanh_profile  and an indicator                                       *)
(* ---------------------------------------------------------------------------------------- *)
Lemma tanh_profile_range d i w : 0 < tanh_profile d i w < 1.
Proof.
  unfold tanh_profile. pose proof (tanh_lt_1 ((i - d) / w)). pose proof (tanh_gt_m1 ((i - d) / w)). lra.
Qed.

Lemma tanh_profile_above_half d i w : 0 < w -> (1 / 2 < tanh_profile d i w <-> d < i).
Proof.
  intros Hw. unfold tanh_profile.
  pose proof (tanh_pos_iff ((i - d) / w)) as Ht. pose proof (div_pos_iff (i - d) w Hw) as Hd.
  split; intros H.
  - assert (H0 : 0 < tanh ((i - d) / w)) by lra. apply Ht, Hd in H0. lra.
  - assert (H0 : 0 < i - d) by lra. apply Hd, Ht in H0. lra.
Qed.

Lemma tanh_profile_monotone d d' i w : 0 < w -> d <= d' -> tanh_profile d' i w <= tanh_profile d i w.
Proof.
  intros Hw Hd. unfold tanh_profile.
  assert (H : tanh ((i - d') / w) <= tanh ((i - d) / w)).
  { apply tanh_monotone, div_le_compat; [exact Hw|lra]. }
  lra.
Qed.

Definition indicator (d i : R) : R := if Rlt_dec d i then 1 else 0.

Lemma indicator_mask (m : R -> R -> bool) d i :
  (m d i = true <-> d < i) -> astype_float (m d i) = indicator d i.
Proof.
  intros H. unfold indicator, astype_float. destruct (Rlt_dec d i) as [L|L].
  - apply H in L. rewrite L. reflexivity.
  - destruct (m d i) eqn:E; [exfalso; apply L, H; reflexivity|reflexivity].
Qed.

Lemma indicator_monotone d d' i : d <= d' -> indicator d' i <= indicator d i.
Proof.
  intros Hd. unfold indicator. destruct (Rlt_dec d' i), (Rlt_dec d i); lra.
Qed.

Lemma indicator_01 d i : (d < i -> indicator d i = 1) /\ (~ d < i -> indicator d i = 0).
Proof. unfold indicator. destruct (Rlt_dec d i); split; intros; try reflexivity; contradiction. Qed.

(* one statement about the unscaled value p of a cell: the full picture *)
Record faithful (p d i : R) : Prop := {
  f_range : 0 <= p <= 1;
  f_half : 1 / 2 < p <-> d < i;
}.

Lemma indicator_faithful d i : faithful (indicator d i) d i.
Proof.
  unfold indicator. split; destruct (Rlt_dec d i); try lra; split; intros; try lra; contradiction.
Qed.

Lemma tanh_profile_faithful d i w : 0 < w -> faithful (tanh_profile d i w) d i.
Proof.
  intros Hw. split; [pose proof (tanh_profile_range d i w); lra | apply tanh_profile_above_half; exact Hw].
Qed.

(* ---------------------------------------------------------------------------------------- *)
(* scaling                                                                                   *)
(* ---------------------------------------------------------------------------------------- *)
Lemma scaled_between_lemma vmin vmax p : 0 <= p <= 1 ->
  (vmin <= vmax -> vmin <= scale_value vmin vmax p <= vmax) /\
  (vmax <= vmin -> vmax <= scale_value vmin vmax p <= vmin).
Proof. intros Hp. rewrite scale_value_char. split; intros H; split; nra. Qed.

Lemma scaled_minmax vmin vmax p : 0 <= p <= 1 ->
  Rmin vmin vmax <= scale_value vmin vmax p <= Rmax vmin vmax.
Proof.
  intros Hp. destruct (scaled_between_lemma vmin vmax p Hp) as [H1 H2].
  unfold Rmin, Rmax. destruct (Rle_dec vmin vmax) as [L|L]; [apply H1; exact L|apply H2; lra].
Qed.

Lemma scaled_above_mid vmin vmax p : vmin < vmax ->
  (scale_value vmin vmax p > (vmin + vmax) / 2 <-> 1 / 2 < p).
Proof. intros H. rewrite scale_value_char. split; intros; nra. Qed.

Lemma scaled_below_mid vmin vmax p : vmax < vmin ->
  (scale_value vmin vmax p < (vmin + vmax) / 2 <-> 1 / 2 < p).
Proof. intros H. rewrite scale_value_char. split; intros; nra. Qed.

Lemma scaled_monotone vmin vmax p q : p <= q ->
  (vmin <= vmax -> scale_value vmin vmax p <= scale_value vmin vmax q) /\
  (vmax <= vmin -> scale_value vmin vmax q <= scale_value vmin vmax p).
Proof. intros H. rewrite !scale_value_char. split; intros; nra. Qed.

Lemma scaled_ends vmin vmax : scale_value vmin vmax 0 = vmin /\ scale_value vmin vmax 1 = vmax.
Proof. rewrite !scale_value_char. split; ring. Qed.

(* ---------------------------------------------------------------------------------------- *)
(* the three classes: unscaled field values                                                  *)
(* ---------------------------------------------------------------------------------------- *)
Lemma spherical_field_indicator d r : spherical_field d r = indicator d r.
Proof. unfold spherical_field. apply indicator_mask, spherical_mask_char. Qed.

(* valid interface widths: the setter rejects negative numbers; `None` is replaced by the grid's
   typical discretization, which is positive *)
Lemma diffuse_field_cases b d r w : 0 <= w ->
  (w = 0 \/ b = true -> diffuse_field b d r w = indicator d r) /\
  (0 < w -> b = false -> diffuse_field b d r w = tanh_profile d r w).
Proof.
  intros Hw. destruct (diffuse_field_char b d r w) as [H1 H2]. split.
  - intros H. rewrite (H1 H). apply indicator_mask, diffuse_mask_char.
  - intros Hp Hb. apply H2; [lra|exact Hb].
Qed.

Lemma perturbed_field_cases b d i w : 0 <= w ->
  (w = 0 \/ b = true -> perturbed_field b d i w = indicator d i) /\
  (0 < w -> b = false -> perturbed_field b d i w = tanh_profile d i w).
Proof.
  intros Hw. destruct (perturbed_field_char b d i w) as [H1 H2]. split.
  - intros H. rewrite (H1 H). apply indicator_mask, perturbed_mask_char.
  - intros Hp Hb. apply H2; [lra|exact Hb].
Qed.

Lemma diffuse_field_faithful b d r w : 0 <= w -> faithful (diffuse_field b d r w) d r.
Proof.
  intros Hw. destruct (diffuse_field_cases b d r w Hw) as [H1 H2].
  destruct (Req_EM_T w 0) as [E|E].
  - rewrite H1 by (left; exact E). apply indicator_faithful.
  - destruct b.
    + rewrite H1 by (right; reflexivity). apply indicator_faithful.
    + rewrite H2 by (try reflexivity; lra). apply tanh_profile_faithful. lra.
Qed.

Lemma perturbed_field_faithful b d i w : 0 <= w -> faithful (perturbed_field b d i w) d i.
Proof.
  intros Hw. destruct (perturbed_field_cases b d i w Hw) as [H1 H2].
  destruct (Req_EM_T w 0) as [E|E].
  - rewrite H1 by (left; exact E). apply indicator_faithful.
  - destruct b.
    + rewrite H1 by (right; reflexivity). apply indicator_faithful.
    + rewrite H2 by (try reflexivity; lra). apply tanh_profile_faithful. lra.
Qed.

Lemma diffuse_field_monotone b d d' r w : 0 <= w -> d <= d' ->
  diffuse_field b d' r w <= diffuse_field b d r w.
Proof.
  intros Hw Hd. destruct (diffuse_field_cases b d r w Hw) as [H1 H2].
  destruct (diffuse_field_cases b d' r w Hw) as [H1' H2'].
  destruct (Req_EM_T w 0) as [E|E].
  - rewrite H1, H1' by (left; exact E). apply indicator_monotone; exact Hd.
  - destruct b.
    + rewrite H1, H1' by (right; reflexivity). apply indicator_monotone; exact Hd.
    + rewrite H2, H2' by (try reflexivity; lra). apply tanh_profile_monotone; [lra|exact Hd].
Qed.

Lemma perturbed_field_monotone b d d' i w : 0 <= w -> d <= d' ->
  perturbed_field b d' i w <= perturbed_field b d i w.
Proof.
  intros Hw Hd. destruct (perturbed_field_cases b d i w Hw) as [H1 H2].
  destruct (perturbed_field_cases b d' i w Hw) as [H1' H2'].
  destruct (Req_EM_T w 0) as [E|E].
  - rewrite H1, H1' by (left; exact E). apply indicator_monotone; exact Hd.
  - destruct b.
    + rewrite H1, H1' by (right; reflexivity). apply indicator_monotone; exact Hd.
    + rewrite H2, H2' by (try reflexivity; lra). apply tanh_profile_monotone; [lra|exact Hd].
Qed.

(* the width that is used: None -> typical discretization *)
Definition valid_width (ow : option R) : Prop := match ow with None => True | Some w => 0 <= w end.

Lemma diffuse_width_nonneg ow h : 0 < h -> valid_width ow -> 0 <= diffuse_width ow h.
Proof. unfold diffuse_width, valid_width. destruct ow; intros; lra. Qed.
Lemma perturbed_width_nonneg ow h : 0 < h -> valid_width ow -> 0 <= perturbed_width ow h.
Proof. unfold perturbed_width, valid_width. destruct ow; intros; lra. Qed.
Lemma diffuse_width_char ow h :
  diffuse_width ow h = match ow with None => h | Some w => w end.
Proof. reflexivity. Qed.
Lemma perturbed_width_char ow h :
  perturbed_width ow h = match ow with None => h | Some w => w end.
Proof. reflexivity. Qed.

(* ---------------------------------------------------------------------------------------- *)
(* emulsions: sum, clip, order independence                                                  *)
(* ---------------------------------------------------------------------------------------- *)
Definition Rsum (l : list R) : R := fold_right Rplus 0 l.

Lemma fold_left_Rplus l a : fold_left Rplus l a = a + Rsum l.
Proof.
  revert a. induction l as [|x l IH]; intros a; simpl; [ring|]. rewrite IH. ring.
Qed.

Lemma emulsion_sum_char l : emulsion_sum l = Rsum l.
Proof. destruct l as [|x l]; simpl; [reflexivity|]. apply fold_left_Rplus. Qed.

Lemma Rsum_perm l l' : Permutation l l' -> Rsum l = Rsum l'.
Proof.
  intros H. induction H as [|x l l' _ IH|x y l|l l' l'' _ IH1 _ IH2]; simpl.
  - reflexivity.
  - rewrite IH. reflexivity.
  - ring.
  - rewrite IH1. exact IH2.
Qed.

Lemma np_clip_range x lo hi : lo <= hi -> lo <= np_clip x lo hi <= hi.
Proof.
  intros H. unfold np_clip, Rmin, Rmax.
  destruct (Rle_dec x lo); destruct (Rle_dec _ hi); lra.
Qed.

Lemma np_clip_id x lo hi : lo <= x <= hi -> np_clip x lo hi = x.
Proof.
  intros H. unfold np_clip, Rmin, Rmax.
  destruct (Rle_dec x lo); destruct (Rle_dec _ hi); lra.
Qed.

Lemma emulsion_cell_char l : emulsion_cell l = np_clip (Rsum l) 0 1.
Proof.
  destruct clip_bounds_char as [Hlo Hhi].
  destruct l as [|x l].
  - simpl. unfold emulsion_empty_value. symmetry. apply np_clip_id. lra.
  - unfold emulsion_cell. rewrite emulsion_sum_char, Hlo, Hhi. reflexivity.
Qed.

Lemma emulsion_perm l l' : Permutation l l' -> emulsion_cell l = emulsion_cell l'.
Proof. intros H. rewrite !emulsion_cell_char, (Rsum_perm l l' H). reflexivity. Qed.

Lemma emulsion_range l : 0 <= emulsion_cell l <= 1.
Proof. rewrite emulsion_cell_char. apply np_clip_range. lra. Qed.

(* a sum of non-negative member values that stays below 1 is not changed by the clip; a single
   droplet's emulsion field is the droplet's field *)
Lemma emulsion_single p : 0 <= p <= 1 -> emulsion_cell [p] = p.
Proof. intros H. rewrite emulsion_cell_char. simpl. rewrite Rplus_0_r. apply np_clip_id; exact H. Qed.

(* for sharp members (values 0/1) the clipped sum exceeds 1/2 iff some member is inside: cellwise OR *)
Lemma Rsum_nonneg l : Forall (fun p => 0 <= p) l -> 0 <= Rsum l.
Proof. induction 1 as [|x l Hx _ IH]; simpl; lra. Qed.

Lemma Rsum_01 l : Forall (fun p => p = 0 \/ p = 1) l ->
  (Rsum l = 0 /\ Forall (fun p => p = 0) l) \/ (1 <= Rsum l /\ Exists (fun p => p = 1) l).
Proof.
  induction 1 as [|x l Hx _ IH]; simpl.
  - left. split; [reflexivity|constructor].
  - destruct Hx as [Hx|Hx]; subst x.
    + destruct IH as [[H0 HF]|[H1 HE]].
      * left. split; [lra|constructor; [reflexivity|exact HF]].
      * right. split; [lra|apply Exists_cons_tl; exact HE].
    + right. split; [|apply Exists_cons_hd; reflexivity].
      destruct IH as [[H0 _]|[H1 _]]; lra.
Qed.

Lemma emulsion_sharp_or l : Forall (fun p => p = 0 \/ p = 1) l ->
  (emulsion_cell l = 1 <-> Exists (fun p => p = 1) l) /\
  (emulsion_cell l = 0 <-> Forall (fun p => p = 0) l) /\
  (emulsion_cell l = 0 \/ emulsion_cell l = 1).
Proof.
  intros H. rewrite emulsion_cell_char. destruct (Rsum_01 l H) as [[H0 HF]|[H1 HE]].
  - rewrite H0. assert (E : np_clip 0 0 1 = 0) by (apply np_clip_id; lra). rewrite E.
    split; [|split].
    + split; [intros; lra|]. intros HE. exfalso. apply Exists_exists in HE. destruct HE as [p [Hin Hp]].
      rewrite Forall_forall in HF. specialize (HF p Hin). lra.
    + split; [intros _; exact HF | reflexivity].
    + left. reflexivity.
  - assert (E : np_clip (Rsum l) 0 1 = 1).
    { unfold np_clip, Rmin, Rmax. destruct (Rle_dec (Rsum l) 0); destruct (Rle_dec _ 1); lra. }
    rewrite E. split; [|split].
    + split; [intros _; exact HE | reflexivity].
    + split; [intros; lra|]. intros HF. exfalso. apply Exists_exists in HE. destruct HE as [p [Hin Hp]].
      rewrite Forall_forall in HF. specialize (HF p Hin). lra.
    + right. reflexivity.
Qed.

(* ---------------------------------------------------------------------------------------- *)
(* the dimension guard                                                                       *)
(* ---------------------------------------------------------------------------------------- *)
Lemma render_guard_char dd gd : (render_guard dd gd = None <-> dd = gd) /\
  (dd <> gd -> render_guard dd gd = Some ValueError).
Proof.
  unfold render_guard. destruct (Z.eqb dd gd) eqn:E; simpl.
  - apply Z.eqb_eq in E. split; [split; auto|intros; contradiction].
  - apply Z.eqb_neq in E. split; [split; [discriminate|intros; contradiction]|reflexivity].
Qed.

(* ---------------------------------------------------------------------------------------- *)
(* the angle of polar_coordinates over the reals: guarded quotient, defined for every cell   *)
(* ---------------------------------------------------------------------------------------- *)
Definition Rdiv_opt (a b : R) : option R := if Req_EM_T b 0 then None else Some (a / b).
Definition cos_theta_R (dz dist : R) : option R := if Rlt_dec 0 dist then Rdiv_opt dz dist else Some 1.

Lemma cos_theta_R_total dx dy dz :
  exists v, cos_theta_R dz (sqrt (dx * dx + dy * dy + dz * dz)) = Some v /\ -1 <= v <= 1.
Proof.
  set (s := dx * dx + dy * dy + dz * dz).
  assert (Hs : 0 <= s) by (unfold s; nra).
  unfold cos_theta_R. destruct (Rlt_dec 0 (sqrt s)) as [Hp|Hp].
  - unfold Rdiv_opt. destruct (Req_EM_T (sqrt s) 0) as [E|E]; [lra|].
    exists (dz / sqrt s). split; [reflexivity|].
    assert (Hsq : sqrt s * sqrt s = s) by (apply sqrt_sqrt; exact Hs).
    assert (Hz : dz * dz <= sqrt s * sqrt s) by (rewrite Hsq; unfold s; nra).
    assert (Hb : - sqrt s <= dz <= sqrt s) by (split; nra).
    split.
    + apply (Rmult_le_reg_r (sqrt s)); [exact Hp|]. unfold Rdiv. rewrite Rmult_assoc, Rinv_l by exact E. lra.
    + apply (Rmult_le_reg_r (sqrt s)); [exact Hp|]. unfold Rdiv. rewrite Rmult_assoc, Rinv_l by exact E. lra.
  - exists 1. split; [reflexivity|lra].
Qed.
