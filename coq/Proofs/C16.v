(* C16 -- the structure factor is a normalised, symmetry-invariant power spectrum.
   The model `gsf_model` of get_structure_factor composes the lines generated from the current
   droplets/image_analysis.py (Gen_spectrum: norm keyword, .flat slices, normalisation, wave-number
   lines, control flow) with the oracles numpy.fft.fftn (premise dft_spec), numpy.fft.fftfreq /
   max / linspace and py-pde's SmoothData1D (Model.Spectrum). *)
From Coq Require Import Reals Lra List ZArith Lia Bool Permutation Arith.
Import ListNotations.
From PD Require Import Model.Num Model.Spectrum Gen.Gen_spectrum
  Proofs.SpectrumLists Proofs.SpectrumSF Proofs.SpectrumSmooth Proofs.SpectrumDFT4.
Local Open Scope R_scope.

(* grid.cuboid.size = number of cells times spacing per axis *)
Definition extents (shape : list nat) (h : list R) : list R := zip_mul (map INR shape) h.
Definition size_max (shape : list nat) (h : list R) : R := list_max (extents shape h).

(* get_structure_factor(field, smoothing, wave_numbers, add_zero) on a grid (shape, h):
   flags = (smoothing enabled, smoothing == "auto", no wave numbers requested, add_zero) *)
Definition gsf_model (F : dft_oracle) (shape : list nat) (h : list R) (x : field)
    (on au nw az : bool) (sm : R) (wn : list R) : list R * list R :=
  gsf_tail on au nw az sm (size_max shape h) wn (k_list shape h) (sf_list F shape x).

Lemma k_sf_lengths F shape h x : length (k_list shape h) = length (sf_list F shape x).
Proof. unfold k_list, sf_list, k_modes, sf_modes, drop_first, drop_first_k. rewrite !map_length. reflexivity. Qed.

Lemma swap_at_perm {A} i (l : list A) : Permutation (swap_at i l) l.
Proof.
  revert l. induction i as [|i IH]; intros l.
  - destruct l as [|a [|b r]]; try apply Permutation_refl. apply perm_swap.
  - destruct l as [|a r]; [apply Permutation_refl|]. simpl. apply perm_skip. apply IH.
Qed.

Lemma extents_swap i shape h : length h = length shape ->
  extents (swap_at i shape) (swap_at i h) = swap_at i (extents shape h).
Proof.
  unfold extents. revert shape h. induction i as [|i IH]; intros shape h Hl.
  - destruct shape as [|a [|b shape]]; destruct h as [|u [|v h]]; try discriminate; reflexivity.
  - destruct shape as [|a shape]; destruct h as [|u h]; try discriminate; [reflexivity|].
    cbn [swap_at map zip_mul]. rewrite IH by (simpl in Hl; lia). reflexivity.
Qed.

Lemma size_max_swap i shape h : length h = length shape ->
  size_max (swap_at i shape) (swap_at i h) = size_max shape h.
Proof. intros Hl. unfold size_max. rewrite extents_swap by exact Hl. apply list_max_perm, swap_at_perm. Qed.

Lemma extents_scale s shape h : extents shape (map (Rmult s) h) = map (Rmult s) (extents shape h).
Proof.
  unfold extents. generalize (map INR shape) as a. intros a. revert h.
  induction a as [|u a IH]; intros h; [reflexivity|]. destruct h as [|v h]; [reflexivity|].
  cbn [map zip_mul]. rewrite IH. f_equal. ring.
Qed.

Section C16.
  Variable dom : list nat -> Prop.
  Variable F : dft_oracle.
  Hypothesis HF : dft_spec dom F.

  (* -------- unsmoothed structure factor *)
  Lemma c16_sf_nonneg shape x : sumsq shape x <> 0 -> Forall (fun v => 0 <= v) (sf_list F shape x).
  Proof. apply sf_list_nonneg. Qed.

  Lemma c16_sf_sum shape x : dom shape -> Forall (fun n => (0 < n)%nat) shape -> sumsq shape x <> 0 ->
    rsum (sf_list F shape x) = 1 - total shape x ^ 2 / (INR (size_of shape) * sumsq shape x).
  Proof. apply (sf_sum dom F HF). Qed.

  Lemma c16_sf_scale_inv shape c x : dom shape -> c <> 0 -> sumsq shape x <> 0 ->
    sf_list F shape (fun n => c * x n) = sf_list F shape x.
  Proof. apply (sf_list_scale_inv dom F HF). Qed.

  Lemma c16_sf_shift_inv shape s x : dom shape ->
    sf_list F shape (fun n => x (shift_idx shape s n)) = sf_list F shape x.
  Proof. apply (sf_list_shift_inv dom F HF). Qed.

  Lemma c16_sf_reflect_perm shape h ax x : dom shape -> Forall (fun n => (0 < n)%nat) shape ->
    Permutation (sf_pairs F shape h (fun n => x (reflect_idx shape ax n))) (sf_pairs F shape h x).
  Proof. apply (sf_reflect_perm dom F HF). Qed.

  Lemma c16_sf_axis_perm i shape h x : dom shape -> dom (swap_at i shape) ->
    Forall (fun n => (0 < n)%nat) shape -> length h = length shape ->
    Permutation (sf_pairs F (swap_at i shape) (swap_at i h) (fun n => x (swap_at i n)))
                (sf_pairs F shape h x).
  Proof. apply (sf_axis_swap_perm dom F HF). Qed.

  Lemma c16_sf_flip_perm shape h ax s x : dom shape -> Forall (fun n => (0 < n)%nat) shape ->
    Permutation (sf_pairs F shape h (fun n => x (reflect_idx shape ax (shift_idx shape s n)))) (sf_pairs F shape h x).
  Proof. apply (sf_flip_perm dom F HF). Qed.

  Lemma c16_sf_axis_perm_seq swaps : (forall i s, dom s -> dom (swap_at i s)) ->
    forall shape h x, dom shape -> Forall (fun n => (0 < n)%nat) shape -> length h = length shape ->
    Permutation (sf_pairs F (fold_left (fun l i => swap_at i l) swaps shape)
                          (fold_left (fun l i => swap_at i l) swaps h)
                          (fun n => x (fold_right (fun i m => swap_at i m) n swaps)))
                (sf_pairs F shape h x).
  Proof. apply (sf_axis_perm_seq dom F HF). Qed.

  (* the arrays returned for smoothing=None are these lists *)
  Lemma c16_unsmoothed_is_raw shape h x au nw sm wn :
    gsf_model F shape h x false au nw false sm wn = (k_list shape h, sf_list F shape x).
  Proof. unfold gsf_model. apply unsmoothed_returns_raw. Qed.

  (* -------- smoothed variant / add_zero (control flow generated from the source) *)
  Lemma c16_add_zero_prepends shape h x on au nw sm wn :
    gsf_model F shape h x on au nw true sm wn =
    (0 :: fst (gsf_model F shape h x on au nw false sm wn),
     1 :: snd (gsf_model F shape h x on au nw false sm wn)).
  Proof. unfold gsf_model. apply add_zero_prepends. Qed.

  Lemma c16_smoothed_returns_wave_numbers shape h x au sm wn :
    fst (gsf_model F shape h x true au false false sm wn) = wn /\
    fst (gsf_model F shape h x true au false true sm wn) = 0 :: wn.
  Proof.
    unfold gsf_model. rewrite add_zero_prepends, smoothed_returns_wave_numbers. split; reflexivity.
  Qed.

  (* the smoothed variant shares the invariances *)
  Lemma c16_smoothed_shares_invariances shape h x on au nw az sm wn :
    dom shape -> Forall (fun n => (0 < n)%nat) shape -> sumsq shape x <> 0 ->
    (forall c, c <> 0 ->
       gsf_model F shape h (fun n => c * x n) on au nw az sm wn = gsf_model F shape h x on au nw az sm wn) /\
    (forall s,
       gsf_model F shape h (fun n => x (shift_idx shape s n)) on au nw az sm wn =
       gsf_model F shape h x on au nw az sm wn) /\
    (forall ax,
       gsf_model F shape h (fun n => x (reflect_idx shape ax n)) true au nw az sm wn =
       gsf_model F shape h x true au nw az sm wn) /\
    (forall i, dom (swap_at i shape) -> length h = length shape ->
       gsf_model F (swap_at i shape) (swap_at i h) (fun n => x (swap_at i n)) true au nw az sm wn =
       gsf_model F shape h x true au nw az sm wn).
  Proof.
    intros Hd Hpos Hs. unfold gsf_model. repeat split.
    - intros c Hc. rewrite (sf_list_scale_inv dom F HF) by assumption. reflexivity.
    - intros s. rewrite (sf_list_shift_inv dom F HF) by assumption. reflexivity.
    - intros ax. apply smoothed_depends_on_pairs; try apply k_sf_lengths.
      apply (sf_reflect_perm dom F HF); assumption.
    - intros i Hd' Hl. rewrite size_max_swap by exact Hl.
      apply smoothed_depends_on_pairs; try apply k_sf_lengths.
      apply (sf_axis_swap_perm dom F HF); assumption.
  Qed.
End C16.

(* -------- wave numbers (no oracle premise) *)
Lemma c16_k_is_fftfreq n h m : (0 < n)%nat -> h <> 0 ->
  wave_number n h m = IZR (fft_int_freq n m) * (2 * PI / (INR n * h)) /\
  k2_component n h m = wave_number n h m ^ 2.
Proof. intros Hn Hh. split; [apply k_is_fftfreq; assumption|reflexivity]. Qed.

Lemma c16_k_scaling shape h s : 0 < s ->
  Forall (fun n => (0 < n)%nat) shape -> Forall (fun hi => hi <> 0) h ->
  (forall n hi m, (0 < n)%nat -> hi <> 0 -> wave_number n (s * hi) m = wave_number n hi m / s) /\
  k_list shape (map (Rmult s) h) = map (fun k => k / s) (k_list shape h).
Proof.
  intros Hs Hsh Hh. split.
  - intros n hi m Hn Hhi. apply wave_number_scaling; try assumption. lra.
  - apply k_list_scaling; assumption.
Qed.

(* the magnitude is the Euclidean norm of the component wave numbers *)
Lemma c16_k_mag_norm shape h k :
  k_mag shape h k = sqrt (rsum (k2s shape h k)).
Proof. reflexivity. Qed.

(* -------- non-vacuity: the premises are met by the executable N = 4 transform and a non-zero field *)
Definition ramp4 : field := fun k => match k with [m] => INR m | _ => 0 end.

Lemma c16_nonvacuous :
  dft_spec dom4 dft4 /\ dom4 [4%nat] /\ dom4 (swap_at 0 [4%nat]) /\
  Forall (fun n => (0 < n)%nat) [4%nat] /\ sumsq [4%nat] ramp4 <> 0 /\
  length [/ 2] = length [4%nat] /\ Forall (fun hi => hi <> 0) [/ 2].
Proof.
  split; [apply dft4_spec|]. split; [reflexivity|]. split; [reflexivity|].
  split; [repeat constructor|]. split.
  - unfold sumsq, sum_over, rsum, ramp4. simpl. lra.
  - split; [reflexivity|]. repeat constructor. lra.
Qed.
