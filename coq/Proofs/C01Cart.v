(* C01 on Cartesian grids: locating the rendered image of sharp spheres.
   Assembled from the ball geometry (Proofs/Ball*.v) and the locator model (Model/Locate.v).
   The labelling (scipy.ndimage.label) enters through the premise LabelSpecImg, the rendering through
   "the non-zero cells of the label image are exactly the covered cells".

   (A) c01_single (non-periodic grid, one sphere inside the box, at least one covered cell):
         candidates g lab = [(pos, vol)],  vol == cell_volume g * #covered cells,
         |pos_k - c_k| <= h_k / 2 along every axis k.
       Pieces: single_label / single_num_labels (one label), nonper_final_state (no merging on a
       non-periodic grid), reps_init, normalize_cell_to_grid_nth (position wrapper), cluster_stats.
   (B) c01_multi_components, c01_multi_labels, c01_multi_num_labels, c01_multi, c01_multi_euclid
       (several mutually separated spheres on a non-periodic grid), c01_multi_no_removal.
   (C) one sphere on a grid with any mixture of periodic axes, centre anywhere along periodic axes:
       c01_periodic_single_partial (2 r <= L along periodic axes): one cluster, one candidate, exact volume;
       c01_periodic_single (2 r + 2 h <= L along periodic axes): in addition the centre of the candidate is
       within half a grid spacing of c under the periodic metric and inside the box along periodic axes. *)
From Coq Require Import QArith Qabs Qround ZArith List Arith Bool Lia Lqa Setoid Morphisms Permutation.
Import ListNotations.
From PD Require Import Model.Grid Model.Render Model.MergeLoop Model.Locate Model.Ball Model.Overlap
  Proofs.Render Proofs.MergeLoop Proofs.Components Proofs.LocateCart Proofs.Overlap
  Proofs.BallRow Proofs.BallCentroid Proofs.BallSep Proofs.BallConn Proofs.BallEuclid Proofs.BallTorus Proofs.BallLift.
Local Open Scope Q_scope.

Local Notation in_rangeL := LocateCart.in_range.

(* ------------------------------------------------------------------------------------------ *)
(* the locator on a non-periodic grid: no edges, no merging                                     *)
(* ------------------------------------------------------------------------------------------ *)
Lemma nonper_periodic_axes g : nonper g -> periodic_axes g = [].
Proof.
  intros Hnp. destruct (periodic_axes g) as [|ax l] eqn:E; [reflexivity|exfalso].
  assert (Hin : In ax (periodic_axes g)) by (rewrite E; left; reflexivity).
  apply periodic_axes_spec in Hin. destruct Hin as (a & Hn & Hp).
  unfold nonper in Hnp. rewrite Forall_forall in Hnp.
  rewrite (Hnp a (nth_error_In _ _ Hn)) in Hp. discriminate Hp.
Qed.

Lemma nonper_edges g img : nonper g -> edges g img = [].
Proof. intros Hnp. unfold edges. rewrite (nonper_periodic_axes g Hnp). reflexivity. Qed.

Lemma nonper_final_state g img : nonper g ->
  final_state g img = init_state (pos0 img) (vol0 g img).
Proof. intros Hnp. unfold final_state. rewrite (nonper_edges g img Hnp). reflexivity. Qed.

Lemma insert_sorted_max x : forall l, (forall y, In y l -> (y < x)%nat) -> insert_sorted x l = l ++ [x].
Proof.
  induction l as [|y l IH]; intros H; cbn [insert_sorted app]; [reflexivity|].
  assert (Hy : (y < x)%nat) by (apply H; left; reflexivity).
  destruct (Nat.ltb_spec x y) as [H1|H1]; [lia|].
  destruct (Nat.eqb_spec x y) as [H2|H2]; [lia|].
  rewrite IH by (intros z Hz; apply H; right; exact Hz). reflexivity.
Qed.

Lemma reps_init p v n : reps (init_state p v) n = seq 0 n.
Proof.
  unfold reps. induction n as [|n IH]; [reflexivity|].
  rewrite seq_S, fold_left_app, IH. cbn [fold_left init_state cl plus].
  apply insert_sorted_max. intros y Hy. apply in_seq in Hy. lia.
Qed.

(* normalize_point and the cell -> grid transform on a non-periodic grid: coordinate k is lo + p h *)
Lemma normalize_cell_to_grid_nth : forall g, nonper g -> forall (f : nat -> Q) s k a,
  nth_error g k = Some a ->
  nth_error (normalize g (cell_to_grid g (map f (seq s (length g))))) k
  = Some (alo a + f (s + k)%nat * adisc a).
Proof.
  intros g Hnp. induction Hnp as [|b g Hper Hnp IH]; intros f s k a Hk.
  - destruct k; discriminate Hk.
  - cbn [length seq map cell_to_grid normalize]. destruct k as [|k]; cbn [nth_error] in *.
    + injection Hk as ->. unfold norm1. rewrite Hper. rewrite Nat.add_0_r. reflexivity.
    + rewrite (IH f (S s) k a Hk). rewrite Nat.add_succ_r. reflexivity.
Qed.

(* ------------------------------------------------------------------------------------------ *)
(* members of a label                                                                           *)
(* ------------------------------------------------------------------------------------------ *)
Lemma members_spec img k c : NoDup (map fst img) ->
  (In c (members img k) <-> In c (map fst img) /\ lab_of img c = S k).
Proof.
  intros Hnd. unfold members. rewrite !in_map_iff. split.
  - intros ([c' l] & E & Hin). cbn [fst] in E. subst c'. apply filter_In in Hin. destruct Hin as [Hin Hl].
    cbn [snd] in Hl. apply Nat.eqb_eq in Hl. subst l. split.
    + exists (c, S k). split; [reflexivity|exact Hin].
    + exact (lab_of_in img Hnd c (S k) Hin).
  - intros [([c' l] & E & Hin) Hl]. cbn [fst] in E. subst c'.
    rewrite (lab_of_in img Hnd c l Hin) in Hl. subst l.
    exists (c, S k). split; [reflexivity|]. apply filter_In. split; [exact Hin|]. cbn [snd]. apply Nat.eqb_refl.
Qed.

Lemma nodup_map_filter {A B : Type} (f : A -> B) (p : A -> bool) : forall l,
  NoDup (map f l) -> NoDup (map f (filter p l)).
Proof.
  induction l as [|x l IH]; intros H; cbn [filter map] in *; [constructor|].
  inversion H as [|y ys Hx Hl]; subst. destruct (p x); cbn [map]; [|apply IH; exact Hl].
  constructor; [|apply IH; exact Hl].
  intros Hin. apply Hx. apply in_map_iff in Hin. destruct Hin as (z & E & Hz).
  apply filter_In in Hz. apply in_map_iff. exists z. split; [exact E|exact (proj1 Hz)].
Qed.

Lemma members_nodup img k : NoDup (map fst img) -> NoDup (members img k).
Proof. intros H. unfold members. apply nodup_map_filter. exact H. Qed.

Lemma wf_keys_nodup g img : wf_img g img -> NoDup (map fst img).
Proof. intros Hwf. rewrite (wf_keys g img Hwf). apply nodup_all_cells. Qed.

Lemma members_mask g img k c : wf_img g img ->
  (In c (members img k) <-> In c (mask_cells img) /\ lab_of img c = S k).
Proof.
  intros Hwf. rewrite (members_spec img k c (wf_keys_nodup g img Hwf)), mask_cells_spec. split.
  - intros [H1 H2]. split; [split; [exact H1|lia]|exact H2].
  - intros [[H1 _] H2]. split; assumption.
Qed.

(* every label 1..n is carried by some mask cell *)
Lemma label_has_cell g img k : wf_img g img -> (k < num_labels img)%nat ->
  exists c, In c (mask_cells img) /\ lab_of img c = S k.
Proof.
  intros Hwf Hk. pose proof (wf_dense g img Hwf k Hk) as Hne.
  destruct (members img k) as [|c cs] eqn:E; [congruence|].
  exists c. apply (members_mask g img k c Hwf). rewrite E. left. reflexivity.
Qed.

(* ------------------------------------------------------------------------------------------ *)
(* statistics of a label whose members are the cells of one ball                                *)
(* ------------------------------------------------------------------------------------------ *)
Definition mask_is_ball (g : grid) (c : list Q) (r : Q) (img : limage) : Prop :=
  forall idx, in_rangeL (gshape g) idx -> (lab_of img idx <> 0%nat <-> inside g c r idx = true).

Lemma cluster_perm g c r img k : wf_img g img ->
  (forall p, In p (members img k) <-> In p (ball_cells g c r)) ->
  Permutation (members img k) (ball_cells g c r).
Proof.
  intros Hwf Hsame. apply NoDup_Permutation; [|apply ball_cells_nodup|exact Hsame].
  apply members_nodup. exact (wf_keys_nodup g img Hwf).
Qed.

Lemma cluster_volume g c r img k : wf_img g img ->
  (forall p, In p (members img k) <-> In p (ball_cells g c r)) ->
  vol0 g img k == cell_volume g * inject_Z (Z.of_nat (length (ball_cells g c r))).
Proof.
  intros Hwf Hsame. unfold vol0, count.
  rewrite (Permutation_length (cluster_perm g c r img k Hwf Hsame)). apply Qmult_comm.
Qed.

Lemma cluster_position g c r img k ax a x : grid_ok g -> nonper g -> wf_img g img ->
  (forall p, In p (members img k) <-> In p (ball_cells g c r)) ->
  ball_cells g c r <> [] ->
  nth_error g ax = Some a -> nth_error c ax = Some x -> fits1 a x r ->
  Qabs (alo a + pos0 img k ax * adisc a - x) <= adisc a / 2.
Proof.
  intros Hok Hnp Hwf Hsame Hne Ha Hx Hfit.
  pose proof (cluster_perm g c r img k Hwf Hsame) as HP.
  pose proof (ball_centre_within_half_cell g c r ax a x Hok Hnp Ha Hx Hfit Hne) as H.
  assert (E : alo a + pos0 img k ax * adisc a - x == ball_com g c r ax a - x).
  { unfold pos0, ball_com, count. rewrite csum_lsum.
    rewrite (lsum_perm _ _ (fun c0 => coordQ c0 ax) HP), (Permutation_length HP). reflexivity. }
  rewrite E. exact H.
Qed.

Lemma fits_nth g c r : fits g c r -> forall k a, nth_error g k = Some a ->
  exists x, nth_error c k = Some x /\ fits1 a x r.
Proof.
  intros H. induction H as [|a0 x0 g c H0 _ IH]; intros k a Hk.
  - destruct k; discriminate Hk.
  - destruct k as [|k]; cbn [nth_error] in *.
    + injection Hk as <-. exists x0. split; [reflexivity|exact H0].
    + apply IH. exact Hk.
Qed.

(* ------------------------------------------------------------------------------------------ *)
(* (A) one sphere                                                                               *)
(* ------------------------------------------------------------------------------------------ *)
Section Single.
  Variable g : grid.
  Variable c : list Q.
  Variable r : Q.
  Variable img : limage.
  Hypothesis Hok : grid_ok g.
  Hypothesis Hnp : nonper g.
  Hypothesis Hfit : fits g c r.
  Hypothesis Hne : ball_cells g c r <> [].
  Hypothesis Hwf : wf_img g img.
  Hypothesis Hspec : LabelSpecImg img.
  Hypothesis Hmask : mask_is_ball g c r img.

  Lemma single_mask_cells p : In p (mask_cells img) <-> In p (ball_cells g c r).
  Proof.
    rewrite (mask_cells_range g img p Hwf), ball_cells_spec. split.
    - intros [Hr Hl]. split; [exact Hr|]. apply Hmask; assumption.
    - intros [Hr Hi]. split; [exact Hr|]. apply Hmask; assumption.
  Qed.

  (* (i) one label *)
  Theorem single_label p q : In p (mask_cells img) -> In q (mask_cells img) ->
    lab_of img p = lab_of img q.
  Proof.
    intros Hp Hq. apply (Hspec p q Hp Hq).
    exact (ball_box_conn g c r img Hok Hnp Hfit Hwf Hmask p q Hp Hq).
  Qed.

  Theorem single_num_labels : num_labels img = 1%nat.
  Proof.
    destruct (ball_cells g c r) as [|p0 ps] eqn:E; [congruence|].
    assert (Hp0 : In p0 (mask_cells img)) by (apply single_mask_cells; rewrite E; left; reflexivity).
    pose proof (lab_of_le img p0) as Hle. pose proof (proj1 (mask_cells_spec img p0) Hp0) as [_ Hnz].
    destruct (le_lt_dec (num_labels img) 1) as [H1|H2]; [lia|exfalso].
    destruct (label_has_cell g img 0 Hwf) as (c0 & Hc0 & Hl0); [lia|].
    destruct (label_has_cell g img 1 Hwf) as (c1 & Hc1 & Hl1); [lia|].
    pose proof (single_label c0 c1 Hc0 Hc1). lia.
  Qed.

  Lemma single_members p : In p (members img 0) <-> In p (ball_cells g c r).
  Proof.
    rewrite (members_mask g img 0 p Hwf), <- single_mask_cells. split; [tauto|].
    intros Hp. split; [exact Hp|].
    pose proof (lab_of_le img p) as Hle. rewrite single_num_labels in Hle.
    apply mask_cells_spec in Hp. lia.
  Qed.

  (* (ii) no merging *)
  Theorem single_final_state : final_state g img = init_state (pos0 img) (vol0 g img).
  Proof. exact (nonper_final_state g img Hnp). Qed.

  Theorem single_reps : reps (final_state g img) (num_labels img) = [0%nat].
  Proof. rewrite single_final_state, single_num_labels, reps_init. reflexivity. Qed.

  (* (iii) volume *)
  Theorem single_volume :
    mvol (final_state g img) 0 == cell_volume g * inject_Z (Z.of_nat (length (ball_cells g c r))).
  Proof.
    rewrite single_final_state. cbn [init_state mvol].
    exact (cluster_volume g c r img 0 Hwf single_members).
  Qed.

  (* (iv) position *)
  Theorem single_position k a x : nth_error g k = Some a -> nth_error c k = Some x ->
    Qabs (alo a + mpos (final_state g img) 0 k * adisc a - x) <= adisc a / 2.
  Proof.
    intros Ha Hx. rewrite single_final_state. cbn [init_state mpos].
    destruct (fits_nth g c r Hfit k a Ha) as (x' & Hx' & Hf). assert (x' = x) by congruence. subst x'.
    exact (cluster_position g c r img 0 k a x Hok Hnp Hwf single_members Hne Ha Hx Hf).
  Qed.
End Single.

(* the located emulsion before overlap removal: exactly one droplet, exact volume, centre within
   half a grid spacing along every axis *)
Theorem c01_single g c r lab :
  let img := mk_limage (gshape g) lab in
  grid_ok g -> nonper g -> fits g c r -> ball_cells g c r <> [] ->
  wf_img g img -> LabelSpecImg img -> mask_is_ball g c r img ->
  num_labels img = 1%nat /\
  exists pos vol,
    candidates g lab = [(pos, vol)] /\
    vol == cell_volume g * inject_Z (Z.of_nat (length (ball_cells g c r))) /\
    length pos = length g /\
    forall k a x, nth_error g k = Some a -> nth_error c k = Some x ->
      exists pk, nth_error pos k = Some pk /\ Qabs (pk - x) <= adisc a / 2.
Proof.
  intros img Hok Hnp Hfit Hne Hwf Hspec Hmask.
  pose proof (single_num_labels g c r img Hok Hnp Hfit Hne Hwf Hspec Hmask) as Hn.
  split; [exact Hn|].
  pose proof (single_reps g c r img Hok Hnp Hfit Hne Hwf Hspec Hmask) as Hreps.
  set (st := final_state g img) in *.
  exists (normalize g (cell_to_grid g (map (mpos st 0) (seq 0 (length g))))), (mvol st 0%nat).
  split; [|split; [|split]].
  - unfold candidates. fold img. fold st. rewrite Hreps. reflexivity.
  - exact (single_volume g c r img Hok Hnp Hfit Hne Hwf Hspec Hmask).
  - clear. generalize (mpos st 0) as f. generalize 0%nat as s. induction g as [|a g' IH]; intros s f; [reflexivity|].
    cbn [length seq map cell_to_grid normalize]. rewrite IH. reflexivity.
  - intros k a x Ha Hx. exists (alo a + mpos st 0 k * adisc a). split.
    + exact (normalize_cell_to_grid_nth g Hnp (mpos st 0) 0 k a Ha).
    + exact (single_position g c r img Hok Hnp Hfit Hne Hwf Hspec Hmask k a x Ha Hx).
Qed.

(* ------------------------------------------------------------------------------------------ *)
(* (B) several spheres                                                                          *)
(* ------------------------------------------------------------------------------------------ *)
(* separation in the form the proofs use: no cell of one ball equals or faces a cell of the other;
   apart_of_axis / apart_of_euclid derive it from the explicit metric conditions of Proofs/BallSep.v
   and Proofs/BallEuclid.v *)
Definition apart (g : grid) (d1 d2 : sphere) : Prop :=
  forall p q, length p = length g -> length q = length g ->
    inside g (fst d1) (snd d1) p = true -> inside g (fst d2) (snd d2) q = true ->
    p <> q /\ ~ face_adj p q.

Lemma apart_of_axis g d1 d2 k a x1 x2 :
  nth_error g k = Some a -> aper a = false -> axis_ok a ->
  nth_error (fst d1) k = Some x1 -> nth_error (fst d2) k = Some x2 ->
  snd d1 + snd d2 + adisc a <= Qabs (x1 - x2) -> apart g d1 d2.
Proof.
  intros Hg Hper Hok H1 H2 Hsep p q.
  exact (balls_cells_apart g (fst d1) (snd d1) (fst d2) (snd d2) k a x1 x2 Hg Hper Hok H1 H2 Hsep p q).
Qed.

Lemma apart_of_euclid g d1 d2 hmax : grid_ok g -> nonper g ->
  length (fst d1) = length g -> length (fst d2) = length g ->
  0 <= hmax -> Forall (fun a => adisc a <= hmax) g ->
  (snd d1 + snd d2 + hmax) * (snd d1 + snd d2 + hmax) <= dist2 g (fst d1) (fst d2) -> apart g d1 d2.
Proof.
  intros Hok Hnp H1 H2 Hh0 Hh Hsep p q.
  exact (balls_cells_apart_euclid g (fst d1) (snd d1) (fst d2) (snd d2) hmax Hok Hnp H1 H2 Hh0 Hh Hsep p q).
Qed.

Definition mask_is_emulsion (g : grid) (ds : list sphere) (img : limage) : Prop :=
  forall idx, in_rangeL (gshape g) idx -> (lab_of img idx <> 0%nat <-> inside_any g ds idx = true).

Definition in_ball (g : grid) (d : sphere) (p : cell) : Prop := In p (ball_cells g (fst d) (snd d)).

Definition same_ball (g : grid) (ds : list sphere) (p q : cell) : Prop :=
  exists i d, nth_error ds i = Some d /\ in_ball g d p /\ in_ball g d q.

Lemma nodup_map_inj_on {A B : Type} (f : A -> B) : forall l, NoDup l ->
  (forall x y, In x l -> In y l -> f x = f y -> x = y) -> NoDup (map f l).
Proof.
  induction l as [|x l IH]; intros Hnd Hinj; cbn [map]; [constructor|].
  inversion Hnd as [|x' l' Hx Hl]; subst. constructor.
  - intros Hin. apply in_map_iff in Hin. destruct Hin as (y & E & Hy).
    assert (y = x) by (apply Hinj; [right; exact Hy|left; reflexivity|exact E]). subst y. contradiction.
  - apply IH; [exact Hl|]. intros a b Ha Hb. apply Hinj; right; assumption.
Qed.

Section Multi.
  Variable g : grid.
  Variable ds : list sphere.
  Variable img : limage.
  Hypothesis Hok : grid_ok g.
  Hypothesis Hnp : nonper g.
  Hypothesis Hfits : forall d, In d ds -> fits g (fst d) (snd d).
  Hypothesis Hne : forall d, In d ds -> ball_cells g (fst d) (snd d) <> [].
  Hypothesis Hsep : forall i j di dj, nth_error ds i = Some di -> nth_error ds j = Some dj ->
    i <> j -> apart g di dj.
  Hypothesis Hwf : wf_img g img.
  Hypothesis Hspec : LabelSpecImg img.
  Hypothesis Hmask : mask_is_emulsion g ds img.

  Lemma multi_mask_cells p :
    In p (mask_cells img) <-> exists i d, nth_error ds i = Some d /\ in_ball g d p.
  Proof.
    rewrite (mask_cells_range g img p Hwf). split.
    - intros [Hr Hl]. apply (Hmask p Hr) in Hl. apply inside_any_iff in Hl. destruct Hl as (d & Hd & Hi).
      apply In_nth_error in Hd. destruct Hd as [i Hi']. exists i, d. split; [exact Hi'|].
      apply ball_cells_spec. split; assumption.
    - intros (i & d & Hd & Hb). apply ball_cells_spec in Hb. destruct Hb as [Hr Hi].
      split; [exact Hr|]. apply (Hmask p Hr). apply inside_any_iff. exists d.
      split; [exact (nth_error_In _ _ Hd)|exact Hi].
  Qed.

  Lemma in_ball_mask i d p : nth_error ds i = Some d -> in_ball g d p -> In p (mask_cells img).
  Proof. intros Hd Hb. apply multi_mask_cells. exists i, d. split; assumption. Qed.

  Lemma ball_step i j di dj p q : nth_error ds i = Some di -> nth_error ds j = Some dj ->
    in_ball g di p -> in_ball g dj q -> p = q \/ face_adj p q -> i = j.
  Proof.
    intros Hi Hj Hp Hq Hpq. destruct (Nat.eq_dec i j) as [E|E]; [exact E|exfalso].
    pose proof (ball_cells_length _ _ _ _ Hp) as Hlp. pose proof (ball_cells_length _ _ _ _ Hq) as Hlq.
    apply ball_cells_spec in Hp. apply ball_cells_spec in Hq.
    destruct (Hsep i j di dj Hi Hj E p q Hlp Hlq (proj2 Hp) (proj2 Hq)) as [H1 H2].
    destruct Hpq as [Hpq|Hpq]; contradiction.
  Qed.

  Lemma ball_unique i j di dj p : nth_error ds i = Some di -> nth_error ds j = Some dj ->
    in_ball g di p -> in_ball g dj p -> i = j /\ di = dj.
  Proof.
    intros Hi Hj Hp Hq. assert (E : i = j) by (apply (ball_step i j di dj p p); auto).
    split; [exact E|]. subst j. congruence.
  Qed.

  Lemma conn_same p q : box_conn img p q -> p = q \/ same_ball g ds p q.
  Proof.
    unfold box_conn, conn0. intros H.
    induction H as [x|x y _ IH|x y z _ IH1 _ IH2|x y (Hx & Hy & Hf)].
    - left. reflexivity.
    - destruct IH as [->|(i & d & Hd & Hp & Hq)]; [left; reflexivity|].
      right. exists i, d. split; [exact Hd|]. split; assumption.
    - destruct IH1 as [->|(i & d & Hd & Hp & Hq)]; [exact IH2|].
      destruct IH2 as [<-|(j & d' & Hd' & Hq' & Hz)]; [right; exists i, d; split; [exact Hd|split; assumption]|].
      destruct (ball_unique i j d d' y Hd Hd' Hq Hq') as [-> ->].
      right. exists j, d'. split; [exact Hd'|]. split; assumption.
    - right. apply multi_mask_cells in Hx. apply multi_mask_cells in Hy.
      destruct Hx as (i & d & Hd & Hp). destruct Hy as (j & d' & Hd' & Hq).
      assert (E : i = j) by (apply (ball_step i j d d' x y Hd Hd' Hp Hq); right; exact Hf).
      subst j. assert (d' = d) by congruence. subst d'.
      exists i, d. split; [exact Hd|]. split; assumption.
  Qed.

  Lemma same_conn p q : same_ball g ds p q -> box_conn img p q.
  Proof.
    intros (i & d & Hd & Hp & Hq). pose proof (nth_error_In _ _ Hd) as Hin.
    pose proof (ball_connected g (fst d) (snd d) Hok Hnp (Hfits d Hin) p q Hp Hq) as H.
    unfold box_conn, conn0 in *. revert H. apply clos_mono.
    intros u v (Hu & Hv & Hf). split; [exact (in_ball_mask i d u Hd Hu)|].
    split; [exact (in_ball_mask i d v Hd Hv)|exact Hf].
  Qed.

  (* the connected components of the mask are the balls *)
  Theorem c01_multi_components p q : In p (mask_cells img) -> In q (mask_cells img) ->
    (box_conn img p q <-> same_ball g ds p q).
  Proof.
    intros Hp Hq. split; [|apply same_conn].
    intros H. destruct (conn_same p q H) as [<-|Hs]; [|exact Hs].
    apply multi_mask_cells in Hp. destruct Hp as (i & d & Hd & Hb).
    exists i, d. split; [exact Hd|]. split; assumption.
  Qed.

  (* ... hence so are the labels *)
  Theorem c01_multi_labels p q : In p (mask_cells img) -> In q (mask_cells img) ->
    (lab_of img p = lab_of img q <-> same_ball g ds p q).
  Proof. intros Hp Hq. rewrite (Hspec p q Hp Hq). apply c01_multi_components; assumption. Qed.

  (* the label index of droplet number i: the label of its first covered cell *)
  Definition lbl (i : nat) : nat :=
    match nth_error ds i with
    | Some d => match ball_cells g (fst d) (snd d) with
                | p :: _ => pred (lab_of img p)
                | [] => 0%nat
                end
    | None => 0%nat
    end.

  Lemma lbl_witness i d : nth_error ds i = Some d ->
    exists p0, in_ball g d p0 /\ lab_of img p0 = S (lbl i).
  Proof.
    intros Hd. pose proof (Hne d (nth_error_In _ _ Hd)) as Hn. unfold lbl, in_ball. rewrite Hd.
    destruct (ball_cells g (fst d) (snd d)) as [|p0 ps] eqn:E; [congruence|].
    exists p0. split; [left; reflexivity|].
    assert (Hm : In p0 (mask_cells img)).
    { apply (in_ball_mask i d p0 Hd). unfold in_ball. rewrite E. left. reflexivity. }
    apply mask_cells_spec in Hm. lia.
  Qed.

  Lemma lbl_members i d : nth_error ds i = Some d ->
    forall p, In p (members img (lbl i)) <-> in_ball g d p.
  Proof.
    intros Hd p. destruct (lbl_witness i d Hd) as (p0 & Hp0 & Hl0).
    pose proof (in_ball_mask i d p0 Hd Hp0) as Hm0.
    rewrite (members_mask g img (lbl i) p Hwf). split.
    - intros [Hm Hl]. assert (E : lab_of img p0 = lab_of img p) by congruence.
      apply (c01_multi_labels p0 p Hm0 Hm) in E. destruct E as (j & d' & Hd' & Hq0 & Hq).
      destruct (ball_unique i j d d' p0 Hd Hd' Hp0 Hq0) as [-> ->]. exact Hq.
    - intros Hp. pose proof (in_ball_mask i d p Hd Hp) as Hm. split; [exact Hm|].
      rewrite <- Hl0. symmetry. apply (c01_multi_labels p0 p Hm0 Hm).
      exists i, d. split; [exact Hd|]. split; assumption.
  Qed.

  Lemma lbl_lt i d : nth_error ds i = Some d -> (lbl i < num_labels img)%nat.
  Proof.
    intros Hd. destruct (lbl_witness i d Hd) as (p0 & _ & Hl0).
    pose proof (lab_of_le img p0). lia.
  Qed.

  Lemma lbl_inj i j di dj : nth_error ds i = Some di -> nth_error ds j = Some dj ->
    lbl i = lbl j -> i = j.
  Proof.
    intros Hi Hj E. destruct (lbl_witness i di Hi) as (p & Hp & Hlp).
    destruct (lbl_witness j dj Hj) as (q & Hq & Hlq).
    assert (El : lab_of img p = lab_of img q) by congruence.
    apply (c01_multi_labels p q (in_ball_mask i di p Hi Hp) (in_ball_mask j dj q Hj Hq)) in El.
    destruct El as (k & d & Hd & Hkp & Hkq).
    destruct (ball_unique i k di d p Hi Hd Hp Hkp) as [-> _].
    destruct (ball_unique j k dj d q Hj Hd Hq Hkq) as [-> _]. reflexivity.
  Qed.

  Lemma lbl_surj k : (k < num_labels img)%nat -> exists i d, nth_error ds i = Some d /\ lbl i = k.
  Proof.
    intros Hk. destruct (label_has_cell g img k Hwf Hk) as (c0 & Hm & Hl).
    pose proof Hm as Hm'. apply multi_mask_cells in Hm'. destruct Hm' as (i & d & Hd & Hb).
    exists i, d. split; [exact Hd|].
    apply (lbl_members i d Hd c0) in Hb. apply (members_mask g img (lbl i) c0 Hwf) in Hb. lia.
  Qed.

  (* as many labels as droplets *)
  Theorem c01_multi_num_labels : num_labels img = length ds.
  Proof.
    set (n := num_labels img). set (m := length ds).
    assert (Hnth : forall i, (i < m)%nat -> exists d, nth_error ds i = Some d).
    { intros i Hi. destruct (nth_error ds i) as [d|] eqn:E; [exists d; reflexivity|].
      apply nth_error_None in E. unfold m in Hi. lia. }
    set (L := map lbl (seq 0 m)).
    assert (HL : NoDup L).
    { apply nodup_map_inj_on; [apply seq_NoDup|]. intros i j Hi Hj E.
      apply in_seq in Hi. apply in_seq in Hj.
      destruct (Hnth i) as [di Hdi]; [lia|]. destruct (Hnth j) as [dj Hdj]; [lia|].
      exact (lbl_inj i j di dj Hdi Hdj E). }
    assert (H1 : incl L (seq 0 n)).
    { intros k Hk. apply in_map_iff in Hk. destruct Hk as (i & <- & Hi). apply in_seq in Hi.
      destruct (Hnth i) as [d Hd]; [lia|]. apply in_seq. pose proof (lbl_lt i d Hd). unfold n. lia. }
    assert (H2 : incl (seq 0 n) L).
    { intros k Hk. apply in_seq in Hk. destruct (lbl_surj k) as (i & d & Hd & <-); [unfold n in Hk; lia|].
      apply in_map. apply in_seq. assert (i < length ds)%nat by (apply nth_error_Some; congruence).
      unfold m. lia. }
    pose proof (NoDup_incl_length HL H1) as L1.
    pose proof (NoDup_incl_length (seq_NoDup n 0) H2) as L2.
    unfold L in L1, L2. rewrite map_length, !seq_length in *. lia.
  Qed.

  (* volume and centre of the cluster of droplet i *)
  Theorem c01_multi_volume i d : nth_error ds i = Some d ->
    vol0 g img (lbl i) == cell_volume g * inject_Z (Z.of_nat (length (ball_cells g (fst d) (snd d)))).
  Proof. intros Hd. exact (cluster_volume g (fst d) (snd d) img (lbl i) Hwf (lbl_members i d Hd)). Qed.

  Theorem c01_multi_position i d k a x : nth_error ds i = Some d ->
    nth_error g k = Some a -> nth_error (fst d) k = Some x ->
    Qabs (alo a + pos0 img (lbl i) k * adisc a - x) <= adisc a / 2.
  Proof.
    intros Hd Ha Hx. pose proof (nth_error_In _ _ Hd) as Hin.
    destruct (fits_nth g (fst d) (snd d) (Hfits d Hin) k a Ha) as (x' & Hx' & Hf).
    assert (x' = x) by congruence. subst x'.
    exact (cluster_position g (fst d) (snd d) img (lbl i) k a x Hok Hnp Hwf (lbl_members i d Hd)
             (Hne d Hin) Ha Hx Hf).
  Qed.
End Multi.

Lemma normalize_cell_to_grid_length : forall g (f : nat -> Q) s,
  length (normalize g (cell_to_grid g (map f (seq s (length g))))) = length g.
Proof.
  induction g as [|a g IH]; intros f s; [reflexivity|].
  cbn [length seq map cell_to_grid normalize]. rewrite IH. reflexivity.
Qed.

(* the located emulsion before overlap removal: one entry per droplet (entry number lbl i for droplet
   number i, lbl a bijection), exact volume, centre within half a grid spacing along every axis *)
Theorem c01_multi g (ds : list sphere) lab :
  let img := mk_limage (gshape g) lab in
  grid_ok g -> nonper g ->
  (forall d, In d ds -> fits g (fst d) (snd d)) ->
  (forall d, In d ds -> ball_cells g (fst d) (snd d) <> []) ->
  (forall i j di dj, nth_error ds i = Some di -> nth_error ds j = Some dj -> i <> j -> apart g di dj) ->
  wf_img g img -> LabelSpecImg img -> mask_is_emulsion g ds img ->
  num_labels img = length ds /\
  length (candidates g lab) = length ds /\
  exists lbl : nat -> nat,
    (forall i, (i < length ds)%nat -> (lbl i < length ds)%nat) /\
    (forall i j, (i < length ds)%nat -> (j < length ds)%nat -> lbl i = lbl j -> i = j) /\
    forall i d, nth_error ds i = Some d ->
      exists pos vol,
        nth_error (candidates g lab) (lbl i) = Some (pos, vol) /\
        vol == cell_volume g * inject_Z (Z.of_nat (length (ball_cells g (fst d) (snd d)))) /\
        length pos = length g /\
        forall k a x, nth_error g k = Some a -> nth_error (fst d) k = Some x ->
          exists pk, nth_error pos k = Some pk /\ Qabs (pk - x) <= adisc a / 2.
Proof.
  intros img Hok Hnp Hfits Hne Hsep Hwf Hspec Hmask.
  pose proof (c01_multi_num_labels g ds img Hok Hnp Hfits Hne Hsep Hwf Hspec Hmask) as Hn.
  assert (Hcand : candidates g lab
                  = map (fun k => (normalize g (cell_to_grid g (map (pos0 img k) (seq 0 (length g)))),
                                   vol0 g img k)) (seq 0 (length ds))).
  { unfold candidates. fold img. rewrite (nonper_final_state g img Hnp), reps_init, Hn. reflexivity. }
  split; [exact Hn|]. split; [rewrite Hcand, map_length, seq_length; reflexivity|].
  exists (lbl g ds img).
  assert (Hnth : forall i, (i < length ds)%nat -> exists d, nth_error ds i = Some d).
  { intros i Hi. destruct (nth_error ds i) as [d|] eqn:E; [exists d; reflexivity|].
    apply nth_error_None in E. lia. }
  split; [|split].
  - intros i Hi. destruct (Hnth i Hi) as [d Hd].
    pose proof (lbl_lt g ds img Hne Hwf Hmask i d Hd) as Hlt. lia.
  - intros i j Hi Hj E. destruct (Hnth i Hi) as [di Hdi]. destruct (Hnth j Hj) as [dj Hdj].
    exact (lbl_inj g ds img Hok Hnp Hfits Hne Hsep Hwf Hspec Hmask i j di dj Hdi Hdj E).
  - intros i d Hd. set (k0 := lbl g ds img i).
    assert (Hk0 : (k0 < length ds)%nat).
    { pose proof (lbl_lt g ds img Hne Hwf Hmask i d Hd) as Hlt. unfold k0. lia. }
    exists (normalize g (cell_to_grid g (map (pos0 img k0) (seq 0 (length g))))), (vol0 g img k0).
    split; [|split; [|split]].
    + rewrite Hcand.
      rewrite (map_nth_error _ k0 (seq 0 (length ds)) (d := k0)); [reflexivity|].
      rewrite nth_error_nth' with (d := 0%nat) by (rewrite seq_length; exact Hk0).
      rewrite seq_nth by exact Hk0. reflexivity.
    + exact (c01_multi_volume g ds img Hok Hnp Hfits Hne Hsep Hwf Hspec Hmask i d Hd).
    + apply normalize_cell_to_grid_length.
    + intros k a x Ha Hx. exists (alo a + pos0 img k0 k * adisc a). split.
      * exact (normalize_cell_to_grid_nth g Hnp (pos0 img k0) 0 k a Ha).
      * exact (c01_multi_position g ds img Hok Hnp Hfits Hne Hsep Hwf Hspec Hmask i d k a x Hd Ha Hx).
Qed.

(* overlap removal keeps every located droplet when their surface distances D (computed from the
   located positions and the radii obtained from the volumes by radius_from_volume, a cube root that
   is outside the D-layer) are non-negative *)
Theorem c01_multi_no_removal (D : nat -> nat -> Q) (rad : nat -> Q) n :
  (forall i j, i <> j -> 0 <= D i j) -> ro D rad 0 (seq 0 n) = seq 0 n.
Proof. intros H. apply ro_id_if_separated. intros i j _ _ Hij. apply H. exact Hij. Qed.


(* the Euclidean separation condition written out *)
Theorem c01_multi_euclid g (ds : list sphere) lab hmax :
  let img := mk_limage (gshape g) lab in
  grid_ok g -> nonper g ->
  (forall d, In d ds -> fits g (fst d) (snd d)) ->
  (forall d, In d ds -> ball_cells g (fst d) (snd d) <> []) ->
  0 <= hmax -> Forall (fun a => adisc a <= hmax) g ->
  (forall i j di dj, nth_error ds i = Some di -> nth_error ds j = Some dj -> i <> j ->
     (snd di + snd dj + hmax) * (snd di + snd dj + hmax) <= dist2 g (fst di) (fst dj)) ->
  wf_img g img -> LabelSpecImg img -> mask_is_emulsion g ds img ->
  num_labels img = length ds /\
  length (candidates g lab) = length ds /\
  exists lbl : nat -> nat,
    (forall i, (i < length ds)%nat -> (lbl i < length ds)%nat) /\
    (forall i j, (i < length ds)%nat -> (j < length ds)%nat -> lbl i = lbl j -> i = j) /\
    forall i d, nth_error ds i = Some d ->
      exists pos vol,
        nth_error (candidates g lab) (lbl i) = Some (pos, vol) /\
        vol == cell_volume g * inject_Z (Z.of_nat (length (ball_cells g (fst d) (snd d)))) /\
        length pos = length g /\
        forall k a x, nth_error g k = Some a -> nth_error (fst d) k = Some x ->
          exists pk, nth_error pos k = Some pk /\ Qabs (pk - x) <= adisc a / 2.
Proof.
  intros img Hok Hnp Hfits Hne Hh0 Hh Hsep Hwf Hspec Hmask.
  apply (c01_multi g ds lab Hok Hnp Hfits Hne); try assumption.
  intros i j di dj Hi Hj Hij.
  apply (apart_of_euclid g di dj hmax Hok Hnp); try assumption.
  - apply fits_length with (r := snd di). apply Hfits. exact (nth_error_In _ _ Hi).
  - apply fits_length with (r := snd dj). apply Hfits. exact (nth_error_In _ _ Hj).
  - exact (Hsep i j di dj Hi Hj Hij).
Qed.

(* ------------------------------------------------------------------------------------------ *)
(* (C) one sphere on a grid with periodic axes                                                  *)
(* ------------------------------------------------------------------------------------------ *)
Lemma insert_sorted_same v : insert_sorted v [v] = [v].
Proof. cbn [insert_sorted]. rewrite Nat.ltb_irrefl, Nat.eqb_refl. reflexivity. Qed.

Lemma reps_const st n v : (0 < n)%nat -> (forall k, (k < n)%nat -> cl st k = v) -> reps st n = [v].
Proof.
  intros Hn Hv. unfold reps. destruct n as [|n]; [lia|].
  cbn [seq fold_left]. rewrite (Hv 0%nat) by lia. cbn [insert_sorted].
  assert (H : forall l, (forall k, In k l -> cl st k = v) ->
                fold_left (fun acc k => insert_sorted (cl st k) acc) l [v] = [v]).
  { induction l as [|k l IH]; intros Hl; cbn [fold_left]; [reflexivity|].
    rewrite (Hl k) by (left; reflexivity). rewrite insert_sorted_same.
    apply IH. intros k' Hk'. apply Hl. right. exact Hk'. }
  apply H. intros k Hk. apply in_seq in Hk. apply Hv. lia.
Qed.

Section Periodic.
  Variable g : grid.
  Variable c : list Q.
  Variable r : Q.
  Variable img : limage.
  Hypothesis Hok : grid_ok g.
  Hypothesis Hfit : tfits g c r.
  Hypothesis Hne : ball_cells g c r <> [].
  Hypothesis Hwf : wf_img g img.
  Hypothesis Hspec : LabelSpecImg img.
  Hypothesis Hmask : mask_is_ball g c r img.

  Lemma per_mask_cells p : In p (mask_cells img) <-> In p (ball_cells g c r).
  Proof.
    rewrite (mask_cells_range g img p Hwf), ball_cells_spec. split.
    - intros [Hr Hl]. split; [exact Hr|]. apply Hmask; assumption.
    - intros [Hr Hi]. split; [exact Hr|]. apply Hmask; assumption.
  Qed.

  (* the covered cells form one component of the torus adjacency *)
  Theorem per_torus_conn p q : In p (mask_cells img) -> In q (mask_cells img) -> torus_conn g img p q.
  Proof.
    intros Hp Hq. unfold torus_conn.
    exact (ball_torus_connected g c r (mask_cells img) Hok Hfit per_mask_cells p q Hp Hq).
  Qed.

  (* ... hence one cluster after the merge loop *)
  Theorem per_one_cluster p q : In p (mask_cells img) -> In q (mask_cells img) ->
    cl (final_state g img) (clab img p) = cl (final_state g img) (clab img q).
  Proof.
    intros Hp Hq. apply (locate_cart_components g img Hok Hwf Hspec p q Hp Hq).
    exact (per_torus_conn p q Hp Hq).
  Qed.

  Theorem per_volume p : In p (mask_cells img) ->
    mvol (final_state g img) (cl (final_state g img) (clab img p))
    == cell_volume g * inject_Z (Z.of_nat (length (ball_cells g c r))).
  Proof.
    intros Hp.
    apply (locate_cart_volume g img Hok Hwf Hspec p (ball_cells g c r) Hp (ball_cells_nodup g c r)).
    intros q. rewrite <- per_mask_cells. split.
    - intros Hq. split; [exact Hq|exact (per_torus_conn p q Hp Hq)].
    - intros [Hq _]. exact Hq.
  Qed.

  Theorem per_reps p : In p (mask_cells img) ->
    reps (final_state g img) (num_labels img) = [cl (final_state g img) (clab img p)].
  Proof.
    intros Hp. apply reps_const.
    - pose proof (lab_of_le img p). apply mask_cells_spec in Hp. lia.
    - intros k Hk. destruct (label_has_cell g img k Hwf Hk) as (q & Hq & Hl).
      rewrite <- (per_one_cluster q p Hq Hp). unfold clab. rewrite Hl. reflexivity.
  Qed.
End Periodic.

(* PARTIAL with respect to the C01 text: one candidate with the exact volume under the weak condition
   2 r <= L; nothing is said about its position (the position statement needs 2 r + 2 h <= L and is
   c01_periodic_single below). *)
Theorem c01_periodic_single_partial g c r lab :
  let img := mk_limage (gshape g) lab in
  grid_ok g -> tfits g c r -> ball_cells g c r <> [] ->
  wf_img g img -> LabelSpecImg img -> mask_is_ball g c r img ->
  (forall p q, In p (mask_cells img) -> In q (mask_cells img) -> torus_conn g img p q) /\
  exists pos vol,
    candidates g lab = [(pos, vol)] /\
    vol == cell_volume g * inject_Z (Z.of_nat (length (ball_cells g c r))).
Proof.
  intros img Hok Hfit Hne Hwf Hspec Hmask.
  split; [exact (per_torus_conn g c r img Hok Hfit Hwf Hmask)|].
  destruct (ball_cells g c r) as [|p0 ps] eqn:E; [congruence|].
  assert (Hp0 : In p0 (mask_cells img)).
  { apply (per_mask_cells g c r img Hwf Hmask). rewrite E. left. reflexivity. }
  rewrite <- E. set (st := final_state g img). set (v := cl st (clab img p0)).
  exists (normalize g (cell_to_grid g (map (mpos st v) (seq 0 (length g))))), (mvol st v).
  split.
  - unfold candidates. fold img.
    rewrite (per_reps g c r img Hok Hfit Hwf Hspec Hmask p0 Hp0). reflexivity.
  - exact (per_volume g c r img Hok Hfit Hwf Hspec Hmask p0 Hp0).
Qed.

(* ---- position on periodic grids ---- *)
Lemma off_no_edge N a : forall es st,
  (forall kl kh ax, In (kl, kh, ax) es -> ax <> a) -> (forall k, off st k a = 0%Z) ->
  forall k, off (merge_all N st es) k a = 0%Z.
Proof.
  unfold merge_all. induction es as [|e es IH]; intros st He H0 k; cbn [fold_left]; [apply H0|].
  apply IH; [intros kl kh ax Hin; apply (He kl kh ax); right; exact Hin|].
  intros k'. destruct e as [[kl kh] ax]. unfold merge_step.
  destruct (Nat.eqb (cl st kl) (cl st kh)); [apply H0|]. cbn [off].
  assert (Hd : delta a ax = 0%Z).
  { unfold delta. destruct (Nat.eqb_spec a ax) as [E|E]; [|reflexivity].
    exfalso. apply (He kl kh ax); [left; reflexivity|congruence]. }
  destruct (Nat.eqb (cl st k') (cl st kh)); rewrite ?H0, ?Hd; lia.
Qed.

Lemma normalize_cell_to_grid_nth_gen : forall g (f : nat -> Q) s k a,
  nth_error g k = Some a ->
  nth_error (normalize g (cell_to_grid g (map f (seq s (length g))))) k
  = Some (norm1 a (alo a + f (s + k)%nat * adisc a)).
Proof.
  induction g as [|b g IH]; intros f s k a Hk.
  - destruct k; discriminate Hk.
  - cbn [length seq map cell_to_grid normalize]. destruct k as [|k]; cbn [nth_error] in *.
    + injection Hk as ->. rewrite Nat.add_0_r. reflexivity.
    + rewrite (IH f (S s) k a Hk). rewrite Nat.add_succ_r. reflexivity.
Qed.

Lemma mean_bound m K S n : 0 < n -> m * n == S + K * n -> Qabs S <= (1 # 2) * n ->
  - (1 # 2) <= m - K /\ m - K <= 1 # 2.
Proof.
  intros Hn E HS. apply Qabs_Qle_condition in HS. destruct HS as [H1 H2].
  assert (E' : (m - K) * n == S) by (rewrite <- (Qplus_inj_r _ _ (K * n)); rewrite <- E; ring).
  set (d := m - K) in *. split.
  - destruct (Qlt_le_dec d (- (1 # 2))) as [H|H]; [exfalso|exact H]. nra.
  - destruct (Qlt_le_dec (1 # 2) d) as [H|H]; [exfalso|exact H]. nra.
Qed.

Section PeriodicPos.
  Variable g : grid.
  Variable c : list Q.
  Variable r : Q.
  Variable img : limage.
  Hypothesis Hok : grid_ok g.
  Hypothesis Hpf : pfits g c r.
  Hypothesis Hne : ball_cells g c r <> [].
  Hypothesis Hwf : wf_img g img.
  Hypothesis Hspec : LabelSpecImg img.
  Hypothesis Hmask : mask_is_ball g c r img.

  Local Notation st := (final_state g img).
  Local Notation cells := (mask_cells img).

  Let Htf : tfits g c r := pfits_tfits g c r Hok Hpf.

  Lemma pp_mask p : In p cells <-> In p (ball_cells g c r).
  Proof. exact (per_mask_cells g c r img Hwf Hmask p). Qed.

  Lemma pp_one p q : In p cells -> In q cells -> cl st (clab img p) = cl st (clab img q).
  Proof. exact (per_one_cluster g c r img Hok Htf Hwf Hspec Hmask p q). Qed.

  Lemma pp_perm : Permutation cells (ball_cells g c r).
  Proof.
    apply NoDup_Permutation; [exact (nodup_mask_cells g img Hwf)|apply ball_cells_nodup|exact pp_mask].
  Qed.

  (* number of periods by which the cell is lifted, and the same per label *)
  Definition kcell (p : cell) (ax : nat) : Z :=
    match nth_error g ax, nth_error c ax with
    | Some a, Some x => ksh a x (nth ax p 0%Z)
    | _, _ => 0%Z
    end.
  Definition kappa (k ax : nat) : Z :=
    match members img k with p :: _ => kcell p ax | [] => 0%Z end.

  Lemma kcell_adj p q ax : In p cells -> In q cells -> face_adj p q -> kcell p ax = kcell q ax.
  Proof.
    intros Hp Hq Hf. unfold kcell. destruct (nth_error g ax) as [a|] eqn:Ha; [|reflexivity].
    destruct (nth_error c ax) as [x|] eqn:Hx; [|reflexivity].
    destruct (pfits_nth g c r Hpf ax a Ha) as (x' & Hx' & Hf1). assert (x' = x) by congruence. subst x'.
    apply (ksh_face_adj g c r p q ax a x Hok Ha Hx Hf1); [apply pp_mask; exact Hp|apply pp_mask; exact Hq|exact Hf].
  Qed.

  Lemma kcell_conn p q : box_conn img p q -> forall ax, kcell p ax = kcell q ax.
  Proof.
    unfold box_conn, conn0. intros H ax.
    induction H as [x|x y _ IH|x y z _ IH1 _ IH2|x y (Hx & Hy & Hf)]; try congruence.
    exact (kcell_adj x y ax Hx Hy Hf).
  Qed.

  Lemma kappa_cell p ax : In p cells -> kappa (clab img p) ax = kcell p ax.
  Proof.
    intros Hp. unfold kappa.
    assert (Hpm : In p (members img (clab img p))).
    { apply (members_mask g img (clab img p) p Hwf). split; [exact Hp|].
      apply mask_cells_spec in Hp. unfold clab. lia. }
    destruct (members img (clab img p)) as [|p0 ps] eqn:E; [destruct Hpm|].
    assert (Hp0 : In p0 (members img (clab img p))) by (rewrite E; left; reflexivity).
    apply (members_mask g img (clab img p) p0 Hwf) in Hp0. destruct Hp0 as [Hm0 Hl0].
    apply kcell_conn. apply (Hspec p0 p Hm0 Hp). apply mask_cells_spec in Hp. unfold clab in Hl0. lia.
  Qed.

  Lemma ball_r_nonneg : 0 <= r.
  Proof.
    destruct (ball_cells g c r) as [|p ps] eqn:E; [congruence|].
    assert (Hp : In p (ball_cells g c r)) by (rewrite E; left; reflexivity).
    apply ball_cells_spec in Hp. destruct Hp as [_ Hi]. apply inside_iff in Hi. tauto.
  Qed.

  Lemma kappa_lift_ok : lift_ok kappa (edges g img).
  Proof.
    intros kl kh ax Hin a'.
    destruct (edges_sound g img kl kh ax Hok Hwf Hin) as (l & h & Hl & Hh & Hw & <- & <-).
    rewrite (kappa_cell h a' Hh), (kappa_cell l a' Hl).
    apply (wrap_pair_nth g ax l h Hok) in Hw. destruct Hw as (Hp & _ & _ & H0 & HN & Ho).
    unfold delta. destruct (Nat.eqb_spec a' ax) as [->|Hneq].
    - destruct Hp as (a0 & Hn & Hper).
      destruct (pfits_nth g c r Hpf ax a0 Hn) as (x & Hx & Hf1).
      unfold kcell. rewrite Hn, Hx, H0, HN, (shapeN_nth_error g ax a0 Hn).
      apply pp_mask in Hh. destruct (ball_axis_lift g c r h ax a0 x Hok Hn Hx Hh) as [Hr Hd].
      rewrite HN, (shapeN_nth_error g ax a0 Hn) in Hd.
      exact (ksh_wrap a0 x r (grid_ok_axis g ax a0 Hok Hn) Hper Hr Hf1 Hd).
    - unfold kcell. rewrite (Ho a' Hneq). lia.
  Qed.

  (* stored position * number of cells = sum of the cell positions shifted by the stored offsets *)
  Lemma pp_position_off p ax : In p cells ->
    mpos st (cl st (clab img p)) ax * inject_Z (Z.of_nat (length cells))
    == lsum cells (fun q => coordQ q ax + (1 # 2) + inject_Z (off st (clab img q) ax * shapeN g ax)).
  Proof.
    intros Hp. set (v := cl st (clab img p)).
    pose proof (merge_position (shapeN g) (num_labels img) (pos0 img) (vol0 g img)
                  (inst_vol0_pos g img Hok Hwf) (edges g img) (edges_edges_ok g img)
                  (clab img p) ax (clab_lt img p Hp)) as H.
    cbv zeta in H. change (merge_all (shapeN g) (init_state (pos0 img) (vol0 g img)) (edges g img)) with st in H.
    fold v in H.
    pose proof (msum_regroup cell cells (clab img) (num_labels img) (clab_lt img) (edges g img) (shapeN g)
                  (pos0 img) (vol0 g img) v (cell_volume g) (fun _ => 1) (vol0 g img)
                  (inst_vol0_spec g img Hwf)) as R1.
    pose proof (msum_regroup cell cells (clab img) (num_labels img) (clab_lt img) (edges g img) (shapeN g)
                  (pos0 img) (vol0 g img) v (cell_volume g)
                  (fun q => coordQ q ax + (1 # 2) + inject_Z (off st (clab img q) ax * shapeN g ax))
                  (contrib (shapeN g) (pos0 img) (vol0 g img) st ax)
                  (contrib_spec cell cells (clab img) (num_labels img) (edges g img) (shapeN g)
                     (pos0 img) (vol0 g img) (cell_volume g) (inst_vol0_spec g img Hwf)
                     coordQ (inst_pos0_spec g img Hwf) ax)) as R2.
    change (merge_all (shapeN g) (init_state (pos0 img) (vol0 g img)) (edges g img)) with st in R1, R2.
    rewrite R1, R2 in H.
    assert (Hall : forall q, In q cells -> Nat.eqb (cl st (clab img q)) v = true).
    { intros q Hq. apply Nat.eqb_eq. exact (pp_one q p Hq Hp). }
    rewrite !(lsum_ind_true cells (fun q => Nat.eqb (cl st (clab img q)) v)) in H by exact Hall.
    rewrite lsum_one in H.
    pose proof (cell_volume_pos g Hok) as Hcv.
    assert (H' : cell_volume g * (mpos st v ax * inject_Z (Z.of_nat (length cells)))
                 == cell_volume g * lsum cells (fun q => coordQ q ax + (1 # 2)
                                      + inject_Z (off st (clab img q) ax * shapeN g ax))).
    { rewrite <- H. ring. }
    apply Qmult_inj_l in H'; [exact H'|]. intros E. rewrite E in Hcv. discriminate Hcv.
  Qed.

  (* ... in lifted coordinates: T whole periods, none along non-periodic axes *)
  Lemma pp_position_lifted p ax a x : In p cells -> nth_error g ax = Some a -> nth_error c ax = Some x ->
    exists T : Z, (aper a = false -> T = 0%Z) /\
      mpos st (cl st (clab img p)) ax * inject_Z (Z.of_nat (length (ball_cells g c r)))
      == lsum (ball_cells g c r) (fun q => rowoff (gam a x) (liftZ a x (nth ax q 0%Z)))
         + (gam a x + inject_Z (T * ncell a)) * inject_Z (Z.of_nat (length (ball_cells g c r))).
  Proof.
    intros Hp Ha Hx. set (v := cl st (clab img p)).
    pose proof (pp_position_off p ax Hp) as H. fold v in H.
    rewrite (lsum_perm _ _ _ pp_perm), (Permutation_length pp_perm) in H.
    assert (Hgen : forall T : Z,
              (forall q, In q cells -> off st (clab img q) ax = (kcell q ax + T)%Z) ->
              mpos st v ax * inject_Z (Z.of_nat (length (ball_cells g c r)))
              == lsum (ball_cells g c r) (fun q => rowoff (gam a x) (liftZ a x (nth ax q 0%Z)))
                 + (gam a x + inject_Z (T * ncell a)) * inject_Z (Z.of_nat (length (ball_cells g c r)))).
    { intros T HT. rewrite H. rewrite <- lsum_const, <- lsum_plus. apply lsum_ext. intros q Hq.
      apply pp_mask in Hq. rewrite (HT q Hq). unfold kcell. rewrite Ha, Hx.
      rewrite (shapeN_nth_error g ax a Ha). unfold rowoff, liftZ, coordQ.
      rewrite !inject_Z_plus, !inject_Z_mult, inject_Z_plus. ring. }
    destruct (aper a) eqn:Hper.
    - destruct (merge_offsets (shapeN g) (pos0 img) (vol0 g img) kappa (edges g img) kappa_lift_ok) as [t Ht].
      change (merge_all (shapeN g) (init_state (pos0 img) (vol0 g img)) (edges g img)) with st in Ht.
      exists (t v ax). split; [discriminate|]. apply Hgen. intros q Hq.
      rewrite (Ht (clab img q) ax), (kappa_cell q ax Hq), (pp_one q p Hq Hp). reflexivity.
    - exists 0%Z. split; [reflexivity|]. apply Hgen. intros q Hq.
      assert (Hk : kcell q ax = 0%Z) by (unfold kcell, ksh; rewrite Ha, Hx, Hper; reflexivity).
      rewrite Hk. unfold final_state. apply off_no_edge; [|reflexivity].
      intros kl kh ax' Hin E. subst ax'. apply in_edges in Hin. destruct Hin as [Hin _].
      apply periodic_axes_spec in Hin. destruct Hin as (a1 & Ha1 & Hp1). congruence.
  Qed.

  (* the reported coordinate along axis k *)
  Theorem pp_axis_position p k a x : In p cells -> nth_error g k = Some a -> nth_error c k = Some x ->
    let pk := norm1 a (alo a + mpos st (cl st (clab img p)) k * adisc a) in
    Qabs (diff1 a x pk) <= adisc a / 2 /\ (aper a = true -> alo a <= pk /\ pk < ahi a).
  Proof.
    intros Hp Ha Hx. set (m := mpos st (cl st (clab img p)) k).
    destruct (pp_position_lifted p k a x Hp Ha Hx) as (T & HT0 & HT). fold m in HT.
    destruct (pfits_nth g c r Hpf k a Ha) as (x' & Hx' & Hf1). assert (x' = x) by congruence. subst x'.
    pose proof (grid_ok_axis g k a Hok Ha) as Hoka. pose proof (adisc_pos a Hoka) as Hh.
    pose proof (torus_ball_centroid g c r k a x Hok Ha Hx (pfits1_tfits1 a x r Hoka Hf1)) as Hcen.
    set (n := inject_Z (Z.of_nat (length (ball_cells g c r)))) in *.
    assert (Hn : 0 < n).
    { unfold n. change 0 with (inject_Z 0). rewrite <- Zlt_Qlt.
      destruct (ball_cells g c r); [congruence|cbn [length]; lia]. }
    destruct (mean_bound m (gam a x + inject_Z (T * ncell a)) _ n Hn HT Hcen) as [D1 D2].
    set (D := m - (gam a x + inject_Z (T * ncell a))) in *.
    assert (Egam : gam a x * adisc a == x - alo a).
    { unfold gam. field. intros E. rewrite E in Hh. discriminate Hh. }
    assert (Eh2 : adisc a / 2 == (1 # 2) * adisc a) by field.
    assert (Em : alo a + m * adisc a - x == D * adisc a + inject_Z T * asize a).
    { unfold D. rewrite inject_Z_mult, <- (ncell_adisc a (proj1 Hoka)).
      assert (E : alo a + m * adisc a - x == m * adisc a - gam a x * adisc a) by (rewrite Egam; ring).
      rewrite E. ring. }
    cbv zeta. unfold norm1, diff1. destruct (aper a) eqn:Hper.
    - unfold pfits1 in Hf1. rewrite Hper in Hf1. pose proof ball_r_nonneg as Hr.
      assert (HL : 0 < asize a) by lra.
      split.
      + unfold Qmod. set (fl := Qfloor ((alo a + m * adisc a - alo a) / asize a)).
        rewrite (wrap1_comp (asize a) _ (D * adisc a + inject_Z (T - fl) * asize a)).
        2:{ unfold Zminus. rewrite inject_Z_plus, inject_Z_opp.
            assert (E : alo a + m * adisc a - alo a - inject_Z fl * asize a + alo a - x
                        == (alo a + m * adisc a - x) - inject_Z fl * asize a) by ring.
            rewrite E, Em. ring. }
        rewrite (wrap1_add_period (asize a) (D * adisc a) (T - fl) HL).
        assert (P1 : 0 <= adisc a * (D + (1 # 2))) by (apply Qmult_le_0_compat; lra).
        assert (P2 : 0 <= adisc a * ((1 # 2) - D)) by (apply Qmult_le_0_compat; lra).
        rewrite (wrap1_small (asize a) (D * adisc a) HL) by lra.
        rewrite Eh2. apply Qabs_Qle_condition. split; lra.
      + intros _. destruct (Qmod_range (alo a + m * adisc a - alo a) (asize a) HL) as [Q1 Q2].
        unfold asize in Q2 at 2. split; lra.
    - rewrite (HT0 eq_refl) in Em. change (inject_Z 0) with 0 in Em.
      split; [|discriminate].
      assert (E : alo a + m * adisc a - x == D * adisc a) by (rewrite Em; ring).
      rewrite E, Eh2.
      assert (P1 : 0 <= adisc a * (D + (1 # 2))) by (apply Qmult_le_0_compat; lra).
      assert (P2 : 0 <= adisc a * ((1 # 2) - D)) by (apply Qmult_le_0_compat; lra).
      apply Qabs_Qle_condition. split; lra.
  Qed.
End PeriodicPos.

(* the located emulsion before overlap removal on a grid with periodic axes: one droplet, exact volume,
   centre within half a grid spacing of c under the grid's periodic metric (diff1 = wrapped difference
   along periodic axes, plain difference otherwise) and inside the box along periodic axes *)
Theorem c01_periodic_single g c r lab :
  let img := mk_limage (gshape g) lab in
  grid_ok g -> pfits g c r -> ball_cells g c r <> [] ->
  wf_img g img -> LabelSpecImg img -> mask_is_ball g c r img ->
  exists pos vol,
    candidates g lab = [(pos, vol)] /\
    vol == cell_volume g * inject_Z (Z.of_nat (length (ball_cells g c r))) /\
    length pos = length g /\
    forall k a x, nth_error g k = Some a -> nth_error c k = Some x ->
      exists pk, nth_error pos k = Some pk /\
        Qabs (diff1 a x pk) <= adisc a / 2 /\ (aper a = true -> alo a <= pk /\ pk < ahi a).
Proof.
  intros img Hok Hpf Hne Hwf Hspec Hmask.
  pose proof (pfits_tfits g c r Hok Hpf) as Htf.
  destruct (ball_cells g c r) as [|p0 ps] eqn:E; [congruence|].
  assert (Hp0 : In p0 (mask_cells img)).
  { apply (per_mask_cells g c r img Hwf Hmask). rewrite E. left. reflexivity. }
  rewrite <- E in *. set (st := final_state g img). set (v := cl st (clab img p0)).
  exists (normalize g (cell_to_grid g (map (mpos st v) (seq 0 (length g))))), (mvol st v).
  split; [|split; [|split]].
  - unfold candidates. fold img.
    rewrite (per_reps g c r img Hok Htf Hwf Hspec Hmask p0 Hp0). reflexivity.
  - exact (per_volume g c r img Hok Htf Hwf Hspec Hmask p0 Hp0).
  - apply normalize_cell_to_grid_length.
  - intros k a x Ha Hx. exists (norm1 a (alo a + mpos st v k * adisc a)). split.
    + exact (normalize_cell_to_grid_nth_gen g (mpos st v) 0 k a Ha).
    + exact (pp_axis_position g c r img Hok Hpf Hne Hwf Hspec Hmask p0 k a x Hp0 Ha Hx).
Qed.

(* ------------------------------------------------------------------------------------------ *)
(* the premises are satisfiable                                                                  *)
(* ------------------------------------------------------------------------------------------ *)
(* the grid, centre and radius of BallConn.ball_example with the label image of its six covered cells *)
Definition ex_lab : list nat :=
  [0; 0; 0; 0;  0; 1; 1; 0;  1; 1; 1; 1;  0; 0; 0; 0;  0; 0; 0; 0]%nat.

(* decide  lab <> 0 <-> covered  cell by cell *)
Ltac mask_enum Hr :=
  apply all_cells_spec in Hr; vm_compute in Hr;
  repeat (destruct Hr as [<-|Hr];
          [vm_compute; split; intros H; first [reflexivity|discriminate H|exfalso; apply H; reflexivity
                                                |intros H'; discriminate H']|]);
  destruct Hr.

Lemma ex_mask_is_ball : mask_is_ball ex_grid ex_c ex_r (mk_limage (gshape ex_grid) ex_lab).
Proof. intros idx Hr. mask_enum Hr. Qed.

Example c01_single_nonvacuous :
  let img := mk_limage (gshape ex_grid) ex_lab in
  grid_ok ex_grid /\ nonper ex_grid /\ fits ex_grid ex_c ex_r /\ ball_cells ex_grid ex_c ex_r <> [] /\
  wf_img ex_grid img /\ LabelSpecImg img /\ mask_is_ball ex_grid ex_c ex_r img.
Proof.
  intros img. destruct ball_example as (Hok & Hnp & Hfit & Hcells & _).
  assert (Hwf : wf_img ex_grid img) by (apply wf_imgb_true; vm_compute; reflexivity).
  split; [exact Hok|]. split; [exact Hnp|]. split; [exact Hfit|].
  split; [rewrite Hcells; discriminate|]. split; [exact Hwf|]. split; [|exact ex_mask_is_ball].
  intros a b Ha Hb. split.
  - intros _. exact (ball_box_conn ex_grid ex_c ex_r img Hok Hnp Hfit Hwf ex_mask_is_ball a b Ha Hb).
  - intros _. assert (Hm : mask_cells img = [[1; 1]; [1; 2]; [2; 0]; [2; 1]; [2; 2]; [2; 3]]%Z)
      by (vm_compute; reflexivity).
    rewrite Hm in Ha, Hb. cbn [In] in Ha, Hb.
    repeat (destruct Ha as [<-|Ha]); try (destruct Ha);
      repeat (destruct Hb as [<-|Hb]); try (destruct Hb); vm_compute; reflexivity.
Qed.


(* (B): two spheres on a line of 10 unit cells, centres 5/2 and 15/2, radii 6/5: three cells each,
   separated along the only axis by 5 >= 6/5 + 6/5 + 1 *)
Definition ex2_grid : grid := [ {| ncell := 10; alo := 0; ahi := 10; aper := false |} ].
Definition ex2_d1 : sphere := ([5 # 2], 6 # 5).
Definition ex2_d2 : sphere := ([15 # 2], 6 # 5).
Definition ex2_lab : list nat := [0; 1; 1; 1; 0; 0; 2; 2; 2; 0]%nat.

Example c01_multi_nonvacuous :
  let g := ex2_grid in let ds := [ex2_d1; ex2_d2] in
  let img := mk_limage (gshape g) ex2_lab in
  grid_ok g /\ nonper g /\
  (forall d, In d ds -> fits g (fst d) (snd d)) /\
  (forall d, In d ds -> ball_cells g (fst d) (snd d) <> []) /\
  (forall i j di dj, nth_error ds i = Some di -> nth_error ds j = Some dj -> i <> j -> apart g di dj) /\
  wf_img g img /\ LabelSpecImg img /\ mask_is_emulsion g ds img.
Proof.
  intros g ds img.
  assert (Hok : grid_ok g) by (apply grid_okb_true; vm_compute; reflexivity).
  assert (Hnp : nonper g) by (apply nonperb_true; vm_compute; reflexivity).
  assert (Hfits : forall d, In d ds -> fits g (fst d) (snd d)).
  { intros d [<-|[<-|[]]]; apply fitsb_true; vm_compute; reflexivity. }
  assert (Hb1 : ball_cells g (fst ex2_d1) (snd ex2_d1) = [[1]; [2]; [3]]%Z) by (vm_compute; reflexivity).
  assert (Hb2 : ball_cells g (fst ex2_d2) (snd ex2_d2) = [[6]; [7]; [8]]%Z) by (vm_compute; reflexivity).
  assert (Hsep : forall i j di dj, nth_error ds i = Some di -> nth_error ds j = Some dj -> i <> j ->
                   apart g di dj).
  { assert (Ha : axis_ok {| ncell := 10; alo := 0; ahi := 10; aper := false |})
      by (split; [reflexivity|reflexivity]).
    intros i j di dj Hi Hj Hij.
    destruct i as [|[|i]]; destruct j as [|[|j]]; cbn in Hi, Hj; try congruence;
      try (destruct i; discriminate Hi); try (destruct j; discriminate Hj);
      injection Hi as <-; injection Hj as <-.
    - apply (apart_of_axis g ex2_d1 ex2_d2 0 _ (5 # 2) (15 # 2) eq_refl eq_refl Ha eq_refl eq_refl).
      apply Qle_bool_iff. vm_compute. reflexivity.
    - apply (apart_of_axis g ex2_d2 ex2_d1 0 _ (15 # 2) (5 # 2) eq_refl eq_refl Ha eq_refl eq_refl).
      apply Qle_bool_iff. vm_compute. reflexivity. }
  assert (Hwf : wf_img g img) by (apply wf_imgb_true; vm_compute; reflexivity).
  assert (Hmask : mask_is_emulsion g ds img) by (intros idx Hr; mask_enum Hr).
  split; [exact Hok|]. split; [exact Hnp|]. split; [exact Hfits|].
  split; [intros d [<-|[<-|[]]]; [rewrite Hb1|rewrite Hb2]; discriminate|].
  split; [exact Hsep|]. split; [exact Hwf|]. split; [|exact Hmask].
  assert (Hm : mask_cells img = [[1]; [2]; [3]; [6]; [7]; [8]]%Z) by (vm_compute; reflexivity).
  assert (Hs1 : forall p q, In p [[1]; [2]; [3]]%Z -> In q [[1]; [2]; [3]]%Z -> box_conn img p q).
  { intros p q Hp Hq. apply (same_conn g ds img Hok Hnp Hfits Hwf Hmask).
    exists 0%nat, ex2_d1. split; [reflexivity|]. unfold in_ball. rewrite Hb1. split; assumption. }
  assert (Hs2 : forall p q, In p [[6]; [7]; [8]]%Z -> In q [[6]; [7]; [8]]%Z -> box_conn img p q).
  { intros p q Hp Hq. apply (same_conn g ds img Hok Hnp Hfits Hwf Hmask).
    exists 1%nat, ex2_d2. split; [reflexivity|]. unfold in_ball. rewrite Hb2. split; assumption. }
  intros a b Ha Hb. split.
  - intros E. rewrite Hm in Ha, Hb. cbn [In] in Ha, Hb.
    repeat (destruct Ha as [<-|Ha]); try (destruct Ha);
      repeat (destruct Hb as [<-|Hb]); try (destruct Hb);
      first [ exfalso; vm_compute in E; discriminate E
            | apply Hs1; cbn [In]; tauto
            | apply Hs2; cbn [In]; tauto ].
  - intros Hc. destruct (conn_same g ds img Hsep Hwf Hmask a b Hc) as [<-|(i & d & Hd & Hp & Hq)];
      [reflexivity|].
    destruct i as [|[|i]]; cbn in Hd; [| |destruct i; discriminate Hd]; injection Hd as <-;
      unfold in_ball in Hp, Hq; [rewrite Hb1 in Hp, Hq|rewrite Hb2 in Hp, Hq]; cbn [In] in Hp, Hq;
      repeat (destruct Hp as [<-|Hp]); try (destruct Hp);
      repeat (destruct Hq as [<-|Hq]); try (destruct Hq); vm_compute; reflexivity.
Qed.

(* (C): six unit cells on a periodic line, centre 1/5, radius 6/5: the sphere covers cell 0 and, across
   the boundary, cell 5; the labelling sees two pieces *)
Definition ex3_grid : grid := [ {| ncell := 6; alo := 0; ahi := 6; aper := true |} ].
Definition ex3_lab : list nat := [1; 0; 0; 0; 0; 2]%nat.

Example c01_periodic_nonvacuous :
  let g := ex3_grid in let c := [1 # 5] in let r := 6 # 5 in
  let img := mk_limage (gshape g) ex3_lab in
  grid_ok g /\ tfits g c r /\ pfits g c r /\ ball_cells g c r = [[0]; [5]]%Z /\
  wf_img g img /\ LabelSpecImg img /\ mask_is_ball g c r img /\ num_labels img = 2%nat.
Proof.
  intros g c r img.
  split; [apply grid_okb_true; vm_compute; reflexivity|].
  split; [constructor; [|constructor]; unfold tfits1; cbn [aper]; apply Qle_bool_iff; vm_compute; reflexivity|].
  split; [constructor; [|constructor]; unfold pfits1; cbn [aper]; apply Qle_bool_iff; vm_compute; reflexivity|].
  split; [vm_compute; reflexivity|].
  split; [apply wf_imgb_true; vm_compute; reflexivity|].
  split; [|split; [intros idx Hr; mask_enum Hr|vm_compute; reflexivity]].
  assert (Hm : mask_cells img = [[0]; [5]]%Z) by (vm_compute; reflexivity).
  assert (Hno : forall x y, ~ step0 cell (mask_cells img) face_adj x y).
  { intros x y (Hx & Hy & Hf). rewrite Hm in Hx, Hy.
    destruct Hx as [<-|[<-|[]]]; destruct Hy as [<-|[<-|[]]];
      inversion Hf as [x' y' c' Hd|x' c' d' Hf']; subst; try lia; inversion Hf'. }
  intros a b Ha Hb. split.
  - intros E. rewrite Hm in Ha, Hb.
    destruct Ha as [<-|[<-|[]]]; destruct Hb as [<-|[<-|[]]]; try apply cr_refl;
      vm_compute in E; discriminate E.
  - intros H. apply (clos_empty _ a b Hno) in H. congruence.
Qed.

Print Assumptions c01_single.
Print Assumptions c01_multi_components.
Print Assumptions c01_multi_labels.
Print Assumptions c01_multi_num_labels.
Print Assumptions c01_multi.
Print Assumptions c01_multi_euclid.
Print Assumptions c01_multi_no_removal.
Print Assumptions c01_periodic_single_partial.
Print Assumptions c01_periodic_single.
Print Assumptions c01_single_nonvacuous.
Print Assumptions c01_multi_nonvacuous.
Print Assumptions c01_periodic_nonvacuous.
