(* C02, Cartesian grids: the abstract components theorem (Proofs/Components.v) instantiated with the
   executable model of _locate_droplets_in_mask_cartesian (Model/Locate.v).
     all_cells_spec, boundary_pairs_spec, periodic_axes_spec : what the enumerations of the model contain;
     edges_sound / edges_complete / edges_edges_ok : the edge list handed to the merge loop is exactly
        the set of label pairs of mask cells facing each other across a periodic boundary;
     locate_cart_components : same final cluster  <->  connected under torus adjacency;
     locate_cart_volume     : stored volume = cell volume * number of cells of the torus component;
     locate_cart_position   : stored position = centre of mass of the component unwrapped by a lift kappa,
                              up to one whole-period vector per cluster.
   The labelling (scipy.ndimage.label) enters only through the premise LabelSpecImg. *)
From Coq Require Import QArith ZArith List Arith Bool Lia Lqa Setoid Morphisms Permutation.
Import ListNotations.
From PD Require Import Model.Grid Model.MergeLoop Model.Locate Proofs.MergeLoop Proofs.Components.
Local Open Scope Q_scope.

(* ---- cells in range ---- *)
Definition in_range (shape : list Z) (c : cell) : Prop :=
  Forall2 (fun i n => (0 <= i < n)%Z) c shape.

Lemma in_range_cons_inv n rest c :
  in_range (n :: rest) c <-> exists x c', c = x :: c' /\ (0 <= x < n)%Z /\ in_range rest c'.
Proof.
  unfold in_range. split.
  - intros H. inversion H as [|x n' c' rest' Hx Hc]; subst. exists x, c'. split; [reflexivity|]. split; assumption.
  - intros (x & c' & -> & Hx & Hc). constructor; assumption.
Qed.

Lemma in_range_length shape c : in_range shape c -> length c = length shape.
Proof. intros H. induction H as [|x n c' rest _ _ IH]; cbn [length]; congruence. Qed.

Lemma zrange_spec k : forall s i, In i (zrange k s) <-> (s <= i < s + Z.of_nat k)%Z.
Proof.
  induction k as [|k IH]; intros s i; cbn [zrange In].
  - lia.
  - rewrite IH. lia.
Qed.

(* (1) the raster enumeration contains exactly the in-range index vectors *)
Lemma all_cells_spec shape : forall c, In c (all_cells shape) <-> in_range shape c.
Proof.
  induction shape as [|n rest IH]; intros c; cbn [all_cells].
  - unfold in_range. split.
    + intros [<-|[]]. constructor.
    + intros H. inversion H. left. reflexivity.
  - rewrite in_flat_map, in_range_cons_inv. split.
    + intros (x & Hx & Hc). apply in_map_iff in Hc. destruct Hc as (c' & <- & Hc').
      exists x, c'. split; [reflexivity|]. split; [|apply IH; exact Hc'].
      apply zrange_spec in Hx. lia.
    + intros (x & c' & -> & Hx & Hc'). exists x. split; [apply zrange_spec; lia|].
      apply in_map. apply IH. exact Hc'.
Qed.

Lemma nodup_app {A : Type} (l1 l2 : list A) :
  NoDup l1 -> NoDup l2 -> (forall x, In x l1 -> ~ In x l2) -> NoDup (l1 ++ l2).
Proof.
  induction l1 as [|x l1 IH]; intros H1 H2 Hd; cbn [app]; [exact H2|].
  inversion H1 as [|x' l1' Hx Hl1]; subst. constructor.
  - rewrite in_app_iff. intros [Hin|Hin]; [contradiction|]. apply (Hd x); [left; reflexivity|exact Hin].
  - apply IH; [exact Hl1|exact H2|]. intros y Hy. apply Hd. right. exact Hy.
Qed.

Lemma nodup_zrange k : forall s, NoDup (zrange k s).
Proof.
  induction k as [|k IH]; intros s; cbn [zrange]; constructor; [|apply IH].
  rewrite zrange_spec. lia.
Qed.

Lemma nodup_map_cons (i : Z) (rest : list (list Z)) : NoDup rest -> NoDup (map (cons i) rest).
Proof.
  intros H. induction H as [|c rest Hc _ IH]; cbn [map]; constructor; [|exact IH].
  rewrite in_map_iff. intros (c' & E & Hc'). injection E as ->. contradiction.
Qed.

Lemma nodup_flat_map_cons (zs : list Z) (rest : list (list Z)) :
  NoDup zs -> NoDup rest -> NoDup (flat_map (fun i => map (cons i) rest) zs).
Proof.
  intros Hzs Hrest. induction Hzs as [|i zs Hi _ IH]; cbn [flat_map]; [constructor|].
  apply nodup_app; [apply nodup_map_cons; exact Hrest|exact IH|].
  intros c Hc Hc'. apply in_map_iff in Hc. destruct Hc as (c1 & <- & _).
  apply in_flat_map in Hc'. destruct Hc' as (i' & Hi' & Hc'). apply in_map_iff in Hc'.
  destruct Hc' as (c2 & E & _). injection E as -> _. contradiction.
Qed.

Lemma nodup_all_cells shape : NoDup (all_cells shape).
Proof.
  induction shape as [|n rest IH]; cbn [all_cells].
  - constructor; [intros []|constructor].
  - apply nodup_flat_map_cons; [apply nodup_zrange|exact IH].
Qed.

(* restricting axis ax to a single layer = the low face *)
Lemma in_range_face : forall ax shape c, (ax < length shape)%nat -> (1 <= nth ax shape 0)%Z ->
  (in_range (set_nth ax 1%Z shape) c <-> in_range shape c /\ nth ax c 0%Z = 0%Z).
Proof.
  induction ax as [|ax IH]; intros [|n rest] c Hlt Hn; cbn [length] in Hlt; try lia;
    cbn [set_nth nth] in *; rewrite !in_range_cons_inv; split.
  - intros (x & c' & -> & Hx & Hc). split; [|cbn [nth]; lia].
    exists x, c'. split; [reflexivity|]. split; [lia|exact Hc].
  - intros [(x & c' & -> & Hx & Hc) H0]. cbn [nth] in H0.
    exists x, c'. split; [reflexivity|]. split; [lia|exact Hc].
  - intros (x & c' & -> & Hx & Hc). apply IH in Hc; [|lia|exact Hn]. destruct Hc as [Hc H0].
    split; [|cbn [nth]; exact H0]. exists x, c'. split; [reflexivity|]. split; assumption.
  - intros [(x & c' & -> & Hx & Hc) H0]. cbn [nth] in H0.
    exists x, c'. split; [reflexivity|]. split; [exact Hx|].
    apply IH; [lia|exact Hn|]. split; assumption.
Qed.

Lemma in_range_set_nth : forall ax shape l v, in_range shape l -> (ax < length shape)%nat ->
  (0 <= v < nth ax shape 0)%Z -> in_range shape (set_nth ax v l).
Proof.
  induction ax as [|ax IH]; intros [|n rest] l v Hr Hlt Hv; cbn [length] in Hlt; try lia;
    apply in_range_cons_inv in Hr; destruct Hr as (x & c' & -> & Hx & Hc); cbn [set_nth nth] in *;
    apply in_range_cons_inv.
  - exists v, c'. split; [reflexivity|]. split; [exact Hv|exact Hc].
  - exists x, (set_nth ax v c'). split; [reflexivity|]. split; [exact Hx|].
    apply IH; [exact Hc|lia|exact Hv].
Qed.

(* (2) boundary pairs along ax: l runs over the low face, h is l moved to the high face *)
Lemma boundary_pairs_spec shape ax l h : (ax < length shape)%nat -> (1 <= nth ax shape 0)%Z ->
  (In (l, h) (boundary_pairs shape ax)
   <-> in_range shape l /\ nth ax l 0%Z = 0%Z /\ h = set_nth ax (nth ax shape 0 - 1)%Z l).
Proof.
  intros Hlt Hn. unfold boundary_pairs. rewrite in_map_iff. split.
  - intros (c & E & Hc). injection E as E1 E2. subst c. subst h. apply all_cells_spec in Hc.
    apply (in_range_face ax shape l Hlt Hn) in Hc. destruct Hc as [Hc H0].
    split; [exact Hc|]. split; [exact H0|reflexivity].
  - intros (Hr & H0 & ->). exists l. split; [reflexivity|]. apply all_cells_spec.
    apply (in_range_face ax shape l Hlt Hn). split; assumption.
Qed.

(* ---- periodic axes ---- *)
Lemma in_combine_seq {A : Type} (l : list A) : forall s i a,
  In (i, a) (combine (seq s (length l)) l) <-> (s <= i)%nat /\ nth_error l (i - s) = Some a.
Proof.
  induction l as [|x l IH]; intros s i a; cbn [length seq combine In].
  - split; [intros []|]. intros [_ H]. destruct (i - s)%nat; discriminate H.
  - rewrite IH. split.
    + intros [E|[Hle Hn]].
      * injection E as <- <-. split; [lia|]. rewrite Nat.sub_diag. reflexivity.
      * split; [lia|]. replace (i - s)%nat with (S (i - S s)) by lia. exact Hn.
    + intros [Hle Hn]. destruct (Nat.eq_dec i s) as [->|Hne].
      * rewrite Nat.sub_diag in Hn. cbn [nth_error] in Hn. injection Hn as <-. left. reflexivity.
      * right. split; [lia|]. replace (i - s)%nat with (S (i - S s)) in Hn by lia. exact Hn.
Qed.

Definition periodic_axis (g : grid) (ax : nat) : Prop :=
  exists a, nth_error g ax = Some a /\ aper a = true.

Lemma periodic_axes_spec g ax : In ax (periodic_axes g) <-> periodic_axis g ax.
Proof.
  unfold periodic_axes, periodic_axis. rewrite in_map_iff. split.
  - intros ([i a] & E & Hin). cbn [fst] in E. subst i. apply filter_In in Hin. destruct Hin as [Hin Hp].
    apply in_combine_seq in Hin. destruct Hin as [_ Hn]. rewrite Nat.sub_0_r in Hn.
    exists a. split; [exact Hn|exact Hp].
  - intros (a & Hn & Hp). exists (ax, a). split; [reflexivity|]. apply filter_In. split; [|exact Hp].
    apply in_combine_seq. split; [lia|]. rewrite Nat.sub_0_r. exact Hn.
Qed.

(* ---- grids ---- *)
Definition grid_ok (g : grid) : Prop := Forall (fun a => (0 < ncell a)%Z /\ alo a < ahi a) g.

Lemma shapeN_nth_error g : forall ax a, nth_error g ax = Some a -> shapeN g ax = ncell a.
Proof.
  unfold shapeN, gshape. induction g as [|b g IH]; intros [|ax] a H; cbn [nth_error] in H; try discriminate H.
  - injection H as ->. reflexivity.
  - cbn [map nth]. apply IH. exact H.
Qed.

Lemma axis_facts g ax a : grid_ok g -> nth_error g ax = Some a ->
  (ax < length (gshape g))%nat /\ (1 <= nth ax (gshape g) 0)%Z.
Proof.
  intros Hg Hn. split.
  - unfold gshape. rewrite map_length. apply nth_error_Some. congruence.
  - fold (shapeN g ax). rewrite (shapeN_nth_error g ax a Hn).
    unfold grid_ok in Hg. rewrite Forall_forall in Hg.
    destruct (Hg a (nth_error_In _ _ Hn)) as [H _]. lia.
Qed.

Lemma cell_volume_pos g : grid_ok g -> 0 < cell_volume g.
Proof.
  unfold cell_volume. intros Hg. induction Hg as [|a g [Hn Hlo] _ IH]; cbn [fold_right]; [reflexivity|].
  apply Qmult_lt_0_compat; [|exact IH]. unfold adisc, asize, Qdiv.
  apply Qmult_lt_0_compat; [lra|]. apply Qinv_lt_0_compat.
  change 0 with (inject_Z 0). rewrite <- Zlt_Qlt. exact Hn.
Qed.

(* ---- label images ---- *)
Lemma cell_eqb_spec : forall a b, cell_eqb a b = true <-> a = b.
Proof.
  induction a as [|x a IH]; intros [|y b]; cbn [cell_eqb]; try (split; [discriminate|discriminate]).
  - split; reflexivity.
  - rewrite andb_true_iff, Z.eqb_eq, IH. split; [intros [-> ->]; reflexivity|intros E; injection E; auto].
Qed.

Lemma lab_of_in img : NoDup (map fst img) -> forall c l, In (c, l) img -> lab_of img c = l.
Proof.
  induction img as [|[c' l'] img IH]; intros Hnd c l Hin; [destruct Hin|].
  cbn [map fst] in Hnd. inversion Hnd as [|k ks Hk Hnd']; subst.
  cbn [lab_of]. destruct (cell_eqb c c') eqn:E.
  - apply cell_eqb_spec in E. subst c'. destruct Hin as [Hin|Hin]; [congruence|].
    exfalso. apply Hk. apply in_map_iff. exists (c, l). split; [reflexivity|exact Hin].
  - destruct Hin as [Hin|Hin].
    + injection Hin as -> ->. assert (cell_eqb c c = true) by (apply cell_eqb_spec; reflexivity). congruence.
    + apply IH; assumption.
Qed.

Lemma lab_of_le img c : (lab_of img c <= num_labels img)%nat.
Proof.
  unfold num_labels. induction img as [|[c' l'] img IH]; cbn [lab_of fold_right snd]; [lia|].
  destruct (cell_eqb c c'); lia.
Qed.

(* mask cells: the keys of the image carrying a non-zero label; their 0-based label index *)
Definition mask_cells (img : limage) : list cell :=
  filter (fun c => negb (Nat.eqb (lab_of img c) 0)) (map fst img).
Definition clab (img : limage) (c : cell) : nat := pred (lab_of img c).

Lemma mask_cells_spec img c : In c (mask_cells img) <-> In c (map fst img) /\ lab_of img c <> 0%nat.
Proof.
  unfold mask_cells. rewrite filter_In, negb_true_iff, Nat.eqb_neq. reflexivity.
Qed.

Lemma clab_lt img c : In c (mask_cells img) -> (clab img c < num_labels img)%nat.
Proof.
  intros H. apply mask_cells_spec in H. destruct H as [_ H]. pose proof (lab_of_le img c). unfold clab. lia.
Qed.

(* well-formed label image: one entry per grid cell in raster order, every label 1..n occurs *)
Record wf_img (g : grid) (img : limage) : Prop := {
  wf_keys : map fst img = all_cells (gshape g);
  wf_dense : forall k, (k < num_labels img)%nat -> members img k <> []
}.

Lemma mask_cells_range g img c : wf_img g img ->
  (In c (mask_cells img) <-> in_range (gshape g) c /\ lab_of img c <> 0%nat).
Proof. intros Hwf. rewrite mask_cells_spec, (wf_keys g img Hwf), all_cells_spec. reflexivity. Qed.

Lemma nodup_mask_cells g img : wf_img g img -> NoDup (mask_cells img).
Proof.
  intros Hwf. unfold mask_cells. apply NoDup_filter. rewrite (wf_keys g img Hwf). apply nodup_all_cells.
Qed.

(* ---- adjacency ---- *)
(* face adjacency: equal length, the index vectors differ by exactly 1 in exactly one coordinate *)
Inductive face_adj : cell -> cell -> Prop :=
| fa_here x y c : Z.abs (x - y) = 1%Z -> face_adj (x :: c) (y :: c)
| fa_there x c d : face_adj c d -> face_adj (x :: c) (x :: d).

(* wrap pair along a periodic axis: l on the low face, h = l moved to the high face *)
Definition wrap_pair (g : grid) (ax : nat) (l h : cell) : Prop :=
  periodic_axis g ax /\ in_range (gshape g) l /\ nth ax l 0%Z = 0%Z
  /\ h = set_nth ax (shapeN g ax - 1)%Z l.

Definition box_conn (img : limage) : cell -> cell -> Prop := conn0 cell (mask_cells img) face_adj.
Definition torus_conn (g : grid) (img : limage) : cell -> cell -> Prop :=
  connT cell (mask_cells img) face_adj (wrap_pair g).

(* oracle specification of scipy.ndimage.label on mask cells (label 0 = off the mask is how mask_cells
   is defined): equal labels iff connected through face-adjacent mask cells inside the box *)
Definition LabelSpecImg (img : limage) : Prop :=
  forall a b, In a (mask_cells img) -> In b (mask_cells img) ->
    (lab_of img a = lab_of img b <-> box_conn img a b).

(* ---- (3) the edge list of the model ---- *)
Lemma in_edges_axis shape img ax e :
  In e (edges_axis shape img ax) <->
  exists l h, In (l, h) (boundary_pairs shape ax) /\ lab_of img l <> 0%nat /\ lab_of img h <> 0%nat
              /\ e = (pred (lab_of img l), pred (lab_of img h), ax).
Proof.
  unfold edges_axis. rewrite in_flat_map. split.
  - intros ([l h] & Hin & He). cbn [fst snd] in He.
    destruct (Nat.ltb_spec 0 (lab_of img l)) as [Hl|Hl]; destruct (Nat.ltb_spec 0 (lab_of img h)) as [Hh|Hh];
      cbn [andb] in He; try (destruct He; fail).
    destruct He as [<-|[]]. exists l, h. repeat split; try assumption; lia.
  - intros (l & h & Hin & Hl & Hh & ->). exists (l, h). split; [exact Hin|]. cbn [fst snd].
    destruct (Nat.ltb_spec 0 (lab_of img l)) as [Hl'|Hl']; [|lia].
    destruct (Nat.ltb_spec 0 (lab_of img h)) as [Hh'|Hh']; [|lia].
    left. reflexivity.
Qed.

Lemma in_edges g img kl kh ax :
  In (kl, kh, ax) (edges g img) <->
  In ax (periodic_axes g) /\
  exists l h, In (l, h) (boundary_pairs (gshape g) ax) /\ lab_of img l <> 0%nat /\ lab_of img h <> 0%nat
              /\ kl = pred (lab_of img l) /\ kh = pred (lab_of img h).
Proof.
  unfold edges. rewrite in_flat_map. split.
  - intros (ax' & Hax & He). apply in_edges_axis in He. destruct He as (l & h & Hin & Hl & Hh & E).
    injection E as -> -> ->. split; [exact Hax|]. exists l, h. repeat split; assumption.
  - intros (Hax & l & h & Hin & Hl & Hh & -> & ->). exists ax. split; [exact Hax|].
    apply in_edges_axis. exists l, h. repeat split; assumption.
Qed.

Lemma wrap_pair_boundary g ax l h : grid_ok g ->
  (wrap_pair g ax l h <-> In ax (periodic_axes g) /\ In (l, h) (boundary_pairs (gshape g) ax)).
Proof.
  intros Hg. unfold wrap_pair. rewrite periodic_axes_spec. split.
  - intros (Hp & Hr & H0 & Hh). split; [exact Hp|]. destruct Hp as (a & Hn & _).
    destruct (axis_facts g ax a Hg Hn) as [Hlt H1].
    apply (boundary_pairs_spec _ _ _ _ Hlt H1). repeat split; assumption.
  - intros [Hp Hin]. split; [exact Hp|]. destruct Hp as (a & Hn & _).
    destruct (axis_facts g ax a Hg Hn) as [Hlt H1].
    apply (boundary_pairs_spec _ _ _ _ Hlt H1) in Hin. exact Hin.
Qed.

Lemma wrap_pair_range g ax l h : grid_ok g -> wrap_pair g ax l h -> in_range (gshape g) h.
Proof.
  intros Hg ((a & Hn & _) & Hr & _ & ->). destruct (axis_facts g ax a Hg Hn) as [Hlt H1].
  apply in_range_set_nth; [exact Hr|exact Hlt|]. unfold shapeN. lia.
Qed.

Theorem edges_sound g img kl kh ax : grid_ok g -> wf_img g img -> In (kl, kh, ax) (edges g img) ->
  exists l h, In l (mask_cells img) /\ In h (mask_cells img) /\ wrap_pair g ax l h
              /\ clab img l = kl /\ clab img h = kh.
Proof.
  intros Hg Hwf Hin. apply in_edges in Hin. destruct Hin as (Hax & l & h & Hb & Hl & Hh & -> & ->).
  assert (Hw : wrap_pair g ax l h) by (apply (wrap_pair_boundary g ax l h Hg); split; assumption).
  exists l, h. split; [|split; [|split; [exact Hw|split; reflexivity]]].
  - apply (mask_cells_range g img l Hwf). split; [|exact Hl]. destruct Hw as (_ & Hr & _). exact Hr.
  - apply (mask_cells_range g img h Hwf). split; [|exact Hh]. exact (wrap_pair_range g ax l h Hg Hw).
Qed.

Theorem edges_complete g img ax l h : grid_ok g ->
  In l (mask_cells img) -> In h (mask_cells img) -> wrap_pair g ax l h ->
  In (clab img l, clab img h, ax) (edges g img).
Proof.
  intros Hg Hl Hh Hw. apply in_edges. apply (wrap_pair_boundary g ax l h Hg) in Hw. destruct Hw as [Hax Hb].
  split; [exact Hax|]. exists l, h. apply mask_cells_spec in Hl. apply mask_cells_spec in Hh.
  destruct Hl as [_ Hl]. destruct Hh as [_ Hh]. repeat split; assumption.
Qed.

(* (4) *)
Theorem edges_edges_ok g img : edges_ok (num_labels img) (edges g img).
Proof.
  intros kl kh ax Hin. apply in_edges in Hin. destruct Hin as (_ & l & h & _ & Hl & Hh & -> & ->).
  pose proof (lab_of_le img l). pose proof (lab_of_le img h). lia.
Qed.

(* ---- statistics per label ---- *)
Lemma csum_lsum (cs : list cell) f : csum cs f = lsum cs f.
Proof. unfold csum. induction cs as [|c cs IH]; cbn [fold_right lsum]; congruence. Qed.

Lemma lsum_map {A B : Type} (h : A -> B) (l : list A) f : lsum (map h l) f = lsum l (fun x => f (h x)).
Proof. induction l as [|x l IH]; cbn [map lsum]; congruence. Qed.

Lemma lsum_const {A : Type} (l : list A) k : lsum l (fun _ => k) == k * inject_Z (Z.of_nat (length l)).
Proof.
  rewrite <- lsum_one, <- lsum_scale. apply lsum_ext. intros c _. ring.
Qed.

(* summing over the mask cells with label index k = summing over members img k *)
Lemma members_sum img k (f : cell -> Q) : NoDup (map fst img) ->
  lsum (mask_cells img) (fun c => ind (Nat.eqb (clab img c) k) (f c)) == lsum (members img k) f.
Proof.
  intros Hnd. unfold mask_cells, members.
  rewrite <- (lsum_filter (map fst img) (fun c => negb (Nat.eqb (lab_of img c) 0))
                          (fun c => ind (Nat.eqb (clab img c) k) (f c))).
  rewrite !lsum_map.
  rewrite <- (lsum_filter img (fun p => Nat.eqb (snd p) (S k)) (fun p => f (fst p))).
  apply lsum_ext. intros [c l] Hin. cbn [fst snd]. unfold clab.
  rewrite (lab_of_in img Hnd c l Hin). destruct l as [|l]; cbn [Nat.eqb negb pred ind]; reflexivity.
Qed.

Lemma count_pos img k : members img k <> [] -> 0 < count (members img k).
Proof.
  intros H. unfold count. destruct (members img k) as [|c cs]; [congruence|].
  change 0 with (inject_Z 0). rewrite <- Zlt_Qlt. cbn [length]. lia.
Qed.

Section Instance.
  Variable g : grid.
  Variable img : limage.
  Hypothesis Hg : grid_ok g.
  Hypothesis Hwf : wf_img g img.
  Hypothesis Hspec : LabelSpecImg img.

  Local Notation cells := (mask_cells img).
  Local Notation n := (num_labels img).

  Lemma keys_nodup : NoDup (map fst img).
  Proof. rewrite (wf_keys g img Hwf). apply nodup_all_cells. Qed.

  Lemma inst_label_spec : forall a b, In a cells -> In b cells ->
    (clab img a = clab img b <-> conn0 cell cells face_adj a b).
  Proof.
    intros a b Ha Hb. rewrite <- (Hspec a b Ha Hb).
    apply mask_cells_spec in Ha. apply mask_cells_spec in Hb. unfold clab. lia.
  Qed.

  Lemma inst_vol0_pos : forall j, (j < n)%nat -> 0 < vol0 g img j.
  Proof.
    intros j Hj. unfold vol0. apply Qmult_lt_0_compat; [|apply cell_volume_pos; exact Hg].
    apply count_pos. apply (wf_dense g img Hwf). exact Hj.
  Qed.

  Lemma inst_cnt j : cnt cell cells (clab img) j == count (members img j).
  Proof.
    unfold cnt. rewrite (members_sum img j (fun _ => 1) keys_nodup). rewrite lsum_one. reflexivity.
  Qed.

  Lemma inst_vol0_spec : forall j, (j < n)%nat -> vol0 g img j == cell_volume g * cnt cell cells (clab img) j.
  Proof. intros j _. rewrite inst_cnt. unfold vol0. ring. Qed.

  Lemma inst_pos0_spec : forall j ax, (j < n)%nat ->
    pos0 img j ax * cnt cell cells (clab img) j
    == lsum cells (fun c => ind (Nat.eqb (clab img c) j) (coordQ c ax + (1 # 2))).
  Proof.
    intros j ax Hj. rewrite inst_cnt.
    rewrite (members_sum img j (fun c => coordQ c ax + (1 # 2)) keys_nodup).
    rewrite lsum_plus, lsum_const. unfold pos0. rewrite csum_lsum. fold (count (members img j)).
    pose proof (count_pos img j (wf_dense g img Hwf j Hj)) as Hc.
    field. intros E. rewrite E in Hc. discriminate Hc.
  Qed.

  (* (5) same final cluster <-> connected on the torus *)
  Theorem locate_cart_components a b : In a cells -> In b cells ->
    (cl (final_state g img) (clab img a) = cl (final_state g img) (clab img b) <-> torus_conn g img a b).
  Proof.
    unfold final_state, torus_conn.
    apply (components_classes cell cells (clab img) n (clab_lt img) face_adj (wrap_pair g)
             inst_label_spec (edges g img)
             (fun kl kh ax => edges_sound g img kl kh ax Hg Hwf)
             (fun ax l h => edges_complete g img ax l h Hg)
             (shapeN g) (pos0 img) (vol0 g img) inst_vol0_pos).
  Qed.

  (* stored volume = cell volume * number of cells of the torus component *)
  Theorem locate_cart_volume a (comp : list cell) : In a cells -> NoDup comp ->
    (forall c, In c comp <-> In c cells /\ torus_conn g img a c) ->
    mvol (final_state g img) (cl (final_state g img) (clab img a))
    == cell_volume g * inject_Z (Z.of_nat (length comp)).
  Proof.
    unfold final_state, torus_conn.
    apply (components_volume_list cell cells (nodup_mask_cells g img Hwf) (clab img) n (clab_lt img)
             face_adj (wrap_pair g) inst_label_spec (edges g img)
             (fun kl kh ax => edges_sound g img kl kh ax Hg Hwf)
             (fun ax l h => edges_complete g img ax l h Hg)
             (shapeN g) (pos0 img) (vol0 g img) inst_vol0_pos (cell_volume g) inst_vol0_spec).
  Qed.

  (* stored position = centre of mass of the component unwrapped by kappa, up to whole periods *)
  Theorem locate_cart_position (kappa : nat -> nat -> Z) : lift_ok kappa (edges g img) ->
    exists t : nat -> nat -> Z, forall a ax (comp : list cell), In a cells -> NoDup comp ->
      (forall c, In c comp <-> In c cells /\ torus_conn g img a c) ->
      let i := cl (final_state g img) (clab img a) in
      mpos (final_state g img) i ax * inject_Z (Z.of_nat (length comp))
      == lsum comp (fun c => coordQ c ax + (1 # 2)
                             + inject_Z ((kappa (clab img c) ax + t i ax) * shapeN g ax)).
  Proof.
    intros Hl. unfold final_state, torus_conn.
    exact (components_position_list cell cells (nodup_mask_cells g img Hwf) (clab img) n (clab_lt img)
             face_adj (wrap_pair g) inst_label_spec (edges g img)
             (fun kl kh ax => edges_sound g img kl kh ax Hg Hwf)
             (fun ax l h => edges_complete g img ax l h Hg)
             (shapeN g) (pos0 img) (vol0 g img) inst_vol0_pos (cell_volume g)
             (cell_volume_pos g Hg) inst_vol0_spec coordQ inst_pos0_spec kappa Hl).
  Qed.
End Instance.

(* ---- the adjacency relations in coordinates (to read torus_conn without trusting the inductive
        definitions): face_adj = equal length and exactly one coordinate differs, by exactly 1;
        wrap_pair = low face / high face of a periodic axis, all other coordinates equal ---- *)
Lemma face_adj_nth a b :
  face_adj a b <->
  length a = length b /\
  exists ax, (ax < length a)%nat /\ Z.abs (nth ax a 0%Z - nth ax b 0%Z) = 1%Z
             /\ forall k, k <> ax -> nth k a 0%Z = nth k b 0%Z.
Proof.
  split.
  - intros H. induction H as [x y c Hxy|x c d _ (Hlen & ax & Hax & Hd & Ho)].
    + split; [reflexivity|]. exists 0%nat. cbn [length nth]. split; [lia|]. split; [exact Hxy|].
      intros [|k] Hk; [congruence|reflexivity].
    + split; [cbn [length]; congruence|]. exists (S ax). cbn [length nth]. split; [lia|]. split; [exact Hd|].
      intros [|k] Hk; [reflexivity|]. apply Ho. congruence.
  - revert b. induction a as [|x a IH]; intros b (Hlen & ax & Hax & Hd & Ho); cbn [length] in *; [lia|].
    destruct b as [|y b]; [discriminate Hlen|]. cbn [length] in Hlen.
    destruct ax as [|ax].
    + cbn [nth] in Hd. assert (E : a = b).
      { apply (nth_ext a b 0%Z 0%Z); [lia|]. intros k _. apply (Ho (S k)). congruence. }
      subst b. apply fa_here. exact Hd.
    + assert (E : x = y) by (apply (Ho 0%nat); congruence). subst y. apply fa_there. apply IH.
      split; [lia|]. exists ax. split; [lia|]. split; [exact Hd|].
      intros k Hk. apply (Ho (S k)). congruence.
Qed.

Lemma set_nth_length v : forall ax l, length (set_nth ax v l) = length l.
Proof. induction ax as [|ax IH]; intros [|x l]; cbn [set_nth length]; try reflexivity. rewrite IH. reflexivity. Qed.

Lemma set_nth_same v : forall ax l, (ax < length l)%nat -> nth ax (set_nth ax v l) 0%Z = v.
Proof.
  induction ax as [|ax IH]; intros [|x l] H; cbn [length] in H; try lia; cbn [set_nth nth]; [reflexivity|].
  apply IH. lia.
Qed.

Lemma set_nth_other v : forall ax l k, k <> ax -> nth k (set_nth ax v l) 0%Z = nth k l 0%Z.
Proof.
  induction ax as [|ax IH]; intros [|x l] [|k] H; cbn [set_nth nth]; try reflexivity; try congruence.
  apply IH. congruence.
Qed.

Lemma wrap_pair_nth g ax l h : grid_ok g ->
  (wrap_pair g ax l h <->
   periodic_axis g ax /\ in_range (gshape g) l /\ length h = length l /\
   nth ax l 0%Z = 0%Z /\ nth ax h 0%Z = (shapeN g ax - 1)%Z /\
   forall k, k <> ax -> nth k h 0%Z = nth k l 0%Z).
Proof.
  intros Hg. unfold wrap_pair. split.
  - intros (Hp & Hr & H0 & ->). destruct Hp as (a & Hn & Hper).
    destruct (axis_facts g ax a Hg Hn) as [Hlt _]. pose proof (in_range_length _ _ Hr) as Hlen.
    split; [exists a; split; assumption|]. split; [exact Hr|]. split; [apply set_nth_length|].
    split; [exact H0|]. split; [apply set_nth_same; lia|]. intros k Hk. apply set_nth_other. exact Hk.
  - intros (Hp & Hr & Hlen & H0 & Hh & Ho). split; [exact Hp|]. split; [exact Hr|]. split; [exact H0|].
    destruct Hp as (a & Hn & _). destruct (axis_facts g ax a Hg Hn) as [Hlt _].
    pose proof (in_range_length _ _ Hr) as Hlen'.
    apply (nth_ext h (set_nth ax (shapeN g ax - 1)%Z l) 0%Z 0%Z); [rewrite set_nth_length; exact Hlen|].
    intros k _. destruct (Nat.eq_dec k ax) as [->|Hne].
    + rewrite set_nth_same by lia. exact Hh.
    + rewrite set_nth_other by exact Hne. apply Ho. exact Hne.
Qed.

(* the meaning of lift_ok in the concrete model: for a wrap pair (l, h) along ax and every axis a of
   the grid, the cells lifted by kappa periods are face neighbours (lifted h + e_ax = lifted l) iff
   kappa (label h) = kappa (label l) - e_ax *)
Lemma wrap_pair_lift_adjacent g img (kappa : nat -> nat -> Z) ax l h a : grid_ok g ->
  wrap_pair g ax l h -> (a < length g)%nat ->
  (coordQ h a + inject_Z (kappa (clab img h) a * shapeN g a) + inject_Z (delta a ax)
     == coordQ l a + inject_Z (kappa (clab img l) a * shapeN g a)
   <-> kappa (clab img h) a = (kappa (clab img l) a - delta a ax)%Z).
Proof.
  intros Hg Hw Ha. apply (wrap_pair_nth g ax l h Hg) in Hw. destruct Hw as (_ & _ & _ & H0 & Hh & Ho).
  apply (lift_adjacent_axis cell (clab img) (shapeN g) coordQ kappa l h ax a).
  - destruct (nth_error g a) as [x|] eqn:E; [|apply nth_error_None in E; lia].
    destruct (axis_facts g a x Hg E) as [_ H1]. unfold shapeN. lia.
  - unfold coordQ. rewrite H0. reflexivity.
  - unfold coordQ. rewrite Hh. unfold Z.sub. rewrite inject_Z_plus, inject_Z_opp. reflexivity.
  - intros Hne. unfold coordQ. rewrite (Ho a Hne). reflexivity.
Qed.

(* ---- executable checks of the side conditions ---- *)
Fixpoint cells_eqb (a b : list cell) : bool :=
  match a, b with
  | [], [] => true
  | x :: a', y :: b' => cell_eqb x y && cells_eqb a' b'
  | _, _ => false
  end.

Lemma cells_eqb_true : forall a b, cells_eqb a b = true -> a = b.
Proof.
  induction a as [|x a IH]; intros [|y b] H; cbn [cells_eqb] in H; try discriminate H; [reflexivity|].
  apply andb_true_iff in H. destruct H as [H1 H2]. apply cell_eqb_spec in H1. apply IH in H2. congruence.
Qed.

Definition wf_imgb (g : grid) (img : limage) : bool :=
  cells_eqb (map fst img) (all_cells (gshape g))
  && forallb (fun k => match members img k with [] => false | _ :: _ => true end) (seq 0 (num_labels img)).

Lemma wf_imgb_true g img : wf_imgb g img = true -> wf_img g img.
Proof.
  unfold wf_imgb. intros H. apply andb_true_iff in H. destruct H as [H1 H2]. split.
  - apply cells_eqb_true. exact H1.
  - intros k Hk. rewrite forallb_forall in H2. specialize (H2 k). rewrite in_seq in H2.
    destruct (members img k); [|discriminate]. assert (false = true) by (apply H2; lia). discriminate.
Qed.

Definition grid_okb (g : grid) : bool :=
  forallb (fun a => Z.ltb 0 (ncell a) && negb (Qle_bool (ahi a) (alo a))) g.

Lemma grid_okb_true g : grid_okb g = true -> grid_ok g.
Proof.
  unfold grid_okb, grid_ok. rewrite forallb_forall, Forall_forall. intros H a Ha.
  specialize (H a Ha). apply andb_true_iff in H. destruct H as [H1 H2]. split; [apply Z.ltb_lt; exact H1|].
  apply negb_true_iff in H2. apply Qnot_le_lt. intros Hle. apply Qle_bool_iff in Hle. congruence.
Qed.

(* ---- the premises are satisfiable by a non-trivial input: three cells on a periodic line, the two
        outer ones on the mask with different labels, joined only across the periodic boundary ---- *)
Lemma clos_empty {A : Type} (R : A -> A -> Prop) a b : (forall x y, ~ R x y) -> clos R a b -> a = b.
Proof.
  intros HR H. induction H as [x|x y _ IH|x y z _ IH1 _ IH2|x y Hs]; try congruence. destruct (HR x y Hs).
Qed.

Example locate_cart_nonvacuous :
  exists g img kappa, grid_ok g /\ wf_img g img /\ LabelSpecImg img /\ lift_ok kappa (edges g img) /\
    exists a b, In a (mask_cells img) /\ In b (mask_cells img) /\ lab_of img a <> lab_of img b
                /\ torus_conn g img a b.
Proof.
  set (g := [{| ncell := 3; alo := 0; ahi := 3; aper := true |}]).
  set (img := mk_limage [3%Z] [1%nat; 0%nat; 2%nat]).
  exists g, img, (fun k a => if (Nat.eqb k 1 && Nat.eqb a 0)%bool then (-1)%Z else 0%Z).
  assert (Hcells : mask_cells img = [[0%Z]; [2%Z]]) by (vm_compute; reflexivity).
  split; [apply grid_okb_true; vm_compute; reflexivity|].
  split; [apply wf_imgb_true; vm_compute; reflexivity|].
  split; [|split].
  - assert (Hno : forall x y, ~ step0 cell (mask_cells img) face_adj x y).
    { intros x y (Hx & Hy & Hf). rewrite Hcells in Hx, Hy.
      destruct Hx as [<-|[<-|[]]]; destruct Hy as [<-|[<-|[]]];
        inversion Hf as [x' y' c' Hd|x' c' d' Hf']; subst; try lia; inversion Hf'. }
    intros a b Ha Hb. split.
    + intros E. rewrite Hcells in Ha, Hb.
      destruct Ha as [<-|[<-|[]]]; destruct Hb as [<-|[<-|[]]]; try apply cr_refl;
        vm_compute in E; discriminate E.
    + intros H. apply (clos_empty _ a b Hno) in H. congruence.
  - intros kl kh ax Hin a. vm_compute in Hin. destruct Hin as [E|[]]. injection E as <- <- <-.
    destruct a; reflexivity.
  - exists [0%Z], [2%Z]. rewrite Hcells.
    split; [left; reflexivity|]. split; [right; left; reflexivity|]. split; [vm_compute; discriminate|].
    apply cr_step. rewrite Hcells. split; [left; reflexivity|]. split; [right; left; reflexivity|].
    right. exists 0%nat. split; [|split; [|split]].
    + eexists. split; [reflexivity|reflexivity].
    + repeat constructor; lia.
    + reflexivity.
    + reflexivity.
Qed.

Print Assumptions all_cells_spec.
Print Assumptions boundary_pairs_spec.
Print Assumptions periodic_axes_spec.
Print Assumptions edges_sound.
Print Assumptions edges_complete.
Print Assumptions edges_edges_ok.
Print Assumptions locate_cart_components.
Print Assumptions locate_cart_volume.
Print Assumptions locate_cart_position.
Print Assumptions face_adj_nth.
Print Assumptions wrap_pair_nth.
Print Assumptions locate_cart_nonvacuous.
Print Assumptions wrap_pair_lift_adjacent.
