(* C01 geometry, part 8: separated balls on a grid with periodic axes share no cell and touch neither
   through a face nor across a periodic boundary.
   Separation condition:  (r1 + r2 + hmax)^2 <= dist2 g c1 c2  with dist2 the periodic squared distance
   of Model/Grid.v (wrapped difference per periodic axis) and hmax >= every grid spacing.
     wrap_min             : the wrapped difference is a representative of least absolute value:
                            (wrap1 L d)^2 <= (d + k L)^2 for every integer k;
     dist2_per_triangle_lt: |AB|^2 < a^2 -> |BC|^2 <= b^2 -> |AC|^2 < (a + b)^2 for the periodic distance;
     tadj                 : adjacency on the torus (face step or wrap pair along a periodic axis), with
                            face_adj_tadj and wrap_pair_tadj;
     balls_apart_torus    : cells of separated balls are neither equal nor tadj-adjacent. *)
From Coq Require Import QArith Qabs Qround ZArith List Arith Bool Lia Lqa Setoid Morphisms.
Import ListNotations.
From PD Require Import Model.Grid Model.Render Model.MergeLoop Model.Locate Model.Ball
  Proofs.Render Proofs.MergeLoop Proofs.Components Proofs.LocateCart
  Proofs.BallRow Proofs.BallCentroid Proofs.BallSep Proofs.BallConn Proofs.BallEuclid Proofs.BallTorus.
Local Open Scope Q_scope.

Local Notation in_rangeL := LocateCart.in_range.

(* ---- the wrapped difference is a nearest representative ---- *)
Lemma wrap1_decomp L d : exists m : Z, wrap1 L d == d - inject_Z m * L.
Proof. exists (Qfloor ((d + L / 2) / L)). unfold wrap1, Qmod. ring. Qed.

Lemma wrap_min L d k : 0 < L -> wrap1 L d * wrap1 L d <= (d + inject_Z k * L) * (d + inject_Z k * L).
Proof.
  intros HL. rewrite <- (wrap1_add_period L d k HL).
  set (d' := d + inject_Z k * L). destruct (wrap1_decomp L d') as [m Hm].
  destruct (wrap1_range L d' HL) as [R1 R2].
  assert (EL : L / 2 == (1 # 2) * L) by field. rewrite EL in R1, R2.
  set (w := wrap1 L d') in *.
  assert (Ed : d' == w + inject_Z m * L) by (rewrite Hm; ring).
  rewrite Ed. set (M := inject_Z m).
  destruct (Z_lt_le_dec m 1) as [Hm1|Hm1].
  - destruct (Z.eq_dec m 0) as [->|Hm0].
    + unfold M. change (inject_Z 0) with 0. assert (E : w + 0 * L == w) by ring. rewrite E. apply Qle_refl.
    + assert (Hle : (m <= -1)%Z) by lia. rewrite Zle_Qle in Hle. fold M in Hle.
      change (inject_Z (-1)) with (- (1)) in Hle.
      assert (P1 : 0 <= (- M * L) * (- (2 * w + M * L))).
      { apply Qmult_le_0_compat; [nra|]. assert (M * L <= - L) by nra. lra. }
      assert (E : (w + M * L) * (w + M * L) - w * w == (- M * L) * (- (2 * w + M * L))) by ring.
      lra.
  - rewrite Zle_Qle in Hm1. fold M in Hm1. change (inject_Z 1) with 1 in Hm1.
    assert (P1 : 0 <= (M * L) * (2 * w + M * L)).
    { apply Qmult_le_0_compat; [nra|]. assert (L <= M * L) by nra. lra. }
    assert (E : (w + M * L) * (w + M * L) - w * w == (M * L) * (2 * w + M * L)) by ring.
    lra.
Qed.

Lemma wrap_le_plain L d : 0 < L -> wrap1 L d * wrap1 L d <= d * d.
Proof.
  intros HL. pose proof (wrap_min L d 0 HL) as H. change (inject_Z 0) with 0 in H.
  assert (E : d + 0 * L == d) by ring. rewrite E in H. exact H.
Qed.

Lemma asize_pos a : axis_ok a -> 0 < asize a.
Proof. intros [_ H]. unfold asize. lra. Qed.

(* one axis: the direct difference is not longer than the detour *)
Lemma diff1_chain a x y z : axis_ok a ->
  diff1 a x z * diff1 a x z <= (diff1 a x y + diff1 a y z) * (diff1 a x y + diff1 a y z).
Proof.
  intros Hok. unfold diff1. destruct (aper a).
  - pose proof (asize_pos a Hok) as HL. set (L := asize a) in *.
    destruct (wrap1_decomp L (y - x)) as [m1 H1]. destruct (wrap1_decomp L (z - y)) as [m2 H2].
    assert (E : wrap1 L (y - x) + wrap1 L (z - y) == (z - x) + inject_Z (- m1 - m2) * L).
    { rewrite H1, H2. unfold Zminus. rewrite inject_Z_plus, !inject_Z_opp. ring. }
    rewrite E. apply wrap_min. exact HL.
  - assert (E : y - x + (z - y) == z - x) by ring. rewrite E. apply Qle_refl.
Qed.

Lemma diff1_sym_sq a x y : axis_ok a -> diff1 a x y * diff1 a x y == diff1 a y x * diff1 a y x.
Proof.
  intros Hok. unfold diff1. destruct (aper a); [|ring].
  pose proof (asize_pos a Hok) as HL. set (L := asize a) in *.
  assert (Hhalf : forall d, wrap1 L (- d) * wrap1 L (- d) <= wrap1 L d * wrap1 L d).
  { intros d. destruct (wrap1_decomp L d) as [m Hm].
    pose proof (wrap_min L (- d) m HL) as H.
    assert (E : (- d + inject_Z m * L) * (- d + inject_Z m * L) == wrap1 L d * wrap1 L d).
    { rewrite Hm. ring. }
    rewrite E in H. exact H. }
  apply Qle_antisym.
  - pose proof (Hhalf (x - y)) as H.
    rewrite (wrap1_comp L (- (x - y)) (y - x)) in H by ring. exact H.
  - pose proof (Hhalf (y - x)) as H.
    rewrite (wrap1_comp L (- (y - x)) (x - y)) in H by ring. exact H.
Qed.

Lemma diff1_self_sq a x : axis_ok a -> diff1 a x x * diff1 a x x <= 0.
Proof.
  intros Hok. unfold diff1. destruct (aper a).
  - pose proof (wrap_le_plain (asize a) (x - x) (asize_pos a Hok)) as H.
    assert (E : (x - x) * (x - x) == 0) by ring. rewrite E in H. exact H.
  - assert (E : (x - x) * (x - x) == 0) by ring. rewrite E. apply Qle_refl.
Qed.

(* ---- vectors ---- *)
Lemma dist2_chain_le : forall g, grid_ok g -> forall A B C,
  length A = length g -> length B = length g -> length C = length g ->
  sumsq (diff_vec g A C)
  <= sumsq (diff_vec g A B) + 2 * dot (diff_vec g A B) (diff_vec g B C) + sumsq (diff_vec g B C).
Proof.
  intros g Hok. unfold grid_ok in Hok. induction Hok as [|a g Ha _ IH]; intros [|x A] [|y B] [|z C] HA HB HC;
    cbn [length] in *; try discriminate HA; try discriminate HB; try discriminate HC.
  - cbn [diff_vec sumsq fold_right dot]. lra.
  - cbn [diff_vec sumsq fold_right dot].
    fold (sumsq (diff_vec g A C)). fold (sumsq (diff_vec g A B)). fold (sumsq (diff_vec g B C)).
    assert (H := IH A B C ltac:(congruence) ltac:(congruence) ltac:(congruence)).
    pose proof (diff1_chain a x y z Ha) as H1.
    set (u := diff1 a x y) in *. set (v := diff1 a y z) in *. set (w := diff1 a x z) in *.
    assert (E : (u + v) * (u + v) == u * u + 2 * (u * v) + v * v) by ring. lra.
Qed.

Lemma dist2_per_sym : forall g, grid_ok g -> forall A B, dist2 g A B == dist2 g B A.
Proof.
  intros g Hok. unfold dist2, grid_ok in *. induction Hok as [|a g Ha _ IH]; intros [|x A] [|y B];
    cbn [diff_vec sumsq fold_right]; try reflexivity.
  fold (sumsq (diff_vec g A B)). fold (sumsq (diff_vec g B A)).
  rewrite (IH A B), (diff1_sym_sq a x y Ha). reflexivity.
Qed.

Lemma dist2_per_self : forall g, grid_ok g -> forall A, dist2 g A A <= 0.
Proof.
  intros g Hok. unfold dist2, grid_ok in *. induction Hok as [|a g Ha _ IH]; intros [|x A];
    cbn [diff_vec sumsq fold_right]; try apply Qle_refl.
  fold (sumsq (diff_vec g A A)). pose proof (IH A). pose proof (diff1_self_sq a x Ha). lra.
Qed.

Theorem dist2_per_triangle_lt g A B C a b : grid_ok g ->
  length A = length g -> length B = length g -> length C = length g ->
  0 <= a -> 0 <= b -> dist2 g A B < a * a -> dist2 g B C <= b * b ->
  dist2 g A C < (a + b) * (a + b).
Proof.
  intros Hok HA HB HC Ha Hb H1 H2. unfold dist2 in *.
  pose proof (dist2_chain_le g Hok A B C HA HB HC) as Hch.
  pose proof (cauchy_schwarz (diff_vec g A B) (diff_vec g B C)) as Hcs.
  pose proof (sumsq_nonneg (diff_vec g A B)) as HU. pose proof (sumsq_nonneg (diff_vec g B C)) as HV.
  set (U := sumsq (diff_vec g A B)) in *. set (V := sumsq (diff_vec g B C)) in *.
  set (D := dot (diff_vec g A B) (diff_vec g B C)) in *. set (W := sumsq (diff_vec g A C)) in *.
  clearbody U V D W.
  assert (Hab : 0 <= a * b) by (apply Qmult_le_0_compat; assumption).
  assert (HUV : U * V <= (a * b) * (a * b)).
  { assert (U * V <= (a * a) * V) by (apply Qmult_le_compat_r; lra).
    assert ((a * a) * V <= (a * a) * (b * b)).
    { rewrite (Qmult_comm (a * a) V), (Qmult_comm (a * a) (b * b)). apply Qmult_le_compat_r; [lra|nra]. }
    assert (E : a * b * (a * b) == a * a * (b * b)) by ring. lra. }
  assert (HD : D <= a * b).
  { destruct (Qlt_le_dec (a * b) D) as [H|H]; [exfalso|exact H]. set (ab := a * b) in *. nra. }
  assert (E : (a + b) * (a + b) == a * a + 2 * (a * b) + b * b) by ring.
  lra.
Qed.

(* ---- adjacency on the torus ---- *)
Inductive tadj : grid -> cell -> cell -> Prop :=
| tadj_here a g x y t :
    (y = x + 1 \/ x = y + 1 \/
     (aper a = true /\ ((x = 0 /\ y = ncell a - 1) \/ (y = 0 /\ x = ncell a - 1))))%Z ->
    length t = length g -> tadj (a :: g) (x :: t) (y :: t)
| tadj_there a g x t t' : tadj g t t' -> tadj (a :: g) (x :: t) (x :: t').

Lemma face_adj_tadj : forall p q, face_adj p q -> forall g, length p = length g -> tadj g p q.
Proof.
  intros p q Hf. induction Hf as [x y c Hxy|x c d _ IH]; intros [|a g] Hlen; try discriminate Hlen;
    cbn [length] in Hlen.
  - apply tadj_here; [lia|lia].
  - apply tadj_there. apply IH. lia.
Qed.

Lemma wrap_pair_tadj : forall ax g l h, wrap_pair g ax l h -> tadj g l h \/ l = h.
Proof.
  induction ax as [|ax IH]; intros g l h (Hp & Hr & H0 & Hh).
  - destruct Hp as (a & Hn & Hper). destruct g as [|a' g]; [discriminate Hn|]. cbn [nth_error] in Hn.
    injection Hn as ->. unfold gshape in Hr. cbn [map] in Hr. fold (gshape g) in Hr.
    apply in_range_cons_inv in Hr. destruct Hr as (x & t & -> & Hx & Ht).
    cbn [nth] in H0. subst x. unfold shapeN, gshape in Hh. cbn [map nth set_nth] in Hh. subst h.
    left. apply tadj_here.
    + right. right. split; [exact Hper|]. left. split; reflexivity.
    + apply in_range_length in Ht. rewrite Ht. unfold gshape. apply map_length.
  - destruct Hp as (a & Hn & Hper). destruct g as [|a' g]; [discriminate Hn|]. cbn [nth_error] in Hn.
    unfold gshape in Hr. cbn [map] in Hr. fold (gshape g) in Hr.
    apply in_range_cons_inv in Hr. destruct Hr as (x & t & -> & Hx & Ht).
    cbn [nth] in H0. unfold shapeN, gshape in Hh. cbn [map nth set_nth] in Hh.
    fold (gshape g) in Hh. fold (shapeN g ax) in Hh. subst h.
    destruct (IH g t (set_nth ax (shapeN g ax - 1)%Z t)) as [H|H].
    + split; [exists a; split; assumption|]. split; [exact Ht|]. split; [exact H0|reflexivity].
    + left. apply tadj_there. exact H.
    + right. rewrite <- H. reflexivity.
Qed.

Lemma tadj_length g p q : tadj g p q -> length p = length g /\ length q = length g.
Proof.
  intros H. induction H as [a g x y t _ Hl|a g x t t' _ [IH1 IH2]]; cbn [length]; split; congruence.
Qed.

Lemma centre1_diff a x y : centre1 a y - centre1 a x == (inject_Z y - inject_Z x) * adisc a.
Proof. unfold centre1. ring. Qed.

(* centres of torus-adjacent cells are at most hmax apart *)
Lemma dist2_tadj hmax : forall g p q, tadj g p q -> grid_ok g ->
  Forall (fun a => adisc a <= hmax) g ->
  dist2 g (cell_centre g p) (cell_centre g q) <= hmax * hmax.
Proof.
  intros g p q H. induction H as [a g x y t Hxy Hl|a g x t t' _ IH]; intros Hok Hh;
    unfold grid_ok in Hok; inversion Hok as [|a' g' Ha Hok']; subst a' g';
    inversion Hh as [|a' g' Hha Hh']; subst a' g';
    unfold dist2; cbn [cell_centre diff_vec sumsq fold_right].
  - fold (sumsq (diff_vec g (cell_centre g t) (cell_centre g t))).
    fold (dist2 g (cell_centre g t) (cell_centre g t)).
    pose proof (dist2_per_self g Hok' (cell_centre g t)) as H0.
    pose proof (adisc_pos a Ha) as Hpos. pose proof (asize_pos a Ha) as HL.
    pose proof (ncell_adisc a (proj1 Ha)) as EN.
    assert (Hsq : diff1 a (centre1 a x) (centre1 a y) * diff1 a (centre1 a x) (centre1 a y)
                  <= adisc a * adisc a).
    { unfold diff1. destruct Hxy as [->|[->|(Hper & Hw)]].
      - assert (E : centre1 a (x + 1) - centre1 a x == adisc a).
        { rewrite centre1_diff, inject_Z_plus. change (inject_Z 1) with 1. ring. }
        destruct (aper a).
        + rewrite (wrap1_comp _ _ _ E). apply wrap_le_plain. exact HL.
        + rewrite E. apply Qle_refl.
      - assert (E : centre1 a y - centre1 a (y + 1) == - adisc a).
        { rewrite centre1_diff, inject_Z_plus. change (inject_Z 1) with 1. ring. }
        destruct (aper a).
        + rewrite (wrap1_comp _ _ _ E).
          pose proof (wrap_le_plain (asize a) (- adisc a) HL) as H.
          assert (E2 : - adisc a * - adisc a == adisc a * adisc a) by ring. lra.
        + rewrite E. assert (E2 : - adisc a * - adisc a == adisc a * adisc a) by ring. lra.
      - rewrite Hper. destruct Hw as [[-> ->]|[-> ->]].
        + pose proof (wrap_min (asize a) (centre1 a (ncell a - 1) - centre1 a 0) (-1) HL) as H.
          assert (E : centre1 a (ncell a - 1) - centre1 a 0 + inject_Z (-1) * asize a == - adisc a).
          { rewrite centre1_diff. unfold Zminus. rewrite inject_Z_plus, <- EN.
            change (inject_Z (- (1))) with (- (1)). change (inject_Z (-1)) with (- (1)).
            change (inject_Z 0) with 0. ring. }
          rewrite E in H. assert (E2 : - adisc a * - adisc a == adisc a * adisc a) by ring. lra.
        + pose proof (wrap_min (asize a) (centre1 a 0 - centre1 a (ncell a - 1)) 1 HL) as H.
          assert (E : centre1 a 0 - centre1 a (ncell a - 1) + inject_Z 1 * asize a == adisc a).
          { rewrite centre1_diff. unfold Zminus. rewrite inject_Z_plus, <- EN.
            change (inject_Z (- (1))) with (- (1)). change (inject_Z 1) with 1.
            change (inject_Z 0) with 0. ring. }
          rewrite E in H. exact H. }
    assert (Hhh : adisc a * adisc a <= hmax * hmax).
    { assert (P : 0 <= (hmax - adisc a) * (hmax + adisc a)) by (apply Qmult_le_0_compat; lra).
      assert (E : (hmax - adisc a) * (hmax + adisc a) == hmax * hmax - adisc a * adisc a) by ring. lra. }
    lra.
  - fold (sumsq (diff_vec g (cell_centre g t) (cell_centre g t'))).
    fold (dist2 g (cell_centre g t) (cell_centre g t')).
    pose proof (IH Hok' Hh') as H. pose proof (diff1_self_sq a (centre1 a x) Ha) as H0. lra.
Qed.

(* ---- separated balls on the torus ---- *)
Theorem balls_apart_torus g c1 r1 c2 r2 hmax : grid_ok g ->
  length c1 = length g -> length c2 = length g ->
  0 <= hmax -> Forall (fun a => adisc a <= hmax) g ->
  (r1 + r2 + hmax) * (r1 + r2 + hmax) <= dist2 g c1 c2 ->
  forall p q, length p = length g -> length q = length g ->
    inside g c1 r1 p = true -> inside g c2 r2 q = true -> p <> q /\ ~ tadj g p q.
Proof.
  intros Hok Hl1 Hl2 Hh0 Hh Hsep p q Hlp Hlq Hp Hq.
  apply inside_iff in Hp. apply inside_iff in Hq. destruct Hp as [Hr1 Hp]. destruct Hq as [Hr2 Hq].
  pose proof (cell_centre_length g p Hlp) as HlP. pose proof (cell_centre_length g q Hlq) as HlQ.
  assert (Hkey : dist2 g (cell_centre g p) (cell_centre g q) <= hmax * hmax -> False).
  { intros Hpq.
    pose proof (dist2_per_triangle_lt g c1 (cell_centre g p) (cell_centre g q) r1 hmax Hok Hl1 HlP HlQ
                  Hr1 Hh0 Hp Hpq) as H1.
    rewrite (dist2_per_sym g Hok c2 (cell_centre g q)) in Hq.
    assert (Hrh : 0 <= r1 + hmax) by lra.
    pose proof (dist2_per_triangle_lt g c1 (cell_centre g q) c2 (r1 + hmax) r2 Hok Hl1 HlQ Hl2
                  Hrh Hr2 H1 (Qlt_le_weak _ _ Hq)) as H2.
    assert (E : (r1 + hmax + r2) * (r1 + hmax + r2) == (r1 + r2 + hmax) * (r1 + r2 + hmax)) by ring.
    lra. }
  split.
  - intros ->. apply Hkey. pose proof (dist2_per_self g Hok (cell_centre g q)). nra.
  - intros Ht. apply Hkey. exact (dist2_tadj hmax g p q Ht Hok Hh).
Qed.

Print Assumptions wrap_min.
Print Assumptions dist2_per_triangle_lt.
Print Assumptions wrap_pair_tadj.
Print Assumptions balls_apart_torus.
