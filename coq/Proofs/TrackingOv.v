(* The "overlap" method: one frame as a sequence of events; totality; frame invariant principle. *)
From Coq Require Import List Bool Arith Lia QArith Permutation.
Import ListNotations.
From PD Require Import Model.Tracking Proofs.Tracking.

Local Open Scope nat_scope.

Section Ov.
  Variable ov : did -> did -> bool.

  (* does the CURRENT last droplet of the track at position k overlap d *)
  Definition ov_pred (trs : list track) (d : did) (k : nat) : bool :=
    match nth_error trs k with Some tr => ov (t_last tr) d | None => false end.

  Lemma ov_matches_spec trs alive d l :
    ov_matches ov trs alive d = Ok l -> l = filter (ov_pred trs d) alive.
  Proof.
    revert l. induction alive as [|k alive IH]; intros l H; simpl in H.
    - inversion H. reflexivity.
    - cbn [filter]. unfold ov_pred at 1.
      destruct (nth_error trs k) as [tr|]; [|discriminate].
      destruct (ov_matches ov trs alive d) as [l0|e]; [|discriminate].
      inversion H; subst. rewrite (IH l0 eq_refl). reflexivity.
  Qed.

  Lemma ov_matches_total trs alive d :
    valid_idx alive trs -> exists l, ov_matches ov trs alive d = Ok l.
  Proof.
    induction alive as [|k alive IH]; intros V; simpl; [eauto|].
    assert (Hk : k < length trs) by (apply V; left; reflexivity).
    destruct (nth_error trs k) as [tr|] eqn:E; [|apply nth_error_None in E; lia].
    destruct IH as [l ->]; [intros k' Hk'; apply V; right; exact Hk'|]. eauto.
  Qed.

  Lemma ov_event_cases trs alive d ev :
    ov_event ov trs alive d = Ok ev ->
    (exists k, ev = Append k d /\ filter (ov_pred trs d) alive = [k]) \/
    (ev = New d /\ forall k, filter (ov_pred trs d) alive <> [k]).
  Proof.
    unfold ov_event. destruct (ov_matches ov trs alive d) as [l|e] eqn:E; [|discriminate].
    apply ov_matches_spec in E. subst l.
    destruct (filter (ov_pred trs d) alive) as [|k [|k' r]]; intros H; inversion H; subst.
    - right. split; [reflexivity|]. intros k; discriminate.
    - left. eauto.
    - right. split; [reflexivity|]. intros k0; discriminate.
  Qed.

  Lemma ov_event_did trs alive d ev : ov_event ov trs alive d = Ok ev -> ev_did ev = d.
  Proof.
    intros H. destruct (ov_event_cases _ _ _ _ H) as [(k & -> & _)|[-> _]]; reflexivity.
  Qed.

  Lemma ov_event_append trs alive d k d' :
    ov_event ov trs alive d = Ok (Append k d') ->
    d' = d /\ In k alive /\ exists tr, nth_error trs k = Some tr /\ ov (t_last tr) d = true.
  Proof.
    intros H. destruct (ov_event_cases _ _ _ _ H) as [(k0 & E & F)|[E _]]; [|discriminate].
    inversion E; subst k0 d'. split; [reflexivity|].
    assert (Hin : In k (filter (ov_pred trs d) alive)) by (rewrite F; left; reflexivity).
    apply filter_In in Hin. destruct Hin as [Hin Hp]. split; [exact Hin|].
    unfold ov_pred in Hp. destruct (nth_error trs k) as [tr|]; [|discriminate]. eauto.
  Qed.

  Lemma ov_event_total trs alive d : valid_idx alive trs -> exists ev, ov_event ov trs alive d = Ok ev.
  Proof.
    intros V. unfold ov_event. destruct (ov_matches_total trs alive d V) as [l ->].
    destruct l as [|k [|k' r]]; eauto.
  Qed.

  (* invariant principle for one frame *)
  Lemma ov_frame_inv t alive (Q : list track -> list did -> Prop) ds :
    forall trs0,
    Q trs0 [] ->
    (forall cur pre d post ev cur',
        ds = pre ++ d :: post -> Q cur pre -> ov_event ov cur alive d = Ok ev ->
        apply_event t cur ev = Ok cur' -> Q cur' (pre ++ [d])) ->
    forall trs', ov_frame ov t alive trs0 ds = Ok trs' -> Q trs' ds.
  Proof.
    intros trs0 H0 Hstep.
    assert (G : forall post pre cur trs', ds = pre ++ post -> Q cur pre ->
                                          ov_frame ov t alive cur post = Ok trs' -> Q trs' ds).
    { induction post as [|d post IH]; intros pre cur trs' Hds HQ Hrun; simpl in Hrun.
      - inversion Hrun; subst. rewrite app_nil_r. exact HQ.
      - destruct (ov_event ov cur alive d) as [ev|e] eqn:E; [|discriminate].
        destruct (apply_event t cur ev) as [cur'|e] eqn:A; [|discriminate].
        apply (IH (pre ++ [d]) cur' trs').
        + rewrite <- app_assoc. exact Hds.
        + eapply Hstep; eauto.
        + exact Hrun. }
    intros trs' Hrun. apply (G ds [] trs0 trs'); auto.
  Qed.

  (* one frame is a sequence of events, one per droplet, in order *)
  Lemma ov_frame_events t alive ds : forall trs trs',
    ov_frame ov t alive trs ds = Ok trs' ->
    exists evs, apply_events t trs evs = Ok trs' /\ map ev_did evs = ds /\
                forall k d, In (Append k d) evs -> In k alive.
  Proof.
    induction ds as [|d ds IH]; intros trs trs' H; simpl in H.
    - inversion H; subst. exists []. simpl. split; [reflexivity|]. split; [reflexivity|]. tauto.
    - destruct (ov_event ov trs alive d) as [ev|e] eqn:E; [|discriminate].
      destruct (apply_event t trs ev) as [trs1|e] eqn:A; [|discriminate].
      destruct (IH _ _ H) as (evs & Hap & Hm & Hal).
      exists (ev :: evs). simpl. rewrite A. split; [exact Hap|]. split.
      + rewrite (ov_event_did _ _ _ _ E), Hm. reflexivity.
      + intros k d' [->|Hin]; [|eauto]. apply ov_event_append in E. tauto.
  Qed.

  Lemma ov_frame_total t alive ds : forall trs,
    valid_idx alive trs -> exists trs', ov_frame ov t alive trs ds = Ok trs'.
  Proof.
    induction ds as [|d ds IH]; intros trs V; simpl; [eauto|].
    destruct (ov_event_total trs alive d V) as [ev E]. rewrite E.
    assert (exists trs1, apply_event t trs ev = Ok trs1) as [trs1 A].
    { destruct ev as [k d'|d']; simpl; [|eauto].
      apply ov_event_append in E. destruct E as (_ & _ & tr & Hn & _).
      eapply upd_total; eauto. }
    rewrite A. apply IH. eapply valid_idx_ext; [exact V|]. eapply apply_event_ext; eauto.
  Qed.
End Ov.

(* position of a droplet inside its frame's emulsion *)
Lemma frame_ids_split f n pre d post :
  frame_ids f n = pre ++ d :: post ->
  fst d = f /\ snd d = length pre /\ snd d < n /\
  (forall d0, In d0 pre -> fst d0 = f /\ snd d0 < snd d) /\
  (forall d1, In d1 post -> fst d1 = f /\ snd d < snd d1 /\ snd d1 < n).
Proof.
  unfold frame_ids. intros H.
  assert (Hlen : length pre + S (length post) = n).
  { apply (f_equal (@length _)) in H. rewrite map_length, seq_length, app_length in H. simpl in H. lia. }
  assert (Hn : forall i x, nth_error (pre ++ d :: post) i = Some x -> x = (f, i) /\ i < n).
  { intros i x Hx. rewrite <- H in Hx. rewrite nth_error_map in Hx.
    destruct (nth_error (seq 0 n) i) as [j|] eqn:E; [|discriminate].
    assert (Hi : i < n) by (rewrite <- (seq_length n 0); apply nth_error_Some; congruence).
    rewrite (nth_error_nth' _ 0) in E by (rewrite seq_length; exact Hi).
    rewrite seq_nth in E by exact Hi. inversion E; subst. simpl in Hx. inversion Hx. auto. }
  destruct (Hn (length pre) d) as [Hd Hlt]; [apply nth_error_mid|].
  subst d. simpl. repeat split; auto.
  - apply In_nth_error in H0. destruct H0 as [i Hi].
    assert (Hil : i < length pre) by (apply nth_error_Some; congruence).
    destruct (Hn i d0) as [-> _]; [rewrite nth_error_app1; auto|]. reflexivity.
  - apply In_nth_error in H0. destruct H0 as [i Hi].
    assert (Hil : i < length pre) by (apply nth_error_Some; congruence).
    destruct (Hn i d0) as [-> _]; [rewrite nth_error_app1; auto|]. exact Hil.
  - apply In_nth_error in H0. destruct H0 as [i Hi].
    destruct (Hn (length pre + S i) d1) as [-> _]; [|reflexivity].
    rewrite nth_error_app2 by lia. replace (length pre + S i - length pre) with (S i) by lia. exact Hi.
  - apply In_nth_error in H0. destruct H0 as [i Hi].
    destruct (Hn (length pre + S i) d1) as [-> _]; [|simpl; lia].
    rewrite nth_error_app2 by lia. replace (length pre + S i - length pre) with (S i) by lia. exact Hi.
  - apply In_nth_error in H0. destruct H0 as [i Hi].
    destruct (Hn (length pre + S i) d1) as [-> Hlt']; [|exact Hlt'].
    rewrite nth_error_app2 by lia. replace (length pre + S i - length pre) with (S i) by lia. exact Hi.
Qed.
