(* HeapWf -- every operation preserves well-formedness (no dangling reference), hence the
   internal outcome EDangling never occurs on heaps reachable from the empty heap. *)
From Coq Require Import List Arith Bool QArith Lia.
Import ListNotations.
From PD Require Import Model.Heap Proofs.Heap.
Local Open Scope nat_scope.

Lemma locs_ok_nth h ls i l : locs_ok h ls -> nth_error ls i = Some l -> l < length (objs h).
Proof. intros H E. eapply Forall_nth_error in E; [|exact H]. exact E. Qed.

Lemma locs_ok_mapM_hnd h is ls : wf h -> mapM (nth_error (hnd h)) is = Some ls -> locs_ok h ls.
Proof. intros W H. eapply mapM_nth_error_P; [apply (wf_hnd _ W)|exact H]. Qed.

Lemma wf_new_em_vals h vs : wf h -> wf (new_em_vals h vs).
Proof.
  intros W. unfold new_em_vals. apply wf_push_em; [apply wf_alloc; auto|].
  simpl. apply locs_ok_new. lia.
Qed.

Lemma objs_new_em_vals h vs : length (objs h) <= length (objs (new_em_vals h vs)).
Proof. unfold new_em_vals, alloc. simpl. rewrite app_length. lia. Qed.

Lemma ems_new_em_vals h vs : length (ems (new_em_vals h vs)) = S (length (ems h)).
Proof. unfold new_em_vals. simpl. rewrite app_length. simpl. lia. Qed.

Lemma wf_append_loc h c l cp f :
  wf h -> l < length (objs h) ->
  wf (fst (append_loc h c l cp f)) /\ length (objs h) <= length (objs (fst (append_loc h c l cp f)))
  /\ length (ems (fst (append_loc h c l cp f))) = length (ems h).
Proof.
  intros W Hl. unfold append_loc.
  destruct (nth_error (ems h) c) as [e|] eqn:Ee; simpl; auto.
  destruct (val_of h l) as [v|]; simpl; auto.
  unfold em_add. destruct (rejects e v f); simpl; auto.
  destruct cp; simpl.
  - split; [|split].
    + apply wf_set_em; [apply wf_alloc; auto|]. simpl. apply locs_ok_app.
      * apply locs_ok_alloc. eapply wf_em; eauto.
      * apply locs_ok_new. simpl; lia.
    + rewrite app_length. lia.
    + rewrite length_upd. auto.
  - split; [|split]; auto.
    + apply wf_set_em; auto. simpl. apply locs_ok_app; [eapply wf_em; eauto|]. constructor; auto.
    + rewrite length_upd; auto.
Qed.

Lemma wf_extend_locs h c ls cp f :
  wf h -> locs_ok h ls -> wf (fst (extend_locs h c ls cp f)).
Proof.
  revert h; induction ls as [|l ls IH]; intros h W H; simpl; auto.
  inversion H; subst.
  destruct (wf_append_loc h c l cp f W) as (W1 & Hle & _); auto.
  destruct (append_loc h c l cp f) as [h1 [|e]]; simpl in *; auto.
  apply IH; auto. eapply Forall_lt_mono with (f := fun x => x); [|exact H3]. exact Hle.
Qed.

Lemma extend_no_dangling_pre h c ls cp f :
  wf h -> locs_ok h ls -> snd (extend_locs h c ls cp f) <> Err EDangling.
Proof.
  revert h; induction ls as [|l ls IH]; intros h W H; simpl; [discriminate|].
  inversion H; subst.
  destruct (wf_append_loc h c l cp f W) as (W1 & Hle & _); auto.
  destruct (append_loc h c l cp f) as [h1 [|e]] eqn:E; simpl in *.
  - apply IH; auto. eapply Forall_lt_mono with (f := fun x => x); [|exact H3]. exact Hle.
  - unfold append_loc in E. destruct (nth_error (ems h) c); [|inversion E; discriminate].
    destruct (val_of_ok h l W H2) as [v Hv]. rewrite Hv in E. unfold em_add in E.
    destruct (rejects e0 v f); [inversion E; discriminate|]. destruct cp; inversion E.
Qed.

(* ---- the constructor [construct] and the clones built from it ---- *)

Lemma append_loc_tables h c l cp f :
  let h1 := fst (append_loc h c l cp f) in
  hnd h1 = hnd h /\ tcs h1 = tcs h /\ trs h1 = trs h /\ arrs h1 = arrs h /\ tls h1 = tls h
  /\ tlists h1 = tlists h /\ tvars h1 = tvars h /\ length (ems h1) = length (ems h).
Proof.
  unfold append_loc. destruct (nth_error (ems h) c); simpl; [|repeat split; auto].
  destruct (val_of h l); simpl; [|repeat split; auto]. unfold em_add.
  destruct (rejects e v f); simpl; [repeat split; auto|].
  destruct cp; simpl; rewrite length_upd; repeat split; auto.
Qed.

Lemma extend_locs_tables h c ls cp f :
  let h1 := fst (extend_locs h c ls cp f) in
  hnd h1 = hnd h /\ tcs h1 = tcs h /\ trs h1 = trs h /\ arrs h1 = arrs h /\ tls h1 = tls h
  /\ tlists h1 = tlists h /\ tvars h1 = tvars h /\ length (ems h1) = length (ems h).
Proof.
  revert h; induction ls as [|l ls IH]; intros h; simpl; [repeat split; auto|].
  pose proof (append_loc_tables h c l cp f) as X.
  destruct (append_loc h c l cp f) as [h0 [|e]]; simpl in *; auto.
  destruct (IH h0) as (I1 & I2 & I3 & I4 & I5 & I6 & I7 & I8).
  destruct X as (X1 & X2 & X3 & X4 & X5 & X6 & X7 & X8).
  rewrite I1, I2, I3, I4, I5, I6, I7, I8. repeat split; auto.
Qed.

Lemma extend_locs_objs h c ls cp f :
  wf h -> locs_ok h ls -> length (objs h) <= length (objs (fst (extend_locs h c ls cp f))).
Proof.
  revert h; induction ls as [|l ls IH]; intros h W H; simpl; auto.
  inversion H; subst.
  destruct (wf_append_loc h c l cp f W) as (W1 & Hle & _); auto.
  destruct (append_loc h c l cp f) as [h1 [|e]]; simpl in *; auto.
  etransitivity; [exact Hle|]. apply IH; auto.
  eapply Forall_lt_mono with (f := fun x => x); [|exact H3]. exact Hle.
Qed.

Lemma wf_push_em_empty h dt : wf h -> wf (push_em h (mkE dt [])).
Proof. intros W. apply wf_push_em; auto. constructor. Qed.

Lemma construct_ok h dt ls cp f h1 :
  construct h dt ls cp f = (h1, Ok) ->
  h1 = fst (extend_locs (push_em h (mkE dt [])) (length (ems h)) ls cp f).
Proof.
  unfold construct. destruct (extend_locs _ _ ls cp f) as [h2 [|x]]; intros E; inversion E; reflexivity.
Qed.

Lemma construct_err h dt ls cp f h1 x : construct h dt ls cp f = (h1, Err x) -> h1 = h.
Proof.
  unfold construct. destruct (extend_locs _ _ ls cp f) as [h2 [|y]]; intros E; inversion E; reflexivity.
Qed.

Lemma wf_construct h dt ls cp f : wf h -> locs_ok h ls -> wf (fst (construct h dt ls cp f)).
Proof.
  intros W H. destruct (construct h dt ls cp f) as [h1 [|x]] eqn:E; simpl.
  - rewrite (construct_ok _ _ _ _ _ _ E). apply wf_extend_locs; [apply wf_push_em_empty; auto|exact H].
  - rewrite (construct_err _ _ _ _ _ _ _ E). exact W.
Qed.

Lemma construct_tables h dt ls cp f h1 :
  wf h -> locs_ok h ls -> construct h dt ls cp f = (h1, Ok) ->
  hnd h1 = hnd h /\ tcs h1 = tcs h /\ trs h1 = trs h /\ arrs h1 = arrs h /\ tls h1 = tls h
  /\ tlists h1 = tlists h /\ tvars h1 = tvars h /\ length (ems h1) = S (length (ems h))
  /\ length (objs h) <= length (objs h1).
Proof.
  intros W H E. rewrite (construct_ok _ _ _ _ _ _ E).
  destruct (extend_locs_tables (push_em h (mkE dt [])) (length (ems h)) ls cp f)
    as (X1 & X2 & X3 & X4 & X5 & X6 & X7 & X8).
  pose proof (extend_locs_objs (push_em h (mkE dt [])) (length (ems h)) ls cp f (wf_push_em_empty h dt W) H) as X9.
  simpl in *. rewrite app_length in X8. simpl in X8. repeat split; auto. lia.
Qed.

Lemma construct_no_dangling h dt ls cp f :
  wf h -> locs_ok h ls -> snd (construct h dt ls cp f) <> Err EDangling.
Proof.
  intros W H. pose proof (extend_no_dangling_pre (push_em h (mkE dt [])) (length (ems h)) ls cp f
                            (wf_push_em_empty h dt W) H) as X.
  unfold construct. destruct (extend_locs _ _ ls cp f) as [h2 [|y]]; simpl in *; [discriminate|exact X].
Qed.

Lemma clone_ems_inv h es :
  wf h -> Forall (fun e => locs_ok h (e_mem e)) es ->
  let r := clone_ems h es in
  wf (fst r) /\ snd r <> Err EDangling /\
  hnd (fst r) = hnd h /\ tcs (fst r) = tcs h /\ trs (fst r) = trs h /\ arrs (fst r) = arrs h
  /\ tls (fst r) = tls h /\ tlists (fst r) = tlists h /\ tvars (fst r) = tvars h
  /\ length (ems h) <= length (ems (fst r))
  /\ (snd r = Ok -> length (ems (fst r)) = length (ems h) + length es).
Proof.
  revert h; induction es as [|e es IH]; intros h W H; simpl.
  - split; [exact W|]. repeat split; auto; try discriminate; intros; lia.
  - inversion H as [|? ? He Hes]; subst.
    pose proof (wf_construct h (e_dtype e) (e_mem e) true false W He) as W1.
    pose proof (construct_no_dangling h (e_dtype e) (e_mem e) true false W He) as N1.
    destruct (construct h (e_dtype e) (e_mem e) true false) as [h1 [|x]] eqn:E; simpl in *.
    + destruct (construct_tables _ _ _ _ _ _ W He E) as (T1 & T2 & T3 & T4 & T5 & T6 & T7 & T8 & T9).
      assert (Hes1 : Forall (fun e0 => locs_ok h1 (e_mem e0)) es).
      { eapply Forall_impl; [|exact Hes]. intros a Ha.
        eapply Forall_lt_mono with (f := fun x => x); [|exact Ha]. exact T9. }
      destruct (IH h1 W1 Hes1) as (I0 & I00 & I1 & I2 & I3 & I4 & I5 & I6 & I7 & I8 & I9).
      rewrite I1, I2, I3, I4, I5, I6, I7. split; [exact I0|]. split; [exact I00|].
      repeat split; auto; try lia.
      intros Hok. rewrite (I9 Hok). lia.
    + rewrite (construct_err _ _ _ _ _ _ _ E) in *. split; [exact W|]. split; [exact N1|].
      repeat split; auto. intros X; discriminate.
Qed.

Lemma wf_copy_ems h es h1 :
  wf h -> Forall (fun e => locs_ok h (e_mem e)) es -> copy_ems h es = Some h1 ->
  wf h1 /\ length (ems h1) = length (ems h) + length es.
Proof.
  revert h; induction es as [|e es IH]; simpl; intros h W H E.
  - inversion E; subst. split; auto.
  - destruct (vals_of h (e_mem e)) as [vs|]; [|discriminate].
    inversion H; subst.
    destruct (IH (new_em_vals h vs)) as [W1 L1]; auto.
    + apply wf_new_em_vals; auto.
    + eapply Forall_impl; [|exact H3]. intros a Ha.
      eapply Forall_lt_mono with (f := fun x => x); [|exact Ha]. apply objs_new_em_vals.
    + split; auto. rewrite L1, ems_new_em_vals. lia.
Qed.

Lemma length_repoint os ls rows : length (repoint os ls rows) = length os.
Proof.
  revert os rows; induction ls as [|l ls IH]; intros os [|s rows]; simpl; auto.
  rewrite IH, length_upd. auto.
Qed.

Lemma Forall_repoint (P : nat -> Prop) os ls rows :
  Forall P os -> Forall P rows -> Forall P (repoint os ls rows).
Proof.
  revert os rows; induction ls as [|l ls IH]; intros os [|s rows] H1 H2; simpl; auto.
  inversion H2; subst. apply IH; auto. apply Forall_upd; auto.
Qed.

Lemma write_sloc_wf h s k q : wf h -> wf (fst (write_sloc h s k q)).
Proof.
  intros W. unfold write_sloc. destruct (nth_error (store h) s); simpl; auto.
  destruct (set_flat v k q); simpl; auto. apply wf_set_store; auto.
Qed.

Lemma write_loc_wf h l k q : wf h -> wf (fst (write_loc h l k q)).
Proof.
  intros W. unfold write_loc. destruct (obj_of h l); simpl; auto. apply write_sloc_wf; auto.
Qed.

Lemma wf_new_em_from h ls : wf h -> wf (fst (new_em_from h ls)).
Proof.
  intros W. unfold new_em_from. destruct (vals_of h ls); simpl; auto. apply wf_new_em_vals; auto.
Qed.

Lemma wf_mapM_ems h cs es : wf h -> mapM (nth_error (ems h)) cs = Some es ->
  Forall (fun e => locs_ok h (e_mem e)) es.
Proof. intros W H. eapply mapM_nth_error_P; [apply (wf_ems _ W)|exact H]. Qed.

Lemma times_of_ok h tl : tl < length (tlists h) -> exists ts, times_of h tl = Some ts.
Proof.
  intros H. unfold times_of. destruct (nth_error (tlists h) tl) eqn:E; eauto.
  apply nth_error_None in E. lia.
Qed.

Lemma wf_tc_tl_lt h t tc : wf h -> nth_error (tcs h) t = Some tc -> tc_tl tc < length (tlists h).
Proof. intros W E. pose proof (Forall_nth_error _ _ _ _ (wf_tc_tl _ W) E) as X. exact X. Qed.
Lemma wf_tr_tl_lt h k tr : wf h -> nth_error (trs h) k = Some tr -> tr_tl tr < length (tlists h).
Proof. intros W E. pose proof (Forall_nth_error _ _ _ _ (wf_tr_tl _ W) E) as X. exact X. Qed.
Lemma wf_tvar_lt h j tl : wf h -> nth_error (tvars h) j = Some tl -> tl < length (tlists h).
Proof. intros W E. pose proof (Forall_nth_error _ _ _ _ (wf_tvars _ W) E) as X. exact X. Qed.

Lemma wf_build_tc h es ts :
  wf h -> Forall (fun e => locs_ok h (e_mem e)) es -> wf (fst (build_tc h es ts)).
Proof.
  intros W H. unfold build_tc. destruct (copy_ems h es) as [h1|] eqn:Ec; simpl; auto.
  destruct (wf_copy_ems h es h1 W H Ec) as [W1 L1].
  destruct (copy_ems_tables h es h1 Ec) as (_ & _ & _ & _ & _ & T6 & _).
  match goal with |- context [if ?b then _ else _] => destruct b end; simpl; auto.
  apply wf_push_tc; [apply wf_alloc_tl; auto| |].
  - cbn [tc_ems alloc_tl ems with_tlists]. unfold new_cids. apply Forall_forall. intros x Hx.
    apply in_seq in Hx. lia.
  - cbn [tc_tl]. rewrite <- T6. apply tlists_alloc_tl.
Qed.

Lemma wf_build_tr h vs ts : wf h -> wf (fst (build_tr h vs ts)).
Proof.
  intros W. unfold build_tr. destruct (same_dims vs); simpl; auto.
  match goal with |- context [if ?b then _ else _] => destruct b end; simpl; auto.
  apply wf_push_tr; [apply wf_alloc_tl, wf_alloc; auto| |].
  - cbn [tr_drops]. apply (locs_ok_new h vs (length vs)). lia.
  - cbn [tr_tl]. apply (tlists_alloc_tl (alloc h vs) ts).
Qed.

Theorem wf_step h o : wf h -> wf (fst (exec h o)).
Proof.
  intros W. destruct_op o; simpl.
  - (* new *) unfold exec_new. simpl. apply wf_with_hnd; [apply wf_alloc; auto|].
    apply locs_ok_app; [apply locs_ok_alloc, (wf_hnd _ W)|apply locs_ok_new; simpl; lia].
  - (* view *) unfold exec_view. destruct (nth_error (hnd h) i) as [l|] eqn:E; simpl; auto.
    destruct (obj_of h l) as [s|] eqn:Es; simpl; auto.
    assert (Hs : s < length (store h)).
    { unfold obj_of in Es. pose proof (Forall_nth_error _ _ _ _ (wf_objs _ W) Es) as X. exact X. }
    destruct W as [W1 W2 W3 W4 W5 W6 W7 W8 W9 W10]. constructor; simpl; auto.
    + apply Forall_app; split; auto.
    + unfold locs_ok; simpl. rewrite app_length; simpl. apply Forall_app; split.
      * eapply Forall_lt_mono with (f := fun x => x); [|exact W2]. lia.
      * constructor; auto. lia.
    + eapply Forall_impl; [|exact W3]. intros e He. unfold locs_ok in *; simpl. rewrite app_length.
      eapply Forall_lt_mono with (f := fun x => x); [|exact He]. lia.
    + eapply Forall_impl; [|exact W4]. intros e He. unfold locs_ok in *; simpl. rewrite app_length.
      eapply Forall_lt_mono with (f := fun x => x); [|exact He]. lia.
  - (* seth *) unfold exec_seth. destruct (nth_error (hnd h) i); simpl; auto. apply write_loc_wf; auto.
  - (* emnew *) apply wf_push_em; auto. constructor.
  - (* append *) unfold exec_append. destruct (nth_error (hnd h) i) as [l|] eqn:E; simpl; auto.
    apply wf_append_loc; auto. eapply wf_hnd_lt; eauto.
  - (* extend *) unfold exec_extend. destruct (mapM (nth_error (hnd h)) is) as [ls|] eqn:E; simpl; auto.
    destruct (nth_error (ems h) c); simpl; auto.
    apply wf_extend_locs; auto. eapply locs_ok_mapM_hnd; eauto.
  - (* get *) unfold exec_get. destruct (nth_error (ems h) c) as [e|] eqn:E; simpl; auto.
    destruct (nth_error (e_mem e) i) as [l|] eqn:El; simpl; auto.
    apply wf_push_hnd; auto. eapply wf_mem_lt; eauto.
  - (* setm *) unfold exec_setm. destruct (nth_error (ems h) c) as [e|]; simpl; auto.
    destruct (nth_error (e_mem e) i); simpl; auto. apply write_loc_wf; auto.
  - (* copy *) unfold exec_copy. destruct (nth_error (ems h) c) as [e|]; simpl; auto.
    destruct (vals_of h (e_mem e)); simpl; auto. apply wf_new_em_vals; auto.
  - (* slice *) unfold exec_slice. destruct (nth_error (ems h) c) as [e|]; simpl; auto.
    apply wf_new_em_from; auto.
  - (* add *) unfold exec_add. destruct (nth_error (ems h) c1); simpl; auto.
    destruct (nth_error (ems h) c2); simpl; auto. apply wf_new_em_from; auto.
  - (* remove_small *) unfold exec_remove_small. destruct (nth_error (ems h) c) as [e|] eqn:E; simpl; auto.
    destruct (vals_of h (e_mem e)); simpl; auto. apply wf_set_em; auto. simpl.
    apply Forall_filter_by. eapply wf_em; eauto.
  - (* remove_overlap *) unfold exec_remove_overlap. destruct (nth_error (ems h) c) as [e|] eqn:E; simpl; auto.
    destruct (vals_of h (e_mem e)); simpl; auto. destruct (pairwise_ok l); simpl; auto.
    apply wf_set_em; auto. simpl. apply Forall_filter_by. eapply wf_em; eauto.
  - (* link *) unfold exec_link. destruct (nth_error (ems h) c) as [e|] eqn:E; simpl; auto.
    destruct (vals_of h (e_mem e)) as [vs|] eqn:Ev; simpl; auto.
    destruct (mapM (obj_of h) (e_mem e)) as [ss|] eqn:Es; simpl; auto.
    destruct vs as [|v0 vs]; [destruct (e_dtype e); simpl; auto; apply wf_push_arr; auto|].
    destruct (negb (all_eqb Nat.eqb (map cls (v0 :: vs)))); [simpl; auto|].
    destruct (all_eqb dtype_eqb (map dtype_of (v0 :: vs))); hs.
    + apply wf_push_arr.
      * destruct W as [W1 W2 W3 W4 W5 W6 W7 W8 W9 W10]. constructor; hs; auto.
        -- apply Forall_repoint.
           ++ rewrite app_length. eapply Forall_lt_mono with (f := fun x => x); [|exact W1]. lia.
           ++ apply Forall_forall. intros x Hx. apply in_seq in Hx. rewrite app_length. lia.
        -- unfold locs_ok; hs. rewrite length_repoint. exact W2.
        -- eapply Forall_impl; [|exact W3]. intros a Ha. unfold locs_ok in *; hs.
           rewrite length_repoint. exact Ha.
        -- eapply Forall_impl; [|exact W4]. intros a Ha. unfold locs_ok in *; hs.
           rewrite length_repoint. exact Ha.
        -- rewrite app_length. eapply Forall2_lt_mono; [|exact W5]. lia.
      * hs. apply Forall_forall. intros x Hx. apply in_seq in Hx. rewrite app_length. lia.
    + apply wf_push_arr; auto.
      apply Forall_forall. intros s Hs. apply In_nth_error in Hs as [n Hn].
      pose proof (mapM_length _ _ _ Es) as HL.
      assert (Hlt : n < length (e_mem e)) by (rewrite <- HL; eapply nth_error_Some_lt; eauto).
      destruct (nth_error (e_mem e) n) as [l|] eqn:El; [|apply nth_error_None in El; lia].
      destruct (mapM_nth _ _ _ _ _ Es El) as (s' & Hs' & Hn').
      assert (Some s = Some s') as X0 by (rewrite <- Hn; exact Hn'). inversion X0; subst.
      unfold obj_of in Hs'. pose proof (Forall_nth_error _ _ _ _ (wf_objs _ W) Hs') as X. exact X.
  - (* writea *) unfold exec_writea. destruct (nth_error (arrs h) a) as [rows|]; simpl; auto.
    destruct (nth_error rows i); simpl; auto. apply write_sloc_wf; auto.
  - (* merge *) unfold exec_merge. destruct (nth_error (ems h) c) as [e|]; simpl; auto.
    destruct (nth_error (e_mem e) i) as [li|]; simpl; auto.
    destruct (nth_error (e_mem e) j) as [lj|]; simpl; auto.
    destruct (obj_of h li); simpl; auto. destruct (val_of h li) as [vi|]; simpl; auto.
    destruct (val_of h lj) as [vj|]; simpl; auto.
    destruct ip; simpl; [apply wf_set_store; auto|].
    destruct (merge_status vi vj); simpl; auto.
    apply wf_with_hnd; [apply wf_alloc; auto|].
    apply locs_ok_app; [apply locs_ok_alloc, (wf_hnd _ W)|apply locs_ok_new; simpl; lia].
  - (* tcnew *) unfold exec_tcnew. destruct (mapM (nth_error (ems h)) cs) as [es|] eqn:E; simpl; auto.
    apply wf_build_tc; auto. eapply wf_mapM_ems; eauto.
  - (* tcappend *) unfold exec_tcappend. destruct (nth_error (tcs h) t) as [tc|] eqn:Et; simpl; auto.
    destruct (nth_error (ems h) c) as [e|]; simpl; auto.
    destruct (vals_of h (e_mem e)) as [vs|]; simpl; auto.
    destruct (times_of h (tc_tl tc)) as [ts|]; simpl; auto.
    apply wf_set_tc; [apply wf_set_tl, wf_new_em_vals; auto| |].
    + hs. change (ems (set_tl (new_em_vals h vs) (tc_tl tc) (ts ++ [match tm with Some q => q | None => default_time ts end])))
        with (ems (new_em_vals h vs)).
      rewrite ems_new_em_vals. apply Forall_app; split.
      * pose proof (Forall_nth_error _ _ _ _ (wf_tcs _ W) Et) as X. simpl in X.
        eapply Forall_lt_mono with (f := fun x => x); [|exact X]. lia.
      * constructor; auto.
    + cbn [tc_tl set_tl tlists with_tlists]. rewrite length_upd. unfold new_em_vals. hs.
      eapply wf_tc_tl_lt; eauto.
  - (* tcappend_bad *) unfold exec_tcappend_bad. destruct (nth_error (tcs h) t); simpl; auto.
  - (* tcslice *) unfold exec_tcslice. destruct (nth_error (tcs h) t) as [tc|]; simpl; auto.
    destruct (times_of h (tc_tl tc)); simpl; auto.
    destruct (mapM (nth_error (ems h)) (slice lo hi (tc_ems tc))) as [es|] eqn:E; simpl; auto.
    apply wf_build_tc; auto. eapply wf_mapM_ems; eauto.
  - (* tcclear *) unfold exec_tcclear. destruct (nth_error (tcs h) t); simpl; auto.
    apply wf_set_tc; [apply wf_alloc_tl; auto|constructor|]. cbn [tc_tl]. apply tlists_alloc_tl.
  - (* trnew *) unfold exec_trnew. destruct (mapM (nth_error (hnd h)) is) as [ls|]; simpl; auto.
    destruct (vals_of h ls) as [vs|]; simpl; auto. apply wf_build_tr; auto.
  - (* trappend *) unfold exec_trappend. destruct (nth_error (trs h) k) as [tr|] eqn:Et; simpl; auto.
    destruct (nth_error (hnd h) i) as [l|]; simpl; auto.
    destruct (val_of h l) as [v|]; simpl; auto.
    destruct (mapM (val_of h) (tr_drops tr)) as [dvs|]; simpl; auto.
    destruct (times_of h (tr_tl tr)) as [ts|]; simpl; auto.
    match goal with |- context [if ?b then _ else _] => destruct b end; simpl; auto.
    apply wf_set_tr; [apply wf_set_tl, wf_alloc; auto| |].
    + cbn [tr_drops]. apply locs_ok_app.
      * apply (locs_ok_alloc h [v]). eapply wf_tr; eauto.
      * apply (locs_ok_new h [v] 1). simpl; lia.
    + cbn [tr_tl set_tl tlists with_tlists]. rewrite length_upd. hs. eapply wf_tr_tl_lt; eauto.
  - (* trappend_bad *) unfold exec_trappend_bad. destruct (nth_error (trs h) k); simpl; auto.
  - (* trslice *) unfold exec_trslice. destruct (nth_error (trs h) k) as [tr|]; simpl; auto.
    destruct (vals_of h (slice lo hi (tr_drops tr))) as [vs|]; simpl; auto.
    destruct (times_of h (tr_tl tr)); simpl; auto. apply wf_build_tr; auto.
  - (* trget *) unfold exec_trget. destruct (nth_error (trs h) k) as [tr|] eqn:Et; simpl; auto.
    destruct (nth_error (tr_drops tr) i) as [l|] eqn:El; simpl; auto.
    apply wf_push_hnd; auto. eapply locs_ok_nth; [eapply wf_tr; eauto|eauto].
  - (* tlnew *) unfold exec_tlnew. destruct (mapM (nth_error (trs h)) ks) as [ts|] eqn:E; simpl; auto.
    apply wf_with_tls; auto. apply Forall_app; split; [apply (wf_tls _ W)|].
    constructor; auto. eapply mapM_nth_error_lt; eauto.
  - (* tlremove *) unfold exec_tlremove. destruct (nth_error (tls h) l) as [ks|] eqn:E; simpl; auto.
    destruct (mapM (nth_error (trs h)) ks) as [trl|]; simpl; auto.
    destruct (mapM (fun tr => times_of h (tr_tl tr)) trl); simpl; auto.
    apply wf_with_tls; auto. apply Forall_upd; [apply (wf_tls _ W)|].
    apply Forall_filter_by. pose proof (Forall_nth_error _ _ _ _ (wf_tls _ W) E) as X. exact X.
  - (* tccopy *) unfold exec_tccopy. destruct (nth_error (tcs h) t) as [tc|]; simpl; auto.
    destruct (times_of h (tc_tl tc)); simpl; auto.
    destruct (mapM (nth_error (ems h)) (tc_ems tc)) as [es|] eqn:E; simpl; auto.
    apply wf_build_tc; auto. eapply wf_mapM_ems; eauto.
  - (* tcnewl *) unfold exec_tcnewl. destruct (mapM (nth_error (ems h)) cs) as [es|] eqn:E; simpl; auto.
    destruct (nth_error (tvars h) j) as [tl|]; simpl; auto.
    destruct (times_of h tl); simpl; auto.
    apply wf_build_tc; auto. eapply wf_mapM_ems; eauto.
  - (* trcopy *) unfold exec_trcopy. destruct (nth_error (trs h) k) as [tr|]; simpl; auto.
    destruct (vals_of h (tr_drops tr)); simpl; auto.
    destruct (times_of h (tr_tl tr)); simpl; auto. apply wf_build_tr; auto.
  - (* trnewl *) unfold exec_trnewl. destruct (mapM (nth_error (hnd h)) is) as [ls|]; simpl; auto.
    destruct (nth_error (tvars h) j) as [tl|]; simpl; auto.
    destruct (vals_of h ls); simpl; auto. destruct (times_of h tl); simpl; auto. apply wf_build_tr; auto.
  - (* tlistnew *) unfold exec_tlistnew. simpl fst. apply wf_with_tvars; [apply wf_alloc_tl; auto|].
    apply Forall_app; split.
    + eapply Forall_lt_mono with (f := fun x => x); [|apply (wf_tvars _ W)].
      pose proof (tlists_alloc_tl h ts). lia.
    + constructor; auto. apply tlists_alloc_tl.
  - (* tlistappend *) unfold exec_tlistappend. destruct (nth_error (tvars h) j) as [tl|]; simpl; auto.
    destruct (times_of h tl); simpl; auto. apply wf_set_tl; auto.
  - (* tlistset *) unfold exec_tlistset. destruct (nth_error (tvars h) j) as [tl|]; simpl; auto.
    destruct (times_of h tl); simpl; auto.
    match goal with |- context [if ?b then _ else _] => destruct b end; simpl; auto. apply wf_set_tl; auto.
  - (* emctor *) unfold exec_emctor. destruct (mapM (nth_error (hnd h)) is) as [ls|] eqn:E; simpl; auto.
    pose proof (locs_ok_mapM_hnd _ _ _ W E) as Hls.
    destruct dt as [i|]; [|apply wf_construct; auto].
    destruct (nth_error (hnd h) i) as [l|]; simpl; auto.
    destruct (val_of h l) as [v|]; simpl; auto. apply wf_construct; auto.
  - (* emclone *) unfold exec_emclone. destruct (nth_error (ems h) c) as [e|] eqn:Ee; simpl; auto.
    apply wf_construct; auto. eapply wf_em; eauto.
  - (* sel *) unfold exec_sel. destruct (nth_error (ems h) c) as [e|]; simpl; auto.
    apply wf_new_em_from; auto.
  - (* tcsel *) unfold exec_tcsel. destruct (nth_error (tcs h) t) as [tc|]; simpl; auto.
    destruct (times_of h (tc_tl tc)); simpl; auto.
    destruct (mapM (nth_error (ems h)) (sel idxs (tc_ems tc))) as [es|] eqn:E; simpl; auto.
    apply wf_build_tc; auto. eapply wf_mapM_ems; eauto.
  - (* trsel *) unfold exec_trsel. destruct (nth_error (trs h) k) as [tr|]; simpl; auto.
    destruct (vals_of h (sel idxs (tr_drops tr))) as [vs|]; simpl; auto.
    destruct (times_of h (tr_tl tr)); simpl; auto. apply wf_build_tr; auto.
  - (* tcclone *) unfold exec_tcclone. destruct (nth_error (tcs h) t) as [tc|]; simpl; auto.
    destruct (times_of h (tc_tl tc)) as [ts|]; simpl; auto.
    destruct (mapM (nth_error (ems h)) (tc_ems tc)) as [es|] eqn:E; simpl; auto.
    destruct (clone_ems_inv h es W (wf_mapM_ems _ _ _ W E)) as (W1 & _ & _ & _ & _ & _ & _ & T6 & _ & _ & L).
    destruct (clone_ems h es) as [h1 [|x]]; simpl in *; auto.
    apply wf_push_tc; [apply wf_alloc_tl; auto| |].
    + cbn [tc_ems alloc_tl ems with_tlists]. unfold new_cids. apply Forall_forall. intros y Hy.
      apply in_seq in Hy. rewrite (L eq_refl). lia.
    + cbn [tc_tl]. rewrite <- T6. apply tlists_alloc_tl.
  - (* extend_self *) unfold exec_extend_self. destruct (nth_error (ems h) c) as [e|] eqn:Ee; simpl; auto.
    apply wf_extend_locs; auto. eapply wf_em; eauto.
Qed.

Theorem wf_run os : forall h, wf h -> wf (run h os).
Proof. induction os as [|o os IH]; intros h W; simpl; auto. apply IH, wf_step; auto. Qed.

(* ---- on a well-formed heap no operation reports a dangling reference ---- *)

Lemma extend_no_dangling h c ls cp f :
  wf h -> locs_ok h ls -> snd (extend_locs h c ls cp f) <> Err EDangling.
Proof.
  revert h; induction ls as [|l ls IH]; intros h W H; simpl; [discriminate|].
  inversion H; subst.
  destruct (wf_append_loc h c l cp f W) as (W1 & Hle & _); auto.
  destruct (append_loc h c l cp f) as [h1 [|e]] eqn:E; simpl in *.
  - apply IH; auto. eapply Forall_lt_mono with (f := fun x => x); [|exact H3]. exact Hle.
  - unfold append_loc in E. destruct (nth_error (ems h) c); [|inversion E; discriminate].
    destruct (val_of_ok h l W H2) as [v Hv]. rewrite Hv in E. unfold em_add in E.
    destruct (rejects e0 v f); [inversion E; discriminate|]. destruct cp; inversion E.
Qed.

Lemma copy_ems_total h es :
  wf h -> Forall (fun e => locs_ok h (e_mem e)) es -> exists h1, copy_ems h es = Some h1.
Proof.
  revert h; induction es as [|e es IH]; simpl; intros h W H; eauto.
  inversion H; subst. destruct (vals_of_ok h (e_mem e) W H2) as [vs Hv]. rewrite Hv.
  apply IH; [apply wf_new_em_vals; auto|].
  eapply Forall_impl; [|exact H3]. intros a Ha.
  eapply Forall_lt_mono with (f := fun x => x); [|exact Ha]. apply objs_new_em_vals.
Qed.

Lemma build_tc_no_dangling h es ts :
  wf h -> Forall (fun e => locs_ok h (e_mem e)) es -> snd (build_tc h es ts) <> Err EDangling.
Proof.
  intros W H. unfold build_tc. destruct (copy_ems_total h es W H) as [h1 H1]. rewrite H1.
  match goal with |- context [if ?b then _ else _] => destruct b end; discriminate.
Qed.

Lemma build_tr_no_dangling h vs ts : snd (build_tr h vs ts) <> Err EDangling.
Proof.
  unfold build_tr. destruct (same_dims vs); [|discriminate].
  match goal with |- context [if ?b then _ else _] => destruct b end; discriminate.
Qed.

Lemma mapM_ems_total h cs : wf h -> Forall (fun c => c < length (ems h)) cs ->
  exists es, mapM (nth_error (ems h)) cs = Some es.
Proof.
  intros W H. apply mapM_total. intros a Ha. rewrite Forall_forall in H. specialize (H a Ha).
  destruct (nth_error (ems h) a) eqn:E; eauto. apply nth_error_None in E. lia.
Qed.

Theorem wf_no_dangling h o : wf h -> snd (exec h o) <> Err EDangling.
Proof.
  intros W. destruct_op o; simpl.
  - discriminate.
  - unfold exec_view. destruct (nth_error (hnd h) i) as [l|] eqn:E; simpl; [|discriminate].
    destruct (obj_of_ok h l (wf_hnd_lt _ _ _ W E)) as [s Hs]. rewrite Hs. discriminate.
  - unfold exec_seth. destruct (nth_error (hnd h) i) as [l|] eqn:E; simpl; [|discriminate].
    unfold write_loc, write_sloc, val_of.
    destruct (val_of_ok h l W (wf_hnd_lt _ _ _ W E)) as [v Hv]. unfold val_of in Hv.
    destruct (obj_of h l); [|discriminate]. rewrite Hv. destruct (set_flat v k q); discriminate.
  - discriminate.
  - unfold exec_append. destruct (nth_error (hnd h) i) as [l|] eqn:E; simpl; [|discriminate].
    unfold append_loc. destruct (nth_error (ems h) c); [|discriminate].
    destruct (val_of_ok h l W (wf_hnd_lt _ _ _ W E)) as [v Hv]. rewrite Hv. unfold em_add.
    destruct (rejects e v f); [discriminate|]. destruct cp; discriminate.
  - unfold exec_extend. destruct (mapM (nth_error (hnd h)) is) as [ls|] eqn:E; simpl; [|discriminate].
    destruct (nth_error (ems h) c); [|discriminate].
    apply extend_no_dangling; auto. eapply locs_ok_mapM_hnd; eauto.
  - unfold exec_get. destruct (nth_error (ems h) c) as [e|]; [|discriminate].
    destruct (nth_error (e_mem e) i); discriminate.
  - unfold exec_setm. destruct (nth_error (ems h) c) as [e|] eqn:Ee; [|discriminate].
    destruct (nth_error (e_mem e) i) as [l|] eqn:El; [|discriminate].
    unfold write_loc, write_sloc.
    destruct (val_of_ok h l W (wf_mem_lt _ _ _ _ _ W Ee El)) as [v Hv]. unfold val_of in Hv.
    destruct (obj_of h l); [|discriminate]. rewrite Hv. destruct (set_flat v k q); discriminate.
  - unfold exec_copy. destruct (nth_error (ems h) c) as [e|] eqn:Ee; [|discriminate].
    destruct (vals_of_ok h (e_mem e) W (wf_em _ _ _ W Ee)) as [vs Hv]. rewrite Hv. discriminate.
  - unfold exec_slice. destruct (nth_error (ems h) c) as [e|] eqn:Ee; [|discriminate].
    unfold new_em_from.
    destruct (vals_of_ok h (slice lo hi (e_mem e)) W) as [vs Hv];
      [apply Forall_slice; eapply wf_em; eauto|]. rewrite Hv. discriminate.
  - unfold exec_add. destruct (nth_error (ems h) c1) as [e1|] eqn:E1; [|discriminate].
    destruct (nth_error (ems h) c2) as [e2|] eqn:E2; [|discriminate].
    unfold new_em_from.
    destruct (vals_of_ok h (e_mem e1 ++ e_mem e2) W) as [vs Hv];
      [apply locs_ok_app; eapply wf_em; eauto|]. rewrite Hv. discriminate.
  - unfold exec_remove_small. destruct (nth_error (ems h) c) as [e|] eqn:Ee; [|discriminate].
    destruct (vals_of_ok h (e_mem e) W (wf_em _ _ _ W Ee)) as [vs Hv]. rewrite Hv. discriminate.
  - unfold exec_remove_overlap. destruct (nth_error (ems h) c) as [e|] eqn:Ee; [|discriminate].
    destruct (vals_of_ok h (e_mem e) W (wf_em _ _ _ W Ee)) as [vs Hv]. rewrite Hv.
    destruct (pairwise_ok vs); discriminate.
  - unfold exec_link. destruct (nth_error (ems h) c) as [e|] eqn:Ee; [|discriminate].
    destruct (vals_of_ok h (e_mem e) W (wf_em _ _ _ W Ee)) as [vs Hv]. rewrite Hv.
    destruct (objs_of_ok h (e_mem e) (wf_em _ _ _ W Ee)) as [ss Hs]. rewrite Hs.
    destruct vs; [destruct (e_dtype e); discriminate|].
    destruct (negb (all_eqb Nat.eqb (map cls (v :: vs)))); [discriminate|].
    destruct (all_eqb dtype_eqb (map dtype_of (v :: vs))); discriminate.
  - unfold exec_writea. destruct (nth_error (arrs h) a) as [rows|] eqn:Ea; [|discriminate].
    destruct (nth_error rows i) as [s|] eqn:Es; [|discriminate].
    unfold write_sloc.
    pose proof (Forall_nth_error _ _ _ _ (wf_arrs _ W) Ea) as X. simpl in X.
    pose proof (Forall_nth_error _ _ _ _ X Es) as Y. simpl in Y.
    destruct (nth_error (store h) s) eqn:E; [|apply nth_error_None in E; lia].
    destruct (set_flat v k q); discriminate.
  - unfold exec_merge. destruct (nth_error (ems h) c) as [e|] eqn:Ee; [|discriminate].
    destruct (nth_error (e_mem e) i) as [li|] eqn:Ei; [|discriminate].
    destruct (nth_error (e_mem e) j) as [lj|] eqn:Ej; [|discriminate].
    destruct (val_of_ok h li W (wf_mem_lt _ _ _ _ _ W Ee Ei)) as [vi Hvi].
    destruct (val_of_ok h lj W (wf_mem_lt _ _ _ _ _ W Ee Ej)) as [vj Hvj].
    destruct (obj_of_ok h li (wf_mem_lt _ _ _ _ _ W Ee Ei)) as [s Hs]. rewrite Hs, Hvi, Hvj.
    unfold merge_status.
    destruct ip; simpl;
      destruct (negb (dim vj =? dim vi) || (dim vj =? 1)); simpl; try discriminate;
      destruct (negb (Nat.eqb (dim vj) (dim vi) || Nat.eqb (dim vj) 1)); simpl; try discriminate;
      destruct (negb (layout (cls vi) =? 0) && (layout (cls vj) =? 0)); simpl; discriminate.
  - unfold exec_tcnew. destruct (mapM (nth_error (ems h)) cs) as [es|] eqn:E; simpl; [|discriminate].
    apply build_tc_no_dangling; auto. eapply wf_mapM_ems; eauto.
  - unfold exec_tcappend. destruct (nth_error (tcs h) t) as [tc|] eqn:Et; [|discriminate].
    destruct (nth_error (ems h) c) as [e|] eqn:Ee; [|discriminate].
    destruct (vals_of_ok h (e_mem e) W (wf_em _ _ _ W Ee)) as [vs Hv]. rewrite Hv.
    destruct (times_of_ok h (tc_tl tc) (wf_tc_tl_lt _ _ _ W Et)) as [ts Hts]. rewrite Hts. discriminate.
  - unfold exec_tcappend_bad. destruct (nth_error (tcs h) t); discriminate.
  - unfold exec_tcslice. destruct (nth_error (tcs h) t) as [tc|] eqn:Et; [|discriminate].
    destruct (times_of_ok h (tc_tl tc) (wf_tc_tl_lt _ _ _ W Et)) as [ts Hts]. rewrite Hts.
    destruct (mapM_ems_total h (slice lo hi (tc_ems tc)) W) as [es E].
    { apply Forall_slice. pose proof (Forall_nth_error _ _ _ _ (wf_tcs _ W) Et) as X. exact X. }
    rewrite E. apply build_tc_no_dangling; auto. eapply wf_mapM_ems; eauto.
  - unfold exec_tcclear. destruct (nth_error (tcs h) t); discriminate.
  - unfold exec_trnew. destruct (mapM (nth_error (hnd h)) is) as [ls|] eqn:E; simpl; [|discriminate].
    destruct (vals_of_ok h ls W (locs_ok_mapM_hnd _ _ _ W E)) as [vs Hv]. rewrite Hv.
    apply build_tr_no_dangling.
  - unfold exec_trappend. destruct (nth_error (trs h) k) as [tr|] eqn:Et; [|discriminate].
    destruct (nth_error (hnd h) i) as [l|] eqn:E; [|discriminate].
    destruct (val_of_ok h l W (wf_hnd_lt _ _ _ W E)) as [v Hv]. rewrite Hv.
    destruct (vals_of_ok h (tr_drops tr) W (wf_tr _ _ _ W Et)) as [dvs Hd]. unfold vals_of in Hd. rewrite Hd.
    destruct (times_of_ok h (tr_tl tr) (wf_tr_tl_lt _ _ _ W Et)) as [ts Hts]. rewrite Hts.
    match goal with |- context [if ?b then _ else _] => destruct b end; discriminate.
  - unfold exec_trappend_bad. destruct (nth_error (trs h) k); discriminate.
  - unfold exec_trslice. destruct (nth_error (trs h) k) as [tr|] eqn:Et; [|discriminate].
    destruct (vals_of_ok h (slice lo hi (tr_drops tr)) W) as [vs Hv];
      [apply Forall_slice; eapply wf_tr; eauto|]. rewrite Hv.
    destruct (times_of_ok h (tr_tl tr) (wf_tr_tl_lt _ _ _ W Et)) as [ts Hts]. rewrite Hts.
    apply build_tr_no_dangling.
  - unfold exec_trget. destruct (nth_error (trs h) k) as [tr|]; [|discriminate].
    destruct (nth_error (tr_drops tr) i); discriminate.
  - unfold exec_tlnew. destruct (mapM (nth_error (trs h)) ks); discriminate.
  - unfold exec_tlremove. destruct (nth_error (tls h) l) as [ks|] eqn:E; [|discriminate].
    assert (exists trl, mapM (nth_error (trs h)) ks = Some trl) as [trl Htrl].
    { apply mapM_total. intros a Ha.
      pose proof (Forall_nth_error _ _ _ _ (wf_tls _ W) E) as X. simpl in X.
      rewrite Forall_forall in X. specialize (X a Ha).
      destruct (nth_error (trs h) a) eqn:E2; eauto. apply nth_error_None in E2. lia. }
    rewrite Htrl.
    assert (exists tss, mapM (fun tr => times_of h (tr_tl tr)) trl = Some tss) as [tss Htss].
    { apply mapM_total. intros tr Htr. apply times_of_ok.
      pose proof (mapM_nth_error_P _ _ _ _ (wf_tr_tl _ W) Htrl) as X. rewrite Forall_forall in X. auto. }
    rewrite Htss. discriminate.
  - unfold exec_tccopy. destruct (nth_error (tcs h) t) as [tc|] eqn:Et; [|discriminate].
    destruct (times_of_ok h (tc_tl tc) (wf_tc_tl_lt _ _ _ W Et)) as [ts Hts]. rewrite Hts.
    destruct (mapM_ems_total h (tc_ems tc) W) as [es E].
    { pose proof (Forall_nth_error _ _ _ _ (wf_tcs _ W) Et) as X. exact X. }
    rewrite E. apply build_tc_no_dangling; auto. eapply wf_mapM_ems; eauto.
  - unfold exec_tcnewl. destruct (mapM (nth_error (ems h)) cs) as [es|] eqn:E; [|discriminate].
    destruct (nth_error (tvars h) j) as [tl|] eqn:Ej; [|discriminate].
    destruct (times_of_ok h tl (wf_tvar_lt _ _ _ W Ej)) as [ts Hts]. rewrite Hts.
    apply build_tc_no_dangling; auto. eapply wf_mapM_ems; eauto.
  - unfold exec_trcopy. destruct (nth_error (trs h) k) as [tr|] eqn:Et; [|discriminate].
    destruct (vals_of_ok h (tr_drops tr) W (wf_tr _ _ _ W Et)) as [vs Hv]. rewrite Hv.
    destruct (times_of_ok h (tr_tl tr) (wf_tr_tl_lt _ _ _ W Et)) as [ts Hts]. rewrite Hts.
    apply build_tr_no_dangling.
  - unfold exec_trnewl. destruct (mapM (nth_error (hnd h)) is) as [ls|] eqn:E; [|discriminate].
    destruct (nth_error (tvars h) j) as [tl|] eqn:Ej; [|discriminate].
    destruct (vals_of_ok h ls W (locs_ok_mapM_hnd _ _ _ W E)) as [vs Hv]. rewrite Hv.
    destruct (times_of_ok h tl (wf_tvar_lt _ _ _ W Ej)) as [ts Hts]. rewrite Hts.
    apply build_tr_no_dangling.
  - discriminate.
  - unfold exec_tlistappend. destruct (nth_error (tvars h) j) as [tl|] eqn:Ej; [|discriminate].
    destruct (times_of_ok h tl (wf_tvar_lt _ _ _ W Ej)) as [ts Hts]. rewrite Hts. discriminate.
  - unfold exec_tlistset. destruct (nth_error (tvars h) j) as [tl|] eqn:Ej; [|discriminate].
    destruct (times_of_ok h tl (wf_tvar_lt _ _ _ W Ej)) as [ts Hts]. rewrite Hts.
    match goal with |- context [if ?b then _ else _] => destruct b end; discriminate.
  - unfold exec_emctor. destruct (mapM (nth_error (hnd h)) is) as [ls|] eqn:E; simpl; [|discriminate].
    pose proof (locs_ok_mapM_hnd _ _ _ W E) as Hls.
    destruct dt as [i|]; [|apply construct_no_dangling; auto].
    destruct (nth_error (hnd h) i) as [l|] eqn:Ei; [|discriminate].
    destruct (val_of_ok h l W (wf_hnd_lt _ _ _ W Ei)) as [v Hv]. rewrite Hv.
    apply construct_no_dangling; auto.
  - unfold exec_emclone. destruct (nth_error (ems h) c) as [e|] eqn:Ee; [|discriminate].
    apply construct_no_dangling; auto. eapply wf_em; eauto.
  - unfold exec_sel. destruct (nth_error (ems h) c) as [e|] eqn:Ee; [|discriminate].
    unfold new_em_from.
    destruct (vals_of_ok h (sel idxs (e_mem e)) W) as [vs Hv];
      [apply Forall_sel; eapply wf_em; eauto|]. rewrite Hv. discriminate.
  - unfold exec_tcsel. destruct (nth_error (tcs h) t) as [tc|] eqn:Et; [|discriminate].
    destruct (times_of_ok h (tc_tl tc) (wf_tc_tl_lt _ _ _ W Et)) as [ts Hts]. rewrite Hts.
    destruct (mapM_ems_total h (sel idxs (tc_ems tc)) W) as [es E].
    { apply Forall_sel. pose proof (Forall_nth_error _ _ _ _ (wf_tcs _ W) Et) as X. exact X. }
    rewrite E. apply build_tc_no_dangling; auto. eapply wf_mapM_ems; eauto.
  - unfold exec_trsel. destruct (nth_error (trs h) k) as [tr|] eqn:Et; [|discriminate].
    destruct (vals_of_ok h (sel idxs (tr_drops tr)) W) as [vs Hv];
      [apply Forall_sel; eapply wf_tr; eauto|]. rewrite Hv.
    destruct (times_of_ok h (tr_tl tr) (wf_tr_tl_lt _ _ _ W Et)) as [ts Hts]. rewrite Hts.
    apply build_tr_no_dangling.
  - unfold exec_tcclone. destruct (nth_error (tcs h) t) as [tc|] eqn:Et; [|discriminate].
    destruct (times_of_ok h (tc_tl tc) (wf_tc_tl_lt _ _ _ W Et)) as [ts Hts]. rewrite Hts.
    destruct (mapM_ems_total h (tc_ems tc) W) as [es E].
    { pose proof (Forall_nth_error _ _ _ _ (wf_tcs _ W) Et) as X. exact X. }
    rewrite E.
    destruct (clone_ems_inv h es W (wf_mapM_ems _ _ _ W E)) as (_ & N & _).
    destruct (clone_ems h es) as [h1 [|x]]; simpl in *; [discriminate|exact N].
  - unfold exec_extend_self. destruct (nth_error (ems h) c) as [e|] eqn:Ee; [|discriminate].
    apply extend_no_dangling; auto. eapply wf_em; eauto.
Qed.
