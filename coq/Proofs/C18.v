(* C18 -- detection depends on the image only through the documented threshold. *)
From Coq Require Import QArith Qround ZArith List Bool Lia Lqa Setoid Morphisms.
Import ListNotations.
From PD Require Import Model.Threshold Model.Pipeline Model.Overlap Proofs.Overlap Gen.Gen_analysis.
Local Open Scope Q_scope.

(* ---- boolean comparisons on Q ---- *)
Lemma Qle_bool_affine a b x t : 0 < a -> Qle_bool (a * x + b) (a * t + b) = Qle_bool x t.
Proof.
  intros Ha. destruct (Qle_bool x t) eqn:E.
  - apply Qle_bool_iff in E. apply Qle_bool_iff. nra.
  - destruct (Qle_bool (a * x + b) (a * t + b)) eqn:E'; [|reflexivity].
    apply Qle_bool_iff in E'. assert (x <= t) by nra.
    apply Qle_bool_iff in H. congruence.
Qed.

(* the generated mask comparison is invariant under positive affine maps, whatever operator
   (>, >=, <, <=) the source uses *)
Lemma mask_cell_affine a b x t : 0 < a -> mask_cell (a * x + b) (a * t + b) = mask_cell x t.
Proof. intros Ha. unfold mask_cell. rewrite ?Qle_bool_affine by exact Ha. reflexivity. Qed.

Global Instance mask_cell_comp : Proper (Qeq ==> Qeq ==> eq) mask_cell.
Proof. intros x x' Hx t t' Ht. unfold mask_cell. rewrite Hx, Ht. reflexivity. Qed.

(* the mask is exactly "cell exceeds the threshold" *)
Lemma mask_cell_gt x t : mask_cell x t = true <-> t < x.
Proof.
  unfold mask_cell. rewrite negb_true_iff. split.
  - intros H. apply Qnot_le_lt. intros Hle. apply Qle_bool_iff in Hle. congruence.
  - intros H. destruct (Qle_bool x t) eqn:E; [|reflexivity]. apply Qle_bool_iff in E. lra.
Qed.

(* ---- extrema and mean commute with positive affine maps ---- *)
Lemma qmin_affine a b x y x' : 0 < a -> x' == a * x + b ->
  qmin x' (a * y + b) == a * qmin x y + b.
Proof.
  intros Ha Hx. unfold qmin.
  assert (E : Qle_bool x' (a * y + b) = Qle_bool x y) by (rewrite Hx; apply Qle_bool_affine; exact Ha).
  rewrite E. destruct (Qle_bool x y); [exact Hx|reflexivity].
Qed.

Lemma qmax_affine a b x y x' : 0 < a -> x' == a * x + b ->
  qmax x' (a * y + b) == a * qmax x y + b.
Proof.
  intros Ha Hx. unfold qmax.
  assert (E : Qle_bool x' (a * y + b) = Qle_bool x y) by (rewrite Hx; apply Qle_bool_affine; exact Ha).
  rewrite E. destruct (Qle_bool x y); [reflexivity|exact Hx].
Qed.

Global Instance qmin_comp : Proper (Qeq ==> Qeq ==> Qeq) qmin.
Proof.
  intros x x' Hx y y' Hy. unfold qmin.
  assert (E : Qle_bool x y = Qle_bool x' y') by (rewrite Hx, Hy; reflexivity).
  rewrite E. destruct (Qle_bool x' y'); assumption.
Qed.
Global Instance qmax_comp : Proper (Qeq ==> Qeq ==> Qeq) qmax.
Proof.
  intros x x' Hx y y' Hy. unfold qmax.
  assert (E : Qle_bool x y = Qle_bool x' y') by (rewrite Hx, Hy; reflexivity).
  rewrite E. destruct (Qle_bool x' y'); assumption.
Qed.

Lemma lmin_affine a b l : 0 < a -> forall x x', x' == a * x + b ->
  lmin x' (map (affine a b) l) == a * lmin x l + b.
Proof.
  intros Ha. unfold lmin. induction l as [|y l IH]; intros x x' Hx; simpl; [exact Hx|].
  apply IH. unfold affine. apply qmin_affine; assumption.
Qed.

Lemma lmax_affine a b l : 0 < a -> forall x x', x' == a * x + b ->
  lmax x' (map (affine a b) l) == a * lmax x l + b.
Proof.
  intros Ha. unfold lmax. induction l as [|y l IH]; intros x x' Hx; simpl; [exact Hx|].
  apply IH. unfold affine. apply qmax_affine; assumption.
Qed.

Lemma qsum_affine a b l :
  qsum (map (affine a b) l) == a * qsum l + b * inject_Z (Z.of_nat (length l)).
Proof.
  induction l as [|y l IH]; simpl qsum; simpl length.
  - simpl. ring.
  - rewrite IH. unfold affine. rewrite Nat2Z.inj_succ. unfold Z.succ. rewrite inject_Z_plus. ring.
Qed.

Lemma lmean_affine a b x l : lmean (affine a b x) (map (affine a b) l) == a * lmean x l + b.
Proof.
  unfold lmean. rewrite map_length. change (affine a b x :: map (affine a b) l) with (map (affine a b) (x :: l)).
  rewrite qsum_affine. simpl length.
  assert (Hn : ~ inject_Z (Z.of_nat (S (length l))) == 0).
  { intros H. unfold Qeq in H. simpl in H. lia. }
  field. exact Hn.
Qed.

(* ---- the threshold is equivariant, the mask invariant (all rules except Otsu: Proofs/Otsu.v) ---- *)
Definition not_otsu (r : thr_rule) : Prop := match r with ThrOtsu => False | _ => True end.

Lemma threshold_affine a b r x l : 0 < a -> not_otsu r ->
  threshold_of (map_rule a b r) (affine a b x) (map (affine a b) l) == affine a b (threshold_of r x l).
Proof.
  intros Ha Hr. unfold threshold_of.
  pose proof (lmin_affine a b l Ha x (affine a b x) (Qeq_refl _)) as Hmin.
  pose proof (lmax_affine a b l Ha x (affine a b x) (Qeq_refl _)) as Hmax.
  pose proof (lmean_affine a b x l) as Hmean.
  destruct r; simpl in Hr; try contradiction; unfold map_rule, tau, affine in *;
    rewrite ?Hmin, ?Hmax, ?Hmean; try reflexivity; field.
Qed.

Lemma mask_affine a b r x l : 0 < a -> not_otsu r ->
  mask_of (map_rule a b r) (affine a b x) (map (affine a b) l) = mask_of r x l.
Proof.
  intros Ha Hr. unfold mask_of.
  change (affine a b x :: map (affine a b) l) with (map (affine a b) (x :: l)).
  rewrite map_map. apply map_ext. intros v.
  rewrite (threshold_affine a b r x l Ha Hr). unfold affine. apply mask_cell_affine. exact Ha.
Qed.

(* ---- the result depends on the field only through the mask ---- *)
Section Factor.
  Variable cand : Type.
  Variable locate_mask : list bool -> list cand.
  Variable radius : cand -> Q.

  Lemma locate_factorises r1 r2 mn x1 l1 x2 l2 :
    mask_of r1 x1 l1 = mask_of r2 x2 l2 ->
    locate cand locate_mask radius r1 mn x1 l1 = locate cand locate_mask radius r2 mn x2 l2.
  Proof. intros H. unfold locate. rewrite H. reflexivity. Qed.

  Lemma locate_is_locate_mask r mn x l :
    locate cand locate_mask radius r mn x l =
    size_filter cand radius mn (locate_mask (map (fun v => mask_cell v (threshold_of r x l)) (x :: l))).
  Proof.
    unfold locate, mask_of, size_filter.
    set (cs := locate_mask _). clearbody cs.
    induction cs as [|c cs IH]; simpl; [reflexivity|].
    destruct (negb (small (radius c) mn)) eqn:E; simpl; [rewrite E; f_equal; exact IH|exact IH].
  Qed.

  Lemma affine_invariant a b r mn x l : 0 < a -> not_otsu r ->
    locate cand locate_mask radius (map_rule a b r) mn (affine a b x) (map (affine a b) l) =
    locate cand locate_mask radius r mn x l.
  Proof. intros Ha Hr. apply locate_factorises. apply mask_affine; assumption. Qed.

  (* every returned droplet is larger than minimal_radius; none above it is dropped *)
  Lemma filter_exact mn cs c :
    In c (size_filter cand radius mn cs) <-> In c cs /\ mn < radius c.
  Proof.
    unfold size_filter. rewrite filter_In. unfold small. rewrite negb_true_iff. split.
    - intros [H1 H2]. split; [exact H1|]. apply Qnot_le_lt. intros Hle.
      apply Qle_bool_iff in Hle. congruence.
    - intros [H1 H2]. split; [exact H1|]. destruct (Qle_bool (radius c) mn) eqn:E; [|reflexivity].
      apply Qle_bool_iff in E. lra.
  Qed.

  Lemma located_above_minimal r mn x l c :
    In c (locate cand locate_mask radius r mn x l) -> mn < radius c.
  Proof. rewrite locate_is_locate_mask. intros H. apply filter_exact in H. apply H. Qed.
End Factor.

(* the generated filter comparison is the one of Emulsion.remove_small's pop loop (Model/Overlap.v) *)
Lemma small_is_remove_small rad mn l :
  remove_small rad mn l = filter (fun k => negb (small (rad k) mn)) l.
Proof. rewrite remove_small_filter. reflexivity. Qed.

(* ---- argmax = first maximum ---- *)
Lemma argmax_first_spec f ks : forall best,
  let r := argmax_first f ks best in
  In r (best :: ks) /\ forall k, In k (best :: ks) -> f k <= f r.
Proof.
  induction ks as [|k ks IH]; intros best; simpl.
  - split; [left; reflexivity|]. intros j [Hj|[]]. subst j. apply Qle_refl.
  - destruct (Qle_bool (f k) (f best)) eqn:E.
    + destruct (IH best) as [H1 H2]. split.
      * destruct H1 as [H1|H1]; [left; exact H1|right; right; exact H1].
      * intros j [Hj|[Hj|Hj]].
        -- subst j. apply H2. left. reflexivity.
        -- subst j. apply Qle_bool_iff in E.
           apply Qle_trans with (f best); [exact E|apply H2; left; reflexivity].
        -- apply H2. right. exact Hj.
    + destruct (IH k) as [H1 H2]. split.
      * destruct H1 as [H1|H1]; [right; left; exact H1|right; right; exact H1].
      * intros j [Hj|[Hj|Hj]].
        -- subst j.
           assert (f best < f k) by (apply Qnot_le_lt; intros Hle; apply Qle_bool_iff in Hle; congruence).
           apply Qle_trans with (f k); [apply Qlt_le_weak; assumption|apply H2; left; reflexivity].
        -- subst j. apply H2. left. reflexivity.
        -- apply H2. right. exact Hj.
Qed.

(* Otsu: for a non-constant field the returned value is the centre of a bin maximising the
   between-class variance of the 256-bin histogram *)
Lemma tau_otsu_argmax x l : Qeq_bool (lmin x l) (lmax x l) = false ->
  let lo := lmin x l in let hi := lmax x l in
  let cnt := count_bin (map (bin_index lo hi) (x :: l)) in
  let c := bin_centre lo hi in
  exists k, In k splits /\ otsu x l = c k /\ forall j, In j splits -> variance12 cnt c j <= variance12 cnt c k.
Proof.
  intros Hne. cbv zeta. unfold otsu, hist_range. rewrite Hne.
  set (lo := lmin x l). set (hi := lmax x l).
  set (v := variance12 _ _).
  pose proof (argmax_first_spec v (tl splits) 0%Z) as [H1 H2]. cbv zeta in H1, H2.
  exists (argmax_first v (tl splits) 0%Z). split; [exact H1|]. split; [reflexivity|].
  intros j Hj. apply H2. exact Hj.
Qed.

(* ---- the evaluation-friendly variance (reduced fractions) equals the specification ---- *)
Lemma qsumr_qsum l : qsumr l == qsum l.
Proof.
  induction l as [|x l IH]; [reflexivity|].
  change (qsumr (x :: l)) with (Qred (x + qsumr l)). change (qsum (x :: l)) with (x + qsum l).
  rewrite Qred_correct, IH. reflexivity.
Qed.

Lemma variance12r_eq cnt c k : variance12r cnt c k == variance12 cnt c k.
Proof.
  unfold variance12r, variance12, wsum, msum. cbv zeta.
  rewrite !Qred_correct, !qsumr_qsum. reflexivity.
Qed.

(* the generated dispatch consults threshold_otsu only for the "otsu" rule *)
Lemma threshold_eval_eq r x l : threshold_eval r x l = threshold_of r x l.
Proof. unfold threshold_eval, threshold_of. destruct r; reflexivity. Qed.

Lemma mask_eval_eq r x l : mask_eval r x l = mask_of r x l.
Proof. unfold mask_eval, mask_of. cbv zeta. rewrite threshold_eval_eq. reflexivity. Qed.
