(* C01 geometry, part 5: separation of two balls under the Euclidean condition
        (r1 + r2 + hmax)^2 <= dist2 g c1 c2      (hmax >= every grid spacing, all axes non-periodic).
   Needs the triangle inequality in squared form, proved over Q from the Cauchy-Schwarz inequality
   for lists (no square roots):
     cauchy_schwarz       : (u . v)^2 <= |u|^2 |v|^2;
     dist2_triangle_lt    : |AB|^2 < a^2 -> |BC|^2 <= b^2 -> |AC|^2 < (a + b)^2      (a, b >= 0);
     balls_cells_apart_euclid / balls_not_adjacent_euclid / balls_disjoint_euclid. *)
From Coq Require Import QArith Qabs ZArith List Arith Bool Lia Lqa Setoid Morphisms.
Import ListNotations.
From PD Require Import Model.Grid Model.Render Model.MergeLoop Model.Locate Model.Ball
  Proofs.Render Proofs.MergeLoop Proofs.Components Proofs.LocateCart
  Proofs.BallRow Proofs.BallCentroid Proofs.BallSep.
Local Open Scope Q_scope.

Fixpoint dot (u v : list Q) : Q :=
  match u, v with
  | x :: u', y :: v' => x * y + dot u' v'
  | _, _ => 0
  end.

Lemma cs_step x y D U V : 0 <= U -> 0 <= V -> D * D <= U * V ->
  (x * y + D) * (x * y + D) <= (x * x + U) * (y * y + V).
Proof.
  intros HU HV HD.
  set (A := x * x * V + y * y * U). set (T := 2 * (x * y) * D).
  assert (Hx : 0 <= x * x) by nra. assert (Hy : 0 <= y * y) by nra.
  assert (HA : 0 <= A).
  { unfold A. assert (0 <= x * x * V) by (apply Qmult_le_0_compat; assumption).
    assert (0 <= y * y * U) by (apply Qmult_le_0_compat; assumption). lra. }
  assert (H1 : 0 <= (x * y) * (x * y) * (U * V - D * D)).
  { apply Qmult_le_0_compat; [generalize (x * y); intros z; nra|lra]. }
  assert (H2 : 0 <= (x * x * V - y * y * U) * (x * x * V - y * y * U)).
  { generalize (x * x * V - y * y * U). intros z. nra. }
  assert (H3 : T * T <= A * A).
  { assert (E : A * A - T * T == (x * x * V - y * y * U) * (x * x * V - y * y * U)
                                 + 4 * ((x * y) * (x * y) * (U * V - D * D))).
    { unfold A, T. ring. }
    lra. }
  assert (H4 : T <= A).
  { destruct (Qlt_le_dec A T) as [H|H]; [exfalso|exact H]. clearbody A T. nra. }
  assert (E : (x * x + U) * (y * y + V) - (x * y + D) * (x * y + D) == (A - T) + (U * V - D * D)).
  { unfold A, T. ring. }
  lra.
Qed.

Theorem cauchy_schwarz : forall u v, dot u v * dot u v <= sumsq u * sumsq v.
Proof.
  induction u as [|x u IH]; intros v.
  - cbn [dot sumsq fold_right]. lra.
  - destruct v as [|y v].
    + cbn [dot]. change (sumsq []) with 0. lra.
    + cbn [dot sumsq fold_right]. fold (sumsq u). fold (sumsq v).
      apply cs_step; [apply sumsq_nonneg|apply sumsq_nonneg|apply IH].
Qed.

(* ---- non-periodic difference vectors ---- *)
Lemma diff_chain : forall g, nonper g -> forall A B C,
  length A = length g -> length B = length g -> length C = length g ->
  sumsq (diff_vec g A C)
  == sumsq (diff_vec g A B) + 2 * dot (diff_vec g A B) (diff_vec g B C) + sumsq (diff_vec g B C).
Proof.
  intros g Hnp. induction Hnp as [|a g Hper Hnp IH]; intros [|x A] [|y B] [|z C] HA HB HC;
    cbn [length] in *; try discriminate.
  - cbn [diff_vec sumsq fold_right dot]. ring.
  - cbn [diff_vec sumsq fold_right dot].
    fold (sumsq (diff_vec g A C)). fold (sumsq (diff_vec g A B)). fold (sumsq (diff_vec g B C)).
    rewrite (IH A B C) by congruence. unfold diff1. rewrite Hper. ring.
Qed.

Lemma dist2_sym : forall g, nonper g -> forall A B, dist2 g A B == dist2 g B A.
Proof.
  intros g Hnp. unfold dist2. induction Hnp as [|a g Hper Hnp IH]; intros [|x A] [|y B];
    cbn [diff_vec sumsq fold_right]; try reflexivity.
  fold (sumsq (diff_vec g A B)). fold (sumsq (diff_vec g B A)). rewrite (IH A B).
  unfold diff1. rewrite Hper. ring.
Qed.

Lemma dist2_self : forall g, nonper g -> forall A, dist2 g A A == 0.
Proof.
  intros g Hnp. unfold dist2. induction Hnp as [|a g Hper Hnp IH]; intros [|x A];
    cbn [diff_vec sumsq fold_right]; try reflexivity.
  fold (sumsq (diff_vec g A A)). rewrite (IH A). unfold diff1. rewrite Hper. ring.
Qed.

(* ---- triangle inequality on squares ---- *)
Theorem dist2_triangle_lt g A B C a b : nonper g ->
  length A = length g -> length B = length g -> length C = length g ->
  0 <= a -> 0 <= b -> dist2 g A B < a * a -> dist2 g B C <= b * b ->
  dist2 g A C < (a + b) * (a + b).
Proof.
  intros Hnp HA HB HC Ha Hb H1 H2. unfold dist2 in *.
  rewrite (diff_chain g Hnp A B C HA HB HC).
  pose proof (cauchy_schwarz (diff_vec g A B) (diff_vec g B C)) as Hcs.
  pose proof (sumsq_nonneg (diff_vec g A B)) as HU. pose proof (sumsq_nonneg (diff_vec g B C)) as HV.
  set (U := sumsq (diff_vec g A B)) in *. set (V := sumsq (diff_vec g B C)) in *.
  set (D := dot (diff_vec g A B) (diff_vec g B C)) in *. clearbody U V D.
  assert (Hab : 0 <= a * b) by (apply Qmult_le_0_compat; assumption).
  assert (HUV : U * V <= (a * b) * (a * b)).
  { assert (U * V <= (a * a) * V) by (apply Qmult_le_compat_r; lra).
    assert ((a * a) * V <= (a * a) * (b * b)).
    { rewrite (Qmult_comm (a * a) V), (Qmult_comm (a * a) (b * b)). apply Qmult_le_compat_r; [lra|nra]. }
    assert (E : a * b * (a * b) == a * a * (b * b)) by ring. lra. }
  assert (HD : D <= a * b).
  { destruct (Qlt_le_dec (a * b) D) as [H|H]; [exfalso|exact H]. set (ab := a * b) in *. nra. }
  assert (E : (a + b) * (a + b) == a * a + 2 * (a * b) + b * b) by ring.
  lra.
Qed.

(* ---- centres of equal or face-adjacent cells are at most hmax apart ---- *)
Lemma centre1_step a x : centre1 a (x + 1) - centre1 a x == adisc a.
Proof. unfold centre1. rewrite inject_Z_plus. change (inject_Z 1) with 1. ring. Qed.

Lemma dist2_face_adj hmax : forall p q, face_adj p q -> forall g, nonper g -> grid_ok g ->
  Forall (fun a => adisc a <= hmax) g -> length p = length g ->
  dist2 g (cell_centre g p) (cell_centre g q) <= hmax * hmax.
Proof.
  intros p q Hf. induction Hf as [x y c Hxy|x c d Hf IH]; intros g Hnp Hok Hh Hlen;
    destruct g as [|a g]; try discriminate Hlen;
    inversion Hnp as [|a' g' Hper Hnp']; subst a' g';
    unfold grid_ok in Hok; inversion Hok as [|a' g' Ha Hok']; subst a' g';
    inversion Hh as [|a' g' Hha Hh']; subst a' g';
    unfold dist2; cbn [cell_centre diff_vec sumsq fold_right]; unfold diff1; rewrite Hper.
  - fold (sumsq (diff_vec g (cell_centre g c) (cell_centre g c))).
    fold (dist2 g (cell_centre g c) (cell_centre g c)). rewrite (dist2_self g Hnp').
    pose proof (adisc_pos a Ha) as Hpos.
    assert (Hcase : (y = x + 1 \/ x = y + 1)%Z) by lia. destruct Hcase as [->| ->].
    + rewrite centre1_step. nra.
    + assert (E : centre1 a y - centre1 a (y + 1) == - (centre1 a (y + 1) - centre1 a y)) by ring.
      rewrite E, centre1_step. nra.
  - fold (sumsq (diff_vec g (cell_centre g c) (cell_centre g d))).
    fold (dist2 g (cell_centre g c) (cell_centre g d)).
    cbn [length] in Hlen. injection Hlen as Hlen.
    pose proof (IH g Hnp' Hok' Hh' Hlen) as H.
    assert (E : (centre1 a x - centre1 a x) * (centre1 a x - centre1 a x) == 0) by ring.
    rewrite E. lra.
Qed.

(* ---- (5) Euclidean version ---- *)
Theorem balls_cells_apart_euclid g c1 r1 c2 r2 hmax : grid_ok g -> nonper g ->
  length c1 = length g -> length c2 = length g ->
  0 <= hmax -> Forall (fun a => adisc a <= hmax) g ->
  (r1 + r2 + hmax) * (r1 + r2 + hmax) <= dist2 g c1 c2 ->
  forall p q, length p = length g -> length q = length g ->
    inside g c1 r1 p = true -> inside g c2 r2 q = true -> p <> q /\ ~ face_adj p q.
Proof.
  intros Hok Hnp Hl1 Hl2 Hh0 Hh Hsep p q Hlp Hlq Hp Hq.
  apply inside_iff in Hp. apply inside_iff in Hq. destruct Hp as [Hr1 Hp]. destruct Hq as [Hr2 Hq].
  pose proof (cell_centre_length g p Hlp) as HlP. pose proof (cell_centre_length g q Hlq) as HlQ.
  assert (Hkey : dist2 g (cell_centre g p) (cell_centre g q) <= hmax * hmax -> False).
  { intros Hpq.
    pose proof (dist2_triangle_lt g c1 (cell_centre g p) (cell_centre g q) r1 hmax Hnp Hl1 HlP HlQ
                  Hr1 Hh0 Hp Hpq) as H1.
    rewrite (dist2_sym g Hnp c2 (cell_centre g q)) in Hq.
    assert (Hrh : 0 <= r1 + hmax) by lra.
    pose proof (dist2_triangle_lt g c1 (cell_centre g q) c2 (r1 + hmax) r2 Hnp Hl1 HlQ Hl2
                  Hrh Hr2 H1 (Qlt_le_weak _ _ Hq)) as H2.
    assert (E : (r1 + hmax + r2) * (r1 + hmax + r2) == (r1 + r2 + hmax) * (r1 + r2 + hmax)) by ring.
    lra. }
  split.
  - intros ->. apply Hkey. rewrite (dist2_self g Hnp). nra.
  - intros Hf. apply Hkey. apply (dist2_face_adj hmax p q Hf g Hnp Hok Hh Hlp).
Qed.

Theorem balls_disjoint_euclid g c1 r1 c2 r2 hmax : grid_ok g -> nonper g ->
  length c1 = length g -> length c2 = length g ->
  0 <= hmax -> Forall (fun a => adisc a <= hmax) g ->
  (r1 + r2 + hmax) * (r1 + r2 + hmax) <= dist2 g c1 c2 ->
  forall p, In p (ball_cells g c1 r1) -> ~ In p (ball_cells g c2 r2).
Proof.
  intros Hok Hnp Hl1 Hl2 Hh0 Hh Hsep p Hp Hq.
  pose proof (ball_cells_length _ _ _ _ Hp) as Hl.
  apply ball_cells_spec in Hp. apply ball_cells_spec in Hq.
  destruct (balls_cells_apart_euclid g c1 r1 c2 r2 hmax Hok Hnp Hl1 Hl2 Hh0 Hh Hsep p p Hl Hl
              (proj2 Hp) (proj2 Hq)) as [Hne _].
  apply Hne. reflexivity.
Qed.

Theorem balls_not_adjacent_euclid g c1 r1 c2 r2 hmax : grid_ok g -> nonper g ->
  length c1 = length g -> length c2 = length g ->
  0 <= hmax -> Forall (fun a => adisc a <= hmax) g ->
  (r1 + r2 + hmax) * (r1 + r2 + hmax) <= dist2 g c1 c2 ->
  forall p q, In p (ball_cells g c1 r1) -> In q (ball_cells g c2 r2) -> ~ face_adj p q.
Proof.
  intros Hok Hnp Hl1 Hl2 Hh0 Hh Hsep p q Hp Hq.
  pose proof (ball_cells_length _ _ _ _ Hp) as Hlp. pose proof (ball_cells_length _ _ _ _ Hq) as Hlq.
  apply ball_cells_spec in Hp. apply ball_cells_spec in Hq.
  exact (proj2 (balls_cells_apart_euclid g c1 r1 c2 r2 hmax Hok Hnp Hl1 Hl2 Hh0 Hh Hsep p q Hlp Hlq
                  (proj2 Hp) (proj2 Hq))).
Qed.

Print Assumptions cauchy_schwarz.
Print Assumptions dist2_triangle_lt.
Print Assumptions balls_cells_apart_euclid.
Print Assumptions balls_disjoint_euclid.
Print Assumptions balls_not_adjacent_euclid.
