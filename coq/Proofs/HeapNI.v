(* HeapNI -- noninterference under the separation invariant: a mutation through one reference
   (a caller handle, a member obtained by indexing, a row of a linked array, an in-place merge)
   leaves the abstract value of everything reachable through any other reference unchanged;
   insertion / copy / slice with default flags produce storage that nothing else can reach. *)
From Coq Require Import List Arith Bool QArith Lia.
Import ListNotations.
From PD Require Import Model.Heap Proofs.Heap Proofs.HeapWf Proofs.HeapSep Proofs.HeapTimes.
Local Open Scope nat_scope.

(* ------------------------------------------------------------------------------------ *)
(* what a store write can change                                                         *)
(* ------------------------------------------------------------------------------------ *)

Lemma obj_inj h l1 l2 s : NoDup (objs h) -> obj_of h l1 = Some s -> obj_of h l2 = Some s -> l1 = l2.
Proof.
  intros H E1 E2. unfold obj_of in *. rewrite NoDup_nth_error in H. apply H.
  - eapply nth_error_Some_lt; eauto.
  - congruence.
Qed.

Lemma val_of_write_other h l0 s v l :
  NoDup (objs h) -> obj_of h l0 = Some s -> l <> l0 -> val_of (set_store h s v) l = val_of h l.
Proof.
  intros H E Hne. unfold val_of, obj_of in *. simpl.
  destruct (nth_error (objs h) l) as [s'|] eqn:El; auto.
  apply nth_error_upd_neq. intros ->. apply Hne. eapply obj_inj; eauto.
Qed.

Lemma abs_vals_ext h h' ls :
  (forall l, In l ls -> val_of h' l = val_of h l) -> abs_vals h' ls = abs_vals h ls.
Proof.
  intros H. unfold abs_vals. induction ls as [|l ls IH]; simpl; auto.
  rewrite H by (simpl; auto). rewrite IH; auto. intros; apply H; simpl; auto.
Qed.

Lemma abs_vals_write_other h l0 s v ls :
  NoDup (objs h) -> obj_of h l0 = Some s -> ~ In l0 ls ->
  abs_vals (set_store h s v) ls = abs_vals h ls.
Proof.
  intros H E Hn. apply abs_vals_ext. intros l Hl. eapply val_of_write_other; eauto.
  intros ->. tauto.
Qed.

(* a write to a record that no object points to changes nothing observable *)
Lemma val_of_write_unowned h s v l :
  (forall l', obj_of h l' <> Some s) -> val_of (set_store h s v) l = val_of h l.
Proof.
  intros H. unfold val_of, obj_of in *. simpl. destruct (nth_error (objs h) l) as [s'|] eqn:E; auto.
  apply nth_error_upd_neq. intros ->. apply (H l). exact E.
Qed.

Lemma write_sloc_shape h s k q :
  fst (write_sloc h s k q) = h \/ exists v', fst (write_sloc h s k q) = set_store h s v'.
Proof.
  unfold write_sloc. destruct (nth_error (store h) s); simpl; auto.
  destruct (set_flat v k q); simpl; eauto.
Qed.

Lemma write_loc_shape h l k q :
  fst (write_loc h l k q) = h \/ exists s v', obj_of h l = Some s /\ fst (write_loc h l k q) = set_store h s v'.
Proof.
  unfold write_loc. destruct (obj_of h l) as [s|] eqn:E; simpl; auto.
  destruct (write_sloc_shape h s k q) as [->|[v' ->]]; eauto.
Qed.

(* ------------------------------------------------------------------------------------ *)
(* Sep: distinct reference positions hold distinct objects                               *)
(* ------------------------------------------------------------------------------------ *)

Lemma roots_cnt h a :
  cnt (roots h) a = cnt (hnd h) a + cnt (concat (map e_mem (ems h))) a + cnt (concat (map tr_drops (trs h))) a.
Proof. unfold roots. rewrite !cnt_app. lia. Qed.

Lemma Sep_roots_le h a : Sep h -> cnt (roots h) a <= 1.
Proof. intros (_ & S2 & _). apply NoDup_cnt. exact S2. Qed.

Lemma sep_hnd_em h i l c e :
  Sep h -> nth_error (hnd h) i = Some l -> nth_error (ems h) c = Some e -> ~ In l (e_mem e).
Proof.
  intros S Hi He. apply cnt_zero_notin.
  pose proof (Sep_roots_le h l S) as X. rewrite roots_cnt in X.
  pose proof (cnt_In (hnd h) l (nth_error_In _ _ Hi)).
  pose proof (cnt_concat_nth e_mem (ems h) c e l He). nlia.
Qed.

Lemma sep_hnd_tr h i l k t :
  Sep h -> nth_error (hnd h) i = Some l -> nth_error (trs h) k = Some t -> ~ In l (tr_drops t).
Proof.
  intros S Hi Ht. apply cnt_zero_notin.
  pose proof (Sep_roots_le h l S) as X. rewrite roots_cnt in X.
  pose proof (cnt_In (hnd h) l (nth_error_In _ _ Hi)).
  pose proof (cnt_concat_nth tr_drops (trs h) k t l Ht). nlia.
Qed.

Lemma sep_hnd_hnd h i j l :
  Sep h -> nth_error (hnd h) i = Some l -> nth_error (hnd h) j = Some l -> i = j.
Proof.
  intros S Hi Hj. assert (N : NoDup (hnd h)).
  { apply NoDup_cnt. intros a. pose proof (Sep_roots_le h a S) as X. rewrite roots_cnt in X. nlia. }
  rewrite NoDup_nth_error in N. apply N; [eapply nth_error_Some_lt; eauto|congruence].
Qed.

Lemma sep_em_em h c c' e e' l :
  Sep h -> c <> c' -> nth_error (ems h) c = Some e -> nth_error (ems h) c' = Some e' ->
  In l (e_mem e) -> ~ In l (e_mem e').
Proof.
  intros S Hne He He' Hin. apply cnt_zero_notin.
  pose proof (Sep_roots_le h l S) as X. rewrite roots_cnt in X.
  pose proof (cnt_In _ l Hin).
  pose proof (cnt_concat_nth2 e_mem (ems h) c c' e e' l Hne He He'). nlia.
Qed.

Lemma sep_em_hnd h c e l j l' :
  Sep h -> nth_error (ems h) c = Some e -> In l (e_mem e) -> nth_error (hnd h) j = Some l' -> l' <> l.
Proof. intros S He Hin Hj ->. eapply sep_hnd_em; eauto. Qed.

Lemma sep_em_tr h c e l k t :
  Sep h -> nth_error (ems h) c = Some e -> In l (e_mem e) -> nth_error (trs h) k = Some t -> ~ In l (tr_drops t).
Proof.
  intros S He Hin Ht. apply cnt_zero_notin.
  pose proof (Sep_roots_le h l S) as X. rewrite roots_cnt in X.
  pose proof (cnt_In _ l Hin).
  pose proof (cnt_concat_nth e_mem (ems h) c e l He).
  pose proof (cnt_concat_nth tr_drops (trs h) k t l Ht). nlia.
Qed.

Lemma sep_em_nodup h c e : Sep h -> nth_error (ems h) c = Some e -> NoDup (e_mem e).
Proof.
  intros S He. apply NoDup_cnt. intros a.
  pose proof (Sep_roots_le h a S) as X. rewrite roots_cnt in X.
  pose proof (cnt_concat_nth e_mem (ems h) c e a He). nlia.
Qed.

Lemma sep_tr_nodup h k t : Sep h -> nth_error (trs h) k = Some t -> NoDup (tr_drops t).
Proof.
  intros S Ht. apply NoDup_cnt. intros a.
  pose proof (Sep_roots_le h a S) as X. rewrite roots_cnt in X.
  pose proof (cnt_concat_nth tr_drops (trs h) k t a Ht). nlia.
Qed.

(* ------------------------------------------------------------------------------------ *)
(* frames                                                                                 *)
(* ------------------------------------------------------------------------------------ *)

(* h' differs from h only by the content of the record of object l0 *)
Definition writes_only (h h' : heap) (l0 : loc) : Prop :=
  h' = h \/ exists s v, obj_of h l0 = Some s /\ h' = set_store h s v.

Lemma writes_only_tables h h' l0 : writes_only h h' l0 ->
  hnd h' = hnd h /\ ems h' = ems h /\ tcs h' = tcs h /\ trs h' = trs h /\ tlists h' = tlists h
  /\ tvars h' = tvars h /\ objs h' = objs h /\ arrs h' = arrs h /\ tls h' = tls h.
Proof. intros [->|(s & v & _ & ->)]; simpl; repeat split; auto. Qed.

Lemma writes_only_vals h h' l0 ls :
  NoDup (objs h) -> writes_only h h' l0 -> ~ In l0 ls -> abs_vals h' ls = abs_vals h ls.
Proof. intros N [->|(s & v & E & ->)] Hn; auto. eapply abs_vals_write_other; eauto. Qed.

Lemma writes_only_val h h' l0 l :
  NoDup (objs h) -> writes_only h h' l0 -> l <> l0 -> val_of h' l = val_of h l.
Proof. intros N [->|(s & v & E & ->)] Hn; auto. eapply val_of_write_other; eauto. Qed.

(* abs_tc only looks at the emulsions listed in the time course *)
Lemma tr_times_tables h h' t : tlists h' = tlists h -> tr_times h' t = tr_times h t.
Proof. intros E. unfold tr_times. apply tl_get_same; auto. Qed.
Lemma tc_times_tables h h' t : tlists h' = tlists h -> tc_times h' t = tc_times h t.
Proof. intros E. unfold tc_times. apply tl_get_same; auto. Qed.

Lemma abs_tc_frame h h' t :
  tcs h' = tcs h -> tlists h' = tlists h ->
  (forall tc c, nth_error (tcs h) t = Some tc -> In c (tc_ems tc) -> abs_em h' c = abs_em h c) ->
  abs_tc h' t = abs_tc h t.
Proof.
  intros E E' H. unfold abs_tc. rewrite E. destruct (nth_error (tcs h) t) as [tc|] eqn:Et; simpl; auto.
  f_equal. rewrite (tc_times_tables h h' tc E'). f_equal. apply map_ext_in. intros c Hc. eapply H; eauto.
Qed.

(* ------------------------------------------------------------------------------------ *)
(* noninterference theorems                                                              *)
(* ------------------------------------------------------------------------------------ *)

(* mutating through the caller's handle i leaves every collection and every other handle unchanged *)
Theorem noninterference_handle h i k q :
  wf h -> Sep h ->
  let h' := fst (exec h (OSetH i k q)) in
  (forall j, j <> i -> abs_hnd h' j = abs_hnd h j) /\
  (forall c, abs_em h' c = abs_em h c) /\
  (forall n, abs_tr h' n = abs_tr h n) /\
  (forall t, abs_tc h' t = abs_tc h t).
Proof.
  intros W S. simpl. unfold exec_seth.
  destruct (nth_error (hnd h) i) as [l0|] eqn:Ei; simpl; [|repeat split; auto].
  assert (WO : writes_only h (fst (write_loc h l0 k q)) l0).
  { destruct (write_loc_shape h l0 k q) as [E|(s & v & E1 & E2)]; [left; auto|right; eauto]. }
  destruct (writes_only_tables _ _ _ WO) as (T1 & T2 & T3 & T4 & T5 & _).
  destruct S as (S1 & S2 & S3). assert (S : Sep h) by (repeat split; auto).
  assert (EM : forall c, abs_em (fst (write_loc h l0 k q)) c = abs_em h c).
  { intros c. unfold abs_em. rewrite T2. destruct (nth_error (ems h) c) as [e|] eqn:Ee; simpl; auto.
    f_equal. eapply writes_only_vals; eauto. eapply sep_hnd_em; eauto. }
  repeat split; auto.
  - intros j Hj. unfold abs_hnd. rewrite T1. destruct (nth_error (hnd h) j) as [l|] eqn:Ej; auto.
    eapply writes_only_val; eauto. intros ->. apply Hj. eapply sep_hnd_hnd; eauto.
  - intros n. unfold abs_tr. rewrite T4. destruct (nth_error (trs h) n) as [t|] eqn:Et; simpl; auto.
    f_equal. rewrite (tr_times_tables h _ t T5). f_equal. eapply writes_only_vals; eauto. eapply sep_hnd_tr; eauto.
  - intros t. apply abs_tc_frame; auto.
Qed.

(* effect of a write through (an object that is) member i of emulsion c *)
Lemma member_write_frame h h' c e l0 :
  wf h -> Sep h -> nth_error (ems h) c = Some e -> In l0 (e_mem e) -> writes_only h h' l0 ->
  (forall j, abs_hnd h' j = abs_hnd h j) /\
  (forall c', c' <> c -> abs_em h' c' = abs_em h c') /\
  (forall n, abs_tr h' n = abs_tr h n) /\
  (forall t, (forall tc, nth_error (tcs h) t = Some tc -> ~ In c (tc_ems tc)) -> abs_tc h' t = abs_tc h t).
Proof.
  intros W S Ee Hin WO.
  destruct (writes_only_tables _ _ _ WO) as (T1 & T2 & T3 & T4 & T5 & _).
  destruct S as (S1 & S2 & S3). assert (S : Sep h) by (repeat split; auto).
  assert (EM : forall c', c' <> c -> abs_em h' c' = abs_em h c').
  { intros c' Hc. unfold abs_em. rewrite T2. destruct (nth_error (ems h) c') as [e'|] eqn:Ee'; simpl; auto.
    f_equal. eapply writes_only_vals; eauto. eapply (sep_em_em h c c'); eauto. }
  repeat split; auto.
  - intros j. unfold abs_hnd. rewrite T1. destruct (nth_error (hnd h) j) as [l|] eqn:Ej; auto.
    eapply writes_only_val; eauto. eapply sep_em_hnd; eauto.
  - intros n. unfold abs_tr. rewrite T4. destruct (nth_error (trs h) n) as [t|] eqn:Et; simpl; auto.
    f_equal. rewrite (tr_times_tables h _ t T5). f_equal. eapply writes_only_vals; eauto. eapply sep_em_tr; eauto.
  - intros t Ht. apply abs_tc_frame; auto. intros tc c' Etc Hc'. apply EM. intros ->.
    eapply Ht; eauto.
Qed.

(* mutating a member obtained by indexing leaves the caller's handles, all other emulsions,
   all tracks, and all time courses not holding that emulsion unchanged *)
Theorem noninterference_member h c i k q :
  wf h -> Sep h ->
  let h' := fst (exec h (OSetM c i k q)) in
  (forall j, abs_hnd h' j = abs_hnd h j) /\
  (forall c', c' <> c -> abs_em h' c' = abs_em h c') /\
  (forall n, abs_tr h' n = abs_tr h n) /\
  (forall t, (forall tc, nth_error (tcs h) t = Some tc -> ~ In c (tc_ems tc)) -> abs_tc h' t = abs_tc h t).
Proof.
  intros W S. simpl. unfold exec_setm.
  destruct (nth_error (ems h) c) as [e|] eqn:Ee; simpl; [|repeat split; auto].
  destruct (nth_error (e_mem e) i) as [l0|] eqn:Ei; simpl; [|repeat split; auto].
  eapply member_write_frame; eauto.
  - eapply nth_error_In; eauto.
  - destruct (write_loc_shape h l0 k q) as [E|(s & v & E1 & E2)]; [left; auto|right; eauto].
Qed.

(* the same for an in-place merge of two members *)
Theorem noninterference_merge h c i j v :
  wf h -> Sep h ->
  let h' := fst (exec h (OMerge c i j true v)) in
  (forall n, abs_hnd h' n = abs_hnd h n) /\
  (forall c', c' <> c -> abs_em h' c' = abs_em h c') /\
  (forall n, abs_tr h' n = abs_tr h n) /\
  (forall t, (forall tc, nth_error (tcs h) t = Some tc -> ~ In c (tc_ems tc)) -> abs_tc h' t = abs_tc h t).
Proof.
  intros W S. simpl. unfold exec_merge.
  destruct (nth_error (ems h) c) as [e|] eqn:Ee; simpl; [|repeat split; auto].
  destruct (nth_error (e_mem e) i) as [li|] eqn:Ei; simpl; [|repeat split; auto].
  destruct (nth_error (e_mem e) j) as [lj|] eqn:Ej; simpl; [|repeat split; auto].
  destruct (obj_of h li) as [s|] eqn:Es; simpl; [|repeat split; auto].
  destruct (val_of h li); simpl; [|repeat split; auto].
  destruct (val_of h lj); simpl; [|repeat split; auto].
  eapply (member_write_frame h _ c e li); eauto.
  - eapply nth_error_In; eauto.
  - right; eauto.
Qed.

(* a write through a linked array reaches at most one droplet object; everything that does not
   contain that object is unchanged -- in particular at most one of any two emulsions changes *)
Theorem noninterference_array h a r k q :
  wf h -> Sep h ->
  let h' := fst (exec h (OWriteA a r k q)) in
  exists owner : option loc,
    forall ls, match owner with Some l0 => ~ In l0 ls | None => True end -> abs_vals h' ls = abs_vals h ls.
Proof.
  intros W (S1 & S2 & S3). simpl. unfold exec_writea.
  destruct (nth_error (arrs h) a) as [rows|]; simpl; [|exists None; auto].
  destruct (nth_error rows r) as [s|]; simpl; [|exists None; auto].
  destruct (write_sloc_shape h s k q) as [->|[v' ->]]; [exists None; auto|].
  (* is there an object pointing to s? *)
  assert (D : (exists l0, obj_of h l0 = Some s) \/ (forall l, obj_of h l <> Some s)).
  { unfold obj_of. clear. induction (objs h) as [|o os IH] using rev_ind.
    - right. intros [|l]; simpl; discriminate.
    - destruct IH as [[l0 H]|H].
      + left. exists l0. rewrite nth_error_app1; auto. eapply nth_error_Some_lt; eauto.
      + destruct (Nat.eq_dec o s) as [->|Hne].
        * left. exists (length os). rewrite nth_error_app2 by lia. rewrite Nat.sub_diag. reflexivity.
        * right. intros l Hl. destruct (Nat.lt_ge_cases l (length os)).
          -- rewrite nth_error_app1 in Hl by auto. eapply H; eauto.
          -- rewrite nth_error_app2 in Hl by auto. destruct (l - length os) as [|n]; simpl in Hl.
             ++ inversion Hl. congruence.
             ++ destruct n; discriminate. }
  destruct D as [[l0 E]|Hn].
  - exists (Some l0). intros ls Hls. eapply abs_vals_write_other; eauto.
  - exists None. intros ls _. apply abs_vals_ext. intros l _. apply val_of_write_unowned; auto.
Qed.

Corollary array_write_one_emulsion h a r k q c1 c2 :
  wf h -> Sep h -> c1 <> c2 ->
  let h' := fst (exec h (OWriteA a r k q)) in
  abs_em h' c1 = abs_em h c1 \/ abs_em h' c2 = abs_em h c2.
Proof.
  intros W S Hne. simpl.
  destruct (noninterference_array h a r k q W S) as [[l0|] H]; simpl in H.
  - assert (T : ems (fst (exec_writea h a r k q)) = ems h).
    { unfold exec_writea, write_sloc. dm; reflexivity. }
    unfold abs_em. rewrite T.
    destruct (nth_error (ems h) c1) as [e1|] eqn:E1; simpl; auto.
    destruct (nth_error (ems h) c2) as [e2|] eqn:E2; simpl; auto.
    destruct (in_dec Nat.eq_dec l0 (e_mem e1)) as [Hin|Hnin].
    + right. f_equal. apply H. eapply sep_em_em; eauto.
    + left. f_equal. apply H. exact Hnin.
  - left. assert (T : ems (fst (exec_writea h a r k q)) = ems h).
    { unfold exec_writea, write_sloc. dm; reflexivity. }
    unfold abs_em. rewrite T. destruct (nth_error (ems h) c1); simpl; auto. f_equal. apply H. exact I.
Qed.

(* ------------------------------------------------------------------------------------ *)
(* insertion with default flags                                                          *)
(* ------------------------------------------------------------------------------------ *)

(* Emulsion.append(d) with copy=True on ANY well-formed heap: the stored member is a new object
   with a new record that nothing else reaches, holding the value of the caller's droplet *)
Theorem default_insert_separates h c i f h' e l :
  wf h -> nth_error (ems h) c = Some e -> nth_error (hnd h) i = Some l ->
  exec h (OAppend c i true f) = (h', Ok) ->
  let l' := length (objs h) in let s' := length (store h) in
  (exists d, nth_error (ems h') c = Some (mkE d (e_mem e ++ [l']))) /\
  obj_of h' l' = Some s' /\
  val_of h' l' = val_of h l /\
  ~ In l' (roots h) /\
  (forall l1, In l1 (roots h) -> obj_of h' l1 = obj_of h l1 /\ obj_of h' l1 <> Some s') /\
  (forall rows, In rows (arrs h') -> ~ In s' rows).
Proof.
  intros W Ee Ei. simpl. unfold exec_append. rewrite Ei. unfold append_loc. rewrite Ee.
  destruct (val_of_ok h l W (wf_hnd_lt _ _ _ W Ei)) as [v Hv]. rewrite Hv. unfold em_add.
  destruct (rejects e v f); [discriminate|]. intros X. inversion X; subst h'. clear X.
  assert (Hc : c < length (ems h)) by (eapply nth_error_Some_lt; eauto).
  split; [|split; [|split; [|split; [|split]]]].
  - eexists. hs. rewrite nth_error_upd_eq by (exact Hc). reflexivity.
  - unfold obj_of; hs. rewrite nth_error_app2 by lia. rewrite Nat.sub_diag. reflexivity.
  - unfold val_of, obj_of; hs. rewrite nth_error_app2 by lia. rewrite Nat.sub_diag. simpl.
    rewrite nth_error_app2 by lia. rewrite Nat.sub_diag. simpl. reflexivity.
  - intros Hin. pose proof (roots_lt h W) as R. rewrite Forall_forall in R. apply R in Hin. lia.
  - intros l1 Hin. pose proof (roots_lt h W) as R. rewrite Forall_forall in R. apply R in Hin.
    unfold obj_of; hs. rewrite nth_error_app1 by exact Hin. split; auto.
    intros Y. pose proof (Forall_nth_error _ _ _ _ (wf_objs _ W) Y) as Z. simpl in Z. lia.
  - intros rows Hin Hs. hs.
    pose proof (wf_arrs _ W) as A. rewrite Forall_forall in A. apply A in Hin.
    rewrite Forall_forall in Hin. apply Hin in Hs. lia.
Qed.

(* under Sep no record is reachable both from a caller handle and from a collection *)
Theorem sep_handles_disjoint h i l c e m :
  wf h -> Sep h -> nth_error (hnd h) i = Some l -> nth_error (ems h) c = Some e -> In m (e_mem e) ->
  obj_of h l <> obj_of h m.
Proof.
  intros W S Hi He Hm Heq.
  assert (Hl : l < length (objs h)) by (eapply wf_hnd_lt; eauto).
  destruct (obj_of_ok h l Hl) as [s Hs].
  assert (l = m). { destruct S as (S1 & _). eapply obj_inj; eauto. congruence. }
  subst m. eapply sep_hnd_em; eauto.
Qed.

Theorem sep_handles_disjoint_track h i l k t m :
  wf h -> Sep h -> nth_error (hnd h) i = Some l -> nth_error (trs h) k = Some t -> In m (tr_drops t) ->
  obj_of h l <> obj_of h m.
Proof.
  intros W S Hi Ht Hm Heq.
  assert (Hl : l < length (objs h)) by (eapply wf_hnd_lt; eauto).
  destruct (obj_of_ok h l Hl) as [s Hs].
  assert (l = m). { destruct S as (S1 & _). eapply obj_inj; eauto. congruence. }
  subst m. eapply sep_hnd_tr; eauto.
Qed.

(* copies, slices, sums and time-course snapshots are independent of their source:
   the new emulsion is number [length (ems h)]; mutating a member of the source leaves the new
   one unchanged and vice versa *)
Definition makes_emulsion (o : op) : bool :=
  match o with
  | OCopy _ _ | OSlice _ _ _ | OAdd _ _ | OTcAppend _ _ _ _ => true
  | OEmClone _ | OSel _ _ | OEmCtor _ _ true _ => true
  | _ => false
  end.

Theorem copies_independent h o c i k q :
  wf h -> Sep h -> makes_emulsion o = true -> c < length (ems h) ->
  let h1 := fst (exec h o) in
  let c' := length (ems h) in
  abs_em (fst (exec h1 (OSetM c i k q))) c' = abs_em h1 c' /\
  abs_em (fst (exec h1 (OSetM c' i k q))) c = abs_em h1 c.
Proof.
  intros W S Ho Hc. intros h1 c'.
  assert (W1 : wf h1) by (apply wf_step; auto).
  assert (S1 : Sep h1).
  { apply Sep_step; auto. destruct o; simpl in *; auto; try discriminate. destruct copy; auto. }
  split.
  - apply (noninterference_member h1 c i k q W1 S1). unfold c'. lia.
  - apply (noninterference_member h1 c' i k q W1 S1). unfold c'. lia.
Qed.

(* mutating the caller's droplet after a default insert does not change the collection, and
   mutating the stored member does not change the caller's droplet *)
Theorem insert_then_mutate_independent h c i f k q j n :
  wf h -> Sep h ->
  let h1 := fst (exec h (OAppend c i true f)) in
  abs_em (fst (exec h1 (OSetH i k q))) c = abs_em h1 c /\
  abs_hnd (fst (exec h1 (OSetM c j k q))) n = abs_hnd h1 n.
Proof.
  intros W S h1.
  assert (W1 : wf h1) by (apply wf_step; auto).
  assert (S1 : Sep h1) by (apply Sep_step; auto).
  split.
  - apply (noninterference_handle h1 i k q W1 S1).
  - apply (noninterference_member h1 c j k q W1 S1).
Qed.

(* a slice / copy of a time course shares no emulsion with its source *)
Theorem tc_slice_independent h t lo hi h' tc tc' :
  wf h -> Sep h -> exec h (OTcSlice t lo hi) = (h', Ok) ->
  nth_error (tcs h') t = Some tc -> nth_error (tcs h') (length (tcs h)) = Some tc' ->
  forall c, In c (tc_ems tc) -> ~ In c (tc_ems tc').
Proof.
  intros W S E Et Et' c Hc Hc'.
  assert (S' : Sep h'). { pose proof (Sep_step h (OTcSlice t lo hi) W S eq_refl) as X. rewrite E in X. exact X. }
  destruct S' as (_ & _ & S3). rewrite NoDup_cnt in S3. specialize (S3 c).
  assert (Hne : t <> length (tcs h)).
  { simpl in E. unfold exec_tcslice in E. destruct (nth_error (tcs h) t) eqn:X; [|inversion E].
    apply nth_error_Some_lt in X. lia. }
  pose proof (cnt_concat_nth2 tc_ems (tcs h') t (length (tcs h)) tc tc' c Hne Et Et').
  pose proof (cnt_In _ c Hc). pose proof (cnt_In _ c Hc'). nlia.
Qed.
