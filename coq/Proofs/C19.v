(* C19 -- the requested droplet model determines the class and shape of every result. *)
From Coq Require Import QArith ZArith List Bool Lia.
Import ListNotations.
From PD Require Import Gen.Gen_analysis Model.Request.

(* the class table of the property, for every dimension in 1..3 *)
Lemma class_table dim cyl w m : (1 <= dim <= 3)%Z ->
  modes_guard dim m = false ->
  class_unrefined dim cyl w m =
    if m then (if Z.eqb dim 2 then P2D else if cyl then P3DAxi else P3D)
    else if w then Diffuse else Spherical.
Proof.
  intros Hd Hg. unfold class_unrefined, modes_guard in *.
  destruct m; [|reflexivity].
  destruct (Z.eqb_spec dim 2) as [->|H2]; [reflexivity|].
  destruct (Z.eqb_spec dim 3) as [->|H3]; [reflexivity|].
  simpl in Hg. discriminate.
Qed.

Lemma guard_table dim m : (1 <= dim <= 3)%Z ->
  modes_guard dim m = true <-> (m = true /\ dim = 1%Z).
Proof.
  intros Hd. unfold modes_guard. destruct m; simpl.
  - destruct (Z.eqb_spec dim 2); destruct (Z.eqb_spec dim 3); simpl; split; intros H; try discriminate;
      try (destruct H; lia); try (split; [reflexivity|lia]); try reflexivity.
  - split; [discriminate|intros [H _]; discriminate].
Qed.

Lemma refined_table c : class_refined c = match c with Spherical => Diffuse | c' => c' end.
Proof. reflexivity. Qed.

Lemma refined_has_width c : has_width (class_refined c) = true.
Proof. destruct c; reflexivity. Qed.

(* final class = the table of the property *)
Lemma final_class_table r : (1 <= rq_dim r <= 3)%Z -> modes_guard (rq_dim r) (modes_pos r) = false ->
  final_class r =
    if modes_pos r then (if Z.eqb (rq_dim r) 2 then P2D else if rq_cyl r then P3DAxi else P3D)
    else if width_given r || rq_refine r then Diffuse else Spherical.
Proof.
  intros Hd Hg. unfold final_class. rewrite (class_table _ _ _ _ Hd Hg).
  destruct (modes_pos r); destruct (rq_refine r); destruct (width_given r);
    try reflexivity; destruct (Z.eqb (rq_dim r) 2); try reflexivity; destruct (rq_cyl r); reflexivity.
Qed.

(* every unrefined result has the requested class, exactly the requested number of (zero)
   amplitudes, carries the supplied width, keeps position and radius *)
Lemma convert_spec r pos radius :
  let d := convert r pos radius in
  d_cls d = class_unrefined (rq_dim r) (rq_cyl r) (width_given r) (modes_pos r) /\
  d_pos d = pos /\ d_radius d = radius /\
  (has_ampl (d_cls d) = true -> length (d_ampl d) = Z.to_nat (rq_modes r)) /\
  (has_width (d_cls d) = true -> d_width d = rq_width r).
Proof.
  cbv zeta. unfold convert. simpl. repeat split.
  - intros H. rewrite H. unfold amplitude_count. apply repeat_length.
  - intros H. rewrite H. reflexivity.
Qed.

Lemma width_class_carries r : width_given r = true ->
  has_width (class_unrefined (rq_dim r) (rq_cyl r) (width_given r) (modes_pos r)) = true.
Proof.
  intros H. rewrite H. unfold class_unrefined.
  destruct (modes_pos r); [|reflexivity].
  destruct (Z.eqb (rq_dim r) 2); [reflexivity|]. destruct (Z.eqb (rq_dim r) 3); [|reflexivity].
  destruct (rq_cyl r); reflexivity.
Qed.

Lemma modes_class_has_ampl r : (2 <= rq_dim r <= 3)%Z -> modes_pos r = true ->
  has_ampl (class_unrefined (rq_dim r) (rq_cyl r) (width_given r) (modes_pos r)) = true.
Proof.
  intros Hd H. rewrite H. unfold class_unrefined.
  destruct (Z.eqb_spec (rq_dim r) 2); [reflexivity|].
  destruct (Z.eqb_spec (rq_dim r) 3); [destruct (rq_cyl r); reflexivity|lia].
Qed.

(* one data layout per result: all droplets share class, dimension (when the candidates do),
   amplitude count and width presence *)
Definition layout (d : droplet) : dclass * nat * nat * bool :=
  (d_cls d, length (d_pos d), length (d_ampl d), match d_width d with Some _ => true | None => false end).

Lemma uniform_layout r cands ds dim :
  locate_unrefined r cands = Located ds ->
  (forall c, In c cands -> length (fst c) = dim) ->
  forall d1 d2, In d1 ds -> In d2 ds -> layout d1 = layout d2 /\ length (d_pos d1) = dim.
Proof.
  unfold locate_unrefined. destruct (modes_guard _ _); [discriminate|]. intros [= <-] Hdim d1 d2 H1 H2.
  apply in_map_iff in H1. apply in_map_iff in H2.
  destruct H1 as (c1 & <- & Hc1). destruct H2 as (c2 & <- & Hc2).
  unfold layout, convert. simpl. rewrite (Hdim c1 Hc1), (Hdim c2 Hc2). split; reflexivity.
Qed.

Lemma located_count r cands ds : locate_unrefined r cands = Located ds -> length ds = length cands.
Proof.
  unfold locate_unrefined. destruct (modes_guard _ _); [discriminate|]. intros [= <-]. apply map_length.
Qed.
