(* Spectrum, part 6: a second executable instance of the oracle specification, on the shapes (2,), (4,) and
   (2,2).  On (2,2) the axis-transposition premise is witnessed non-trivially (X'(k1,k2) = X(k2,k1)). *)
From Coq Require Import Reals Lra List ZArith Lia Bool Arith.
Import ListNotations.
From PD Require Import Model.Spectrum Proofs.SpectrumDFT4.
Local Open Scope R_scope.

Lemma sqrt2_sq : sqrt 2 * sqrt 2 = 2.
Proof. apply sqrt_sqrt. lra. Qed.

Lemma sqrt2_neq0 : sqrt 2 <> 0.
Proof. intros Z. pose proof sqrt2_sq as H. rewrite Z in H. lra. Qed.

Lemma all_idx_2 : all_idx [2%nat] = [[0%nat]; [1%nat]].
Proof. reflexivity. Qed.

Lemma all_idx_22 : all_idx [2%nat; 2%nat] = [[0; 0]; [0; 1]; [1; 0]; [1; 1]]%nat.
Proof. reflexivity. Qed.

Lemma small_4 ortho x k : dft_small ortho [4%nat] x k = dft4 ortho [4%nat] x k.
Proof. reflexivity. Qed.

Ltac two_modes Hk :=
  rewrite all_idx_2 in Hk; simpl in Hk; destruct Hk as [Hk|[Hk|[]]]; subst.
Ltac four_modes22 Hk :=
  rewrite all_idx_22 in Hk; simpl in Hk; destruct Hk as [Hk|[Hk|[Hk|[Hk|[]]]]]; subst.
Ltac dom_cases Hd := unfold dom_small in Hd; destruct Hd as [Hd|[Hd|Hd]]; subst.

Lemma mod2_cases a : (a mod 2 = 0 \/ a mod 2 = 1)%nat.
Proof. pose proof (Nat.mod_upper_bound a 2 ltac:(lia)). lia. Qed.

Lemma add_mod2 m a : ((m + a) mod 2 = (m + a mod 2) mod 2)%nat.
Proof. symmetry. apply Nat.add_mod_idemp_r. lia. Qed.

Lemma small_parseval : dft_parseval dom_small dft_small.
Proof.
  intros shape x Hd. dom_cases Hd.
  - rewrite all_idx_2. unfold sum_over, rsum, cabs2, dft_small, dft2. simpl.
    pose proof sqrt2_neq0. pose proof sqrt2_sq as S.
    replace (/ sqrt 2 * (x [0%nat] + x [1%nat]) * (/ sqrt 2 * (x [0%nat] + x [1%nat])))
      with ((x [0%nat] + x [1%nat]) ^ 2 / (sqrt 2 * sqrt 2)) by (field; assumption).
    replace (/ sqrt 2 * (x [0%nat] - x [1%nat]) * (/ sqrt 2 * (x [0%nat] - x [1%nat])))
      with ((x [0%nat] - x [1%nat]) ^ 2 / (sqrt 2 * sqrt 2)) by (field; assumption).
    rewrite S. field.
  - apply (dft4_parseval [4%nat] x). reflexivity.
  - rewrite all_idx_22. unfold sum_over, rsum, cabs2, dft_small, dft22. simpl. field.
Qed.

Lemma small_zero_mode : dft_zero_mode dom_small dft_small.
Proof.
  intros shape x Hd. dom_cases Hd.
  - unfold size_of. rewrite all_idx_2. unfold sum_over, rsum, dft_small, dft2. simpl.
    replace (1 + 1) with 2 by ring. f_equal. unfold Rdiv. ring.
  - apply (dft4_zero_mode [4%nat] x). reflexivity.
  - unfold size_of. rewrite all_idx_22. unfold sum_over, rsum, dft_small, dft22. simpl.
    replace (1 + 1 + 1 + 1) with 4 by ring. rewrite sqrt_4. f_equal. field.
Qed.

Lemma small_homogeneous : dft_homogeneous dom_small dft_small.
Proof.
  intros shape c x k Hd Hk. dom_cases Hd.
  - two_modes Hk; unfold cabs2, dft_small, dft2; simpl; ring.
  - apply (dft4_homogeneous [4%nat] c x k); [reflexivity|exact Hk].
  - four_modes22 Hk; unfold cabs2, dft_small, dft22; simpl; ring.
Qed.

Lemma small_shift : dft_shift dom_small dft_small.
Proof.
  intros shape s x k Hd Hk. dom_cases Hd.
  - destruct s as [|a s]; [reflexivity|].
    assert (Hm : forall m, shift_idx [2%nat] (a :: s) [m] = [((m + a mod 2) mod 2)%nat])
      by (intros m; cbn [shift_idx]; f_equal; apply add_mod2).
    unfold cabs2, dft_small, dft2. rewrite !Hm. clear Hm.
    destruct (mod2_cases a) as [E|E]; rewrite E; two_modes Hk; simpl; ring.
  - apply (dft4_shift [4%nat] s x k); [reflexivity|exact Hk].
  - destruct s as [|a [|b s]].
    + reflexivity.
    + assert (Hm : forall m1 m2, shift_idx [2%nat; 2%nat] [a] [m1; m2] = [((m1 + a mod 2) mod 2)%nat; m2])
        by (intros m1 m2; cbn [shift_idx]; f_equal; apply add_mod2).
      unfold cabs2, dft_small, dft22. rewrite !Hm. clear Hm.
      destruct (mod2_cases a) as [E|E]; rewrite E; four_modes22 Hk; simpl; ring.
    + assert (Hm : forall m1 m2, shift_idx [2%nat; 2%nat] (a :: b :: s) [m1; m2] =
                                 [((m1 + a mod 2) mod 2)%nat; ((m2 + b mod 2) mod 2)%nat])
        by (intros m1 m2; cbn [shift_idx]; f_equal; [apply add_mod2|f_equal; apply add_mod2]).
      unfold cabs2, dft_small, dft22. rewrite !Hm. clear Hm.
      destruct (mod2_cases a) as [E|E]; destruct (mod2_cases b) as [E'|E']; rewrite E, E';
        four_modes22 Hk; simpl; ring.
Qed.

Lemma small_reflect : dft_reflect dom_small dft_small.
Proof.
  intros shape ax x k Hd Hk. dom_cases Hd.
  - destruct ax as [|ax]; two_modes Hk; unfold cabs2, dft_small, dft2; simpl; try ring;
      destruct ax; simpl; ring.
  - apply (dft4_reflect [4%nat] ax x k); [reflexivity|exact Hk].
  - destruct ax as [|[|ax]]; four_modes22 Hk; unfold cabs2, dft_small, dft22; simpl; try ring;
      destruct ax; simpl; ring.
Qed.

Lemma swap_at_pair {A} i (a b : A) : swap_at (S i) [a; b] = [a; b].
Proof. cbn [swap_at]. rewrite swap_at_single. reflexivity. Qed.

Lemma small_axis_swap : dft_axis_swap dom_small dft_small.
Proof.
  intros shape i x k Hd _ Hk. dom_cases Hd.
  - rewrite swap_at_single in *. two_modes Hk; unfold cabs2, dft_small, dft2; rewrite !swap_at_single; reflexivity.
  - rewrite swap_at_single in *. four_modes Hk; unfold cabs2, dft_small, dft4; rewrite !swap_at_single; reflexivity.
  - destruct i as [|i].
    + cbn [swap_at] in *. four_modes22 Hk; unfold cabs2, dft_small, dft22; cbn [swap_at fst snd]; ring.
    + rewrite swap_at_pair in *. four_modes22 Hk; unfold cabs2, dft_small, dft22; rewrite !swap_at_pair; reflexivity.
Qed.

Theorem dft_small_spec : dft_spec dom_small dft_small.
Proof.
  repeat split; [apply small_parseval|apply small_zero_mode|apply small_homogeneous|apply small_shift
                 |apply small_reflect|apply small_axis_swap].
Qed.

Lemma dft_small_cosine : dft_cosine dom_small dft_small.
Proof.
  intros N q A phi c Hd Hq1 Hq4. unfold dom_small in Hd. destruct Hd as [Hd|[Hd|Hd]]; try discriminate.
  - injection Hd as ->. lia.
  - injection Hd as ->. apply (dft4_cosine 4%nat q A phi c); [reflexivity|exact Hq1|exact Hq4].
Qed.

(* the transposition premise is not vacuous on (2,2): there is a field whose transform changes under it *)
Lemma dft_small_swap_nontrivial :
  exists x, dft_small true [2%nat; 2%nat] (fun n => x (swap_at 0 n)) [0%nat; 1%nat] <>
            dft_small true [2%nat; 2%nat] x [0%nat; 1%nat].
Proof.
  exists (fun n => match n with [0%nat; 1%nat] => 1 | _ => 0 end).
  unfold dft_small, dft22. cbn [swap_at]. intros E. injection E as E. lra.
Qed.
