(* C01 geometry, part 6: a digitised ball on a grid with periodic axes is connected on the torus.
   Precondition per axis (tfits1): periodic axis  ->  2 r <= L  (the ball is narrower than the period;
   the centre may lie anywhere, also outside the box); non-periodic axis  ->  the sphere fits in the box.
   Method: the infinite lattice of the grid with all periodicity flags cleared (unper g) carries the
   lifted ball { j | sum (centre_k(j_k) - c_k)^2 < r^2 }.  The projection  proj  (index modulo N along
   periodic axes) maps it onto the torus ball (proj_d2: same squared distance, because a difference
   smaller than L/2 is its own wrapped representative; lift_exists: onto), every lifted cell walks to
   the hub floor(gamma) (path_to_centre_free, the argument of Proofs/BallConn.v without the box), and a
   face step of the lattice projects to a face step or a periodic wrap pair (proj_step).
     ball_torus_connected : any two cells of the torus ball are connT-connected (face steps + wrap pairs). *)
From Coq Require Import QArith Qabs Qround ZArith List Arith Bool Lia Lqa Setoid Morphisms.
Import ListNotations.
From PD Require Import Model.Grid Model.Render Model.MergeLoop Model.Locate Model.Ball
  Proofs.Render Proofs.MergeLoop Proofs.Components Proofs.LocateCart
  Proofs.BallRow Proofs.BallCentroid Proofs.BallSep Proofs.BallConn.
Local Open Scope Q_scope.

Local Notation in_rangeL := LocateCart.in_range.

(* ---- the grid with the periodicity flags cleared ---- *)
Definition unper1 (a : axis) : axis := {| ncell := ncell a; alo := alo a; ahi := ahi a; aper := false |}.
Definition unper (g : grid) : grid := map unper1 g.

Lemma unper_nonper g : nonper (unper g).
Proof. unfold nonper, unper. induction g as [|a g IH]; cbn [map]; constructor; [reflexivity|exact IH]. Qed.

Lemma unper_ok g : grid_ok g -> grid_ok (unper g).
Proof.
  unfold grid_ok, unper. intros H. induction H as [|a g Ha _ IH]; cbn [map]; constructor; [exact Ha|exact IH].
Qed.

Lemma unper_length g : length (unper g) = length g.
Proof. apply map_length. Qed.

(* index modulo N along periodic axes *)
Fixpoint proj (g : grid) (j : cell) : cell :=
  match g, j with
  | a :: g', i :: j' => (if aper a then (i mod ncell a)%Z else i) :: proj g' j'
  | _, _ => []
  end.

(* precondition *)
Definition tfits1 (a : axis) (x r : Q) : Prop := if aper a then 2 * r <= asize a else fits1 a x r.
Definition tfits (g : grid) (c : list Q) (r : Q) : Prop := Forall2 (fun a x => tfits1 a x r) g c.

Lemma tfits_length g c r : tfits g c r -> length c = length g.
Proof. intros H. induction H as [|a x g c _ _ IH]; cbn [length]; congruence. Qed.

(* ---- squared distances, one axis at a time ---- *)
Lemma d2cell_cons_gen a g x c i t :
  d2cell (a :: g) (x :: c) (i :: t)
  = diff1 a x (centre1 a i) * diff1 a x (centre1 a i) + d2cell g c t.
Proof. reflexivity. Qed.

Lemma d2cell_cons_unper a g x c i t :
  d2cell (unper (a :: g)) (x :: c) (i :: t)
  = (centre1 a i - x) * (centre1 a i - x) + d2cell (unper g) c t.
Proof. reflexivity. Qed.

Lemma wrap1_small L d : 0 < L -> - L <= 2 * d -> 2 * d < L -> wrap1 L d == d.
Proof.
  intros HL H1 H2. unfold wrap1, Qmod.
  assert (EL : L / 2 == (1 # 2) * L) by field.
  assert (E0 : Qfloor ((d + L / 2) / L) = 0%Z).
  { apply Qfloor_unique.
    - change (inject_Z 0) with 0. apply Qle_shift_div_l; [exact HL|]. rewrite EL. lra.
    - change (inject_Z (0 + 1)) with 1. apply Qlt_shift_div_r; [exact HL|]. rewrite EL. lra. }
  rewrite E0. change (inject_Z 0) with 0. ring.
Qed.

Lemma centre1_mod a i : (0 < ncell a)%Z ->
  centre1 a (i mod ncell a) == centre1 a i + inject_Z (- (i / ncell a)) * asize a.
Proof.
  intros HN. pose proof (ncell_adisc a HN) as HL.
  assert (E : (i mod ncell a = i - ncell a * (i / ncell a))%Z).
  { pose proof (Z.div_mod i (ncell a)). lia. }
  rewrite E. unfold centre1. rewrite <- HL.
  rewrite inject_Z_opp. unfold Zminus. rewrite !inject_Z_plus, !inject_Z_opp, inject_Z_mult. ring.
Qed.

Lemma sq_lt_abs d r : 0 <= r -> d * d < r * r -> - r < d /\ d < r.
Proof. intros Hr H. split; nra. Qed.

(* a lifted cell of the ball projects to a cell with the same (wrapped) offset *)
Lemma diff1_proj_small a x r i : axis_ok a -> aper a = true -> 0 <= r -> 2 * r <= asize a ->
  (centre1 a i - x) * (centre1 a i - x) < r * r ->
  diff1 a x (centre1 a (i mod ncell a)) == centre1 a i - x.
Proof.
  intros [HN Hlh] Hper Hr HL Hd. unfold diff1. rewrite Hper.
  assert (HLpos : 0 < asize a) by (unfold asize; lra).
  rewrite (wrap1_comp (asize a) (centre1 a (i mod ncell a) - x)
             ((centre1 a i - x) + inject_Z (- (i / ncell a)) * asize a)).
  2:{ rewrite (centre1_mod a i HN). ring. }
  rewrite wrap1_add_period by exact HLpos.
  destruct (sq_lt_abs _ r Hr Hd) as [H1 H2].
  apply wrap1_small; [exact HLpos|lra|lra].
Qed.

(* ---- the projection preserves the squared distance on the lifted ball and lands in the box ---- *)
Lemma proj_d2 : forall g c r, grid_ok g -> tfits g c r -> 0 <= r -> forall j,
  length j = length g -> d2cell (unper g) c j < r * r ->
  d2cell g c (proj g j) == d2cell (unper g) c j /\ in_rangeL (gshape g) (proj g j).
Proof.
  intros g c r Hok Hfit Hr. induction Hfit as [|a x g c Ha Hfit IH]; intros j Hlen Hd.
  - destruct j; [|discriminate Hlen]. split; [reflexivity|constructor].
  - destruct j as [|i t]; [discriminate Hlen|]. cbn [length] in Hlen. injection Hlen as Hlen.
    unfold grid_ok in Hok. inversion Hok as [|a' g' Hoka Hok']; subst a' g'.
    rewrite d2cell_cons_unper in Hd.
    pose proof (d2cell_nonneg (unper g) c t) as Ht.
    assert (Hsq : 0 <= (centre1 a i - x) * (centre1 a i - x)).
    { generalize (centre1 a i - x). intros z. nra. }
    destruct (IH Hok' t Hlen) as [IH1 IH2]; [lra|].
    assert (Hhead : (centre1 a i - x) * (centre1 a i - x) < r * r) by lra.
    rewrite d2cell_cons_unper. cbn [proj]. unfold gshape. cbn [map]. fold (gshape g).
    unfold tfits1 in Ha. destruct (aper a) eqn:Hper.
    + rewrite d2cell_cons_gen, IH1, (diff1_proj_small a x r i Hoka Hper Hr Ha Hhead).
      split; [reflexivity|]. apply in_range_cons; [|exact IH2].
      apply Z.mod_pos_bound. exact (proj1 Hoka).
    + rewrite d2cell_cons_gen, IH1. unfold diff1. rewrite Hper.
      split; [reflexivity|]. apply in_range_cons; [|exact IH2].
      apply (row_in_box a x r i Hoka Hr Ha). rewrite <- (centre1_rowoff a x i Hoka). exact Hhead.
Qed.

Lemma proj_length : forall g j, length j = length g -> length (proj g j) = length g.
Proof.
  induction g as [|a g IH]; intros [|i j] H; cbn [length] in *; try discriminate H; cbn [proj length]; [reflexivity|].
  rewrite IH by lia. reflexivity.
Qed.

Lemma proj_nth : forall g j k a, length j = length g -> nth_error g k = Some a ->
  nth k (proj g j) 0%Z = if aper a then (nth k j 0 mod ncell a)%Z else nth k j 0%Z.
Proof.
  induction g as [|b g IH]; intros [|i j] [|k] a Hl Hk; cbn [length nth_error] in *; try discriminate;
    cbn [proj nth].
  - injection Hk as ->. reflexivity.
  - apply IH; [lia|exact Hk].
Qed.

Lemma proj_nth_eq : forall g j j' k, length j = length g -> length j' = length g ->
  nth k j 0%Z = nth k j' 0%Z -> nth k (proj g j) 0%Z = nth k (proj g j') 0%Z.
Proof.
  induction g as [|b g IH]; intros [|i j] [|i' j'] k Hl Hl' E; cbn [length] in *; try discriminate;
    cbn [proj]; [reflexivity|].
  destruct k as [|k]; cbn [nth] in *; [rewrite E; reflexivity|]. apply IH; [lia|lia|exact E].
Qed.

(* ---- every torus cell has a lift with the same squared distance ---- *)
Lemma lift_exists : forall g c, grid_ok g -> length c = length g -> forall idx,
  in_rangeL (gshape g) idx ->
  exists j, proj g j = idx /\ length j = length g /\ d2cell (unper g) c j == d2cell g c idx.
Proof.
  induction g as [|a g IH]; intros c Hok Hlen idx Hr.
  - unfold gshape in Hr. cbn [map] in Hr. inversion Hr. exists []. split; [reflexivity|]. split; reflexivity.
  - destruct c as [|x c]; [discriminate Hlen|]. cbn [length] in Hlen. injection Hlen as Hlen.
    unfold grid_ok in Hok. inversion Hok as [|a' g' Hoka Hok']; subst a' g'.
    unfold gshape in Hr. cbn [map] in Hr. fold (gshape g) in Hr.
    apply in_range_cons_inv in Hr. destruct Hr as (i & t & -> & Hi & Ht).
    destruct (IH c Hok' Hlen t Ht) as (jt & Ejt & Hljt & Hdt).
    destruct Hoka as [HN Hlh]. pose proof (ncell_adisc a HN) as HL.
    destruct (aper a) eqn:Hper.
    + set (d := centre1 a i - x). set (m := Qfloor ((d + asize a / 2) / asize a)).
      exists ((i - m * ncell a)%Z :: jt). split; [|split].
      * cbn [proj]. rewrite Hper, Ejt. f_equal.
        replace (i - m * ncell a)%Z with (i + (- m) * ncell a)%Z by ring.
        rewrite Z_mod_plus_full. apply Z.mod_small. exact Hi.
      * cbn [length]. rewrite Hljt. reflexivity.
      * rewrite d2cell_cons_unper, d2cell_cons_gen, Hdt.
        assert (E : centre1 a (i - m * ncell a) - x == diff1 a x (centre1 a i)).
        { unfold diff1. rewrite Hper. unfold wrap1, Qmod. fold d. fold m.
          unfold d, centre1. rewrite <- HL. unfold Zminus.
          rewrite inject_Z_plus, inject_Z_opp, inject_Z_mult. field. }
        rewrite E. reflexivity.
    + exists (i :: jt). split; [|split].
      * cbn [proj]. rewrite Hper, Ejt. reflexivity.
      * cbn [length]. rewrite Hljt. reflexivity.
      * rewrite d2cell_cons_unper, d2cell_cons_gen, Hdt. unfold diff1. rewrite Hper. reflexivity.
Qed.

(* ---- walking to the hub on the unbounded lattice ---- *)
Definition fstep (g : grid) (c : list Q) (s2 : Q) (p q : cell) : Prop :=
  length p = length g /\ length q = length g /\
  within g c s2 p = true /\ within g c s2 q = true /\ face_adj p q.

Lemma walk_axis_free a g x c s2 t z : aper a = false -> axis_ok a -> z = Qfloor (gam a x) ->
  length t = length g ->
  forall n i, Z.abs_nat (i - z) = n -> within (a :: g) (x :: c) s2 (i :: t) = true ->
    clos (fstep (a :: g) (x :: c) s2) (i :: t) (z :: t) /\ within (a :: g) (x :: c) s2 (z :: t) = true.
Proof.
  intros Hper Hok Hz Ht. induction n as [|n IH]; intros i Hn Hw.
  - assert (i = z) by lia. subst i. split; [apply cr_refl|exact Hw].
  - destruct (Z_lt_le_dec z i) as [Hgt|Hle].
    + assert (Hw' : within (a :: g) (x :: c) s2 ((i - 1)%Z :: t) = true).
      { apply (within_step a g x c s2 i (i - 1) t Hper); [|exact Hw].
        apply towards_down; [exact Hok|]. rewrite <- Hz. exact Hgt. }
      destruct (IH (i - 1)%Z) as [IH1 IH2]; [lia|exact Hw'|]. split; [|exact IH2].
      eapply cr_trans; [apply cr_step|exact IH1].
      unfold fstep. cbn [length]. repeat split; try congruence. apply fa_here. lia.
    + assert (Hlt : (i < z)%Z) by lia.
      assert (Hw' : within (a :: g) (x :: c) s2 ((i + 1)%Z :: t) = true).
      { apply (within_step a g x c s2 i (i + 1) t Hper); [|exact Hw].
        apply towards_up; [exact Hok|]. rewrite <- Hz. exact Hlt. }
      destruct (IH (i + 1)%Z) as [IH1 IH2]; [lia|exact Hw'|]. split; [|exact IH2].
      eapply cr_trans; [apply cr_step|exact IH1].
      unfold fstep. cbn [length]. repeat split; try congruence. apply fa_here. lia.
Qed.

Theorem path_to_centre_free : forall g, nonper g -> grid_ok g -> forall c s2 idx,
  length c = length g -> length idx = length g -> within g c s2 idx = true ->
  clos (fstep g c s2) idx (centre_cell g c).
Proof.
  intros g Hnp. induction Hnp as [|a g Hper Hnp IH]; intros Hok c s2 idx Hlen Hidx Hw.
  - destruct c; [|discriminate Hlen]. destruct idx; [|discriminate Hidx]. apply cr_refl.
  - destruct c as [|x c]; [discriminate Hlen|]. destruct idx as [|i t]; [discriminate Hidx|].
    cbn [length] in Hlen, Hidx. injection Hlen as Hlen. injection Hidx as Hidx.
    unfold grid_ok in Hok. inversion Hok as [|a' g' Ha Hok']; subst a' g'.
    cbn [centre_cell]. set (z0 := Qfloor (gam a x)).
    destruct (walk_axis_free a g x c s2 t z0 Hper Ha eq_refl Hidx _ i eq_refl Hw) as [H1 Hwz].
    eapply cr_trans; [exact H1|].
    rewrite (within_cons_tail a g x c s2 z0 t Hper) in Hwz.
    set (q := (centre1 a z0 - x) * (centre1 a z0 - x)) in *.
    pose proof (IH Hok' c (s2 - q) t Hlen Hidx Hwz) as H2.
    apply (clos_map (fstep g c (s2 - q)) (fstep (a :: g) (x :: c) s2) (cons z0)); [|exact H2].
    intros u v (Hu & Hv & Hwu & Hwv & Hf). unfold fstep. cbn [length].
    rewrite !(within_cons_tail a g x c s2 z0 _ Hper). fold q.
    repeat split; try congruence. apply fa_there. exact Hf.
Qed.

(* ---- a lattice face step projects to a face step or a wrap pair ---- *)
Lemma mod_succ u N : (0 < N)%Z ->
  ((u + 1) mod N = u mod N + 1 \/ (u mod N = N - 1 /\ (u + 1) mod N = 0))%Z.
Proof.
  intros HN. pose proof (Z.mod_pos_bound u N HN) as Hb. pose proof (Z.div_mod u N) as Hdm.
  destruct (Z.eq_dec (u mod N) (N - 1)) as [E|E].
  - right. split; [exact E|]. symmetry. apply (Z.mod_unique (u + 1) N (u / N + 1) 0); [lia|]. nia.
  - left. symmetry. apply (Z.mod_unique (u + 1) N (u / N) (u mod N + 1)); [lia|]. nia.
Qed.

Lemma proj_step g j j' : grid_ok g -> length j = length g -> face_adj j j' ->
  in_rangeL (gshape g) (proj g j) -> in_rangeL (gshape g) (proj g j') ->
  face_adj (proj g j) (proj g j') \/
  (exists ax, wrap_pair g ax (proj g j) (proj g j')) \/
  (exists ax, wrap_pair g ax (proj g j') (proj g j)).
Proof.
  intros Hok Hl Hf Hr Hr'. apply face_adj_nth in Hf. destruct Hf as (Hll & ax & Hax & Hd & Ho).
  assert (Hl' : length j' = length g) by congruence.
  pose proof (proj_length g j Hl) as HPl. pose proof (proj_length g j' Hl') as HPl'.
  destruct (nth_error g ax) as [a|] eqn:Ha; [|apply nth_error_None in Ha; lia].
  pose proof (proj_nth g j ax a Hl Ha) as Hn. pose proof (proj_nth g j' ax a Hl' Ha) as Hn'.
  assert (Hoth : forall k, k <> ax -> nth k (proj g j) 0%Z = nth k (proj g j') 0%Z).
  { intros k Hk. apply proj_nth_eq; [exact Hl|exact Hl'|apply Ho; exact Hk]. }
  pose proof (grid_ok_axis g ax a Hok Ha) as [HN _].
  destruct (aper a) eqn:Hper.
  - set (u := nth ax j 0%Z) in *. set (u' := nth ax j' 0%Z) in *.
    assert (Hwrap : forall l h, length h = length l ->
              in_rangeL (gshape g) l -> nth ax l 0%Z = 0%Z -> nth ax h 0%Z = (ncell a - 1)%Z ->
              (forall k, k <> ax -> nth k h 0%Z = nth k l 0%Z) -> wrap_pair g ax l h).
    { intros l h Hlh Hrl H0 Hh Hk. apply (wrap_pair_nth g ax l h Hok).
      split; [exists a; split; assumption|]. split; [exact Hrl|]. split; [exact Hlh|].
      split; [exact H0|]. split; [rewrite (shapeN_nth_error g ax a Ha); exact Hh|exact Hk]. }
    assert (Hcase : (u' = u + 1 \/ u = u' + 1)%Z) by lia. destruct Hcase as [E|E].
    + rewrite E in Hn'. destruct (mod_succ u (ncell a) HN) as [Hs|[Hs1 Hs2]].
      * left. apply face_adj_nth. split; [congruence|]. exists ax. split; [lia|]. split; [lia|exact Hoth].
      * right. right. exists ax.
        apply (Hwrap (proj g j') (proj g j)); [congruence|exact Hr'|lia|lia|].
        intros k Hk. apply Hoth. exact Hk.
    + rewrite E in Hn. destruct (mod_succ u' (ncell a) HN) as [Hs|[Hs1 Hs2]].
      * left. apply face_adj_nth. split; [congruence|]. exists ax. split; [lia|]. split; [lia|exact Hoth].
      * right. left. exists ax.
        apply (Hwrap (proj g j) (proj g j')); [congruence|exact Hr|lia|lia|].
        intros k Hk. symmetry. apply Hoth. exact Hk.
  - left. apply face_adj_nth. split; [congruence|]. exists ax. split; [lia|]. split; [lia|exact Hoth].
Qed.

(* ---- (C) connectivity on the torus ---- *)
Lemma clos_map_clos {A B : Type} (R : A -> A -> Prop) (R' : B -> B -> Prop) (f : A -> B) :
  (forall u v, R u v -> clos R' (f u) (f v)) -> forall a b, clos R a b -> clos R' (f a) (f b).
Proof.
  intros H a b Hc. induction Hc as [x|x y _ IH|x y z _ IH1 _ IH2|x y Hs].
  - apply cr_refl.
  - apply cr_sym. exact IH.
  - eapply cr_trans; eassumption.
  - apply H. exact Hs.
Qed.

Theorem ball_torus_connected g c r (cells : list cell) : grid_ok g -> tfits g c r ->
  (forall p, In p cells <-> In p (ball_cells g c r)) ->
  forall p q, In p cells -> In q cells -> connT cell cells face_adj (wrap_pair g) p q.
Proof.
  intros Hok Hfit Hsame.
  pose proof (tfits_length g c r Hfit) as Hlc.
  assert (Hlcu : length c = length (unper g)) by (rewrite unper_length; exact Hlc).
  (* the lifted ball projects into the cells *)
  assert (Hproj : forall j, 0 <= r -> length j = length g -> within (unper g) c (r * r) j = true ->
                    In (proj g j) cells).
  { intros j Hr Hl Hw. unfold within in Hw. apply Qlt_bool_iff in Hw.
    destruct (proj_d2 g c r Hok Hfit Hr j Hl Hw) as [Hd Hrg].
    apply Hsame. apply ball_cells_spec. split; [exact Hrg|].
    rewrite (inside_within g c r _ Hr). unfold within. apply Qlt_bool_iff. rewrite Hd. exact Hw. }
  (* every cell reaches the projected hub *)
  assert (Hhub : forall p, In p cells ->
                   connT cell cells face_adj (wrap_pair g) p (proj g (centre_cell (unper g) c))).
  { intros p Hp. apply Hsame in Hp. apply ball_cells_spec in Hp. destruct Hp as [Hpr Hpi].
    apply inside_iff in Hpi. destruct Hpi as [Hr Hd].
    destruct (lift_exists g c Hok Hlc p Hpr) as (j & Ej & Hlj & Hdj).
    assert (Hwj : within (unper g) c (r * r) j = true).
    { unfold within. apply Qlt_bool_iff. rewrite Hdj. exact Hd. }
    assert (Hlju : length j = length (unper g)) by (rewrite unper_length; exact Hlj).
    pose proof (path_to_centre_free (unper g) (unper_nonper g) (unper_ok g Hok) c (r * r) j Hlcu Hlju Hwj) as H.
    rewrite <- Ej. unfold connT. revert H.
    apply (clos_map_clos (fstep (unper g) c (r * r)) (stepT cell cells face_adj (wrap_pair g)) (proj g)).
    intros u v (Hu & Hv & Hwu & Hwv & Hf). rewrite unper_length in Hu, Hv.
    pose proof (Hproj u Hr Hu Hwu) as Hcu. pose proof (Hproj v Hr Hv Hwv) as Hcv.
    assert (Hru : in_rangeL (gshape g) (proj g u)).
    { apply Hsame in Hcu. apply ball_cells_spec in Hcu. exact (proj1 Hcu). }
    assert (Hrv : in_rangeL (gshape g) (proj g v)).
    { apply Hsame in Hcv. apply ball_cells_spec in Hcv. exact (proj1 Hcv). }
    destruct (proj_step g u v Hok Hu Hf Hru Hrv) as [Hs|[Hs|Hs]].
    - apply cr_step. split; [exact Hcu|]. split; [exact Hcv|]. left. exact Hs.
    - apply cr_step. split; [exact Hcu|]. split; [exact Hcv|]. right. exact Hs.
    - apply cr_sym. apply cr_step. split; [exact Hcv|]. split; [exact Hcu|]. right. exact Hs. }
  intros p q Hp Hq. unfold connT in *.
  eapply cr_trans; [apply Hhub; exact Hp|]. apply cr_sym. apply Hhub. exact Hq.
Qed.

Print Assumptions path_to_centre_free.
Print Assumptions proj_d2.
Print Assumptions lift_exists.
Print Assumptions proj_step.
Print Assumptions ball_torus_connected.
