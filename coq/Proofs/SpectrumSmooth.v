(* Spectrum, part 4: the kernel smoother (pde.tools.math.SmoothData1D), numpy's max / linspace,
   and the generated control flow `gsf_tail` of get_structure_factor (smoothing, requested wave
   numbers, add_zero). *)
From Coq Require Import Reals Lra List ZArith Lia Bool Permutation Arith.
Import ListNotations.
From PD Require Import Model.Num Model.Spectrum Gen.Gen_spectrum Proofs.SpectrumLists.
Local Open Scope R_scope.

Definition scale_by (s : R) (l : list R) : list R := map (fun k => k / s) l.

(* ------------------------------------------------------------------ smoother: change of units *)
Lemma nw_weight_scaling sigma s x xi : s <> 0 ->
  nw_weight (sigma / s) (x / s) (xi / s) = nw_weight sigma x xi.
Proof.
  intros Hs. unfold nw_weight. f_equal. unfold Rdiv.
  replace ((sigma * / s) ^ 2) with (sigma ^ 2 * (/ s * / s)) by ring.
  rewrite !Rinv_mult, !Rinv_inv. generalize (/ sigma ^ 2). intros u. field. exact Hs.
Qed.

(* S'(x / s) = S(x)  when all abscissae and the width are divided by s *)
Lemma smooth_covariant sigma s xs ys x : s <> 0 ->
  nw_smooth (sigma / s) (scale_by s xs) ys (x / s) = nw_smooth sigma xs ys x.
Proof.
  intros Hs. unfold nw_smooth, scale_by. rewrite map_map.
  rewrite (map_ext (fun k => nw_weight (sigma / s) (x / s) (k / s)) (nw_weight sigma x))
    by (intros; apply nw_weight_scaling; exact Hs).
  reflexivity.
Qed.

Lemma smooth_covariant_arg sigma s xs ys q : s <> 0 ->
  nw_smooth (sigma / s) (scale_by s xs) ys q = nw_smooth sigma xs ys (s * q).
Proof.
  intros Hs. rewrite <- (smooth_covariant sigma s xs ys (s * q) Hs). f_equal. field. exact Hs.
Qed.

Lemma smooth_map_covariant sigma s xs ys qs : s <> 0 ->
  map (nw_smooth (sigma / s) (scale_by s xs) ys) (scale_by s qs) = map (nw_smooth sigma xs ys) qs.
Proof.
  intros Hs. unfold scale_by at 2. rewrite map_map. apply map_ext. intros q.
  apply smooth_covariant. exact Hs.
Qed.

(* ------------------------------------------------------------------ smoother: a function of the multiset of (x, y) pairs *)
Definition nw_pairs (sigma : R) (ps : list (R * R)) (x : R) : R :=
  let wsum := rsum (map (fun p => nw_weight sigma x (fst p)) ps) in
  rsum (map (fun p => snd p * (if Rlt_dec 0 wsum then nw_weight sigma x (fst p) / wsum
                               else nw_weight sigma x (fst p))) ps).

Lemma zip_mul_combine (g : R -> R) (wt : R -> R) xs ys : length xs = length ys ->
  rsum (zip_mul ys (map g (map wt xs))) = rsum (map (fun p => snd p * g (wt (fst p))) (combine xs ys)).
Proof.
  revert ys. induction xs as [|a xs IH]; intros ys Hl; destruct ys as [|b ys]; try discriminate.
  - reflexivity.
  - cbn [map combine zip_mul fst snd]. rewrite !rsum_cons, IH by (simpl in Hl; lia). reflexivity.
Qed.

Lemma weights_combine (wt : R -> R) xs (ys : list R) : length xs = length ys ->
  map wt xs = map (fun p => wt (fst p)) (combine xs ys).
Proof.
  revert ys. induction xs as [|a xs IH]; intros ys Hl; destruct ys as [|b ys]; try discriminate.
  - reflexivity.
  - cbn [map combine fst]. rewrite <- IH by (simpl in Hl; lia). reflexivity.
Qed.

Lemma nw_smooth_pairs sigma xs ys x : length xs = length ys ->
  nw_smooth sigma xs ys x = nw_pairs sigma (combine xs ys) x.
Proof.
  intros Hl. unfold nw_smooth, nw_pairs.
  rewrite <- (weights_combine (nw_weight sigma x) xs ys Hl).
  set (W := rsum (map (nw_weight sigma x) xs)).
  destruct (Rlt_dec 0 W) as [HW|HW].
  - apply (zip_mul_combine (fun wi => wi / W)). exact Hl.
  - rewrite <- (map_id (map (nw_weight sigma x) xs)). apply (zip_mul_combine (fun wi => wi)). exact Hl.
Qed.

Lemma nw_pairs_perm sigma ps ps' x : Permutation ps ps' -> nw_pairs sigma ps x = nw_pairs sigma ps' x.
Proof.
  intros HP. unfold nw_pairs.
  rewrite (rsum_perm _ _ (Permutation_map (fun p => nw_weight sigma x (fst p)) HP)).
  apply rsum_perm. apply Permutation_map. exact HP.
Qed.

Lemma nw_smooth_perm sigma xs ys xs' ys' x :
  length xs = length ys -> length xs' = length ys' ->
  Permutation (combine xs ys) (combine xs' ys') ->
  nw_smooth sigma xs ys x = nw_smooth sigma xs' ys' x.
Proof.
  intros H1 H2 HP. rewrite !nw_smooth_pairs by assumption. apply nw_pairs_perm. exact HP.
Qed.

(* ------------------------------------------------------------------ numpy max *)
Lemma fold_max_spec r a :
  In (fold_left Rmax r a) (a :: r) /\ forall x, In x (a :: r) -> x <= fold_left Rmax r a.
Proof.
  revert a. induction r as [|b r IH]; intros a; simpl.
  - split; [left; reflexivity|]. intros x [<-|[]]. lra.
  - destruct (IH (Rmax a b)) as [Hin Hge]. split.
    + destruct Hin as [E|Hin]; [|right; right; exact Hin]. rewrite <- E.
      unfold Rmax. destruct (Rle_dec a b); [right; left|left]; reflexivity.
    + intros x [<-|[<-|Hx]].
      * eapply Rle_trans; [apply Rmax_l|apply Hge; left; reflexivity].
      * eapply Rle_trans; [apply Rmax_r|apply Hge; left; reflexivity].
      * apply Hge. right. exact Hx.
Qed.

Lemma list_max_in l : l <> [] -> In (list_max l) l.
Proof. destruct l as [|a r]; [congruence|]. intros _. apply (fold_max_spec r a). Qed.

Lemma list_max_ge l x : In x l -> x <= list_max l.
Proof. destruct l as [|a r]; [intros []|]. apply (fold_max_spec r a). Qed.

Lemma list_max_perm l l' : Permutation l l' -> list_max l = list_max l'.
Proof.
  intros HP. destruct l as [|a r].
  - apply Permutation_nil in HP. subst. reflexivity.
  - assert (Hne : l' <> []) by (intros ->; apply Permutation_sym, Permutation_nil in HP; discriminate).
    apply Rle_antisym.
    + apply list_max_ge. apply (Permutation_in _ HP). apply list_max_in. discriminate.
    + apply list_max_ge. apply (Permutation_in _ (Permutation_sym HP)). apply list_max_in. exact Hne.
Qed.

Lemma list_max_scale s l : 0 < s -> list_max (scale_by s l) = list_max l / s.
Proof.
  intros Hs. destruct l as [|a r]; simpl; [unfold Rdiv; lra|].
  revert a. induction r as [|b r IH]; intros a; simpl; [reflexivity|].
  rewrite <- IH. f_equal. unfold Rmax.
  assert (Hi : 0 < / s) by (apply Rinv_0_lt_compat; exact Hs).
  destruct (Rle_dec a b), (Rle_dec (a / s) (b / s)); try reflexivity; unfold Rdiv in *; nra.
Qed.

(* ------------------------------------------------------------------ numpy linspace *)
Lemma linspace_scale s a b n : linspace (a / s) (b / s) n = scale_by s (linspace a b n).
Proof.
  unfold linspace, scale_by. rewrite map_map. apply map_ext. intros j. unfold Rdiv. ring.
Qed.

(* ------------------------------------------------------------------ generated control flow *)
(* adding the zero mode prepends the pair (0, 1) to whatever is returned without it *)
Lemma add_zero_prepends on au nw sm sz wn k sf :
  gsf_tail on au nw true sm sz wn k sf =
  (0 :: fst (gsf_tail on au nw false sm sz wn k sf), 1 :: snd (gsf_tail on au nw false sm sz wn k sf)).
Proof. unfold gsf_tail. destruct on, au, nw; reflexivity. Qed.

(* with smoothing enabled and wave numbers requested, exactly those wave numbers are returned,
   together with the smoothed values at them *)
Lemma smoothed_returns_wave_numbers au sm sz wn k sf :
  gsf_tail true au false false sm sz wn k sf =
  (wn, map (nw_smooth (if au then sf_auto_smoothing (list_max k) else sm) k sf) wn).
Proof. unfold gsf_tail, sf_auto_smoothing. destruct au; reflexivity. Qed.

(* automatic wave numbers *)
Lemma smoothed_auto_wave_numbers au sm sz wn k sf :
  gsf_tail true au true false sm sz wn k sf =
  (linspace (sf_auto_k_min sz) (list_max k) sf_auto_points,
   map (nw_smooth (if au then sf_auto_smoothing (list_max k) else sm) k sf)
       (linspace (sf_auto_k_min sz) (list_max k) sf_auto_points)).
Proof. unfold gsf_tail, sf_auto_smoothing, sf_auto_k_min, sf_auto_points. destruct au; reflexivity. Qed.

(* without smoothing the raw arrays are returned *)
Lemma unsmoothed_returns_raw au nw sm sz wn k sf :
  gsf_tail false au nw false sm sz wn k sf = (k, sf).
Proof. unfold gsf_tail. destruct au, nw; reflexivity. Qed.

(* the smoothed variant depends on the raw spectrum only through the multiset of (k, sf) pairs *)
Lemma smoothed_depends_on_pairs au nw az sm sz wn k sf k' sf' :
  length k = length sf -> length k' = length sf' ->
  Permutation (combine k sf) (combine k' sf') ->
  gsf_tail true au nw az sm sz wn k sf = gsf_tail true au nw az sm sz wn k' sf'.
Proof.
  intros H1 H2 HP.
  assert (Hk : Permutation k k').
  { assert (Hf : forall (a b : list R), length a = length b -> map fst (combine a b) = a).
    { induction a as [|x a IH]; intros b Hl; destruct b; try discriminate; [reflexivity|].
      simpl. rewrite IH by (simpl in Hl; lia). reflexivity. }
    rewrite <- (Hf k sf H1), <- (Hf k' sf' H2). apply Permutation_map. exact HP. }
  assert (Hm : list_max k = list_max k') by (apply list_max_perm; exact Hk).
  assert (Hs : forall sg q, nw_smooth sg k sf q = nw_smooth sg k' sf' q)
    by (intros; apply nw_smooth_perm; assumption).
  assert (Hmap : forall sg l, map (nw_smooth sg k sf) l = map (nw_smooth sg k' sf') l)
    by (intros; apply map_ext; intros; apply Hs).
  destruct az.
  - rewrite !add_zero_prepends.
    destruct nw; [rewrite !smoothed_auto_wave_numbers|rewrite !smoothed_returns_wave_numbers];
      cbn [fst snd]; rewrite Hm, !Hmap; reflexivity.
  - destruct nw; [rewrite !smoothed_auto_wave_numbers|rewrite !smoothed_returns_wave_numbers];
      rewrite Hm, !Hmap; reflexivity.
Qed.

(* change of the unit of length: all wave numbers (and wave-number widths) are divided by s and the
   box size is multiplied by s; the structure-factor values are those of the unscaled call *)
Lemma gsf_tail_scaling on au nw az sm sz wn k sf s : 0 < s ->
  gsf_tail on au nw az (sm / s) (s * sz) (scale_by s wn) (scale_by s k) sf =
  (scale_by s (fst (gsf_tail on au nw az sm sz wn k sf)), snd (gsf_tail on au nw az sm sz wn k sf)).
Proof.
  intros Hs. assert (Hs0 : s <> 0) by lra.
  assert (H0 : 0 / s = 0) by (unfold Rdiv; ring).
  assert (Hkmin : sf_auto_k_min (s * sz) = sf_auto_k_min sz / s).
  { unfold sf_auto_k_min, Rdiv. rewrite Rinv_mult. ring. }
  assert (Hsig : forall v, sf_auto_smoothing (v / s) = sf_auto_smoothing v / s).
  { intros v. unfold sf_auto_smoothing, Rdiv. ring. }
  assert (Hcore : gsf_tail on au nw false (sm / s) (s * sz) (scale_by s wn) (scale_by s k) sf =
    (scale_by s (fst (gsf_tail on au nw false sm sz wn k sf)), snd (gsf_tail on au nw false sm sz wn k sf))).
  { destruct on.
    - destruct nw.
      + rewrite !smoothed_auto_wave_numbers. cbn [fst snd].
        rewrite list_max_scale, Hkmin, linspace_scale by exact Hs. f_equal.
        destruct au; [rewrite Hsig|]; apply smooth_map_covariant; exact Hs0.
      + rewrite !smoothed_returns_wave_numbers. cbn [fst snd]. f_equal.
        rewrite list_max_scale by exact Hs.
        destruct au; [rewrite Hsig|]; apply smooth_map_covariant; exact Hs0.
    - rewrite !unsmoothed_returns_raw. reflexivity. }
  destruct az; [|exact Hcore].
  rewrite !add_zero_prepends, Hcore. cbn [fst snd scale_by map]. rewrite H0. reflexivity.
Qed.
