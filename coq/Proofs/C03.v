(* C03 -- a rendered phase field is a faithful, finite picture of the droplet.
   Statements about the three droplet families over the definitions generated from the current
   droplets.py / emulsions.py (R-layer, Proofs/Profile.v) and about the exact-rational rendering
   model (D-layer, Proofs/Render.v).  `d` = distance of a cell centre from the droplet centre under
   the grid's metric, `r` = radius, `i` = interface distance in the direction of the cell,
   `ow` = stored interface width (None | Some w), `h` = grid.typical_discretization. *)
From Coq Require Import Reals Lra List Permutation ZArith QArith Bool.
From PD Require Import Gen.Gen_shapes Model.Grid Model.Render Proofs.Profile Proofs.Render.
Import ListNotations.
Local Open Scope R_scope.

(* ---- unscaled values: faithful for every valid width ---- *)
Lemma spherical_faithful d r : faithful (spherical_field d r) d r.
Proof. rewrite spherical_field_indicator. apply indicator_faithful. Qed.

Lemma diffuse_faithful d r ow h : 0 < h -> valid_width ow ->
  faithful (diffuse_field render_dtype_is_bool d r (diffuse_width ow h)) d r.
Proof. intros Hh Hw. apply diffuse_field_faithful, diffuse_width_nonneg; assumption. Qed.

Lemma perturbed_faithful d i ow h : 0 < h -> valid_width ow ->
  faithful (perturbed_field render_dtype_is_bool d i (perturbed_width ow h)) d i.
Proof. intros Hh Hw. apply perturbed_field_faithful, perturbed_width_nonneg; assumption. Qed.

(* ---- profile_range ---- *)
Lemma profile_range b d i w : 0 <= w ->
  (spherical_field d i = 0 \/ spherical_field d i = 1) /\
  (w = 0 \/ b = true ->
     (diffuse_field b d i w = 0 \/ diffuse_field b d i w = 1) /\
     (perturbed_field b d i w = 0 \/ perturbed_field b d i w = 1)) /\
  (0 < w -> b = false ->
     0 < diffuse_field b d i w < 1 /\ 0 < perturbed_field b d i w < 1 /\
     0 < diffuse_profile d i w < 1 /\ 0 < perturbed_profile d i w < 1).
Proof.
  intros Hw.
  assert (Hind : indicator d i = 0 \/ indicator d i = 1).
  { unfold indicator. destruct (Rlt_dec d i); [right|left]; reflexivity. }
  split; [|split].
  - rewrite spherical_field_indicator. exact Hind.
  - intros Hs. destruct (diffuse_field_cases b d i w Hw) as [H1 _].
    destruct (perturbed_field_cases b d i w Hw) as [H2 _]. rewrite (H1 Hs), (H2 Hs). split; exact Hind.
  - intros Hp Hb. destruct (diffuse_field_cases b d i w Hw) as [_ H1].
    destruct (perturbed_field_cases b d i w Hw) as [_ H2].
    rewrite (H1 Hp Hb), (H2 Hp Hb), diffuse_profile_char, perturbed_profile_char.
    pose proof (tanh_profile_range d i w) as Hr. unfold tanh_profile in *. repeat split; apply Hr.
Qed.

(* ---- value between vmin and vmax ---- *)
Lemma value_between vmin vmax d i ow h : 0 < h -> valid_width ow ->
  Rmin vmin vmax <= spherical_value vmin vmax d i <= Rmax vmin vmax /\
  Rmin vmin vmax <= diffuse_value vmin vmax d i (diffuse_width ow h) <= Rmax vmin vmax /\
  Rmin vmin vmax <= perturbed_value vmin vmax d i (perturbed_width ow h) <= Rmax vmin vmax.
Proof.
  intros Hh Hw. unfold spherical_value, diffuse_value, perturbed_value.
  split; [|split]; apply scaled_minmax.
  - apply (f_range _ _ _ (spherical_faithful d i)).
  - apply (f_range _ _ _ (diffuse_faithful d i ow h Hh Hw)).
  - apply (f_range _ _ _ (perturbed_faithful d i ow h Hh Hw)).
Qed.

(* ---- above the midpoint iff inside ---- *)
Lemma above_mid_iff_inside vmin vmax d i ow h : vmin < vmax -> 0 < h -> valid_width ow ->
  (spherical_value vmin vmax d i > (vmin + vmax) / 2 <-> spherical_inside d i) /\
  (diffuse_value vmin vmax d i (diffuse_width ow h) > (vmin + vmax) / 2 <-> diffuse_inside d i) /\
  (perturbed_value vmin vmax d i (perturbed_width ow h) > (vmin + vmax) / 2 <-> perturbed_inside d i).
Proof.
  intros Hv Hh Hw. unfold spherical_value, diffuse_value, perturbed_value.
  rewrite spherical_inside_char, diffuse_inside_char, perturbed_inside_char.
  split; [|split]; rewrite (scaled_above_mid _ _ _ Hv).
  - apply (f_half _ _ _ (spherical_faithful d i)).
  - apply (f_half _ _ _ (diffuse_faithful d i ow h Hh Hw)).
  - apply (f_half _ _ _ (perturbed_faithful d i ow h Hh Hw)).
Qed.

(* mirrored: when the inside value vmax is the smaller one, inside cells lie BELOW the midpoint *)
Lemma below_mid_iff_inside_mirrored vmin vmax d i ow h : vmax < vmin -> 0 < h -> valid_width ow ->
  (spherical_value vmin vmax d i < (vmin + vmax) / 2 <-> spherical_inside d i) /\
  (diffuse_value vmin vmax d i (diffuse_width ow h) < (vmin + vmax) / 2 <-> diffuse_inside d i) /\
  (perturbed_value vmin vmax d i (perturbed_width ow h) < (vmin + vmax) / 2 <-> perturbed_inside d i).
Proof.
  intros Hv Hh Hw. unfold spherical_value, diffuse_value, perturbed_value.
  rewrite spherical_inside_char, diffuse_inside_char, perturbed_inside_char.
  split; [|split]; rewrite (scaled_below_mid _ _ _ Hv).
  - apply (f_half _ _ _ (spherical_faithful d i)).
  - apply (f_half _ _ _ (diffuse_faithful d i ow h Hh Hw)).
  - apply (f_half _ _ _ (perturbed_faithful d i ow h Hh Hw)).
Qed.

(* ---- sharp droplets: exactly the indicator ---- *)
Lemma scaled_indicator vmin vmax d i :
  (d < i -> scale_value vmin vmax (indicator d i) = vmax) /\
  (~ d < i -> scale_value vmin vmax (indicator d i) = vmin).
Proof.
  destruct (indicator_01 d i) as [H1 H0]. destruct (scaled_ends vmin vmax) as [E0 E1].
  split; intros H; [rewrite (H1 H); exact E1|rewrite (H0 H); exact E0].
Qed.

Lemma sharp_is_indicator vmin vmax d i h :
  ((spherical_inside d i -> spherical_value vmin vmax d i = vmax) /\
   (~ spherical_inside d i -> spherical_value vmin vmax d i = vmin)) /\
  ((diffuse_inside d i -> diffuse_value vmin vmax d i (diffuse_width (Some 0) h) = vmax) /\
   (~ diffuse_inside d i -> diffuse_value vmin vmax d i (diffuse_width (Some 0) h) = vmin)) /\
  ((perturbed_inside d i -> perturbed_value vmin vmax d i (perturbed_width (Some 0) h) = vmax) /\
   (~ perturbed_inside d i -> perturbed_value vmin vmax d i (perturbed_width (Some 0) h) = vmin)) /\
  (* dtype = bool: the image is the mask itself, for every width *)
  ((spherical_mask d i = true <-> d < i) /\ (diffuse_mask d i = true <-> d < i) /\
   (perturbed_mask d i = true <-> d < i)) /\
  (forall w, 0 <= w -> diffuse_field true d i w = indicator d i /\ perturbed_field true d i w = indicator d i).
Proof.
  rewrite spherical_inside_char, diffuse_inside_char, perturbed_inside_char.
  rewrite diffuse_width_char, perturbed_width_char.
  unfold spherical_value, diffuse_value, perturbed_value.
  assert (H00 : 0 <= 0) by lra.
  destruct (diffuse_field_cases render_dtype_is_bool d i 0 H00) as [Hd _].
  destruct (perturbed_field_cases render_dtype_is_bool d i 0 H00) as [Hp _].
  rewrite spherical_field_indicator, Hd, Hp by (left; reflexivity).
  pose proof (scaled_indicator vmin vmax d i) as Hs.
  repeat split; try apply Hs;
    try apply spherical_mask_char; try apply diffuse_mask_char; try apply perturbed_mask_char.
  - destruct (diffuse_field_cases true d i w H) as [H1 _]. apply H1. right. reflexivity.
  - destruct (perturbed_field_cases true d i w H) as [H1 _]. apply H1. right. reflexivity.
Qed.

(* ---- spherical droplets: the value never increases with distance ---- *)
Lemma spherical_monotone vmin vmax d d' r ow h : 0 < h -> valid_width ow -> d <= d' ->
  (vmin <= vmax ->
     spherical_value vmin vmax d' r <= spherical_value vmin vmax d r /\
     diffuse_value vmin vmax d' r (diffuse_width ow h) <= diffuse_value vmin vmax d r (diffuse_width ow h)) /\
  (vmax <= vmin ->
     spherical_value vmin vmax d r <= spherical_value vmin vmax d' r /\
     diffuse_value vmin vmax d r (diffuse_width ow h) <= diffuse_value vmin vmax d' r (diffuse_width ow h)).
Proof.
  intros Hh Hw Hd. unfold spherical_value, diffuse_value.
  assert (H1 : spherical_field d' r <= spherical_field d r).
  { rewrite !spherical_field_indicator. apply indicator_monotone. exact Hd. }
  assert (H2 : diffuse_field render_dtype_is_bool d' r (diffuse_width ow h)
               <= diffuse_field render_dtype_is_bool d r (diffuse_width ow h)).
  { apply diffuse_field_monotone; [apply diffuse_width_nonneg; assumption|exact Hd]. }
  destruct (scaled_monotone vmin vmax _ _ H1) as [A1 B1].
  destruct (scaled_monotone vmin vmax _ _ H2) as [A2 B2].
  split; intros Hv; split; auto.
Qed.

(* along a fixed direction the same holds for perturbed droplets *)
Lemma perturbed_monotone vmin vmax d d' i ow h : 0 < h -> valid_width ow -> d <= d' -> vmin <= vmax ->
  perturbed_value vmin vmax d' i (perturbed_width ow h) <= perturbed_value vmin vmax d i (perturbed_width ow h).
Proof.
  intros Hh Hw Hd Hv. unfold perturbed_value.
  assert (H : perturbed_field render_dtype_is_bool d' i (perturbed_width ow h)
              <= perturbed_field render_dtype_is_bool d i (perturbed_width ow h)).
  { apply perturbed_field_monotone; [apply perturbed_width_nonneg; assumption|exact Hd]. }
  destruct (scaled_monotone vmin vmax _ _ H) as [A _]. apply A. exact Hv.
Qed.

(* ---- emulsions ---- *)
Lemma emulsion_sum_clip_perm ds ds' : Permutation ds ds' ->
  emulsion_cell ds = emulsion_cell ds' /\
  emulsion_cell ds = np_clip (fold_right Rplus 0 ds) 0 1 /\
  0 <= emulsion_cell ds <= 1 /\
  emulsion_cell [] = 0.
Proof.
  intros H. split; [apply emulsion_perm; exact H|]. split; [apply emulsion_cell_char|].
  split; [apply emulsion_range|reflexivity].
Qed.

(* the members are rendered with the default values vmin = 0, vmax = 1 *)
Lemma emulsion_member_defaults p : scale_value default_vmin default_vmax p = p.
Proof. rewrite scale_value_char. unfold default_vmin, default_vmax. ring. Qed.

Lemma ex_values : valid_width (Some 1) /\ valid_width None /\ 0 < 1 /\ 0 <= 1 / 2 <= 1.
Proof. simpl. repeat split; lra. Qed.

(* ---- D-layer, restated with the hypotheses bundled ---- *)
Local Open Scope Q_scope.

Definition periodic_axis (g : grid) (ax : nat) (a : axis) : Prop :=
  nth_error g ax = Some a /\ aper a = true /\ (0 < ncell a)%Z /\ alo a < ahi a.

Lemma render_roll g ax a k c r :
  periodic_axis g ax a ->
  (forall idx, dist2 g (shift_at ax (inject_Z k * adisc a) c) (cell_centre g idx) ==
               dist2 g c (cell_centre g (roll_at g ax k idx))) /\
  (forall idx, inside g (shift_at ax (inject_Z k * adisc a) c) r idx = inside g c r (roll_at g ax k idx)) /\
  mask_sphere g (shift_at ax (inject_Z k * adisc a) c) r = rolled_mask_sphere g ax k c r /\
  (forall idx, in_range g idx ->
     in_range g (roll_at g ax k idx) /\ roll_at g ax (- k) (roll_at g ax k idx) = idx) /\
  (forall idx, In idx (all_cells (gshape g)) -> in_range g idx).
Proof.
  intros [Hn [Hp [HN HL]]]. split; [|split; [|split; [|split]]].
  - intros idx. apply dist2_roll; assumption.
  - intros idx. apply inside_roll; assumption.
  - apply mask_roll; assumption.
  - intros idx Hin. split; [apply roll_in_range with a|apply roll_inverse with a]; assumption.
  - intros idx. apply all_cells_in_range.
Qed.

Lemma render_periodic_image g ax a m c r :
  periodic_axis g ax a ->
  (forall q, dist2 g (shift_at ax (inject_Z m * asize a) c) q == dist2 g c q) /\
  (forall idx, inside g (shift_at ax (inject_Z m * asize a) c) r idx = inside g c r idx) /\
  mask_sphere g (shift_at ax (inject_Z m * asize a) c) r = mask_sphere g c r.
Proof.
  intros [Hn [Hp [HN HL]]]. split; [|split].
  - intros q. apply dist2_period; assumption.
  - intros idx. apply inside_period; assumption.
  - apply mask_period; assumption.
Qed.

Lemma wrap_periodic L d m : 0 < L ->
  wrap1 L (d + L) == wrap1 L d /\ wrap1 L (d + inject_Z m * L) == wrap1 L d /\
  - (L / 2) <= wrap1 L d /\ wrap1 L d < L / 2.
Proof.
  intros HL. split; [apply wrap1_add_L; exact HL|]. split; [apply wrap1_add_period; exact HL|].
  apply wrap1_range. exact HL.
Qed.

Lemma angle_total g c idx dist : (1 <= length g <= 3)%nat ->
  length c = length g -> length idx = length g ->
  0 <= dist -> dist * dist == dist2 g c (cell_centre g idx) ->
  exists a, polar_angles (diff_vec g c (cell_centre g idx)) dist = Some a /\ angles_ok a.
Proof. exact (angle_total_grid g c idx dist). Qed.

Lemma emulsion_mask_or g ds ds' :
  (forall idx, inside_any g ds idx = true <-> exists d, In d ds /\ inside g (fst d) (snd d) idx = true) /\
  ((forall d, In d ds <-> In d ds') -> mask_emulsion g ds = mask_emulsion g ds') /\
  (forall c r, mask_emulsion g [(c, r)] = mask_sphere g c r).
Proof.
  split; [intros idx; apply inside_any_iff|]. split; [apply mask_emulsion_perm|apply mask_emulsion_single].
Qed.

Lemma sharp_mask_spec g c r idx :
  (inside g c r idx = true <-> 0 <= r /\ dist2 g c (cell_centre g idx) < r * r) /\
  (r <= 0 -> inside g c r idx = false).
Proof. split; [apply inside_iff|apply inside_radius_0]. Qed.

(* ---- non-vacuity: concrete non-trivial instances of the hypotheses ---- *)
Definition ex_grid : grid :=
  [ {| ncell := 4; alo := 0; ahi := 2; aper := true |};
    {| ncell := 3; alo := -1 # 1; ahi := 2; aper := false |} ].

Lemma ex_periodic_axis : periodic_axis ex_grid 0 {| ncell := 4; alo := 0; ahi := 2; aper := true |}.
Proof. repeat split; reflexivity. Qed.

(* a disc that straddles the periodic boundary: the mask is non-trivial, and moving it by one cell rolls it *)
Lemma ex_mask :
  mask_sphere ex_grid [1 # 4; 1 # 2] (3 # 4) =
    [false; true; false;  false; true; false;  false; false; false;  false; true; false] /\
  mask_sphere ex_grid [3 # 4; 1 # 2] (3 # 4) =
    [false; true; false;  false; true; false;  false; true; false;  false; false; false].
Proof. split; vm_compute; reflexivity. Qed.

Lemma ex_angle :
  polar_angles [0; 3; 4] 5 = Some (Spher3 (4 # 5) 3 0) /\
  polar_angles [0; 0; 0] 0 = Some (Spher3 1 0 0).
Proof. split; vm_compute; reflexivity. Qed.
