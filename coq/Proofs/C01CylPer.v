(* C01 on cylindrical grids, PERIODIC path: cyl_candidates consults the label image of the mask padded with
   one periodic copy on each side (np.pad(mask, [[0,0],[nz,nz]], mode="wrap")): a 2-d image over
   [nr; 3 nz] whose cell (i, j) holds mask cell (i, j mod nz); then cyl_window shifts by one period
   and keeps z in [z_lo, z_hi).  Rendering never wraps in z, so the droplet lies inside the box.
   The padded image is the image of THREE on-axis spheres (centres c, c + L, c + 2 L) on the 2-d
   non-periodic grid  cyl_axes3 g = [radial axis; axial axis with 3 nz cells on [z_lo, z_lo + 3 L]].
   Hypotheses of c01_cyl_periodic_single:
     cyl_ok g, cg_per g = true;  z_lo <= c - rad,  c + rad <= z_hi;
     2 rad + dz <= L  (the copies are not face-adjacent across the padded seams);
     at least one covered cell;
     wf_img / LabelSpecImg for the padded label image (grid cyl_axes3 g);
     lab_of img_pad idx <> 0  <->  cyl_inside g c rad (ridx idx) (zidx idx mod nz) = true   on [nr; 3 nz].
   Result: cyl_candidates g img_pad img = [(z, v)],  v == sum of shell over the covered cells,
           |z - c| <= dz / 2,  z_lo <= z < z_hi.
   Pieces: cyl3_inside (a copy = a translate), copy_cells, MultiConn (labels <-> spheres when every ball
   is known to be connected, the hub version of C01Cart.Multi), pad_cyl_single (three droplets, none
   spanning), the window computation. *)
From Coq Require Import QArith Qabs Qround ZArith List Arith Bool Lia Lqa Setoid Morphisms Permutation.
Import ListNotations.
From PD Require Import Model.Grid Model.Render Model.MergeLoop Model.Locate Model.LocateSym Model.RenderSym
  Model.Totality Model.Ball Proofs.Render Proofs.MergeLoop Proofs.Components Proofs.LocateCart
  Proofs.BallRow Proofs.BallCentroid Proofs.BallSep Proofs.BallConn Proofs.C01Cart Proofs.C01Cyl.
Local Open Scope Q_scope.

Local Notation in_rangeL := LocateCart.in_range.

(* ------------------------------------------------------------------------------------------ *)
(* labels <-> spheres when every ball is connected (no `fits` needed)                            *)
(* ------------------------------------------------------------------------------------------ *)
Section MultiConn.
  Variable g : grid.
  Variable ds : list sphere.
  Variable img : limage.
  Hypothesis Hne : forall d, In d ds -> ball_cells g (fst d) (snd d) <> [].
  Hypothesis Hsep : forall i j di dj, nth_error ds i = Some di -> nth_error ds j = Some dj ->
    i <> j -> apart g di dj.
  Hypothesis Hconn : forall d, In d ds -> forall p q, in_ball g d p -> in_ball g d q ->
    conn0 cell (ball_cells g (fst d) (snd d)) face_adj p q.
  Hypothesis Hwf : wf_img g img.
  Hypothesis Hspec : LabelSpecImg img.
  Hypothesis Hmask : mask_is_emulsion g ds img.

  Lemma mc_same_conn p q : same_ball g ds p q -> box_conn img p q.
  Proof.
    intros (i & d & Hd & Hp & Hq). pose proof (Hconn d (nth_error_In _ _ Hd) p q Hp Hq) as H.
    unfold box_conn, conn0 in *. revert H. apply clos_mono.
    intros u v (Hu & Hv & Hf). split; [exact (in_ball_mask g ds img Hwf Hmask i d u Hd Hu)|].
    split; [exact (in_ball_mask g ds img Hwf Hmask i d v Hd Hv)|exact Hf].
  Qed.

  Lemma mc_labels p q : In p (mask_cells img) -> In q (mask_cells img) ->
    (lab_of img p = lab_of img q <-> same_ball g ds p q).
  Proof.
    intros Hp Hq. rewrite (Hspec p q Hp Hq). split; [|apply mc_same_conn].
    intros H. destruct (conn_same g ds img Hsep Hwf Hmask p q H) as [<-|Hs]; [|exact Hs].
    apply (multi_mask_cells g ds img Hwf Hmask) in Hp. destruct Hp as (i & d & Hd & Hb).
    exists i, d. split; [exact Hd|]. split; assumption.
  Qed.

  Lemma mc_members i d : nth_error ds i = Some d ->
    forall p, In p (members img (lbl g ds img i)) <-> in_ball g d p.
  Proof.
    intros Hd p. destruct (lbl_witness g ds img Hne Hwf Hmask i d Hd) as (p0 & Hp0 & Hl0).
    pose proof (in_ball_mask g ds img Hwf Hmask i d p0 Hd Hp0) as Hm0.
    rewrite (members_mask g img (lbl g ds img i) p Hwf). split.
    - intros [Hm Hl]. assert (E : lab_of img p0 = lab_of img p) by congruence.
      apply (mc_labels p0 p Hm0 Hm) in E. destruct E as (j & d' & Hd' & Hq0 & Hq).
      destruct (ball_unique g ds Hsep i j d d' p0 Hd Hd' Hp0 Hq0) as [-> ->]. exact Hq.
    - intros Hp. pose proof (in_ball_mask g ds img Hwf Hmask i d p Hd Hp) as Hm. split; [exact Hm|].
      rewrite <- Hl0. symmetry. apply (mc_labels p0 p Hm0 Hm).
      exists i, d. split; [exact Hd|]. split; assumption.
  Qed.

  Lemma mc_inj i j di dj : nth_error ds i = Some di -> nth_error ds j = Some dj ->
    lbl g ds img i = lbl g ds img j -> i = j.
  Proof.
    intros Hi Hj E. destruct (lbl_witness g ds img Hne Hwf Hmask i di Hi) as (p & Hp & Hlp).
    destruct (lbl_witness g ds img Hne Hwf Hmask j dj Hj) as (q & Hq & Hlq).
    assert (El : lab_of img p = lab_of img q) by congruence.
    apply (mc_labels p q (in_ball_mask g ds img Hwf Hmask i di p Hi Hp)
             (in_ball_mask g ds img Hwf Hmask j dj q Hj Hq)) in El.
    destruct El as (k & d & Hd & Hkp & Hkq).
    destruct (ball_unique g ds Hsep i k di d p Hi Hd Hp Hkp) as [-> _].
    destruct (ball_unique g ds Hsep j k dj d q Hj Hd Hq Hkq) as [-> _]. reflexivity.
  Qed.

  Lemma mc_surj k : (k < num_labels img)%nat -> exists i d, nth_error ds i = Some d /\ lbl g ds img i = k.
  Proof.
    intros Hk. destruct (label_has_cell g img k Hwf Hk) as (c0 & Hm & Hl).
    pose proof Hm as Hm'. apply (multi_mask_cells g ds img Hwf Hmask) in Hm'.
    destruct Hm' as (i & d & Hd & Hb). exists i, d. split; [exact Hd|].
    apply (mc_members i d Hd c0) in Hb. apply (members_mask g img (lbl g ds img i) c0 Hwf) in Hb. lia.
  Qed.

  Theorem mc_num_labels : num_labels img = length ds.
  Proof.
    set (n := num_labels img). set (m := length ds).
    assert (Hnth : forall i, (i < m)%nat -> exists d, nth_error ds i = Some d).
    { intros i Hi. destruct (nth_error ds i) as [d|] eqn:E; [exists d; reflexivity|].
      apply nth_error_None in E. unfold m in Hi. lia. }
    set (L := map (lbl g ds img) (seq 0 m)).
    assert (HL : NoDup L).
    { apply nodup_map_inj_on; [apply seq_NoDup|]. intros i j Hi Hj E.
      apply in_seq in Hi. apply in_seq in Hj.
      destruct (Hnth i) as [di Hdi]; [lia|]. destruct (Hnth j) as [dj Hdj]; [lia|].
      exact (mc_inj i j di dj Hdi Hdj E). }
    assert (H1 : incl L (seq 0 n)).
    { intros k Hk. apply in_map_iff in Hk. destruct Hk as (i & <- & Hi). apply in_seq in Hi.
      destruct (Hnth i) as [d Hd]; [lia|]. apply in_seq.
      pose proof (lbl_lt g ds img Hne Hwf Hmask i d Hd). unfold n. lia. }
    assert (H2 : incl (seq 0 n) L).
    { intros k Hk. apply in_seq in Hk. destruct (mc_surj k) as (i & d & Hd & <-); [unfold n in Hk; lia|].
      apply in_map. apply in_seq. assert (i < length ds)%nat by (apply nth_error_Some; congruence).
      unfold m. lia. }
    pose proof (NoDup_incl_length HL H1) as L1.
    pose proof (NoDup_incl_length (seq_NoDup n 0) H2) as L2.
    unfold L in L1, L2. rewrite map_length, !seq_length in *. lia.
  Qed.
End MultiConn.

(* ------------------------------------------------------------------------------------------ *)
(* the padded grid and the three copies                                                          *)
(* ------------------------------------------------------------------------------------------ *)
Definition cyl_zax3 (g : cylgrid) : axis :=
  {| ncell := 3 * cg_nz g; alo := cg_zlo g; ahi := cg_zlo g + 3 * cg_len g; aper := false |}.
Definition cyl_axes3 (g : cylgrid) : grid := [cyl_rax g; cyl_zax3 g].
Definition copy_sphere (g : cylgrid) (c rad : Q) (k : Z) : sphere :=
  ([0; c + inject_Z k * cg_len g], rad).
Definition copies (g : cylgrid) (c rad : Q) : list sphere :=
  [copy_sphere g c rad 0; copy_sphere g c rad 1; copy_sphere g c rad 2].

Lemma cyl_len_pos g : cyl_ok g -> 0 < cg_len g.
Proof. intros (_ & _ & _ & H). unfold cg_len. lra. Qed.

Lemma cyl_axes3_ok g : cyl_ok g -> grid_ok (cyl_axes3 g).
Proof.
  intros Hok. pose proof (cyl_len_pos g Hok) as HL. destruct Hok as (H1 & H2 & H3 & H4).
  unfold grid_ok, cyl_axes3. constructor; [split; [exact H1|exact H3]|].
  constructor; [|constructor]. split; cbn [cyl_zax3 ncell alo ahi]; [lia|lra].
Qed.

Lemma cyl_axes3_nonper g : nonper (cyl_axes3 g).
Proof. unfold nonper, cyl_axes3. repeat constructor. Qed.

Lemma cyl_zax3_ok g : cyl_ok g -> axis_ok (cyl_zax3 g).
Proof.
  intros Hok. pose proof (cyl_len_pos g Hok) as HL. destruct Hok as (_ & H2 & _ & _).
  split; cbn [cyl_zax3 ncell alo ahi]; [lia|lra].
Qed.

Lemma cyl_zax3_adisc g : cyl_ok g -> adisc (cyl_zax3 g) == cg_dz g.
Proof.
  intros (_ & H2 & _ & _). unfold adisc, asize, cg_dz, cyl_zax3. cbn [ahi alo ncell]. unfold cg_len.
  rewrite inject_Z_mult. change (inject_Z 3) with 3. field. apply Qpos_inject. exact H2.
Qed.

Lemma cyl_nz_dz g : cyl_ok g -> inject_Z (cg_nz g) * cg_dz g == cg_len g.
Proof. intros (_ & H2 & _ & _). unfold cg_dz, cg_len. field. apply Qpos_inject. exact H2. Qed.

(* a copy is a translate: cell (i, j) is covered by copy k iff the lattice cell (i, j - k nz) is covered *)
Lemma cyl3_inside g c rad k i j : cyl_ok g ->
  inside (cyl_axes3 g) (fst (copy_sphere g c rad k)) rad [i; j]
  = cyl_inside g c rad i (j - k * cg_nz g).
Proof.
  intros (H1 & H2 & _ & _). unfold cyl_inside, inside. f_equal.
  apply Qlt_bool_comp; [|reflexivity]. cbn [copy_sphere fst].
  unfold dist2. cbn [cyl_axes3 cell_centre diff_vec sumsq fold_right]. unfold diff1.
  unfold cyl_rax, cyl_zax3. cbn [aper]. unfold centre1, adisc, asize, cg_dr, cg_dz, cg_len. cbn [alo ahi ncell].
  unfold Zminus. rewrite inject_Z_plus, inject_Z_opp, !inject_Z_mult. change (inject_Z 3) with 3.
  field. split; apply Qpos_inject; assumption.
Qed.

(* covered lattice cells lie in the box along z *)
Lemma cyl_inside_range g c rad i j : cyl_ok g -> cg_zlo g <= c - rad -> c + rad <= cg_zhi g ->
  cyl_inside g c rad i j = true -> (0 <= j < cg_nz g)%Z.
Proof.
  intros Hok Hlo Hhi Hin. destruct Hok as (_ & H2 & _ & H4).
  assert (Ha : axis_ok (cyl_zax g)) by (split; assumption).
  unfold cyl_inside in Hin. apply andb_true_iff in Hin. destruct Hin as [Hr Hd].
  apply Qle_bool_iff in Hr. apply Qlt_bool_iff in Hd.
  change (cg_zlo g + (inject_Z j + (1 # 2)) * cg_dz g) with (centre1 (cyl_zax g) j) in Hd.
  apply (row_in_box (cyl_zax g) c rad j Ha Hr (conj Hlo Hhi)).
  rewrite <- (centre1_rowoff (cyl_zax g) c j Ha).
  set (u := centre1 (cyl_zax g) j - c) in *. set (w := (inject_Z i + (1 # 2)) * cg_dr g) in *.
  assert (0 <= w * w) by nra. lra.
Qed.

Section Padded.
  Variable g : cylgrid.
  Variable c rad : Q.
  Variable img_pad : limage.
  Hypothesis Hok : cyl_ok g.
  Hypothesis Hzlo : cg_zlo g <= c - rad.
  Hypothesis Hzhi : c + rad <= cg_zhi g.
  Hypothesis Hgap : 2 * rad + cg_dz g <= cg_len g.
  Hypothesis Hne : cyl_cells g c rad <> [].
  Hypothesis Hwf : wf_img (cyl_axes3 g) img_pad.
  Hypothesis Hspec : LabelSpecImg img_pad.
  Hypothesis Hmask : forall idx, in_rangeL [cg_nr g; (3 * cg_nz g)%Z] idx ->
    (lab_of img_pad idx <> 0%nat <-> cyl_inside g c rad (ridx idx) (zidx idx mod cg_nz g) = true).

  Local Notation G3 := (cyl_axes3 g).
  Local Notation nz := (cg_nz g).
  Local Notation ds := (copies g c rad).
  Local Notation Bk k := (ball_cells (cyl_axes3 g) (fst (copy_sphere g c rad k)) rad).

  Lemma pd_nz_pos : (0 < nz)%Z.
  Proof. destruct Hok as (_ & H & _). exact H. Qed.

  Lemma pd_rad_pos : 0 < rad.
  Proof.
    exact (cs_rad_pos g c rad Hok Hne).
  Qed.

  Lemma pd_copy_in k : (k = 0 \/ k = 1 \/ k = 2)%Z -> In (copy_sphere g c rad k) ds.
  Proof. intros [-> | [-> | ->]]; unfold copies; cbn [In]; tauto. Qed.

  Lemma pd_in_copy d : In d ds -> exists k, (k = 0 \/ k = 1 \/ k = 2)%Z /\ d = copy_sphere g c rad k.
  Proof.
    intros Hd. unfold copies in Hd. cbn [In] in Hd. destruct Hd as [Hd|Hd]; [exists 0%Z; split; [lia|symmetry; exact Hd]|].
    destruct Hd as [Hd|Hd]; [exists 1%Z; split; [lia|symmetry; exact Hd]|].
    destruct Hd as [Hd|Hd]; [exists 2%Z; split; [lia|symmetry; exact Hd]|destruct Hd].
  Qed.

  (* the cells of copy k *)
  Lemma pd_copy_cells k p : (0 <= k <= 2)%Z ->
    (In p (Bk k) <-> exists i j, p = [i; (j + k * nz)%Z] /\ In [i; j] (cyl_cells g c rad)).
  Proof.
    intros Hk. rewrite ball_cells_spec. change (gshape G3) with [cg_nr g; (3 * nz)%Z].
    pose proof pd_nz_pos as HN. split.
    - intros [Hr Hi]. destruct (in_range2 _ _ p Hr) as (i & j' & -> & Hi' & Hj').
      change (snd (copy_sphere g c rad k)) with rad in Hi.
      rewrite (cyl3_inside g c rad k i j' Hok) in Hi.
      pose proof (cyl_inside_range g c rad i _ Hok Hzlo Hzhi Hi) as Hj.
      exists i, (j' - k * nz)%Z. split; [f_equal; f_equal; lia|].
      unfold cyl_cells. apply filter_In. split.
      + apply all_cells_spec. apply in_range_cons; [exact Hi'|]. apply in_range_cons; [exact Hj|constructor].
      + exact Hi.
    - intros (i & j & -> & Hin). unfold cyl_cells in Hin. apply filter_In in Hin. destruct Hin as [Hr Hi].
      apply all_cells_spec in Hr. destruct (in_range2 _ _ _ Hr) as (i0 & j0 & E & Hi' & Hj').
      injection E as <- <-. change (ridx [i; j]) with i in Hi. change (zidx [i; j]) with j in Hi. split.
      + apply in_range_cons; [exact Hi'|]. apply in_range_cons; [nia|constructor].
      + change (snd (copy_sphere g c rad k)) with rad.
        rewrite (cyl3_inside g c rad k i _ Hok). replace (j + k * nz - k * nz)%Z with j by lia. exact Hi.
  Qed.

  Lemma pd_copy_ne d : In d ds -> ball_cells G3 (fst d) (snd d) <> [].
  Proof.
    intros Hd. destruct (pd_in_copy d Hd) as (k & Hk & ->).
    destruct (cyl_cells g c rad) as [|p ps] eqn:E; [congruence|].
    assert (Hp : In p (cyl_cells g c rad)) by (rewrite E; left; reflexivity).
    pose proof Hp as Hp'. unfold cyl_cells in Hp'. apply filter_In in Hp'. destruct Hp' as [Hr _].
    apply all_cells_spec in Hr. destruct (in_range2 _ _ _ Hr) as (i & j & -> & _ & _).
    intros E0. change (snd (copy_sphere g c rad k)) with rad in E0.
    assert (Hin : In [i; (j + k * nz)%Z] (Bk k)).
    { apply pd_copy_cells; [lia|]. exists i, j. split; [reflexivity|exact Hp]. }
    rewrite E0 in Hin. destruct Hin.
  Qed.

  (* the padded mask is the image of the three copies *)
  Lemma pd_mask : mask_is_emulsion G3 ds img_pad.
  Proof.
    intros idx Hr. change (gshape G3) with [cg_nr g; (3 * nz)%Z] in Hr. rewrite (Hmask idx Hr).
    destruct (in_range2 _ _ idx Hr) as (i & j & -> & Hi & Hj).
    change (ridx [i; j]) with i. change (zidx [i; j]) with j.
    pose proof pd_nz_pos as HN. rewrite inside_any_iff. split.
    - intros Hc. set (k := (j / nz)%Z).
      assert (Hk : (0 <= k <= 2)%Z).
      { unfold k. split; [apply Z.div_pos; lia|].
        assert (j / nz < 3)%Z by (apply Z.div_lt_upper_bound; lia). lia. }
      exists (copy_sphere g c rad k). split; [apply pd_copy_in; lia|].
      change (snd (copy_sphere g c rad k)) with rad. rewrite (cyl3_inside g c rad k i j Hok).
      replace (j - k * nz)%Z with (j mod nz)%Z; [exact Hc|].
      unfold k. pose proof (Z.div_mod j nz). lia.
    - intros (d & Hd & Hin). destruct (pd_in_copy d Hd) as (k & Hk & ->).
      change (snd (copy_sphere g c rad k)) with rad in Hin. rewrite (cyl3_inside g c rad k i j Hok) in Hin.
      pose proof (cyl_inside_range g c rad i _ Hok Hzlo Hzhi Hin) as Hjr.
      replace (j mod nz)%Z with (j - k * nz)%Z; [exact Hin|].
      apply (Z.mod_unique j nz k (j - k * nz)); [lia|lia].
  Qed.

  (* different copies are apart *)
  Lemma sepL k k' : (k <> k')%Z ->
    cg_len g <= Qabs ((c + inject_Z k * cg_len g) - (c + inject_Z k' * cg_len g)).
  Proof.
    intros Hne'. pose proof (cyl_len_pos g Hok) as HL. set (L := cg_len g) in *.
    destruct (Z_lt_le_dec k k') as [Hlt|Hge].
    - assert (H1 : (k + 1 <= k')%Z) by lia. rewrite Zle_Qle, inject_Z_plus in H1. change (inject_Z 1) with 1 in H1.
      rewrite <- Qabs_opp. eapply Qle_trans; [|apply Qle_Qabs]. nra.
    - assert (H1 : (k' + 1 <= k)%Z) by lia. rewrite Zle_Qle, inject_Z_plus in H1. change (inject_Z 1) with 1 in H1.
      eapply Qle_trans; [|apply Qle_Qabs]. nra.
  Qed.

  Lemma pd_sep : forall i j di dj, nth_error ds i = Some di -> nth_error ds j = Some dj ->
    i <> j -> apart G3 di dj.
  Proof.
    assert (Hgen : forall k k', (k <> k')%Z -> apart G3 (copy_sphere g c rad k) (copy_sphere g c rad k')).
    { intros k k' Hkk.
      apply (apart_of_axis G3 (copy_sphere g c rad k) (copy_sphere g c rad k') 1 (cyl_zax3 g) (c + inject_Z k * cg_len g) (c + inject_Z k' * cg_len g)
               eq_refl eq_refl (cyl_zax3_ok g Hok) eq_refl eq_refl).
      cbn [copy_sphere snd]. rewrite (cyl_zax3_adisc g Hok). pose proof (sepL k k' Hkk). lra. }
    intros i j di dj Hi Hj Hij.
    destruct i as [|[|[|i]]]; destruct j as [|[|[|j]]]; cbn in Hi, Hj; try congruence;
      try (destruct i; discriminate Hi); try (destruct j; discriminate Hj);
      injection Hi as <-; injection Hj as <-; apply Hgen; lia.
  Qed.

  (* every copy is connected and contains its hub on the axis *)
  Lemma pd_hub k : (0 <= k <= 2)%Z ->
    let ck := fst (copy_sphere g c rad k) in
    in_rangeL (gshape G3) (centre_cell G3 ck) /\ ridx (centre_cell G3 ck) = 0%Z.
  Proof.
    intros Hk ck. pose proof (cyl_len_pos g Hok) as HL.
    assert (E : centre_cell G3 ck = [0%Z; Qfloor (gam (cyl_zax3 g) (c + inject_Z k * cg_len g))]).
    { unfold ck. cbn [copy_sphere fst cyl_axes3 centre_cell].
      f_equal; try (rewrite (Qfloor_comp _ _ (cs_gam_r g Hok)); reflexivity). }
    rewrite E. split; [|reflexivity]. change (gshape G3) with [cg_nr g; (3 * nz)%Z].
    destruct Hok as (H1 & H2 & H3 & H4). apply in_range_cons; [lia|]. apply in_range_cons; [|constructor].
    assert (Hk1 : 0 <= inject_Z k) by (change 0 with (inject_Z 0); rewrite <- Zle_Qle; lia).
    assert (Hk2 : inject_Z k <= 2) by (change 2 with (inject_Z 2); rewrite <- Zle_Qle; lia).
    apply (hub_axis_in_range (cyl_zax3 g) (c + inject_Z k * cg_len g) rad (cyl_zax3_ok g Hok)); [|exact pd_rad_pos].
    unfold fits1. cbn [cyl_zax3 alo ahi]. unfold cg_len in *. split; nra.
  Qed.

  Lemma pd_conn d : In d ds -> forall p q, in_ball G3 d p -> in_ball G3 d q ->
    conn0 cell (ball_cells G3 (fst d) (snd d)) face_adj p q.
  Proof.
    intros Hd p q Hp Hq. destruct (pd_in_copy d Hd) as (k & Hk & ->).
    destruct (pd_hub k ltac:(lia)) as [Hr _].
    destruct (ball_connected_hub G3 (fst (copy_sphere g c rad k)) rad (cyl_axes3_ok g Hok)
                (cyl_axes3_nonper g) eq_refl Hr) as [Hhub _].
    unfold conn0, in_ball in *. change (snd (copy_sphere g c rad k)) with rad in *.
    eapply cr_trans; [apply Hhub; exact Hp|]. apply cr_sym. apply Hhub. exact Hq.
  Qed.

  Lemma pd_num_labels : num_labels img_pad = 3%nat.
  Proof. exact (mc_num_labels G3 ds img_pad pd_copy_ne pd_sep pd_conn Hwf Hspec pd_mask). Qed.

  (* the label of copy k and its members *)
  Definition plbl (k : nat) : nat := lbl G3 ds img_pad k.

  Lemma pd_nth k : (k < 3)%nat -> nth_error ds k = Some (copy_sphere g c rad (Z.of_nat k)).
  Proof. intros Hk. destruct k as [|[|[|k]]]; [reflexivity|reflexivity|reflexivity|lia]. Qed.

  Lemma pd_members k p : (k < 3)%nat ->
    (In p (members img_pad (plbl k)) <-> In p (Bk (Z.of_nat k))).
  Proof.
    intros Hk. exact (mc_members G3 ds img_pad pd_copy_ne pd_sep pd_conn Hwf Hspec pd_mask k _ (pd_nth k Hk) p).
  Qed.

  Lemma pd_surj l : (l < 3)%nat -> exists k, (k < 3)%nat /\ plbl k = l.
  Proof.
    intros Hl. rewrite <- pd_num_labels in Hl.
    destruct (mc_surj G3 ds img_pad pd_copy_ne pd_sep pd_conn Hwf Hspec pd_mask l Hl) as (i & d & Hd & E).
    exists i. split; [|exact E]. assert (i < length ds)%nat by (apply nth_error_Some; congruence).
    unfold copies in H. cbn [length] in H. exact H.
  Qed.

  Lemma pd_members_zidx k p : (k < 3)%nat -> In p (members img_pad (plbl k)) ->
    (Z.of_nat k * nz <= zidx p <= Z.of_nat k * nz + nz - 1)%Z.
  Proof.
    intros Hk Hp. apply (pd_members k p Hk) in Hp. apply pd_copy_cells in Hp; [|lia].
    destruct Hp as (i & j & -> & Hin). unfold cyl_cells in Hin. apply filter_In in Hin. destruct Hin as [Hr _].
    apply all_cells_spec in Hr. destruct (in_range2 _ _ _ Hr) as (i0 & j0 & E & _ & Hj). injection E as <- <-.
    change (zidx [i; (j + Z.of_nat k * nz)%Z]) with (j + Z.of_nat k * nz)%Z. lia.
  Qed.

  Lemma pd_members_ne k : (k < 3)%nat -> members img_pad (plbl k) <> [].
  Proof.
    intros Hk E. pose proof (pd_copy_ne _ (pd_copy_in (Z.of_nat k) ltac:(lia))) as Hn.
    change (snd (copy_sphere g c rad (Z.of_nat k))) with rad in Hn.
    destruct (Bk (Z.of_nat k)) as [|p ps] eqn:Eb; [congruence|].
    assert (Hp : In p (members img_pad (plbl k))) by (apply (pd_members k p Hk); rewrite Eb; left; reflexivity).
    rewrite E in Hp. destruct Hp.
  Qed.

  Lemma pd_on_axis l : (l < 3)%nat -> on_axis (members img_pad l) = true.
  Proof.
    intros Hl. destruct (pd_surj l Hl) as (k & Hk & <-). unfold on_axis. apply existsb_exists.
    destruct (pd_hub (Z.of_nat k) ltac:(lia)) as [Hr H0].
    destruct (ball_connected_hub G3 (fst (copy_sphere g c rad (Z.of_nat k))) rad (cyl_axes3_ok g Hok)
                (cyl_axes3_nonper g) eq_refl Hr) as [_ Hin].
    exists (centre_cell G3 (fst (copy_sphere g c rad (Z.of_nat k)))). split.
    - apply (pd_members k _ Hk). apply Hin.
      exact (pd_copy_ne _ (pd_copy_in (Z.of_nat k) ltac:(lia))).
    - rewrite H0. reflexivity.
  Qed.

  Lemma zmin_ge (cs : list cell) n : cs <> [] -> (forall p, In p cs -> (n <= zidx p)%Z) -> (n <= zmin cs)%Z.
  Proof.
    intros Hn H. unfold zmin.
    assert (Hd : (n <= zidx (hd [] cs))%Z).
    { destruct cs as [|c0 cs']; [congruence|]. apply H. left. reflexivity. }
    revert Hd. generalize (zidx (hd [] cs)). intros d Hd. clear Hn.
    induction cs as [|c0 cs' IH]; cbn [fold_right]; [exact Hd|].
    pose proof (H c0 (or_introl eq_refl)) as H0.
    assert (Hrest : (n <= fold_right (fun c1 m => Z.min (zidx c1) m) d cs')%Z).
    { apply IH. intros p Hp. apply H. right. exact Hp. }
    lia.
  Qed.

  Lemma pd_not_spanning l : (l < 3)%nat -> spans g (members img_pad l) = false.
  Proof.
    intros Hl. destruct (pd_surj l Hl) as (k & Hk & <-). unfold spans. pose proof pd_nz_pos as HN.
    apply andb_false_iff. destruct k as [|k].
    - right. apply Z.ltb_ge.
      assert (Hlt : (zmax (members img_pad (plbl 0)) < nz)%Z).
      { apply zmax_below; [exact (pd_members_ne 0 Hk)|]. intros p Hp.
        pose proof (pd_members_zidx 0 p Hk Hp). lia. }
      lia.
    - left. apply Z.eqb_neq.
      assert (Hge : (nz <= zmin (members img_pad (plbl (S k))))%Z).
      { apply zmin_ge; [exact (pd_members_ne (S k) Hk)|]. intros p Hp.
        pose proof (pd_members_zidx (S k) p Hk Hp). nia. }
      lia.
  Qed.

  Theorem pad_cyl_single :
    cyl_single g img_pad = Found [cyl_droplet g (members img_pad 0); cyl_droplet g (members img_pad 1);
                                  cyl_droplet g (members img_pad 2)].
  Proof.
    unfold cyl_single. rewrite pd_num_labels. cbn [seq filter].
    rewrite (pd_on_axis 0), (pd_on_axis 1), (pd_on_axis 2) by lia. cbn [existsb map].
    rewrite (pd_not_spanning 0), (pd_not_spanning 1), (pd_not_spanning 2) by lia. reflexivity.
  Qed.

  (* ---- statistics of the droplet of copy k ---- *)
  Lemma csum_bounds (cs : list cell) lo hi : (forall p, In p cs -> (lo <= zidx p <= hi)%Z) ->
    inject_Z lo * count cs <= csum cs (fun p => inject_Z (zidx p)) /\
    csum cs (fun p => inject_Z (zidx p)) <= inject_Z hi * count cs.
  Proof.
    unfold count, csum. induction cs as [|p cs IH]; intros H; cbn [fold_right length].
    - change (inject_Z (Z.of_nat 0)) with 0. split; lra.
    - destruct IH as [I1 I2]; [intros q Hq; apply H; right; exact Hq|].
      destruct (H p (or_introl eq_refl)) as [H1 H2]. rewrite Zle_Qle in H1, H2.
      rewrite Nat2Z.inj_succ. unfold Z.succ. rewrite inject_Z_plus. change (inject_Z 1) with 1.
      split; lra.
  Qed.

  Lemma pd_zpos_range k : (k < 3)%nat ->
    let z := fst (cyl_droplet g (members img_pad (plbl k))) in
    cg_zlo g + inject_Z (Z.of_nat k) * cg_len g + (1 # 2) * cg_dz g <= z /\
    z <= cg_zlo g + (inject_Z (Z.of_nat k) + 1) * cg_len g - (1 # 2) * cg_dz g.
  Proof.
    intros Hk z. unfold z. cbn [cyl_droplet fst]. set (M := members img_pad (plbl k)).
    assert (Hc : 0 < count M).
    { unfold count. change 0 with (inject_Z 0). rewrite <- Zlt_Qlt.
      pose proof (pd_members_ne k Hk) as Hn. fold M in Hn. destruct M; [congruence|cbn [length]; lia]. }
    destruct (csum_bounds M (Z.of_nat k * nz) (Z.of_nat k * nz + nz - 1)) as [B1 B2].
    { intros p Hp. exact (pd_members_zidx k p Hk Hp). }
    assert (Hdz : 0 < cg_dz g).
    { rewrite <- (cyl_zax3_adisc g Hok). apply adisc_pos. exact (cyl_zax3_ok g Hok). }
    pose proof (cyl_nz_dz g Hok) as EL.
    set (S := csum M (fun p => inject_Z (zidx p))) in *.
    assert (D1 : inject_Z (Z.of_nat k * nz) <= S / count M).
    { apply Qle_shift_div_l; [exact Hc|exact B1]. }
    assert (D2 : S / count M <= inject_Z (Z.of_nat k * nz + nz - 1)).
    { apply Qle_shift_div_r; [exact Hc|exact B2]. }
    unfold Zminus in D2. rewrite !inject_Z_plus, inject_Z_mult in D2. rewrite inject_Z_mult in D1.
    change (inject_Z (- (1))) with (- (1)) in D2.
    set (m := S / count M) in *. set (K := inject_Z (Z.of_nat k)) in *. set (Nz := inject_Z nz) in *.
    set (dz := cg_dz g) in *.
    assert (P1 : 0 <= dz * (m - K * Nz)) by (apply Qmult_le_0_compat; lra).
    assert (P2 : 0 <= dz * (K * Nz + Nz - 1 - m)) by (apply Qmult_le_0_compat; lra).
    assert (E1 : K * cg_len g == K * Nz * dz) by (rewrite <- EL; ring).
    assert (E2 : (K + 1) * cg_len g == (K * Nz + Nz) * dz) by (rewrite <- EL; ring).
    split; lra.
  Qed.

  Lemma pd_position k : (k < 3)%nat ->
    Qabs (fst (cyl_droplet g (members img_pad (plbl k))) - (c + inject_Z (Z.of_nat k) * cg_len g))
    <= cg_dz g / 2.
  Proof.
    intros Hk. pose proof (cyl_len_pos g Hok) as HL.
    assert (Hk1 : 0 <= inject_Z (Z.of_nat k)) by (change 0 with (inject_Z 0); rewrite <- Zle_Qle; lia).
    assert (Hk2 : inject_Z (Z.of_nat k) <= 2) by (change 2 with (inject_Z 2); rewrite <- Zle_Qle; lia).
    assert (Hfit : fits1 (cyl_zax3 g) (c + inject_Z (Z.of_nat k) * cg_len g) rad).
    { unfold fits1. cbn [cyl_zax3 alo ahi]. unfold cg_len in *. split; nra. }
    pose proof (cluster_position G3 (fst (copy_sphere g c rad (Z.of_nat k))) rad img_pad (plbl k) 1
                  (cyl_zax3 g) (c + inject_Z (Z.of_nat k) * cg_len g) (cyl_axes3_ok g Hok)
                  (cyl_axes3_nonper g) Hwf (fun p => pd_members k p Hk)
                  (pd_copy_ne _ (pd_copy_in (Z.of_nat k) ltac:(lia))) eq_refl eq_refl Hfit) as H.
    rewrite (cyl_zax3_adisc g Hok) in H. exact H.
  Qed.

  Lemma pd_volume k : (k < 3)%nat ->
    snd (cyl_droplet g (members img_pad (plbl k))) == lsum (cyl_cells g c rad) (fun p => shell g (ridx p)).
  Proof.
    intros Hk. cbn [cyl_droplet snd]. rewrite csum_lsum.
    set (sh := fun p : cell => match p with [i; j] => [i; (j + Z.of_nat k * nz)%Z] | _ => p end).
    assert (HP : Permutation (members img_pad (plbl k)) (map sh (cyl_cells g c rad))).
    { apply NoDup_Permutation.
      - apply members_nodup. exact (wf_keys_nodup G3 img_pad Hwf).
      - apply nodup_map_inj_on.
        + unfold cyl_cells. apply NoDup_filter. apply nodup_all_cells.
        + intros x y Hx Hy E. unfold cyl_cells in Hx, Hy. apply filter_In in Hx. apply filter_In in Hy.
          destruct Hx as [Hx _]. destruct Hy as [Hy _]. apply all_cells_spec in Hx. apply all_cells_spec in Hy.
          destruct (in_range2 _ _ _ Hx) as (i1 & j1 & -> & _). destruct (in_range2 _ _ _ Hy) as (i2 & j2 & -> & _).
          cbn [sh] in E. injection E as E1 E2. f_equal; [exact E1|]. f_equal. lia.
      - intros p. rewrite (pd_members k p Hk), pd_copy_cells by lia. rewrite in_map_iff. split.
        + intros (i & j & -> & Hin). exists [i; j]. split; [reflexivity|exact Hin].
        + intros (x & <- & Hin). pose proof Hin as Hin'. unfold cyl_cells in Hin'. apply filter_In in Hin'.
          destruct Hin' as [Hx _]. apply all_cells_spec in Hx. destruct (in_range2 _ _ _ Hx) as (i & j & -> & _).
          exists i, j. split; [reflexivity|exact Hin]. }
    rewrite (lsum_perm _ _ _ HP), lsum_map. apply lsum_ext. intros p Hp.
    unfold cyl_cells in Hp. apply filter_In in Hp. destruct Hp as [Hx _]. apply all_cells_spec in Hx.
    destruct (in_range2 _ _ _ Hx) as (i & j & -> & _). reflexivity.
  Qed.

  (* ---- the window keeps exactly the droplet of the middle copy ---- *)
  Lemma pd_plbl_lt k : (k < 3)%nat -> (plbl k < 3)%nat.
  Proof.
    intros Hk. rewrite <- pd_num_labels.
    exact (lbl_lt G3 ds img_pad pd_copy_ne Hwf pd_mask k _ (pd_nth k Hk)).
  Qed.

  Lemma pd_plbl_inj k k' : (k < 3)%nat -> (k' < 3)%nat -> plbl k = plbl k' -> k = k'.
  Proof.
    intros Hk Hk' E.
    exact (mc_inj G3 ds img_pad pd_copy_ne pd_sep pd_conn Hwf Hspec pd_mask k k' _ _ (pd_nth k Hk) (pd_nth k' Hk') E).
  Qed.

  Lemma pd_dz_pos : 0 < cg_dz g.
  Proof. rewrite <- (cyl_zax3_adisc g Hok). apply adisc_pos. exact (cyl_zax3_ok g Hok). Qed.

  Lemma pd_test k : (k < 3)%nat ->
    Qle_bool (cg_zlo g) (fst (cyl_droplet g (members img_pad (plbl k))) - cg_len g)
    && negb (Qle_bool (cg_zhi g) (fst (cyl_droplet g (members img_pad (plbl k))) - cg_len g))
    = Nat.eqb k 1.
  Proof.
    intros Hk. destruct (pd_zpos_range k Hk) as [Z1 Z2]. pose proof pd_dz_pos as Hdz.
    pose proof (cyl_len_pos g Hok) as HL. set (z := fst (cyl_droplet g (members img_pad (plbl k)))) in *.
    assert (Ehi : cg_zhi g == cg_zlo g + cg_len g) by (unfold cg_len; ring).
    destruct k as [|[|[|k]]]; [| | |lia]; cbn [Z.of_nat Pos.of_succ_nat Pos.succ Nat.eqb] in *.
    - change (inject_Z 0) with 0 in Z1, Z2.
      destruct (Qle_bool (cg_zlo g) (z - cg_len g)) eqn:E1; [|reflexivity].
      apply Qle_bool_iff in E1. exfalso. lra.
    - change (inject_Z 1) with 1 in Z1, Z2.
      assert (E1 : Qle_bool (cg_zlo g) (z - cg_len g) = true) by (apply Qle_bool_iff; lra).
      rewrite E1. destruct (Qle_bool (cg_zhi g) (z - cg_len g)) eqn:E2; [|reflexivity].
      apply Qle_bool_iff in E2. exfalso. lra.
    - change (inject_Z 2) with 2 in Z1, Z2.
      assert (E2 : Qle_bool (cg_zhi g) (z - cg_len g) = true) by (apply Qle_bool_iff; lra).
      rewrite E2. apply andb_false_r.
  Qed.

  Lemma pd_test_label l : (l < 3)%nat ->
    Qle_bool (cg_zlo g) (fst (cyl_droplet g (members img_pad l)) - cg_len g)
    && negb (Qle_bool (cg_zhi g) (fst (cyl_droplet g (members img_pad l)) - cg_len g))
    = Nat.eqb l (plbl 1).
  Proof.
    intros Hl. destruct (pd_surj l Hl) as (k & Hk & <-). rewrite (pd_test k Hk).
    destruct (Nat.eqb_spec k 1) as [->|Hne1].
    - symmetry. apply Nat.eqb_refl.
    - symmetry. apply Nat.eqb_neq. intros E. apply Hne1. apply (pd_plbl_inj k 1 Hk); [lia|exact E].
  Qed.

  Theorem pad_window :
    cyl_window g [cyl_droplet g (members img_pad 0); cyl_droplet g (members img_pad 1);
                  cyl_droplet g (members img_pad 2)]
    = [(fst (cyl_droplet g (members img_pad (plbl 1))) - cg_len g,
        snd (cyl_droplet g (members img_pad (plbl 1))))].
  Proof.
    unfold cyl_window. cbn [map filter fst snd].
    rewrite (pd_test_label 0), (pd_test_label 1), (pd_test_label 2) by lia.
    pose proof (pd_plbl_lt 1 ltac:(lia)) as Hlt.
    destruct (plbl 1) as [|[|[|l]]]; [| | |lia]; cbn [Nat.eqb]; reflexivity.
  Qed.
End Padded.

(* one on-axis sphere on a periodic cylinder: exactly one candidate, volume / pi = sum of the shells of the
   covered cells, axial position within half an axial spacing of the true centre and inside [z_lo, z_hi) *)
Theorem c01_cyl_periodic_single g c rad img_pad img : cyl_ok g -> cg_per g = true ->
  cg_zlo g <= c - rad -> c + rad <= cg_zhi g -> 2 * rad + cg_dz g <= cg_len g ->
  cyl_cells g c rad <> [] ->
  wf_img (cyl_axes3 g) img_pad -> LabelSpecImg img_pad ->
  (forall idx, in_rangeL [cg_nr g; (3 * cg_nz g)%Z] idx ->
     (lab_of img_pad idx <> 0%nat <-> cyl_inside g c rad (ridx idx) (zidx idx mod cg_nz g) = true)) ->
  exists z v, cyl_candidates g img_pad img = [(z, v)] /\
    v == lsum (cyl_cells g c rad) (fun p => shell g (ridx p)) /\
    Qabs (z - c) <= cg_dz g / 2 /\ cg_zlo g <= z /\ z < cg_zhi g.
Proof.
  intros Hok Hper Hzlo Hzhi Hgap Hne Hwf Hspec Hmask.
  set (k1 := plbl g c rad img_pad 1).
  exists (fst (cyl_droplet g (members img_pad k1)) - cg_len g), (snd (cyl_droplet g (members img_pad k1))).
  split; [|split; [|split]].
  - unfold cyl_candidates. rewrite Hper.
    rewrite (pad_cyl_single g c rad img_pad Hok Hzlo Hzhi Hgap Hne Hwf Hspec Hmask).
    exact (pad_window g c rad img_pad Hok Hzlo Hzhi Hgap Hne Hwf Hspec Hmask).
  - exact (pd_volume g c rad img_pad Hok Hzlo Hzhi Hgap Hne Hwf Hspec Hmask 1 ltac:(lia)).
  - pose proof (pd_position g c rad img_pad Hok Hzlo Hzhi Hgap Hne Hwf Hspec Hmask 1 ltac:(lia)) as H.
    fold k1 in H. change (inject_Z (Z.of_nat 1)) with 1 in H.
    assert (E : fst (cyl_droplet g (members img_pad k1)) - cg_len g - c
                == fst (cyl_droplet g (members img_pad k1)) - (c + 1 * cg_len g)) by ring.
    rewrite E. exact H.
  - destruct (pd_zpos_range g c rad img_pad Hok Hzlo Hzhi Hgap Hne Hwf Hspec Hmask 1 ltac:(lia)) as [Z1 Z2].
    fold k1 in Z1, Z2. change (inject_Z (Z.of_nat 1)) with 1 in Z1, Z2.
    pose proof (pd_dz_pos g Hok) as Hdz. unfold cg_len in *. split; lra.
Qed.

(* ---- the premises are satisfiable: the grid of C01Cyl.c01_cyl_nonvacuous made periodic (3 x 6 cells,
        sphere at z = 14/5 with radius 8/5, four covered cells), padded to 3 x 18 ---- *)
Definition excp_grid : cylgrid :=
  {| cg_nr := 3; cg_nz := 6; cg_R := 3; cg_zlo := 0; cg_zhi := 6; cg_per := true |}.
Definition excp_lab : list nat :=
  [0; 1; 1; 1; 0; 0;  0; 2; 2; 2; 0; 0;  0; 3; 3; 3; 0; 0;
   0; 0; 1; 0; 0; 0;  0; 0; 2; 0; 0; 0;  0; 0; 3; 0; 0; 0;
   0; 0; 0; 0; 0; 0;  0; 0; 0; 0; 0; 0;  0; 0; 0; 0; 0; 0]%nat.

Example c01_cyl_periodic_nonvacuous :
  let g := excp_grid in let c := 14 # 5 in let rad := 8 # 5 in
  let img_pad := mk_limage [cg_nr g; (3 * cg_nz g)%Z] excp_lab in
  cyl_ok g /\ cg_per g = true /\ cg_zlo g <= c - rad /\ c + rad <= cg_zhi g /\
  2 * rad + cg_dz g <= cg_len g /\ cyl_cells g c rad <> [] /\
  wf_img (cyl_axes3 g) img_pad /\ LabelSpecImg img_pad /\
  (forall idx, in_rangeL [cg_nr g; (3 * cg_nz g)%Z] idx ->
     (lab_of img_pad idx <> 0%nat <-> cyl_inside g c rad (ridx idx) (zidx idx mod cg_nz g) = true)).
Proof.
  intros g c rad img_pad.
  assert (Hok : cyl_ok g) by (repeat split).
  assert (Hzlo : cg_zlo g <= c - rad) by (apply Qle_bool_iff; vm_compute; reflexivity).
  assert (Hzhi : c + rad <= cg_zhi g) by (apply Qle_bool_iff; vm_compute; reflexivity).
  assert (Hgap : 2 * rad + cg_dz g <= cg_len g) by (apply Qle_bool_iff; vm_compute; reflexivity).
  assert (Hne : cyl_cells g c rad <> []) by (vm_compute; discriminate).
  assert (Hwf : wf_img (cyl_axes3 g) img_pad) by (apply wf_imgb_true; vm_compute; reflexivity).
  assert (Hmask : forall idx, in_rangeL [cg_nr g; (3 * cg_nz g)%Z] idx ->
            (lab_of img_pad idx <> 0%nat <-> cyl_inside g c rad (ridx idx) (zidx idx mod cg_nz g) = true)).
  { intros idx Hr. mask_enum Hr. }
  split; [exact Hok|]. split; [reflexivity|]. split; [exact Hzlo|]. split; [exact Hzhi|].
  split; [exact Hgap|]. split; [exact Hne|]. split; [exact Hwf|]. split; [|exact Hmask].
  (* LabelSpecImg through the general theory: same label <-> same copy <-> box-connected *)
  pose proof (pd_mask g c rad img_pad Hok Hzlo Hzhi Hmask) as Hem.
  pose proof (pd_sep g c rad Hok Hgap) as Hsep.
  assert (Hconn := pd_conn g c rad Hok Hzlo Hzhi Hne).
  assert (Hm : mask_cells img_pad
               = [[0; 1]; [0; 2]; [0; 3]; [0; 7]; [0; 8]; [0; 9]; [0; 13]; [0; 14]; [0; 15];
                  [1; 2]; [1; 8]; [1; 14]]%Z) by (vm_compute; reflexivity).
  assert (B0 : ball_cells (cyl_axes3 g) (fst (copy_sphere g c rad 0)) rad = [[0; 1]; [0; 2]; [0; 3]; [1; 2]]%Z)
    by (vm_compute; reflexivity).
  assert (B1 : ball_cells (cyl_axes3 g) (fst (copy_sphere g c rad 1)) rad = [[0; 7]; [0; 8]; [0; 9]; [1; 8]]%Z)
    by (vm_compute; reflexivity).
  assert (B2 : ball_cells (cyl_axes3 g) (fst (copy_sphere g c rad 2)) rad
               = [[0; 13]; [0; 14]; [0; 15]; [1; 14]]%Z) by (vm_compute; reflexivity).
  assert (S0 : forall p q, In p [[0; 1]; [0; 2]; [0; 3]; [1; 2]]%Z -> In q [[0; 1]; [0; 2]; [0; 3]; [1; 2]]%Z ->
                 same_ball (cyl_axes3 g) (copies g c rad) p q).
  { intros p q Hp Hq. exists 0%nat, (copy_sphere g c rad 0). split; [reflexivity|].
    unfold in_ball. change (snd (copy_sphere g c rad 0)) with rad. rewrite B0. split; assumption. }
  assert (S1 : forall p q, In p [[0; 7]; [0; 8]; [0; 9]; [1; 8]]%Z -> In q [[0; 7]; [0; 8]; [0; 9]; [1; 8]]%Z ->
                 same_ball (cyl_axes3 g) (copies g c rad) p q).
  { intros p q Hp Hq. exists 1%nat, (copy_sphere g c rad 1). split; [reflexivity|].
    unfold in_ball. change (snd (copy_sphere g c rad 1)) with rad. rewrite B1. split; assumption. }
  assert (S2 : forall p q, In p [[0; 13]; [0; 14]; [0; 15]; [1; 14]]%Z ->
                 In q [[0; 13]; [0; 14]; [0; 15]; [1; 14]]%Z ->
                 same_ball (cyl_axes3 g) (copies g c rad) p q).
  { intros p q Hp Hq. exists 2%nat, (copy_sphere g c rad 2). split; [reflexivity|].
    unfold in_ball. change (snd (copy_sphere g c rad 2)) with rad. rewrite B2. split; assumption. }
  intros a b Ha Hb0. split.
  - intros E.
    assert (Hsame : same_ball (cyl_axes3 g) (copies g c rad) a b).
    { rewrite Hm in Ha, Hb0. cbn [In] in Ha, Hb0.
      repeat (destruct Ha as [<-|Ha]); try (destruct Ha);
        repeat (destruct Hb0 as [<-|Hb0]); try (destruct Hb0);
        first [ exfalso; vm_compute in E; discriminate E
              | apply S0; cbn [In]; tauto | apply S1; cbn [In]; tauto | apply S2; cbn [In]; tauto ]. }
    destruct Hsame as (i & d & Hd & Hp & Hq). pose proof (nth_error_In _ _ Hd) as Hin.
    pose proof (Hconn d Hin a b Hp Hq) as H.
    unfold box_conn, conn0 in *. revert H. apply clos_mono.
    intros u v (Hu & Hv & Hf). split; [exact (in_ball_mask _ _ _ Hwf Hem i d u Hd Hu)|].
    split; [exact (in_ball_mask _ _ _ Hwf Hem i d v Hd Hv)|exact Hf].
  - intros Hc. destruct (conn_same _ _ _ Hsep Hwf Hem a b Hc) as [<-|(i & d & Hd & Hp & Hq)]; [reflexivity|].
    unfold in_ball in Hp, Hq.
    destruct i as [|[|[|i]]]; cbn in Hd; [| | |destruct i; discriminate Hd]; injection Hd as <-;
      [change (snd (copy_sphere g c rad 0)) with rad in Hp, Hq; rewrite B0 in Hp, Hq
      |change (snd (copy_sphere g c rad 1)) with rad in Hp, Hq; rewrite B1 in Hp, Hq
      |change (snd (copy_sphere g c rad 2)) with rad in Hp, Hq; rewrite B2 in Hp, Hq];
      cbn [In] in Hp, Hq;
      repeat (destruct Hp as [<-|Hp]); try (destruct Hp);
      repeat (destruct Hq as [<-|Hq]); try (destruct Hq); vm_compute; reflexivity.
Qed.

Print Assumptions mc_num_labels.
Print Assumptions pad_cyl_single.
Print Assumptions pad_window.
Print Assumptions c01_cyl_periodic_single.
Print Assumptions c01_cyl_periodic_nonvacuous.
