(* The flood fill of Model/Label.v computes connected components:
     nbrs_spec       : nbrs c enumerates exactly the face neighbours of c (face_adj of Proofs/LocateCart.v);
     flood_inv       : invariants of the work-list iteration; with fuel >= |work| + |mc| - |visited| the
                       result is closed under mask neighbours (cardinality argument: visited is a
                       duplicate-free sub-list of the mask cells);
     component_spec  : for a seed s in the mask cells mc,
                       In d (component mc s)  <->  conn0 cell mc face_adj s d
                       (the reflexive-symmetric-transitive closure of face adjacency inside mc);
     component_nodup, component_in_mc, component_refl. *)
From Coq Require Import ZArith List Arith Bool Lia.
Import ListNotations.
From PD Require Import Model.Grid Model.MergeLoop Model.Locate Model.Label
  Proofs.Components Proofs.LocateCart.

Lemma cell_inb_spec c s : cell_inb c s = true <-> In c s.
Proof.
  unfold cell_inb. rewrite existsb_exists. split.
  - intros (x & Hx & E). apply cell_eqb_spec in E. subst x. exact Hx.
  - intros H. exists c. split; [exact H|]. apply cell_eqb_spec. reflexivity.
Qed.

Lemma cell_inb_false c s : cell_inb c s = false <-> ~ In c s.
Proof.
  rewrite <- cell_inb_spec. destruct (cell_inb c s).
  - split; [discriminate|]. intros H. exfalso. apply H. reflexivity.
  - split; [|reflexivity]. intros _ H. discriminate H.
Qed.

Lemma face_adj_sym a b : face_adj a b -> face_adj b a.
Proof.
  intros H. induction H as [x y c Hxy|x c d _ IH].
  - apply fa_here. lia.
  - apply fa_there. exact IH.
Qed.

Lemma nbrs_spec : forall c d, In d (nbrs c) <-> face_adj c d.
Proof.
  induction c as [|x c IH]; intros d; cbn [nbrs In].
  - split; [intros []|]. intros H. inversion H.
  - rewrite in_map_iff. split.
    + intros [E|[E|(d' & E & Hd')]]; subst d.
      * apply fa_here. lia.
      * apply fa_here. lia.
      * apply fa_there. apply IH. exact Hd'.
    + intros H. inversion H as [x' y c' Hxy|x' c' d' Hf]; subst.
      * destruct (Z.eq_dec y (x - 1)) as [->|Hne]; [left; reflexivity|].
        right. left. f_equal. lia.
      * right. right. exists d'. split; [reflexivity|]. apply IH. exact Hf.
Qed.

Lemma nbrs_nodup : forall c, NoDup (nbrs c).
Proof.
  induction c as [|x c IH]; cbn [nbrs]; [constructor|].
  constructor; [|constructor].
  - intros [E|H].
    + injection E as E. lia.
    + apply in_map_iff in H. destruct H as (d & E & _). injection E as E _. lia.
  - intros H. apply in_map_iff in H. destruct H as (d & E & _). injection E as E _. lia.
  - apply nodup_map_cons. exact IH.
Qed.

Section Flood.
  Variable mc : list cell.

  Local Notation conn := (conn0 cell mc face_adj).

  Lemma conn_step a b : In a mc -> In b mc -> face_adj a b -> conn a b.
  Proof. intros Ha Hb Hf. apply cr_step. split; [exact Ha|]. split; [exact Hb|exact Hf]. Qed.

  (* a set of mask cells closed under mask neighbours is a union of classes *)
  Lemma closed_conn (R : list cell) :
    (forall v d, In v R -> face_adj v d -> In d mc -> In d R) ->
    (forall v, In v R -> In v mc) ->
    forall x y, conn x y -> (In x R <-> In y R).
  Proof.
    intros Hcl Hmc x y H. induction H as [x|x y _ IH|x y z _ IH1 _ IH2|x y (Hx & Hy & Hf)].
    - reflexivity.
    - symmetry. exact IH.
    - rewrite IH1. exact IH2.
    - split; intros Hin.
      + apply (Hcl x y Hin Hf Hy).
      + apply (Hcl y x Hin (face_adj_sym _ _ Hf) Hx).
  Qed.

  Lemma flood_inv s : forall fuel work visited,
    incl work visited ->
    (forall v, In v visited -> In v mc /\ conn s v) ->
    NoDup visited ->
    (forall v, In v visited ->
       In v work \/ (forall d, face_adj v d -> In d mc -> In d visited)) ->
    length work + (length mc - length visited) <= fuel ->
    incl visited (flood mc fuel work visited) /\
    (forall v, In v (flood mc fuel work visited) -> In v mc /\ conn s v) /\
    NoDup (flood mc fuel work visited) /\
    (forall v d, In v (flood mc fuel work visited) -> face_adj v d -> In d mc ->
       In d (flood mc fuel work visited)).
  Proof.
    induction fuel as [|f IH]; intros work visited Hwv Hsound Hnd Hcl Hfuel.
    - cbn [flood]. destruct work as [|c w]; [|cbn [length] in Hfuel; lia].
      split; [apply incl_refl|]. split; [exact Hsound|]. split; [exact Hnd|].
      intros v d Hv Hf Hd. destruct (Hcl v Hv) as [[]|H]. apply H; assumption.
    - destruct work as [|c w].
      + cbn [flood]. split; [apply incl_refl|]. split; [exact Hsound|]. split; [exact Hnd|].
        intros v d Hv Hf Hd. destruct (Hcl v Hv) as [[]|H]. apply H; assumption.
      + cbn [flood].
        set (new := filter (fun d => cell_inb d mc && negb (cell_inb d visited)) (nbrs c)).
        assert (Hnew : forall d, In d new <-> face_adj c d /\ In d mc /\ ~ In d visited).
        { intros d. unfold new. rewrite filter_In, nbrs_spec, andb_true_iff, negb_true_iff,
            cell_inb_spec, cell_inb_false. reflexivity. }
        assert (Hc : In c mc /\ conn s c) by (apply Hsound; apply Hwv; left; reflexivity).
        assert (Hnd' : NoDup (new ++ visited)).
        { apply nodup_app; [apply NoDup_filter; apply nbrs_nodup|exact Hnd|].
          intros x Hx. apply Hnew in Hx. tauto. }
        assert (Hmc' : incl (new ++ visited) mc).
        { intros x Hx. apply in_app_iff in Hx. destruct Hx as [Hx|Hx].
          - apply Hnew in Hx. tauto.
          - apply Hsound. exact Hx. }
        pose proof (NoDup_incl_length Hnd' Hmc') as Hlen. rewrite app_length in Hlen.
        destruct (IH (new ++ w) (new ++ visited)) as (I1 & I2 & I3 & I4).
        * intros x Hx. apply in_app_iff in Hx. apply in_app_iff. destruct Hx as [Hx|Hx]; [left; exact Hx|].
          right. apply Hwv. right. exact Hx.
        * intros v Hv. apply in_app_iff in Hv. destruct Hv as [Hv|Hv]; [|apply Hsound; exact Hv].
          apply Hnew in Hv. destruct Hv as (Hf & Hv & _). split; [exact Hv|].
          apply cr_trans with c; [apply Hc|]. apply conn_step; [apply Hc|exact Hv|exact Hf].
        * exact Hnd'.
        * intros v Hv. apply in_app_iff in Hv. destruct Hv as [Hv|Hv].
          { left. apply in_app_iff. left. exact Hv. }
          destruct (Hcl v Hv) as [[E|Hw]|Hclosed].
          { subst v. right. intros d Hf Hd. apply in_app_iff.
            destruct (cell_inb d visited) eqn:E.
            - right. apply cell_inb_spec. exact E.
            - left. apply Hnew. split; [exact Hf|]. split; [exact Hd|]. apply cell_inb_false. exact E. }
          { left. apply in_app_iff. right. exact Hw. }
          { right. intros d Hf Hd. apply in_app_iff. right. apply Hclosed; assumption. }
        * rewrite !app_length. cbn [length] in Hfuel. lia.
        * split; [|split; [exact I2|split; [exact I3|exact I4]]].
          intros x Hx. apply I1. apply in_app_iff. right. exact Hx.
  Qed.

  Section Seed.
    Variable s : cell.
    Hypothesis Hs : In s mc.

    Lemma component_facts :
      In s (component mc s) /\
      (forall v, In v (component mc s) -> In v mc /\ conn s v) /\
      NoDup (component mc s) /\
      (forall v d, In v (component mc s) -> face_adj v d -> In d mc -> In d (component mc s)).
    Proof.
      unfold component.
      destruct (flood_inv s (length mc) [s] [s]) as (I1 & I2 & I3 & I4).
      - apply incl_refl.
      - intros v [<-|[]]. split; [exact Hs|apply cr_refl].
      - constructor; [intros []|constructor].
      - intros v Hv. left. exact Hv.
      - destruct mc as [|x l]; [destruct Hs|]. cbn [length]. lia.
      - split; [apply I1; left; reflexivity|]. split; [exact I2|]. split; [exact I3|exact I4].
    Qed.

    Theorem component_spec d : In d (component mc s) <-> conn s d.
    Proof.
      destruct component_facts as (I1 & I2 & _ & I4). split.
      - intros H. apply I2. exact H.
      - intros H. apply (closed_conn (component mc s) I4 (fun v Hv => proj1 (I2 v Hv)) s d H). exact I1.
    Qed.

    Lemma component_refl : In s (component mc s).
    Proof. apply component_facts. Qed.

    Lemma component_in_mc d : In d (component mc s) -> In d mc.
    Proof. intros H. apply component_facts. exact H. Qed.

    Lemma component_nodup : NoDup (component mc s).
    Proof. apply component_facts. Qed.
  End Seed.
End Flood.

Print Assumptions nbrs_spec.
Print Assumptions component_spec.
Print Assumptions component_nodup.
