(* C01 geometry, part 3: a digitised ball that lies inside the (non-periodic) box is face-connected.
   Hub of the proof: the cell  z = centre_cell g c  (z_i = floor gamma_i, a nearest cell along every
   axis).  From any covered cell walk axis by axis towards z; along an axis the offset |i + 1/2 - gamma|
   never increases on the way to floor gamma, so every visited cell is covered, and it lies in the box
   because its coordinates are between those of the start cell and of z (z is in the box because the
   sphere fits and r > 0).  No case distinction on ties is needed.
     path_to_centre : generalised to the slices { dist2 < s2 } (induction over the axis list);
     ball_connected : any two cells of ball_cells g c r are joined by a chain of face-adjacent cells of
                      ball_cells g c r  (conn0 = clos of step0, the relation used by LocateCart.box_conn);
     ball_box_conn  : the same for the mask cells of any well-formed label image whose non-zero cells
                      are exactly the covered cells: box_conn img p q.
   Non-vacuity: ball_example (a 5 x 4 anisotropic grid, 6 covered cells). *)
From Coq Require Import QArith Qabs Qround ZArith List Arith Bool Lia Lqa Setoid Morphisms.
Import ListNotations.
From PD Require Import Model.Grid Model.Render Model.MergeLoop Model.Locate Model.Ball
  Proofs.Render Proofs.MergeLoop Proofs.Components Proofs.LocateCart
  Proofs.BallRow Proofs.BallCentroid Proofs.BallSep.
Local Open Scope Q_scope.

Local Notation in_rangeL := LocateCart.in_range.

Lemma clos_map {A B : Type} (R : A -> A -> Prop) (R' : B -> B -> Prop) (f : A -> B) :
  (forall u v, R u v -> R' (f u) (f v)) -> forall a b, clos R a b -> clos R' (f a) (f b).
Proof.
  intros H a b Hc. induction Hc as [x|x y _ IH|x y z _ IH1 _ IH2|x y Hs].
  - apply cr_refl.
  - apply cr_sym. exact IH.
  - eapply cr_trans; eassumption.
  - apply cr_step. apply H. exact Hs.
Qed.

(* ---- one axis: stepping towards floor gamma does not increase the distance ---- *)
Lemma towards_down a x i : axis_ok a -> (Qfloor (gam a x) < i)%Z ->
  (centre1 a (i - 1) - x) * (centre1 a (i - 1) - x) <= (centre1 a i - x) * (centre1 a i - x).
Proof.
  intros Hok Hi. pose proof (adisc_pos a Hok) as Hh.
  rewrite !(centre1_rowoff a x _ Hok), rowoff_pred.
  pose proof (Qlt_floor (gam a x)) as Hf.
  assert (Hi' : (Qfloor (gam a x) + 1 <= i)%Z) by lia. rewrite Zle_Qle in Hi'.
  set (h := adisc a) in *. set (o := rowoff (gam a x) i).
  assert (Ho : 1 # 2 <= o) by (unfold o, rowoff; lra).
  assert (H1 : (o - 1) * (o - 1) <= o * o) by nra.
  assert (H2 : 0 < h * h) by nra. nra.
Qed.

Lemma towards_up a x i : axis_ok a -> (i < Qfloor (gam a x))%Z ->
  (centre1 a (i + 1) - x) * (centre1 a (i + 1) - x) <= (centre1 a i - x) * (centre1 a i - x).
Proof.
  intros Hok Hi. pose proof (adisc_pos a Hok) as Hh.
  rewrite !(centre1_rowoff a x _ Hok), rowoff_succ.
  pose proof (Qfloor_le (gam a x)) as Hf.
  assert (Hi' : (i + 1 <= Qfloor (gam a x))%Z) by lia. rewrite Zle_Qle, inject_Z_plus in Hi'.
  change (inject_Z 1) with 1 in Hi'.
  set (h := adisc a) in *. set (o := rowoff (gam a x) i).
  assert (Ho : o <= - (1 # 2)) by (unfold o, rowoff; lra).
  assert (H1 : (o + 1) * (o + 1) <= o * o) by nra.
  assert (H2 : 0 < h * h) by nra. nra.
Qed.

(* ---- the slices { dist2 < s2 } restricted to the box, and their face steps ---- *)
Definition wstep (g : grid) (c : list Q) (s2 : Q) (p q : cell) : Prop :=
  in_rangeL (gshape g) p /\ in_rangeL (gshape g) q /\
  within g c s2 p = true /\ within g c s2 q = true /\ face_adj p q.

Lemma within_step a g x c s2 i j t : aper a = false ->
  (centre1 a j - x) * (centre1 a j - x) <= (centre1 a i - x) * (centre1 a i - x) ->
  within (a :: g) (x :: c) s2 (i :: t) = true -> within (a :: g) (x :: c) s2 (j :: t) = true.
Proof.
  intros Hper Hle. unfold within. rewrite !Qlt_bool_iff, !(d2cell_cons a g x c _ t Hper). lra.
Qed.

Lemma in_range_cons n rest i t : (0 <= i < n)%Z -> in_rangeL rest t -> in_rangeL (n :: rest) (i :: t).
Proof. intros Hi Ht. apply in_range_cons_inv. exists i, t. split; [reflexivity|]. split; assumption. Qed.

(* walk along the first axis to the coordinate of the hub *)
Lemma walk_axis a g x c s2 t z : aper a = false -> axis_ok a -> z = Qfloor (gam a x) ->
  (0 <= z < ncell a)%Z -> in_rangeL (gshape g) t ->
  forall n i, Z.abs_nat (i - z) = n -> (0 <= i < ncell a)%Z ->
    within (a :: g) (x :: c) s2 (i :: t) = true ->
    clos (wstep (a :: g) (x :: c) s2) (i :: t) (z :: t).
Proof.
  intros Hper Hok Hz Hzr Ht. induction n as [|n IH]; intros i Hn Hi Hw.
  - assert (i = z) by lia. subst i. apply cr_refl.
  - destruct (Z_lt_le_dec z i) as [Hgt|Hle].
    + assert (Hw' : within (a :: g) (x :: c) s2 ((i - 1)%Z :: t) = true).
      { apply (within_step a g x c s2 i (i - 1) t Hper); [|exact Hw].
        apply towards_down; [exact Hok|]. rewrite <- Hz. exact Hgt. }
      eapply cr_trans; [apply cr_step|apply (IH (i - 1)%Z); [lia|lia|exact Hw']].
      unfold wstep. unfold gshape. cbn [map]. fold (gshape g).
      split; [apply in_range_cons; [exact Hi|exact Ht]|].
      split; [apply in_range_cons; [lia|exact Ht]|].
      split; [exact Hw|]. split; [exact Hw'|]. apply fa_here. lia.
    + assert (Hlt : (i < z)%Z) by lia.
      assert (Hw' : within (a :: g) (x :: c) s2 ((i + 1)%Z :: t) = true).
      { apply (within_step a g x c s2 i (i + 1) t Hper); [|exact Hw].
        apply towards_up; [exact Hok|]. rewrite <- Hz. exact Hlt. }
      eapply cr_trans; [apply cr_step|apply (IH (i + 1)%Z); [lia|lia|exact Hw']].
      unfold wstep. unfold gshape. cbn [map]. fold (gshape g).
      split; [apply in_range_cons; [exact Hi|exact Ht]|].
      split; [apply in_range_cons; [lia|exact Ht]|].
      split; [exact Hw|]. split; [exact Hw'|]. apply fa_here. lia.
Qed.

(* ---- every covered cell of the box is joined to the hub ---- *)
Theorem path_to_centre : forall g, nonper g -> grid_ok g -> forall c s2 idx,
  length c = length g ->
  in_rangeL (gshape g) idx -> in_rangeL (gshape g) (centre_cell g c) ->
  within g c s2 idx = true ->
  clos (wstep g c s2) idx (centre_cell g c).
Proof.
  intros g Hnp. induction Hnp as [|a g Hper Hnp IH]; intros Hok c s2 idx Hlen Hidx Hz Hw.
  - destruct c; [|discriminate Hlen]. cbn [centre_cell] in *.
    unfold gshape in Hidx. cbn [map] in Hidx. inversion Hidx. apply cr_refl.
  - destruct c as [|x c]; [discriminate Hlen|]. cbn [length] in Hlen. injection Hlen as Hlen.
    unfold grid_ok in Hok. inversion Hok as [|a' g' Ha Hok']; subst a' g'. fold (grid_ok g) in Hok'.
    cbn [centre_cell] in *. unfold gshape in Hidx, Hz. cbn [map] in Hidx, Hz. fold (gshape g) in Hidx, Hz.
    apply in_range_cons_inv in Hidx. destruct Hidx as (i & t & -> & Hi & Ht).
    apply in_range_cons_inv in Hz. destruct Hz as (z & zt & Ez & Hzr & Hzt).
    injection Ez as Ez1 Ez2. rewrite <- Ez1, <- Ez2 in *. clear zt Ez2.
    set (z0 := Qfloor (gam a x)) in *.
    (* first along the axis a with the tail fixed *)
    pose proof (walk_axis a g x c s2 t z0 Hper Ha eq_refl Hzr Ht _ i eq_refl Hi Hw) as H1.
    eapply cr_trans; [exact H1|].
    (* the cell (z0 :: t) is covered: its tail is in the slice with the reduced bound *)
    assert (Hwz : within (a :: g) (x :: c) s2 (z0 :: t) = true).
    { clear H1. assert (Hgen : forall n j, Z.abs_nat (j - z0) = n ->
                                 within (a :: g) (x :: c) s2 (j :: t) = true ->
                                 within (a :: g) (x :: c) s2 (z0 :: t) = true).
      { induction n as [|n IHn]; intros j Hn Hj.
        - assert (j = z0) by lia. subst j. exact Hj.
        - destruct (Z_lt_le_dec z0 j) as [Hgt|Hle].
          + apply (IHn (j - 1)%Z); [lia|]. apply (within_step a g x c s2 j (j - 1) t Hper); [|exact Hj].
            apply towards_down; [exact Ha|exact Hgt].
          + apply (IHn (j + 1)%Z); [lia|]. apply (within_step a g x c s2 j (j + 1) t Hper); [|exact Hj].
            apply towards_up; [exact Ha|]. fold z0. lia. }
      exact (Hgen _ i eq_refl Hw). }
    rewrite (within_cons_tail a g x c s2 z0 t Hper) in Hwz.
    set (q := (centre1 a z0 - x) * (centre1 a z0 - x)) in *.
    pose proof (IH Hok' c (s2 - q) t Hlen Ht Hzt Hwz) as H2.
    apply (clos_map (wstep g c (s2 - q)) (wstep (a :: g) (x :: c) s2) (cons z0)); [|exact H2].
    intros u v (Hu & Hv & Hwu & Hwv & Hf). unfold wstep. unfold gshape. cbn [map]. fold (gshape g).
    split; [apply in_range_cons; assumption|]. split; [apply in_range_cons; assumption|].
    rewrite !(within_cons_tail a g x c s2 z0 _ Hper). fold q.
    split; [exact Hwu|]. split; [exact Hwv|]. apply fa_there. exact Hf.
Qed.

(* ---- the hub lies in the box when the sphere fits and has positive radius ---- *)
Lemma centre_in_range : forall g c r, grid_ok g -> fits g c r -> 0 < r ->
  in_rangeL (gshape g) (centre_cell g c).
Proof.
  intros g c r Hok Hfit Hr. unfold fits in Hfit.
  induction Hfit as [|a x g c [Hlo Hhi] Hfit IH].
  - constructor.
  - unfold grid_ok in Hok. inversion Hok as [|a' g' Ha Hok']; subst a' g'.
    cbn [centre_cell]. unfold gshape. cbn [map]. fold (gshape g).
    apply in_range_cons; [|apply IH; exact Hok'].
    pose proof (adisc_pos a Ha) as Hh. destruct Ha as [Hn Hlh].
    pose proof (ncell_adisc a Hn) as EN. unfold asize in EN.
    assert (H0 : 0 <= gam a x).
    { unfold gam. apply Qle_shift_div_l; [exact Hh|]. lra. }
    assert (H1 : gam a x < inject_Z (ncell a)).
    { unfold gam. apply Qlt_shift_div_r; [exact Hh|]. lra. }
    split.
    + change 0%Z with (Qfloor 0). apply Qfloor_resp_le. exact H0.
    + rewrite Zlt_Qlt. pose proof (Qfloor_le (gam a x)). lra.
Qed.

Lemma fits_length g c r : fits g c r -> length c = length g.
Proof. intros H. induction H as [|a x g c _ _ IH]; cbn [length]; congruence. Qed.

(* ---- (4) ---- *)
Theorem ball_connected g c r : grid_ok g -> nonper g -> fits g c r ->
  forall p q, In p (ball_cells g c r) -> In q (ball_cells g c r) ->
    conn0 cell (ball_cells g c r) face_adj p q.
Proof.
  intros Hok Hnp Hfit.
  assert (Hhub : forall p, In p (ball_cells g c r) ->
                   conn0 cell (ball_cells g c r) face_adj p (centre_cell g c)).
  { intros p Hp. apply ball_cells_spec in Hp. destruct Hp as [Hpr Hpi].
    pose proof Hpi as Hpi'. apply inside_iff in Hpi'. destruct Hpi' as [Hr0 Hd].
    assert (Hr : 0 < r).
    { destruct (Qlt_le_dec 0 r) as [H|H]; [exact H|exfalso].
      pose proof (sumsq_nonneg (diff_vec g c (cell_centre g p))) as Hs. unfold dist2 in Hd.
      assert (E : r == 0) by lra. rewrite E in Hd. lra. }
    rewrite (inside_within g c r p Hr0) in Hpi.
    pose proof (path_to_centre g Hnp Hok c (r * r) p (fits_length g c r Hfit) Hpr
                  (centre_in_range g c r Hok Hfit Hr) Hpi) as H.
    unfold conn0. revert H. apply clos_mono.
    intros u v (Hu & Hv & Hwu & Hwv & Hf). unfold step0.
    split; [apply ball_cells_spec; split; [exact Hu|rewrite (inside_within g c r u Hr0); exact Hwu]|].
    split; [apply ball_cells_spec; split; [exact Hv|rewrite (inside_within g c r v Hr0); exact Hwv]|].
    exact Hf. }
  intros p q Hp Hq. unfold conn0 in *.
  eapply cr_trans; [apply Hhub; exact Hp|]. apply cr_sym. apply Hhub. exact Hq.
Qed.

(* the same when only the hub is known to lie in the box (the sphere may be cut by the box, e.g. a
   half-disc whose centre sits on a boundary face) *)
Lemma clos_invariant {A : Type} (R : A -> A -> Prop) (P : A -> Prop) :
  (forall u v, R u v -> P u /\ P v) -> forall a b, clos R a b -> (P a <-> P b).
Proof.
  intros H a b Hc. induction Hc as [x|x y _ IH|x y z _ IH1 _ IH2|x y Hs]; try tauto.
  destruct (H x y Hs). tauto.
Qed.

Theorem ball_connected_hub g c r : grid_ok g -> nonper g -> length c = length g ->
  in_rangeL (gshape g) (centre_cell g c) ->
  (forall p, In p (ball_cells g c r) -> conn0 cell (ball_cells g c r) face_adj p (centre_cell g c)) /\
  (ball_cells g c r <> [] -> In (centre_cell g c) (ball_cells g c r)).
Proof.
  intros Hok Hnp Hlen Hhub.
  assert (Hpath : forall p, In p (ball_cells g c r) ->
                    0 <= r /\ within g c (r * r) p = true /\
                    clos (wstep g c (r * r)) p (centre_cell g c)).
  { intros p Hp. apply ball_cells_spec in Hp. destruct Hp as [Hpr Hpi].
    pose proof Hpi as Hpi'. apply inside_iff in Hpi'. destruct Hpi' as [Hr0 _].
    rewrite (inside_within g c r p Hr0) in Hpi. split; [exact Hr0|]. split; [exact Hpi|].
    exact (path_to_centre g Hnp Hok c (r * r) p Hlen Hpr Hhub Hpi). }
  split.
  - intros p Hp. destruct (Hpath p Hp) as (Hr0 & _ & H). unfold conn0. revert H. apply clos_mono.
    intros u v (Hu & Hv & Hwu & Hwv & Hf). unfold step0.
    split; [apply ball_cells_spec; split; [exact Hu|rewrite (inside_within g c r u Hr0); exact Hwu]|].
    split; [apply ball_cells_spec; split; [exact Hv|rewrite (inside_within g c r v Hr0); exact Hwv]|].
    exact Hf.
  - intros Hne.
    assert (Hex : exists p, In p (ball_cells g c r)).
    { destruct (ball_cells g c r) as [|p ps]; [congruence|]. exists p. left. reflexivity. }
    destruct Hex as [p Hp]. destruct (Hpath p Hp) as (Hr0 & Hw & H).
    apply (clos_invariant (wstep g c (r * r)) (fun u => within g c (r * r) u = true)) in H.
    + apply ball_cells_spec. split; [exact Hhub|]. rewrite (inside_within g c r _ Hr0). apply H. exact Hw.
    + intros u v (_ & _ & Hwu & Hwv & _). split; assumption.
Qed.

(* the same for any list of cells with the same members *)
Corollary ball_connected_cells g c r (cells : list cell) : grid_ok g -> nonper g -> fits g c r ->
  (forall p, In p cells <-> In p (ball_cells g c r)) ->
  forall p q, In p cells -> In q cells -> conn0 cell cells face_adj p q.
Proof.
  intros Hok Hnp Hfit Hsame p q Hp Hq.
  pose proof (ball_connected g c r Hok Hnp Hfit p q (proj1 (Hsame p) Hp) (proj1 (Hsame q) Hq)) as H.
  unfold conn0 in *. revert H. apply clos_mono. intros u v (Hu & Hv & Hf).
  split; [apply Hsame; exact Hu|]. split; [apply Hsame; exact Hv|exact Hf].
Qed.

(* ... in particular for the mask cells of a label image of the rendered sphere *)
Corollary ball_box_conn g c r img : grid_ok g -> nonper g -> fits g c r -> wf_img g img ->
  (forall idx, in_rangeL (gshape g) idx -> (lab_of img idx <> 0%nat <-> inside g c r idx = true)) ->
  forall p q, In p (mask_cells img) -> In q (mask_cells img) -> box_conn img p q.
Proof.
  intros Hok Hnp Hfit Hwf Hmask. unfold box_conn.
  apply (ball_connected_cells g c r (mask_cells img) Hok Hnp Hfit).
  intros p. rewrite (mask_cells_range g img p Hwf), ball_cells_spec. split.
  - intros [Hr Hl]. split; [exact Hr|]. apply Hmask; assumption.
  - intros [Hr Hi]. split; [exact Hr|]. apply Hmask; assumption.
Qed.

(* ---- executable side conditions and a concrete instance ---- *)
Lemma nonperb_true g : nonperb g = true -> nonper g.
Proof.
  unfold nonperb, nonper. rewrite forallb_forall, Forall_forall. intros H a Ha.
  apply negb_true_iff. apply H. exact Ha.
Qed.

Lemma fitsb_true : forall g c r, fitsb g c r = true -> fits g c r.
Proof.
  induction g as [|a g IH]; intros [|x c] r H; cbn [fitsb] in H; try discriminate H.
  - constructor.
  - apply andb_true_iff in H. destruct H as [H1 H2]. constructor; [|apply IH; exact H2].
    unfold fits1b in H1. apply andb_true_iff in H1. destruct H1 as [Ha Hb].
    split; apply Qle_bool_iff; assumption.
Qed.

(* 5 x 4 cells, spacings 1 and 1/2, centre (12/5, 1), radius 1: the sphere touches both
   boundaries of the second axis and covers 6 cells *)
Definition ex_grid : grid :=
  [ {| ncell := 5; alo := 0; ahi := 5; aper := false |};
    {| ncell := 4; alo := 0; ahi := 2; aper := false |} ].
Definition ex_c : list Q := [12 # 5; 1].
Definition ex_r : Q := 1.

Example ball_example :
  grid_ok ex_grid /\ nonper ex_grid /\ fits ex_grid ex_c ex_r /\
  ball_cells ex_grid ex_c ex_r = [[1; 1]; [1; 2]; [2; 0]; [2; 1]; [2; 2]; [2; 3]]%Z /\
  nth_error ex_grid 1 = Some {| ncell := 4; alo := 0; ahi := 2; aper := false |} /\
  nth_error ex_c 1 = Some 1 /\
  fits1 {| ncell := 4; alo := 0; ahi := 2; aper := false |} 1 ex_r.
Proof.
  split; [apply grid_okb_true; vm_compute; reflexivity|].
  split; [apply nonperb_true; vm_compute; reflexivity|].
  split; [apply fitsb_true; vm_compute; reflexivity|].
  split; [vm_compute; reflexivity|].
  split; [reflexivity|]. split; [reflexivity|].
  split; apply Qle_bool_iff; vm_compute; reflexivity.
Qed.

(* the theorems applied to the instance *)
Example ball_example_conn :
  conn0 cell (ball_cells ex_grid ex_c ex_r) face_adj [1; 1]%Z [2; 3]%Z.
Proof.
  destruct ball_example as (Hok & Hnp & Hfit & Hcells & _).
  apply (ball_connected ex_grid ex_c ex_r Hok Hnp Hfit); rewrite Hcells; cbn [In]; tauto.
Qed.

Example ball_example_centre :
  let a := {| ncell := 4; alo := 0; ahi := 2; aper := false |} in
  Qabs (ball_com ex_grid ex_c ex_r 1 a - 1) <= adisc a / 2.
Proof.
  destruct ball_example as (Hok & Hnp & Hfit & Hcells & Hk & Hc & Hf1).
  intros a. apply (ball_centre_within_half_cell ex_grid ex_c ex_r 1 a 1 Hok Hnp Hk Hc Hf1).
  rewrite Hcells. discriminate.
Qed.

Print Assumptions path_to_centre.
Print Assumptions ball_connected.
Print Assumptions ball_connected_hub.
Print Assumptions ball_connected_cells.
Print Assumptions ball_box_conn.
Print Assumptions ball_example.
Print Assumptions ball_example_conn.
Print Assumptions ball_example_centre.
