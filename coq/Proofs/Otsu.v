(* C18, Otsu rule -- a positive affine change of the intensities maps the Otsu threshold of a
   non-constant field affinely and leaves the mask unchanged for every field.

   For a constant field numpy's histogram uses the range (mn - 1/2, mn + 1/2); the returned value is
   the centre of bin 0, mn - 1/2 + 1/512, which is NOT mapped affinely (for a <> 1), but every cell
   equals mn and therefore exceeds it: the mask is all-true before and after. *)
From Coq Require Import QArith Qround Qabs ZArith List Bool Lia Lqa Setoid Morphisms.
Import ListNotations.
From PD Require Import Model.Threshold Model.Pipeline Gen.Gen_analysis Proofs.C18.
Local Open Scope Q_scope.

(* ---- unfolding of the model ---- *)
Lemma otsu_const x l : Qeq_bool (lmin x l) (lmax x l) = true ->
  otsu x l = bin_centre (lmin x l - (1#2)) (lmax x l + (1#2)) 0.
Proof. intros He. unfold otsu, hist_range. rewrite He. reflexivity. Qed.

Lemma otsu_nonconst x l : Qeq_bool (lmin x l) (lmax x l) = false ->
  otsu x l =
  bin_centre (lmin x l) (lmax x l)
    (argmax_first
       (variance12 (count_bin (map (bin_index (lmin x l) (lmax x l)) (x :: l)))
                   (bin_centre (lmin x l) (lmax x l)))
       (tl splits) 0%Z).
Proof. intros Hne. unfold otsu, hist_range. rewrite Hne. reflexivity. Qed.

Lemma threshold_of_otsu x l : threshold_of ThrOtsu x l = otsu x l.
Proof. reflexivity. Qed.

(* ---- the minimum is a lower bound of the field ---- *)
Lemma qmin_le_l x y : qmin x y <= x.
Proof.
  unfold qmin. destruct (Qle_bool x y) eqn:E; [apply Qle_refl|].
  apply Qlt_le_weak. apply Qnot_le_lt. intros Hle. apply Qle_bool_iff in Hle. congruence.
Qed.

Lemma qmin_le_r x y : qmin x y <= y.
Proof.
  unfold qmin. destruct (Qle_bool x y) eqn:E; [apply Qle_bool_iff; exact E|apply Qle_refl].
Qed.

Lemma lmin_lower l : forall x v, In v (x :: l) -> lmin x l <= v.
Proof.
  unfold lmin. induction l as [|y l IH]; intros x v Hv.
  - destruct Hv as [Hv|[]]. subst v. apply Qle_refl.
  - simpl fold_left. destruct Hv as [Hv|[Hv|Hv]].
    + subst v. apply Qle_trans with (qmin x y); [apply IH; left; reflexivity|apply qmin_le_l].
    + subst v. apply Qle_trans with (qmin x y); [apply IH; left; reflexivity|apply qmin_le_r].
    + apply IH. right. exact Hv.
Qed.

(* ---- (i) being constant is preserved ---- *)
Lemma const_affine a b x l : 0 < a ->
  Qeq_bool (lmin (affine a b x) (map (affine a b) l)) (lmax (affine a b x) (map (affine a b) l))
  = Qeq_bool (lmin x l) (lmax x l).
Proof.
  intros Ha.
  pose proof (lmin_affine a b l Ha x (affine a b x) (Qeq_refl _)) as Hmin.
  pose proof (lmax_affine a b l Ha x (affine a b x) (Qeq_refl _)) as Hmax.
  destruct (Qeq_bool (lmin x l) (lmax x l)) eqn:E.
  - apply Qeq_bool_iff in E. apply Qeq_bool_iff. rewrite Hmin, Hmax, E. reflexivity.
  - destruct (Qeq_bool (lmin (affine a b x) (map (affine a b) l))
                       (lmax (affine a b x) (map (affine a b) l))) eqn:E'; [|reflexivity].
    apply Qeq_bool_iff in E'. rewrite Hmin, Hmax in E'.
    apply Qeq_bool_neq in E. exfalso. apply E.
    assert (H0 : a * (lmin x l - lmax x l) == 0) by lra.
    apply Qmult_integral in H0. destruct H0 as [H0|H0]; lra.
Qed.

(* ---- constant fields: the mask is all-true ---- *)
Lemma otsu_const_below x l v : Qeq_bool (lmin x l) (lmax x l) = true ->
  In v (x :: l) -> otsu x l < v.
Proof.
  intros He Hv. rewrite (otsu_const x l He).
  apply Qeq_bool_iff in He. pose proof (lmin_lower l x v Hv) as Hle.
  unfold bin_centre, nbins.
  change (inject_Z 0) with 0. change (inject_Z 256) with (256#1).
  set (mn := lmin x l) in *. set (mx := lmax x l) in *.
  assert (Hc : mn - (1#2) + (0 + (1#2)) * ((mx + (1#2) - (mn - (1#2))) / (256#1))
               == mn - (1#2) + (1#512)).
  { rewrite <- He. field. }
  rewrite Hc. lra.
Qed.

Lemma mask_otsu_const x l : Qeq_bool (lmin x l) (lmax x l) = true ->
  mask_of ThrOtsu x l = map (fun _ => true) (x :: l).
Proof.
  intros He. unfold mask_of. rewrite threshold_of_otsu.
  apply map_ext_in. intros v Hv. apply mask_cell_gt. apply otsu_const_below; assumption.
Qed.

Lemma mask_affine_otsu_const a b x l : 0 < a -> Qeq_bool (lmin x l) (lmax x l) = true ->
  mask_of ThrOtsu (affine a b x) (map (affine a b) l) = mask_of ThrOtsu x l.
Proof.
  intros Ha He.
  rewrite (mask_otsu_const x l He).
  rewrite mask_otsu_const by (rewrite const_affine; assumption).
  change (affine a b x :: map (affine a b) l) with (map (affine a b) (x :: l)).
  rewrite map_map. reflexivity.
Qed.

(* ---- (ii) bin indices ---- *)
Global Instance bin_index_comp : Proper (Qeq ==> Qeq ==> Qeq ==> eq) bin_index.
Proof.
  intros lo lo' Hlo hi hi' Hhi v v' Hv. unfold bin_index.
  assert (E : (v - lo) * inject_Z nbins / (hi - lo) == (v' - lo') * inject_Z nbins / (hi' - lo'))
    by (rewrite Hlo, Hhi, Hv; reflexivity).
  rewrite (Qfloor_comp _ _ E). reflexivity.
Qed.

Lemma bin_index_affine a b lo hi lo' hi' v :
  ~ a == 0 -> ~ hi == lo -> lo' == affine a b lo -> hi' == affine a b hi ->
  bin_index lo' hi' (affine a b v) = bin_index lo hi v.
Proof.
  intros Ha Hne Hlo Hhi. rewrite (bin_index_comp _ _ Hlo _ _ Hhi _ _ (Qeq_refl _)).
  unfold bin_index, affine.
  assert (E : (a * v + b - (a * lo + b)) * inject_Z nbins / (a * hi + b - (a * lo + b))
              == (v - lo) * inject_Z nbins / (hi - lo)).
  { field. split; [intros H; apply Hne; lra|].
    intros H. assert (H0 : a * (hi - lo) == 0) by lra.
    apply Qmult_integral in H0. destruct H0 as [H0|H0]; [exact (Ha H0)|apply Hne; lra]. }
  rewrite (Qfloor_comp _ _ E). reflexivity.
Qed.

(* ---- (iii) the index list (hence the histogram) is unchanged ---- *)
Lemma idx_affine a b lo hi lo' hi' (l : list Q) :
  ~ a == 0 -> ~ hi == lo -> lo' == affine a b lo -> hi' == affine a b hi ->
  map (bin_index lo' hi') (map (affine a b) l) = map (bin_index lo hi) l.
Proof.
  intros Ha Hne Hlo Hhi. rewrite map_map. apply map_ext. intros v.
  apply bin_index_affine; assumption.
Qed.

(* ---- (iv) bin centres are mapped affinely ---- *)
Lemma bin_centre_affine a b lo hi lo' hi' k :
  lo' == affine a b lo -> hi' == affine a b hi ->
  bin_centre lo' hi' k == affine a b (bin_centre lo hi k).
Proof.
  intros Hlo Hhi. unfold bin_centre. rewrite Hlo, Hhi. unfold affine, Qdiv. ring.
Qed.

(* ---- (v) class sums and between-class variance ---- *)
Lemma msum_affine a b cnt (c c' : Z -> Q) :
  (forall j, c' j == a * c j + b) ->
  forall ks, msum cnt c' ks == a * msum cnt c ks + b * wsum cnt ks.
Proof.
  intros Hc ks. unfold msum, wsum. induction ks as [|k ks IH]; simpl.
  - ring.
  - rewrite IH, Hc. ring.
Qed.

Lemma variance_core_zero w1 w2 X : w1 == 0 \/ w2 == 0 -> w1 * w2 * X == 0.
Proof. intros [H|H]; rewrite H; ring. Qed.

Lemma variance_core_scale a b w1 w2 s1 s2 : ~ w1 == 0 -> ~ w2 == 0 ->
  w1 * w2 * (((a * s1 + b * w1) / w1 - (a * s2 + b * w2) / w2)
             * ((a * s1 + b * w1) / w1 - (a * s2 + b * w2) / w2))
  == a * a * (w1 * w2 * ((s1 / w1 - s2 / w2) * (s1 / w1 - s2 / w2))).
Proof. intros H1 H2. field. split; assumption. Qed.

(* no side condition on the weights: when a class is empty both variances are 0 (Coq's x / 0 = 0
   only matters there, and the factor w1 * w2 kills it) *)
Lemma variance12_affine a b cnt (c c' : Z -> Q) :
  (forall j, c' j == a * c j + b) ->
  forall k, variance12 cnt c' k == a * a * variance12 cnt c k.
Proof.
  intros Hc k. unfold variance12.
  set (lo_ks := filter (fun j => Z.leb j k) bins).
  set (hi_ks := filter (fun j => Z.ltb k j) bins).
  rewrite (msum_affine a b cnt c c' Hc lo_ks), (msum_affine a b cnt c c' Hc hi_ks).
  set (w1 := wsum cnt lo_ks). set (w2 := wsum cnt hi_ks).
  set (s1 := msum cnt c lo_ks). set (s2 := msum cnt c hi_ks).
  destruct (Qeq_dec w1 0) as [H1|H1].
  { rewrite !(variance_core_zero w1 w2) by (left; exact H1). ring. }
  destruct (Qeq_dec w2 0) as [H2|H2].
  { rewrite !(variance_core_zero w1 w2) by (right; exact H2). ring. }
  apply variance_core_scale; assumption.
Qed.

(* ---- (vi) the first maximum is invariant under positive scaling of the objective ---- *)
Lemma Qle_bool_scale s x y : 0 < s -> Qle_bool (s * x) (s * y) = Qle_bool x y.
Proof.
  intros Hs. pose proof (Qle_bool_affine s 0 x y Hs) as H.
  rewrite <- H. apply Qleb_comp; ring.
Qed.

Lemma argmax_first_scale s (f g : Z -> Q) : 0 < s ->
  forall ks best, (forall k, In k (best :: ks) -> g k == s * f k) ->
  argmax_first g ks best = argmax_first f ks best.
Proof.
  intros Hs. induction ks as [|k ks IH]; intros best Hg; simpl; [reflexivity|].
  assert (E : Qle_bool (g k) (g best) = Qle_bool (f k) (f best)).
  { rewrite <- (Qle_bool_scale s (f k) (f best) Hs).
    apply Qleb_comp; apply Hg; [right; left; reflexivity|left; reflexivity]. }
  rewrite E. apply IH. intros j Hj. apply Hg.
  destruct (Qle_bool (f k) (f best)).
  - destruct Hj as [Hj|Hj]; [left; exact Hj|right; right; exact Hj].
  - right. exact Hj.
Qed.

(* ---- (vii) equivariance for non-constant fields ---- *)
Lemma otsu_affine a b x l : 0 < a -> Qeq_bool (lmin x l) (lmax x l) = false ->
  otsu (affine a b x) (map (affine a b) l) == affine a b (otsu x l).
Proof.
  intros Ha Hne.
  assert (Hne' : Qeq_bool (lmin (affine a b x) (map (affine a b) l))
                          (lmax (affine a b x) (map (affine a b) l)) = false)
    by (rewrite const_affine; assumption).
  rewrite (otsu_nonconst _ _ Hne'), (otsu_nonconst _ _ Hne).
  pose proof (lmin_affine a b l Ha x (affine a b x) (Qeq_refl _)) as Hmin.
  pose proof (lmax_affine a b l Ha x (affine a b x) (Qeq_refl _)) as Hmax.
  fold (affine a b (lmin x l)) in Hmin. fold (affine a b (lmax x l)) in Hmax.
  set (lo := lmin x l) in *. set (hi := lmax x l) in *.
  set (lo' := lmin (affine a b x) (map (affine a b) l)) in *.
  set (hi' := lmax (affine a b x) (map (affine a b) l)) in *.
  assert (Ha0 : ~ a == 0) by (intros H; lra).
  assert (Hhl : ~ hi == lo).
  { apply Qeq_bool_neq in Hne. intros H. apply Hne. symmetry. exact H. }
  change (affine a b x :: map (affine a b) l) with (map (affine a b) (x :: l)).
  rewrite (idx_affine a b lo hi lo' hi' (x :: l) Ha0 Hhl Hmin Hmax).
  set (cnt := count_bin (map (bin_index lo hi) (x :: l))).
  assert (Hc : forall j, bin_centre lo' hi' j == a * bin_centre lo hi j + b).
  { intros j. apply (bin_centre_affine a b lo hi lo' hi' j Hmin Hmax). }
  assert (Hs : 0 < a * a) by nra.
  rewrite (argmax_first_scale (a * a) (variance12 cnt (bin_centre lo hi))
             (variance12 cnt (bin_centre lo' hi')) Hs (tl splits) 0%Z).
  - apply (bin_centre_affine a b lo hi lo' hi' _ Hmin Hmax).
  - intros k _. apply (variance12_affine a b). exact Hc.
Qed.

(* ---- the mask is invariant for every field ---- *)
Lemma mask_affine_otsu_nonconst a b x l : 0 < a -> Qeq_bool (lmin x l) (lmax x l) = false ->
  mask_of ThrOtsu (affine a b x) (map (affine a b) l) = mask_of ThrOtsu x l.
Proof.
  intros Ha Hne. unfold mask_of. rewrite !threshold_of_otsu.
  change (affine a b x :: map (affine a b) l) with (map (affine a b) (x :: l)).
  rewrite map_map. apply map_ext. intros v.
  rewrite (otsu_affine a b x l Ha Hne). unfold affine. apply mask_cell_affine. exact Ha.
Qed.

Theorem mask_affine_otsu a b x l : 0 < a ->
  mask_of ThrOtsu (affine a b x) (map (affine a b) l) = mask_of ThrOtsu x l.
Proof.
  intros Ha. destruct (Qeq_bool (lmin x l) (lmax x l)) eqn:E.
  - apply mask_affine_otsu_const; assumption.
  - apply mask_affine_otsu_nonconst; assumption.
Qed.

(* all rules together (numeric thresholds are mapped along, the automatic rules are left alone) *)
Theorem mask_affine_all a b r x l : 0 < a ->
  mask_of (map_rule a b r) (affine a b x) (map (affine a b) l) = mask_of r x l.
Proof.
  intros Ha. destruct r; try (apply mask_affine; [exact Ha|exact I]).
  apply mask_affine_otsu. exact Ha.
Qed.

Section Factor.
  Variable cand : Type.
  Variable locate_mask : list bool -> list cand.
  Variable radius : cand -> Q.

  Theorem affine_invariant_all a b r mn x l : 0 < a ->
    locate cand locate_mask radius (map_rule a b r) mn (affine a b x) (map (affine a b) l) =
    locate cand locate_mask radius r mn x l.
  Proof. intros Ha. apply locate_factorises. apply mask_affine_all. exact Ha. Qed.
End Factor.

(* the constant case really is not equivariant: a = 2, b = 0 on the field [1; 1] *)
Example otsu_const_not_equivariant :
  ~ otsu (affine 2 0 1) (map (affine 2 0) [1]) == affine 2 0 (otsu 1 [1]).
Proof. vm_compute. discriminate. Qed.
