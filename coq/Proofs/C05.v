(* C05, R-layer: the residual that refine_droplet builds (Gen_refine_R, generated from `_image_deviation`)
   vanishes at the true parameters of an affinely rescaled rendered droplet (Gen_shapes, generated from
   `_get_phase_field` / `get_phase_field`), and in one dimension a vanishing residual on three suitable cells
   forces the true centre, radius and width (tanh is injective). *)
From Coq Require Import Reals Lra List.
From PD Require Import Gen.Gen_shapes Gen.Gen_refine_R Proofs.Profile.
Import ListNotations.
Local Open Scope R_scope.

(* ---------------------------------------------------------------------------------------- *)
(* characterising lemmas of the generated residual                                           *)
(* ---------------------------------------------------------------------------------------- *)
Lemma residual_adjust_char vmin vrng f d : residual_adjust vmin vrng f d = vmin + vrng * f - d.
Proof. unfold residual_adjust. ring. Qed.
Lemma residual_plain_char vmin vrng f d : residual_plain vmin vrng f d = vmin + vrng * f - d.
Proof. unfold residual_plain. ring. Qed.
Lemma vrng_R_char vmin vmax : vrng_R vmin vmax = vmax - vmin.
Proof. unfold vrng_R. ring. Qed.

(* ---------------------------------------------------------------------------------------- *)
(* truth gives zero residual                                                                 *)
(* ---------------------------------------------------------------------------------------- *)
(* one cell: image value = vmin + (vmax - vmin) * p (get_phase_field scaling), model value from the same p *)
Lemma cell_zero_residual vmin vmax p :
  residual_plain vmin (vrng_R vmin vmax) p (scale_value vmin vmax p) = 0 /\
  residual_adjust vmin (vrng_R vmin vmax) p (scale_value vmin vmax p) = 0.
Proof. rewrite residual_plain_char, residual_adjust_char, vrng_R_char, scale_value_char. split; ring. Qed.

(* the image a * profile + b is the rendering with levels vmin = b, vmax = a + b *)
Lemma affine_is_scaled a b p : b + a * p = scale_value b (a + b) p.
Proof. rewrite scale_value_char. ring. Qed.

Lemma affine_zero_residual a b p :
  residual_plain b a p (b + a * p) = 0 /\ residual_adjust b a p (b + a * p) = 0 /\ vrng_R b (a + b) = a.
Proof. rewrite residual_plain_char, residual_adjust_char, vrng_R_char. repeat split; ring. Qed.

(* the residual vector over any list of cells; a cell is (distance, interface distance in its direction) *)
Definition residual_vector (res : R -> R -> R -> R -> R) (vmin vrng : R) (field image : R * R -> R)
  (cells : list (R * R)) : list R := map (fun c => res vmin vrng (field c) (image c)) cells.

Theorem truth_zero_residual : forall (a b w : R) (cells : list (R * R)),
  let vmin := b in let vmax := a + b in
  (* sharp sphere, diffuse sphere, perturbed droplet: image = a * profile(truth) + b cell by cell *)
  let f_s := fun c : R * R => spherical_field (fst c) (snd c) in
  let f_d := fun c : R * R => diffuse_field render_dtype_is_bool (fst c) (snd c) w in
  let f_p := fun c : R * R => perturbed_field render_dtype_is_bool (fst c) (snd c) w in
  (forall c, b + a * f_s c = spherical_value vmin vmax (fst c) (snd c)) /\
  (forall c, b + a * f_d c = diffuse_value vmin vmax (fst c) (snd c) w) /\
  (forall c, b + a * f_p c = perturbed_value vmin vmax (fst c) (snd c) w) /\
  vrng_R vmin vmax = a /\
  Forall (fun r => r = 0) (residual_vector residual_plain vmin (vrng_R vmin vmax) f_s (fun c => b + a * f_s c) cells) /\
  Forall (fun r => r = 0) (residual_vector residual_plain vmin (vrng_R vmin vmax) f_d (fun c => b + a * f_d c) cells) /\
  Forall (fun r => r = 0) (residual_vector residual_plain vmin (vrng_R vmin vmax) f_p (fun c => b + a * f_p c) cells) /\
  Forall (fun r => r = 0) (residual_vector residual_adjust b a f_s (fun c => b + a * f_s c) cells) /\
  Forall (fun r => r = 0) (residual_vector residual_adjust b a f_d (fun c => b + a * f_d c) cells) /\
  Forall (fun r => r = 0) (residual_vector residual_adjust b a f_p (fun c => b + a * f_p c) cells).
Proof.
  intros a b w cells vmin vmax f_s f_d f_p.
  assert (Hv : vrng_R vmin vmax = a) by (unfold vmin, vmax; rewrite vrng_R_char; ring).
  assert (Hall : forall res (f : R * R -> R), (forall p, res b a p (b + a * p) = 0) ->
            Forall (fun r => r = 0) (residual_vector res b a f (fun c => b + a * f c) cells)).
  { intros res f H. unfold residual_vector. apply Forall_forall. intros r Hin.
    apply in_map_iff in Hin. destruct Hin as [c [<- _]]. apply H. }
  split; [intros c; unfold spherical_value; apply affine_is_scaled|].
  split; [intros c; unfold diffuse_value; apply affine_is_scaled|].
  split; [intros c; unfold perturbed_value; apply affine_is_scaled|].
  split; [exact Hv|]. rewrite Hv. unfold vmin.
  repeat split; apply Hall; intros p; apply affine_zero_residual.
Qed.

(* ---------------------------------------------------------------------------------------- *)
(* tanh is injective (from strict monotonicity)                                              *)
(* ---------------------------------------------------------------------------------------- *)
Lemma tanh_injective x y : tanh x = tanh y -> x = y.
Proof.
  intros H. destruct (Rtotal_order x y) as [L|[E|G]]; [|exact E|].
  - pose proof (tanh_increasing x y L). lra.
  - pose proof (tanh_increasing y x G). lra.
Qed.

(* core lemma: the profile values at two distinct distances determine radius and width *)
Lemma two_distances_determine R w R' w' d1 d2 : 0 < w -> 0 < w' -> d1 <> d2 ->
  tanh ((R' - d1) / w') = tanh ((R - d1) / w) -> tanh ((R' - d2) / w') = tanh ((R - d2) / w) ->
  R' = R /\ w' = w.
Proof.
  intros Hw Hw' Hd H1 H2. apply tanh_injective in H1. apply tanh_injective in H2.
  assert (E1 : (R' - d1) * w = (R - d1) * w').
  { apply (Rmult_eq_reg_r (/ w' * / w)).
    - transitivity ((R' - d1) / w'); [field; lra|]. rewrite H1. field. lra.
    - apply Rmult_integral_contrapositive_currified; apply Rinv_neq_0_compat; lra. }
  assert (E2 : (R' - d2) * w = (R - d2) * w').
  { apply (Rmult_eq_reg_r (/ w' * / w)).
    - transitivity ((R' - d2) / w'); [field; lra|]. rewrite H2. field. lra.
    - apply Rmult_integral_contrapositive_currified; apply Rinv_neq_0_compat; lra. }
  assert (Ew : w' = w).
  { assert (E : (d2 - d1) * w = (d2 - d1) * w') by lra.
    apply (Rmult_eq_reg_l (d2 - d1)); [lra|lra]. }
  subst w'. split; [|reflexivity].
  apply (Rmult_eq_reg_r w); [|lra]. lra.
Qed.

(* ---------------------------------------------------------------------------------------- *)
(* one dimension: which cells pin the droplet down                                           *)
(* ---------------------------------------------------------------------------------------- *)
(* truth (c, R, w), image = b + a * profile with a <> 0; fitted (c', R', w') with the true levels.
   Cells needed: two DISTINCT cells x1, x2 to the right of both centres and one cell x3 to the left of both
   centres (or the mirror image), all with zero residual.  Distances are |x - c| (no periodic wrap between the
   cell and either centre). *)
Theorem identifiable_1d : forall a b c R w c' R' w' x1 x2 x3,
  a <> 0 -> 0 < w -> 0 < w' ->
  x1 <> x2 -> c < x1 -> c' < x1 -> c < x2 -> c' < x2 -> x3 < c -> x3 < c' ->
  (forall x, In x [x1; x2; x3] ->
     residual_plain b a (diffuse_profile (Rabs (x - c')) R' w')
                        (scale_value b (a + b) (diffuse_profile (Rabs (x - c)) R w)) = 0) ->
  c' = c /\ R' = R /\ w' = w.
Proof.
  intros a b c R w c' R' w' x1 x2 x3 Ha Hw Hw' H12 H1c H1c' H2c H2c' H3c H3c' Hres.
  assert (Hp : forall x, In x [x1; x2; x3] ->
            tanh ((R' - Rabs (x - c')) / w') = tanh ((R - Rabs (x - c)) / w)).
  { intros x Hx. specialize (Hres x Hx).
    rewrite residual_plain_char, scale_value_char, !diffuse_profile_char in Hres.
    assert (E : a * (tanh ((R' - Rabs (x - c')) / w') - tanh ((R - Rabs (x - c)) / w)) = 0) by lra.
    apply Rmult_integral in E. destruct E as [E|E]; [contradiction|lra]. }
  pose proof (Hp x1 (or_introl eq_refl)) as P1.
  pose proof (Hp x2 (or_intror (or_introl eq_refl))) as P2.
  pose proof (Hp x3 (or_intror (or_intror (or_introl eq_refl)))) as P3.
  rewrite (Rabs_pos_eq (x1 - c')), (Rabs_pos_eq (x1 - c)) in P1 by lra.
  rewrite (Rabs_pos_eq (x2 - c')), (Rabs_pos_eq (x2 - c)) in P2 by lra.
  rewrite (Rabs_left (x3 - c')), (Rabs_left (x3 - c)) in P3 by lra.
  (* right side: with S = R + c the arguments are (S - x) / w *)
  replace (R' - (x1 - c')) with ((R' + c') - x1) in P1 by ring.
  replace (R - (x1 - c)) with ((R + c) - x1) in P1 by ring.
  replace (R' - (x2 - c')) with ((R' + c') - x2) in P2 by ring.
  replace (R - (x2 - c)) with ((R + c) - x2) in P2 by ring.
  destruct (two_distances_determine (R + c) w (R' + c') w' x1 x2 Hw Hw' H12 P1 P2) as [Es Ew].
  subst w'. apply tanh_injective in P3.
  assert (Ed : R' - - (x3 - c') = R - - (x3 - c)).
  { apply (Rmult_eq_reg_r (/ w)); [exact P3|apply Rinv_neq_0_compat; lra]. }
  repeat split; lra.
Qed.

Lemma ex_cells : 6 <> 7 /\ 3 < 6 /\ 7 / 2 < 6 /\ 3 < 7 /\ 7 / 2 < 7 /\ 1 < 3 /\ 1 < 7 / 2.
Proof. repeat split; lra. Qed.
