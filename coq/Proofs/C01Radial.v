(* C01 on radially symmetric grids (PolarSymGrid, SphericalSymGrid): a centred sharp droplet of radius R,
   rendered and located: one droplet at the origin, radius within half a radial spacing, volume equal
   to the total volume of the covered cells.  Axiom-free (exact rationals; pi factored out). *)
From Coq Require Import QArith Qabs ZArith List Arith Bool Lia Lqa.
Import ListNotations.
From PD Require Import Model.Grid Model.Render Model.RenderSym Model.LocateSym Proofs.Render Proofs.C02.
Local Open Scope Q_scope.

Definition covered (r_lo dr R : Q) (i : nat) : bool :=
  Qle_bool 0 R && Qlt_bool (radial_centre r_lo dr i * radial_centre r_lo dr i) (R * R).

Lemma nth_error_map_seq {A} (f : nat -> A) N i :
  nth_error (map f (seq 0 N)) i = if Nat.ltb i N then Some (f i) else None.
Proof.
  destruct (Nat.ltb_spec i N) as [H|H].
  - rewrite nth_error_map. rewrite nth_error_nth' with (d := 0%nat) by (rewrite seq_length; exact H).
    rewrite seq_nth by exact H. reflexivity.
  - apply nth_error_None. rewrite map_length, seq_length. exact H.
Qed.

Lemma radial_centre_nonneg r_lo dr i : 0 <= r_lo -> 0 < dr -> 0 < radial_centre r_lo dr i.
Proof.
  intros H1 H2. unfold radial_centre.
  assert (0 <= inject_Z (Z.of_nat i)) by (change 0 with (inject_Z 0); rewrite <- Zle_Qle; lia).
  nra.
Qed.

Lemma covered_iff r_lo dr R i : 0 <= r_lo -> 0 < dr -> 0 <= R ->
  covered r_lo dr R i = true <-> radial_centre r_lo dr i < R.
Proof.
  intros H1 H2 H3. unfold covered. pose proof (radial_centre_nonneg r_lo dr i H1 H2) as Hp.
  rewrite andb_true_iff, Qlt_bool_iff. split.
  - intros [_ H]. apply Qnot_le_lt. intros Hle.
    set (x := radial_centre r_lo dr i) in *.
    assert (Ha : 0 <= x - R) by lra. assert (Hb : 0 <= x + R) by lra.
    pose proof (Qmult_le_0_compat _ _ Ha Hb) as Hab. nra.
  - intros H. split; [apply Qle_bool_iff; exact H3|].
    set (x := radial_centre r_lo dr i) in *.
    assert (Ha : 0 < R - x) by lra. assert (Hb : 0 < R + x) by lra.
    pose proof (Qmult_lt_0_compat _ _ Ha Hb) as Hab. nra.
Qed.

Lemma radial_centre_mono r_lo dr i j : 0 < dr -> (i <= j)%nat -> radial_centre r_lo dr i <= radial_centre r_lo dr j.
Proof.
  intros Hd Hij. unfold radial_centre.
  assert (inject_Z (Z.of_nat i) <= inject_Z (Z.of_nat j)) by (rewrite <- Zle_Qle; lia). nra.
Qed.

Theorem radial_located r_lo dr R N : 0 <= r_lo -> 0 < dr -> (1 <= N)%nat ->
  r_lo + dr / 2 < R -> R <= r_lo + inject_Z (Z.of_nat N) * dr ->
  exists n, (1 <= n <= N)%nat /\
    locate_radial r_lo dr (radial_mask r_lo dr R N) = Some (r_lo + inject_Z (Z.of_nat n) * dr) /\
    Qabs (r_lo + inject_Z (Z.of_nat n) * dr - R) <= dr / 2 /\
    (forall i, (i < N)%nat -> (covered r_lo dr R i = true <-> (i < n)%nat)).
Proof.
  intros Hlo Hdr HN Hres Hin.
  assert (Hhalf : dr / 2 == (1 # 2) * dr) by field.
  rewrite Hhalf in Hres.
  assert (HR : 0 <= R) by lra.
  set (m := radial_mask r_lo dr R N). set (n := leading_trues m).
  destruct (leading_trues_spec m n eq_refl) as [Hpre Hstop].
  assert (Hnth : forall i, nth_error m i = if Nat.ltb i N then Some (covered r_lo dr R i) else None).
  { intros i. unfold m, radial_mask. apply (nth_error_map_seq (covered r_lo dr R)). }
  assert (H0 : covered r_lo dr R 0 = true).
  { apply (proj2 (covered_iff r_lo dr R 0 Hlo Hdr HR)). unfold radial_centre.
    change (inject_Z (Z.of_nat 0)) with 0. lra. }
  assert (HnN : (n <= N)%nat).
  { destruct (Nat.le_gt_cases n N) as [H|H]; [exact H|]. specialize (Hpre N H). rewrite Hnth in Hpre.
    rewrite Nat.ltb_irrefl in Hpre. discriminate. }
  assert (Hn1 : (1 <= n)%nat).
  { destruct n as [|n']; [|lia]. destruct Hstop as [Hs|Hs]; rewrite Hnth in Hs;
      replace (0 <? N)%nat with true in Hs by (symmetry; apply Nat.ltb_lt; lia); congruence. }
  assert (Hcov : forall i, (i < n)%nat -> covered r_lo dr R i = true).
  { intros i Hi. specialize (Hpre i Hi). rewrite Hnth in Hpre.
    replace (i <? N)%nat with true in Hpre by (symmetry; apply Nat.ltb_lt; lia). congruence. }
  assert (Hnot : (n < N)%nat -> covered r_lo dr R n = false).
  { intros Hlt. destruct Hstop as [Hs|Hs]; rewrite Hnth in Hs;
      replace (n <? N)%nat with true in Hs by (symmetry; apply Nat.ltb_lt; lia); congruence. }
  exists n. split; [lia|]. split; [|split].
  - unfold locate_radial. fold m. fold n. destruct n; [lia|reflexivity].
  - (* half a radial spacing *)
    assert (Hlast : radial_centre r_lo dr (n - 1) < R).
    { apply (proj1 (covered_iff r_lo dr R (n - 1) Hlo Hdr HR)). apply Hcov. lia. }
    unfold radial_centre in Hlast. replace (Z.of_nat (n - 1)) with (Z.of_nat n - 1)%Z in Hlast by lia.
    unfold Zminus in Hlast. rewrite inject_Z_plus in Hlast. replace (inject_Z (- (1))) with (-1 # 1) in Hlast by reflexivity.
    rewrite Hhalf. apply Qabs_Qle_condition. split.
    + destruct (Nat.eq_dec n N) as [Hnn|Hne]; [rewrite Hnn in *; nra|].
      assert (Hf : covered r_lo dr R n = false) by (apply Hnot; lia).
      assert (~ radial_centre r_lo dr n < R).
      { intros Hc. apply (proj2 (covered_iff r_lo dr R n Hlo Hdr HR)) in Hc. congruence. }
      unfold radial_centre in H. nra.
    + nra.
  - intros i Hi. split.
    + intros Hc. destruct (Nat.lt_ge_cases i n) as [H|H]; [exact H|exfalso].
      assert (Hf : covered r_lo dr R n = false) by (apply Hnot; lia).
      apply (proj1 (covered_iff r_lo dr R i Hlo Hdr HR)) in Hc.
      assert (Hlt : radial_centre r_lo dr n < R).
      { apply Qle_lt_trans with (radial_centre r_lo dr i); [apply radial_centre_mono; assumption|exact Hc]. }
      apply (proj2 (covered_iff r_lo dr R n Hlo Hdr HR)) in Hlt. congruence.
    + apply Hcov.
Qed.

(* volume: cell i of a radial grid has volume  c_d * (r_{i+1}^d - r_i^d)  (c_2 = pi, c_3 = 4 pi / 3); the first n
   cells together have the volume of the ball of radius r_lo + n dr (minus the inner hole): telescoping *)
Fixpoint sumto (n : nat) (f : nat -> Q) : Q := match n with O => 0 | S n' => sumto n' f + f n' end.

Lemma telescoping (F : nat -> Q) n : sumto n (fun i => F (S i) - F i) == F n - F 0%nat.
Proof. induction n as [|n IH]; simpl; [ring|rewrite IH; ring]. Qed.

Definition edge_radius (r_lo dr : Q) (i : nat) : Q := r_lo + inject_Z (Z.of_nat i) * dr.

Theorem radial_volume_exact r_lo dr n (p : nat) :
  sumto n (fun i => edge_radius r_lo dr (S i) ^ Z.of_nat p - edge_radius r_lo dr i ^ Z.of_nat p)
  == edge_radius r_lo dr n ^ Z.of_nat p - edge_radius r_lo dr 0 ^ Z.of_nat p.
Proof. apply (telescoping (fun i => edge_radius r_lo dr i ^ Z.of_nat p)). Qed.
