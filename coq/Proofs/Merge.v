(* C11 -- merging droplets: dimension-independent part.

   Everything is proved once for an abstract pair (vol, rad) of mutually inverse conversions and an
   abstract merge rule (mrad, mpos) characterised by the two equations that Proofs/C11.v establishes
   for the GENERATED definitions merge_radius_d / merge_pos_d (d = 1, 2, 3).  After `End` the
   section hypotheses are ordinary premises. *)
From Coq Require Import Reals Lra List Permutation.
Import ListNotations.
Local Open Scope R_scope.

(* binary merge trees over droplets (radius, one position coordinate) *)
Inductive mtree : Type :=
| Leaf (r p : R)
| Node (a b : mtree).

Fixpoint leaves (t : mtree) : list (R * R) :=
  match t with
  | Leaf r p => [(r, p)]
  | Node a b => leaves a ++ leaves b
  end.

(* the left comb over a non-empty list: ((x0 + x1) + x2) + ...  (sequential merging) *)
Fixpoint comb (acc : mtree) (l : list (R * R)) : mtree :=
  match l with
  | [] => acc
  | (r, p) :: l' => comb (Node acc (Leaf r p)) l'
  end.

Lemma leaves_comb l : forall acc, leaves (comb acc l) = leaves acc ++ l.
Proof.
  induction l as [|[r p] l IH]; intros acc; simpl.
  - rewrite app_nil_r. reflexivity.
  - rewrite IH. simpl. rewrite <- app_assoc. reflexivity.
Qed.

Section MergeGeneric.
  Variables vol rad : R -> R.
  Hypothesis vol_nonneg : forall r, 0 <= r -> 0 <= vol r.
  Hypothesis rad_nonneg : forall v, 0 <= v -> 0 <= rad v.
  Hypothesis vr_inv : forall v, 0 <= v -> vol (rad v) = v.
  Hypothesis rv_inv : forall r, 0 <= r -> rad (vol r) = r.

  Variable mrad : R -> R -> R.
  Variable mpos : R -> R -> R -> R -> R.
  Hypothesis mrad_def : forall r1 r2, mrad r1 r2 = rad (vol r1 + vol r2).
  Hypothesis mpos_def : forall r1 r2 p1 p2, 0 < vol r1 + vol r2 ->
    mpos r1 r2 p1 p2 = (vol r1 * p1 + vol r2 * p2) / (vol r1 + vol r2).

  Lemma g_merge_radius_nonneg r1 r2 : 0 <= r1 -> 0 <= r2 -> 0 <= mrad r1 r2.
  Proof.
    intros H1 H2. rewrite mrad_def. apply rad_nonneg.
    pose proof (vol_nonneg r1 H1). pose proof (vol_nonneg r2 H2). lra.
  Qed.

  Lemma g_merge_volume r1 r2 : 0 <= r1 -> 0 <= r2 -> vol (mrad r1 r2) = vol r1 + vol r2.
  Proof.
    intros H1 H2. rewrite mrad_def. apply vr_inv.
    pose proof (vol_nonneg r1 H1). pose proof (vol_nonneg r2 H2). lra.
  Qed.

  (* first moment, and the centre as the convex (volume-weighted) mean *)
  Lemma g_merge_position r1 r2 p1 p2 : 0 <= r1 -> 0 <= r2 -> 0 < vol r1 + vol r2 ->
    vol (mrad r1 r2) * mpos r1 r2 p1 p2 = vol r1 * p1 + vol r2 * p2 /\
    (exists w1 w2, 0 <= w1 /\ 0 <= w2 /\ w1 + w2 = 1 /\
       w1 = vol r1 / (vol r1 + vol r2) /\ w2 = vol r2 / (vol r1 + vol r2) /\
       mpos r1 r2 p1 p2 = w1 * p1 + w2 * p2) /\
    Rmin p1 p2 <= mpos r1 r2 p1 p2 <= Rmax p1 p2.
  Proof.
    intros H1 H2 HV. rewrite (g_merge_volume r1 r2 H1 H2), (mpos_def r1 r2 p1 p2 HV).
    pose proof (vol_nonneg r1 H1) as V1. pose proof (vol_nonneg r2 H2) as V2.
    set (a := vol r1) in *. set (b := vol r2) in *.
    assert (Hinv : 0 < / (a + b)) by (apply Rinv_0_lt_compat; exact HV).
    assert (Hw1 : 0 <= a / (a + b)) by (apply Rmult_le_pos; lra).
    assert (Hw2 : 0 <= b / (a + b)) by (apply Rmult_le_pos; lra).
    assert (Hsum : a / (a + b) + b / (a + b) = 1) by (field; lra).
    assert (Hmean : (a * p1 + b * p2) / (a + b) = a / (a + b) * p1 + b / (a + b) * p2) by (field; lra).
    split; [field; lra|]. split.
    - exists (a / (a + b)), (b / (a + b)). repeat split; try assumption; reflexivity.
    - rewrite Hmean. set (w1 := a / (a + b)) in *. set (w2 := b / (a + b)) in *.
      unfold Rmin, Rmax. destruct (Rle_dec p1 p2) as [Hp|Hp]; split; nra.
  Qed.

  Lemma g_merge_comm r1 r2 p1 p2 : 0 < vol r1 + vol r2 ->
    mrad r1 r2 = mrad r2 r1 /\ mpos r1 r2 p1 p2 = mpos r2 r1 p2 p1.
  Proof.
    intros HV. split.
    - rewrite !mrad_def. f_equal. ring.
    - rewrite (mpos_def r1 r2 p1 p2 HV). rewrite (mpos_def r2 r1 p2 p1) by lra. field. lra.
  Qed.

  (* ---- merge trees ---- *)
  Fixpoint eval (t : mtree) : R * R :=
    match t with
    | Leaf r p => (r, p)
    | Node a b => (mrad (fst (eval a)) (fst (eval b)),
                   mpos (fst (eval a)) (fst (eval b)) (snd (eval a)) (snd (eval b)))
    end.

  Definition sumV (l : list (R * R)) : R := fold_right (fun x acc => vol (fst x) + acc) 0 l.
  Definition sumM (l : list (R * R)) : R := fold_right (fun x acc => vol (fst x) * snd x + acc) 0 l.

  (* admissible trees: non-negative radii, every merge has positive total volume
     (the precondition of the property; with volume 0 the code divides 0 by 0) *)
  Fixpoint tree_ok (t : mtree) : Prop :=
    match t with
    | Leaf r _ => 0 <= r
    | Node a b => tree_ok a /\ tree_ok b /\ 0 < sumV (leaves a) + sumV (leaves b)
    end.

  Lemma sumV_app l1 l2 : sumV (l1 ++ l2) = sumV l1 + sumV l2.
  Proof. induction l1 as [|x l1 IH]; simpl; [ring|rewrite IH; ring]. Qed.

  Lemma sumM_app l1 l2 : sumM (l1 ++ l2) = sumM l1 + sumM l2.
  Proof. induction l1 as [|x l1 IH]; simpl; [ring|rewrite IH; ring]. Qed.

  Lemma sumV_perm l1 l2 : Permutation l1 l2 -> sumV l1 = sumV l2.
  Proof. induction 1; simpl; lra. Qed.

  Lemma sumM_perm l1 l2 : Permutation l1 l2 -> sumM l1 = sumM l2.
  Proof. induction 1; simpl; lra. Qed.

  Theorem g_merge_tree t : tree_ok t ->
    0 <= fst (eval t) /\
    vol (fst (eval t)) = sumV (leaves t) /\
    vol (fst (eval t)) * snd (eval t) = sumM (leaves t).
  Proof.
    induction t as [r p|a IHa b IHb]; simpl.
    - intros Hr. split; [exact Hr|]. split; ring.
    - intros [Ha [Hb HV]].
      destruct (IHa Ha) as [Ra [Va Ma]]. destruct (IHb Hb) as [Rb [Vb Mb]].
      rewrite sumV_app, sumM_app, <- Va, <- Vb, <- Ma, <- Mb.
      assert (HV' : 0 < vol (fst (eval a)) + vol (fst (eval b))) by (rewrite Va, Vb; exact HV).
      split; [apply g_merge_radius_nonneg; assumption|]. split.
      + apply g_merge_volume; assumption.
      + apply (g_merge_position _ _ (snd (eval a)) (snd (eval b)) Ra Rb HV').
  Qed.

  (* the result is a function of the multiset of leaves only: independent of the grouping *)
  Theorem g_merge_tree_value t : tree_ok t -> 0 < sumV (leaves t) ->
    eval t = (rad (sumV (leaves t)), sumM (leaves t) / sumV (leaves t)).
  Proof.
    intros Hok HV. destruct (g_merge_tree t Hok) as [Hr [Hv Hm]].
    rewrite (surjective_pairing (eval t)). f_equal.
    - rewrite <- Hv. symmetry. apply rv_inv. exact Hr.
    - rewrite <- Hm, <- Hv. field. rewrite Hv. lra.
  Qed.

  Theorem g_merge_tree_grouping t1 t2 : tree_ok t1 -> tree_ok t2 ->
    Permutation (leaves t1) (leaves t2) -> 0 < sumV (leaves t1) -> eval t1 = eval t2.
  Proof.
    intros H1 H2 HP HV.
    rewrite (g_merge_tree_value t1 H1 HV).
    rewrite (g_merge_tree_value t2 H2) by (rewrite <- (sumV_perm _ _ HP); exact HV).
    rewrite (sumV_perm _ _ HP), (sumM_perm _ _ HP). reflexivity.
  Qed.

  (* sequential merging of a non-empty list (a fold) is the left comb *)
  Definition merge_step (acc x : R * R) : R * R :=
    (mrad (fst acc) (fst x), mpos (fst acc) (fst x) (snd acc) (snd x)).

  Lemma eval_comb l : forall acc, eval (comb acc l) = fold_left merge_step l (eval acc).
  Proof.
    induction l as [|[r p] l IH]; intros acc; simpl; [reflexivity|]. rewrite IH. reflexivity.
  Qed.

  (* all radii positive: every tree over the list is admissible *)
  Lemma sumV_pos l : l <> [] -> Forall (fun x => 0 <= fst x /\ 0 < vol (fst x)) l -> 0 < sumV l.
  Proof.
    intros Hne HF. destruct l as [|x l]; [congruence|]. clear Hne. revert x HF.
    induction l as [|y l IH]; intros x HF; simpl.
    - inversion HF as [|? ? [_ Hx] _]; subst. lra.
    - inversion HF as [|? ? [_ Hx] HF']; subst. specialize (IH y HF'). simpl in IH. lra.
  Qed.

  Lemma leaves_nonempty t : leaves t <> [].
  Proof.
    induction t as [r p|a IHa b IHb]; simpl; [discriminate|].
    destruct (leaves a); [congruence|discriminate].
  Qed.

  Lemma tree_ok_of_pos t : Forall (fun x => 0 <= fst x /\ 0 < vol (fst x)) (leaves t) -> tree_ok t.
  Proof.
    induction t as [r p|a IHa b IHb]; simpl; intros HF.
    - inversion HF as [|? ? [Hx _] _]; subst. exact Hx.
    - apply Forall_app in HF. destruct HF as [Fa Fb]. split; [apply IHa; exact Fa|].
      split; [apply IHb; exact Fb|].
      pose proof (sumV_pos _ (leaves_nonempty a) Fa). pose proof (sumV_pos _ (leaves_nonempty b) Fb). lra.
  Qed.
End MergeGeneric.
