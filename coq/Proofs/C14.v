(* Proofs/C14.v -- tracking during a simulation equals analysing the stored fields afterwards.
   The generic theorems of Proofs/Online.v, instantiated with the glue tables generated from the
   CURRENT trackers.py / emulsions.py / image_analysis.py (Gen/Gen_glue.v).  A tracker that forgets an
   option, passes a constant, drops the time, or an offline path that forwards something else makes
   one of the computations below fail.

   (finalize: `if self.filename: self.data.to_file(self.filename)` -- that the file reads back equal
   to `self.data` is theorem C08_timecourse_roundtrip of property C08; here only the fact that the
   file name is the one given to the constructor, `finalize_target`.) *)
From Coq Require Import String List Bool Arith Lia QArith.
From PD Require Import Model.Online Model.Parallel Gen.Gen_glue Proofs.Online.
Import ListNotations.
Local Open Scope string_scope.

Definition G : tracker_glue :=
  {| g_ctor_defaults := dt_ctor_defaults; g_ctor_assign := dt_ctor_assign; g_source_attr := dt_source_attr;
     g_handle_forward := dt_handle_forward; g_append_explicit_time := dt_append_explicit_time;
     g_locate_opts := locate_opts; g_locate_defaults := locate_defaults |}.

(* the offline path takes the times from the storage it iterates over *)
Definition O_serial : offline_glue :=
  {| o_params := fs_params; o_defaults := fs_defaults; o_forward := fs_serial_forward;
     o_starkwargs := fs_serial_starkwargs;
     o_times_from_storage := String.eqb fs_times_from fs_serial_iter |}.

Definition O_parallel : offline_glue :=
  {| o_params := fs_params; o_defaults := fs_defaults; o_forward := fs_parallel_forward;
     o_starkwargs := fs_parallel_starkwargs;
     o_times_from_storage := String.eqb fs_times_from fs_parallel_iter |}.

Definition L : length_glue :=
  {| l_ctor_defaults := ls_ctor_defaults; l_ctor_assign := ls_ctor_assign; l_source_attr := ls_source_attr;
     l_call_forward := ls_call_forward; l_catches := ls_catches; l_handler_exits := ls_handler_exits;
     l_pre_appends := ls_pre_appends; l_post_appends := ls_post_appends |}.

Ltac in_table := simpl; repeat (first [left; reflexivity | right]).

Section C14.
  Variable value : Type.
  Variable parse : string -> value.

  (* ---- option forwarding ------------------------------------------------------------------ *)
  (* Every analysis setting given to the tracker (or left at its default) is the value the paired
     keyword of locate_droplets runs with, and it is the value the offline analysis runs with when
     called with the same settings; all other options of locate_droplets (interface_width,
     num_processes) are at their defaults on both paths. *)
  Lemma options_forwarded_serial (user : kwdict value) :
    tracker_options value parse G user = offline_options value parse G O_serial (same_settings value user).
  Proof.
    unfold tracker_options, offline_options, effective, method_call, function_call, attr_value, param_value,
      same_settings.
    cbn.
    destruct (user "threshold"), (user "minimal_radius"), (user "refine"), (user "refine_args"),
      (user "perturbation_modes"); reflexivity.
  Qed.

  Lemma options_forwarded_parallel (user : kwdict value) :
    tracker_options value parse G user = offline_options value parse G O_parallel (same_settings value user).
  Proof.
    unfold tracker_options, offline_options, effective, method_call, function_call, attr_value, param_value,
      same_settings.
    cbn.
    destruct (user "threshold"), (user "minimal_radius"), (user "refine"), (user "refine_args"),
      (user "perturbation_modes"); reflexivity.
  Qed.

  (* what the tracker's analysis runs with, spelled out *)
  Lemma tracker_options_spelled_out (user : kwdict value) :
    tracker_options value parse G user =
    [("threshold", param_value value parse dt_ctor_defaults user "threshold");
     ("minimal_radius", param_value value parse dt_ctor_defaults user "minimal_radius");
     ("modes", param_value value parse dt_ctor_defaults user "perturbation_modes");
     ("interface_width", Some (parse "None"));
     ("refine", param_value value parse dt_ctor_defaults user "refine");
     ("refine_args", param_value value parse dt_ctor_defaults user "refine_args");
     ("num_processes", Some (parse "1"))].
  Proof.
    unfold tracker_options, effective, method_call, attr_value, param_value. cbn.
    destruct (user "threshold"), (user "minimal_radius"), (user "refine"), (user "refine_args"),
      (user "perturbation_modes"); reflexivity.
  Qed.

  (* no analysis parameter of the constructor is dropped: each one is stored in an attribute, the
     attribute is handed to the paired keyword, and locate_droplets has that keyword *)
  Lemma options_cover p :
    In p dt_ctor_params -> ~ In p not_analysis ->
    exists a k, In (a, FromName p) dt_ctor_assign /\ In (k, FromName a) dt_handle_forward /\
                In (p, k) pairing /\ In k locate_opts.
  Proof.
    intros Hin Hn. simpl in Hin.
    repeat (destruct Hin as [<-|Hin]; [try (exfalso; apply Hn; in_table; fail) |]); try contradiction.
    all: do 2 eexists; split; [in_table | split; [in_table | split; in_table]].
  Qed.

  (* only analysis keywords are passed, each once *)
  Lemma handle_passes_only_paired :
    map fst dt_handle_forward <> [] /\ NoDup (map fst dt_handle_forward) /\
    forall k, In k (map fst dt_handle_forward) -> exists p, In (p, k) pairing.
  Proof.
    split; [discriminate|]. split.
    - simpl. repeat constructor; simpl; intuition discriminate.
    - simpl. intros k Hk. repeat (destruct Hk as [<-|Hk]; [eexists; in_table|]). contradiction.
  Qed.

  (* the defaults of the tracker and of the (offline) analysis agree, option by option *)
  Lemma defaults_agree p k :
    In (p, k) pairing -> lookup p dt_ctor_defaults = lookup k locate_defaults /\
                         (In k fs_params -> lookup k fs_defaults = lookup k locate_defaults).
  Proof.
    intros Hin. simpl in Hin.
    repeat (destruct Hin as [Hin|Hin]; [inversion Hin; subst; split; [reflexivity|] |]); try contradiction.
    all: simpl; intros H; repeat (destruct H as [H|H]; [try discriminate H; reflexivity|]); contradiction.
  Qed.

  (* the field the tracker analyses is selected by the source it was given *)
  Lemma tracker_source_given (user : kwdict value) :
    tracker_source value parse G user = param_value value parse dt_ctor_defaults user "source".
  Proof. reflexivity. Qed.

  (* finalize writes to the file name given to the constructor *)
  Lemma finalize_target (user : kwdict value) :
    attr_value value parse dt_ctor_assign dt_ctor_defaults user dt_finalize_attr
    = param_value value parse dt_ctor_defaults user "filename".
  Proof. reflexivity. Qed.

  (* ---- online = offline ------------------------------------------------------------------- *)
  Variables raw field emulsion exn : Type.
  Variable extract : option value -> raw -> res exn field.
  Variable locate : list (string * option value) -> field -> res exn emulsion.

  Theorem online_eq_offline (user : kwdict value) (history : list (raw * Q)) (fields : list field) :
    map_res (extract (param_value value parse dt_ctor_defaults user "source")) (map fst history) = Ok fields ->
    online value parse raw field emulsion exn extract locate G user tc_empty history
    = from_storage value parse field emulsion exn locate G O_serial (same_settings value user)
                   (combine fields (map snd history)).
  Proof.
    intros Hx. apply online_eq_offline_generic.
    - apply options_forwarded_serial.
    - reflexivity.
    - reflexivity.
    - exact Hx.
  Qed.

  (* nothing raises: the recorded time course is literally (map locate fields, times) *)
  Corollary online_is_map (user : kwdict value) (history : list (raw * Q)) (fields : list field)
            (loc : field -> emulsion) :
    map_res (extract (param_value value parse dt_ctor_defaults user "source")) (map fst history) = Ok fields ->
    (forall f, In f fields -> locate (tracker_options value parse G user) f = Ok (loc f)) ->
    online value parse raw field emulsion exn extract locate G user tc_empty history
    = Ok (mk_tc_raw (map loc fields) (map snd history)).
  Proof.
    intros Hx Hloc.
    rewrite (online_fold value parse raw field emulsion exn extract locate G user eq_refl history fields tc_empty Hx).
    rewrite (map_res_total _ loc fields Hloc). reflexivity.
  Qed.

  (* a tracker created with emulsion_timecourse = s0 appends the offline result to s0 *)
  Theorem online_continues (user : kwdict value) (s0 : tc emulsion) (history : list (raw * Q)) (fields : list field) :
    map_res (extract (param_value value parse dt_ctor_defaults user "source")) (map fst history) = Ok fields ->
    online value parse raw field emulsion exn extract locate G user s0 history
    = bind (from_storage value parse field emulsion exn locate G O_serial (same_settings value user)
                         (combine fields (map snd history)))
           (fun s => Ok (mk_tc_raw (tc_emulsions s0 ++ tc_emulsions s) (tc_times s0 ++ tc_times s))).
  Proof.
    intros Hx. apply online_continues_generic.
    - apply options_forwarded_serial.
    - reflexivity.
    - reflexivity.
    - exact Hx.
  Qed.

  (* ---- length-scale tracker --------------------------------------------------------------- *)
  Variable number : Type.
  Variable nan : number.
  Variable analysis : list (string * option value) -> field -> res exn number.

  (* the analysis is called with the configured method and nothing else *)
  Lemma length_keywords (user : kwdict value) :
    ls_keywords value parse L user = [("method", param_value value parse ls_ctor_defaults user "method")].
  Proof. reflexivity. Qed.

  (* both lists start empty *)
  Lemma length_lists_start_empty :
    lookup "times" ls_ctor_assign = Some (Literal "[]") /\ lookup "length_scales" ls_ctor_assign = Some (Literal "[]").
  Proof. split; reflexivity. Qed.

  Theorem length_tracker_total (user : kwdict value) (history : list (raw * Q)) (fields : list field) :
    map_res (extract (param_value value parse ls_ctor_defaults user "source")) (map fst history) = Ok fields ->
    exists s,
      ls_online value parse raw field exn number nan extract analysis L user history = Ok s /\
      ls_times number s = map snd history /\
      ls_values number s =
        map (fun f => match analysis [("method", param_value value parse ls_ctor_defaults user "method")] f with
                      | Ok v => v | Err _ => nan end) fields /\
      length (ls_times number s) = length history /\ length (ls_values number s) = length history.
  Proof.
    intros Hx.
    exact (length_tracker_total_generic value parse raw field exn number nan extract analysis L user
             eq_refl eq_refl eq_refl eq_refl history fields Hx).
  Qed.
End C14.
