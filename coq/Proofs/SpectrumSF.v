(* Spectrum, part 2: the structure factor and its wave numbers, composed from the lines that the
   translator generated from droplets/image_analysis.py (Gen/Gen_spectrum.v), and the lemmas of C16.
   The n-dimensional orthonormal DFT is an oracle F with the visible premise `dft_spec dom F`. *)
From Coq Require Import Reals Lra List ZArith Lia Bool Permutation Arith.
Import ListNotations.
From PD Require Import Model.Num Model.Spectrum Gen.Gen_spectrum Proofs.SpectrumLists.
Local Open Scope R_scope.

(* ================================================================== wave numbers *)
(* k2s = [fftfreq(grid.shape[i], d=...)**2 for i in range(grid.dim)], evaluated at multi-index k *)
Fixpoint k2s (shape : list nat) (h : list R) (k : index) : list R :=
  match shape, h, k with
  | n :: shape', hi :: h', m :: k' => k2_component n hi m :: k2s shape' h' k'
  | _, _, _ => []
  end.

Definition k_mag (shape : list nat) (h : list R) (k : index) : R := k_mag_of (k2s shape h k).
Definition k_modes (shape : list nat) : list index := skipn drop_first_k (all_idx shape).
Definition k_list (shape : list nat) (h : list R) : list R := map (k_mag shape h) (k_modes shape).

(* one Cartesian component of the wave vector, as the wave-number line computes it *)
Definition wave_number (n : nat) (h : R) (m : nat) : R := np_fftfreq n (fftfreq_d h) m.

Lemma k2_component_is_square n h m : k2_component n h m = wave_number n h m ^ 2.
Proof. reflexivity. Qed.

(* the integer frequency of numpy's fftfreq:  m  for  m < ceil(n/2)  (i.e. 2m < n), else  m - n *)
Definition fft_int_freq (n m : nat) : Z :=
  if (2 * m <? n)%nat then Z.of_nat m else (Z.of_nat m - Z.of_nat n)%Z.

Lemma wrap_freq_spec n m : (0 < n)%nat -> wrap_freq n m = fft_int_freq n m.
Proof.
  intros Hn. unfold wrap_freq, fft_int_freq.
  assert (E : ((m <? (n - 1) / 2 + 1) = (2 * m <? n))%nat).
  { pose proof (Nat.div_mod (n - 1) 2 ltac:(lia)) as D.
    pose proof (Nat.mod_upper_bound (n - 1) 2 ltac:(lia)) as U.
    destruct (Nat.ltb_spec m ((n - 1) / 2 + 1)), (Nat.ltb_spec (2 * m) n); try reflexivity; lia. }
  rewrite E. reflexivity.
Qed.

Lemma k_is_fftfreq n h m : (0 < n)%nat -> h <> 0 ->
  wave_number n h m = IZR (fft_int_freq n m) * (2 * PI / (INR n * h)).
Proof.
  intros Hn Hh. unfold wave_number, np_fftfreq, fftfreq_d. rewrite (wrap_freq_spec n m Hn).
  assert (INR n <> 0) by (apply not_0_INR; lia). pose proof PI_neq0. field. repeat split; assumption.
Qed.

Lemma wave_number_scaling n h m s : (0 < n)%nat -> h <> 0 -> s <> 0 ->
  wave_number n (s * h) m = wave_number n h m / s.
Proof.
  intros Hn Hh Hs. rewrite !k_is_fftfreq by (try assumption; apply Rmult_integral_contrapositive_currified; assumption).
  assert (INR n <> 0) by (apply not_0_INR; lia). field. repeat split; assumption.
Qed.

Lemma k2s_scaling shape h k s : s <> 0 ->
  Forall (fun n => (0 < n)%nat) shape -> Forall (fun hi => hi <> 0) h ->
  k2s shape (map (Rmult s) h) k = map (fun v => v / s ^ 2) (k2s shape h k).
Proof.
  intros Hs Hsh. revert h k. induction Hsh as [|n shape Hn _ IH]; intros h k Hh; [reflexivity|].
  destruct h as [|hi h]; [reflexivity|]. destruct k as [|m k]; [reflexivity|].
  inversion Hh; subst. simpl. rewrite IH by assumption. f_equal.
  rewrite !k2_component_is_square, wave_number_scaling by assumption. field. exact Hs.
Qed.

Lemma k_mag_scaling shape h k s : 0 < s ->
  Forall (fun n => (0 < n)%nat) shape -> Forall (fun hi => hi <> 0) h ->
  k_mag shape (map (Rmult s) h) k = k_mag shape h k / s.
Proof.
  intros Hs Hsh Hh. unfold k_mag, k_mag_of. rewrite k2s_scaling by (try assumption; lra).
  rewrite (rsum_map_div (s ^ 2) (fun v => v)), map_id.
  replace (s ^ 2) with (s * s) by ring.
  assert (Hnn : 0 <= rsum (k2s shape h k)).
  { apply rsum_nonneg. clear Hsh Hh. revert h k. induction shape as [|n shape IH]; intros h k; [constructor|].
    destruct h; [constructor|]. destruct k; [constructor|]. simpl. constructor; [|apply IH].
    rewrite k2_component_is_square. apply pow2_ge_0. }
  unfold Rdiv. rewrite sqrt_mult_alt by exact Hnn. f_equal.
  rewrite Rinv_mult. apply sqrt_square. left. apply Rinv_0_lt_compat. exact Hs.
Qed.

Lemma k_list_scaling shape h s : 0 < s ->
  Forall (fun n => (0 < n)%nat) shape -> Forall (fun hi => hi <> 0) h ->
  k_list shape (map (Rmult s) h) = map (fun k => k / s) (k_list shape h).
Proof.
  intros Hs Hsh Hh. unfold k_list. rewrite map_map. apply map_ext. intros k.
  apply k_mag_scaling; assumption.
Qed.

(* wave-number magnitudes are invariant under index reflection ... *)
Lemma wrap_freq_reflect n m : (m < n)%nat ->
  (wrap_freq n ((n - m) mod n) = - wrap_freq n m \/ wrap_freq n ((n - m) mod n) = wrap_freq n m)%Z.
Proof.
  intros Hm. rewrite !wrap_freq_spec by lia. unfold fft_int_freq.
  destruct m as [|m].
  - rewrite Nat.sub_0_r, Nat.mod_same by lia. right. reflexivity.
  - rewrite (Nat.mod_small (n - S m)) by lia.
    destruct (Nat.ltb_spec (2 * (n - S m)) n), (Nat.ltb_spec (2 * S m) n); lia.
Qed.

Lemma k2_component_reflect n h m : (m < n)%nat ->
  k2_component n h ((n - m) mod n) = k2_component n h m.
Proof.
  intros Hm. rewrite !k2_component_is_square. unfold wave_number, np_fftfreq.
  destruct (wrap_freq_reflect n m Hm) as [E|E]; rewrite E; [rewrite opp_IZR|]; ring.
Qed.

Lemma k2s_reflect shape h ax k : valid_idx shape k ->
  k2s shape h (reflect_idx shape ax k) = k2s shape h k.
Proof.
  unfold valid_idx. intros H. revert h ax. induction H as [|n m shape k Hm Hk IH]; intros h ax.
  - destruct ax; reflexivity.
  - destruct h as [|hi h]; [destruct ax; reflexivity|]. destruct ax as [|ax]; simpl.
    + rewrite k2_component_reflect by exact Hm. reflexivity.
    + rewrite IH. reflexivity.
Qed.

Lemma k_mag_reflect shape h ax k : valid_idx shape k ->
  k_mag shape h (reflect_idx shape ax k) = k_mag shape h k.
Proof. intros H. unfold k_mag. rewrite k2s_reflect by exact H. reflexivity. Qed.

(* ... and under a joint transposition of axes, spacings and index entries *)
Lemma rsum_swap i l : rsum (swap_at i l) = rsum l.
Proof.
  revert l. induction i as [|i IH]; intros l.
  - destruct l as [|a [|b r]]; try reflexivity. cbn [swap_at]. rewrite !rsum_cons. lra.
  - destruct l as [|a r]; [reflexivity|]. cbn [swap_at]. rewrite !rsum_cons, IH. reflexivity.
Qed.

Lemma k2s_swap i shape h k : length h = length shape -> length k = length shape ->
  k2s (swap_at i shape) (swap_at i h) k = swap_at i (k2s shape h (swap_at i k)).
Proof.
  revert shape h k. induction i as [|i IH]; intros shape h k Hh Hk.
  - destruct shape as [|a [|b shape]]; destruct h as [|x [|y h]]; destruct k as [|u [|v k]];
      try discriminate; reflexivity.
  - destruct shape as [|a shape]; destruct h as [|x h]; destruct k as [|u k]; try discriminate;
      try reflexivity. simpl in *. rewrite IH by lia. reflexivity.
Qed.

Lemma valid_length shape k : valid_idx shape k -> length k = length shape.
Proof. unfold valid_idx. intros H. induction H; simpl; [reflexivity|lia]. Qed.

Lemma swap_length {A} i (l : list A) : length (swap_at i l) = length l.
Proof.
  revert l. induction i as [|i IH]; intros l.
  - destruct l as [|a [|b r]]; reflexivity.
  - destruct l as [|a r]; simpl; [reflexivity|]. rewrite IH. reflexivity.
Qed.

Lemma k_mag_swap i shape h k : length h = length shape -> valid_idx (swap_at i shape) k ->
  k_mag (swap_at i shape) (swap_at i h) k = k_mag shape h (swap_at i k).
Proof.
  intros Hh Hk. unfold k_mag, k_mag_of. apply valid_length in Hk. rewrite swap_length in Hk.
  rewrite k2s_swap by assumption. rewrite rsum_swap. reflexivity.
Qed.

(* ================================================================== structure factor *)
Definition sumsq (shape : list nat) (x : field) : R := sum_over (all_idx shape) (fun n => x n ^ 2).
Definition total (shape : list nat) (x : field) : R := sum_over (all_idx shape) x.
Definition sf_modes (shape : list nat) : list index := skipn drop_first (all_idx shape).

Section StructureFactor.
  Variable dom : list nat -> Prop.
  Variable F : dft_oracle.

  (* f1 = np_fftn(scalar_field.data, norm=...) *)
  Definition spectrum (shape : list nat) (x : field) (k : index) : R * R := F fft_norm_ortho shape x k.
  (* sf = np.abs(f1) ** 2 / np.dot(flat_data, flat_data) *)
  Definition sf_at (shape : list nat) (x : field) (k : index) : R :=
    sf_norm (cabs (spectrum shape x k)) (sumsq shape x).
  Definition sf_list (shape : list nat) (x : field) : list R := map (sf_at shape x) (sf_modes shape).
  (* the arrays returned for smoothing=None, add_zero=False, as (k, sf) pairs *)
  Definition sf_pairs (shape : list nat) (h : list R) (x : field) : list (R * R) :=
    combine (k_list shape h) (sf_list shape x).

  Lemma sf_at_eq shape x k : sf_at shape x k = cabs2 (F true shape x k) / sumsq shape x.
  Proof. unfold sf_at, sf_norm, spectrum, fft_norm_ortho. rewrite cabs_sq. reflexivity. Qed.

  Lemma sf_nonneg shape x k : sumsq shape x <> 0 -> 0 <= sf_at shape x k.
  Proof.
    intros H. rewrite sf_at_eq. apply sumsq_pos in H. fold (sumsq shape x) in H.
    apply Rmult_le_pos; [apply cabs2_nonneg|left; apply Rinv_0_lt_compat; exact H].
  Qed.

  Lemma sf_list_nonneg shape x : sumsq shape x <> 0 -> Forall (fun v => 0 <= v) (sf_list shape x).
  Proof.
    intros H. unfold sf_list. apply Forall_forall. intros v Hv. apply in_map_iff in Hv.
    destruct Hv as [k [<- _]]. apply sf_nonneg. exact H.
  Qed.

  Hypothesis HF : dft_spec dom F.

  Let Hparseval : dft_parseval dom F := proj1 HF.
  Let Hzero : dft_zero_mode dom F := proj1 (proj2 HF).
  Let Hhomog : dft_homogeneous dom F := proj1 (proj2 (proj2 HF)).
  Let Hshift : dft_shift dom F := proj1 (proj2 (proj2 (proj2 HF))).
  Let Hreflect : dft_reflect dom F := proj1 (proj2 (proj2 (proj2 (proj2 HF)))).
  Let Hswap : dft_axis_swap dom F := proj2 (proj2 (proj2 (proj2 (proj2 HF)))).

  (* `.flat[1:]` drops exactly the zero mode *)
  Lemma sf_modes_tail shape r : all_idx shape = zero_idx shape :: r -> sf_modes shape = r.
  Proof. intros E. unfold sf_modes, drop_first. rewrite E. reflexivity. Qed.

  Lemma k_modes_tail shape r : all_idx shape = zero_idx shape :: r -> k_modes shape = r.
  Proof. intros E. unfold k_modes, drop_first_k. rewrite E. reflexivity. Qed.

  Lemma sf_modes_in shape k : In k (sf_modes shape) -> In k (all_idx shape).
  Proof. unfold sf_modes. apply incl_skipn_local. Qed.

  (* Parseval: the structure factor sums to one minus the squared-mean fraction *)
  Lemma sf_sum shape x : dom shape -> Forall (fun n => (0 < n)%nat) shape -> sumsq shape x <> 0 ->
    rsum (sf_list shape x) = 1 - total shape x ^ 2 / (INR (size_of shape) * sumsq shape x).
  Proof.
    intros Hd Hpos Hs. destruct (all_idx_head shape Hpos) as [r E].
    unfold sf_list. rewrite (sf_modes_tail shape r E).
    rewrite (rsum_map_ext_in _ (fun k => cabs2 (F true shape x k) / sumsq shape x))
      by (intros; apply sf_at_eq).
    rewrite rsum_map_div.
    assert (HP : cabs2 (F true shape x (zero_idx shape)) +
                 rsum (map (fun k => cabs2 (F true shape x k)) r) = sumsq shape x).
    { pose proof (Hparseval shape x Hd) as HP. unfold sum_over in HP. unfold sumsq, sum_over.
      rewrite <- HP. rewrite E. reflexivity. }
    rewrite (Hzero shape x Hd) in HP. fold (total shape x) in HP.
    assert (HN : 0 < INR (size_of shape)) by (apply lt_0_INR, all_idx_nonempty_pos; exact Hpos).
    assert (Hq : sqrt (INR (size_of shape)) * sqrt (INR (size_of shape)) = INR (size_of shape))
      by (apply sqrt_sqrt; lra).
    assert (Hq0 : sqrt (INR (size_of shape)) <> 0) by (intros Z; rewrite Z in Hq; lra).
    unfold cabs2 at 1 in HP. cbn [fst snd] in HP.
    assert (Hr : rsum (map (fun k => cabs2 (F true shape x k)) r) =
                 sumsq shape x - total shape x ^ 2 / INR (size_of shape)).
    { rewrite <- HP. rewrite <- Hq at 3. field. exact Hq0. }
    rewrite Hr. field. split; [exact Hs|lra].
  Qed.

  (* multiplying the field by a non-zero constant *)
  Lemma sumsq_scale shape c x : sumsq shape (fun n => c * x n) = c ^ 2 * sumsq shape x.
  Proof.
    unfold sumsq, sum_over. rewrite <- rsum_map_scale. apply rsum_map_ext_in. intros; ring.
  Qed.

  Lemma sf_scale_inv shape c x k : dom shape -> c <> 0 -> sumsq shape x <> 0 ->
    In k (all_idx shape) -> sf_at shape (fun n => c * x n) k = sf_at shape x k.
  Proof.
    intros Hd Hc Hs Hk. rewrite !sf_at_eq, sumsq_scale, (Hhomog shape c x k Hd Hk).
    field. split; [exact Hs|exact Hc].
  Qed.

  Lemma sf_list_scale_inv shape c x : dom shape -> c <> 0 -> sumsq shape x <> 0 ->
    sf_list shape (fun n => c * x n) = sf_list shape x.
  Proof.
    intros Hd Hc Hs. unfold sf_list. apply map_ext_in. intros k Hk.
    apply sf_scale_inv; try assumption. apply sf_modes_in. exact Hk.
  Qed.

  (* translating the field by whole cells (cyclically) *)
  Lemma sumsq_shift shape s x : sumsq shape (fun n => x (shift_idx shape s n)) = sumsq shape x.
  Proof.
    unfold sumsq. apply (sum_over_reindex _ _ (shift_idx shape s) (fun n => x n ^ 2)). apply shift_perm.
  Qed.

  Lemma sf_shift_inv shape s x k : dom shape -> In k (all_idx shape) ->
    sf_at shape (fun n => x (shift_idx shape s n)) k = sf_at shape x k.
  Proof.
    intros Hd Hk. rewrite !sf_at_eq, sumsq_shift, (Hshift shape s x k Hd Hk). reflexivity.
  Qed.

  Lemma sf_list_shift_inv shape s x : dom shape ->
    sf_list shape (fun n => x (shift_idx shape s n)) = sf_list shape x.
  Proof.
    intros Hd. unfold sf_list. apply map_ext_in. intros k Hk.
    apply sf_shift_inv; [exact Hd|]. apply sf_modes_in. exact Hk.
  Qed.

  (* a relabelling of the modes permutes the (k, sf) pairs *)
  Lemma pairs_relabel (idx' idx r' r : list index) (z' z : index) (p : index -> index)
        (fk' fk fs' fs : index -> R) :
    idx' = z' :: r' -> idx = z :: r -> p z' = z -> Permutation (map p idx') idx ->
    (forall k, In k r' -> fk' k = fk (p k) /\ fs' k = fs (p k)) ->
    Permutation (combine (map fk' r') (map fs' r')) (combine (map fk r) (map fs r)).
  Proof.
    intros E' E Hz HP Hrel.
    assert (Hc : forall (f g : index -> R) l, combine (map f l) (map g l) = map (fun k => (f k, g k)) l).
    { intros f g l. induction l as [|a l IH]; simpl; [reflexivity|rewrite IH; reflexivity]. }
    rewrite !Hc.
    rewrite (map_ext_in (fun k => (fk' k, fs' k)) (fun k => (fun j => (fk j, fs j)) (p k)))
      by (intros k Hk; destruct (Hrel k Hk) as [-> ->]; reflexivity).
    rewrite <- (map_map p (fun j => (fk j, fs j))). apply Permutation_map.
    rewrite E', E in HP. simpl in HP. rewrite Hz in HP. eapply Permutation_cons_inv. exact HP.
  Qed.

  (* reflecting the field along one axis *)
  Lemma sumsq_reflect shape ax x : sumsq shape (fun n => x (reflect_idx shape ax n)) = sumsq shape x.
  Proof.
    unfold sumsq. apply (sum_over_reindex _ _ (reflect_idx shape ax) (fun n => x n ^ 2)). apply reflect_perm.
  Qed.

  Lemma sf_reflect_perm shape h ax x : dom shape -> Forall (fun n => (0 < n)%nat) shape ->
    Permutation (sf_pairs shape h (fun n => x (reflect_idx shape ax n))) (sf_pairs shape h x).
  Proof.
    intros Hd Hpos. destruct (all_idx_head shape Hpos) as [r E].
    unfold sf_pairs, k_list, sf_list. rewrite (sf_modes_tail shape r E), (k_modes_tail shape r E).
    apply (pairs_relabel (all_idx shape) (all_idx shape) r r (zero_idx shape) (zero_idx shape)
             (reflect_idx shape ax)); try assumption.
    - apply reflect_zero. exact Hpos.
    - apply reflect_perm.
    - intros k Hk. assert (Hin : In k (all_idx shape)) by (rewrite E; right; exact Hk). split.
      + symmetry. apply k_mag_reflect. apply in_all_idx. exact Hin.
      + rewrite !sf_at_eq, sumsq_reflect, (Hreflect shape ax x k Hd Hin). reflexivity.
  Qed.

  (* permuting the axes of field and grid together (adjacent transposition i <-> i+1) *)
  Lemma sumsq_swap i shape x : sumsq (swap_at i shape) (fun n => x (swap_at i n)) = sumsq shape x.
  Proof.
    unfold sumsq. apply (sum_over_reindex _ _ (swap_at i) (fun n => x n ^ 2)). apply swap_perm.
  Qed.

  Lemma sf_axis_swap_perm i shape h x : dom shape -> dom (swap_at i shape) ->
    Forall (fun n => (0 < n)%nat) shape -> length h = length shape ->
    Permutation (sf_pairs (swap_at i shape) (swap_at i h) (fun n => x (swap_at i n)))
                (sf_pairs shape h x).
  Proof.
    intros Hd Hd' Hpos Hh. destruct (all_idx_head shape Hpos) as [r E].
    destruct (all_idx_head (swap_at i shape) (swap_pos i shape Hpos)) as [r' E'].
    unfold sf_pairs, k_list, sf_list.
    rewrite (sf_modes_tail shape r E), (k_modes_tail shape r E),
      (sf_modes_tail _ r' E'), (k_modes_tail _ r' E').
    apply (pairs_relabel (all_idx (swap_at i shape)) (all_idx shape) r' r
             (zero_idx (swap_at i shape)) (zero_idx shape) (swap_at i)); try assumption.
    - apply swap_zero.
    - apply swap_perm.
    - intros k Hk. assert (Hin : In k (all_idx (swap_at i shape))) by (rewrite E'; right; exact Hk). split.
      + apply k_mag_swap; [exact Hh|]. apply in_all_idx. exact Hin.
      + rewrite !sf_at_eq, sumsq_swap, (Hswap shape i x k Hd Hd' Hin). reflexivity.
  Qed.
  (* np.flip along an axis is the index reflection composed with a cyclic shift by one cell
     (x[N-1-n] = x[-(n+1) mod N], see flip_index_arith); any shift may be composed *)
  Lemma sf_flip_perm shape h ax s x : dom shape -> Forall (fun n => (0 < n)%nat) shape ->
    Permutation (sf_pairs shape h (fun n => x (reflect_idx shape ax (shift_idx shape s n)))) (sf_pairs shape h x).
  Proof.
    intros Hd Hpos. unfold sf_pairs.
    rewrite (sf_list_shift_inv shape s (fun n => x (reflect_idx shape ax n)) Hd).
    apply sf_reflect_perm; assumption.
  Qed.

  (* any sequence of adjacent transpositions, i.e. any permutation of the axes *)
  Lemma sf_axis_perm_seq (swaps : list nat) : (forall i s, dom s -> dom (swap_at i s)) ->
    forall shape h x, dom shape -> Forall (fun n => (0 < n)%nat) shape -> length h = length shape ->
    Permutation (sf_pairs (fold_left (fun l i => swap_at i l) swaps shape)
                          (fold_left (fun l i => swap_at i l) swaps h)
                          (fun n => x (fold_right (fun i m => swap_at i m) n swaps)))
                (sf_pairs shape h x).
  Proof.
    intros Hclosed. induction swaps as [|i rest IH]; intros shape h x Hd Hpos Hl.
    - apply Permutation_refl.
    - cbn [fold_left fold_right].
      eapply Permutation_trans.
      + apply (IH (swap_at i shape) (swap_at i h) (fun n => x (swap_at i n))).
        * apply Hclosed. exact Hd.
        * apply swap_pos. exact Hpos.
        * rewrite !swap_length. exact Hl.
      + apply sf_axis_swap_perm; try assumption. apply Hclosed. exact Hd.
  Qed.
End StructureFactor.

Lemma flip_index_arith n m : (m < n)%nat -> ((n - (m + 1) mod n) mod n = n - 1 - m)%nat.
Proof.
  intros Hm. destruct (Nat.eq_dec (m + 1) n) as [E|E].
  - rewrite E, Nat.mod_same by lia. rewrite Nat.sub_0_r, Nat.mod_same by lia. lia.
  - rewrite (Nat.mod_small (m + 1)) by lia. rewrite Nat.mod_small by lia. lia.
Qed.
