(* C01 geometry, part 9: the digitised ball has at most as much volume as its bounding box enlarged by
   one cell:   |B| * prod h_k  <=  prod (2 r + h_k)      (any mixture of periodic axes, centre anywhere).
   This is the counting premise of Proofs/C01Sep.located_radius_le_rho (there over the reals).
     row_count_bound  : a lattice row { i | (h (i + 1/2 - gamma))^2 < s2 }, s2 <= r^2, meets any window of
                        integers in at most (2 r + h) / h cells;
     ball_count_bound : the statement above for ball_cells g c r (0 <= r, length c = length g). *)
From Coq Require Import QArith Qabs Qround ZArith List Arith Bool Lia Lqa Setoid Morphisms.
Import ListNotations.
From PD Require Import Model.Grid Model.Render Model.MergeLoop Model.Locate Model.Ball
  Proofs.Render Proofs.MergeLoop Proofs.Components Proofs.LocateCart
  Proofs.BallRow Proofs.BallCentroid Proofs.BallSep Proofs.BallConn Proofs.BallTorus Proofs.BallLift.
Local Open Scope Q_scope.

Definition boxvol (g : grid) (r : Q) : Q := fold_right (fun a v => (2 * r + adisc a) * v) 1 g.

Lemma lsum_le {A : Type} (l : list A) (f f' : A -> Q) :
  (forall x, In x l -> f x <= f' x) -> lsum l f <= lsum l f'.
Proof.
  induction l as [|x l IH]; intros H; cbn [lsum]; [apply Qle_refl|].
  apply Qplus_le_compat; [apply H; left; reflexivity|]. apply IH. intros y Hy. apply H. right. exact Hy.
Qed.

Lemma row_count_bound h gamma s2 r m s : 0 < h -> 0 <= r -> s2 <= r * r ->
  lsum (zrange m s) (fun i => ind (rowb h gamma s2 i) 1) * h <= 2 * r + h.
Proof.
  intros Hh Hr Hs.
  destruct (convex_window (rowb h gamma s2)) with (m := m) (s := s) as [Hnone|(a & b & Hsa & Hab & Hbm & Hiff)].
  - intros i j k Hijk Hi Hk. apply rowb_iff. apply rowb_iff in Hi. apply rowb_iff in Hk.
    exact (ball_row_convex h gamma s2 i j k Hijk Hi Hk).
  - rewrite lsum_ind_false by (intros i Hi; apply zrange_In in Hi; apply Hnone; exact Hi). lra.
  - rewrite (window_sum _ (fun _ => 1) m s a b Hsa Hab Hbm Hiff).
    rewrite lsum_one, zrange_length, Z2Nat.id by lia.
    assert (Ha : rowmem h gamma s2 a) by (apply rowb_iff, Hiff; lia).
    assert (Hb : rowmem h gamma s2 b) by (apply rowb_iff, Hiff; lia).
    unfold rowmem in Ha, Hb.
    assert (Ha' : (h * rowoff gamma a) * (h * rowoff gamma a) < r * r) by lra.
    assert (Hb' : (h * rowoff gamma b) * (h * rowoff gamma b) < r * r) by lra.
    destruct (sq_lt_abs _ r Hr Ha') as [A1 A2]. destruct (sq_lt_abs _ r Hr Hb') as [B1 B2].
    unfold rowoff in *. unfold Zminus. rewrite !inject_Z_plus, inject_Z_opp. change (inject_Z 1) with 1.
    set (Aq := inject_Z a) in *. set (Bq := inject_Z b) in *. nra.
Qed.

(* the row along the first axis of a grid, read through the lift (periodic axes) *)
Lemma torus_row_count a x r s2 : axis_ok a -> 0 <= r -> s2 <= r * r ->
  lsum (zrange (Z.to_nat (ncell a)) 0) (fun i => ind (rowb (adisc a) (gam a x) s2 (liftZ a x i)) 1) * adisc a
  <= 2 * r + adisc a.
Proof.
  intros Hok Hr Hs. pose proof (adisc_pos a Hok) as Hh. destruct (aper a) eqn:Hper.
  - set (p := rowb (adisc a) (gam a x) s2).
    assert (Erot : lsum (zrange (Z.to_nat (ncell a)) 0) (fun i => ind (p (liftZ a x i)) 1)
                   == lsum (zrange (Z.to_nat (ncell a)) (winA a x)) (fun j => ind (p j) 1)).
    { rewrite <- (lsum_rotate (fun i => ind (p (liftZ a x i)) 1) (ncell a) (winA a x) (proj1 Hok)).
      apply lsum_ext. intros j Hj. apply zrange_In in Hj. rewrite Z2Nat.id in Hj by (destruct Hok; lia).
      assert (E : liftZ a x (j mod ncell a) = j).
      { apply (liftZ_unique a x _ j (j / ncell a) Hper (proj1 Hok) Hj).
        pose proof (Z.div_mod j (ncell a)). lia. }
      rewrite E. reflexivity. }
    rewrite Erot. unfold p. apply row_count_bound; assumption.
  - assert (E : lsum (zrange (Z.to_nat (ncell a)) 0) (fun i => ind (rowb (adisc a) (gam a x) s2 (liftZ a x i)) 1)
                == lsum (zrange (Z.to_nat (ncell a)) 0) (fun i => ind (rowb (adisc a) (gam a x) s2 i) 1)).
    { apply lsum_ext. intros i _. rewrite (liftZ_nonper a x i Hper). reflexivity. }
    rewrite E. apply row_count_bound; assumption.
Qed.

Lemma boxvol_nonneg g r : grid_ok g -> 0 <= r -> 0 <= boxvol g r.
Proof.
  intros Hok Hr. unfold boxvol, grid_ok in *. induction Hok as [|a g Ha _ IH]; cbn [fold_right]; [lra|].
  pose proof (adisc_pos a Ha). apply Qmult_le_0_compat; [lra|exact IH].
Qed.

Theorem within_count_bound : forall g, grid_ok g -> forall c r s2, length c = length g ->
  0 <= r -> s2 <= r * r ->
  lsum (all_cells (gshape g)) (fun idx => ind (within g c s2 idx) 1) * cell_volume g <= boxvol g r.
Proof.
  intros g Hok. unfold grid_ok in Hok. induction Hok as [|a g Ha Hok IH]; intros c r s2 Hlen Hr Hs.
  - destruct c; [|discriminate Hlen]. cbn [gshape map all_cells lsum]. unfold cell_volume, boxvol.
    cbn [fold_right]. destruct (within [] [] s2 []); cbn [ind]; lra.
  - destruct c as [|x c]; [discriminate Hlen|]. cbn [length] in Hlen. injection Hlen as Hlen.
    fold (grid_ok g) in Hok.
    unfold gshape. cbn [map]. fold (gshape g). rewrite lsum_all_cells_cons.
    unfold cell_volume, boxvol. cbn [fold_right]. fold (cell_volume g). fold (boxvol g r).
    pose proof (adisc_pos a Ha) as Hh. pose proof (boxvol_nonneg g r Hok Hr) as Hbv.
    set (h := adisc a) in *. set (cv := cell_volume g). set (bv := boxvol g r) in *.
    (* slice by slice *)
    assert (Hslice : forall i,
              lsum (all_cells (gshape g)) (fun t => ind (within (a :: g) (x :: c) s2 (i :: t)) 1) * cv
              <= ind (rowb h (gam a x) s2 (liftZ a x i)) 1 * bv).
    { intros i. set (q := diff1 a x (centre1 a i) * diff1 a x (centre1 a i)).
      assert (Hq : 0 <= q) by (unfold q; generalize (diff1 a x (centre1 a i)); intros z; nra).
      assert (E : lsum (all_cells (gshape g)) (fun t => ind (within (a :: g) (x :: c) s2 (i :: t)) 1)
                  == lsum (all_cells (gshape g)) (fun t => ind (within g c (s2 - q) t) 1)).
      { apply lsum_ext. intros t _. rewrite (within_cons_tail_gen a g x c s2 i t). reflexivity. }
      rewrite E.
      assert (Eq : q == (h * rowoff (gam a x) (liftZ a x i)) * (h * rowoff (gam a x) (liftZ a x i))).
      { unfold q, h. rewrite (diff1_lift a x i Ha), (centre1_rowoff a x _ Ha). reflexivity. }
      destruct (rowb h (gam a x) s2 (liftZ a x i)) eqn:Eb; cbn [ind].
      - pose proof (IH c r (s2 - q) Hlen Hr ltac:(lra)) as H. fold cv bv in H. lra.
      - apply rowb_false_iff in Eb. unfold rowmem in Eb. apply Qnot_lt_le in Eb.
        rewrite lsum_ind_false; [lra|].
        intros t _. unfold within. destruct (Qlt_bool (d2cell g c t) (s2 - q)) eqn:El; [|reflexivity].
        apply Qlt_bool_iff in El. pose proof (d2cell_nonneg g c t). lra. }
    assert (Hsum : lsum (zrange (Z.to_nat (ncell a)) 0)
                     (fun i => lsum (all_cells (gshape g))
                                    (fun t => ind (within (a :: g) (x :: c) s2 (i :: t)) 1)) * cv
                   <= lsum (zrange (Z.to_nat (ncell a)) 0)
                        (fun i => ind (rowb h (gam a x) s2 (liftZ a x i)) 1) * bv).
    { rewrite !(Qmult_comm _ cv), !(Qmult_comm _ bv), <- !lsum_scale. apply lsum_le. intros i _.
      rewrite !(Qmult_comm cv), !(Qmult_comm bv). apply Hslice. }
    pose proof (torus_row_count a x r s2 Ha Hr Hs) as Hrow. fold h in Hrow.
    set (S1 := lsum (zrange (Z.to_nat (ncell a)) 0)
                 (fun i => lsum (all_cells (gshape g))
                                (fun t => ind (within (a :: g) (x :: c) s2 (i :: t)) 1))) in *.
    set (S2 := lsum (zrange (Z.to_nat (ncell a)) 0)
                 (fun i => ind (rowb h (gam a x) s2 (liftZ a x i)) 1)) in *.
    assert (P1 : h * (S1 * cv) <= h * (S2 * bv)) by (apply Qmult_le_l; assumption).
    assert (P2 : (S2 * h) * bv <= (2 * r + h) * bv) by (apply Qmult_le_compat_r; assumption).
    assert (E1 : S1 * (h * cv) == h * (S1 * cv)) by ring.
    assert (E2 : h * (S2 * bv) == (S2 * h) * bv) by ring.
    lra.
Qed.

Theorem ball_count_bound g c r : grid_ok g -> length c = length g -> 0 <= r ->
  inject_Z (Z.of_nat (length (ball_cells g c r))) * cell_volume g <= boxvol g r.
Proof.
  intros Hok Hlen Hr. rewrite <- lsum_one. unfold ball_cells. rewrite <- lsum_filter.
  assert (E : lsum (all_cells (gshape g)) (fun idx => ind (inside g c r idx) 1)
              == lsum (all_cells (gshape g)) (fun idx => ind (within g c (r * r) idx) 1)).
  { apply lsum_ext. intros idx _. rewrite (inside_within g c r idx Hr). reflexivity. }
  rewrite E. exact (within_count_bound g Hok c r (r * r) Hlen Hr (Qle_refl _)).
Qed.

Print Assumptions row_count_bound.
Print Assumptions ball_count_bound.
