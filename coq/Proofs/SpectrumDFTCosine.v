(* Spectrum, part 7c: the mathematical DFT of a resolved cosine is supported on the modes q and N - q
   (the premise dft_cosine of the plane-wave theorems of C17), from the orthogonality of the characters. *)
From Coq Require Import Reals Lra List ZArith Lia Bool Permutation Arith.
Import ListNotations.
From PD Require Import Model.Spectrum Proofs.SpectrumLists Proofs.SpectrumDFTAlg Proofs.SpectrumDFTMath.
Local Open Scope R_scope.

Lemma angle_sym N a b : angle N a b = angle N b a.
Proof. unfold angle. unfold Rdiv. ring. Qed.

(* sum_n cos / sin (2 pi d n / N) for any d < 2 N *)
Lemma sum_cos_sin_any N d : (0 < N)%nat -> (d < 2 * N)%nat ->
  rsum (map (fun n => cos (angle N d n)) (seq 0 N)) = (if Nat.eq_dec d 0 then INR N else if Nat.eq_dec d N then INR N else 0) /\
  rsum (map (fun n => sin (angle N d n)) (seq 0 N)) = 0.
Proof.
  intros HN Hd. assert (HN' : INR N <> 0) by (apply not_0_INR; lia).
  destruct (Nat.eq_dec d 0) as [->|H0].
  - split.
    + rewrite (rsum_map_ext_in _ (fun _ => 1)) by (intros; rewrite angle_0_l; apply cos_0).
      rewrite rsum_const, seq_length. ring.
    + rewrite (rsum_map_ext_in _ (fun _ => 0)) by (intros; rewrite angle_0_l; apply sin_0). apply rsum_map_zero.
  - destruct (lt_dec d N) as [Hlt|Hge].
    + destruct (Nat.eq_dec d N); [lia|]. apply sum_cos_sin_roots. lia.
    + (* d = N + e with e < N: the angles differ by 2 pi n *)
      assert (E : forall n, angle N d n = angle N (d - N) n + 2 * INR n * PI).
      { intros n. unfold angle. rewrite minus_INR by lia. field. exact HN'. }
      destruct (Nat.eq_dec d N) as [->|HdN].
      * split.
        -- rewrite (rsum_map_ext_in _ (fun _ => 1)).
           ++ rewrite rsum_const, seq_length. ring.
           ++ intros n _. rewrite E, Nat.sub_diag, angle_0_l, cos_period. apply cos_0.
        -- rewrite (rsum_map_ext_in _ (fun _ => 0)); [apply rsum_map_zero|].
           intros n _. rewrite E, Nat.sub_diag, angle_0_l, sin_period. apply sin_0.
      * destruct (sum_cos_sin_roots N (d - N) ltac:(lia)) as [Hc Hs]. split.
        -- rewrite (rsum_map_ext_in _ (fun n => cos (angle N (d - N) n))) by (intros; rewrite E, cos_period; reflexivity).
           exact Hc.
        -- rewrite (rsum_map_ext_in _ (fun n => sin (angle N (d - N) n))) by (intros; rewrite E, sin_period; reflexivity).
           exact Hs.
Qed.

Lemma sum_diff N a b : (a < N)%nat -> (b < N)%nat ->
  rsum (map (fun n => cos (angle N a n - angle N b n)) (seq 0 N)) = (if Nat.eq_dec a b then INR N else 0) /\
  rsum (map (fun n => sin (angle N a n - angle N b n)) (seq 0 N)) = 0.
Proof.
  intros Ha Hb. destruct (character_orthogonality N a b Ha Hb) as [Hc Hs]. split.
  - rewrite <- Hc. apply rsum_map_ext_in. intros n _. rewrite (angle_sym N a n), (angle_sym N b n). reflexivity.
  - rewrite <- Hs. apply rsum_map_ext_in. intros n _. rewrite (angle_sym N a n), (angle_sym N b n). reflexivity.
Qed.

Lemma angle_add N a b n : (0 < N)%nat -> angle N a n + angle N b n = angle N (a + b) n.
Proof. intros HN. unfold angle. rewrite plus_INR. assert (INR N <> 0) by (apply not_0_INR; lia). field. assumption. Qed.

(* the four product sums for modes a = q (1 <= q, 2 q < N) and b = m (0 < m < N) *)
Lemma product_sums N q m : (1 <= q)%nat -> (2 * q < N)%nat -> (0 < m < N)%nat ->
  let D := if Nat.eq_dec q m then INR N else 0 in
  let S := if Nat.eq_dec (q + m) N then INR N else 0 in
  rsum (map (fun n => cos (angle N q n) * cos (angle N m n)) (seq 0 N)) = (D + S) / 2 /\
  rsum (map (fun n => sin (angle N q n) * sin (angle N m n)) (seq 0 N)) = (D - S) / 2 /\
  rsum (map (fun n => sin (angle N q n) * cos (angle N m n)) (seq 0 N)) = 0 /\
  rsum (map (fun n => cos (angle N q n) * sin (angle N m n)) (seq 0 N)) = 0.
Proof.
  intros Hq1 Hq2 Hm D S. assert (HN : (0 < N)%nat) by lia.
  destruct (sum_diff N q m ltac:(lia) ltac:(lia)) as [Dc Ds].
  destruct (sum_cos_sin_any N (q + m) HN ltac:(lia)) as [Sc Ss].
  destruct (Nat.eq_dec (q + m) 0) as [Z|Hqm0]; [lia|]. fold D in Dc. fold S in Sc.
  assert (Sc' : rsum (map (fun n => cos (angle N q n + angle N m n)) (seq 0 N)) = S)
    by (rewrite <- Sc; apply rsum_map_ext_in; intros; rewrite angle_add by exact HN; reflexivity).
  assert (Ss' : rsum (map (fun n => sin (angle N q n + angle N m n)) (seq 0 N)) = 0)
    by (rewrite <- Ss; apply rsum_map_ext_in; intros; rewrite angle_add by exact HN; reflexivity).
  repeat split.
  - rewrite (rsum_map_ext_in _ (fun n => / 2 * cos (angle N q n - angle N m n) + / 2 * cos (angle N q n + angle N m n)))
      by (intros; rewrite cos_minus, cos_plus; field).
    rewrite rsum_map_plus, !rsum_map_scale, Dc, Sc'. field.
  - rewrite (rsum_map_ext_in _ (fun n => / 2 * cos (angle N q n - angle N m n) + (- / 2) * cos (angle N q n + angle N m n)))
      by (intros; rewrite cos_minus, cos_plus; field).
    rewrite rsum_map_plus, !rsum_map_scale, Dc, Sc'. field.
  - rewrite (rsum_map_ext_in _ (fun n => / 2 * sin (angle N q n + angle N m n) + / 2 * sin (angle N q n - angle N m n)))
      by (intros; rewrite sin_minus, sin_plus; field).
    rewrite rsum_map_plus, !rsum_map_scale, Ds, Ss'. ring.
  - rewrite (rsum_map_ext_in _ (fun n => / 2 * sin (angle N q n + angle N m n) + (- / 2) * sin (angle N q n - angle N m n)))
      by (intros; rewrite sin_minus, sin_plus; field).
    rewrite rsum_map_plus, !rsum_map_scale, Ds, Ss'. ring.
Qed.

(* the unnormalised 1-d transform of the cosine field at mode m *)
Lemma cosine_transform N q A phi c m : (1 <= q)%nat -> (2 * q < N)%nat -> (0 < m < N)%nat ->
  let D := if Nat.eq_dec q m then INR N else 0 in
  let S := if Nat.eq_dec (q + m) N then INR N else 0 in
  T1 N (fun n => (cosine_field N q A phi c [n], 0)) m =
  (A * cos phi * ((D + S) / 2), A * sin phi * ((D - S) / 2)).
Proof.
  intros Hq1 Hq2 Hm D S. assert (HN : (0 < N)%nat) by lia.
  destruct (product_sums N q m Hq1 Hq2 Hm) as [CC [SS [SC CS]]]. fold D in CC, SS. fold S in CC, SS.
  destruct (sum_cos_sin_any N m HN ltac:(lia)) as [C1 S1].
  destruct (Nat.eq_dec m 0) as [Z0|Hm0]; [lia|]. destruct (Nat.eq_dec m N) as [ZN|HmN]; [lia|].
  unfold T1. rewrite csum_map_components. unfold cmul, cexp, cosine_field. cbn [fst snd].
  assert (Ea : forall n, 2 * PI * INR q * INR n / INR N = angle N q n) by (intros; reflexivity).
  apply pair_eq; cbn [fst snd].
  - rewrite (rsum_map_ext_in _ (fun n => A * cos phi * (cos (angle N q n) * cos (angle N m n)) +
              ((- (A * sin phi)) * (sin (angle N q n) * cos (angle N m n)) + c * cos (angle N m n)))).
    2:{ intros n _. rewrite Ea, cos_plus, cos_neg, sin_neg. ring. }
    rewrite rsum_map_plus, rsum_map_plus, !rsum_map_scale, CC, SC, C1. ring.
  - rewrite (rsum_map_ext_in _ (fun n => (- (A * cos phi)) * (cos (angle N q n) * sin (angle N m n)) +
              (A * sin phi * (sin (angle N q n) * sin (angle N m n)) + (- c) * sin (angle N m n)))).
    2:{ intros n _. rewrite Ea, cos_plus, cos_neg, sin_neg. ring. }
    rewrite rsum_map_plus, rsum_map_plus, !rsum_map_scale, CS, SS, S1. ring.
Qed.

Lemma dft_math_1d N x m :
  dft_math true [N] x [m] = cscal (/ sqrt (INR N)) (T1 N (fun n => (x [n], 0)) m).
Proof. unfold dft_math. rewrite cscal_1. reflexivity. Qed.

Theorem dft_math_cosine : dft_cosine dom_math dft_math.
Proof.
  intros N q A phi c Hd Hq1 Hq4. assert (Hq2 : (2 * q < N)%nat) by lia.
  assert (HN : (0 < N)%nat) by lia. assert (HN' : INR N <> 0) by (apply not_0_INR; lia).
  repeat split.
  - intros m Hm H0 H1 H2. rewrite dft_math_1d, cabs2_cscal, (cosine_transform N q A phi c m Hq1 Hq2 ltac:(lia)).
    destruct (Nat.eq_dec q m); [congruence|]. destruct (Nat.eq_dec (q + m) N); [lia|].
    unfold cabs2. cbn [fst snd]. unfold Rdiv. ring.
  - rewrite dft_math_1d, cabs2_cscal, inv_sqrt_sq by exact HN.
    rewrite (cosine_transform N q A phi c q Hq1 Hq2 ltac:(lia)).
    destruct (Nat.eq_dec q q); [|congruence]. destruct (Nat.eq_dec (q + q) N); [lia|].
    unfold cabs2. cbn [fst snd]. pose proof (sin2_cos2 phi) as SC. unfold Rsqr in SC.
    replace (A * cos phi * ((INR N + 0) / 2) * (A * cos phi * ((INR N + 0) / 2)) +
             A * sin phi * ((INR N - 0) / 2) * (A * sin phi * ((INR N - 0) / 2)))
      with (A ^ 2 * INR N ^ 2 / 4 * (sin phi * sin phi + cos phi * cos phi)) by field.
    rewrite SC. field. exact HN'.
  - rewrite dft_math_1d, cabs2_cscal, inv_sqrt_sq by exact HN.
    rewrite (cosine_transform N q A phi c (N - q) Hq1 Hq2 ltac:(lia)).
    destruct (Nat.eq_dec q (N - q)); [lia|]. destruct (Nat.eq_dec (q + (N - q)) N); [|lia].
    unfold cabs2. cbn [fst snd]. pose proof (sin2_cos2 phi) as SC. unfold Rsqr in SC.
    replace (A * cos phi * ((0 + INR N) / 2) * (A * cos phi * ((0 + INR N) / 2)) +
             A * sin phi * ((0 - INR N) / 2) * (A * sin phi * ((0 - INR N) / 2)))
      with (A ^ 2 * INR N ^ 2 / 4 * (sin phi * sin phi + cos phi * cos phi)) by field.
    rewrite SC. field. exact HN'.
Qed.
