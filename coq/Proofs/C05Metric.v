(* C05, R-layer, any dimension: identifiability of the diffuse profile in an arbitrary metric space.

   The image is  b + a * profile(dist(x, c), R, w)  (a rendered diffuse droplet, affinely rescaled, a <> 0); the fit
   uses the true levels.  If the residual that refine_droplet builds (Gen_refine_R.residual_plain, generated from
   `_image_deviation`) vanishes at the two centres and at one further point, the fitted centre, radius and width are
   the true ones.  Only symmetry of the distance, dist x x = 0 and dist x y = 0 -> x = y are used, so the statement
   covers Cartesian grids of every dimension with the Euclidean distance (instances below for d = 1, 2, 3) and
   every other metric a grid may use.  Together with C05.truth_zero_residual this says: the zero-residual point of
   the least-squares problem exists and is unique, in every dimension. *)
From Coq Require Import Reals Lra List.
From PD Require Import Gen.Gen_shapes Gen.Gen_refine_R Proofs.Profile Proofs.C05.
Import ListNotations.
Local Open Scope R_scope.

Section Metric.
  Variable X : Type.
  Variable dist : X -> X -> R.
  Hypothesis dist_sym : forall x y, dist x y = dist y x.
  Hypothesis dist_refl : forall x, dist x x = 0.
  Hypothesis dist_sep : forall x y, dist x y = 0 -> x = y.

  (* zero residual at a point = equal tanh arguments *)
  Lemma zero_residual_args a b (c c' x : X) R w R' w' : a <> 0 -> 0 < w -> 0 < w' ->
    residual_plain b a (diffuse_profile (dist x c') R' w')
                       (scale_value b (a + b) (diffuse_profile (dist x c) R w)) = 0 ->
    (R' - dist x c') * w = (R - dist x c) * w'.
  Proof.
    intros Ha Hw Hw' Hres.
    rewrite residual_plain_char, scale_value_char, !diffuse_profile_char in Hres.
    assert (E : a * (tanh ((R' - dist x c') / w') - tanh ((R - dist x c) / w)) = 0) by lra.
    apply Rmult_integral in E. destruct E as [E|E]; [contradiction|].
    assert (T : tanh ((R' - dist x c') / w') = tanh ((R - dist x c) / w)) by lra.
    apply tanh_injective in T.
    apply (Rmult_eq_reg_r (/ w' * / w)).
    - transitivity ((R' - dist x c') / w'); [field; lra|]. rewrite T. field. lra.
    - apply Rmult_integral_contrapositive_currified; apply Rinv_neq_0_compat; lra.
  Qed.

  Theorem identifiable_metric : forall a b (c c' x0 : X) R w R' w',
    a <> 0 -> 0 < w -> 0 < w' -> x0 <> c ->
    (forall x, In x [c; c'; x0] ->
       residual_plain b a (diffuse_profile (dist x c') R' w')
                          (scale_value b (a + b) (diffuse_profile (dist x c) R w)) = 0) ->
    c' = c /\ R' = R /\ w' = w.
  Proof.
    intros a b c c' x0 R w R' w' Ha Hw Hw' Hx0 Hres.
    pose proof (zero_residual_args a b c c' c R w R' w' Ha Hw Hw' (Hres c (or_introl eq_refl))) as E1.
    pose proof (zero_residual_args a b c c' c' R w R' w' Ha Hw Hw'
                  (Hres c' (or_intror (or_introl eq_refl)))) as E2.
    pose proof (zero_residual_args a b c c' x0 R w R' w' Ha Hw Hw'
                  (Hres x0 (or_intror (or_intror (or_introl eq_refl))))) as E3.
    rewrite dist_refl in E1, E2. rewrite (dist_sym c' c) in E2.
    set (D := dist c c') in *.
    (* E1: (R' - D) w = R w' ;  E2: R' w = (R - D) w'  =>  D (w + w') = 0 *)
    assert (HD : D * (w + w') = 0) by nra.
    assert (D0 : D = 0).
    { apply Rmult_integral in HD. destruct HD as [H|H]; [exact H|lra]. }
    assert (Ec : c = c') by (apply dist_sep; exact D0).
    subst c'. clear E2. rewrite D0 in E1.
    assert (Hs : dist x0 c <> 0) by (intros H; apply Hx0; apply dist_sep; exact H).
    set (s := dist x0 c) in *.
    (* E1: R' w = R w' ;  E3: (R' - s) w = (R - s) w'  =>  s w = s w' *)
    assert (Ew : w' = w).
    { apply (Rmult_eq_reg_l s); [nra|exact Hs]. }
    subst w'. repeat split; try reflexivity.
    apply (Rmult_eq_reg_r w); [nra|lra].
  Qed.

  (* the same with the hypothesis the property text uses: the residual vanishes everywhere *)
  Corollary identifiable_everywhere : forall a b (c c' x0 : X) R w R' w',
    a <> 0 -> 0 < w -> 0 < w' -> x0 <> c ->
    (forall x, residual_plain b a (diffuse_profile (dist x c') R' w')
                              (scale_value b (a + b) (diffuse_profile (dist x c) R w)) = 0) ->
    c' = c /\ R' = R /\ w' = w.
  Proof. intros a b c c' x0 R w R' w' Ha Hw Hw' Hx0 H. apply (identifiable_metric a b c c' x0); auto. Qed.
End Metric.

(* ---------------------------------------------------------------------------------------- *)
(* Euclidean instances: d = 1, 2, 3                                                          *)
(* ---------------------------------------------------------------------------------------- *)
Definition euclid1 (x y : R) : R := Rabs (x - y).
Definition euclid2 (x y : R * R) : R := sqrt ((fst x - fst y)² + (snd x - snd y)²).
Definition euclid3 (x y : R * R * R) : R :=
  sqrt ((fst (fst x) - fst (fst y))² + (snd (fst x) - snd (fst y))² + (snd x - snd y)²).

Lemma Rsqr_sub_sym u v : (u - v)² = (v - u)².
Proof. unfold Rsqr. ring. Qed.

Lemma euclid1_sym x y : euclid1 x y = euclid1 y x.
Proof. unfold euclid1. apply Rabs_minus_sym. Qed.
Lemma euclid1_refl x : euclid1 x x = 0.
Proof. unfold euclid1. rewrite Rminus_diag_eq by reflexivity. apply Rabs_R0. Qed.
Lemma euclid1_sep x y : euclid1 x y = 0 -> x = y.
Proof.
  unfold euclid1. intros H. destruct (Req_dec (x - y) 0) as [E|E]; [lra|].
  apply Rabs_no_R0 in E. contradiction.
Qed.

Lemma euclid2_sym x y : euclid2 x y = euclid2 y x.
Proof. unfold euclid2. rewrite (Rsqr_sub_sym (fst x)), (Rsqr_sub_sym (snd x)). reflexivity. Qed.
Lemma euclid2_refl x : euclid2 x x = 0.
Proof. unfold euclid2. rewrite !Rminus_diag_eq by reflexivity. rewrite Rsqr_0, Rplus_0_r. apply sqrt_0. Qed.
Lemma euclid2_sep x y : euclid2 x y = 0 -> x = y.
Proof.
  unfold euclid2. intros H. apply sqrt_eq_0 in H; [|pose proof (Rle_0_sqr (fst x - fst y));
                                                   pose proof (Rle_0_sqr (snd x - snd y)); lra].
  apply Rplus_sqr_eq_0 in H. destruct H as [H1 H2]. destruct x, y; simpl in *. f_equal; lra.
Qed.

Lemma euclid3_sym x y : euclid3 x y = euclid3 y x.
Proof.
  unfold euclid3. rewrite (Rsqr_sub_sym (fst (fst x))), (Rsqr_sub_sym (snd (fst x))), (Rsqr_sub_sym (snd x)).
  reflexivity.
Qed.
Lemma euclid3_refl x : euclid3 x x = 0.
Proof. unfold euclid3. rewrite !Rminus_diag_eq by reflexivity. rewrite Rsqr_0, !Rplus_0_r. apply sqrt_0. Qed.
Lemma euclid3_sep x y : euclid3 x y = 0 -> x = y.
Proof.
  unfold euclid3. intros H.
  pose proof (Rle_0_sqr (fst (fst x) - fst (fst y))) as P1.
  pose proof (Rle_0_sqr (snd (fst x) - snd (fst y))) as P2.
  pose proof (Rle_0_sqr (snd x - snd y)) as P3.
  apply sqrt_eq_0 in H; [|lra].
  assert (H12 : (fst (fst x) - fst (fst y))² + (snd (fst x) - snd (fst y))² = 0) by lra.
  assert (H3 : (snd x - snd y)² = 0) by lra.
  apply Rplus_sqr_eq_0 in H12. destruct H12 as [H1 H2]. apply Rsqr_eq_0 in H3.
  destruct x as [[x1 x2] x3], y as [[y1 y2] y3]; simpl in *. repeat f_equal; lra.
Qed.

Theorem identifiable_euclid_1d : forall a b (c c' x0 : R) R w R' w',
  a <> 0 -> 0 < w -> 0 < w' -> x0 <> c ->
  (forall x, In x [c; c'; x0] ->
     residual_plain b a (diffuse_profile (euclid1 x c') R' w')
                        (scale_value b (a + b) (diffuse_profile (euclid1 x c) R w)) = 0) ->
  c' = c /\ R' = R /\ w' = w.
Proof. apply (identifiable_metric R euclid1 euclid1_sym euclid1_refl euclid1_sep). Qed.

Theorem identifiable_euclid_2d : forall a b (c c' x0 : R * R) R w R' w',
  a <> 0 -> 0 < w -> 0 < w' -> x0 <> c ->
  (forall x, In x [c; c'; x0] ->
     residual_plain b a (diffuse_profile (euclid2 x c') R' w')
                        (scale_value b (a + b) (diffuse_profile (euclid2 x c) R w)) = 0) ->
  c' = c /\ R' = R /\ w' = w.
Proof. apply (identifiable_metric (R * R) euclid2 euclid2_sym euclid2_refl euclid2_sep). Qed.

Theorem identifiable_euclid_3d : forall a b (c c' x0 : R * R * R) R w R' w',
  a <> 0 -> 0 < w -> 0 < w' -> x0 <> c ->
  (forall x, In x [c; c'; x0] ->
     residual_plain b a (diffuse_profile (euclid3 x c') R' w')
                        (scale_value b (a + b) (diffuse_profile (euclid3 x c) R w)) = 0) ->
  c' = c /\ R' = R /\ w' = w.
Proof. apply (identifiable_metric (R * R * R) euclid3 euclid3_sym euclid3_refl euclid3_sep). Qed.
