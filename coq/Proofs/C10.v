(* C10 -- overlap removal leaves a separated subset; distance queries agree. *)
From Coq Require Import QArith Qround List Arith Bool Lia Lqa.
Import ListNotations.
From PD Require Import Model.Overlap Model.Grid Model.OverlapCases Proofs.Overlap.
Local Open Scope Q_scope.

(* get_pairwise_distances: the loops fill dists[i,j] = dists[j,i] for i < j, diagonal stays 0 *)
Definition pairwise (dist : nat -> nat -> Q) (rad : nat -> Q) (sub : bool) (i j : nat) : Q :=
  if Nat.eqb i j then 0 else
  let a := Nat.min i j in let b := Nat.max i j in
  if sub then dist a b - (rad a + rad b) else dist a b.

Lemma pairwise_sym dist rad sub i j : pairwise dist rad sub i j = pairwise dist rad sub j i.
Proof.
  unfold pairwise. rewrite (Nat.eqb_sym j i). rewrite (Nat.min_comm j i), (Nat.max_comm j i). reflexivity.
Qed.

Lemma pairwise_diag dist rad sub i : pairwise dist rad sub i i = 0.
Proof. unfold pairwise. rewrite Nat.eqb_refl. reflexivity. Qed.

Lemma pairwise_upper dist rad i j : (i < j)%nat ->
  pairwise dist rad false i j = dist i j /\
  pairwise dist rad true i j = dist i j - (rad i + rad j).
Proof.
  intros H. unfold pairwise. destruct (Nat.eqb_spec i j); [lia|].
  rewrite Nat.min_l, Nat.max_r by lia. split; reflexivity.
Qed.

(* SphericalDroplet.overlaps: distance < r1 + r2  <->  surface distance < 0 *)
Lemma overlaps_iff_negative (d r1 r2 : Q) : d < r1 + r2 <-> d - (r1 + r2) < 0.
Proof. split; intros H; lra. Qed.

(* the squared (periodic) distance is non-negative, and zero between a point and itself *)
Lemma sumsq_nonneg v : 0 <= sumsq v.
Proof.
  induction v as [|x v IH]; simpl; [apply Qle_refl|].
  assert (0 <= x * x) by nra. lra.
Qed.

Lemma dist2_nonneg g p q : 0 <= dist2 g p q.
Proof. apply sumsq_nonneg. Qed.

Lemma edist2_nonneg p q : 0 <= edist2 p q.
Proof. apply sumsq_nonneg. Qed.

Lemma sub_vec_sym_sq p : forall q, sumsq (sub_vec p q) == sumsq (sub_vec q p).
Proof.
  induction p as [|x p IH]; intros [|y q]; simpl; try reflexivity.
  rewrite (IH q). ring.
Qed.

(* Euclidean squared distance is symmetric *)
Lemma edist2_sym p q : edist2 p q == edist2 q p.
Proof. apply sub_vec_sym_sq. Qed.

(* a zero difference stays zero under the periodic wrap, for every period (also the degenerate period 0) *)
Lemma wrap1_zero L d : d == 0 -> wrap1 L d == 0.
Proof.
  intros Hd. unfold wrap1, Qmod.
  assert (H : Qfloor ((d + L / 2) / L) = 0%Z).
  { destruct (Qeq_dec L 0) as [E|E].
    - assert (E2 : (d + L / 2) / L == 0) by (rewrite E, Hd; reflexivity).
      rewrite E2. reflexivity.
    - assert (E2 : (d + L / 2) / L == 1 # 2) by (rewrite Hd; field; exact E).
      rewrite E2. reflexivity. }
  rewrite H, Hd. simpl. ring.
Qed.

(* on the symmetry axis of a cylindrical grid the metric py-pde 0.58.0 uses (Model/OverlapCases.v cyl_metric) is the
   plain Euclidean one, whether or not the grid is periodic in z: the z difference is never wrapped (findings F19, F29) *)
Lemma cyl_axis_metric nr nz R z0 z1 pz a b :
  dist2 (cyl_metric nr nz R z0 z1 pz) [0; 0; a] [0; 0; b] == (b - a) * (b - a).
Proof.
  unfold dist2, cyl_metric, plain_axis. simpl. unfold diff1. simpl.
  destruct pz; simpl.
  - rewrite (wrap1_zero _ (0 - 0)) by ring. ring.
  - ring.
Qed.
