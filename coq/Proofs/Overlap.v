(* Proofs about Model/Overlap.v (C10 core, reused by C02/C01/C18). Axiom-free. *)
From Coq Require Import QArith List Arith Bool Lia.
Import ListNotations.
From PD Require Import Model.Overlap.
Local Open Scope Q_scope.

Section OverlapProofs.
  Variable D : nat -> nat -> Q.
  Variable rad : nat -> Q.
  Variable md : Q.

  Notation upd := (upd D).
  Notation scan_row := (scan_row D).
  Notation scan := (scan D).
  Notation argmin := (argmin D).
  Notation ro_step := (ro_step D rad md).
  Notation ro_iter := (ro_iter D rad md).
  Notation ro := (ro D rad md).

  (* ---- argmin ---- *)
  Definition Inv (S : nat -> nat -> Prop) (best : option (nat * nat)) : Prop :=
    match best with
    | None => forall i j, S i j -> i = j
    | Some (x, y) => S x y /\ x <> y /\ forall i j, S i j -> i <> j -> D x y <= D i j
    end.

  Lemma Inv_ext S S' b : (forall i j, S i j <-> S' i j) -> Inv S b -> Inv S' b.
  Proof.
    intros E H. destruct b as [[x y]|]; simpl in *.
    - destruct H as (H1 & H2 & H3). split; [apply E; exact H1|]. split; [exact H2|].
      intros i j Hs Hn. apply H3; [apply E; exact Hs|exact Hn].
    - intros i j Hs. apply H. apply E. exact Hs.
  Qed.

  Lemma upd_inv S best x y :
    Inv S best -> Inv (fun i j => S i j \/ (i = x /\ j = y)) (upd best x y).
  Proof.
    intros H. unfold Overlap.upd. destruct (Nat.eqb_spec x y) as [E|E].
    - subst y. destruct best as [[bx bY]|]; simpl in *.
      + destruct H as (H1 & H2 & H3). split; [left; exact H1|]. split; [exact H2|].
        intros i j [Hs|[-> ->]] Hn; [apply H3; assumption|congruence].
      + intros i j [Hs|[-> ->]]; [apply H; exact Hs|reflexivity].
    - destruct best as [[bx bY]|]; simpl in *.
      + destruct H as (H1 & H2 & H3).
        destruct (Qlt_le_dec (D x y) (D bx bY)) as [Hlt|Hle]; simpl.
        * split; [right; split; reflexivity|]. split; [exact E|].
          intros i j [Hs|[-> ->]] Hn; [|apply Qle_refl].
          apply Qle_trans with (D bx bY); [apply Qlt_le_weak; exact Hlt|apply H3; assumption].
        * split; [left; exact H1|]. split; [exact H2|].
          intros i j [Hs|[-> ->]] Hn; [apply H3; assumption|exact Hle].
      + split; [right; split; reflexivity|]. split; [exact E|].
        intros i j [Hs|[-> ->]] Hn; [exfalso; apply Hn; apply H; exact Hs|apply Qle_refl].
  Qed.

  Lemma scan_row_inv x ys : forall S best,
    Inv S best -> Inv (fun i j => S i j \/ (i = x /\ In j ys)) (scan_row x ys best).
  Proof.
    induction ys as [|y ys IH]; intros S best H; simpl.
    - eapply Inv_ext; [|exact H]. intros i j; split; [intros Hs; left; exact Hs|intros [Hs|[_ []]]; exact Hs].
    - eapply Inv_ext; [|apply IH; apply upd_inv; exact H].
      intros i j; simpl; split.
      + intros [[Hs|[-> ->]]|[-> Hin]]; [left; exact Hs|right; split; [reflexivity|left; reflexivity]|right; split; [reflexivity|right; exact Hin]].
      + intros [Hs|[-> [<-|Hin]]]; [left; left; exact Hs|left; right; split; reflexivity|right; split; [reflexivity|exact Hin]].
  Qed.

  Lemma scan_inv xs ys : forall S best,
    Inv S best -> Inv (fun i j => S i j \/ (In i xs /\ In j ys)) (scan xs ys best).
  Proof.
    induction xs as [|x xs IH]; intros S best H; simpl.
    - eapply Inv_ext; [|exact H]. intros i j; split; [intros Hs; left; exact Hs|intros [Hs|[[] _]]; exact Hs].
    - eapply Inv_ext; [|apply IH; apply scan_row_inv; exact H].
      intros i j; simpl; split.
      + intros [[Hs|[-> Hin]]|[Hi Hj]]; [left; exact Hs|right; split; [left; reflexivity|exact Hin]|right; split; [right; exact Hi|exact Hj]].
      + intros [Hs|[[<-|Hi] Hj]]; [left; left; exact Hs|left; right; split; [reflexivity|exact Hj]|right; split; assumption].
  Qed.

  Lemma argmin_inv l : Inv (fun i j => In i l /\ In j l) (argmin l).
  Proof.
    unfold Overlap.argmin. eapply Inv_ext; [|apply (scan_inv l l (fun _ _ => False) None)].
    - intros i j; split; [intros [[]|H]; exact H|intros H; right; exact H].
    - simpl. intros i j [].
  Qed.

  Lemma argmin_some l x y : argmin l = Some (x, y) ->
    In x l /\ In y l /\ x <> y /\ forall i j, In i l -> In j l -> i <> j -> D x y <= D i j.
  Proof.
    intros E. pose proof (argmin_inv l) as H. rewrite E in H. simpl in H.
    destruct H as ((H1 & H2) & H3 & H4). repeat split; try assumption.
    intros i j Hi Hj Hn. apply H4; [split; assumption|exact Hn].
  Qed.

  Lemma argmin_none l : argmin l = None -> forall i j, In i l -> In j l -> i = j.
  Proof.
    intros E. pose proof (argmin_inv l) as H. rewrite E in H. simpl in H.
    intros i j Hi Hj. apply H. split; assumption.
  Qed.

  (* ---- remove_nat ---- *)
  Lemma in_remove_nat i k l : In i (remove_nat k l) <-> In i l /\ i <> k.
  Proof.
    unfold remove_nat. rewrite filter_In. split.
    - intros [H1 H2]. split; [exact H1|]. destruct (Nat.eqb_spec i k); [discriminate|assumption].
    - intros [H1 H2]. split; [exact H1|]. destruct (Nat.eqb_spec i k); [contradiction|reflexivity].
  Qed.

  Lemma length_filter_le {A} (f : A -> bool) l : (length (filter f l) <= length l)%nat.
  Proof. induction l as [|a l IH]; simpl; [lia|destruct (f a); simpl; lia]. Qed.

  Lemma length_remove_nat k l : In k l -> (length (remove_nat k l) < length l)%nat.
  Proof.
    unfold remove_nat. induction l as [|a l IH]; simpl; [intros []|].
    intros [->|H].
    - rewrite Nat.eqb_refl. simpl. pose proof (length_filter_le (fun i => negb (i =? k)%nat) l). lia.
    - destruct (negb (a =? k)%nat); simpl; specialize (IH H); lia.
  Qed.

  (* ---- one step ---- *)
  Lemma ro_step_some l l' : ro_step l = Some l' ->
    exists r p, l' = remove_nat r l /\ In r l /\ In p l /\ p <> r /\
                (D r p < md \/ D p r < md) /\ rad r <= rad p.
  Proof.
    unfold Overlap.ro_step. destruct (argmin l) as [[x y]|] eqn:E; [|discriminate].
    apply argmin_some in E. destruct E as (Hx & Hy & Hn & _).
    destruct (Qlt_le_dec (D x y) md) as [Hd|Hd]; [|discriminate].
    destruct (Qlt_le_dec (rad y) (rad x)) as [Hr|Hr]; intros [= <-].
    - exists y, x. repeat split; try assumption. right; exact Hd. apply Qlt_le_weak; exact Hr.
    - exists x, y. repeat split; try assumption. congruence. left; exact Hd.
  Qed.

  Lemma ro_step_none l : ro_step l = None ->
    forall i j, In i l -> In j l -> i <> j -> md <= D i j.
  Proof.
    unfold Overlap.ro_step. destruct (argmin l) as [[x y]|] eqn:E.
    - apply argmin_some in E. destruct E as (_ & _ & _ & Hmin).
      destruct (Qlt_le_dec (D x y) md) as [Hd|Hd].
      + destruct (Qlt_le_dec (rad y) (rad x)); discriminate.
      + intros _ i j Hi Hj Hn. apply Qle_trans with (D x y); [exact Hd|apply Hmin; assumption].
    - intros _ i j Hi Hj Hn. exfalso. apply Hn. eapply argmin_none; eassumption.
  Qed.

  Lemma separated_step_none l :
    (forall i j, In i l -> In j l -> i <> j -> md <= D i j) -> ro_step l = None.
  Proof.
    intros H. unfold Overlap.ro_step. destruct (argmin l) as [[x y]|] eqn:E; [|reflexivity].
    apply argmin_some in E. destruct E as (Hx & Hy & Hn & _).
    destruct (Qlt_le_dec (D x y) md) as [Hd|Hd]; [|reflexivity].
    exfalso. apply (Qlt_not_le _ _ Hd). apply H; assumption.
  Qed.

  (* ---- the loop ---- *)
  Lemma ro_iter_stable fuel : forall l, (length l <= fuel)%nat -> ro_step (ro_iter fuel l) = None.
  Proof.
    induction fuel as [|f IH]; intros l Hl; simpl.
    - destruct l; [reflexivity|simpl in Hl; lia].
    - destruct (ro_step l) as [l'|] eqn:E; [|exact E].
      apply IH. destruct (ro_step_some _ _ E) as (r & p & -> & Hr & _).
      pose proof (length_remove_nat r l Hr). lia.
  Qed.

  Theorem ro_separated l : forall i j, In i (ro l) -> In j (ro l) -> i <> j -> md <= D i j.
  Proof. apply ro_step_none. apply ro_iter_stable. apply le_n. Qed.

  Lemma ro_iter_filter fuel : forall l, exists f, ro_iter fuel l = filter f l.
  Proof.
    induction fuel as [|f IH]; intros l; simpl.
    - exists (fun _ => true). induction l as [|a l IHl]; simpl; [reflexivity|f_equal; exact IHl].
    - destruct (ro_step l) as [l'|] eqn:E.
      + destruct (ro_step_some _ _ E) as (r & p & -> & _). destruct (IH (remove_nat r l)) as [g Hg].
        exists (fun i => negb (Nat.eqb i r) && g i). rewrite Hg. unfold remove_nat.
        clear. induction l as [|a l IHl]; simpl; [reflexivity|].
        destruct (negb (a =? r)%nat); simpl; [destruct (g a); simpl; [f_equal|]; exact IHl|exact IHl].
      + exists (fun _ => true). clear. induction l as [|a l IHl]; simpl; [reflexivity|f_equal; exact IHl].
  Qed.

  (* survivors are the original objects in their original order *)
  Theorem ro_sublist l : exists f, ro l = filter f l.
  Proof. apply ro_iter_filter. Qed.

  Lemma ro_iter_incl fuel : forall l i, In i (ro_iter fuel l) -> In i l.
  Proof.
    intros l i H. destruct (ro_iter_filter fuel l) as [f Hf]. rewrite Hf in H.
    apply filter_In in H. apply H.
  Qed.

  Lemma ro_iter_removed fuel : forall l k, In k l -> ~ In k (ro_iter fuel l) ->
    exists j, In j l /\ j <> k /\ (D k j < md \/ D j k < md) /\ rad k <= rad j.
  Proof.
    induction fuel as [|f IH]; intros l k Hk Hnot; simpl in Hnot; [contradiction|].
    destruct (ro_step l) as [l'|] eqn:E; [|contradiction].
    destruct (ro_step_some _ _ E) as (r & p & -> & Hr & Hp & Hpr & Hd & Hrad).
    destruct (Nat.eq_dec k r) as [->|Hkr].
    - exists p. repeat split; assumption.
    - assert (Hk' : In k (remove_nat r l)) by (apply in_remove_nat; split; assumption).
      destruct (IH _ _ Hk' Hnot) as (j & Hj & Hjk & Hdj & Hrj).
      exists j. split; [apply in_remove_nat in Hj; apply Hj|]. repeat split; assumption.
  Qed.

  (* every removed droplet was closer than md to one at least as large *)
  Theorem ro_removed_reason l k : In k l -> ~ In k (ro l) ->
    exists j, In j l /\ j <> k /\ (D k j < md \/ D j k < md) /\ rad k <= rad j.
  Proof. apply ro_iter_removed. Qed.

  Lemma ro_iter_largest fuel : forall l k, In k l ->
    (forall j, In j l -> j <> k -> rad j < rad k) -> In k (ro_iter fuel l).
  Proof.
    induction fuel as [|f IH]; intros l k Hk Hmax; simpl; [exact Hk|].
    destruct (ro_step l) as [l'|] eqn:E; [|exact Hk].
    destruct (ro_step_some _ _ E) as (r & p & -> & Hr & Hp & Hpr & Hd & Hrad).
    assert (Hkr : k <> r).
    { intros ->. apply (Qlt_not_le _ _ (Hmax p Hp Hpr)). exact Hrad. }
    apply IH.
    - apply in_remove_nat. split; assumption.
    - intros j Hj Hjk. apply Hmax; [apply in_remove_nat in Hj; apply Hj|exact Hjk].
  Qed.

  (* a strictly largest droplet always survives *)
  Theorem ro_largest_survives l k : In k l ->
    (forall j, In j l -> j <> k -> rad j < rad k) -> In k (ro l).
  Proof. apply ro_iter_largest. Qed.

  Lemma ro_iter_fix fuel l : ro_step l = None -> ro_iter fuel l = l.
  Proof. intros H. destruct fuel; simpl; [reflexivity|rewrite H; reflexivity]. Qed.

  (* a second call removes nothing *)
  Theorem ro_idempotent l : ro (ro l) = ro l.
  Proof. unfold Overlap.ro at 1. apply ro_iter_fix. apply ro_iter_stable. apply le_n. Qed.

  Theorem ro_id_if_separated l :
    (forall i j, In i l -> In j l -> i <> j -> md <= D i j) -> ro l = l.
  Proof. intros H. apply ro_iter_fix. apply separated_step_none. exact H. Qed.

  (* ---- remove_small = filter ---- *)
  Definition keep (mn : Q) (k : nat) : bool := negb (Qle_bool (rad k) mn).

  Lemma skipn_S_app (a : nat) pre suf : skipn (S (length pre)) (pre ++ a :: suf) = suf.
  Proof. induction pre as [|b pre IH]; [reflexivity|exact IH]. Qed.

  Lemma rs_loop_spec mn : forall pre suf,
    rs_loop rad mn (rev (seq 0 (length pre))) (pre ++ suf) = filter (keep mn) pre ++ suf.
  Proof.
    intros pre. induction pre as [|a pre IH] using rev_ind; intros suf; [reflexivity|].
    rewrite app_length. simpl length. rewrite Nat.add_1_r. rewrite seq_S. rewrite rev_app_distr. simpl.
    rewrite <- app_assoc. simpl.
    assert (Hn : nth_error (pre ++ a :: suf) (length pre) = Some a).
    { rewrite nth_error_app2 by lia. rewrite Nat.sub_diag. reflexivity. }
    rewrite Hn. rewrite filter_app. simpl. unfold keep at 2.
    destruct (Qle_bool (rad a) mn); simpl.
    - rewrite firstn_app, firstn_all, Nat.sub_diag. simpl. rewrite app_nil_r.
      replace (match pre ++ a :: suf with [] => [] | _ :: l => skipn (length pre) l end)
        with suf by (symmetry; apply (skipn_S_app a pre suf)).
      rewrite app_nil_r. apply IH.
    - rewrite IH. rewrite <- app_assoc. reflexivity.
  Qed.

  Theorem remove_small_filter mn l : remove_small rad mn l = filter (keep mn) l.
  Proof.
    unfold Overlap.remove_small. pose proof (rs_loop_spec mn l []) as H.
    rewrite !app_nil_r in H. exact H.
  Qed.
End OverlapProofs.
