(* C11 -- merging droplets conserves volume and centre of mass.
   Theorems about the definitions GENERATED from droplets.py (Gen_merge): merge_radius_d,
   merge_pos_d, merge_width, the statement-level store model merge_exec_d /
   merge_exec_diffuse_d (write order of the source) and the dispatch of DropletBase.merge. *)
From Coq Require Import Reals Lra List Permutation Arith.
Import ListNotations.
From PD Require Import Model.Num Gen.Gen_spherical Gen.Gen_merge Proofs.MergeSphere Proofs.Merge.
Local Open Scope R_scope.

(* ---- the generated rule is "add volumes, weight positions by volume" ---- *)
Lemma mrad_def_1 r1 r2 : merge_radius_1 r1 r2 = rfv_nd_1 (vfr_nd_1 r1 + vfr_nd_1 r2).
Proof. unfold merge_radius_1. cbv zeta. f_equal; ring. Qed.
Lemma mrad_def_2 r1 r2 : merge_radius_2 r1 r2 = rfv_nd_2 (vfr_nd_2 r1 + vfr_nd_2 r2).
Proof. unfold merge_radius_2. cbv zeta. f_equal; ring. Qed.
Lemma mrad_def_3 r1 r2 : merge_radius_3 r1 r2 = rfv_nd_3 (vfr_nd_3 r1 + vfr_nd_3 r2).
Proof. unfold merge_radius_3. cbv zeta. f_equal; ring. Qed.

Lemma mpos_def_1 r1 r2 p1 p2 : 0 < vfr_nd_1 r1 + vfr_nd_1 r2 ->
  merge_pos_1 r1 r2 p1 p2 = (vfr_nd_1 r1 * p1 + vfr_nd_1 r2 * p2) / (vfr_nd_1 r1 + vfr_nd_1 r2).
Proof. intros H. unfold merge_pos_1. cbv zeta. field. lra. Qed.
Lemma mpos_def_2 r1 r2 p1 p2 : 0 < vfr_nd_2 r1 + vfr_nd_2 r2 ->
  merge_pos_2 r1 r2 p1 p2 = (vfr_nd_2 r1 * p1 + vfr_nd_2 r2 * p2) / (vfr_nd_2 r1 + vfr_nd_2 r2).
Proof. intros H. unfold merge_pos_2. cbv zeta. field. lra. Qed.
Lemma mpos_def_3 r1 r2 p1 p2 : 0 < vfr_nd_3 r1 + vfr_nd_3 r2 ->
  merge_pos_3 r1 r2 p1 p2 = (vfr_nd_3 r1 * p1 + vfr_nd_3 r2 * p2) / (vfr_nd_3 r1 + vfr_nd_3 r2).
Proof. intros H. unfold merge_pos_3. cbv zeta. field. lra. Qed.

(* ---- merge_volume ---- *)
Definition merge_volume_stmt (vol : R -> R) (mrad : R -> R -> R) : Prop :=
  forall r1 r2, 0 <= r1 -> 0 <= r2 -> 0 < vol r1 + vol r2 ->
    0 <= mrad r1 r2 /\ vol (mrad r1 r2) = vol r1 + vol r2.

Lemma merge_volume :
  merge_volume_stmt vfr_nd_1 merge_radius_1 /\ merge_volume_stmt vfr_nd_2 merge_radius_2 /\
  merge_volume_stmt vfr_nd_3 merge_radius_3.
Proof.
  split; [|split]; intros r1 r2 H1 H2 _; split.
  - exact (g_merge_radius_nonneg _ _ vfr_nd_1_nonneg rfv_nd_1_nonneg _ mrad_def_1 r1 r2 H1 H2).
  - exact (g_merge_volume _ _ vfr_nd_1_nonneg vr_nd_1 _ mrad_def_1 r1 r2 H1 H2).
  - exact (g_merge_radius_nonneg _ _ vfr_nd_2_nonneg rfv_nd_2_nonneg _ mrad_def_2 r1 r2 H1 H2).
  - exact (g_merge_volume _ _ vfr_nd_2_nonneg vr_nd_2 _ mrad_def_2 r1 r2 H1 H2).
  - exact (g_merge_radius_nonneg _ _ vfr_nd_3_nonneg rfv_nd_3_nonneg _ mrad_def_3 r1 r2 H1 H2).
  - exact (g_merge_volume _ _ vfr_nd_3_nonneg vr_nd_3 _ mrad_def_3 r1 r2 H1 H2).
Qed.

(* ---- merge_position ---- *)
Definition merge_position_stmt (vol : R -> R) (mrad : R -> R -> R) (mpos : R -> R -> R -> R -> R) : Prop :=
  forall r1 r2 p1 p2, 0 <= r1 -> 0 <= r2 -> 0 < vol r1 + vol r2 ->
    vol (mrad r1 r2) * mpos r1 r2 p1 p2 = vol r1 * p1 + vol r2 * p2 /\
    (exists w1 w2, 0 <= w1 /\ 0 <= w2 /\ w1 + w2 = 1 /\
       w1 = vol r1 / (vol r1 + vol r2) /\ w2 = vol r2 / (vol r1 + vol r2) /\
       mpos r1 r2 p1 p2 = w1 * p1 + w2 * p2) /\
    Rmin p1 p2 <= mpos r1 r2 p1 p2 <= Rmax p1 p2.

Lemma merge_position :
  merge_position_stmt vfr_nd_1 merge_radius_1 merge_pos_1 /\
  merge_position_stmt vfr_nd_2 merge_radius_2 merge_pos_2 /\
  merge_position_stmt vfr_nd_3 merge_radius_3 merge_pos_3.
Proof.
  split; [|split]; intros r1 r2 p1 p2.
  - exact (g_merge_position _ _ vfr_nd_1_nonneg vr_nd_1 _ _ mrad_def_1 mpos_def_1 r1 r2 p1 p2).
  - exact (g_merge_position _ _ vfr_nd_2_nonneg vr_nd_2 _ _ mrad_def_2 mpos_def_2 r1 r2 p1 p2).
  - exact (g_merge_position _ _ vfr_nd_3_nonneg vr_nd_3 _ _ mrad_def_3 mpos_def_3 r1 r2 p1 p2).
Qed.

(* ---- merge_width ---- *)
Lemma merge_width_mean w1 w2 :
  merge_width w1 w2 = (w1 + w2) / 2 /\ Rmin w1 w2 <= merge_width w1 w2 <= Rmax w1 w2 /\
  merge_width w1 w2 = merge_width w2 w1.
Proof.
  unfold merge_width. split; [field|]. split; [|field].
  unfold Rmin, Rmax. destruct (Rle_dec w1 w2); split; lra.
Qed.

(* ---- merge_comm ---- *)
Definition merge_comm_stmt (vol : R -> R) (mrad : R -> R -> R) (mpos : R -> R -> R -> R -> R) : Prop :=
  forall r1 r2 p1 p2, 0 < vol r1 + vol r2 ->
    mrad r1 r2 = mrad r2 r1 /\ mpos r1 r2 p1 p2 = mpos r2 r1 p2 p1.

Lemma merge_comm :
  merge_comm_stmt vfr_nd_1 merge_radius_1 merge_pos_1 /\
  merge_comm_stmt vfr_nd_2 merge_radius_2 merge_pos_2 /\
  merge_comm_stmt vfr_nd_3 merge_radius_3 merge_pos_3.
Proof.
  split; [|split]; intros r1 r2 p1 p2.
  - exact (g_merge_comm _ _ _ _ mrad_def_1 mpos_def_1 r1 r2 p1 p2).
  - exact (g_merge_comm _ _ _ _ mrad_def_2 mpos_def_2 r1 r2 p1 p2).
  - exact (g_merge_comm _ _ _ _ mrad_def_3 mpos_def_3 r1 r2 p1 p2).
Qed.

(* ---- merge_tree: any grouping of any number of droplets ---- *)
Definition merge_tree_stmt (vol rad : R -> R) (mrad : R -> R -> R) (mpos : R -> R -> R -> R -> R) : Prop :=
  (forall t, tree_ok vol t ->
     0 <= fst (eval mrad mpos t) /\
     vol (fst (eval mrad mpos t)) = sumV vol (leaves t) /\
     vol (fst (eval mrad mpos t)) * snd (eval mrad mpos t) = sumM vol (leaves t)) /\
  (forall t1 t2, tree_ok vol t1 -> tree_ok vol t2 -> Permutation (leaves t1) (leaves t2) ->
     0 < sumV vol (leaves t1) -> eval mrad mpos t1 = eval mrad mpos t2) /\
  (forall t, tree_ok vol t -> 0 < sumV vol (leaves t) ->
     eval mrad mpos t = (rad (sumV vol (leaves t)), sumM vol (leaves t) / sumV vol (leaves t))) /\
  (* sequential (left-to-right) merging of a list is one of the trees *)
  (forall x l, eval mrad mpos (comb (Leaf (fst x) (snd x)) l) = fold_left (merge_step mrad mpos) l x) /\
  (* strictly positive volumes make every tree admissible *)
  (forall t, Forall (fun x => 0 <= fst x /\ 0 < vol (fst x)) (leaves t) -> tree_ok vol t).

Lemma merge_tree_1 : merge_tree_stmt vfr_nd_1 rfv_nd_1 merge_radius_1 merge_pos_1.
Proof.
  repeat split.
  - apply (g_merge_tree _ _ vfr_nd_1_nonneg rfv_nd_1_nonneg vr_nd_1 _ _ mrad_def_1 mpos_def_1 t H).
  - apply (g_merge_tree _ _ vfr_nd_1_nonneg rfv_nd_1_nonneg vr_nd_1 _ _ mrad_def_1 mpos_def_1 t H).
  - apply (g_merge_tree _ _ vfr_nd_1_nonneg rfv_nd_1_nonneg vr_nd_1 _ _ mrad_def_1 mpos_def_1 t H).
  - intros t1 t2. apply (g_merge_tree_grouping _ _ vfr_nd_1_nonneg rfv_nd_1_nonneg vr_nd_1 rv_nd_1 _ _ mrad_def_1 mpos_def_1).
  - intros t. apply (g_merge_tree_value _ _ vfr_nd_1_nonneg rfv_nd_1_nonneg vr_nd_1 rv_nd_1 _ _ mrad_def_1 mpos_def_1).
  - intros [r p] l. rewrite eval_comb. reflexivity.
  - intros t. apply tree_ok_of_pos.
Qed.

Lemma merge_tree_2 : merge_tree_stmt vfr_nd_2 rfv_nd_2 merge_radius_2 merge_pos_2.
Proof.
  repeat split.
  - apply (g_merge_tree _ _ vfr_nd_2_nonneg rfv_nd_2_nonneg vr_nd_2 _ _ mrad_def_2 mpos_def_2 t H).
  - apply (g_merge_tree _ _ vfr_nd_2_nonneg rfv_nd_2_nonneg vr_nd_2 _ _ mrad_def_2 mpos_def_2 t H).
  - apply (g_merge_tree _ _ vfr_nd_2_nonneg rfv_nd_2_nonneg vr_nd_2 _ _ mrad_def_2 mpos_def_2 t H).
  - intros t1 t2. apply (g_merge_tree_grouping _ _ vfr_nd_2_nonneg rfv_nd_2_nonneg vr_nd_2 rv_nd_2 _ _ mrad_def_2 mpos_def_2).
  - intros t. apply (g_merge_tree_value _ _ vfr_nd_2_nonneg rfv_nd_2_nonneg vr_nd_2 rv_nd_2 _ _ mrad_def_2 mpos_def_2).
  - intros [r p] l. rewrite eval_comb. reflexivity.
  - intros t. apply tree_ok_of_pos.
Qed.

Lemma merge_tree_3 : merge_tree_stmt vfr_nd_3 rfv_nd_3 merge_radius_3 merge_pos_3.
Proof.
  repeat split.
  - apply (g_merge_tree _ _ vfr_nd_3_nonneg rfv_nd_3_nonneg vr_nd_3 _ _ mrad_def_3 mpos_def_3 t H).
  - apply (g_merge_tree _ _ vfr_nd_3_nonneg rfv_nd_3_nonneg vr_nd_3 _ _ mrad_def_3 mpos_def_3 t H).
  - apply (g_merge_tree _ _ vfr_nd_3_nonneg rfv_nd_3_nonneg vr_nd_3 _ _ mrad_def_3 mpos_def_3 t H).
  - intros t1 t2. apply (g_merge_tree_grouping _ _ vfr_nd_3_nonneg rfv_nd_3_nonneg vr_nd_3 rv_nd_3 _ _ mrad_def_3 mpos_def_3).
  - intros t. apply (g_merge_tree_value _ _ vfr_nd_3_nonneg rfv_nd_3_nonneg vr_nd_3 rv_nd_3 _ _ mrad_def_3 mpos_def_3).
  - intros [r p] l. rewrite eval_comb. reflexivity.
  - intros t. apply tree_ok_of_pos.
Qed.

(* ---- merge_inplace_eq: the statement sequence of the source executed on a store ---- *)
(* For EVERY aliasing pattern `loc` (out may be drop1's cell, drop2's cell, both, or a fresh cell)
   the record at out's cell after the statements is the pure merge of the records that were at
   drop1's and drop2's cells BEFORE the call, and no other cell changes.  This is where the write
   order matters: out.radius is written first; V1, V2 were computed before; drop1.position is read
   after the radius write, but the position of out's cell has not been overwritten yet. *)
Definition exec_spec (ex : (ref -> nat) -> heap -> heap) (mrad : R -> R -> R)
  (mpos : R -> R -> R -> R -> R) (mw : option (R -> R -> R)) : Prop :=
  forall (loc : ref -> nat) (h : heap),
    let a := h (loc Rdrop1) in let b := h (loc Rdrop2) in let o := ex loc h (loc Rout) in
    d_radius o = mrad (d_radius a) (d_radius b) /\
    (forall i, d_pos o i = mpos (d_radius a) (d_radius b) (d_pos a i) (d_pos b i)) /\
    d_width o = match mw with
                | Some f => f (d_width a) (d_width b)
                | None => d_width (h (loc Rout))
                end /\
    (forall c, c <> loc Rout -> ex loc h c = h c).

Ltac exec_tac :=
  intros loc h; cbv beta zeta;
  unfold set_radius, set_pos, set_width, upd; cbn [d_radius d_pos d_width];
  rewrite ?Nat.eqb_refl; cbn [d_radius d_pos d_width];
  destruct (Nat.eqb (loc Rdrop1) (loc Rout)) eqn:E1;
  destruct (Nat.eqb (loc Rdrop2) (loc Rout)) eqn:E2;
  try (apply Nat.eqb_eq in E1; rewrite ?E1); try (apply Nat.eqb_eq in E2; rewrite ?E2);
  rewrite ?Nat.eqb_refl; cbn [d_radius d_pos d_width];
  (split; [reflexivity|]); (split; [intros i; reflexivity|]); (split; [reflexivity|]);
  intros c Hc; apply Nat.eqb_neq in Hc; rewrite ?Hc; reflexivity.

Lemma exec_spec_1 : exec_spec merge_exec_1 merge_radius_1 merge_pos_1 None.
Proof. unfold exec_spec, merge_exec_1, merge_radius_1, merge_pos_1. exec_tac. Qed.
Lemma exec_spec_2 : exec_spec merge_exec_2 merge_radius_2 merge_pos_2 None.
Proof. unfold exec_spec, merge_exec_2, merge_radius_2, merge_pos_2. exec_tac. Qed.
Lemma exec_spec_3 : exec_spec merge_exec_3 merge_radius_3 merge_pos_3 None.
Proof. unfold exec_spec, merge_exec_3, merge_radius_3, merge_pos_3. exec_tac. Qed.

Lemma exec_spec_diffuse_of ex exd mrad mpos :
  exec_spec ex mrad mpos None ->
  (forall loc h, exd loc h = set_width (ex loc h) (loc Rout)
      (merge_width (d_width (ex loc h (loc Rdrop1))) (d_width (ex loc h (loc Rdrop2))))) ->
  exec_spec exd mrad mpos (Some merge_width).
Proof.
  intros Hs Hd loc h. cbv zeta. destruct (Hs loc h) as [Hr [Hp [Hw Hc]]].
  rewrite Hd. unfold set_width, upd. rewrite Nat.eqb_refl. cbn [d_radius d_pos d_width].
  split; [exact Hr|]. split; [exact Hp|]. split.
  - (* widths of drop1, drop2 as read after the parent's writes: unchanged by the parent *)
    f_equal.
    + destruct (Nat.eq_dec (loc Rdrop1) (loc Rout)) as [E|E].
      * rewrite E. exact Hw.
      * rewrite (Hc _ E). reflexivity.
    + destruct (Nat.eq_dec (loc Rdrop2) (loc Rout)) as [E|E].
      * rewrite E. exact Hw.
      * rewrite (Hc _ E). reflexivity.
  - intros c Hne. apply Nat.eqb_neq in Hne. rewrite Hne. apply Hc. apply Nat.eqb_neq. exact Hne.
Qed.

Lemma exec_spec_diffuse_1 : exec_spec merge_exec_diffuse_1 merge_radius_1 merge_pos_1 (Some merge_width).
Proof.
  apply (exec_spec_diffuse_of merge_exec_1); [exact exec_spec_1|].
  intros loc h. unfold merge_exec_diffuse_1, merge_width. cbv zeta. reflexivity.
Qed.
Lemma exec_spec_diffuse_2 : exec_spec merge_exec_diffuse_2 merge_radius_2 merge_pos_2 (Some merge_width).
Proof.
  apply (exec_spec_diffuse_of merge_exec_2); [exact exec_spec_2|].
  intros loc h. unfold merge_exec_diffuse_2, merge_width. cbv zeta. reflexivity.
Qed.
Lemma exec_spec_diffuse_3 : exec_spec merge_exec_diffuse_3 merge_radius_3 merge_pos_3 (Some merge_width).
Proof.
  apply (exec_spec_diffuse_of merge_exec_3); [exact exec_spec_3|].
  intros loc h. unfold merge_exec_diffuse_3, merge_width. cbv zeta. reflexivity.
Qed.

(* DropletBase.merge (generated dispatch): cells self = 0, other = 1, fresh record = 2.
   The droplet returned by the in-place call equals the droplet returned by the copying call;
   the copying call leaves both operands alone, the in-place call leaves `other` alone. *)
Definition same_drop (with_width : bool) (x y : drop) : Prop :=
  d_radius x = d_radius y /\ (forall i, d_pos x i = d_pos y i) /\
  (with_width = true -> d_width x = d_width y).

Definition dispatch_stmt (ex : (ref -> nat) -> heap -> heap) (with_width : bool) : Prop :=
  forall h : heap,
    let hi := ex (fst merge_call_inplace) h in
    let hc := ex (fst merge_call_copy) h in
    same_drop with_width (hi (snd merge_call_inplace)) (hc (snd merge_call_copy)) /\
    hc 0%nat = h 0%nat /\ hc 1%nat = h 1%nat /\ hi 1%nat = h 1%nat.

Lemma dispatch_of ex mrad mpos mw with_width :
  exec_spec ex mrad mpos mw -> (with_width = true -> mw <> None) -> dispatch_stmt ex with_width.
Proof.
  intros Hs Hw h. cbv zeta.
  destruct (Hs (fst merge_call_inplace) h) as [Ri [Pi [Wi Ci]]].
  destruct (Hs (fst merge_call_copy) h) as [Rc [Pc [Wc Cc]]].
  unfold merge_call_inplace, merge_call_copy in *. cbn [fst snd] in *.
  split; [|split; [|split]].
  - split; [rewrite Ri, Rc; reflexivity|]. split; [intros i; rewrite Pi, Pc; reflexivity|].
    intros Hb. destruct mw as [f|]; [rewrite Wi, Wc; reflexivity|]. exfalso. apply (Hw Hb). reflexivity.
  - apply Cc. discriminate.
  - apply Cc. discriminate.
  - apply Ci. discriminate.
Qed.

Lemma merge_inplace_eq :
  (exec_spec merge_exec_1 merge_radius_1 merge_pos_1 None /\
   exec_spec merge_exec_2 merge_radius_2 merge_pos_2 None /\
   exec_spec merge_exec_3 merge_radius_3 merge_pos_3 None) /\
  (exec_spec merge_exec_diffuse_1 merge_radius_1 merge_pos_1 (Some merge_width) /\
   exec_spec merge_exec_diffuse_2 merge_radius_2 merge_pos_2 (Some merge_width) /\
   exec_spec merge_exec_diffuse_3 merge_radius_3 merge_pos_3 (Some merge_width)) /\
  (dispatch_stmt merge_exec_1 false /\ dispatch_stmt merge_exec_2 false /\ dispatch_stmt merge_exec_3 false) /\
  (dispatch_stmt merge_exec_diffuse_1 true /\ dispatch_stmt merge_exec_diffuse_2 true /\
   dispatch_stmt merge_exec_diffuse_3 true).
Proof.
  split; [exact (conj exec_spec_1 (conj exec_spec_2 exec_spec_3))|].
  split; [exact (conj exec_spec_diffuse_1 (conj exec_spec_diffuse_2 exec_spec_diffuse_3))|].
  split; (split; [|split]).
  - apply (dispatch_of _ _ _ _ _ exec_spec_1); discriminate.
  - apply (dispatch_of _ _ _ _ _ exec_spec_2); discriminate.
  - apply (dispatch_of _ _ _ _ _ exec_spec_3); discriminate.
  - apply (dispatch_of _ _ _ _ _ exec_spec_diffuse_1); discriminate.
  - apply (dispatch_of _ _ _ _ _ exec_spec_diffuse_2); discriminate.
  - apply (dispatch_of _ _ _ _ _ exec_spec_diffuse_3); discriminate.
Qed.
