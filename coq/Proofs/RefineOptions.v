(* refine_droplet: the options handed to the optimiser (Model/Refine.v: lsq_options, caller_params_after, over the
   GENERATED tolerance_keys / params_copied of Gen_refine).
   - the caller's dict is not modified (defect F31, repaired: refine_droplet works on a copy);
   - `tolerance` sets ftol, xtol, gtol unless least_squares_params specifies them; every entry of the caller's dict is
     passed on unchanged and nothing else is added. *)
From Coq Require Import String QArith List Bool Arith Lia.
Import ListNotations.
From PD Require Import Model.Grid Gen.Gen_refine Model.Refine.
Local Open Scope Q_scope.

Lemma opt_lookup_app k (a b : options) :
  opt_lookup k (a ++ b) = match opt_lookup k a with Some v => Some v | None => opt_lookup k b end.
Proof.
  induction a as [|[k' v] a IH]; simpl; [reflexivity|].
  destruct (String.eqb k k'); [reflexivity|exact IH].
Qed.

Lemma opt_lookup_setdefault k k' v (d : options) :
  opt_lookup k (setdefault k' v d) =
  match opt_lookup k d with
  | Some x => Some x
  | None => if String.eqb k k' then Some v else None
  end.
Proof.
  unfold setdefault. destruct (opt_lookup k' d) as [y|] eqn:Hk'.
  - destruct (opt_lookup k d) as [x|] eqn:Hk; [reflexivity|].
    destruct (String.eqb k k') eqn:E; [|reflexivity].
    apply String.eqb_eq in E. subst k'. congruence.
  - rewrite opt_lookup_app. simpl. destruct (opt_lookup k d); reflexivity.
Qed.

Lemma opt_lookup_fold k v keys : forall d : options,
  opt_lookup k (fold_left (fun d k' => setdefault k' v d) keys d) =
  match opt_lookup k d with
  | Some x => Some x
  | None => if existsb (String.eqb k) keys then Some v else None
  end.
Proof.
  induction keys as [|k' keys IH]; intro d; simpl.
  - destruct (opt_lookup k d); reflexivity.
  - rewrite IH, opt_lookup_setdefault.
    destruct (opt_lookup k d) as [x|]; [reflexivity|].
    destruct (String.eqb k k'); simpl; reflexivity.
Qed.

(* what the optimiser receives under key k *)
Theorem lsq_options_lookup tolerance params k :
  opt_lookup k (lsq_options tolerance params) =
  match opt_lookup k (match params with None => [] | Some p => p end) with
  | Some x => Some x
  | None => match tolerance with
            | Some t => if existsb (String.eqb k) ["ftol"; "xtol"; "gtol"]%string then Some (OQ t) else None
            | None => None
            end
  end.
Proof.
  unfold lsq_options, with_tolerance. destruct tolerance as [t|].
  - rewrite opt_lookup_fold. reflexivity.
  - destruct (opt_lookup k _); reflexivity.
Qed.

(* the caller's dict is the same value afterwards, whatever tolerance says *)
Theorem caller_params_unchanged tolerance params : caller_params_after tolerance params = params.
Proof. destruct params as [p|]; reflexivity. Qed.

(* the caller's candidate object holds the same data afterwards, whatever the fit returns (repaired defect: a
   DiffuseDroplet candidate used to be fitted in place) ... *)
Theorem caller_candidate_unchanged c result : caller_candidate_after c result = c.
Proof. unfold caller_candidate_after, candidate_copied. simpl. rewrite andb_false_r. reflexivity. Qed.

(* ... and the returned droplet is never the candidate object itself *)
Theorem result_is_new_object c : result_is_candidate c = false.
Proof. unfold result_is_candidate, candidate_copied. simpl. apply andb_false_r. Qed.

Theorem candidate_object_unchanged lsq hyp dev g st vmin_o vmax_o adjust c :
  caller_candidate_after c (refine lsq hyp dev g st vmin_o vmax_o adjust c) = c /\ result_is_candidate c = false.
Proof. split; [apply caller_candidate_unchanged | apply result_is_new_object]. Qed.

(* the keys of the dict stay distinct (a Python dict) *)
Definition keys_distinct (d : options) : Prop := NoDup (map fst d).

Lemma opt_lookup_none_notin k (d : options) : opt_lookup k d = None -> ~ In k (map fst d).
Proof.
  induction d as [|[k' v] d IH]; simpl; [tauto|].
  destruct (String.eqb k k') eqn:E; [discriminate|].
  intros H [H1|H1]; [subst k'; rewrite String.eqb_refl in E; discriminate|exact (IH H H1)].
Qed.

Lemma NoDup_snoc {A : Type} (l : list A) a : NoDup l -> ~ In a l -> NoDup (l ++ [a]).
Proof.
  induction l as [|b l IH]; simpl; intros H Hn.
  - constructor; [tauto|constructor].
  - inversion H as [|? ? Hb Hl]; subst. constructor.
    + rewrite in_app_iff. simpl. intros [H1|[H1|[]]]; [tauto|]. subst. tauto.
    + apply IH; [exact Hl|tauto].
Qed.

Lemma setdefault_distinct k v d : keys_distinct d -> keys_distinct (setdefault k v d).
Proof.
  unfold setdefault, keys_distinct. intro H. destruct (opt_lookup k d) eqn:E; [exact H|].
  rewrite map_app. simpl. apply NoDup_snoc; [exact H|]. apply opt_lookup_none_notin. exact E.
Qed.

Lemma lsq_options_distinct tolerance params :
  match params with None => True | Some p => keys_distinct p end -> keys_distinct (lsq_options tolerance params).
Proof.
  unfold lsq_options, with_tolerance. intro H.
  assert (H0 : keys_distinct (match params with None => [] | Some p => p end)).
  { destruct params; [exact H|constructor]. }
  destruct tolerance as [t|]; [|exact H0].
  revert H0. generalize (match params with None => [] | Some p => p end). generalize tolerance_keys.
  induction l as [|k l IH]; intros d Hd; simpl; [exact Hd|]. apply IH. apply setdefault_distinct. exact Hd.
Qed.

(* non-vacuity material: tolerance fills xtol and gtol, the caller's ftol and method survive *)
Example ex_options :
  lsq_options (Some (1 # 1000)) (Some [("ftol"%string, OQ (1 # 10)); ("method"%string, OS "trf"%string)])
  = [("ftol"%string, OQ (1 # 10)); ("method"%string, OS "trf"%string); ("xtol"%string, OQ (1 # 1000)); ("gtol"%string, OQ (1 # 1000))]
  /\ lsq_options None None = []
  /\ lsq_options (Some 1) None = [("ftol"%string, OQ 1); ("xtol"%string, OQ 1); ("gtol"%string, OQ 1)].
Proof. repeat split. Qed.
