(* Heap -- basic lemmas about the heap model, well-formedness (no dangling references) and the
   alignment of times/members, both as invariants of EVERY operation. *)
From Coq Require Import List Arith Bool QArith Lia Permutation.
Import ListNotations.
From PD Require Import Model.Heap.
Local Open Scope nat_scope.

(* ------------------------------------------------------------------------------------ *)
(* lists                                                                                  *)
(* ------------------------------------------------------------------------------------ *)

Lemma length_upd {A} (l : list A) n x : length (upd l n x) = length l.
Proof. revert n; induction l as [|a l IH]; intros [|n]; simpl; auto. Qed.

Lemma nth_error_upd_eq {A} (l : list A) n x : n < length l -> nth_error (upd l n x) n = Some x.
Proof. revert n; induction l as [|a l IH]; intros [|n] H; simpl in *; try lia; auto. apply IH; lia. Qed.

Lemma nth_error_upd_neq {A} (l : list A) n m x : n <> m -> nth_error (upd l n x) m = nth_error l m.
Proof.
  revert n m; induction l as [|a l IH]; intros [|n] [|m] H; simpl; auto; try congruence.
Qed.

Lemma upd_out {A} (l : list A) n x : length l <= n -> upd l n x = l.
Proof. revert n; induction l as [|a l IH]; intros [|n] H; simpl in *; auto; try lia. f_equal; apply IH; lia. Qed.

Lemma Forall_upd {A} (P : A -> Prop) l n x : Forall P l -> P x -> Forall P (upd l n x).
Proof.
  revert n; induction l as [|a l IH]; intros [|n] H Hx; simpl; auto; inversion H; subst; constructor; auto.
Qed.

Lemma In_upd {A} (l : list A) n x y : In y (upd l n x) -> y = x \/ In y l.
Proof.
  revert n; induction l as [|a l IH]; intros [|n]; simpl; auto.
  - intros [H|H]; auto.
  - intros [H|H]; auto. apply IH in H. tauto.
Qed.

Lemma nth_error_Some_lt {A} (l : list A) n x : nth_error l n = Some x -> n < length l.
Proof. intros H. apply nth_error_Some. congruence. Qed.

Lemma nth_error_In' {A} (l : list A) n x : nth_error l n = Some x -> In x l.
Proof. apply nth_error_In. Qed.

Lemma Forall_nth_error {A} (P : A -> Prop) l n x : Forall P l -> nth_error l n = Some x -> P x.
Proof. intros H E. rewrite Forall_forall in H. apply H. eapply nth_error_In; eauto. Qed.

Lemma In_firstn {A} n (l : list A) x : In x (firstn n l) -> In x l.
Proof. intros H. rewrite <- (firstn_skipn n l). apply in_or_app; auto. Qed.

Lemma In_skipn {A} n (l : list A) x : In x (skipn n l) -> In x l.
Proof. intros H. rewrite <- (firstn_skipn n l). apply in_or_app; auto. Qed.

Lemma In_slice {A} lo hi (l : list A) x : In x (slice lo hi l) -> In x l.
Proof. unfold slice. intros H. apply In_firstn in H. eapply In_skipn; eauto. Qed.

Lemma Forall_slice {A} (P : A -> Prop) lo hi l : Forall P l -> Forall P (slice lo hi l).
Proof.
  intros H. unfold slice. rewrite Forall_forall in *. intros x Hx.
  apply H. apply In_firstn in Hx. eapply In_skipn; eauto.
Qed.

Lemma Forall_filter_by {A} (P : A -> Prop) bs l : Forall P l -> Forall P (filter_by bs l).
Proof.
  revert l; induction bs as [|b bs IH]; intros [|a l] H; simpl; auto.
  inversion H; subst. destruct b; auto.
Qed.

Lemma In_filter_by {A} bs (l : list A) x : In x (filter_by bs l) -> In x l.
Proof.
  revert l; induction bs as [|b bs IH]; intros [|a l]; simpl; try tauto.
  destruct b; simpl; intros H; auto. destruct H; auto.
Qed.

Lemma length_filter_by_le {A} bs (l : list A) : length (filter_by bs l) <= length l.
Proof.
  revert l; induction bs as [|b bs IH]; intros [|a l]; simpl; auto; try lia.
  destruct b; simpl; specialize (IH l); lia.
Qed.

Lemma filter_by_map {A B} (f : A -> B) bs l : map f (filter_by bs l) = filter_by bs (map f l).
Proof.
  revert l; induction bs as [|b bs IH]; intros [|a l]; simpl; auto.
  destruct b; simpl; rewrite IH; auto.
Qed.

Lemma filter_by_filter {A} (p : A -> bool) l : filter_by (map p l) l = filter p l.
Proof. induction l as [|a l IH]; simpl; auto. destruct (p a); rewrite IH; auto. Qed.

Lemma length_slice_eq {A B} lo hi (l : list A) (m : list B) :
  length l = length m -> length (slice lo hi l) = length (slice lo hi m).
Proof. intros H. unfold slice. rewrite !firstn_length, !skipn_length. lia. Qed.

Lemma slice_map {A B} (f : A -> B) lo hi l : map f (slice lo hi l) = slice lo hi (map f l).
Proof. unfold slice. now rewrite <- firstn_map, <- skipn_map. Qed.

(* mapM *)
Lemma mapM_length {A B} (f : A -> option B) l r : mapM f l = Some r -> length r = length l.
Proof.
  revert r; induction l as [|a l IH]; simpl; intros r H.
  - inversion H; auto.
  - destruct (f a); [|discriminate]. destruct (mapM f l); [|discriminate].
    inversion H; subst. simpl. f_equal. auto.
Qed.

Lemma mapM_total {A B} (f : A -> option B) l :
  (forall a, In a l -> exists b, f a = Some b) -> exists r, mapM f l = Some r.
Proof.
  induction l as [|a l IH]; simpl; intros H; eauto.
  destruct (H a) as [b Hb]; auto. rewrite Hb.
  destruct IH as [r Hr]; auto. rewrite Hr. eauto.
Qed.

Lemma mapM_ext {A B} (f g : A -> option B) l :
  (forall a, In a l -> f a = g a) -> mapM f l = mapM g l.
Proof.
  induction l as [|a l IH]; simpl; intros H; auto.
  rewrite H by auto. rewrite IH by auto. reflexivity.
Qed.

Lemma mapM_app {A B} (f : A -> option B) l1 l2 r1 r2 :
  mapM f l1 = Some r1 -> mapM f l2 = Some r2 -> mapM f (l1 ++ l2) = Some (r1 ++ r2).
Proof.
  revert r1; induction l1 as [|a l IH]; simpl; intros r1 H1 H2.
  - inversion H1; auto.
  - destruct (f a); [|discriminate]. destruct (mapM f l) eqn:E; [|discriminate].
    inversion H1; subst. rewrite (IH _ eq_refl H2). reflexivity.
Qed.

Lemma mapM_app_inv {A B} (f : A -> option B) l1 l2 r :
  mapM f (l1 ++ l2) = Some r ->
  exists r1 r2, mapM f l1 = Some r1 /\ mapM f l2 = Some r2 /\ r = r1 ++ r2.
Proof.
  revert r; induction l1 as [|a l IH]; simpl; intros r H.
  - exists [], r; auto.
  - destruct (f a); [|discriminate]. destruct (mapM f (l ++ l2)) eqn:E; [|discriminate].
    inversion H; subst. destruct (IH _ eq_refl) as (r1 & r2 & -> & -> & ->).
    exists (b :: r1), r2; auto.
Qed.

Lemma mapM_nth {A B} (f : A -> option B) l r i a :
  mapM f l = Some r -> nth_error l i = Some a -> exists b, f a = Some b /\ nth_error r i = Some b.
Proof.
  revert r i; induction l as [|x l IH]; simpl; intros r i H Hn.
  - destruct i; discriminate.
  - destruct (f x) eqn:Ex; [|discriminate]. destruct (mapM f l) eqn:E; [|discriminate].
    inversion H; subst. destruct i; simpl in *.
    + inversion Hn; subst. eauto.
    + eapply IH; eauto.
Qed.

Lemma mapM_In {A B} (f : A -> option B) l r a :
  mapM f l = Some r -> In a l -> exists b, f a = Some b.
Proof.
  intros H Hin. apply In_nth_error in Hin as [i Hi].
  destruct (mapM_nth _ _ _ _ _ H Hi) as (b & Hb & _). eauto.
Qed.

Lemma mapM_firstn {A B} (f : A -> option B) n l r :
  mapM f l = Some r -> mapM f (firstn n l) = Some (firstn n r).
Proof.
  revert l r; induction n as [|n IH]; intros l r H; simpl; auto.
  destruct l as [|a l]; simpl in *.
  - inversion H; subst. reflexivity.
  - destruct (f a) eqn:Ea; [|discriminate]. destruct (mapM f l) eqn:E; [|discriminate].
    inversion H; subst. simpl. rewrite (IH _ _ E). reflexivity.
Qed.

Lemma mapM_skipn {A B} (f : A -> option B) n l r :
  mapM f l = Some r -> mapM f (skipn n l) = Some (skipn n r).
Proof.
  revert l r; induction n as [|n IH]; intros l r H; simpl; auto.
  destruct l as [|a l]; simpl in *.
  - inversion H; subst. reflexivity.
  - destruct (f a) eqn:Ea; [|discriminate]. destruct (mapM f l) eqn:E; [|discriminate].
    inversion H; subst. simpl. apply IH; auto.
Qed.

Lemma mapM_slice {A B} (f : A -> option B) lo hi l r :
  mapM f l = Some r -> mapM f (slice lo hi l) = Some (slice lo hi r).
Proof. intros H. unfold slice. apply mapM_firstn. apply mapM_skipn. exact H. Qed.

(* sel: selection by an index list (general slices) *)
Lemma In_sel {A} idxs (l : list A) x : In x (sel idxs l) -> In x l.
Proof.
  unfold sel. intros H. apply in_flat_map in H as (i & _ & Hi).
  destruct (nth_error l i) eqn:E; simpl in Hi; [|contradiction].
  destruct Hi as [->|[]]. eapply nth_error_In; eauto.
Qed.

Lemma Forall_sel {A} (P : A -> Prop) idxs l : Forall P l -> Forall P (sel idxs l).
Proof. intros H. rewrite Forall_forall in *. intros x Hx. apply H. eapply In_sel; eauto. Qed.

Lemma sel_cons {A} i idxs (l : list A) :
  sel (i :: idxs) l = (match nth_error l i with Some x => [x] | None => [] end) ++ sel idxs l.
Proof. reflexivity. Qed.

Lemma sel_map {A B} (f : A -> B) idxs l : map f (sel idxs l) = sel idxs (map f l).
Proof.
  induction idxs as [|i idxs IH]; simpl; auto.
  rewrite map_app, IH, nth_error_map. destruct (nth_error l i); reflexivity.
Qed.

Lemma length_sel_eq {A B} idxs (l : list A) (m : list B) :
  length l = length m -> length (sel idxs l) = length (sel idxs m).
Proof.
  intros H. induction idxs as [|i idxs IH]; simpl; auto.
  rewrite !app_length, IH. f_equal.
  destruct (nth_error l i) eqn:E1, (nth_error m i) eqn:E2; auto.
  - apply nth_error_None in E2. assert (i < length l) by (apply nth_error_Some; congruence). lia.
  - apply nth_error_None in E1. assert (i < length m) by (apply nth_error_Some; congruence). lia.
Qed.

Lemma mapM_sel {A B} (f : A -> option B) idxs l r :
  mapM f l = Some r -> mapM f (sel idxs l) = Some (sel idxs r).
Proof.
  intros H. induction idxs as [|i idxs IH]; simpl; auto.
  apply mapM_app; auto.
  destruct (nth_error l i) as [a|] eqn:E.
  - destruct (mapM_nth _ _ _ _ _ H E) as (b & Hb & Hn). rewrite Hn. simpl. rewrite Hb. reflexivity.
  - apply nth_error_None in E. rewrite <- (mapM_length _ _ _ H) in E. apply nth_error_None in E. rewrite E. reflexivity.
Qed.

Lemma mapM_filter_by {A B} (f : A -> option B) bs l r :
  mapM f l = Some r -> mapM f (filter_by bs l) = Some (filter_by bs r).
Proof.
  revert l r; induction bs as [|b bs IH]; intros [|a l] r H; simpl in *; auto.
  - inversion H; auto.
  - destruct (f a) eqn:Ea; [|discriminate]. destruct (mapM f l) eqn:E; [|discriminate].
    inversion H; subst. destruct b; simpl; [rewrite Ea|]; rewrite (IH _ _ E); auto.
Qed.

Lemma mapM_seq_fresh {A} (l : list A) (vs : list A) :
  mapM (nth_error (l ++ vs)) (seq (length l) (length vs)) = Some vs.
Proof.
  revert l; induction vs as [|v vs IH]; intros l; simpl; auto.
  rewrite nth_error_app2 by lia. rewrite Nat.sub_diag. simpl.
  specialize (IH (l ++ [v])). rewrite <- app_assoc in IH. simpl in IH.
  rewrite app_length in IH. simpl in IH. rewrite Nat.add_1_r in IH. rewrite IH. reflexivity.
Qed.

(* ------------------------------------------------------------------------------------ *)
(* well-formedness: every reference is in range                                          *)
(* ------------------------------------------------------------------------------------ *)

Definition locs_ok (h : heap) (ls : list loc) : Prop := Forall (fun l => l < length (objs h)) ls.

Record wf (h : heap) : Prop := mkWf {
  wf_objs : Forall (fun s => s < length (store h)) (objs h);
  wf_hnd : locs_ok h (hnd h);
  wf_ems : Forall (fun e => locs_ok h (e_mem e)) (ems h);
  wf_trs : Forall (fun k => locs_ok h (tr_drops k)) (trs h);
  wf_arrs : Forall (Forall (fun s => s < length (store h))) (arrs h);
  wf_tcs : Forall (fun t => Forall (fun c => c < length (ems h)) (tc_ems t)) (tcs h);
  wf_tls : Forall (Forall (fun k => k < length (trs h))) (tls h);
  wf_tc_tl : Forall (fun t => tc_tl t < length (tlists h)) (tcs h);
  wf_tr_tl : Forall (fun k => tr_tl k < length (tlists h)) (trs h);
  wf_tvars : Forall (fun tl => tl < length (tlists h)) (tvars h)
}.

Lemma wf_emp : wf emp.
Proof. constructor; simpl; constructor. Qed.

Lemma Forall_lt_mono {A} (f : A -> nat) n m l : n <= m -> Forall (fun a => f a < n) l -> Forall (fun a => f a < m) l.
Proof. intros Hle H. eapply Forall_impl; [|exact H]. simpl; intros; lia. Qed.

Lemma Forall2_lt_mono n m (l : list (list nat)) :
  n <= m -> Forall (Forall (fun a => a < n)) l -> Forall (Forall (fun a => a < m)) l.
Proof.
  intros Hle H. eapply Forall_impl; [|exact H]. intros a Ha.
  eapply Forall_impl; [|exact Ha]. simpl; intros; lia.
Qed.

Lemma val_of_ok h l : wf h -> l < length (objs h) -> exists v, val_of h l = Some v.
Proof.
  intros W Hl. unfold val_of, obj_of.
  destruct (nth_error (objs h) l) as [s|] eqn:E.
  - pose proof (Forall_nth_error _ _ _ _ (wf_objs _ W) E) as Hs. simpl in Hs.
    destruct (nth_error (store h) s) eqn:E2; eauto.
    apply nth_error_None in E2. lia.
  - apply nth_error_None in E. lia.
Qed.

Lemma vals_of_ok h ls : wf h -> locs_ok h ls -> exists vs, vals_of h ls = Some vs.
Proof.
  intros W H. apply mapM_total. intros a Ha.
  apply val_of_ok; auto. unfold locs_ok in H. rewrite Forall_forall in H. auto.
Qed.

Lemma obj_of_ok h l : l < length (objs h) -> exists s, obj_of h l = Some s.
Proof.
  intros Hl. unfold obj_of. destruct (nth_error (objs h) l) eqn:E; eauto.
  apply nth_error_None in E. lia.
Qed.

Lemma objs_of_ok h ls : locs_ok h ls -> exists ss, mapM (obj_of h) ls = Some ss.
Proof.
  intros H. apply mapM_total. intros a Ha. apply obj_of_ok.
  unfold locs_ok in H. rewrite Forall_forall in H. auto.
Qed.

Lemma wf_em h c e : wf h -> nth_error (ems h) c = Some e -> locs_ok h (e_mem e).
Proof. intros W E. eapply Forall_nth_error in E; [|apply (wf_ems _ W)]. exact E. Qed.

Lemma wf_tr h k t : wf h -> nth_error (trs h) k = Some t -> locs_ok h (tr_drops t).
Proof. intros W E. eapply Forall_nth_error in E; [|apply (wf_trs _ W)]. exact E. Qed.

Lemma wf_hnd_lt h i l : wf h -> nth_error (hnd h) i = Some l -> l < length (objs h).
Proof. intros W E. eapply Forall_nth_error in E; [|apply (wf_hnd _ W)]. exact E. Qed.

Lemma wf_mem_lt h c e i l :
  wf h -> nth_error (ems h) c = Some e -> nth_error (e_mem e) i = Some l -> l < length (objs h).
Proof. intros W E1 E2. eapply Forall_nth_error in E2; [|eapply wf_em; eauto]. exact E2. Qed.

(* -- primitives preserve wf -- *)

Lemma locs_ok_new h vs n : n <= length vs -> locs_ok (alloc h vs) (new_locs h n).
Proof.
  intros Hn. unfold locs_ok, new_locs, alloc. simpl. rewrite app_length, seq_length.
  apply Forall_forall. intros x Hx. apply in_seq in Hx. lia.
Qed.

Lemma locs_ok_alloc h vs ls : locs_ok h ls -> locs_ok (alloc h vs) ls.
Proof.
  unfold locs_ok, alloc. simpl. rewrite app_length. apply Forall_lt_mono with (f := fun x => x). lia.
Qed.

Lemma wf_alloc h vs : wf h -> wf (alloc h vs).
Proof.
  intros [W1 W2 W3 W4 W5 W6 W7 W8 W9 W10]. constructor; simpl.
  - rewrite app_length. apply Forall_app. split.
    + eapply Forall_lt_mono with (f := fun x => x); [|exact W1]. lia.
    + apply Forall_forall. intros x Hx. apply in_seq in Hx. lia.
  - apply locs_ok_alloc; auto.
  - eapply Forall_impl; [|exact W3]. intros e He. apply locs_ok_alloc; auto.
  - eapply Forall_impl; [|exact W4]. intros e He. apply locs_ok_alloc; auto.
  - rewrite app_length. eapply Forall2_lt_mono; [|exact W5]. lia.
  - exact W6.
  - exact W7.
  - exact W8.
  - exact W9.
  - exact W10.
Qed.

Lemma wf_set_store h s v : wf h -> wf (set_store h s v).
Proof.
  intros [W1 W2 W3 W4 W5 W6 W7 W8 W9 W10]. constructor; simpl; auto; rewrite length_upd; auto.
Qed.

Lemma wf_with_hnd h ls : wf h -> locs_ok h ls -> wf (with_hnd h ls).
Proof. intros [W1 W2 W3 W4 W5 W6 W7 W8 W9 W10] H. constructor; simpl; auto. Qed.

Lemma wf_push_hnd h l : wf h -> l < length (objs h) -> wf (push_hnd h l).
Proof.
  intros W H. apply wf_with_hnd; auto. apply Forall_app. split; [apply (wf_hnd _ W)|]. constructor; auto.
Qed.

Lemma wf_set_em h c e : wf h -> locs_ok h (e_mem e) -> wf (set_em h c e).
Proof.
  intros [W1 W2 W3 W4 W5 W6 W7 W8 W9 W10] H. constructor; simpl; auto.
  - apply Forall_upd; auto.
  - rewrite length_upd; auto.
Qed.

Lemma wf_push_em h e : wf h -> locs_ok h (e_mem e) -> wf (push_em h e).
Proof.
  intros [W1 W2 W3 W4 W5 W6 W7 W8 W9 W10] H. constructor; simpl; auto.
  - apply Forall_app; split; auto.
  - rewrite app_length. eapply Forall_impl; [|exact W6]. intros t Ht.
    eapply Forall_impl; [|exact Ht]. simpl; intros; lia.
Qed.

Lemma wf_set_tc h t x :
  wf h -> Forall (fun c => c < length (ems h)) (tc_ems x) -> tc_tl x < length (tlists h) -> wf (set_tc h t x).
Proof. intros [W1 W2 W3 W4 W5 W6 W7 W8 W9 W10] H Hl. constructor; simpl; auto; apply Forall_upd; auto. Qed.

Lemma wf_push_tc h x :
  wf h -> Forall (fun c => c < length (ems h)) (tc_ems x) -> tc_tl x < length (tlists h) -> wf (push_tc h x).
Proof. intros [W1 W2 W3 W4 W5 W6 W7 W8 W9 W10] H Hl. constructor; simpl; auto; apply Forall_app; split; auto. Qed.

Lemma wf_alloc_tl h ts : wf h -> wf (alloc_tl h ts).
Proof.
  intros [W1 W2 W3 W4 W5 W6 W7 W8 W9 W10]. constructor; simpl; auto; rewrite app_length.
  - eapply Forall_lt_mono with (f := tc_tl); [|exact W8]. lia.
  - eapply Forall_lt_mono with (f := tr_tl); [|exact W9]. lia.
  - eapply Forall_lt_mono with (f := fun x => x); [|exact W10]. lia.
Qed.

Lemma wf_set_tl h tl ts : wf h -> wf (set_tl h tl ts).
Proof. intros [W1 W2 W3 W4 W5 W6 W7 W8 W9 W10]. constructor; simpl; auto; rewrite length_upd; auto. Qed.

Lemma wf_with_tvars h x : wf h -> Forall (fun tl => tl < length (tlists h)) x -> wf (with_tvars h x).
Proof. intros [W1 W2 W3 W4 W5 W6 W7 W8 W9 W10] H. constructor; simpl; auto. Qed.

Lemma tlists_alloc_tl h ts : length (tlists h) < length (tlists (alloc_tl h ts)).
Proof. simpl. rewrite app_length. simpl. lia. Qed.

Lemma wf_set_tr h k x : wf h -> locs_ok h (tr_drops x) -> tr_tl x < length (tlists h) -> wf (set_tr h k x).
Proof.
  intros [W1 W2 W3 W4 W5 W6 W7 W8 W9 W10] H Hl. constructor; simpl; auto.
  - apply Forall_upd; auto.
  - rewrite length_upd; auto.
  - apply Forall_upd; auto.
Qed.

Lemma wf_push_tr h x : wf h -> locs_ok h (tr_drops x) -> tr_tl x < length (tlists h) -> wf (push_tr h x).
Proof.
  intros [W1 W2 W3 W4 W5 W6 W7 W8 W9 W10] H Hl. constructor; simpl; auto.
  - apply Forall_app; split; auto.
  - rewrite app_length. eapply Forall2_lt_mono; [|exact W7]. lia.
  - apply Forall_app; split; auto.
Qed.

Lemma wf_push_arr h r : wf h -> Forall (fun s => s < length (store h)) r -> wf (push_arr h r).
Proof. intros [W1 W2 W3 W4 W5 W6 W7 W8 W9 W10] H. constructor; simpl; auto. apply Forall_app; split; auto. Qed.

Lemma wf_with_tls h x : wf h -> Forall (Forall (fun k => k < length (trs h))) x -> wf (with_tls h x).
Proof. intros [W1 W2 W3 W4 W5 W6 W7 W8 W9 W10] H. constructor; simpl; auto. Qed.

Lemma locs_ok_app h a b : locs_ok h a -> locs_ok h b -> locs_ok h (a ++ b).
Proof. intros; apply Forall_app; auto. Qed.

Lemma mapM_nth_error_lt {A} (l : list A) is r :
  mapM (nth_error l) is = Some r -> Forall (fun i => i < length l) is.
Proof.
  intros H. apply Forall_forall. intros i Hi.
  destruct (mapM_In _ _ _ _ H Hi) as [b Hb]. eapply nth_error_Some_lt; eauto.
Qed.

Lemma mapM_nth_error_P {A} (P : A -> Prop) (l : list A) is r :
  Forall P l -> mapM (nth_error l) is = Some r -> Forall P r.
Proof.
  intros HP. revert r; induction is as [|i is IH]; simpl; intros r H.
  - inversion H; constructor.
  - destruct (nth_error l i) eqn:E; [|discriminate]. destruct (mapM (nth_error l) is); [|discriminate].
    inversion H; subst. constructor; auto. eapply Forall_nth_error; eauto.
Qed.

(* simplify heap projections only *)
Ltac hs := cbn [fst snd store objs hnd ems tcs trs arrs tls tlists tvars push_arr push_hnd push_em push_tc push_tr
                set_em set_tc set_tr set_store with_store with_objs with_hnd with_ems with_tcs with_trs
                with_arrs with_tls with_tlists with_tvars alloc alloc_tl set_tl e_mem e_dtype tc_tl tc_ems
                tr_tl tr_drops] in *.

Ltac dm :=
  repeat match goal with
  | |- context [match ?x with _ => _ end] => destruct x eqn:?
  end.

Ltac destruct_op o :=
  destruct o as [v|i|i k q| |c i cp f|c is cp f|c i|c i k q|c q|c lo hi|c1 c2|c q|c removed|c|a i k q
                |c i j ip v|cs times|t c tm cp|t|t lo hi|t|is times|k i tm|k|k lo hi|k i|ks|l q
                |t|cs j|k|is j|ts|j q|j i q
                |is dt cp f|c|c idxs|t idxs|k idxs|t|c cp f].

Lemma copy_ems_tables h es h1 : copy_ems h es = Some h1 ->
  tcs h1 = tcs h /\ trs h1 = trs h /\ hnd h1 = hnd h /\ arrs h1 = arrs h /\ tls h1 = tls h
  /\ tlists h1 = tlists h /\ tvars h1 = tvars h
  /\ length (ems h1) = length (ems h) + length es.
Proof.
  revert h; induction es as [|e es IH]; simpl; intros h H.
  - inversion H; subst. repeat split; auto.
  - destruct (vals_of h (e_mem e)) as [vs|]; [|discriminate].
    apply IH in H. simpl in H. rewrite app_length in H. simpl in H.
    destruct H as (H1 & H2 & H3 & H4 & H5 & H6 & H7 & H8). repeat split; auto. lia.
Qed.
