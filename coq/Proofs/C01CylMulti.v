(* C01 on cylindrical grids: an EMULSION of on-axis sharp spheres, mutually separated along z.
   The covered cells of the sphere (c, rad) are the digital ball of the 2-d non-periodic grid
   cyl_axes g = [radial axis; axial axis] with centre (0, c) (C01Cyl.cyl_cells_ball); balls with
   rad_i + rad_j + dz <= |c_i - c_j| share no cell and no face (BallSep.balls_cells_apart through
   C01Cart.apart_of_axis), each ball is face-connected and contains its hub (0, floor gamma_z) on the axis
   (BallConn.ball_connected_hub), so the labels are the balls (C01CylPer.MultiConn), every label touches the
   axis, none spans the z-range.
     AxisMulti                      : the common part for an arbitrary non-periodic axial axis `za`
                                      (cyl_zax g for the plain image, cyl_zax3 g for the padded image);
     c01_cyl_multi                  : cyl_single g img = Found out, one entry per sphere (entry cidx i for sphere i,
                                      cidx injective), volume / pi == sum of the shells of the covered cells,
                                      |z - c| <= dz / 2;
     c01_cyl_multi_euclid           : the same under (rad_i + rad_j + hmax)^2 <= (c_i - c_j)^2, hmax >= dz;
     c01_cyl_multi_candidates       : the same through the dispatcher cyl_candidates when cg_per g = false;
     c01_cyl_multi_label            : end to end: cyl_mask (Model/RenderSym.v), label (Model/Label.v), locate;
     c01_cyl_multi_periodic         : periodic cylinder: the 3x padded image is the image of the 3 n translates
                                      (c_i + k L, rad_i); cyl_window keeps exactly the middle copies. *)
From Coq Require Import QArith Qabs Qround ZArith List Arith Bool Lia Lqa Setoid Morphisms Permutation.
Import ListNotations.
From PD Require Import Model.Grid Model.Render Model.MergeLoop Model.Locate Model.LocateSym Model.RenderSym
  Model.Totality Model.Ball Model.Label Proofs.Render Proofs.MergeLoop Proofs.Components Proofs.LocateCart
  Proofs.BallRow Proofs.BallCentroid Proofs.BallSep Proofs.BallConn Proofs.C01Cart Proofs.C01Cyl Proofs.C01CylPer
  Proofs.C01Multi Proofs.LabelFlood Proofs.LabelSpec Proofs.LabelClients.
Local Open Scope Q_scope.

Local Notation in_rangeL := LocateCart.in_range.

(* the on-axis sphere with axial centre fst d and radius snd d, as a sphere of the 2-d (r, z) grid *)
Definition axis_sphere (d : Q * Q) : sphere := ([0; fst d], snd d).

(* the rendered emulsion, cell (i, j): Model/RenderSym.cyl_mask *)
Definition cyl_inside_any (g : cylgrid) (ds : list (Q * Q)) (i j : Z) : bool :=
  existsb (fun d => cyl_inside g (fst d) (snd d) i j) ds.

(* ------------------------------------------------------------------------------------------ *)
(* small list facts                                                                             *)
(* ------------------------------------------------------------------------------------------ *)
Lemma filter_all_true {A : Type} (f : A -> bool) : forall l, (forall x, In x l -> f x = true) -> filter f l = l.
Proof.
  induction l as [|x l IH]; intros H; cbn [filter]; [reflexivity|].
  rewrite (H x (or_introl eq_refl)), IH; [reflexivity|]. intros y Hy. apply H. right. exact Hy.
Qed.

Lemma existsb_all_false {A : Type} (f : A -> bool) : forall l, (forall x, In x l -> f x = false) -> existsb f l = false.
Proof.
  induction l as [|x l IH]; intros H; cbn [existsb]; [reflexivity|].
  rewrite (H x (or_introl eq_refl)), IH; [reflexivity|]. intros y Hy. apply H. right. exact Hy.
Qed.

Lemma nth_error_seq0 n k : (k < n)%nat -> nth_error (seq 0 n) k = Some k.
Proof.
  intros Hk. rewrite nth_error_nth' with (d := 0%nat) by (rewrite seq_length; exact Hk).
  rewrite seq_nth by exact Hk. reflexivity.
Qed.

Lemma nth_error_some_lt {A : Type} (l : list A) i x : nth_error l i = Some x -> (i < length l)%nat.
Proof. intros H. apply nth_error_Some. congruence. Qed.

Lemma nth_error_lt_some {A : Type} (l : list A) i : (i < length l)%nat -> exists x, nth_error l i = Some x.
Proof.
  intros Hi. destruct (nth_error l i) as [x|] eqn:E; [exists x; reflexivity|].
  apply nth_error_None in E. lia.
Qed.

Lemma ball_ne_rad_pos G c r : ball_cells G c r <> [] -> 0 < r.
Proof.
  intros Hb. destruct (ball_cells G c r) as [|p ps] eqn:E; [congruence|].
  assert (Hp : In p (ball_cells G c r)) by (rewrite E; left; reflexivity).
  apply ball_cells_spec in Hp. destruct Hp as [_ Hi]. apply inside_iff in Hi. destruct Hi as [Hr Hd].
  destruct (Qlt_le_dec 0 r) as [H|H]; [exact H|exfalso].
  pose proof (sumsq_nonneg (diff_vec G c (cell_centre G p))) as Hs. unfold dist2 in Hd.
  assert (E0 : r == 0) by lra. rewrite E0 in Hd. lra.
Qed.

(* ------------------------------------------------------------------------------------------ *)
(* on-axis spheres on the grid [radial axis; za], za any non-periodic axial axis                *)
(* ------------------------------------------------------------------------------------------ *)
Section AxisMulti.
  Variable g : cylgrid.
  Variable za : axis.
  Variable ss : list (Q * Q).
  Variable img : limage.
  Hypothesis Hok : cyl_ok g.
  Hypothesis Hza : axis_ok za.
  Hypothesis Hzper : aper za = false.
  Hypothesis Hfit : forall d, In d ss -> fits1 za (fst d) (snd d).
  Hypothesis Hne : forall d, In d ss -> ball_cells [cyl_rax g; za] [0; fst d] (snd d) <> [].
  Hypothesis Hsep : forall i j di dj, nth_error ss i = Some di -> nth_error ss j = Some dj -> i <> j ->
    snd di + snd dj + adisc za <= Qabs (fst di - fst dj).
  Hypothesis Hwf : wf_img [cyl_rax g; za] img.
  Hypothesis Hspec : LabelSpecImg img.
  Hypothesis Hmask : mask_is_emulsion [cyl_rax g; za] (map axis_sphere ss) img.

  Local Notation G := [cyl_rax g; za].
  Local Notation SS := (map axis_sphere ss).

  Lemma am_ok : grid_ok G.
  Proof.
    destruct Hok as (H1 & _ & H3 & _). unfold grid_ok.
    constructor; [split; [exact H1|exact H3]|]. constructor; [exact Hza|constructor].
  Qed.

  Lemma am_nonper : nonper G.
  Proof. unfold nonper. constructor; [reflexivity|]. constructor; [exact Hzper|constructor]. Qed.

  Lemma am_rad_pos d : In d ss -> 0 < snd d.
  Proof. intros Hd. exact (ball_ne_rad_pos G [0; fst d] (snd d) (Hne d Hd)). Qed.

  Lemma am_in_SS s : In s SS -> exists d, In d ss /\ s = axis_sphere d.
  Proof. intros Hs. apply in_map_iff in Hs. destruct Hs as (d & <- & Hd). exists d. split; [exact Hd|reflexivity]. Qed.

  Lemma am_nth_SS i s : nth_error SS i = Some s -> exists d, nth_error ss i = Some d /\ s = axis_sphere d.
  Proof.
    rewrite nth_error_map. destruct (nth_error ss i) as [d|]; cbn [option_map]; [|discriminate].
    intros E. injection E as <-. exists d. split; reflexivity.
  Qed.

  Lemma am_SS_nth i d : nth_error ss i = Some d -> nth_error SS i = Some (axis_sphere d).
  Proof. intros Hd. exact (map_nth_error axis_sphere i ss Hd). Qed.

  Lemma am_hub d : In d ss ->
    centre_cell G [0; fst d] = [0%Z; Qfloor (gam za (fst d))] /\
    in_rangeL (gshape G) (centre_cell G [0; fst d]).
  Proof.
    intros Hd.
    assert (E : centre_cell G [0; fst d] = [0%Z; Qfloor (gam za (fst d))]).
    { cbn [centre_cell]. f_equal; try (rewrite (Qfloor_comp _ _ (cs_gam_r g Hok)); reflexivity). }
    split; [exact E|]. rewrite E. change (gshape G) with [cg_nr g; ncell za].
    destruct Hok as (H1 & _). apply in_range_cons; [lia|]. apply in_range_cons; [|constructor].
    exact (hub_axis_in_range za (fst d) (snd d) Hza (Hfit d Hd) (am_rad_pos d Hd)).
  Qed.

  (* every ball contains its hub, a cell on the axis, and is connected through it *)
  Lemma am_ball_hub d : In d ss ->
    (forall p, In p (ball_cells G [0; fst d] (snd d)) ->
       conn0 cell (ball_cells G [0; fst d] (snd d)) face_adj p (centre_cell G [0; fst d])) /\
    In (centre_cell G [0; fst d]) (ball_cells G [0; fst d] (snd d)) /\
    ridx (centre_cell G [0; fst d]) = 0%Z.
  Proof.
    intros Hd. destruct (am_hub d Hd) as [E Hr].
    destruct (ball_connected_hub G [0; fst d] (snd d) am_ok am_nonper eq_refl Hr) as [Hhub Hin].
    split; [exact Hhub|]. split; [exact (Hin (Hne d Hd))|]. rewrite E. reflexivity.
  Qed.

  Lemma am_ne s : In s SS -> ball_cells G (fst s) (snd s) <> [].
  Proof. intros Hs. destruct (am_in_SS s Hs) as (d & Hd & ->). exact (Hne d Hd). Qed.

  Lemma am_conn s : In s SS -> forall p q, in_ball G s p -> in_ball G s q ->
    conn0 cell (ball_cells G (fst s) (snd s)) face_adj p q.
  Proof.
    intros Hs p q Hp Hq. destruct (am_in_SS s Hs) as (d & Hd & ->).
    destruct (am_ball_hub d Hd) as [Hhub _]. unfold in_ball in Hp, Hq. cbn [axis_sphere fst snd] in *.
    unfold conn0 in *. eapply cr_trans; [apply Hhub; exact Hp|]. apply cr_sym. apply Hhub. exact Hq.
  Qed.

  Lemma am_sep : forall i j si sj, nth_error SS i = Some si -> nth_error SS j = Some sj -> i <> j ->
    apart G si sj.
  Proof.
    intros i j si sj Hi Hj Hij.
    destruct (am_nth_SS i si Hi) as (di & Hdi & ->). destruct (am_nth_SS j sj Hj) as (dj & Hdj & ->).
    apply (apart_of_axis G (axis_sphere di) (axis_sphere dj) 1 za (fst di) (fst dj)
             eq_refl Hzper Hza eq_refl eq_refl).
    exact (Hsep i j di dj Hdi Hdj Hij).
  Qed.

  (* ---- labels <-> spheres ---- *)
  Definition albl (i : nat) : nat := lbl G SS img i.

  Theorem am_num_labels : num_labels img = length ss.
  Proof. rewrite (mc_num_labels G SS img am_ne am_sep am_conn Hwf Hspec Hmask). apply map_length. Qed.

  Lemma am_members i d : nth_error ss i = Some d ->
    forall p, In p (members img (albl i)) <-> In p (ball_cells G [0; fst d] (snd d)).
  Proof.
    intros Hd p.
    exact (mc_members G SS img am_ne am_sep am_conn Hwf Hspec Hmask i _ (am_SS_nth i d Hd) p).
  Qed.

  Lemma am_lt i d : nth_error ss i = Some d -> (albl i < length ss)%nat.
  Proof.
    intros Hd. rewrite <- am_num_labels. exact (lbl_lt G SS img am_ne Hwf Hmask i _ (am_SS_nth i d Hd)).
  Qed.

  Lemma am_inj i j di dj : nth_error ss i = Some di -> nth_error ss j = Some dj -> albl i = albl j -> i = j.
  Proof.
    intros Hi Hj E.
    exact (mc_inj G SS img am_ne am_sep am_conn Hwf Hspec Hmask i j _ _ (am_SS_nth i di Hi) (am_SS_nth j dj Hj) E).
  Qed.

  Lemma am_surj k : (k < length ss)%nat -> exists i d, nth_error ss i = Some d /\ albl i = k.
  Proof.
    intros Hk. rewrite <- am_num_labels in Hk.
    destruct (mc_surj G SS img am_ne am_sep am_conn Hwf Hspec Hmask k Hk) as (i & s & Hs & E).
    destruct (am_nth_SS i s Hs) as (d & Hd & _). exists i, d. split; [exact Hd|exact E].
  Qed.

  Lemma am_on_axis k : (k < length ss)%nat -> on_axis (members img k) = true.
  Proof.
    intros Hk. destruct (am_surj k Hk) as (i & d & Hd & <-). unfold on_axis. apply existsb_exists.
    destruct (am_ball_hub d (nth_error_In _ _ Hd)) as (_ & Hin & H0).
    exists (centre_cell G [0; fst d]). split; [apply (am_members i d Hd); exact Hin|].
    rewrite H0. reflexivity.
  Qed.

  Lemma am_members_ne k : (k < length ss)%nat -> members img k <> [].
  Proof. intros Hk. apply (wf_dense G img Hwf). rewrite am_num_labels. exact Hk. Qed.

  Lemma am_members_range k p : In p (members img k) ->
    exists i j, p = [i; j] /\ (0 <= i < cg_nr g)%Z /\ (0 <= j < ncell za)%Z.
  Proof.
    intros Hp. apply (members_mask G img k p Hwf) in Hp. destruct Hp as [Hp _].
    apply (mask_cells_range G img p Hwf) in Hp. destruct Hp as [Hr _].
    change (gshape G) with [cg_nr g; ncell za] in Hr. exact (in_range2 _ _ p Hr).
  Qed.

  (* centre of mass along z of the cluster of sphere i *)
  Lemma am_position i d : nth_error ss i = Some d ->
    Qabs (alo za + pos0 img (albl i) 1 * adisc za - fst d) <= adisc za / 2.
  Proof.
    intros Hd. pose proof (nth_error_In _ _ Hd) as Hin.
    exact (cluster_position G [0; fst d] (snd d) img (albl i) 1 za (fst d) am_ok am_nonper Hwf
             (am_members i d Hd) (Hne d Hin) eq_refl eq_refl (Hfit d Hin)).
  Qed.

  Lemma am_perm i d : nth_error ss i = Some d ->
    Permutation (members img (albl i)) (ball_cells G [0; fst d] (snd d)).
  Proof. intros Hd. exact (cluster_perm G [0; fst d] (snd d) img (albl i) Hwf (am_members i d Hd)). Qed.
End AxisMulti.

(* ------------------------------------------------------------------------------------------ *)
(* the plain (non-padded) image                                                                 *)
(* ------------------------------------------------------------------------------------------ *)
Section CylMulti.
  Variable g : cylgrid.
  Variable ds : list (Q * Q).
  Variable img : limage.
  Hypothesis Hok : cyl_ok g.
  Hypothesis Hin : forall d, In d ds -> cg_zlo g <= fst d - snd d /\ fst d + snd d <= cg_zhi g.
  Hypothesis Hne : forall d, In d ds -> cyl_cells g (fst d) (snd d) <> [].
  Hypothesis Hsep : forall i j di dj, nth_error ds i = Some di -> nth_error ds j = Some dj -> i <> j ->
    snd di + snd dj + cg_dz g <= Qabs (fst di - fst dj).
  Hypothesis Hwf : wf_img (cyl_axes g) img.
  Hypothesis Hspec : LabelSpecImg img.
  Hypothesis Hmask : forall idx, in_rangeL [cg_nr g; cg_nz g] idx ->
    (lab_of img idx <> 0%nat <-> cyl_inside_any g ds (ridx idx) (zidx idx) = true).

  Local Notation G2 := (cyl_axes g).

  Lemma cm_zax_ok : axis_ok (cyl_zax g).
  Proof. destruct Hok as (_ & H2 & _ & H4). split; assumption. Qed.

  Lemma cm_fit d : In d ds -> fits1 (cyl_zax g) (fst d) (snd d).
  Proof. intros Hd. exact (Hin d Hd). Qed.

  Lemma cm_ne d : In d ds -> ball_cells [cyl_rax g; cyl_zax g] [0; fst d] (snd d) <> [].
  Proof.
    intros Hd. change [cyl_rax g; cyl_zax g] with (cyl_axes g).
    rewrite <- (cyl_cells_ball g (fst d) (snd d) Hok). exact (Hne d Hd).
  Qed.

  Lemma cm_mask : mask_is_emulsion G2 (map axis_sphere ds) img.
  Proof.
    intros idx Hr. change (gshape G2) with [cg_nr g; cg_nz g] in Hr. rewrite (Hmask idx Hr).
    destruct (in_range2 _ _ idx Hr) as (i & j & -> & _ & _).
    change (ridx [i; j]) with i. change (zidx [i; j]) with j.
    rewrite inside_any_iff. unfold cyl_inside_any. rewrite existsb_exists. split.
    - intros (d & Hd & Hi). exists (axis_sphere d). split; [apply in_map; exact Hd|].
      cbn [axis_sphere fst snd]. rewrite <- (cyl_inside_ball g (fst d) (snd d) i j Hok). exact Hi.
    - intros (s & Hs & Hi). apply in_map_iff in Hs. destruct Hs as (d & <- & Hd). exists d.
      split; [exact Hd|]. cbn [axis_sphere fst snd] in Hi.
      rewrite (cyl_inside_ball g (fst d) (snd d) i j Hok). exact Hi.
  Qed.

  Definition clbl (i : nat) : nat := albl g (cyl_zax g) ds img i.

  Theorem cm_num_labels : num_labels img = length ds.
  Proof. exact (am_num_labels g (cyl_zax g) ds img Hok cm_zax_ok eq_refl cm_fit cm_ne Hsep Hwf Hspec cm_mask). Qed.

  Lemma cm_members i d : nth_error ds i = Some d ->
    forall p, In p (members img (clbl i)) <-> In p (ball_cells G2 [0; fst d] (snd d)).
  Proof. exact (am_members g (cyl_zax g) ds img Hok cm_zax_ok eq_refl cm_fit cm_ne Hsep Hwf Hspec cm_mask i d). Qed.

  Lemma cm_lt i d : nth_error ds i = Some d -> (clbl i < length ds)%nat.
  Proof. exact (am_lt g (cyl_zax g) ds img Hok cm_zax_ok eq_refl cm_fit cm_ne Hsep Hwf Hspec cm_mask i d). Qed.

  Lemma cm_inj i j di dj : nth_error ds i = Some di -> nth_error ds j = Some dj -> clbl i = clbl j -> i = j.
  Proof. exact (am_inj g (cyl_zax g) ds img Hok cm_zax_ok eq_refl cm_fit cm_ne Hsep Hwf Hspec cm_mask i j di dj). Qed.

  Lemma cm_on_axis k : (k < length ds)%nat -> on_axis (members img k) = true.
  Proof. exact (am_on_axis g (cyl_zax g) ds img Hok cm_zax_ok eq_refl cm_fit cm_ne Hsep Hwf Hspec cm_mask k). Qed.

  Lemma cm_not_spanning k : (k < length ds)%nat -> spans g (members img k) = false.
  Proof.
    intros Hk. unfold spans. apply andb_false_iff. right. apply Z.ltb_ge.
    assert (Hlt : (zmax (members img k) < cg_nz g)%Z).
    { apply zmax_below.
      - exact (am_members_ne g (cyl_zax g) ds img Hok cm_zax_ok eq_refl cm_fit cm_ne Hsep Hwf Hspec cm_mask k Hk).
      - intros p Hp. destruct (am_members_range g (cyl_zax g) img Hwf k p Hp) as (i & j & -> & _ & Hj).
        change (zidx [i; j]) with j. exact (proj2 Hj). }
    lia.
  Qed.

  Theorem cm_cyl_single :
    cyl_single g img = Found (map (fun k => cyl_droplet g (members img k)) (seq 0 (length ds))).
  Proof.
    unfold cyl_single. rewrite cm_num_labels.
    rewrite (filter_all_true (fun k => on_axis (members img k)) (seq 0 (length ds))).
    2:{ intros k Hk. apply in_seq in Hk. apply cm_on_axis. lia. }
    rewrite (existsb_all_false (fun k => spans g (members img k)) (seq 0 (length ds))).
    2:{ intros k Hk. apply in_seq in Hk. apply cm_not_spanning. lia. }
    reflexivity.
  Qed.

  Theorem cm_volume i d : nth_error ds i = Some d ->
    snd (cyl_droplet g (members img (clbl i)))
    == lsum (cyl_cells g (fst d) (snd d)) (fun p => shell g (ridx p)).
  Proof.
    intros Hd. cbn [cyl_droplet snd]. rewrite csum_lsum, (cyl_cells_ball g (fst d) (snd d) Hok).
    apply lsum_perm.
    exact (am_perm g (cyl_zax g) ds img Hok cm_zax_ok eq_refl cm_fit cm_ne Hsep Hwf Hspec cm_mask i d Hd).
  Qed.

  Theorem cm_position i d : nth_error ds i = Some d ->
    Qabs (fst (cyl_droplet g (members img (clbl i))) - fst d) <= cg_dz g / 2.
  Proof.
    intros Hd.
    exact (am_position g (cyl_zax g) ds img Hok cm_zax_ok eq_refl cm_fit cm_ne Hsep Hwf Hspec cm_mask i d Hd).
  Qed.
End CylMulti.

(* an emulsion of on-axis spheres inside the z-range, pairwise  rad_i + rad_j + dz <= |c_i - c_j| :
   exactly one droplet per sphere (entry cidx i of the result for sphere i, cidx injective), volume / pi =
   sum of the shells of the cells the sphere covers, axial position within half an axial spacing *)
Theorem c01_cyl_multi g (ds : list (Q * Q)) img :
  cyl_ok g ->
  (forall d, In d ds -> cg_zlo g <= fst d - snd d /\ fst d + snd d <= cg_zhi g) ->
  (forall d, In d ds -> cyl_cells g (fst d) (snd d) <> []) ->
  (forall i j di dj, nth_error ds i = Some di -> nth_error ds j = Some dj -> i <> j ->
     snd di + snd dj + cg_dz g <= Qabs (fst di - fst dj)) ->
  wf_img (cyl_axes g) img -> LabelSpecImg img ->
  (forall idx, in_rangeL [cg_nr g; cg_nz g] idx ->
     (lab_of img idx <> 0%nat <-> cyl_inside_any g ds (ridx idx) (zidx idx) = true)) ->
  num_labels img = length ds /\
  exists out, cyl_single g img = Found out /\ length out = length ds /\
  exists cidx : nat -> nat,
    (forall i, (i < length ds)%nat -> (cidx i < length ds)%nat) /\
    (forall i j, (i < length ds)%nat -> (j < length ds)%nat -> cidx i = cidx j -> i = j) /\
    forall i c rad, nth_error ds i = Some (c, rad) ->
      exists z v, nth_error out (cidx i) = Some (z, v) /\
        v == lsum (cyl_cells g c rad) (fun p => shell g (ridx p)) /\
        Qabs (z - c) <= cg_dz g / 2.
Proof.
  intros Hok Hin Hne Hsep Hwf Hspec Hmask.
  split; [exact (cm_num_labels g ds img Hok Hin Hne Hsep Hwf Hspec Hmask)|].
  exists (map (fun k => cyl_droplet g (members img k)) (seq 0 (length ds))).
  split; [exact (cm_cyl_single g ds img Hok Hin Hne Hsep Hwf Hspec Hmask)|].
  split; [rewrite map_length, seq_length; reflexivity|].
  exists (clbl g ds img). split; [|split].
  - intros i Hi. destruct (nth_error_lt_some ds i Hi) as [d Hd].
    exact (cm_lt g ds img Hok Hin Hne Hsep Hwf Hspec Hmask i d Hd).
  - intros i j Hi Hj E. destruct (nth_error_lt_some ds i Hi) as [di Hdi].
    destruct (nth_error_lt_some ds j Hj) as [dj Hdj].
    exact (cm_inj g ds img Hok Hin Hne Hsep Hwf Hspec Hmask i j di dj Hdi Hdj E).
  - intros i c rad Hd. set (k := clbl g ds img i).
    pose proof (cm_lt g ds img Hok Hin Hne Hsep Hwf Hspec Hmask i _ Hd) as Hk. fold k in Hk.
    exists (fst (cyl_droplet g (members img k))), (snd (cyl_droplet g (members img k))).
    split; [|split].
    + rewrite (map_nth_error _ k (seq 0 (length ds)) (nth_error_seq0 _ k Hk)).
      destruct (cyl_droplet g (members img k)). reflexivity.
    + exact (cm_volume g ds img Hok Hin Hne Hsep Hwf Hspec Hmask i (c, rad) Hd).
    + exact (cm_position g ds img Hok Hin Hne Hsep Hwf Hspec Hmask i (c, rad) Hd).
Qed.

(* the separation written with squares, as in the Cartesian theorems: (rad_i + rad_j + hmax)^2 <= (c_i - c_j)^2
   (the squared distance of the centres (0, c_i), (0, c_j)); only hmax >= dz is needed *)
Lemma sq_le_abs a b : 0 <= a -> a * a <= b * b -> a <= Qabs b.
Proof.
  intros Ha H. destruct (Qlt_le_dec b 0) as [Hb|Hb].
  - rewrite Qabs_neg by lra. destruct (Qlt_le_dec (- b) a) as [Hlt|Hle]; [exfalso; nra|exact Hle].
  - rewrite Qabs_pos by lra. destruct (Qlt_le_dec b a) as [Hlt|Hle]; [exfalso; nra|exact Hle].
Qed.

Lemma cyl_sep_of_euclid g (ds : list (Q * Q)) hmax : cyl_ok g ->
  (forall d, In d ds -> cyl_cells g (fst d) (snd d) <> []) ->
  0 <= hmax -> cg_dz g <= hmax ->
  (forall i j di dj, nth_error ds i = Some di -> nth_error ds j = Some dj -> i <> j ->
     (snd di + snd dj + hmax) * (snd di + snd dj + hmax) <= (fst di - fst dj) * (fst di - fst dj)) ->
  forall i j di dj, nth_error ds i = Some di -> nth_error ds j = Some dj -> i <> j ->
    snd di + snd dj + cg_dz g <= Qabs (fst di - fst dj).
Proof.
  intros Hok Hne Hh0 Hh Hsq i j di dj Hi Hj Hij.
  pose proof (cs_rad_pos g (fst di) (snd di) Hok (Hne di (nth_error_In _ _ Hi))) as Ri.
  pose proof (cs_rad_pos g (fst dj) (snd dj) Hok (Hne dj (nth_error_In _ _ Hj))) as Rj.
  pose proof (sq_le_abs (snd di + snd dj + hmax) (fst di - fst dj) ltac:(lra) (Hsq i j di dj Hi Hj Hij)) as H.
  lra.
Qed.

Theorem c01_cyl_multi_euclid g (ds : list (Q * Q)) img hmax :
  cyl_ok g ->
  (forall d, In d ds -> cg_zlo g <= fst d - snd d /\ fst d + snd d <= cg_zhi g) ->
  (forall d, In d ds -> cyl_cells g (fst d) (snd d) <> []) ->
  0 <= hmax -> cg_dz g <= hmax ->
  (forall i j di dj, nth_error ds i = Some di -> nth_error ds j = Some dj -> i <> j ->
     (snd di + snd dj + hmax) * (snd di + snd dj + hmax) <= (fst di - fst dj) * (fst di - fst dj)) ->
  wf_img (cyl_axes g) img -> LabelSpecImg img ->
  (forall idx, in_rangeL [cg_nr g; cg_nz g] idx ->
     (lab_of img idx <> 0%nat <-> cyl_inside_any g ds (ridx idx) (zidx idx) = true)) ->
  num_labels img = length ds /\
  exists out, cyl_single g img = Found out /\ length out = length ds /\
  exists cidx : nat -> nat,
    (forall i, (i < length ds)%nat -> (cidx i < length ds)%nat) /\
    (forall i j, (i < length ds)%nat -> (j < length ds)%nat -> cidx i = cidx j -> i = j) /\
    forall i c rad, nth_error ds i = Some (c, rad) ->
      exists z v, nth_error out (cidx i) = Some (z, v) /\
        v == lsum (cyl_cells g c rad) (fun p => shell g (ridx p)) /\
        Qabs (z - c) <= cg_dz g / 2.
Proof.
  intros Hok Hin Hne Hh0 Hh Hsq Hwf Hspec Hmask.
  exact (c01_cyl_multi g ds img Hok Hin Hne (cyl_sep_of_euclid g ds hmax Hok Hne Hh0 Hh Hsq) Hwf Hspec Hmask).
Qed.

(* the same through the dispatcher when the grid is not periodic (the padded label image is not used) *)
Theorem c01_cyl_multi_candidates g (ds : list (Q * Q)) img_pad img : cg_per g = false ->
  cyl_ok g ->
  (forall d, In d ds -> cg_zlo g <= fst d - snd d /\ fst d + snd d <= cg_zhi g) ->
  (forall d, In d ds -> cyl_cells g (fst d) (snd d) <> []) ->
  (forall i j di dj, nth_error ds i = Some di -> nth_error ds j = Some dj -> i <> j ->
     snd di + snd dj + cg_dz g <= Qabs (fst di - fst dj)) ->
  wf_img (cyl_axes g) img -> LabelSpecImg img ->
  (forall idx, in_rangeL [cg_nr g; cg_nz g] idx ->
     (lab_of img idx <> 0%nat <-> cyl_inside_any g ds (ridx idx) (zidx idx) = true)) ->
  length (cyl_candidates g img_pad img) = length ds /\
  exists cidx : nat -> nat,
    (forall i, (i < length ds)%nat -> (cidx i < length ds)%nat) /\
    (forall i j, (i < length ds)%nat -> (j < length ds)%nat -> cidx i = cidx j -> i = j) /\
    forall i c rad, nth_error ds i = Some (c, rad) ->
      exists z v, nth_error (cyl_candidates g img_pad img) (cidx i) = Some (z, v) /\
        v == lsum (cyl_cells g c rad) (fun p => shell g (ridx p)) /\
        Qabs (z - c) <= cg_dz g / 2.
Proof.
  intros Hper Hok Hin Hne Hsep Hwf Hspec Hmask.
  destruct (c01_cyl_multi g ds img Hok Hin Hne Hsep Hwf Hspec Hmask) as (_ & out & Hs & Hlen & cidx & H1 & H2 & H3).
  assert (E : cyl_candidates g img_pad img = out) by (unfold cyl_candidates; rewrite Hper, Hs; reflexivity).
  rewrite E. split; [exact Hlen|]. exists cidx. split; [exact H1|]. split; [exact H2|exact H3].
Qed.

(* ---- end to end: render (RenderSym.cyl_mask), label (Model/Label.v), locate ---- *)
Lemma cyl_mask_length g ds : length (cyl_mask g ds) = length (all_cells (gshape (cyl_axes g))).
Proof. apply map_length. Qed.

Lemma cyl_mask_label g ds idx : in_rangeL [cg_nr g; cg_nz g] idx ->
  (lab_of (mk_limage [cg_nr g; cg_nz g] (label [cg_nr g; cg_nz g] (cyl_mask g ds))) idx <> 0%nat
   <-> cyl_inside_any g ds (ridx idx) (zidx idx) = true).
Proof.
  intros Hr.
  exact (label_of_fun [cg_nr g; cg_nz g] (fun idx0 => cyl_inside_any g ds (ridx idx0) (zidx idx0)) idx Hr).
Qed.

Theorem c01_cyl_multi_label g (ds : list (Q * Q)) img_pad :
  let img := mk_limage [cg_nr g; cg_nz g] (label [cg_nr g; cg_nz g] (cyl_mask g ds)) in
  cg_per g = false -> cyl_ok g ->
  (forall d, In d ds -> cg_zlo g <= fst d - snd d /\ fst d + snd d <= cg_zhi g) ->
  (forall d, In d ds -> cyl_cells g (fst d) (snd d) <> []) ->
  (forall i j di dj, nth_error ds i = Some di -> nth_error ds j = Some dj -> i <> j ->
     snd di + snd dj + cg_dz g <= Qabs (fst di - fst dj)) ->
  length (cyl_candidates g img_pad img) = length ds /\
  exists cidx : nat -> nat,
    (forall i, (i < length ds)%nat -> (cidx i < length ds)%nat) /\
    (forall i j, (i < length ds)%nat -> (j < length ds)%nat -> cidx i = cidx j -> i = j) /\
    forall i c rad, nth_error ds i = Some (c, rad) ->
      exists z v, nth_error (cyl_candidates g img_pad img) (cidx i) = Some (z, v) /\
        v == lsum (cyl_cells g c rad) (fun p => shell g (ridx p)) /\
        Qabs (z - c) <= cg_dz g / 2.
Proof.
  intros img Hper Hok Hin Hne Hsep.
  exact (c01_cyl_multi_candidates g ds img_pad img Hper Hok Hin Hne Hsep
           (label_wf (cyl_axes g) _ (cyl_mask_length g ds))
           (label_spec (gshape (cyl_axes g)) _ (cyl_mask_length g ds))
           (cyl_mask_label g ds)).
Qed.

(* ---- the premises are satisfiable: 3 x 10 cells, R_out = 3, z in [0, 10], spheres at z = 14/5 and z = 8 with
        radius 8/5: four and six covered cells, two labels ---- *)
Definition exm_cgrid : cylgrid :=
  {| cg_nr := 3; cg_nz := 10; cg_R := 3; cg_zlo := 0; cg_zhi := 10; cg_per := false |}.
Definition exm_cds : list (Q * Q) := [(14 # 5, 8 # 5); (8, 8 # 5)].
Definition exm_clab : list nat :=
  [0; 1; 1; 1; 0; 0; 2; 2; 2; 2;
   0; 0; 1; 0; 0; 0; 0; 2; 2; 0;
   0; 0; 0; 0; 0; 0; 0; 0; 0; 0]%nat.

Example c01_cyl_multi_nonvacuous :
  let g := exm_cgrid in let ds := exm_cds in
  let img := mk_limage [cg_nr g; cg_nz g] exm_clab in
  cg_per g = false /\ cyl_ok g /\
  (forall d, In d ds -> cg_zlo g <= fst d - snd d /\ fst d + snd d <= cg_zhi g) /\
  (forall d, In d ds -> cyl_cells g (fst d) (snd d) <> []) /\
  (forall i j di dj, nth_error ds i = Some di -> nth_error ds j = Some dj -> i <> j ->
     snd di + snd dj + cg_dz g <= Qabs (fst di - fst dj)) /\
  wf_img (cyl_axes g) img /\ LabelSpecImg img /\
  (forall idx, in_rangeL [cg_nr g; cg_nz g] idx ->
     (lab_of img idx <> 0%nat <-> cyl_inside_any g ds (ridx idx) (zidx idx) = true)) /\
  cyl_cells g (14 # 5) (8 # 5) = [[0; 1]; [0; 2]; [0; 3]; [1; 2]]%Z /\
  cyl_cells g 8 (8 # 5) = [[0; 6]; [0; 7]; [0; 8]; [0; 9]; [1; 7]; [1; 8]]%Z /\
  num_labels img = 2%nat.
Proof.
  intros g ds img.
  (* the written-out label image is what the executable labelling returns for the rendered mask *)
  assert (Elab : exm_clab = label [cg_nr g; cg_nz g] (cyl_mask g ds)) by (vm_compute; reflexivity).
  split; [reflexivity|]. split; [repeat split|].
  split.
  { intros d [<-|[<-|[]]]; split; apply Qle_bool_iff; vm_compute; reflexivity. }
  split.
  { intros d [<-|[<-|[]]]; vm_compute; discriminate. }
  split.
  { intros i j di dj Hi Hj Hij.
    destruct i as [|[|i]]; destruct j as [|[|j]]; cbn in Hi, Hj; try congruence;
      try (destruct i; discriminate Hi); try (destruct j; discriminate Hj);
      injection Hi as <-; injection Hj as <-; apply Qle_bool_iff; vm_compute; reflexivity. }
  split; [apply wf_imgb_true; vm_compute; reflexivity|].
  split.
  { unfold img. rewrite Elab. exact (label_spec (gshape (cyl_axes g)) _ (cyl_mask_length g ds)). }
  split; [intros idx Hr; mask_enum Hr|].
  split; [vm_compute; reflexivity|]. split; vm_compute; reflexivity.
Qed.

(* ------------------------------------------------------------------------------------------ *)
(* periodic cylinder: the padded image [nr; 3 nz] is the image of the 3 n translates            *)
(* ------------------------------------------------------------------------------------------ *)
Definition zshift (g : cylgrid) (k : Z) (d : Q * Q) : Q * Q := (fst d + inject_Z k * cg_len g, snd d).
Definition copies3 (g : cylgrid) (ds : list (Q * Q)) : list (Q * Q) :=
  map (zshift g 0) ds ++ map (zshift g 1) ds ++ map (zshift g 2) ds.

(* the padded rendered emulsion: np.pad(mask, [[0, 0], [nz, nz]], mode="wrap") *)
Definition cyl_mask_pad (g : cylgrid) (ds : list (Q * Q)) : list bool :=
  map (fun idx => cyl_inside_any g ds (ridx idx) (zidx idx mod cg_nz g)) (all_cells [cg_nr g; (3 * cg_nz g)%Z]).

Lemma nth_error_app3 {A : Type} (l0 l1 l2 : list A) m a :
  length l0 = m -> length l1 = m -> length l2 = m ->
  nth_error (l0 ++ l1 ++ l2) a =
  if Nat.ltb a m then nth_error l0 a
  else if Nat.ltb a (2 * m) then nth_error l1 (a - m) else nth_error l2 (a - 2 * m).
Proof.
  intros E0 E1 E2. destruct (Nat.ltb_spec a m) as [H|H]; [apply nth_error_app1; lia|].
  rewrite nth_error_app2 by lia. rewrite E0.
  destruct (Nat.ltb_spec a (2 * m)) as [H'|H'].
  - apply nth_error_app1. lia.
  - rewrite nth_error_app2 by lia. rewrite E1. f_equal. lia.
Qed.

Lemma copies3_length g ds : length (copies3 g ds) = (3 * length ds)%nat.
Proof. unfold copies3. rewrite !app_length, !map_length. lia. Qed.

Lemma copies3_in g ds s :
  In s (copies3 g ds) <-> exists k d, (0 <= k <= 2)%Z /\ In d ds /\ s = zshift g k d.
Proof.
  unfold copies3. rewrite !in_app_iff, !in_map_iff. split.
  - intros [(d & <- & Hd)|[(d & <- & Hd)|(d & <- & Hd)]];
      [exists 0%Z, d|exists 1%Z, d|exists 2%Z, d]; (split; [lia|split; [exact Hd|reflexivity]]).
  - intros (k & d & Hk & Hd & ->). assert (Hc : (k = 0 \/ k = 1 \/ k = 2)%Z) by lia.
    destruct Hc as [-> | [-> | ->]]; [left|right; left|right; right]; exists d; (split; [reflexivity|exact Hd]).
Qed.

Lemma copies3_nth g ds k i d : (k < 3)%nat -> nth_error ds i = Some d ->
  nth_error (copies3 g ds) (k * length ds + i) = Some (zshift g (Z.of_nat k) d).
Proof.
  intros Hk Hd. pose proof (nth_error_some_lt ds i d Hd) as Hi. unfold copies3.
  rewrite (nth_error_app3 _ _ _ (length ds)) by apply map_length.
  destruct k as [|[|[|k]]]; [| | |lia].
  - destruct (Nat.ltb_spec (0 * length ds + i) (length ds)) as [H|H]; [|lia].
    cbn [Nat.mul Nat.add]. exact (map_nth_error _ i ds Hd).
  - destruct (Nat.ltb_spec (1 * length ds + i) (length ds)) as [H|H]; [lia|].
    destruct (Nat.ltb_spec (1 * length ds + i) (2 * length ds)) as [H'|H']; [|lia].
    replace (1 * length ds + i - length ds)%nat with i by lia. exact (map_nth_error _ i ds Hd).
  - destruct (Nat.ltb_spec (2 * length ds + i) (length ds)) as [H|H]; [lia|].
    destruct (Nat.ltb_spec (2 * length ds + i) (2 * length ds)) as [H'|H']; [lia|].
    replace (2 * length ds + i - 2 * length ds)%nat with i by lia. exact (map_nth_error _ i ds Hd).
Qed.

Lemma copies3_nth_inv g ds a s : nth_error (copies3 g ds) a = Some s ->
  exists k i d, (k < 3)%nat /\ nth_error ds i = Some d /\ a = (k * length ds + i)%nat /\
                s = zshift g (Z.of_nat k) d.
Proof.
  unfold copies3. rewrite (nth_error_app3 _ _ _ (length ds)) by apply map_length.
  destruct (Nat.ltb_spec a (length ds)) as [H|H]; [|destruct (Nat.ltb_spec a (2 * length ds)) as [H'|H']];
    rewrite nth_error_map; intros E.
  - destruct (nth_error ds a) as [d|] eqn:Ed; cbn [option_map] in E; [|discriminate E]. injection E as <-.
    exists 0%nat, a, d. split; [lia|]. split; [exact Ed|]. split; [lia|reflexivity].
  - destruct (nth_error ds (a - length ds)) as [d|] eqn:Ed; cbn [option_map] in E; [|discriminate E].
    injection E as <-. exists 1%nat, (a - length ds)%nat, d.
    split; [lia|]. split; [exact Ed|]. split; [lia|reflexivity].
  - destruct (nth_error ds (a - 2 * length ds)) as [d|] eqn:Ed; cbn [option_map] in E; [|discriminate E].
    injection E as <-. exists 2%nat, (a - 2 * length ds)%nat, d.
    split; [lia|]. split; [exact Ed|]. split; [lia|reflexivity].
Qed.

Lemma filter_map_comm {A B : Type} (f : A -> B) (p : B -> bool) : forall l,
  filter p (map f l) = map f (filter (fun x => p (f x)) l).
Proof.
  induction l as [|x l IH]; cbn [map filter]; [reflexivity|].
  destruct (p (f x)); cbn [map]; rewrite IH; reflexivity.
Qed.

(* the axial position of a cluster whose cells lie in the k-th copy of the box *)
Lemma zpos_range g (M : list cell) (k : Z) : cyl_ok g -> M <> [] ->
  (forall p, In p M -> (k * cg_nz g <= zidx p <= k * cg_nz g + cg_nz g - 1)%Z) ->
  cg_zlo g + inject_Z k * cg_len g + (1 # 2) * cg_dz g <= fst (cyl_droplet g M) /\
  fst (cyl_droplet g M) <= cg_zlo g + (inject_Z k + 1) * cg_len g - (1 # 2) * cg_dz g.
Proof.
  intros Hok Hn Hz. cbn [cyl_droplet fst].
  assert (Hc : 0 < count M).
  { unfold count. change 0 with (inject_Z 0). rewrite <- Zlt_Qlt. destruct M; [congruence|cbn [length]; lia]. }
  destruct (csum_bounds M (k * cg_nz g) (k * cg_nz g + cg_nz g - 1) Hz) as [B1 B2].
  pose proof (pd_dz_pos g Hok) as Hdz. pose proof (cyl_nz_dz g Hok) as EL.
  set (S := csum M (fun p => inject_Z (zidx p))) in *.
  assert (D1 : inject_Z (k * cg_nz g) <= S / count M) by (apply Qle_shift_div_l; [exact Hc|exact B1]).
  assert (D2 : S / count M <= inject_Z (k * cg_nz g + cg_nz g - 1)) by (apply Qle_shift_div_r; [exact Hc|exact B2]).
  unfold Zminus in D2. rewrite !inject_Z_plus, inject_Z_mult in D2. rewrite inject_Z_mult in D1.
  change (inject_Z (- (1))) with (- (1)) in D2.
  set (m := S / count M) in *. set (K := inject_Z k) in *. set (Nz := inject_Z (cg_nz g)) in *.
  set (dz := cg_dz g) in *.
  assert (P1 : 0 <= dz * (m - K * Nz)) by (apply Qmult_le_0_compat; lra).
  assert (P2 : 0 <= dz * (K * Nz + Nz - 1 - m)) by (apply Qmult_le_0_compat; lra).
  assert (E1 : K * cg_len g == K * Nz * dz) by (rewrite <- EL; ring).
  assert (E2 : (K + 1) * cg_len g == (K * Nz + Nz) * dz) by (rewrite <- EL; ring).
  split; lra.
Qed.

(* cyl_window keeps a cluster of copy k iff k = 1 *)
Lemma window_test g (M : list cell) (k : nat) : cyl_ok g -> (k < 3)%nat -> M <> [] ->
  (forall p, In p M -> (Z.of_nat k * cg_nz g <= zidx p <= Z.of_nat k * cg_nz g + cg_nz g - 1)%Z) ->
  Qle_bool (cg_zlo g) (fst (cyl_droplet g M) - cg_len g)
  && negb (Qle_bool (cg_zhi g) (fst (cyl_droplet g M) - cg_len g)) = Nat.eqb k 1.
Proof.
  intros Hok Hk Hn Hz. destruct (zpos_range g M (Z.of_nat k) Hok Hn Hz) as [Z1 Z2].
  pose proof (pd_dz_pos g Hok) as Hdz. pose proof (cyl_len_pos g Hok) as HL.
  set (z := fst (cyl_droplet g M)) in *.
  assert (Ehi : cg_zhi g == cg_zlo g + cg_len g) by (unfold cg_len; ring).
  destruct k as [|[|[|k]]]; [| | |lia]; cbn [Z.of_nat Pos.of_succ_nat Pos.succ Nat.eqb] in *.
  - change (inject_Z 0) with 0 in Z1, Z2.
    destruct (Qle_bool (cg_zlo g) (z - cg_len g)) eqn:E1; [|reflexivity].
    apply Qle_bool_iff in E1. exfalso. lra.
  - change (inject_Z 1) with 1 in Z1, Z2.
    assert (E1 : Qle_bool (cg_zlo g) (z - cg_len g) = true) by (apply Qle_bool_iff; lra).
    rewrite E1. destruct (Qle_bool (cg_zhi g) (z - cg_len g)) eqn:E2; [|reflexivity].
    apply Qle_bool_iff in E2. exfalso. lra.
  - change (inject_Z 2) with 2 in Z1, Z2.
    assert (E2 : Qle_bool (cg_zhi g) (z - cg_len g) = true) by (apply Qle_bool_iff; lra).
    rewrite E2. apply andb_false_r.
Qed.

(* the shells of a translated copy add up to the shells of the original *)
Lemma copy_volume g c rad (k : Z) (M : list cell) : cyl_ok g ->
  cg_zlo g <= c - rad -> c + rad <= cg_zhi g -> (0 <= k <= 2)%Z ->
  Permutation M (ball_cells (cyl_axes3 g) [0; c + inject_Z k * cg_len g] rad) ->
  csum M (fun p => shell g (ridx p)) == lsum (cyl_cells g c rad) (fun p => shell g (ridx p)).
Proof.
  intros Hok Hlo Hhi Hk HM. rewrite csum_lsum, (lsum_perm _ _ _ HM).
  set (sh := fun p : cell => match p with [i; j] => [i; (j + k * cg_nz g)%Z] | _ => p end).
  assert (HP : Permutation (ball_cells (cyl_axes3 g) [0; c + inject_Z k * cg_len g] rad)
                           (map sh (cyl_cells g c rad))).
  { apply NoDup_Permutation.
    - apply ball_cells_nodup.
    - apply nodup_map_inj_on.
      + unfold cyl_cells. apply NoDup_filter. apply nodup_all_cells.
      + intros x y Hx Hy E. unfold cyl_cells in Hx, Hy. apply filter_In in Hx. apply filter_In in Hy.
        destruct Hx as [Hx _]. destruct Hy as [Hy _]. apply all_cells_spec in Hx. apply all_cells_spec in Hy.
        destruct (in_range2 _ _ _ Hx) as (i1 & j1 & -> & _). destruct (in_range2 _ _ _ Hy) as (i2 & j2 & -> & _).
        cbn [sh] in E. injection E as E1 E2. f_equal; [exact E1|]. f_equal. lia.
    - intros p. rewrite (pd_copy_cells g c rad Hok Hlo Hhi k p Hk). rewrite in_map_iff. split.
      + intros (i & j & -> & Hin). exists [i; j]. split; [reflexivity|exact Hin].
      + intros (x & <- & Hin). pose proof Hin as Hin'. unfold cyl_cells in Hin'. apply filter_In in Hin'.
        destruct Hin' as [Hx _]. apply all_cells_spec in Hx. destruct (in_range2 _ _ _ Hx) as (i & j & -> & _).
        exists i, j. split; [reflexivity|exact Hin]. }
  rewrite (lsum_perm _ _ _ HP), lsum_map. apply lsum_ext. intros p Hp.
  unfold cyl_cells in Hp. apply filter_In in Hp. destruct Hp as [Hx _]. apply all_cells_spec in Hx.
  destruct (in_range2 _ _ _ Hx) as (i & j & -> & _). reflexivity.
Qed.

Section PerMulti.
  Variable g : cylgrid.
  Variable ds : list (Q * Q).
  Variable img_pad : limage.
  Hypothesis Hok : cyl_ok g.
  Hypothesis Hin : forall d, In d ds -> cg_zlo g <= fst d - snd d /\ fst d + snd d <= cg_zhi g.
  Hypothesis Hne : forall d, In d ds -> cyl_cells g (fst d) (snd d) <> [].
  Hypothesis Hsep : forall i j di dj, nth_error ds i = Some di -> nth_error ds j = Some dj -> i <> j ->
    snd di + snd dj + cg_dz g <= Qabs (fst di - fst dj).
  Hypothesis Hwrap : forall di dj, In di ds -> In dj ds ->
    snd di + snd dj + cg_dz g + Qabs (fst di - fst dj) <= cg_len g.
  Hypothesis Hwf : wf_img (cyl_axes3 g) img_pad.
  Hypothesis Hspec : LabelSpecImg img_pad.
  Hypothesis Hmask : forall idx, in_rangeL [cg_nr g; (3 * cg_nz g)%Z] idx ->
    (lab_of img_pad idx <> 0%nat <-> cyl_inside_any g ds (ridx idx) (zidx idx mod cg_nz g) = true).

  Local Notation G3 := (cyl_axes3 g).
  Local Notation S3 := (copies3 g ds).
  Local Notation Dp l := (cyl_droplet g (members img_pad l)).

  Lemma pm_nz_pos : (0 < cg_nz g)%Z.
  Proof. destruct Hok as (_ & H & _). exact H. Qed.

  Lemma pm_fit s : In s S3 -> fits1 (cyl_zax3 g) (fst s) (snd s).
  Proof.
    intros Hs. apply copies3_in in Hs. destruct Hs as (k & d & Hk & Hd & ->).
    destruct (Hin d Hd) as [Hlo Hhi]. pose proof (cyl_len_pos g Hok) as HL.
    assert (Hk1 : 0 <= inject_Z k) by (change 0 with (inject_Z 0); rewrite <- Zle_Qle; lia).
    assert (Hk2 : inject_Z k <= 2) by (change 2 with (inject_Z 2); rewrite <- Zle_Qle; lia).
    unfold fits1. cbn [zshift fst snd cyl_zax3 alo ahi]. unfold cg_len in *. split; nra.
  Qed.

  Lemma pm_ne s : In s S3 -> ball_cells [cyl_rax g; cyl_zax3 g] [0; fst s] (snd s) <> [].
  Proof.
    intros Hs. apply copies3_in in Hs. destruct Hs as (k & d & Hk & Hd & ->).
    destruct (Hin d Hd) as [Hlo Hhi].
    apply (pd_copy_ne g (fst d) (snd d) Hok Hlo Hhi (Hne d Hd) (copy_sphere g (fst d) (snd d) k)).
    assert (Hc : (k = 0 \/ k = 1 \/ k = 2)%Z) by lia.
    destruct Hc as [-> | [-> | ->]]; unfold copies; cbn [In]; tauto.
  Qed.

  Lemma pm_sep : forall a b sa sb, nth_error S3 a = Some sa -> nth_error S3 b = Some sb -> a <> b ->
    snd sa + snd sb + adisc (cyl_zax3 g) <= Qabs (fst sa - fst sb).
  Proof.
    intros a b sa sb Ha Hb Hab. rewrite (cyl_zax3_adisc g Hok).
    destruct (copies3_nth_inv g ds a sa Ha) as (k & i & di & Hk & Hdi & -> & ->).
    destruct (copies3_nth_inv g ds b sb Hb) as (k' & j & dj & Hk' & Hdj & -> & ->).
    cbn [zshift fst snd]. pose proof (cyl_len_pos g Hok) as HL.
    pose proof (Hwrap di dj (nth_error_In _ _ Hdi) (nth_error_In _ _ Hdj)) as W.
    pose proof (Qle_Qabs (fst di - fst dj)) as A1.
    pose proof (Qle_Qabs (- (fst di - fst dj))) as A2. rewrite Qabs_opp in A2.
    set (A := Qabs (fst di - fst dj)) in *.
    destruct (lt_eq_lt_dec k k') as [[Hlt|Heq]|Hgt].
    - assert (H1 : (Z.of_nat k + 1 <= Z.of_nat k')%Z) by lia.
      rewrite Zle_Qle, inject_Z_plus in H1. change (inject_Z 1) with 1 in H1.
      rewrite <- Qabs_opp. eapply Qle_trans; [|apply Qle_Qabs]. nra.
    - subst k'. assert (Hij : i <> j) by (intros ->; apply Hab; reflexivity).
      assert (E : fst di + inject_Z (Z.of_nat k) * cg_len g - (fst dj + inject_Z (Z.of_nat k) * cg_len g)
                  == fst di - fst dj) by ring.
      rewrite E. exact (Hsep i j di dj Hdi Hdj Hij).
    - assert (H1 : (Z.of_nat k' + 1 <= Z.of_nat k)%Z) by lia.
      rewrite Zle_Qle, inject_Z_plus in H1. change (inject_Z 1) with 1 in H1.
      eapply Qle_trans; [|apply Qle_Qabs]. nra.
  Qed.

  (* the padded mask is the image of the 3 n translates *)
  Lemma pm_mask : mask_is_emulsion G3 (map axis_sphere S3) img_pad.
  Proof.
    intros idx Hr. change (gshape G3) with [cg_nr g; (3 * cg_nz g)%Z] in Hr. rewrite (Hmask idx Hr).
    destruct (in_range2 _ _ idx Hr) as (i & j & -> & Hi & Hj).
    change (ridx [i; j]) with i. change (zidx [i; j]) with j.
    pose proof pm_nz_pos as HN. rewrite inside_any_iff. unfold cyl_inside_any. rewrite existsb_exists. split.
    - intros (d & Hd & Hc). set (k := (j / cg_nz g)%Z).
      assert (Hk : (0 <= k <= 2)%Z).
      { unfold k. split; [apply Z.div_pos; lia|].
        assert (j / cg_nz g < 3)%Z by (apply Z.div_lt_upper_bound; lia). lia. }
      exists (axis_sphere (zshift g k d)). split.
      + apply in_map. apply copies3_in. exists k, d. split; [exact Hk|]. split; [exact Hd|reflexivity].
      + change (inside G3 (fst (copy_sphere g (fst d) (snd d) k)) (snd d) [i; j] = true).
        rewrite (cyl3_inside g (fst d) (snd d) k i j Hok).
        replace (j - k * cg_nz g)%Z with (j mod cg_nz g)%Z; [exact Hc|].
        unfold k. pose proof (Z.div_mod j (cg_nz g)). lia.
    - intros (s & Hs & Hc). apply in_map_iff in Hs. destruct Hs as (s0 & <- & Hs0).
      apply copies3_in in Hs0. destruct Hs0 as (k & d & Hk & Hd & ->).
      change (inside G3 (fst (copy_sphere g (fst d) (snd d) k)) (snd d) [i; j] = true) in Hc.
      rewrite (cyl3_inside g (fst d) (snd d) k i j Hok) in Hc. destruct (Hin d Hd) as [Hlo Hhi].
      pose proof (cyl_inside_range g (fst d) (snd d) i _ Hok Hlo Hhi Hc) as Hjr.
      exists d. split; [exact Hd|].
      replace (j mod cg_nz g)%Z with (j - k * cg_nz g)%Z; [exact Hc|].
      apply (Z.mod_unique j (cg_nz g) k (j - k * cg_nz g)); [lia|lia].
  Qed.

  Local Notation AM f :=
    (f g (cyl_zax3 g) S3 img_pad Hok (cyl_zax3_ok g Hok) eq_refl pm_fit pm_ne pm_sep Hwf Hspec pm_mask).

  (* the label of copy k of sphere i *)
  Definition mlbl (k i : nat) : nat := albl g (cyl_zax3 g) (copies3 g ds) img_pad (k * length ds + i).

  Lemma pm_num_labels : num_labels img_pad = (3 * length ds)%nat.
  Proof. rewrite (AM am_num_labels). apply copies3_length. Qed.

  Lemma pm_lt k i d : (k < 3)%nat -> nth_error ds i = Some d -> (mlbl k i < 3 * length ds)%nat.
  Proof.
    intros Hk Hd. rewrite <- (copies3_length g ds).
    exact (AM am_lt (k * length ds + i)%nat _ (copies3_nth g ds k i d Hk Hd)).
  Qed.

  Lemma pm_inj k k' i j di dj : (k < 3)%nat -> (k' < 3)%nat ->
    nth_error ds i = Some di -> nth_error ds j = Some dj -> mlbl k i = mlbl k' j -> k = k' /\ i = j.
  Proof.
    intros Hk Hk' Hi Hj E.
    pose proof (AM am_inj _ _ _ _ (copies3_nth g ds k i di Hk Hi) (copies3_nth g ds k' j dj Hk' Hj) E) as H.
    pose proof (nth_error_some_lt ds i di Hi). pose proof (nth_error_some_lt ds j dj Hj).
    destruct k as [|[|[|k]]]; [| | |lia]; (destruct k' as [|[|[|k']]]; [| | |lia]); split; lia.
  Qed.

  Lemma pm_surj l : (l < 3 * length ds)%nat ->
    exists k i d, (k < 3)%nat /\ nth_error ds i = Some d /\ mlbl k i = l.
  Proof.
    intros Hl. rewrite <- (copies3_length g ds) in Hl.
    destruct (AM am_surj l Hl) as (a & s & Hs & E).
    destruct (copies3_nth_inv g ds a s Hs) as (k & i & d & Hk & Hd & -> & _).
    exists k, i, d. split; [exact Hk|]. split; [exact Hd|exact E].
  Qed.

  Lemma pm_members k i d : (k < 3)%nat -> nth_error ds i = Some d ->
    forall p, In p (members img_pad (mlbl k i))
              <-> In p (ball_cells G3 [0; fst d + inject_Z (Z.of_nat k) * cg_len g] (snd d)).
  Proof.
    intros Hk Hd p. exact (AM am_members (k * length ds + i)%nat _ (copies3_nth g ds k i d Hk Hd) p).
  Qed.

  Lemma pm_perm k i d : (k < 3)%nat -> nth_error ds i = Some d ->
    Permutation (members img_pad (mlbl k i))
                (ball_cells G3 [0; fst d + inject_Z (Z.of_nat k) * cg_len g] (snd d)).
  Proof.
    intros Hk Hd. exact (AM am_perm (k * length ds + i)%nat _ (copies3_nth g ds k i d Hk Hd)).
  Qed.

  Lemma pm_members_zidx k i d p : (k < 3)%nat -> nth_error ds i = Some d ->
    In p (members img_pad (mlbl k i)) ->
    (Z.of_nat k * cg_nz g <= zidx p <= Z.of_nat k * cg_nz g + cg_nz g - 1)%Z.
  Proof.
    intros Hk Hd Hp. apply (pm_members k i d Hk Hd) in Hp.
    destruct (Hin d (nth_error_In _ _ Hd)) as [Hlo Hhi].
    apply (pd_copy_cells g (fst d) (snd d) Hok Hlo Hhi (Z.of_nat k) p ltac:(lia)) in Hp.
    destruct Hp as (i0 & j0 & -> & Hc). unfold cyl_cells in Hc. apply filter_In in Hc. destruct Hc as [Hr _].
    apply all_cells_spec in Hr. destruct (in_range2 _ _ _ Hr) as (i1 & j1 & E & _ & Hj). injection E as <- <-.
    change (zidx [i0; (j0 + Z.of_nat k * cg_nz g)%Z]) with (j0 + Z.of_nat k * cg_nz g)%Z. lia.
  Qed.

  Lemma pm_members_ne l : (l < 3 * length ds)%nat -> members img_pad l <> [].
  Proof. intros Hl. apply (wf_dense G3 img_pad Hwf). rewrite pm_num_labels. exact Hl. Qed.

  Lemma pm_on_axis l : (l < 3 * length ds)%nat -> on_axis (members img_pad l) = true.
  Proof. intros Hl. apply (AM am_on_axis). rewrite copies3_length. exact Hl. Qed.

  Lemma pm_not_spanning l : (l < 3 * length ds)%nat -> spans g (members img_pad l) = false.
  Proof.
    intros Hl. destruct (pm_surj l Hl) as (k & i & d & Hk & Hd & <-). unfold spans. pose proof pm_nz_pos as HN.
    apply andb_false_iff. destruct k as [|k].
    - right. apply Z.ltb_ge.
      assert (Hlt : (zmax (members img_pad (mlbl 0 i)) < cg_nz g)%Z).
      { apply zmax_below; [exact (pm_members_ne _ Hl)|]. intros p Hp.
        pose proof (pm_members_zidx 0 i d p Hk Hd Hp). lia. }
      lia.
    - left. apply Z.eqb_neq.
      assert (Hge : (cg_nz g <= zmin (members img_pad (mlbl (S k) i)))%Z).
      { apply zmin_ge; [exact (pm_members_ne _ Hl)|]. intros p Hp.
        pose proof (pm_members_zidx (S k) i d p Hk Hd Hp). nia. }
      lia.
  Qed.

  Theorem pm_cyl_single :
    cyl_single g img_pad = Found (map (fun l => Dp l) (seq 0 (3 * length ds))).
  Proof.
    unfold cyl_single. rewrite pm_num_labels.
    rewrite (filter_all_true (fun l => on_axis (members img_pad l)) (seq 0 (3 * length ds))).
    2:{ intros l Hl. apply in_seq in Hl. apply pm_on_axis. lia. }
    rewrite (existsb_all_false (fun l => spans g (members img_pad l)) (seq 0 (3 * length ds))).
    2:{ intros l Hl. apply in_seq in Hl. apply pm_not_spanning. lia. }
    reflexivity.
  Qed.

  (* ---- the window ---- *)
  Definition wtest (l : nat) : bool :=
    Qle_bool (cg_zlo g) (fst (Dp l) - cg_len g) && negb (Qle_bool (cg_zhi g) (fst (Dp l) - cg_len g)).
  Definition wback (l : nat) : Q * Q := (fst (Dp l) - cg_len g, snd (Dp l)).
  Definition kept : list nat := filter wtest (seq 0 (3 * length ds)).

  Lemma pm_window : cyl_window g (map (fun l => Dp l) (seq 0 (3 * length ds))) = map wback kept.
  Proof.
    unfold cyl_window, kept. rewrite map_map.
    exact (filter_map_comm wback
             (fun d => Qle_bool (cg_zlo g) (fst d) && negb (Qle_bool (cg_zhi g) (fst d))) _).
  Qed.

  Lemma pm_wtest k i d : (k < 3)%nat -> nth_error ds i = Some d -> wtest (mlbl k i) = Nat.eqb k 1.
  Proof.
    intros Hk Hd. unfold wtest. apply (window_test g _ k Hok Hk).
    - exact (pm_members_ne _ (pm_lt k i d Hk Hd)).
    - intros p Hp. exact (pm_members_zidx k i d p Hk Hd Hp).
  Qed.

  Lemma pm_kept_mem l : In l kept <-> exists i d, nth_error ds i = Some d /\ l = mlbl 1 i.
  Proof.
    unfold kept. rewrite filter_In, in_seq. split.
    - intros [Hl Ht]. destruct (pm_surj l ltac:(lia)) as (k & i & d & Hk & Hd & <-).
      rewrite (pm_wtest k i d Hk Hd) in Ht. apply Nat.eqb_eq in Ht. subst k. exists i, d. split; [exact Hd|reflexivity].
    - intros (i & d & Hd & ->). split.
      + pose proof (pm_lt 1 i d ltac:(lia) Hd). lia.
      + rewrite (pm_wtest 1 i d ltac:(lia) Hd). reflexivity.
  Qed.

  Lemma pm_kept_length : length kept = length ds.
  Proof.
    set (Lm := map (mlbl 1) (seq 0 (length ds))).
    assert (HL : NoDup Lm).
    { apply nodup_map_inj_on; [apply seq_NoDup|]. intros i j Hi Hj E.
      apply in_seq in Hi. apply in_seq in Hj.
      destruct (nth_error_lt_some ds i ltac:(lia)) as [di Hdi].
      destruct (nth_error_lt_some ds j ltac:(lia)) as [dj Hdj].
      exact (proj2 (pm_inj 1 1 i j di dj ltac:(lia) ltac:(lia) Hdi Hdj E)). }
    assert (H1 : incl Lm kept).
    { intros l Hl. apply in_map_iff in Hl. destruct Hl as (i & <- & Hi). apply in_seq in Hi.
      destruct (nth_error_lt_some ds i ltac:(lia)) as [d Hd]. apply pm_kept_mem. exists i, d.
      split; [exact Hd|reflexivity]. }
    assert (H2 : incl kept Lm).
    { intros l Hl. apply pm_kept_mem in Hl. destruct Hl as (i & d & Hd & ->).
      apply in_map. apply in_seq. pose proof (nth_error_some_lt ds i d Hd). lia. }
    assert (HK : NoDup kept) by (unfold kept; apply NoDup_filter; apply seq_NoDup).
    pose proof (NoDup_incl_length HL H1) as L1. pose proof (NoDup_incl_length HK H2) as L2.
    unfold Lm in L1, L2. rewrite map_length, seq_length in *. lia.
  Qed.

  Definition pidx (i : nat) : nat := index_of (mlbl 1 i) kept.

  Lemma pm_pidx_nth i d : nth_error ds i = Some d -> nth_error kept (pidx i) = Some (mlbl 1 i).
  Proof.
    intros Hd. apply index_of_nth. apply pm_kept_mem. exists i, d. split; [exact Hd|reflexivity].
  Qed.

  (* ---- the droplet of the middle copy of sphere i ---- *)
  Lemma pm_volume i d : nth_error ds i = Some d ->
    snd (Dp (mlbl 1 i)) == lsum (cyl_cells g (fst d) (snd d)) (fun p => shell g (ridx p)).
  Proof.
    intros Hd. destruct (Hin d (nth_error_In _ _ Hd)) as [Hlo Hhi]. cbn [cyl_droplet snd].
    exact (copy_volume g (fst d) (snd d) 1 _ Hok Hlo Hhi ltac:(lia) (pm_perm 1 i d ltac:(lia) Hd)).
  Qed.

  Lemma pm_position i d : nth_error ds i = Some d ->
    Qabs (fst (Dp (mlbl 1 i)) - cg_len g - fst d) <= cg_dz g / 2.
  Proof.
    intros Hd.
    pose proof (AM am_position (1 * length ds + i)%nat _ (copies3_nth g ds 1 i d ltac:(lia) Hd)) as H.
    rewrite (cyl_zax3_adisc g Hok) in H. cbn [zshift fst] in H. change (inject_Z (Z.of_nat 1)) with 1 in H.
    assert (E : fst (Dp (mlbl 1 i)) - cg_len g - fst d
                == fst (Dp (mlbl 1 i)) - (fst d + 1 * cg_len g)) by ring.
    rewrite E. exact H.
  Qed.

  Lemma pm_inbox i d : nth_error ds i = Some d ->
    cg_zlo g <= fst (Dp (mlbl 1 i)) - cg_len g /\ fst (Dp (mlbl 1 i)) - cg_len g < cg_zhi g.
  Proof.
    intros Hd.
    destruct (zpos_range g (members img_pad (mlbl 1 i)) 1 Hok
                (pm_members_ne _ (pm_lt 1 i d ltac:(lia) Hd))
                (fun p Hp => pm_members_zidx 1 i d p ltac:(lia) Hd Hp)) as [Z1 Z2].
    change (inject_Z 1) with 1 in Z1, Z2. pose proof (pd_dz_pos g Hok) as Hdz. unfold cg_len in *. split; lra.
  Qed.
End PerMulti.

(* an emulsion of on-axis spheres on a periodic cylinder (rendering never wraps in z, so every sphere lies inside
   the z-range), separated along z under the periodic metric:  rad_i + rad_j + dz <= |c_i - c_j|  and
   rad_i + rad_j + dz + |c_i - c_j| <= L  (i = j included: 2 rad_i + dz <= L):  exactly one candidate per
   sphere, volume / pi = sum of the shells of the covered cells, |z - c| <= dz / 2, z inside [z_lo, z_hi) *)
Theorem c01_cyl_multi_periodic g (ds : list (Q * Q)) img_pad img : cyl_ok g -> cg_per g = true ->
  (forall d, In d ds -> cg_zlo g <= fst d - snd d /\ fst d + snd d <= cg_zhi g) ->
  (forall d, In d ds -> cyl_cells g (fst d) (snd d) <> []) ->
  (forall i j di dj, nth_error ds i = Some di -> nth_error ds j = Some dj -> i <> j ->
     snd di + snd dj + cg_dz g <= Qabs (fst di - fst dj)) ->
  (forall di dj, In di ds -> In dj ds -> snd di + snd dj + cg_dz g + Qabs (fst di - fst dj) <= cg_len g) ->
  wf_img (cyl_axes3 g) img_pad -> LabelSpecImg img_pad ->
  (forall idx, in_rangeL [cg_nr g; (3 * cg_nz g)%Z] idx ->
     (lab_of img_pad idx <> 0%nat <-> cyl_inside_any g ds (ridx idx) (zidx idx mod cg_nz g) = true)) ->
  num_labels img_pad = (3 * length ds)%nat /\
  length (cyl_candidates g img_pad img) = length ds /\
  exists cidx : nat -> nat,
    (forall i, (i < length ds)%nat -> (cidx i < length ds)%nat) /\
    (forall i j, (i < length ds)%nat -> (j < length ds)%nat -> cidx i = cidx j -> i = j) /\
    forall i c rad, nth_error ds i = Some (c, rad) ->
      exists z v, nth_error (cyl_candidates g img_pad img) (cidx i) = Some (z, v) /\
        v == lsum (cyl_cells g c rad) (fun p => shell g (ridx p)) /\
        Qabs (z - c) <= cg_dz g / 2 /\ cg_zlo g <= z /\ z < cg_zhi g.
Proof.
  intros Hok Hper Hin Hne Hsep Hwrap Hwf Hspec Hmask.
  split; [exact (pm_num_labels g ds img_pad Hok Hin Hne Hsep Hwrap Hwf Hspec Hmask)|].
  assert (E : cyl_candidates g img_pad img = map (wback g img_pad) (kept g ds img_pad)).
  { unfold cyl_candidates. rewrite Hper, (pm_cyl_single g ds img_pad Hok Hin Hne Hsep Hwrap Hwf Hspec Hmask).
    exact (pm_window g ds img_pad). }
  pose proof (pm_kept_length g ds img_pad Hok Hin Hne Hsep Hwrap Hwf Hspec Hmask) as HlenK.
  rewrite E. split; [rewrite map_length; exact HlenK|].
  exists (pidx g ds img_pad). split; [|split].
  - intros i Hi. destruct (nth_error_lt_some ds i Hi) as [d Hd]. rewrite <- HlenK.
    exact (nth_error_some_lt _ _ _ (pm_pidx_nth g ds img_pad Hok Hin Hne Hsep Hwrap Hwf Hspec Hmask i d Hd)).
  - intros i j Hi Hj Eij. destruct (nth_error_lt_some ds i Hi) as [di Hdi].
    destruct (nth_error_lt_some ds j Hj) as [dj Hdj].
    pose proof (pm_pidx_nth g ds img_pad Hok Hin Hne Hsep Hwrap Hwf Hspec Hmask i di Hdi) as E1.
    pose proof (pm_pidx_nth g ds img_pad Hok Hin Hne Hsep Hwrap Hwf Hspec Hmask j dj Hdj) as E2.
    rewrite Eij in E1. rewrite E1 in E2. injection E2 as E2.
    exact (proj2 (pm_inj g ds img_pad Hok Hin Hne Hsep Hwrap Hwf Hspec Hmask 1 1 i j di dj
                    ltac:(lia) ltac:(lia) Hdi Hdj E2)).
  - intros i c rad Hd. set (l := mlbl g ds img_pad 1 i).
    exists (fst (wback g img_pad l)), (snd (wback g img_pad l)). split; [|split; [|split]].
    + rewrite (map_nth_error _ _ _ (pm_pidx_nth g ds img_pad Hok Hin Hne Hsep Hwrap Hwf Hspec Hmask i _ Hd)).
      fold l. destruct (wback g img_pad l). reflexivity.
    + exact (pm_volume g ds img_pad Hok Hin Hne Hsep Hwrap Hwf Hspec Hmask i (c, rad) Hd).
    + exact (pm_position g ds img_pad Hok Hin Hne Hsep Hwrap Hwf Hspec Hmask i (c, rad) Hd).
    + exact (pm_inbox g ds img_pad Hok Hin Hne Hsep Hwrap Hwf Hspec Hmask i (c, rad) Hd).
Qed.

(* end to end on the periodic cylinder: pad the rendered mask, label (Model/Label.v), locate *)
Lemma cyl_mask_pad_length g ds : length (cyl_mask_pad g ds) = length (all_cells (gshape (cyl_axes3 g))).
Proof. apply map_length. Qed.

Theorem c01_cyl_multi_periodic_label g (ds : list (Q * Q)) img :
  let shape3 := [cg_nr g; (3 * cg_nz g)%Z] in
  let img_pad := mk_limage shape3 (label shape3 (cyl_mask_pad g ds)) in
  cyl_ok g -> cg_per g = true ->
  (forall d, In d ds -> cg_zlo g <= fst d - snd d /\ fst d + snd d <= cg_zhi g) ->
  (forall d, In d ds -> cyl_cells g (fst d) (snd d) <> []) ->
  (forall i j di dj, nth_error ds i = Some di -> nth_error ds j = Some dj -> i <> j ->
     snd di + snd dj + cg_dz g <= Qabs (fst di - fst dj)) ->
  (forall di dj, In di ds -> In dj ds -> snd di + snd dj + cg_dz g + Qabs (fst di - fst dj) <= cg_len g) ->
  num_labels img_pad = (3 * length ds)%nat /\
  length (cyl_candidates g img_pad img) = length ds /\
  exists cidx : nat -> nat,
    (forall i, (i < length ds)%nat -> (cidx i < length ds)%nat) /\
    (forall i j, (i < length ds)%nat -> (j < length ds)%nat -> cidx i = cidx j -> i = j) /\
    forall i c rad, nth_error ds i = Some (c, rad) ->
      exists z v, nth_error (cyl_candidates g img_pad img) (cidx i) = Some (z, v) /\
        v == lsum (cyl_cells g c rad) (fun p => shell g (ridx p)) /\
        Qabs (z - c) <= cg_dz g / 2 /\ cg_zlo g <= z /\ z < cg_zhi g.
Proof.
  intros shape3 img_pad Hok Hper Hin Hne Hsep Hwrap.
  apply (c01_cyl_multi_periodic g ds img_pad img Hok Hper Hin Hne Hsep Hwrap
           (label_wf (cyl_axes3 g) _ (cyl_mask_pad_length g ds))
           (label_spec (gshape (cyl_axes3 g)) _ (cyl_mask_pad_length g ds))).
  intros idx Hr.
  exact (label_of_fun shape3 (fun idx0 => cyl_inside_any g ds (ridx idx0) (zidx idx0 mod cg_nz g)) idx Hr).
Qed.

(* ---- the premises are satisfiable: the grid and spheres of c01_cyl_multi_nonvacuous on a periodic cylinder,
        padded to 3 x 30 cells, six labels ---- *)
Definition exm_pgrid : cylgrid :=
  {| cg_nr := 3; cg_nz := 10; cg_R := 3; cg_zlo := 0; cg_zhi := 10; cg_per := true |}.
Definition exm_plab : list nat :=
  [0; 1; 1; 1; 0; 0; 2; 2; 2; 2;  0; 3; 3; 3; 0; 0; 4; 4; 4; 4;  0; 5; 5; 5; 0; 0; 6; 6; 6; 6;
   0; 0; 1; 0; 0; 0; 0; 2; 2; 0;  0; 0; 3; 0; 0; 0; 0; 4; 4; 0;  0; 0; 5; 0; 0; 0; 0; 6; 6; 0;
   0; 0; 0; 0; 0; 0; 0; 0; 0; 0;  0; 0; 0; 0; 0; 0; 0; 0; 0; 0;  0; 0; 0; 0; 0; 0; 0; 0; 0; 0]%nat.

Example c01_cyl_multi_periodic_nonvacuous :
  let g := exm_pgrid in let ds := exm_cds in
  let img_pad := mk_limage [cg_nr g; (3 * cg_nz g)%Z] exm_plab in
  cyl_ok g /\ cg_per g = true /\
  (forall d, In d ds -> cg_zlo g <= fst d - snd d /\ fst d + snd d <= cg_zhi g) /\
  (forall d, In d ds -> cyl_cells g (fst d) (snd d) <> []) /\
  (forall i j di dj, nth_error ds i = Some di -> nth_error ds j = Some dj -> i <> j ->
     snd di + snd dj + cg_dz g <= Qabs (fst di - fst dj)) /\
  (forall di dj, In di ds -> In dj ds -> snd di + snd dj + cg_dz g + Qabs (fst di - fst dj) <= cg_len g) /\
  wf_img (cyl_axes3 g) img_pad /\ LabelSpecImg img_pad /\
  (forall idx, in_rangeL [cg_nr g; (3 * cg_nz g)%Z] idx ->
     (lab_of img_pad idx <> 0%nat <-> cyl_inside_any g ds (ridx idx) (zidx idx mod cg_nz g) = true)) /\
  num_labels img_pad = 6%nat.
Proof.
  intros g ds img_pad.
  assert (Elab : exm_plab = label [cg_nr g; (3 * cg_nz g)%Z] (cyl_mask_pad g ds)) by (vm_compute; reflexivity).
  split; [repeat split|]. split; [reflexivity|].
  split.
  { intros d [<-|[<-|[]]]; split; apply Qle_bool_iff; vm_compute; reflexivity. }
  split.
  { intros d [<-|[<-|[]]]; vm_compute; discriminate. }
  split.
  { intros i j di dj Hi Hj Hij.
    destruct i as [|[|i]]; destruct j as [|[|j]]; cbn in Hi, Hj; try congruence;
      try (destruct i; discriminate Hi); try (destruct j; discriminate Hj);
      injection Hi as <-; injection Hj as <-; apply Qle_bool_iff; vm_compute; reflexivity. }
  split.
  { intros di dj [<-|[<-|[]]] [<-|[<-|[]]]; apply Qle_bool_iff; vm_compute; reflexivity. }
  split; [apply wf_imgb_true; vm_compute; reflexivity|].
  split.
  { unfold img_pad. rewrite Elab. exact (label_spec (gshape (cyl_axes3 g)) _ (cyl_mask_pad_length g ds)). }
  split; [|vm_compute; reflexivity].
  intros idx Hr. unfold img_pad. rewrite Elab.
  exact (label_of_fun [cg_nr g; (3 * cg_nz g)%Z]
           (fun idx0 => cyl_inside_any g ds (ridx idx0) (zidx idx0 mod cg_nz g)) idx Hr).
Qed.

Print Assumptions c01_cyl_multi.
Print Assumptions c01_cyl_multi_euclid.
Print Assumptions c01_cyl_multi_candidates.
Print Assumptions c01_cyl_multi_label.
Print Assumptions c01_cyl_multi_nonvacuous.
Print Assumptions c01_cyl_multi_periodic.
Print Assumptions c01_cyl_multi_periodic_label.
Print Assumptions c01_cyl_multi_periodic_nonvacuous.
