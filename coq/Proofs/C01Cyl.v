(* C01 on cylindrical grids (non-periodic path): locating the rendered image of an on-axis sharp sphere.
   The covered cells { (i, j) | ((i+1/2) dr)^2 + (z_j - c)^2 < R^2 } are the digitised ball of the 2-d
   non-periodic Cartesian grid  cyl_axes g = [radial axis on [0, R_out]; axial axis on [z_lo, z_hi]]
   with centre (0, c) (cyl_inside_ball).  That ball is cut by the box at r = 0 (a half-disc) and possibly at
   r = R_out, but its hub (0, floor gamma_z) lies in the box, so it is face-connected and contains the
   hub (Proofs/BallConn.ball_connected_hub), and the centroid bound along z only needs the sphere to fit
   along z (Proofs/BallCentroid.ball_centroid).
   Hypotheses of c01_cyl_single:  cyl_ok g (Model/Totality.v: positive shape and extents);  z_lo <= c - R, c + R <= z_hi;
   at least one covered cell;  wf_img / LabelSpecImg for the 2-d label image;  non-zero labels = covered
   cells.  R <= R_out is not needed.
     cyl_covered_connected, cyl_covered_on_axis : geometry of the covered set;
     c01_cyl_single     : cyl_single g img = Found [(z, v)],  v == sum of shell g i over the covered cells
                          (total volume / pi),  |z - c| <= dz / 2;
     c01_cyl_candidates : the same through cyl_candidates when the grid is not periodic. *)
From Coq Require Import QArith Qabs Qround ZArith List Arith Bool Lia Lqa Setoid Morphisms Permutation.
Import ListNotations.
From PD Require Import Model.Grid Model.Render Model.MergeLoop Model.Locate Model.LocateSym Model.RenderSym
  Model.Totality Model.Ball Proofs.Render Proofs.MergeLoop Proofs.Components Proofs.LocateCart
  Proofs.BallRow Proofs.BallCentroid Proofs.BallSep Proofs.BallConn Proofs.C01Cart.
Local Open Scope Q_scope.

Local Notation in_rangeL := LocateCart.in_range.

Definition cyl_rax (g : cylgrid) : axis := {| ncell := cg_nr g; alo := 0; ahi := cg_R g; aper := false |}.
Definition cyl_zax (g : cylgrid) : axis :=
  {| ncell := cg_nz g; alo := cg_zlo g; ahi := cg_zhi g; aper := false |}.
Definition cyl_axes (g : cylgrid) : grid := [cyl_rax g; cyl_zax g].

(* the covered cells in raster order *)
Definition cyl_cells (g : cylgrid) (c rad : Q) : list cell :=
  filter (fun idx => cyl_inside g c rad (ridx idx) (zidx idx)) (all_cells [cg_nr g; cg_nz g]).

Lemma cyl_axes_ok g : cyl_ok g -> grid_ok (cyl_axes g).
Proof.
  intros (H1 & H2 & H3 & H4). unfold grid_ok, cyl_axes.
  constructor; [split; [exact H1|exact H3]|]. constructor; [split; [exact H2|exact H4]|constructor].
Qed.

Lemma cyl_axes_nonper g : nonper (cyl_axes g).
Proof. unfold nonper, cyl_axes. repeat constructor. Qed.

Lemma Qpos_inject n : (0 < n)%Z -> ~ inject_Z n == 0.
Proof. intros H E. rewrite Zlt_Qlt in H. rewrite E in H. discriminate H. Qed.

Lemma cyl_inside_ball g c rad i j : cyl_ok g ->
  cyl_inside g c rad i j = inside (cyl_axes g) [0; c] rad [i; j].
Proof.
  intros (H1 & H2 & _ & _). unfold cyl_inside, inside. f_equal.
  apply Qlt_bool_comp; [|reflexivity].
  unfold dist2. cbn [cyl_axes cell_centre diff_vec sumsq fold_right]. unfold diff1.
  unfold cyl_rax, cyl_zax. cbn [aper]. unfold centre1, adisc, asize, cg_dr, cg_dz. cbn [alo ahi ncell].
  field. split; apply Qpos_inject; assumption.
Qed.

Lemma in_range2 (n m : Z) idx : in_rangeL [n; m] idx ->
  exists i j, idx = [i; j] /\ (0 <= i < n)%Z /\ (0 <= j < m)%Z.
Proof.
  intros H. apply in_range_cons_inv in H. destruct H as (i & t & -> & Hi & Ht).
  apply in_range_cons_inv in Ht. destruct Ht as (j & t' & -> & Hj & Ht'). inversion Ht'; subst.
  exists i, j. split; [reflexivity|]. split; assumption.
Qed.

Lemma cyl_cells_ball g c rad : cyl_ok g -> cyl_cells g c rad = ball_cells (cyl_axes g) [0; c] rad.
Proof.
  intros Hok. unfold cyl_cells, ball_cells. change (gshape (cyl_axes g)) with [cg_nr g; cg_nz g].
  apply filter_ext_in. intros idx Hin. apply all_cells_spec in Hin.
  destruct (in_range2 _ _ idx Hin) as (i & j & -> & _ & _).
  exact (cyl_inside_ball g c rad i j Hok).
Qed.

(* the hub coordinate along an axis along which the sphere fits *)
Lemma hub_axis_in_range a x r : axis_ok a -> fits1 a x r -> 0 < r ->
  (0 <= Qfloor (gam a x) < ncell a)%Z.
Proof.
  intros Ha [Hlo Hhi] Hr. pose proof (adisc_pos a Ha) as Hh. destruct Ha as [Hn Hlh].
  pose proof (ncell_adisc a Hn) as EN. unfold asize in EN.
  assert (H0 : 0 <= gam a x).
  { unfold gam. apply Qle_shift_div_l; [exact Hh|]. lra. }
  assert (H1 : gam a x < inject_Z (ncell a)).
  { unfold gam. apply Qlt_shift_div_r; [exact Hh|]. lra. }
  split.
  - change 0%Z with (Qfloor 0). apply Qfloor_resp_le. exact H0.
  - rewrite Zlt_Qlt. pose proof (Qfloor_le (gam a x)). lra.
Qed.

Lemma zmax_below (cs : list cell) n : cs <> [] -> (forall c, In c cs -> (zidx c < n)%Z) -> (zmax cs < n)%Z.
Proof.
  intros Hne H. unfold zmax.
  assert (Hd : (zidx (hd [] cs) < n)%Z).
  { destruct cs as [|c0 cs']; [congruence|]. apply H. left. reflexivity. }
  revert Hd. generalize (zidx (hd [] cs)). intros d Hd. clear Hne.
  induction cs as [|c0 cs' IH]; cbn [fold_right]; [exact Hd|].
  pose proof (H c0 (or_introl eq_refl)) as H0.
  assert (Hrest : (fold_right (fun c m => Z.max (zidx c) m) d cs' < n)%Z).
  { apply IH. intros c Hc. apply H. right. exact Hc. }
  lia.
Qed.

Section CylSingle.
  Variable g : cylgrid.
  Variable c rad : Q.
  Variable img : limage.
  Hypothesis Hok : cyl_ok g.
  Hypothesis Hzlo : cg_zlo g <= c - rad.
  Hypothesis Hzhi : c + rad <= cg_zhi g.
  Hypothesis Hne : cyl_cells g c rad <> [].
  Hypothesis Hwf : wf_img (cyl_axes g) img.
  Hypothesis Hspec : LabelSpecImg img.
  Hypothesis Hmask : forall idx, in_rangeL [cg_nr g; cg_nz g] idx ->
    (lab_of img idx <> 0%nat <-> cyl_inside g c rad (ridx idx) (zidx idx) = true).

  Local Notation G2 := (cyl_axes g).
  Local Notation cc := [0; c].
  Local Notation B := (ball_cells (cyl_axes g) [0; c] rad).

  Lemma cs_ball_ne : B <> [].
  Proof. rewrite <- (cyl_cells_ball g c rad Hok). exact Hne. Qed.

  Lemma cs_mask_is_ball : mask_is_ball G2 cc rad img.
  Proof.
    intros idx Hr. change (gshape G2) with [cg_nr g; cg_nz g] in Hr. rewrite (Hmask idx Hr).
    destruct (in_range2 _ _ idx Hr) as (i & j & -> & _ & _).
    change (ridx [i; j]) with i. change (zidx [i; j]) with j.
    rewrite (cyl_inside_ball g c rad i j Hok). reflexivity.
  Qed.

  Lemma cs_rad_pos : 0 < rad.
  Proof.
    pose proof cs_ball_ne as Hb. destruct B as [|p ps] eqn:E; [congruence|].
    assert (Hp : In p B) by (rewrite E; left; reflexivity).
    apply ball_cells_spec in Hp. destruct Hp as [_ Hi]. apply inside_iff in Hi. destruct Hi as [Hr Hd].
    destruct (Qlt_le_dec 0 rad) as [H|H]; [exact H|exfalso].
    pose proof (sumsq_nonneg (diff_vec G2 cc (cell_centre G2 p))) as Hs. unfold dist2 in Hd.
    assert (E0 : rad == 0) by lra. rewrite E0 in Hd. lra.
  Qed.

  Lemma cs_zfits : fits1 (cyl_zax g) c rad.
  Proof. split; [exact Hzlo|exact Hzhi]. Qed.

  Lemma cs_gam_r : gam (cyl_rax g) 0 == 0.
  Proof.
    pose proof (adisc_pos (cyl_rax g)) as Hh. destruct Hok as (H1 & _ & H3 & _).
    specialize (Hh (conj H1 H3)). unfold gam. cbn [cyl_rax alo]. field.
    intros E. rewrite E in Hh. discriminate Hh.
  Qed.

  Lemma cs_hub : centre_cell G2 cc = [0%Z; Qfloor (gam (cyl_zax g) c)].
  Proof.
    cbn [cyl_axes centre_cell]. f_equal; try (rewrite (Qfloor_comp _ _ cs_gam_r); reflexivity).
  Qed.

  Lemma cs_hub_range : in_rangeL (gshape G2) (centre_cell G2 cc).
  Proof.
    rewrite cs_hub. change (gshape G2) with [cg_nr g; cg_nz g].
    destruct Hok as (H1 & H2 & H3 & H4).
    apply in_range_cons; [lia|]. apply in_range_cons; [|constructor].
    exact (hub_axis_in_range (cyl_zax g) c rad (conj H2 H4) cs_zfits cs_rad_pos).
  Qed.

  (* ---- geometry of the covered set ---- *)
  Theorem cyl_covered_connected p q : In p (cyl_cells g c rad) -> In q (cyl_cells g c rad) ->
    conn0 cell (cyl_cells g c rad) face_adj p q.
  Proof.
    rewrite (cyl_cells_ball g c rad Hok). intros Hp Hq.
    destruct (ball_connected_hub G2 cc rad (cyl_axes_ok g Hok) (cyl_axes_nonper g) eq_refl cs_hub_range)
      as [Hhub _].
    unfold conn0 in *. eapply cr_trans; [apply Hhub; exact Hp|]. apply cr_sym. apply Hhub. exact Hq.
  Qed.

  Theorem cyl_covered_on_axis : exists p, In p (cyl_cells g c rad) /\ ridx p = 0%Z.
  Proof.
    destruct (ball_connected_hub G2 cc rad (cyl_axes_ok g Hok) (cyl_axes_nonper g) eq_refl cs_hub_range)
      as [_ Hin].
    exists (centre_cell G2 cc). split.
    - rewrite (cyl_cells_ball g c rad Hok). apply Hin. exact cs_ball_ne.
    - rewrite cs_hub. reflexivity.
  Qed.

  (* ---- one label ---- *)
  Lemma cs_mask_cells p : In p (mask_cells img) <-> In p B.
  Proof. exact (per_mask_cells G2 cc rad img Hwf cs_mask_is_ball p). Qed.

  Lemma cs_box_conn p q : In p (mask_cells img) -> In q (mask_cells img) -> box_conn img p q.
  Proof.
    intros Hp Hq. pose proof (cyl_covered_connected p q) as H.
    rewrite (cyl_cells_ball g c rad Hok) in H.
    specialize (H (proj1 (cs_mask_cells p) Hp) (proj1 (cs_mask_cells q) Hq)).
    unfold box_conn, conn0 in *. revert H. apply clos_mono. intros u v (Hu & Hv & Hf).
    split; [apply cs_mask_cells; exact Hu|]. split; [apply cs_mask_cells; exact Hv|exact Hf].
  Qed.

  Lemma cs_label p q : In p (mask_cells img) -> In q (mask_cells img) -> lab_of img p = lab_of img q.
  Proof. intros Hp Hq. apply (Hspec p q Hp Hq). exact (cs_box_conn p q Hp Hq). Qed.

  Lemma cs_num_labels : num_labels img = 1%nat.
  Proof.
    pose proof cs_ball_ne as Hb. destruct B as [|p0 ps] eqn:E; [congruence|].
    assert (Hp0 : In p0 (mask_cells img)) by (apply cs_mask_cells; rewrite E; left; reflexivity).
    pose proof (lab_of_le img p0) as Hle. pose proof (proj1 (mask_cells_spec img p0) Hp0) as [_ Hnz].
    destruct (le_lt_dec (num_labels img) 1) as [H1|H2]; [lia|exfalso].
    destruct (label_has_cell G2 img 0 Hwf) as (c0 & Hc0 & Hl0); [lia|].
    destruct (label_has_cell G2 img 1 Hwf) as (c1 & Hc1 & Hl1); [lia|].
    pose proof (cs_label c0 c1 Hc0 Hc1). lia.
  Qed.

  Lemma cs_members p : In p (members img 0) <-> In p B.
  Proof.
    rewrite (members_mask G2 img 0 p Hwf), <- cs_mask_cells. split; [tauto|].
    intros Hp. split; [exact Hp|].
    pose proof (lab_of_le img p) as Hle. rewrite cs_num_labels in Hle.
    apply mask_cells_spec in Hp. lia.
  Qed.

  Lemma cs_members_range p : In p (members img 0) ->
    exists i j, p = [i; j] /\ (0 <= i < cg_nr g)%Z /\ (0 <= j < cg_nz g)%Z.
  Proof.
    intros Hp. apply cs_members in Hp. apply ball_cells_spec in Hp. destruct Hp as [Hr _].
    exact (in_range2 _ _ p Hr).
  Qed.

  Lemma cs_on_axis : on_axis (members img 0) = true.
  Proof.
    unfold on_axis. apply existsb_exists. destruct cyl_covered_on_axis as (p & Hp & Hr).
    exists p. split; [|rewrite Hr; reflexivity].
    apply cs_members. rewrite <- (cyl_cells_ball g c rad Hok). exact Hp.
  Qed.

  Lemma cs_not_spanning : spans g (members img 0) = false.
  Proof.
    unfold spans. apply andb_false_iff. right. apply Z.ltb_ge.
    assert (Hlt : (zmax (members img 0) < cg_nz g)%Z).
    { apply zmax_below.
      - destruct cyl_covered_on_axis as (p & Hp & _). intros E.
        rewrite (cyl_cells_ball g c rad Hok) in Hp. apply cs_members in Hp. rewrite E in Hp. destruct Hp.
      - intros p Hp. destruct (cs_members_range p Hp) as (i & j & -> & _ & Hj).
        change (zidx [i; j]) with j. lia. }
    lia.
  Qed.

  Theorem cs_cyl_single : cyl_single g img = Found [cyl_droplet g (members img 0)].
  Proof.
    unfold cyl_single. rewrite cs_num_labels. cbn [seq filter]. rewrite cs_on_axis.
    cbn [existsb map]. rewrite cs_not_spanning. reflexivity.
  Qed.

  Theorem cs_volume :
    snd (cyl_droplet g (members img 0)) == lsum (cyl_cells g c rad) (fun p => shell g (ridx p)).
  Proof.
    cbn [cyl_droplet snd]. rewrite csum_lsum, (cyl_cells_ball g c rad Hok).
    apply lsum_perm. exact (cluster_perm G2 cc rad img 0 Hwf cs_members).
  Qed.

  Theorem cs_position : Qabs (fst (cyl_droplet g (members img 0)) - c) <= cg_dz g / 2.
  Proof.
    exact (cluster_position G2 cc rad img 0 1 (cyl_zax g) c (cyl_axes_ok g Hok) (cyl_axes_nonper g) Hwf
             cs_members cs_ball_ne eq_refl eq_refl cs_zfits).
  Qed.
End CylSingle.

(* one on-axis sphere: exactly one droplet, volume / pi = sum of the shells of the covered cells,
   axial position within half an axial spacing of the true centre *)
Theorem c01_cyl_single g c rad img :
  cyl_ok g -> cg_zlo g <= c - rad -> c + rad <= cg_zhi g -> cyl_cells g c rad <> [] ->
  wf_img (cyl_axes g) img -> LabelSpecImg img ->
  (forall idx, in_rangeL [cg_nr g; cg_nz g] idx ->
     (lab_of img idx <> 0%nat <-> cyl_inside g c rad (ridx idx) (zidx idx) = true)) ->
  exists z v, cyl_single g img = Found [(z, v)] /\
    v == lsum (cyl_cells g c rad) (fun p => shell g (ridx p)) /\
    Qabs (z - c) <= cg_dz g / 2.
Proof.
  intros Hok Hzlo Hzhi Hne Hwf Hspec Hmask.
  exists (fst (cyl_droplet g (members img 0))), (snd (cyl_droplet g (members img 0))).
  split; [|split].
  - rewrite (cs_cyl_single g c rad img Hok Hzlo Hzhi Hne Hwf Hspec Hmask).
    destruct (cyl_droplet g (members img 0)). reflexivity.
  - exact (cs_volume g c rad img Hok Hzlo Hzhi Hne Hwf Hspec Hmask).
  - exact (cs_position g c rad img Hok Hzlo Hzhi Hne Hwf Hspec Hmask).
Qed.

(* the same through the dispatcher when the grid is not periodic (the padded label image is not used) *)
Theorem c01_cyl_candidates g c rad img_pad img : cg_per g = false ->
  cyl_ok g -> cg_zlo g <= c - rad -> c + rad <= cg_zhi g -> cyl_cells g c rad <> [] ->
  wf_img (cyl_axes g) img -> LabelSpecImg img ->
  (forall idx, in_rangeL [cg_nr g; cg_nz g] idx ->
     (lab_of img idx <> 0%nat <-> cyl_inside g c rad (ridx idx) (zidx idx) = true)) ->
  exists z v, cyl_candidates g img_pad img = [(z, v)] /\
    v == lsum (cyl_cells g c rad) (fun p => shell g (ridx p)) /\
    Qabs (z - c) <= cg_dz g / 2.
Proof.
  intros Hper Hok Hzlo Hzhi Hne Hwf Hspec Hmask.
  destruct (c01_cyl_single g c rad img Hok Hzlo Hzhi Hne Hwf Hspec Hmask) as (z & v & Hs & Hv & Hz).
  exists z, v. split; [|split; assumption].
  unfold cyl_candidates. rewrite Hper, Hs. reflexivity.
Qed.

(* ---- the premises are satisfiable: 3 x 6 cells, R_out = 3, z in [0, 6], sphere at z = 14/5 with
        radius 8/5: four covered cells ---- *)
Definition exc_grid : cylgrid :=
  {| cg_nr := 3; cg_nz := 6; cg_R := 3; cg_zlo := 0; cg_zhi := 6; cg_per := false |}.
Definition exc_lab : list nat :=
  [0; 1; 1; 1; 0; 0;   0; 0; 1; 0; 0; 0;   0; 0; 0; 0; 0; 0]%nat.

Example c01_cyl_nonvacuous :
  let g := exc_grid in let c := 14 # 5 in let rad := 8 # 5 in
  let img := mk_limage [cg_nr g; cg_nz g] exc_lab in
  cg_per g = false /\ cyl_ok g /\ cg_zlo g <= c - rad /\ c + rad <= cg_zhi g /\
  cyl_cells g c rad = [[0; 1]; [0; 2]; [0; 3]; [1; 2]]%Z /\
  wf_img (cyl_axes g) img /\ LabelSpecImg img /\
  (forall idx, in_rangeL [cg_nr g; cg_nz g] idx ->
     (lab_of img idx <> 0%nat <-> cyl_inside g c rad (ridx idx) (zidx idx) = true)).
Proof.
  intros g c rad img.
  assert (Hok : cyl_ok g) by (repeat split).
  assert (Hcells : cyl_cells g c rad = [[0; 1]; [0; 2]; [0; 3]; [1; 2]]%Z) by (vm_compute; reflexivity).
  assert (Hwf : wf_img (cyl_axes g) img) by (apply wf_imgb_true; vm_compute; reflexivity).
  assert (Hmask : forall idx, in_rangeL [cg_nr g; cg_nz g] idx ->
            (lab_of img idx <> 0%nat <-> cyl_inside g c rad (ridx idx) (zidx idx) = true)).
  { intros idx Hr. mask_enum Hr. }
  assert (Hzlo : cg_zlo g <= c - rad) by (apply Qle_bool_iff; vm_compute; reflexivity).
  assert (Hzhi : c + rad <= cg_zhi g) by (apply Qle_bool_iff; vm_compute; reflexivity).
  assert (Hne : cyl_cells g c rad <> []) by (rewrite Hcells; discriminate).
  split; [reflexivity|]. split; [exact Hok|]. split; [exact Hzlo|]. split; [exact Hzhi|].
  split; [exact Hcells|]. split; [exact Hwf|]. split; [|exact Hmask].
  assert (Hm : mask_cells img = [[0; 1]; [0; 2]; [0; 3]; [1; 2]]%Z) by (vm_compute; reflexivity).
  intros a b Ha Hb. split.
  - intros _. pose proof (cyl_covered_connected g c rad Hok Hzlo Hzhi Hne a b) as H.
    rewrite Hcells in H. rewrite Hm in Ha, Hb. specialize (H Ha Hb).
    unfold box_conn. rewrite Hm. exact H.
  - intros _. rewrite Hm in Ha, Hb. cbn [In] in Ha, Hb.
    repeat (destruct Ha as [<-|Ha]); try (destruct Ha);
      repeat (destruct Hb as [<-|Hb]); try (destruct Hb); vm_compute; reflexivity.
Qed.

Print Assumptions cyl_covered_connected.
Print Assumptions cyl_covered_on_axis.
Print Assumptions c01_cyl_single.
Print Assumptions c01_cyl_candidates.
Print Assumptions c01_cyl_nonvacuous.
