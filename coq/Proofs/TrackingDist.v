(* The "distance" method, part 1: the matrix (flat cell list), np.argmin, killing a row and a column,
   the greedy loop; termination and the index-level specification of what the loop selects. *)
From Coq Require Import List Bool Arith Lia QArith Permutation.
Import ListNotations.
From PD Require Import Model.Tracking Proofs.Tracking.

Local Open Scope nat_scope.

Definition ci (c : cell) : nat := fst (fst c).
Definition cj (c : cell) : nat := snd (fst c).
Definition cval (c : cell) : option Q := snd c.

Lemma cell_eta (c : cell) : c = (ci c, cj c, cval c).
Proof. destruct c as [[i j] x]. reflexivity. Qed.

(* ------------------------------------------------------------------------------------------ *)
(* order on entries: inf (None) is largest                                                     *)
(* ------------------------------------------------------------------------------------------ *)
Definition ole (a b : option Q) : Prop :=
  match a, b with
  | Some x, Some y => (x <= y)%Q
  | _, None => True
  | None, Some _ => False
  end.

Lemma Qlt_b_true x y : Qlt_b x y = true <-> (x < y)%Q.
Proof.
  unfold Qlt_b. rewrite negb_true_iff. split.
  - intros H. apply Qnot_le_lt. intros Hle. apply Qle_bool_iff in Hle. congruence.
  - intros H. destruct (Qle_bool y x) eqn:E; [|reflexivity].
    apply Qle_bool_iff in E. exfalso. eapply Qlt_not_le; eauto.
Qed.

Lemma Qlt_b_false x y : Qlt_b x y = false <-> (y <= x)%Q.
Proof.
  unfold Qlt_b. rewrite negb_false_iff. apply Qle_bool_iff.
Qed.

Lemma oq_lt_false a b : oq_lt a b = false <-> ole b a.
Proof.
  destruct a as [x|], b as [y|]; simpl; try tauto.
  - apply Qlt_b_false.
  - split; [discriminate|tauto].
Qed.

Lemma oq_lt_true_le a b : oq_lt a b = true -> ole a b.
Proof.
  destruct a as [x|], b as [y|]; simpl; try tauto; try discriminate.
  intros H. apply Qlt_b_true in H. apply Qlt_le_weak. exact H.
Qed.

Lemma ole_refl a : ole a a.
Proof. destruct a; simpl; [apply Qle_refl|exact I]. Qed.

Lemma ole_trans a b c : ole a b -> ole b c -> ole a c.
Proof.
  destruct a, b, c; simpl; try tauto. apply Qle_trans.
Qed.

(* ------------------------------------------------------------------------------------------ *)
(* np.argmin                                                                                   *)
(* ------------------------------------------------------------------------------------------ *)
Lemma argmin_from_spec l : forall best,
  In (argmin_from best l) (best :: l) /\
  forall x, In x (best :: l) -> ole (cval (argmin_from best l)) (cval x).
Proof.
  induction l as [|y l IH]; intros best; simpl.
  - split; [auto|]. intros x [<-|[]]. apply ole_refl.
  - destruct (IH (if oq_lt (snd y) (snd best) then y else best)) as [Hin Hmin].
    set (b' := if oq_lt (snd y) (snd best) then y else best) in *.
    assert (Hb : (b' = y \/ b' = best) /\ ole (cval b') (cval best) /\ ole (cval b') (cval y)).
    { unfold b'. destruct (oq_lt (snd y) (snd best)) eqn:E.
      - split; [auto|]. split; [apply oq_lt_true_le; exact E|apply ole_refl].
      - split; [auto|]. split; [apply ole_refl|apply oq_lt_false; exact E]. }
    destruct Hb as (Hb1 & Hb2 & Hb3). split.
    + destruct Hin as [Hin|Hin]; [|auto]. rewrite <- Hin. destruct Hb1 as [->| ->]; auto.
    + intros x [<-|[<-|Hx]].
      * eapply ole_trans; [apply Hmin; left; reflexivity|exact Hb2].
      * eapply ole_trans; [apply Hmin; left; reflexivity|exact Hb3].
      * apply Hmin. right. exact Hx.
Qed.

Lemma argmin_cells_spec l c :
  argmin_cells l = Ok c -> In c l /\ forall x, In x l -> ole (cval c) (cval x).
Proof.
  destruct l as [|x l]; simpl; [discriminate|]. intros H. inversion H; subst.
  apply argmin_from_spec.
Qed.

Lemma argmin_cells_total l : l <> [] -> exists c, argmin_cells l = Ok c.
Proof. destruct l; [congruence|]. simpl. eauto. Qed.

(* ------------------------------------------------------------------------------------------ *)
(* cells of a matrix                                                                           *)
(* ------------------------------------------------------------------------------------------ *)
Lemma in_row_cells i row : forall j0 c,
  In c (row_cells i j0 row) <-> ci c = i /\ j0 <= cj c /\ nth_error row (cj c - j0) = Some (cval c).
Proof.
  induction row as [|x row IH]; intros j0 c; simpl.
  - split; [tauto|]. intros (_ & _ & H). destruct (cj c - j0); discriminate.
  - rewrite IH. split.
    + intros [<-|(Hi & Hj & Hn)].
      * unfold ci, cj, cval. simpl. rewrite Nat.sub_diag. auto.
      * split; [exact Hi|]. split; [lia|]. replace (cj c - j0) with (S (cj c - S j0)) by lia. exact Hn.
    + intros (Hi & Hj & Hn). destruct (Nat.eq_dec (cj c) j0) as [E|Hne].
      * left. rewrite E, Nat.sub_diag in Hn. simpl in Hn. inversion Hn.
        destruct c as [[i' j'] x']. unfold ci, cj, cval in *. simpl in *. congruence.
      * right. split; [exact Hi|]. split; [lia|].
        replace (cj c - j0) with (S (cj c - S j0)) in Hn by lia. exact Hn.
Qed.

Lemma in_flat_from M : forall i0 c,
  In c (flat_from i0 M) <->
  i0 <= ci c /\ exists row, nth_error M (ci c - i0) = Some row /\ nth_error row (cj c) = Some (cval c).
Proof.
  induction M as [|row M IH]; intros i0 c; simpl.
  - split; [tauto|]. intros (_ & row & H & _). destruct (ci c - i0); discriminate.
  - rewrite in_app_iff, in_row_cells, IH. split.
    + intros [(Hi & _ & Hn)|(Hi & row' & Hr & Hn)].
      * split; [lia|]. exists row. rewrite Hi, Nat.sub_diag. rewrite Nat.sub_0_r in Hn. auto.
      * split; [lia|]. exists row'. replace (ci c - i0) with (S (ci c - S i0)) by lia. auto.
    + intros (Hi & row' & Hr & Hn). destruct (Nat.eq_dec (ci c) i0) as [E|Hne].
      * left. rewrite E, Nat.sub_diag in Hr. simpl in Hr. inversion Hr; subst row'.
        rewrite Nat.sub_0_r. split; [exact E|]. split; [lia|exact Hn].
      * right. split; [lia|]. exists row'.
        replace (ci c - i0) with (S (ci c - S i0)) in Hr by lia. auto.
Qed.

Lemma in_flat M c :
  In c (flat M) <-> exists row, nth_error M (ci c) = Some row /\ nth_error row (cj c) = Some (cval c).
Proof.
  unfold flat. rewrite in_flat_from. rewrite Nat.sub_0_r. split.
  - intros (_ & H). exact H.
  - intros H. split; [lia|exact H].
Qed.

(* killing a row and a column, seen on the cell list *)
Definition none_cell (c : cell) : cell := (ci c, cj c, None).
Definition killc (i j : nat) (c : cell) : cell :=
  if (ci c =? i) || (cj c =? j) then none_cell c else c.

Lemma row_cells_none i row : forall j0,
  row_cells i j0 (map (fun _ => None) row) = map none_cell (row_cells i j0 row).
Proof. induction row as [|x row IH]; intros j0; simpl; [reflexivity|]. rewrite IH. reflexivity. Qed.

Lemma row_cells_kill_col i row : forall j j0,
  row_cells i j0 (kill_col j row) =
  map (fun c => if cj c =? j0 + j then none_cell c else c) (row_cells i j0 row).
Proof.
  induction row as [|x row IH]; intros j j0; simpl; [destruct j; reflexivity|].
  destruct j as [|j]; simpl.
  - unfold cj at 1. simpl. rewrite Nat.add_0_r, Nat.eqb_refl. f_equal.
    rewrite <- (map_id (row_cells i (S j0) row)) at 1. apply map_ext_in.
    intros c Hc. apply in_row_cells in Hc. destruct Hc as (_ & Hj & _).
    destruct (cj c =? j0) eqn:E; [apply Nat.eqb_eq in E; lia|reflexivity].
  - unfold cj at 1. simpl. destruct (j0 =? j0 + S j) eqn:E; [apply Nat.eqb_eq in E; lia|].
    f_equal. rewrite IH. apply map_ext. intros c. replace (S j0 + j) with (j0 + S j) by lia. reflexivity.
Qed.

Lemma flat_from_kill_cols j M : forall i0,
  flat_from i0 (map (kill_col j) M) =
  map (fun c => if cj c =? j then none_cell c else c) (flat_from i0 M).
Proof.
  induction M as [|row M IH]; intros i0; simpl; [reflexivity|].
  rewrite map_app, IH, row_cells_kill_col. reflexivity.
Qed.

Lemma flat_from_kill M : forall i j i0,
  flat_from i0 (kill i j M) = map (killc (i0 + i) j) (flat_from i0 M).
Proof.
  induction M as [|row M IH]; intros i j i0; simpl; [destruct i; reflexivity|].
  destruct i as [|i]; simpl; rewrite map_app.
  - rewrite row_cells_none, flat_from_kill_cols. f_equal.
    + apply map_ext_in. intros c Hc. apply in_row_cells in Hc. destruct Hc as (Hi & _).
      unfold killc. rewrite Hi, Nat.add_0_r, Nat.eqb_refl. reflexivity.
    + apply map_ext_in. intros c Hc. apply in_flat_from in Hc. destruct Hc as (Hi & _).
      unfold killc. destruct (ci c =? i0 + 0) eqn:E; [apply Nat.eqb_eq in E; lia|]. reflexivity.
  - rewrite row_cells_kill_col, IH. f_equal.
    + apply map_ext_in. intros c Hc. apply in_row_cells in Hc. destruct Hc as (Hi & _).
      unfold killc. destruct (ci c =? i0 + S i) eqn:E; [apply Nat.eqb_eq in E; lia|]. reflexivity.
    + replace (S i0 + i) with (i0 + S i) by lia. reflexivity.
Qed.

Lemma flat_kill i j M : flat (kill i j M) = map (killc i j) (flat M).
Proof. unfold flat. rewrite flat_from_kill. reflexivity. Qed.

(* ------------------------------------------------------------------------------------------ *)
(* the loop on cell lists                                                                      *)
(* ------------------------------------------------------------------------------------------ *)
Fixpoint greedyL (fuel : nat) (L : list cell) : res (list (nat * nat)) :=
  match fuel with
  | O => Err EFuel
  | S fuel' =>
      match argmin_cells L with
      | Err e => Err e
      | Ok (_, _, None) => Ok []
      | Ok (i, j, Some _) =>
          match greedyL fuel' (map (killc i j) L) with
          | Ok l => Ok ((i, j) :: l)
          | Err e => Err e
          end
      end
  end.

Definition greedy (fuel : nat) (M : matrix) : res (list (nat * nat)) := greedyL fuel (flat M).

Definition is_fin (c : cell) : bool := match snd c with Some _ => true | None => false end.
Definition count_fin (L : list cell) : nat := length (filter is_fin L).

Lemma count_finite_flat M : count_finite M = count_fin (flat M).
Proof. reflexivity. Qed.

Lemma count_map_le (f : cell -> cell) L :
  (forall c, is_fin (f c) = true -> is_fin c = true) -> count_fin (map f L) <= count_fin L.
Proof.
  intros Hf. unfold count_fin. induction L as [|c L IH]; simpl; [lia|].
  destruct (is_fin (f c)) eqn:E.
  - rewrite (Hf c E). simpl. lia.
  - destruct (is_fin c); simpl; lia.
Qed.

Lemma count_map_lt (f : cell -> cell) L c0 :
  (forall c, is_fin (f c) = true -> is_fin c = true) ->
  In c0 L -> is_fin c0 = true -> is_fin (f c0) = false -> count_fin (map f L) < count_fin L.
Proof.
  intros Hf Hin H1 H2. induction L as [|c L IH]; [destruct Hin|].
  assert (Hle := count_map_le f L Hf). unfold count_fin in *. simpl.
  destruct Hin as [->|Hin].
  - rewrite H1, H2. simpl. lia.
  - specialize (IH Hin). destruct (is_fin (f c)) eqn:E.
    + rewrite (Hf c E). simpl. lia.
    + destruct (is_fin c); simpl; lia.
Qed.

Lemma killc_fin i j c : is_fin (killc i j c) = true -> is_fin c = true.
Proof. unfold killc. destruct ((ci c =? i) || (cj c =? j)); [discriminate|tauto]. Qed.

Lemma greedyL_total fuel : forall L, L <> [] -> count_fin L < fuel -> exists l, greedyL fuel L = Ok l.
Proof.
  induction fuel as [|fuel IH]; intros L Hne Hc; [lia|]. simpl.
  destruct (argmin_cells_total L Hne) as [c Hc0]. rewrite Hc0.
  destruct c as [[i j] [q|]]; [|eauto].
  destruct (IH (map (killc i j) L)) as [l ->]; [| |eauto].
  - destruct L; [congruence|discriminate].
  - apply argmin_cells_spec in Hc0. destruct Hc0 as [Hin _].
    assert (count_fin (map (killc i j) L) < count_fin L); [|lia].
    apply (count_map_lt _ _ (i, j, Some q)); [apply killc_fin|exact Hin|reflexivity|].
    unfold killc, ci. simpl. rewrite Nat.eqb_refl. reflexivity.
Qed.

(* ---- what the loop selects: index-level specification ---- *)
Definition mem_nat_b (x : nat) (l : list nat) : bool := existsb (Nat.eqb x) l.

Lemma mem_nat_b_in x l : mem_nat_b x l = true <-> In x l.
Proof.
  unfold mem_nat_b. rewrite existsb_exists. split.
  - intros (y & Hy & E). apply Nat.eqb_eq in E. subst. exact Hy.
  - intros H. exists x. split; [exact H|apply Nat.eqb_refl].
Qed.

Definition mask (Rk Ck : list nat) (c : cell) : cell :=
  if mem_nat_b (ci c) Rk || mem_nat_b (cj c) Ck then none_cell c else c.

Lemma mask_nil c : mask [] [] c = c.
Proof. reflexivity. Qed.

Lemma none_cell_idem c : none_cell (none_cell c) = none_cell c.
Proof. reflexivity. Qed.

Lemma killc_mask i j Rk Ck c : killc i j (mask Rk Ck c) = mask (i :: Rk) (j :: Ck) c.
Proof.
  unfold mask, killc, mem_nat_b. cbn [existsb].
  fold (mem_nat_b (ci c) Rk). fold (mem_nat_b (cj c) Ck).
  destruct (mem_nat_b (ci c) Rk) eqn:E1, (mem_nat_b (cj c) Ck) eqn:E2; cbn [orb];
    change (ci (none_cell c)) with (ci c); change (cj (none_cell c)) with (cj c);
    rewrite ?none_cell_idem;
    destruct (ci c =? i), (cj c =? j); cbn [orb]; rewrite ?orb_true_r; reflexivity.
Qed.

Lemma mask_val_some Rk Ck c q :
  cval (mask Rk Ck c) = Some q -> mask Rk Ck c = c /\ ~ In (ci c) Rk /\ ~ In (cj c) Ck.
Proof.
  unfold mask. destruct (mem_nat_b (ci c) Rk || mem_nat_b (cj c) Ck) eqn:E; [discriminate|].
  apply orb_false_iff in E. destruct E as [E1 E2]. intros _. split; [reflexivity|].
  split; intros H; apply mem_nat_b_in in H; congruence.
Qed.

Lemma mask_unmasked Rk Ck c : ~ In (ci c) Rk -> ~ In (cj c) Ck -> mask Rk Ck c = c.
Proof.
  intros H1 H2. unfold mask.
  destruct (mem_nat_b (ci c) Rk) eqn:E1; [apply mem_nat_b_in in E1; tauto|].
  destruct (mem_nat_b (cj c) Ck) eqn:E2; [apply mem_nat_b_in in E2; tauto|]. reflexivity.
Qed.

(* "repeatedly take a smallest finite entry whose row and column are still unused" *)
Inductive gsel (L0 : list cell) : list nat -> list nat -> list (nat * nat) -> Prop :=
| gs_stop Rk Ck :
    (forall i j q, In (i, j, Some q) L0 -> In i Rk \/ In j Ck) -> gsel L0 Rk Ck []
| gs_step Rk Ck i j q l :
    In (i, j, Some q) L0 -> ~ In i Rk -> ~ In j Ck ->
    (forall i' j' q', In (i', j', Some q') L0 -> ~ In i' Rk -> ~ In j' Ck -> (q <= q')%Q) ->
    gsel L0 (i :: Rk) (j :: Ck) l -> gsel L0 Rk Ck ((i, j) :: l).

Lemma greedyL_gsel L0 fuel : forall Rk Ck l,
  greedyL fuel (map (mask Rk Ck) L0) = Ok l -> gsel L0 Rk Ck l.
Proof.
  induction fuel as [|fuel IH]; intros Rk Ck l H; simpl in H; [discriminate|].
  destruct (argmin_cells (map (mask Rk Ck) L0)) as [c|e] eqn:A; [|discriminate].
  apply argmin_cells_spec in A. destruct A as [Hin Hmin].
  destruct c as [[i j] [q|]].
  - destruct (greedyL fuel (map (killc i j) (map (mask Rk Ck) L0))) as [l'|e] eqn:G; [|discriminate].
    inversion H; subst l. clear H.
    apply in_map_iff in Hin. destruct Hin as (c0 & Hc0 & Hin0).
    assert (Hv : cval (mask Rk Ck c0) = Some q) by (rewrite Hc0; reflexivity).
    apply mask_val_some in Hv. destruct Hv as (Hm & HR & HC).
    rewrite Hm in Hc0. subst c0. unfold ci, cj in HR, HC. simpl in HR, HC.
    apply gs_step with (q := q); auto.
    + intros i' j' q' Hin' HR' HC'.
      assert (Hx : In (i', j', Some q') (map (mask Rk Ck) L0)).
      { apply in_map_iff. exists (i', j', Some q'). split; [|exact Hin'].
        apply mask_unmasked; assumption. }
      specialize (Hmin _ Hx). exact Hmin.
    + apply IH. rewrite <- G. rewrite map_map. f_equal. apply map_ext. intros c.
      symmetry. apply killc_mask.
  - inversion H; subst l. apply gs_stop. intros i' j' q' Hin'.
    destruct (in_dec Nat.eq_dec i' Rk) as [|HR]; [auto|].
    destruct (in_dec Nat.eq_dec j' Ck) as [|HC]; [auto|]. exfalso.
    assert (Hx : In (i', j', Some q') (map (mask Rk Ck) L0)).
    { apply in_map_iff. exists (i', j', Some q'). split; [|exact Hin'].
      apply mask_unmasked; assumption. }
    specialize (Hmin _ Hx). exact Hmin.
Qed.

Lemma map_mask_nil L0 : map (mask [] []) L0 = L0.
Proof. rewrite <- (map_id L0) at 2. apply map_ext. intros c. apply mask_nil. Qed.

Lemma greedy_gsel fuel M l : greedy fuel M = Ok l -> gsel (flat M) [] [] l.
Proof.
  unfold greedy. intros H. apply (greedyL_gsel (flat M) fuel). rewrite map_mask_nil. exact H.
Qed.

Lemma greedy_total M : flat M <> [] -> exists l, greedy (S (count_finite M)) M = Ok l.
Proof.
  intros H. apply greedyL_total; [exact H|]. rewrite count_finite_flat. lia.
Qed.

(* consequences of gsel *)
Lemma gsel_in L0 Rk Ck l :
  gsel L0 Rk Ck l -> forall i j, In (i, j) l -> exists q, In (i, j, Some q) L0.
Proof.
  induction 1 as [|Rk Ck i j q l Hin HR HC Hmin Hg IH]; intros i' j' H'; [destruct H'|].
  destruct H' as [E|H']; [inversion E; subst; eauto|eauto].
Qed.

Lemma gsel_rows L0 Rk Ck l :
  gsel L0 Rk Ck l -> NoDup (map fst l) /\ (forall i, In i (map fst l) -> ~ In i Rk).
Proof.
  induction 1 as [|Rk Ck i j q l Hin HR HC Hmin Hg [IH1 IH2]]; simpl.
  - split; [constructor|tauto].
  - split.
    + constructor; [|exact IH1]. intros Hi. apply (IH2 i Hi). left. reflexivity.
    + intros i' [<-|Hi]; [exact HR|]. intros Hk. apply (IH2 i' Hi). right. exact Hk.
Qed.

Lemma gsel_cols L0 Rk Ck l :
  gsel L0 Rk Ck l -> NoDup (map snd l) /\ (forall j, In j (map snd l) -> ~ In j Ck).
Proof.
  induction 1 as [|Rk Ck i j q l Hin HR HC Hmin Hg [IH1 IH2]]; simpl.
  - split; [constructor|tauto].
  - split.
    + constructor; [|exact IH1]. intros Hj. apply (IH2 j Hj). left. reflexivity.
    + intros j' [<-|Hj]; [exact HC|]. intros Hk. apply (IH2 j' Hj). right. exact Hk.
Qed.

(* at the end every finite entry has its row or its column used *)
Lemma gsel_maximal L0 Rk Ck l :
  gsel L0 Rk Ck l ->
  forall i j q, In (i, j, Some q) L0 -> In i Rk \/ In j Ck \/ In i (map fst l) \/ In j (map snd l).
Proof.
  induction 1 as [Rk Ck Hstop|Rk Ck i j q l Hin HR HC Hmin Hg IH]; intros i' j' q' H'.
  - destruct (Hstop _ _ _ H'); auto.
  - destruct (IH _ _ _ H') as [[<-|Hk]|[[<-|Hk]|[Hk|Hk]]]; simpl; auto.
Qed.

(* ------------------------------------------------------------------------------------------ *)
(* the loop of the model = greedy + a sequence of Append events                                *)
(* ------------------------------------------------------------------------------------------ *)
Definition link_event (f n : nat) (alive : list nat) (ij : nat * nat) (ev : event) : Prop :=
  exists k, nth_error alive (fst ij) = Some k /\ snd ij < n /\ ev = Append k (f, snd ij).

Lemma dist_loop_spec fuel : forall M t f n alive trs added trs' added',
  dist_loop fuel M t f n alive trs added = Ok (trs', added') ->
  exists links evs,
    greedy fuel M = Ok links /\ added' = rev (map snd links) ++ added /\
    Forall2 (link_event f n alive) links evs /\ apply_events t trs evs = Ok trs'.
Proof.
  induction fuel as [|fuel IH]; intros M t f n alive trs added trs' added' H; cbn [dist_loop] in H; [discriminate|].
  unfold greedy. cbn [greedyL]. unfold argmin in H.
  destruct (argmin_cells (flat M)) as [[[i j] [q|]]|e]; [| |discriminate].
  - destruct (nth_error alive i) as [k|] eqn:Ek; [|discriminate].
    destruct (j <? n) eqn:Ej; [|discriminate]. apply Nat.ltb_lt in Ej.
    destruct (apply_event t trs (Append k (f, j))) as [trs1|e] eqn:A; [|discriminate].
    destruct (IH _ _ _ _ _ _ _ _ _ H) as (links & evs & G & Ha & F2 & Ap).
    unfold greedy in G. rewrite flat_kill in G. rewrite G.
    exists ((i, j) :: links), (Append k (f, j) :: evs). split; [reflexivity|]. split.
    + rewrite Ha. simpl. rewrite <- app_assoc. reflexivity.
    + split.
      * constructor; [|exact F2]. exists k. simpl. auto.
      * cbn [apply_events]. rewrite A. exact Ap.
  - inversion H; subst. exists [], []. simpl. repeat split. constructor.
Qed.

Lemma dist_loop_total fuel : forall M t f n alive trs added,
  (forall c, In c (flat M) -> ci c < length alive /\ cj c < n) ->
  valid_idx alive trs -> flat M <> [] -> count_fin (flat M) < fuel ->
  exists r, dist_loop fuel M t f n alive trs added = Ok r.
Proof.
  induction fuel as [|fuel IH]; intros M t f n alive trs added Hb V Hne Hc; [lia|]. cbn [dist_loop].
  unfold argmin. destruct (argmin_cells_total _ Hne) as [c Hc0]. rewrite Hc0.
  destruct c as [[i j] [q|]]; [|eauto].
  apply argmin_cells_spec in Hc0. destruct Hc0 as [Hin _].
  destruct (Hb _ Hin) as [Hi Hj]. unfold ci, cj in Hi, Hj. simpl in Hi, Hj.
  destruct (nth_error alive i) as [k|] eqn:Ek; [|apply nth_error_None in Ek; lia].
  destruct (j <? n) eqn:Ej; [|apply Nat.ltb_ge in Ej; lia].
  assert (Hk : k < length trs) by (apply V; eapply nth_error_In; eauto).
  destruct (nth_error trs k) as [tr|] eqn:Etr; [|apply nth_error_None in Etr; lia].
  assert (exists trs1, apply_event t trs (Append k (f, j)) = Ok trs1) as [trs1 U]
    by (simpl; eapply upd_total; eauto).
  rewrite U. apply IH.
  - intros c Hc'. rewrite flat_kill in Hc'. apply in_map_iff in Hc'. destruct Hc' as (c0 & <- & Hc0).
    specialize (Hb _ Hc0). unfold killc. destruct ((ci c0 =? i) || (cj c0 =? j)); exact Hb.
  - eapply valid_idx_ext; [exact V|]. eapply apply_event_ext. exact U.
  - rewrite flat_kill. destruct (flat M); [congruence|discriminate].
  - rewrite flat_kill.
    assert (count_fin (map (killc i j) (flat M)) < count_fin (flat M)); [|lia].
    apply (count_map_lt _ _ (i, j, Some q)); [apply killc_fin|exact Hin|reflexivity|].
    unfold killc, ci. simpl. rewrite Nat.eqb_refl. reflexivity.
Qed.

(* unmatched droplets start new tracks, in index order *)
Lemma add_new_spec t f js : forall added trs,
  add_new t f js added trs =
  trs ++ map (fun j => t_new (t, (f, j))) (filter (fun j => negb (mem_nat j added)) js).
Proof.
  induction js as [|j js IH]; intros added trs; simpl; [rewrite app_nil_r; reflexivity|].
  rewrite IH. destruct (mem_nat j added); simpl; [reflexivity|]. rewrite <- app_assoc. reflexivity.
Qed.

Lemma apply_news t ds : forall trs,
  apply_events t trs (map New ds) = Ok (trs ++ map (fun d => t_new (t, d)) ds).
Proof.
  induction ds as [|d ds IH]; intros trs; simpl; [rewrite app_nil_r; reflexivity|].
  rewrite IH, <- app_assoc. reflexivity.
Qed.

Lemma mem_nat_in j l : mem_nat j l = true <-> In j l.
Proof. apply mem_nat_b_in. Qed.

(* points_prev *)
Lemma lasts_spec trs alive : forall prev,
  lasts trs alive = Ok prev ->
  Forall2 (fun k a => exists tr, nth_error trs k = Some tr /\ t_last tr = a) alive prev.
Proof.
  induction alive as [|k alive IH]; intros prev H; simpl in H.
  - inversion H. constructor.
  - destruct (nth_error trs k) as [tr|] eqn:E; [|discriminate].
    destruct (lasts trs alive) as [l|e]; [|discriminate]. inversion H; subst.
    constructor; [eauto|apply IH; reflexivity].
Qed.

Lemma lasts_total trs alive : valid_idx alive trs -> exists prev, lasts trs alive = Ok prev.
Proof.
  induction alive as [|k alive IH]; intros V; simpl; [eauto|].
  assert (Hk : k < length trs) by (apply V; left; reflexivity).
  destruct (nth_error trs k) as [tr|] eqn:E; [|apply nth_error_None in E; lia].
  destruct IH as [l ->]; [intros k' Hk'; apply V; right; exact Hk'|]. eauto.
Qed.

Lemma Forall2_length {A B} (P : A -> B -> Prop) l1 l2 : Forall2 P l1 l2 -> length l1 = length l2.
Proof. induction 1; simpl; congruence. Qed.

Lemma Forall2_nth {A B} (P : A -> B -> Prop) l1 l2 :
  Forall2 P l1 l2 -> forall i x, nth_error l1 i = Some x -> exists y, nth_error l2 i = Some y /\ P x y.
Proof.
  induction 1 as [|a b l1 l2 Hab H IH]; intros i x Hi; [destruct i; discriminate|].
  destruct i as [|i]; simpl in *; [inversion Hi; subst; eauto|eauto].
Qed.

Lemma Forall2_nth_r {A B} (P : A -> B -> Prop) l1 l2 :
  Forall2 P l1 l2 -> forall i y, nth_error l2 i = Some y -> exists x, nth_error l1 i = Some x /\ P x y.
Proof.
  induction 1 as [|a b l1 l2 Hab H IH]; intros i y Hi; [destruct i; discriminate|].
  destruct i as [|i]; simpl in *; [inversion Hi; subst; eauto|eauto].
Qed.

(* ------------------------------------------------------------------------------------------ *)
(* droplet-level specification: closest remaining pair first                                    *)
(* ------------------------------------------------------------------------------------------ *)
(* W a b = Some q : distance q, within the cut-off;  None : beyond the cut-off.
   R, C : the candidates (ends of the alive tracks / droplets of the new frame);
   uR, uC : those already used. *)
Inductive closest_first (W : did -> did -> option Q) (R C : list did)
  : list did -> list did -> list (did * did) -> Prop :=
| cf_stop uR uC :
    (forall a b, In a R -> In b C -> ~ In a uR -> ~ In b uC -> W a b = None) ->
    closest_first W R C uR uC []
| cf_step uR uC a b q l :
    In a R -> In b C -> ~ In a uR -> ~ In b uC -> W a b = Some q ->
    (forall a' b' q', In a' R -> In b' C -> ~ In a' uR -> ~ In b' uC -> W a' b' = Some q' -> (q <= q')%Q) ->
    closest_first W R C (a :: uR) (b :: uC) l ->
    closest_first W R C uR uC ((a, b) :: l).

Definition pick {A} (l : list A) (idx : list nat) : list A :=
  flat_map (fun i => match nth_error l i with Some x => [x] | None => [] end) idx.
Definition pick2 (R C : list did) (l : list (nat * nat)) : list (did * did) :=
  flat_map (fun ij => match nth_error R (fst ij), nth_error C (snd ij) with
                      | Some a, Some b => [(a, b)]
                      | _, _ => []
                      end) l.

Lemma in_pick {A} (l : list A) idx x : In x (pick l idx) <-> exists i, In i idx /\ nth_error l i = Some x.
Proof.
  unfold pick. rewrite in_flat_map. split.
  - intros (i & Hi & Hx). exists i. split; [exact Hi|].
    destruct (nth_error l i) as [y|]; [destruct Hx as [->|[]]; reflexivity|destruct Hx].
  - intros (i & Hi & Hx). exists i. split; [exact Hi|]. rewrite Hx. left. reflexivity.
Qed.

Lemma nodup_nth_inj {A} (l : list A) i j x :
  NoDup l -> nth_error l i = Some x -> nth_error l j = Some x -> i = j.
Proof.
  intros Hn Hi Hj. rewrite NoDup_nth_error in Hn. apply Hn; [|congruence].
  apply nth_error_Some. congruence.
Qed.

Lemma not_in_pick {A} (l : list A) idx i x :
  NoDup l -> nth_error l i = Some x -> ~ In i idx -> ~ In x (pick l idx).
Proof.
  intros Hn Hi Hni Hin. apply in_pick in Hin. destruct Hin as (i' & Hi' & Hx).
  assert (i = i') by (eapply nodup_nth_inj; eauto). subst. tauto.
Qed.

Lemma gsel_closest_first W R C L0 :
  NoDup R -> NoDup C ->
  (forall i j x, In (i, j, x) L0 <->
                 exists a b, nth_error R i = Some a /\ nth_error C j = Some b /\ x = W a b) ->
  forall Rk Ck l, gsel L0 Rk Ck l -> closest_first W R C (pick R Rk) (pick C Ck) (pick2 R C l).
Proof.
  intros HR HC HL Rk Ck l G.
  induction G as [Rk Ck Hstop|Rk Ck i j q l Hin HRk HCk Hmin G IH].
  - apply cf_stop. intros a b Ha Hb Hua Hub.
    destruct (W a b) as [q|] eqn:E; [|reflexivity]. exfalso.
    apply In_nth_error in Ha. destruct Ha as [i Hi]. apply In_nth_error in Hb. destruct Hb as [j Hj].
    assert (Hc : In (i, j, Some q) L0) by (apply HL; exists a, b; auto).
    destruct (Hstop _ _ _ Hc) as [Hk|Hk].
    + apply Hua. apply in_pick. eauto.
    + apply Hub. apply in_pick. eauto.
  - apply HL in Hin. destruct Hin as (a & b & Ha & Hb & Hq).
    assert (E2 : pick2 R C ((i, j) :: l) = (a, b) :: pick2 R C l).
    { unfold pick2. simpl. rewrite Ha, Hb. reflexivity. }
    assert (ER : pick R (i :: Rk) = a :: pick R Rk) by (unfold pick; simpl; rewrite Ha; reflexivity).
    assert (EC : pick C (j :: Ck) = b :: pick C Ck) by (unfold pick; simpl; rewrite Hb; reflexivity).
    rewrite E2. apply cf_step with (q := q).
    + eapply nth_error_In; eauto.
    + eapply nth_error_In; eauto.
    + eapply not_in_pick; eauto.
    + eapply not_in_pick; eauto.
    + symmetry. exact Hq.
    + intros a' b' q' Ha' Hb' Hua Hub Hw.
      apply In_nth_error in Ha'. destruct Ha' as [i' Hi']. apply In_nth_error in Hb'. destruct Hb' as [j' Hj'].
      apply (Hmin i' j' q').
      * apply HL. exists a', b'. auto.
      * intros Hk. apply Hua. apply in_pick. eauto.
      * intros Hk. apply Hub. apply in_pick. eauto.
    + rewrite <- ER, <- EC. exact IH.
Qed.

(* consequences of closest_first *)
Lemma cf_in W R C uR uC l :
  closest_first W R C uR uC l ->
  forall a b, In (a, b) l -> In a R /\ In b C /\ exists q, W a b = Some q.
Proof.
  induction 1 as [|uR uC a b q l Ha Hb Hua Hub Hw Hmin Hc IH]; intros a' b' H'; [destruct H'|].
  destruct H' as [E|H']; [inversion E; subst; eauto|eauto].
Qed.

Lemma cf_fst W R C uR uC l :
  closest_first W R C uR uC l -> NoDup (map fst l) /\ forall a, In a (map fst l) -> ~ In a uR.
Proof.
  induction 1 as [|uR uC a b q l Ha Hb Hua Hub Hw Hmin Hc [IH1 IH2]]; simpl.
  - split; [constructor|tauto].
  - split.
    + constructor; [|exact IH1]. intros Hi. apply (IH2 a Hi). left. reflexivity.
    + intros a' [<-|Hi]; [exact Hua|]. intros Hk. apply (IH2 a' Hi). right. exact Hk.
Qed.

Lemma cf_snd W R C uR uC l :
  closest_first W R C uR uC l -> NoDup (map snd l) /\ forall b, In b (map snd l) -> ~ In b uC.
Proof.
  induction 1 as [|uR uC a b q l Ha Hb Hua Hub Hw Hmin Hc [IH1 IH2]]; simpl.
  - split; [constructor|tauto].
  - split.
    + constructor; [|exact IH1]. intros Hi. apply (IH2 b Hi). left. reflexivity.
    + intros b' [<-|Hi]; [exact Hub|]. intros Hk. apply (IH2 b' Hi). right. exact Hk.
Qed.

Lemma cf_maximal W R C uR uC l :
  closest_first W R C uR uC l ->
  forall a b, In a R -> In b C -> ~ In a uR -> ~ In b uC ->
              ~ In a (map fst l) -> ~ In b (map snd l) -> W a b = None.
Proof.
  induction 1 as [uR uC Hstop|uR uC a b q l Ha Hb Hua Hub Hw Hmin Hc IH];
    intros a' b' Ha' Hb' Hua' Hub' Hna Hnb.
  - apply Hstop; assumption.
  - simpl in Hna, Hnb. apply IH; auto.
    + intros [<-|Hk]; tauto.
    + intros [<-|Hk]; tauto.
Qed.

(* with pairwise different finite distances the result is unique *)
Definition distinct_weights (W : did -> did -> option Q) (R C : list did) : Prop :=
  forall a b a' b' q q', In a R -> In b C -> In a' R -> In b' C ->
                         W a b = Some q -> W a' b' = Some q' -> Qeq q q' -> a = a' /\ b = b'.

Lemma cf_functional W R C :
  distinct_weights W R C ->
  forall uR uC l, closest_first W R C uR uC l ->
  forall l', closest_first W R C uR uC l' -> l = l'.
Proof.
  intros Hd uR uC l H. induction H as [uR uC Hstop|uR uC a b q l Ha Hb Hua Hub Hw Hmin Hc IH];
    intros l' H'.
  - destruct H' as [uR uC Hstop'|uR uC a' b' q' l0 Ha' Hb' Hua' Hub' Hw' Hmin' Hc']; [reflexivity|].
    rewrite (Hstop a' b') in Hw'; auto. discriminate.
  - destruct H' as [uR uC Hstop'|uR uC a' b' q' l0 Ha' Hb' Hua' Hub' Hw' Hmin' Hc'].
    + rewrite (Hstop' a b) in Hw; auto. discriminate.
    + assert (Hqq : Qeq q q').
      { apply Qle_antisym; [apply (Hmin a' b' q'); assumption|apply (Hmin' a b q); assumption]. }
      destruct (Hd a b a' b' q q') as [E1 E2]; auto. subst a' b'.
      f_equal. apply IH. exact Hc'.
Qed.

(* ------------------------------------------------------------------------------------------ *)
(* one frame of the distance method                                                            *)
(* ------------------------------------------------------------------------------------------ *)
Lemma nth_error_frame_ids f n j : j < n -> nth_error (frame_ids f n) j = Some (f, j).
Proof.
  intros H. unfold frame_ids. rewrite nth_error_map.
  rewrite (nth_error_nth' _ 0) by (rewrite seq_length; exact H). rewrite seq_nth by exact H. reflexivity.
Qed.

Lemma nth_error_frame_ids_inv f n j b : nth_error (frame_ids f n) j = Some b -> b = (f, j) /\ j < n.
Proof.
  intros H. assert (Hj : j < n).
  { rewrite <- (frame_ids_length f n). apply nth_error_Some. congruence. }
  rewrite nth_error_frame_ids in H by exact Hj. inversion H. auto.
Qed.

Section DistFrame.
  Variable D : did -> did -> Q.
  Variable md : option Q.

  (* the weight the loop sees: the cdist entry, or inf beyond the cut-off *)
  Definition Wc (a b : did) : option Q := cut md (D a b).

  Definition mat (prev now : list did) : matrix :=
    map (map (cut md)) (map (fun p => map (D p) now) prev).

  Lemma in_flat_mat prev now i j x :
    In (i, j, x) (flat (mat prev now)) <->
    exists a b, nth_error prev i = Some a /\ nth_error now j = Some b /\ x = Wc a b.
  Proof.
    rewrite in_flat. unfold ci, cj, cval, mat. simpl. rewrite !nth_error_map. split.
    - intros (row & Hr & Hx). destruct (nth_error prev i) as [a|]; [|discriminate].
      simpl in Hr. inversion Hr; subst row. rewrite !nth_error_map in Hx.
      destruct (nth_error now j) as [b|]; [|discriminate]. simpl in Hx. inversion Hx.
      exists a, b. auto.
    - intros (a & b & Ha & Hb & ->). rewrite Ha. simpl. eexists. split; [reflexivity|].
      rewrite !nth_error_map, Hb. reflexivity.
  Qed.

  Lemma pick2_links f n alive prev : length alive = length prev ->
    forall links evs, Forall2 (link_event f n alive) links evs ->
    Forall2 (fun ab ev => exists i k, nth_error alive i = Some k /\ nth_error prev i = Some (fst ab) /\
                                      ev = Append k (snd ab))
            (pick2 prev (frame_ids f n) links) evs /\
    map snd (pick2 prev (frame_ids f n) links) = map (fun ij => (f, snd ij)) links.
  Proof.
    intros Hlen links evs F. induction F as [|[i j] ev links evs (k & Hk & Hj & ->) F [IH1 IH2]].
    - split; [constructor|reflexivity].
    - simpl in Hk, Hj.
      assert (Hi : i < length prev) by (rewrite <- Hlen; apply nth_error_Some; congruence).
      destruct (nth_error prev i) as [a|] eqn:Ea; [|apply nth_error_None in Ea; lia].
      unfold pick2. simpl. rewrite Ea, (nth_error_frame_ids f n j Hj). simpl. split.
      + constructor; [|exact IH1]. exists i, k. simpl. auto.
      + f_equal. exact IH2.
  Qed.

  Lemma dist_frame_spec t f n alive trs trs' :
    dist_frame D md t f n alive trs = Ok trs' ->
    forall prev, lasts trs alive = Ok prev -> NoDup prev ->
    exists links evsA news,
      closest_first Wc prev (frame_ids f n) [] [] links /\
      Forall2 (fun ab ev => exists i k, nth_error alive i = Some k /\ nth_error prev i = Some (fst ab) /\
                                        ev = Append k (snd ab)) links evsA /\
      (forall b, In b news <-> In b (frame_ids f n) /\ ~ In b (map snd links)) /\ NoDup news /\
      apply_events t trs (evsA ++ map New news) = Ok trs'.
  Proof.
    intros H prev Hl Hnd. unfold dist_frame in H.
    assert (Hlen : length alive = length prev) by (eapply Forall2_length, lasts_spec; eauto).
    set (news_of := fun added : list nat =>
                      map (fun j => (f, j)) (filter (fun j => negb (mem_nat j added)) (seq 0 n))).
    assert (Hnews : forall added trs1, add_new t f (seq 0 n) added trs1
                                       = trs1 ++ map (fun d => t_new (t, d)) (news_of added)).
    { intros added trs1. rewrite add_new_spec. unfold news_of. rewrite map_map. reflexivity. }
    assert (Hnews_in : forall added b, In b (news_of added) <-> In b (frame_ids f n) /\ ~ In (snd b) added).
    { intros added b. unfold news_of. rewrite in_map_iff, in_frame_ids. split.
      - intros (j & <- & Hj). apply filter_In in Hj. destruct Hj as [Hj Hm]. apply in_seq in Hj.
        simpl. split; [lia|]. intros Hin. apply mem_nat_in in Hin. rewrite Hin in Hm. discriminate.
      - intros [[Hf Hj] Hn]. exists (snd b). split; [destruct b; simpl in *; congruence|].
        apply filter_In. split; [apply in_seq; lia|].
        destruct (mem_nat (snd b) added) eqn:E; [apply mem_nat_in in E; tauto|reflexivity]. }
    assert (Hnews_nd : forall added, NoDup (news_of added)).
    { intros added. unfold news_of. apply FinFun.Injective_map_NoDup.
      - intros x y E. inversion E. reflexivity.
      - apply NoDup_filter, seq_NoDup. }
    destruct ((match alive with [] => false | _ :: _ => true end) && (0 <? n)) eqn:G.
    - apply andb_true_iff in G. destruct G as [Ga Gn]. apply Nat.ltb_lt in Gn.
      rewrite Hl in H.
      assert (Hc : cdist D prev (frame_ids f n) = Ok (map (fun p => map (D p) (frame_ids f n)) prev)).
      { unfold cdist. destruct prev as [|p prev]; [destruct alive; [discriminate|simpl in Hlen; lia]|].
        destruct (frame_ids f n) eqn:E; [|reflexivity].
        apply (f_equal (@length _)) in E. rewrite frame_ids_length in E. simpl in E. lia. }
      rewrite Hc in H. fold (mat prev (frame_ids f n)) in H.
      destruct (dist_loop (S (count_finite (mat prev (frame_ids f n)))) (mat prev (frame_ids f n))
                          t f n alive trs []) as [[trs1 added]|e] eqn:L; [|discriminate].
      inversion H; subst trs'. clear H.
      destruct (dist_loop_spec _ _ _ _ _ _ _ _ _ _ L) as (li & evs & Gr & Ha & F2 & Ap).
      rewrite app_nil_r in Ha.
      destruct (pick2_links f n alive prev Hlen li evs F2) as [P1 P2].
      exists (pick2 prev (frame_ids f n) li), evs, (news_of added).
      split; [|split; [exact P1|split; [|split; [apply Hnews_nd|]]]].
      + apply greedy_gsel in Gr.
        apply (gsel_closest_first Wc prev (frame_ids f n) (flat (mat prev (frame_ids f n))) Hnd
                                  (frame_ids_nodup f n) (in_flat_mat prev (frame_ids f n)) [] [] li Gr).
      + intros b. rewrite Hnews_in, P2. split; intros [Hb Hn]; (split; [exact Hb|]); intros Hin; apply Hn.
        * apply in_map_iff in Hin. destruct Hin as (ij & <- & Hij). simpl. rewrite Ha, <- in_rev.
          apply in_map. exact Hij.
        * rewrite Ha, <- in_rev in Hin. apply in_map_iff in Hin. destruct Hin as (ij & E & Hij).
          apply in_map_iff. exists ij. split; [|exact Hij]. apply in_frame_ids in Hb.
          destruct b as [bf bj]. simpl in *. destruct Hb as [-> _]. congruence.
      + rewrite (apply_events_app _ _ _ _ _ Ap). rewrite apply_news, Hnews. reflexivity.
    - inversion H; subst trs'. clear H.
      exists [], [], (news_of []). split; [|split; [constructor|split; [|split; [apply Hnews_nd|]]]].
      + apply cf_stop. intros a b Ha Hb _ _. exfalso.
        apply andb_false_iff in G. destruct G as [G|G].
        * destruct alive; [|discriminate]. destruct prev; [destruct Ha|discriminate].
        * apply Nat.ltb_ge in G. apply in_frame_ids in Hb. lia.
      + intros b. rewrite Hnews_in. simpl. tauto.
      + simpl. rewrite apply_news, Hnews. reflexivity.
  Qed.

  Lemma dist_frame_total t f n alive trs :
    valid_idx alive trs -> exists trs', dist_frame D md t f n alive trs = Ok trs'.
  Proof.
    intros V. unfold dist_frame.
    destruct ((match alive with [] => false | _ :: _ => true end) && (0 <? n)) eqn:G; [|eauto].
    apply andb_true_iff in G. destruct G as [Ga Gn]. apply Nat.ltb_lt in Gn.
    destruct (lasts_total trs alive V) as [prev Hl]. rewrite Hl.
    assert (Hlen : length alive = length prev) by (eapply Forall2_length, lasts_spec; eauto).
    assert (Hc : cdist D prev (frame_ids f n) = Ok (map (fun p => map (D p) (frame_ids f n)) prev)).
    { unfold cdist. destruct prev as [|p prev]; [destruct alive; [discriminate|simpl in Hlen; lia]|].
      destruct (frame_ids f n) eqn:E; [|reflexivity].
      apply (f_equal (@length _)) in E. rewrite frame_ids_length in E. simpl in E. lia. }
    rewrite Hc. fold (mat prev (frame_ids f n)).
    destruct (dist_loop_total (S (count_finite (mat prev (frame_ids f n)))) (mat prev (frame_ids f n))
                              t f n alive trs []) as [[trs1 added] ->]; [| | | |eauto].
    - intros c Hc'. rewrite (cell_eta c) in Hc'. apply in_flat_mat in Hc'.
      destruct Hc' as (a & b & Ha & Hb & _). split.
      + rewrite Hlen. apply nth_error_Some. congruence.
      + apply nth_error_frame_ids_inv in Hb. tauto.
    - exact V.
    - assert (Hin : In (0, 0, Wc (nth 0 prev (0, 0)) (f, 0)) (flat (mat prev (frame_ids f n)))).
      { apply in_flat_mat. exists (nth 0 prev (0, 0)), (f, 0). split; [|split; [|reflexivity]].
        - destruct prev; [destruct alive; [discriminate|simpl in Hlen; lia]|]. reflexivity.
        - apply nth_error_frame_ids. exact Gn. }
      intros E. rewrite E in Hin. destruct Hin.
    - rewrite count_finite_flat. lia.
  Qed.
End DistFrame.
