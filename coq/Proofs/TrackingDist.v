(* The "distance" method, part 1: the matrix (flat cell list), np.argmin, killing a row and a column,
   the greedy loop; termination and the index-level specification of what the loop selects. *)
From Coq Require Import List Bool Arith Lia QArith Permutation.
Import ListNotations.
From PD Require Import Model.Tracking Proofs.Tracking.

Local Open Scope nat_scope.

Definition ci (c : cell) : nat := fst (fst c).
Definition cj (c : cell) : nat := snd (fst c).
Definition cval (c : cell) : option Q := snd c.

Lemma cell_eta (c : cell) : c = (ci c, cj c, cval c).
Proof. destruct c as [[i j] x]. reflexivity. Qed.

(* ------------------------------------------------------------------------------------------ *)
(* order on entries: inf (None) is largest                                                     *)
(* ------------------------------------------------------------------------------------------ *)
Definition ole (a b : option Q) : Prop :=
  match a, b with
  | Some x, Some y => (x <= y)%Q
  | _, None => True
  | None, Some _ => False
  end.

Lemma Qlt_b_true x y : Qlt_b x y = true <-> (x < y)%Q.
Proof.
  unfold Qlt_b. rewrite negb_true_iff. split.
  - intros H. apply Qnot_le_lt. intros Hle. apply Qle_bool_iff in Hle. congruence.
  - intros H. destruct (Qle_bool y x) eqn:E; [|reflexivity].
    apply Qle_bool_iff in E. exfalso. eapply Qlt_not_le; eauto.
Qed.

Lemma Qlt_b_false x y : Qlt_b x y = false <-> (y <= x)%Q.
Proof.
  unfold Qlt_b. rewrite negb_false_iff. apply Qle_bool_iff.
Qed.

Lemma oq_lt_false a b : oq_lt a b = false <-> ole b a.
Proof.
  destruct a as [x|], b as [y|]; simpl; try tauto.
  - apply Qlt_b_false.
  - split; [discriminate|tauto].
Qed.

Lemma oq_lt_true_le a b : oq_lt a b = true -> ole a b.
Proof.
  destruct a as [x|], b as [y|]; simpl; try tauto; try discriminate.
  intros H. apply Qlt_b_true in H. apply Qlt_le_weak. exact H.
Qed.

Lemma ole_refl a : ole a a.
Proof. destruct a; simpl; [apply Qle_refl|exact I]. Qed.

Lemma ole_trans a b c : ole a b -> ole b c -> ole a c.
Proof.
  destruct a, b, c; simpl; try tauto. apply Qle_trans.
Qed.

(* ------------------------------------------------------------------------------------------ *)
(* np.argmin                                                                                   *)
(* ------------------------------------------------------------------------------------------ *)
Lemma argmin_from_spec l : forall best,
  In (argmin_from best l) (best :: l) /\
  forall x, In x (best :: l) -> ole (cval (argmin_from best l)) (cval x).
Proof.
  induction l as [|y l IH]; intros best; simpl.
  - split; [auto|]. intros x [<-|[]]. apply ole_refl.
  - destruct (IH (if oq_lt (snd y) (snd best) then y else best)) as [Hin Hmin].
    set (b' := if oq_lt (snd y) (snd best) then y else best) in *.
    assert (Hb : (b' = y \/ b' = best) /\ ole (cval b') (cval best) /\ ole (cval b') (cval y)).
    { unfold b'. destruct (oq_lt (snd y) (snd best)) eqn:E.
      - split; [auto|]. split; [apply oq_lt_true_le; exact E|apply ole_refl].
      - split; [auto|]. split; [apply ole_refl|apply oq_lt_false; exact E]. }
    destruct Hb as (Hb1 & Hb2 & Hb3). split.
    + destruct Hin as [Hin|Hin]; [|auto]. rewrite <- Hin. destruct Hb1 as [->| ->]; auto.
    + intros x [<-|[<-|Hx]].
      * eapply ole_trans; [apply Hmin; left; reflexivity|exact Hb2].
      * eapply ole_trans; [apply Hmin; left; reflexivity|exact Hb3].
      * apply Hmin. right. exact Hx.
Qed.

Lemma argmin_cells_spec l c :
  argmin_cells l = Ok c -> In c l /\ forall x, In x l -> ole (cval c) (cval x).
Proof.
  destruct l as [|x l]; simpl; [discriminate|]. intros H. inversion H; subst.
  apply argmin_from_spec.
Qed.

Lemma argmin_cells_total l : l <> [] -> exists c, argmin_cells l = Ok c.
Proof. destruct l; [congruence|]. simpl. eauto. Qed.

(* ------------------------------------------------------------------------------------------ *)
(* cells of a matrix                                                                           *)
(* ------------------------------------------------------------------------------------------ *)
Lemma in_row_cells i row : forall j0 c,
  In c (row_cells i j0 row) <-> ci c = i /\ j0 <= cj c /\ nth_error row (cj c - j0) = Some (cval c).
Proof.
  induction row as [|x row IH]; intros j0 c; simpl.
  - split; [tauto|]. intros (_ & _ & H). destruct (cj c - j0); discriminate.
  - rewrite IH. split.
    + intros [<-|(Hi & Hj & Hn)].
      * unfold ci, cj, cval. simpl. rewrite Nat.sub_diag. auto.
      * split; [exact Hi|]. split; [lia|]. replace (cj c - j0) with (S (cj c - S j0)) by lia. exact Hn.
    + intros (Hi & Hj & Hn). destruct (Nat.eq_dec (cj c) j0) as [E|Hne].
      * left. rewrite E, Nat.sub_diag in Hn. simpl in Hn. inversion Hn.
        destruct c as [[i' j'] x']. unfold ci, cj, cval in *. simpl in *. congruence.
      * right. split; [exact Hi|]. split; [lia|].
        replace (cj c - j0) with (S (cj c - S j0)) in Hn by lia. exact Hn.
Qed.

Lemma in_flat_from M : forall i0 c,
  In c (flat_from i0 M) <->
  i0 <= ci c /\ exists row, nth_error M (ci c - i0) = Some row /\ nth_error row (cj c) = Some (cval c).
Proof.
  induction M as [|row M IH]; intros i0 c; simpl.
  - split; [tauto|]. intros (_ & row & H & _). destruct (ci c - i0); discriminate.
  - rewrite in_app_iff, in_row_cells, IH. split.
    + intros [(Hi & _ & Hn)|(Hi & row' & Hr & Hn)].
      * split; [lia|]. exists row. rewrite Hi, Nat.sub_diag. rewrite Nat.sub_0_r in Hn. auto.
      * split; [lia|]. exists row'. replace (ci c - i0) with (S (ci c - S i0)) by lia. auto.
    + intros (Hi & row' & Hr & Hn). destruct (Nat.eq_dec (ci c) i0) as [E|Hne].
      * left. rewrite E, Nat.sub_diag in Hr. simpl in Hr. inversion Hr; subst row'.
        rewrite Nat.sub_0_r. split; [exact E|]. split; [lia|exact Hn].
      * right. split; [lia|]. exists row'.
        replace (ci c - i0) with (S (ci c - S i0)) in Hr by lia. auto.
Qed.

Lemma in_flat M c :
  In c (flat M) <-> exists row, nth_error M (ci c) = Some row /\ nth_error row (cj c) = Some (cval c).
Proof.
  unfold flat. rewrite in_flat_from. rewrite Nat.sub_0_r. split.
  - intros (_ & H). exact H.
  - intros H. split; [lia|exact H].
Qed.

(* killing a row and a column, seen on the cell list *)
Definition none_cell (c : cell) : cell := (ci c, cj c, None).
Definition killc (i j : nat) (c : cell) : cell :=
  if (ci c =? i) || (cj c =? j) then none_cell c else c.

Lemma row_cells_none i row : forall j0,
  row_cells i j0 (map (fun _ => None) row) = map none_cell (row_cells i j0 row).
Proof. induction row as [|x row IH]; intros j0; simpl; [reflexivity|]. rewrite IH. reflexivity. Qed.

Lemma row_cells_kill_col i row : forall j j0,
  row_cells i j0 (kill_col j row) =
  map (fun c => if cj c =? j0 + j then none_cell c else c) (row_cells i j0 row).
Proof.
  induction row as [|x row IH]; intros j j0; simpl; [destruct j; reflexivity|].
  destruct j as [|j]; simpl.
  - unfold cj at 1. simpl. rewrite Nat.add_0_r, Nat.eqb_refl. f_equal.
    rewrite <- (map_id (row_cells i (S j0) row)) at 1. apply map_ext_in.
    intros c Hc. apply in_row_cells in Hc. destruct Hc as (_ & Hj & _).
    destruct (cj c =? j0) eqn:E; [apply Nat.eqb_eq in E; lia|reflexivity].
  - unfold cj at 1. simpl. destruct (j0 =? j0 + S j) eqn:E; [apply Nat.eqb_eq in E; lia|].
    f_equal. rewrite IH. apply map_ext. intros c. replace (S j0 + j) with (j0 + S j) by lia. reflexivity.
Qed.

Lemma flat_from_kill_cols j M : forall i0,
  flat_from i0 (map (kill_col j) M) =
  map (fun c => if cj c =? j then none_cell c else c) (flat_from i0 M).
Proof.
  induction M as [|row M IH]; intros i0; simpl; [reflexivity|].
  rewrite map_app, IH, row_cells_kill_col. reflexivity.
Qed.

Lemma flat_from_kill M : forall i j i0,
  flat_from i0 (kill i j M) = map (killc (i0 + i) j) (flat_from i0 M).
Proof.
  induction M as [|row M IH]; intros i j i0; simpl; [destruct i; reflexivity|].
  destruct i as [|i]; simpl; rewrite map_app.
  - rewrite row_cells_none, flat_from_kill_cols. f_equal.
    + apply map_ext_in. intros c Hc. apply in_row_cells in Hc. destruct Hc as (Hi & _).
      unfold killc. rewrite Hi, Nat.add_0_r, Nat.eqb_refl. reflexivity.
    + apply map_ext_in. intros c Hc. apply in_flat_from in Hc. destruct Hc as (Hi & _).
      unfold killc. destruct (ci c =? i0 + 0) eqn:E; [apply Nat.eqb_eq in E; lia|]. reflexivity.
  - rewrite row_cells_kill_col, IH. f_equal.
    + apply map_ext_in. intros c Hc. apply in_row_cells in Hc. destruct Hc as (Hi & _).
      unfold killc. destruct (ci c =? i0 + S i) eqn:E; [apply Nat.eqb_eq in E; lia|]. reflexivity.
    + replace (S i0 + i) with (i0 + S i) by lia. reflexivity.
Qed.

Lemma flat_kill i j M : flat (kill i j M) = map (killc i j) (flat M).
Proof. unfold flat. rewrite flat_from_kill. reflexivity. Qed.

(* ------------------------------------------------------------------------------------------ *)
(* the loop on cell lists                                                                      *)
(* ------------------------------------------------------------------------------------------ *)
Fixpoint greedyL (fuel : nat) (L : list cell) : res (list (nat * nat)) :=
  match fuel with
  | O => Err EFuel
  | S fuel' =>
      match argmin_cells L with
      | Err e => Err e
      | Ok (_, _, None) => Ok []
      | Ok (i, j, Some _) =>
          match greedyL fuel' (map (killc i j) L) with
          | Ok l => Ok ((i, j) :: l)
          | Err e => Err e
          end
      end
  end.

Definition greedy (fuel : nat) (M : matrix) : res (list (nat * nat)) := greedyL fuel (flat M).

Definition is_fin (c : cell) : bool := match snd c with Some _ => true | None => false end.
Definition count_fin (L : list cell) : nat := length (filter is_fin L).

Lemma count_finite_flat M : count_finite M = count_fin (flat M).
Proof. reflexivity. Qed.

Lemma count_map_le (f : cell -> cell) L :
  (forall c, is_fin (f c) = true -> is_fin c = true) -> count_fin (map f L) <= count_fin L.
Proof.
  intros Hf. unfold count_fin. induction L as [|c L IH]; simpl; [lia|].
  destruct (is_fin (f c)) eqn:E.
  - rewrite (Hf c E). simpl. lia.
  - destruct (is_fin c); simpl; lia.
Qed.

Lemma count_map_lt (f : cell -> cell) L c0 :
  (forall c, is_fin (f c) = true -> is_fin c = true) ->
  In c0 L -> is_fin c0 = true -> is_fin (f c0) = false -> count_fin (map f L) < count_fin L.
Proof.
  intros Hf Hin H1 H2. induction L as [|c L IH]; [destruct Hin|].
  assert (Hle := count_map_le f L Hf). unfold count_fin in *. simpl.
  destruct Hin as [->|Hin].
  - rewrite H1, H2. simpl. lia.
  - specialize (IH Hin). destruct (is_fin (f c)) eqn:E.
    + rewrite (Hf c E). simpl. lia.
    + destruct (is_fin c); simpl; lia.
Qed.

Lemma killc_fin i j c : is_fin (killc i j c) = true -> is_fin c = true.
Proof. unfold killc. destruct ((ci c =? i) || (cj c =? j)); [discriminate|tauto]. Qed.

Lemma greedyL_total fuel : forall L, L <> [] -> count_fin L < fuel -> exists l, greedyL fuel L = Ok l.
Proof.
  induction fuel as [|fuel IH]; intros L Hne Hc; [lia|]. simpl.
  destruct (argmin_cells_total L Hne) as [c Hc0]. rewrite Hc0.
  destruct c as [[i j] [q|]]; [|eauto].
  destruct (IH (map (killc i j) L)) as [l ->]; [| |eauto].
  - destruct L; [congruence|discriminate].
  - apply argmin_cells_spec in Hc0. destruct Hc0 as [Hin _].
    assert (count_fin (map (killc i j) L) < count_fin L); [|lia].
    apply (count_map_lt _ _ (i, j, Some q)); [apply killc_fin|exact Hin|reflexivity|].
    unfold killc, ci. simpl. rewrite Nat.eqb_refl. reflexivity.
Qed.

(* ---- what the loop selects: index-level specification ---- *)
Definition mem_nat_b (x : nat) (l : list nat) : bool := existsb (Nat.eqb x) l.

Lemma mem_nat_b_in x l : mem_nat_b x l = true <-> In x l.
Proof.
  unfold mem_nat_b. rewrite existsb_exists. split.
  - intros (y & Hy & E). apply Nat.eqb_eq in E. subst. exact Hy.
  - intros H. exists x. split; [exact H|apply Nat.eqb_refl].
Qed.

Definition mask (Rk Ck : list nat) (c : cell) : cell :=
  if mem_nat_b (ci c) Rk || mem_nat_b (cj c) Ck then none_cell c else c.

Lemma mask_nil c : mask [] [] c = c.
Proof. reflexivity. Qed.

Lemma none_cell_idem c : none_cell (none_cell c) = none_cell c.
Proof. reflexivity. Qed.

Lemma killc_mask i j Rk Ck c : killc i j (mask Rk Ck c) = mask (i :: Rk) (j :: Ck) c.
Proof.
  unfold mask, killc, mem_nat_b. cbn [existsb].
  fold (mem_nat_b (ci c) Rk). fold (mem_nat_b (cj c) Ck).
  destruct (mem_nat_b (ci c) Rk) eqn:E1, (mem_nat_b (cj c) Ck) eqn:E2; cbn [orb];
    change (ci (none_cell c)) with (ci c); change (cj (none_cell c)) with (cj c);
    rewrite ?none_cell_idem;
    destruct (ci c =? i), (cj c =? j); cbn [orb]; rewrite ?orb_true_r; reflexivity.
Qed.

Lemma mask_val_some Rk Ck c q :
  cval (mask Rk Ck c) = Some q -> mask Rk Ck c = c /\ ~ In (ci c) Rk /\ ~ In (cj c) Ck.
Proof.
  unfold mask. destruct (mem_nat_b (ci c) Rk || mem_nat_b (cj c) Ck) eqn:E; [discriminate|].
  apply orb_false_iff in E. destruct E as [E1 E2]. intros _. split; [reflexivity|].
  split; intros H; apply mem_nat_b_in in H; congruence.
Qed.

Lemma mask_unmasked Rk Ck c : ~ In (ci c) Rk -> ~ In (cj c) Ck -> mask Rk Ck c = c.
Proof.
  intros H1 H2. unfold mask.
  destruct (mem_nat_b (ci c) Rk) eqn:E1; [apply mem_nat_b_in in E1; tauto|].
  destruct (mem_nat_b (cj c) Ck) eqn:E2; [apply mem_nat_b_in in E2; tauto|]. reflexivity.
Qed.

(* "repeatedly take a smallest finite entry whose row and column are still unused" *)
Inductive gsel (L0 : list cell) : list nat -> list nat -> list (nat * nat) -> Prop :=
| gs_stop Rk Ck :
    (forall i j q, In (i, j, Some q) L0 -> In i Rk \/ In j Ck) -> gsel L0 Rk Ck []
| gs_step Rk Ck i j q l :
    In (i, j, Some q) L0 -> ~ In i Rk -> ~ In j Ck ->
    (forall i' j' q', In (i', j', Some q') L0 -> ~ In i' Rk -> ~ In j' Ck -> (q <= q')%Q) ->
    gsel L0 (i :: Rk) (j :: Ck) l -> gsel L0 Rk Ck ((i, j) :: l).

Lemma greedyL_gsel L0 fuel : forall Rk Ck l,
  greedyL fuel (map (mask Rk Ck) L0) = Ok l -> gsel L0 Rk Ck l.
Proof.
  induction fuel as [|fuel IH]; intros Rk Ck l H; simpl in H; [discriminate|].
  destruct (argmin_cells (map (mask Rk Ck) L0)) as [c|e] eqn:A; [|discriminate].
  apply argmin_cells_spec in A. destruct A as [Hin Hmin].
  destruct c as [[i j] [q|]].
  - destruct (greedyL fuel (map (killc i j) (map (mask Rk Ck) L0))) as [l'|e] eqn:G; [|discriminate].
    inversion H; subst l. clear H.
    apply in_map_iff in Hin. destruct Hin as (c0 & Hc0 & Hin0).
    assert (Hv : cval (mask Rk Ck c0) = Some q) by (rewrite Hc0; reflexivity).
    apply mask_val_some in Hv. destruct Hv as (Hm & HR & HC).
    rewrite Hm in Hc0. subst c0. unfold ci, cj in HR, HC. simpl in HR, HC.
    apply gs_step with (q := q); auto.
    + intros i' j' q' Hin' HR' HC'.
      assert (Hx : In (i', j', Some q') (map (mask Rk Ck) L0)).
      { apply in_map_iff. exists (i', j', Some q'). split; [|exact Hin'].
        apply mask_unmasked; assumption. }
      specialize (Hmin _ Hx). exact Hmin.
    + apply IH. rewrite <- G. rewrite map_map. f_equal. apply map_ext. intros c.
      symmetry. apply killc_mask.
  - inversion H; subst l. apply gs_stop. intros i' j' q' Hin'.
    destruct (in_dec Nat.eq_dec i' Rk) as [|HR]; [auto|].
    destruct (in_dec Nat.eq_dec j' Ck) as [|HC]; [auto|]. exfalso.
    assert (Hx : In (i', j', Some q') (map (mask Rk Ck) L0)).
    { apply in_map_iff. exists (i', j', Some q'). split; [|exact Hin'].
      apply mask_unmasked; assumption. }
    specialize (Hmin _ Hx). exact Hmin.
Qed.

Lemma map_mask_nil L0 : map (mask [] []) L0 = L0.
Proof. rewrite <- (map_id L0) at 2. apply map_ext. intros c. apply mask_nil. Qed.

Lemma greedy_gsel fuel M l : greedy fuel M = Ok l -> gsel (flat M) [] [] l.
Proof.
  unfold greedy. intros H. apply (greedyL_gsel (flat M) fuel). rewrite map_mask_nil. exact H.
Qed.

Lemma greedy_total M : flat M <> [] -> exists l, greedy (S (count_finite M)) M = Ok l.
Proof.
  intros H. apply greedyL_total; [exact H|]. rewrite count_finite_flat. lia.
Qed.

(* consequences of gsel *)
Lemma gsel_in L0 Rk Ck l :
  gsel L0 Rk Ck l -> forall i j, In (i, j) l -> exists q, In (i, j, Some q) L0.
Proof.
  induction 1 as [|Rk Ck i j q l Hin HR HC Hmin Hg IH]; intros i' j' H'; [destruct H'|].
  destruct H' as [E|H']; [inversion E; subst; eauto|eauto].
Qed.

Lemma gsel_rows L0 Rk Ck l :
  gsel L0 Rk Ck l -> NoDup (map fst l) /\ (forall i, In i (map fst l) -> ~ In i Rk).
Proof.
  induction 1 as [|Rk Ck i j q l Hin HR HC Hmin Hg [IH1 IH2]]; simpl.
  - split; [constructor|tauto].
  - split.
    + constructor; [|exact IH1]. intros Hi. apply (IH2 i Hi). left. reflexivity.
    + intros i' [<-|Hi]; [exact HR|]. intros Hk. apply (IH2 i' Hi). right. exact Hk.
Qed.

Lemma gsel_cols L0 Rk Ck l :
  gsel L0 Rk Ck l -> NoDup (map snd l) /\ (forall j, In j (map snd l) -> ~ In j Ck).
Proof.
  induction 1 as [|Rk Ck i j q l Hin HR HC Hmin Hg [IH1 IH2]]; simpl.
  - split; [constructor|tauto].
  - split.
    + constructor; [|exact IH1]. intros Hj. apply (IH2 j Hj). left. reflexivity.
    + intros j' [<-|Hj]; [exact HC|]. intros Hk. apply (IH2 j' Hj). right. exact Hk.
Qed.

(* at the end every finite entry has its row or its column used *)
Lemma gsel_maximal L0 Rk Ck l :
  gsel L0 Rk Ck l ->
  forall i j q, In (i, j, Some q) L0 -> In i Rk \/ In j Ck \/ In i (map fst l) \/ In j (map snd l).
Proof.
  induction 1 as [Rk Ck Hstop|Rk Ck i j q l Hin HR HC Hmin Hg IH]; intros i' j' q' H'.
  - destruct (Hstop _ _ _ H'); auto.
  - destruct (IH _ _ _ H') as [[<-|Hk]|[[<-|Hk]|[Hk|Hk]]]; simpl; auto.
Qed.
