(* C13 -- 3-d and axisymmetric perturbed droplets.  The spherical harmonics are an oracle: `Y k` is
   the value of mode k at the direction under consideration.  Proved: the structural consequences
   the property text singles out (the curvature correction is the SUM over modes, it scales like
   1/R), positions, the sphere limit, and first-order exactness of volume_approx relative to the
   oracle fact that harmonics of degree >= 1 integrate to zero over the sphere. *)
From Coq Require Import Reals Lra List Lia ZArith.
Import ListNotations.
From Coquelicot Require Import Coquelicot.
From PD Require Import Model.Num Model.NumZ Model.Perturbed Gen.Gen_spherical Gen.Gen_spherical_index
  Gen.Gen_perturbed Proofs.PerturbedSeries Proofs.PerturbedCurv.
Local Open Scope R_scope.

(* ---- curvature3d_additive ---- *)
Lemma curvature3d_additive radius Y l1 l2 : length l1 = length l2 ->
  curv3d radius Y (add3 l1 l2) - 1 / radius
  = (curv3d radius Y l1 - 1 / radius) + (curv3d radius Y l2 - 1 / radius).
Proof.
  intros Hlen. rewrite !curv3d_series, (series3_add _ _ _ _ _ Hlen). unfold Rdiv. ring.
Qed.

Lemma curvature3s_additive radius Y l1 l2 : length l1 = length l2 ->
  curv3s radius Y (add3 l1 l2) - 1 / radius
  = (curv3s radius Y l1 - 1 / radius) + (curv3s radius Y l2 - 1 / radius).
Proof.
  intros Hlen. rewrite !curv3s_series, (series3_add _ _ _ _ _ Hlen). unfold Rdiv. ring.
Qed.

(* the correction is the sum over the modes of the single-mode corrections *)
Fixpoint only (i : nat) (l : list R) : list R :=
  match l with
  | [] => []
  | a :: l' => match i with
               | O => a :: map (fun _ => 0) l'
               | S j => 0 :: only j l'
               end
  end.

Lemma series3_zeros w Y (l : list R) : forall n, series3 w Y n (map (fun _ => 0) l) = 0.
Proof. induction l as [|a l IH]; intros n; simpl; [reflexivity|]. rewrite IH. ring. Qed.

Lemma series3_only_sum w Y l : forall n,
  series3 w Y n l = sum_below (length l) (fun i => series3 w Y n (only i l)).
Proof.
  induction l as [|a l IH]; intros n; [reflexivity|].
  assert (H : forall m, sum_below (S m) (fun i => series3 w Y n (only i (a :: l)))
              = a * w n * Y n + sum_below m (fun i => series3 w Y (S n) (only i l))).
  { induction m as [|m IHm].
    - simpl. rewrite series3_zeros. ring.
    - change (sum_below (S (S m)) (fun i => series3 w Y n (only i (a :: l))))
        with (sum_below (S m) (fun i => series3 w Y n (only i (a :: l))) + series3 w Y n (only (S m) (a :: l))).
      rewrite IHm. simpl. ring. }
  change (length (a :: l)) with (S (length l)). rewrite H, <- IH. reflexivity.
Qed.

Lemma sum_below_plus n f g : sum_below n (fun i => f i + g i) = sum_below n f + sum_below n g.
Proof. induction n as [|n IH]; simpl; [ring|rewrite IH; ring]. Qed.

Lemma sum_below_scal n c f : sum_below n (fun i => c * f i) = c * sum_below n f.
Proof. induction n as [|n IH]; simpl; [ring|rewrite IH; ring]. Qed.

Lemma sum_below_ext n f g : (forall i, f i = g i) -> sum_below n f = sum_below n g.
Proof. intros H. induction n as [|n IH]; simpl; [reflexivity|rewrite IH, H; reflexivity]. Qed.

Lemma curvature3d_sum_of_modes radius Y l :
  curv3d radius Y l - 1 / radius
  = sum_below (length l) (fun i => curv3d radius Y (only i l) - 1 / radius).
Proof.
  rewrite curv3d_series, (series3_only_sum h3d Y l 1).
  rewrite (sum_below_ext _ (fun i => curv3d radius Y (only i l) - 1 / radius)
             (fun i => / radius * series3 h3d Y 1 (only i l)))
    by (intros i; rewrite curv3d_series; unfold Rdiv; ring).
  rewrite sum_below_scal. unfold Rdiv. ring.
Qed.

Lemma curvature3s_sum_of_modes radius Y l :
  curv3s radius Y l - 1 / radius
  = sum_below (length l) (fun i => curv3s radius Y (only i l) - 1 / radius).
Proof.
  rewrite curv3s_series, (series3_only_sum h3s Y l 1).
  rewrite (sum_below_ext _ (fun i => curv3s radius Y (only i l) - 1 / radius)
             (fun i => / radius * series3 h3s Y 1 (only i l)))
    by (intros i; rewrite curv3s_series; unfold Rdiv; ring).
  rewrite sum_below_scal. unfold Rdiv. ring.
Qed.

(* ---- curvature3d_homogeneous:  H[lambda R] = H[R] / lambda ---- *)
Lemma curvature3d_homogeneous radius lambda Y l : 0 < lambda -> radius <> 0 ->
  curv3d (lambda * radius) Y l = curv3d radius Y l / lambda.
Proof. intros Hl Hr. rewrite !curv3d_series. field. split; lra. Qed.

Lemma curvature3s_homogeneous radius lambda Y l : 0 < lambda -> radius <> 0 ->
  curv3s (lambda * radius) Y l = curv3s radius Y l / lambda.
Proof. intros Hl Hr. rewrite !curv3s_series. field. split; lra. Qed.

Lemma distance3d_homogeneous radius lambda Y l :
  dist3d (lambda * radius) Y l = lambda * dist3d radius Y l /\
  dist3s (lambda * radius) Y l = lambda * dist3s radius Y l.
Proof. split; [rewrite !dist3d_series|rewrite !dist3s_series]; ring. Qed.

(* ---- positions ---- *)
Lemma unit3d_norm theta phi :
  unit3d_0 theta phi ^ 2 + unit3d_1 theta phi ^ 2 + unit3d_2 theta phi ^ 2 = 1 /\
  unit3s_0 theta phi ^ 2 + unit3s_1 theta phi ^ 2 + unit3s_2 theta phi ^ 2 = 1.
Proof.
  unfold unit3d_0, unit3d_1, unit3d_2, unit3s_0, unit3s_1, unit3s_2.
  pose proof (sin2_cos2 theta) as Ht. pose proof (sin2_cos2 phi) as Hp. unfold Rsqr in *.
  set (st := sin theta) in *. set (ct := cos theta) in *. set (sp := sin phi) in *. set (cp := cos phi) in *.
  assert (E : (st * cp) ^ 2 + (st * sp) ^ 2 + ct ^ 2 = st * st * (sp * sp + cp * cp) + ct * ct) by ring.
  split; (rewrite E, Hp; lra).
Qed.

(* position_on_interface (3-d, axisymmetric): centre + distance * unit vector of the direction;
   `dist` is the value of interface_distance at the same angles (that this is what the code passes
   is checked by the translator: dist = self.interface_distance(<the angles>)) *)
Lemma position3d_on_interface c0 c1 c2 dist theta phi :
  (pos3d_0 c0 dist theta phi - c0) ^ 2 + (pos3d_1 c1 dist theta phi - c1) ^ 2
    + (pos3d_2 c2 dist theta phi - c2) ^ 2 = dist ^ 2 /\
  (pos3s_0 c0 dist theta phi - c0) ^ 2 + (pos3s_1 c1 dist theta phi - c1) ^ 2
    + (pos3s_2 c2 dist theta phi - c2) ^ 2 = dist ^ 2.
Proof.
  destruct (unit3d_norm theta phi) as [H3 Hs].
  unfold pos3d_0, pos3d_1, pos3d_2, pos3s_0, pos3s_1, pos3s_2. split; nra.
Qed.

Lemma triangulation3d_on_interface c0 c1 c2 dist theta phi :
  let v := triang3d_vertex c0 c1 c2 dist theta phi in
  (fst (fst v) - c0) ^ 2 + (snd (fst v) - c1) ^ 2 + (snd v - c2) ^ 2 = dist ^ 2.
Proof.
  cbv zeta. unfold triang3d_vertex. cbn [fst snd].
  exact (proj1 (position3d_on_interface c0 c1 c2 dist theta phi)).
Qed.

(* ---- volume_approx is exact to first order (relative to the integral oracle) ---- *)
Section VolumeFirstOrder.
  (* DInt f stands for  int_0^{2 pi} int_0^{pi} f theta phi dtheta dphi  (what dblquad approximates):
     any functional with the listed properties; Yf k theta phi is the real harmonic of mode k *)
  Variable DInt : (R -> R -> R) -> R.
  Hypothesis DInt_plus : forall f g, DInt (fun t p => f t p + g t p) = DInt f + DInt g.
  Hypothesis DInt_scal : forall c f, DInt (fun t p => c * f t p) = c * DInt f.
  Hypothesis DInt_ext : forall f g, (forall t p, f t p = g t p) -> DInt f = DInt g.
  Hypothesis DInt_area : DInt (fun t _ => sin t) = 4 * PI.
  Variable Yf : nat -> R -> R -> R.
  Hypothesis Y_mean_zero : forall k, (1 <= k)%nat -> DInt (fun t p => Yf k t p * sin t) = 0.

  (* exact volume: the generated integrand of `PerturbedDroplet3D.volume` applied to the generated
     interface distance *)
  Definition exact_vol3d (radius : R) (l : list R) : R :=
    DInt (fun t p => vol3d_integrand (dist3d radius (fun k => Yf k t p) l) t).

  Lemma DInt_series_zero l : forall n, (1 <= n)%nat ->
    DInt (fun t p => series3 w_one (fun k => Yf k t p) n l * sin t) = 0.
  Proof.
    induction l as [|a l IH]; intros n Hn; simpl.
    - transitivity (0 * DInt (fun t _ => sin t)); [exact (DInt_scal 0 (fun t _ => sin t))|ring].
    - set (F := fun t p => Yf n t p * sin t).
      set (G := fun t p => series3 w_one (fun k => Yf k t p) (S n) l * sin t).
      transitivity (DInt (fun t p => a * F t p + G t p)).
      { apply DInt_ext. intros t p. unfold F, G, w_one. ring. }
      transitivity (DInt (fun t p => a * F t p) + DInt G);
        [exact (DInt_plus (fun t p => a * F t p) G)|].
      replace (DInt (fun t p => a * F t p)) with (a * DInt F) by (symmetry; exact (DInt_scal a F)).
      unfold F, G. rewrite (Y_mean_zero n Hn), IH by lia. ring.
  Qed.

  Lemma exact_vol3d_expand radius l e :
    exact_vol3d radius (scale3 e l)
    = radius ^ 3 / 3 * (4 * PI
        + 3 * e ^ 2 * DInt (fun t p => (series3 w_one (fun k => Yf k t p) 1 l) ^ 2 * sin t)
        + e ^ 3 * DInt (fun t p => (series3 w_one (fun k => Yf k t p) 1 l) ^ 3 * sin t)).
  Proof.
    unfold exact_vol3d, vol3d_integrand.
    set (g := fun t p => series3 w_one (fun k => Yf k t p) 1 l).
    set (F0 := fun (t p : R) => sin t).
    set (F1 := fun t p => g t p * sin t).
    set (F2 := fun t p => g t p ^ 2 * sin t).
    set (F3 := fun t p => g t p ^ 3 * sin t).
    set (k := radius ^ 3 / 3).
    transitivity (DInt (fun t p => k * (F0 t p + (3 * e * F1 t p + (3 * e ^ 2 * F2 t p + e ^ 3 * F3 t p))))).
    { apply DInt_ext. intros t p. rewrite dist3d_series, series3_scale. unfold k, F0, F1, F2, F3, g. field. }
    transitivity (k * DInt (fun t p => F0 t p + (3 * e * F1 t p + (3 * e ^ 2 * F2 t p + e ^ 3 * F3 t p)))).
    { exact (DInt_scal k (fun t p => F0 t p + (3 * e * F1 t p + (3 * e ^ 2 * F2 t p + e ^ 3 * F3 t p)))). }
    f_equal.
    transitivity (DInt F0 + DInt (fun t p => 3 * e * F1 t p + (3 * e ^ 2 * F2 t p + e ^ 3 * F3 t p))).
    { exact (DInt_plus F0 (fun t p => 3 * e * F1 t p + (3 * e ^ 2 * F2 t p + e ^ 3 * F3 t p))). }
    transitivity (DInt F0 + (DInt (fun t p => 3 * e * F1 t p)
                             + DInt (fun t p => 3 * e ^ 2 * F2 t p + e ^ 3 * F3 t p))).
    { f_equal. exact (DInt_plus (fun t p => 3 * e * F1 t p) (fun t p => 3 * e ^ 2 * F2 t p + e ^ 3 * F3 t p)). }
    transitivity (DInt F0 + (DInt (fun t p => 3 * e * F1 t p)
                             + (DInt (fun t p => 3 * e ^ 2 * F2 t p) + DInt (fun t p => e ^ 3 * F3 t p)))).
    { f_equal. f_equal. exact (DInt_plus (fun t p => 3 * e ^ 2 * F2 t p) (fun t p => e ^ 3 * F3 t p)). }
    replace (DInt (fun t p => 3 * e * F1 t p)) with (3 * e * DInt F1) by (symmetry; exact (DInt_scal (3 * e) F1)).
    replace (DInt (fun t p => 3 * e ^ 2 * F2 t p)) with (3 * e ^ 2 * DInt F2)
      by (symmetry; exact (DInt_scal (3 * e ^ 2) F2)).
    replace (DInt (fun t p => e ^ 3 * F3 t p)) with (e ^ 3 * DInt F3) by (symmetry; exact (DInt_scal (e ^ 3) F3)).
    replace (DInt F1) with 0 by (symmetry; exact (DInt_series_zero l 1 (le_n 1))).
    replace (DInt F0) with (4 * PI) by (symmetry; exact DInt_area).
    unfold F2, F3, g. ring.
  Qed.

  (* volume_approx_first_order: d/d eps (exact volume - volume_approx) = 0 at eps = 0, and the two
     agree at eps = 0; amplitudes eps * l *)
  Theorem volume_approx_first_order radius l :
    is_derive (fun e => exact_vol3d radius (scale3 e l) - volapprox3d radius (scale3 e l)) 0 0 /\
    exact_vol3d radius (scale3 0 l) = volapprox3d radius (scale3 0 l).
  Proof.
    split.
    - pose (J2 := DInt (fun t p => (series3 w_one (fun k => Yf k t p) 1 l) ^ 2 * sin t)).
      pose (J3 := DInt (fun t p => (series3 w_one (fun k => Yf k t p) 1 l) ^ 3 * sin t)).
      pose (V0 := vfr_scalar_3 radius).
      apply (is_derive_ext (fun e => radius ^ 3 / 3 * (4 * PI + 3 * e ^ 2 * J2 + e ^ 3 * J3) - V0)).
      + intros e. rewrite exact_vol3d_expand. unfold volapprox3d, J2, J3, V0. reflexivity.
      + clearbody J2 J3 V0. auto_derive; [exact I|]. ring.
    - rewrite exact_vol3d_expand. unfold volapprox3d, vfr_scalar_3. field.
  Qed.
End VolumeFirstOrder.

(* the same for the axisymmetric class (its volume_approx is generated separately) *)
Lemma volapprox_axisym_eq radius l : volapprox3s radius l = volapprox3d radius l.
Proof. unfold volapprox3s, volapprox3d. reflexivity. Qed.

(* ---- sphere limit ---- *)
Definition zeros2 (l : list (R * R)) : Prop := List.Forall (fun ab => ab = (0, 0)) l.
Definition zeros3 (l : list R) : Prop := List.Forall (fun a => a = 0) l.

Lemma sphere_limit_2d radius phi l : zeros2 l -> radius <> 0 ->
  dist2d radius phi l = radius /\ curv2d radius phi l = / radius /\
  vol2d radius l = PI * radius ^ 2 /\ perim_approx2d radius l = 2 * PI * radius /\
  line2d phi l = 1.
Proof.
  intros Hz Hr.
  rewrite dist2d_series, curv2d_series, vol2d_closed, perim_approx2d_closed.
  rewrite (series2_zero _ _ _ Hz), (series2_zero _ _ _ Hz), (sumsq_zero _ Hz), (sumsq_w_zero _ _ Hz).
  repeat split; try (field; exact Hr).
  assert (Hd : forall n, dseries2 w_one phi n l = 0).
  { clear Hr. induction Hz as [|ab l Hab _ IH]; intros n; simpl; [reflexivity|].
    rewrite IH, Hab. unfold dterm2. cbn [fst snd]. ring. }
  rewrite line2d_closed, (series2_zero _ _ _ Hz), Hd.
  pose proof (sin2_cos2 phi) as H. unfold Rsqr in H.
  match goal with |- sqrt ?x = 1 => replace x with 1 by nra end.
  apply sqrt_1.
Qed.

Lemma sphere_limit_3d radius Y l : zeros3 l -> radius <> 0 ->
  dist3d radius Y l = radius /\ curv3d radius Y l = / radius /\
  volapprox3d radius l = 4 / 3 * PI * radius ^ 3 /\
  dist3s radius Y l = radius /\ curv3s radius Y l = / radius /\
  volapprox3s radius l = 4 / 3 * PI * radius ^ 3.
Proof.
  intros Hz Hr.
  rewrite dist3d_series, curv3d_series, dist3s_series, curv3s_series.
  rewrite !(series3_zero _ _ _ Hz). unfold volapprox3d, volapprox3s, vfr_scalar_3.
  repeat split; field; exact Hr.
Qed.
