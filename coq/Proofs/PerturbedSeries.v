(* C13 -- the generated accumulation loops (Gen_perturbed) are the harmonic series of the reference
   model (Model/Perturbed.v).  These lemmas are where `+=` vs `=`, the sign, the factor n*n - 1 and
   the final expression of the source matter. *)
From Coq Require Import Reals Lra List ZArith Lia.
Import ListNotations.
From PD Require Import Model.Num Model.NumZ Model.Perturbed Gen.Gen_spherical Gen.Gen_spherical_index
  Gen.Gen_perturbed.
Local Open Scope R_scope.

(* a loop whose step adds a term to the accumulator computes  init + sum of the terms *)
Fixpoint sum_terms {X : Type} (t : nat -> X -> R) (n : nat) (l : list X) : R :=
  match l with
  | [] => 0
  | x :: l' => t n x + sum_terms t (S n) l'
  end.

Lemma fold_modes_sum {X : Type} (step : nat -> X -> R -> R) (t : nat -> X -> R) :
  (forall n x acc, step n x acc = acc + t n x) ->
  forall l n acc, fold_modes step n l acc = acc + sum_terms t n l.
Proof.
  intros Hs l. induction l as [|x l IH]; intros n acc; simpl; [ring|].
  rewrite IH, Hs. ring.
Qed.

Lemma series2_terms w phi l : forall n,
  series2 w phi n l = sum_terms (fun n ab => w n * term2 phi n ab) n l.
Proof. induction l as [|ab l IH]; intros n; simpl; [reflexivity|rewrite IH; reflexivity]. Qed.

Lemma series3_terms w Y l : forall n,
  series3 w Y n l = sum_terms (fun n a => a * w n * Y n) n l.
Proof. induction l as [|a l IH]; intros n; simpl; [reflexivity|rewrite IH; reflexivity]. Qed.

Ltac guard_cases :=
  repeat match goal with
  | |- context [Req_EM_T ?x 0] => let E := fresh "E" in destruct (Req_EM_T x 0) as [E|E]; [try rewrite !E|]
  end.

(* arguments of sin / cos written in another (ring-equal) way, e.g. phi * n *)
Ltac norm_trig n phi :=
  repeat match goal with
  | |- context [sin ?x] =>
      lazymatch x with INR n * phi => fail | _ => replace x with (INR n * phi) by ring end
  | |- context [cos ?x] =>
      lazymatch x with INR n * phi => fail | _ => replace x with (INR n * phi) by ring end
  end.

(* ---------------- 2-d ---------------- *)
Lemma dist2d_step_eq phi n ab acc : dist2d_step phi n ab acc = acc + w_one n * term2 phi n ab.
Proof. unfold dist2d_step, term2, w_one. cbv zeta. guard_cases; norm_trig n phi; ring. Qed.

(* dist2d_series: R(phi) = R0 (1 + sum_n (a_n sin n phi + b_n cos n phi)), n counted from 1 *)
Lemma dist2d_series radius phi l : dist2d radius phi l = radius * (1 + series2 w_one phi 1 l).
Proof.
  unfold dist2d. cbv zeta.
  rewrite (fold_modes_sum _ _ (dist2d_step_eq phi)), series2_terms. ring.
Qed.

Lemma curv2d_step_eq phi n ab acc : curv2d_step phi n ab acc = acc + - (w_curv n * term2 phi n ab).
Proof. unfold curv2d_step, term2, w_curv. cbv zeta. guard_cases; norm_trig n phi; ring. Qed.

Lemma sum_terms_opp {X} (t : nat -> X -> R) l : forall n,
  sum_terms (fun n x => - t n x) n l = - sum_terms t n l.
Proof. induction l as [|x l IH]; intros n; simpl; [ring|rewrite IH; ring]. Qed.

(* curvature as coded: 1 / (R0 (1 - sum_n (n^2 - 1)(a_n sin n phi + b_n cos n phi))) *)
Lemma curv2d_series radius phi l :
  curv2d radius phi l = 1 / (radius * (1 - series2 w_curv phi 1 l)).
Proof.
  unfold curv2d. cbv zeta.
  rewrite (fold_modes_sum _ (fun n ab => - (w_curv n * term2 phi n ab)) (curv2d_step_eq phi)).
  rewrite (sum_terms_opp (fun n ab => w_curv n * term2 phi n ab)), series2_terms.
  try reflexivity; (f_equal; ring).
Qed.

Lemma sum_flat_sumsq l : sum_list (map (fun amp : R => amp ^ 2) (flat_amps l)) = sumsq l.
Proof.
  induction l as [|ab l IH]; [reflexivity|].
  change (flat_amps (ab :: l)) with (fst ab :: snd ab :: flat_amps l).
  cbn [map sum_list fold_right]. fold (sum_list (map (fun amp : R => amp ^ 2) (flat_amps l))).
  rewrite IH. cbn [sumsq fold_right]. fold (sumsq l). ring.
Qed.

Lemma vol2d_closed radius l : vol2d radius l = PI * radius ^ 2 * (1 + sumsq l / 2).
Proof. unfold vol2d. cbv zeta. rewrite sum_flat_sumsq. field. Qed.

Lemma set_vol2d_closed volume l : set_vol2d volume l = sqrt (volume / (PI * (1 + sumsq l / 2))).
Proof.
  unfold set_vol2d. cbv zeta. rewrite sum_flat_sumsq.
  first [reflexivity | f_equal; f_equal; field | f_equal; f_equal; f_equal; field].
Qed.

Lemma sumsq_nonneg l : 0 <= sumsq l.
Proof. induction l as [|ab l IH]; simpl; [lra|]. nra. Qed.

(* setting the volume and reading it back returns the value set (relative perturbations kept) *)
Lemma vol2d_set_get volume l : 0 <= volume -> vol2d (set_vol2d volume l) l = volume.
Proof.
  intros Hv. rewrite vol2d_closed, set_vol2d_closed. pose proof PI_RGT_0 as HP.
  pose proof (sumsq_nonneg l) as Hs. set (t := 1 + sumsq l / 2). assert (Ht : 0 < t) by (unfold t; lra).
  replace (sqrt (volume / (PI * t)) ^ 2) with (sqrt (volume / (PI * t)) * sqrt (volume / (PI * t))) by ring.
  rewrite sqrt_sqrt.
  - field. split; lra.
  - apply Rmult_le_pos; [exact Hv|]. left. apply Rinv_0_lt_compat. apply Rmult_lt_0_compat; lra.
Qed.

Lemma perim_step_eq n ab acc :
  perim_approx2d_step n ab acc = acc + w_sq n * (fst ab * fst ab + snd ab * snd ab).
Proof. unfold perim_approx2d_step, w_sq. cbv zeta. ring. Qed.

Definition sumsq_w (w : nat -> R) (n : nat) (l : list (R * R)) : R :=
  sum_terms (fun n ab => w n * (fst ab * fst ab + snd ab * snd ab)) n l.

Lemma perim_approx2d_closed radius l :
  perim_approx2d radius l = PI * radius * (4 + sumsq_w w_sq 1 l) / 2.
Proof. unfold perim_approx2d. cbv zeta. rewrite (fold_modes_sum _ _ perim_step_eq). unfold sumsq_w. field. Qed.

(* surface_area: the two accumulators are r/R0 and its phi-derivative *)
Lemma line2d_step_eq phi n ab st :
  line2d_step phi n ab st = (fst st + w_one n * term2 phi n ab, snd st + w_one n * dterm2 phi n ab).
Proof.
  unfold line2d_step, term2, dterm2, w_one. destruct st as [d dd]. cbv zeta. cbn [fst snd].
  guard_cases; cbn [fst snd]; norm_trig n phi; f_equal; ring.
Qed.

Lemma line2d_acc_series phi l :
  line2d_acc phi l = (1 + series2 w_one phi 1 l, dseries2 w_one phi 1 l).
Proof.
  unfold line2d_acc.
  assert (H : forall l n st, fold_modes (line2d_step phi) n l st =
            (fst st + series2 w_one phi n l, snd st + dseries2 w_one phi n l)).
  { clear l. intros l. induction l as [|ab l IH]; intros n st; simpl.
    - destruct st; cbn [fst snd]; f_equal; ring.
    - rewrite IH, line2d_step_eq. cbn [fst snd]. f_equal; ring. }
  rewrite H. cbn [fst snd]. f_equal; ring.
Qed.

(* ---------------- 3-d and axisymmetric (harmonic values Y are an oracle) ---------------- *)
Lemma dist3d_step_eq Y k a acc : dist3d_step Y k a acc = acc + a * w_one k * Y k.
Proof. unfold dist3d_step, w_one. cbv zeta. guard_cases; ring. Qed.

Lemma dist3d_series radius Y l : dist3d radius Y l = radius * (1 + series3 w_one Y 1 l).
Proof.
  unfold dist3d. cbv zeta. rewrite (fold_modes_sum _ _ (dist3d_step_eq Y)), series3_terms. ring.
Qed.

Lemma dist3s_step_eq Y k a acc : dist3s_step Y k a acc = acc + a * w_one k * Y k.
Proof. unfold dist3s_step, w_one. cbv zeta. guard_cases; ring. Qed.

Lemma dist3s_series radius Y l : dist3s radius Y l = radius * (1 + series3 w_one Y 1 l).
Proof.
  unfold dist3s. cbv zeta. rewrite (fold_modes_sum _ _ (dist3s_step_eq Y)), series3_terms. ring.
Qed.

(* h_k = (l^2 + l - 2)/2 with l the degree of mode k (3-d) resp. l = order (axisymmetric) *)
Definition h_of_degree (l : R) : R := (l * l + l - 2) / 2.
Definition h3d (k : nat) : R := h_of_degree (IZR (fst (index_lm (Z.of_nat k)))).
Definition h3s (order : nat) : R := h_of_degree (INR order).

Lemma curv3d_step_eq Y k a acc : curv3d_step Y k a acc = acc + a * h3d k * Y k.
Proof. unfold curv3d_step, h3d, h_of_degree. cbv zeta. guard_cases; field. Qed.

Lemma curv3d_series radius Y l :
  curv3d radius Y l = 1 / radius + series3 h3d Y 1 l / radius.
Proof.
  unfold curv3d. cbv zeta. rewrite (fold_modes_sum _ _ (curv3d_step_eq Y)), series3_terms.
  unfold Rdiv. ring.
Qed.

Lemma curv3s_step_eq Y k a acc : curv3s_step Y k a acc = acc + a * h3s k * Y k.
Proof. unfold curv3s_step, h3s, h_of_degree. cbv zeta. guard_cases; field. Qed.

Lemma curv3s_series radius Y l :
  curv3s radius Y l = 1 / radius + series3 h3s Y 1 l / radius.
Proof.
  unfold curv3s. cbv zeta. rewrite (fold_modes_sum _ _ (curv3s_step_eq Y)), series3_terms.
  unfold Rdiv. ring.
Qed.

(* the degree-1 modes (k = 1, 2, 3: translations) carry no first-order curvature; degree 2: h = 2 *)
Lemma h3d_degree1 : h3d 1 = 0 /\ h3d 2 = 0 /\ h3d 3 = 0.
Proof.
  unfold h3d.
  replace (fst (index_lm (Z.of_nat 1))) with 1%Z by (vm_compute; reflexivity).
  replace (fst (index_lm (Z.of_nat 2))) with 1%Z by (vm_compute; reflexivity).
  replace (fst (index_lm (Z.of_nat 3))) with 1%Z by (vm_compute; reflexivity).
  unfold h_of_degree. repeat split; lra.
Qed.

Lemma h3d_degree2 : h3d 4 = 2 /\ h3d 8 = 2 /\ h3d 9 = 5.
Proof.
  unfold h3d.
  replace (fst (index_lm (Z.of_nat 4))) with 2%Z by (vm_compute; reflexivity).
  replace (fst (index_lm (Z.of_nat 8))) with 2%Z by (vm_compute; reflexivity).
  replace (fst (index_lm (Z.of_nat 9))) with 3%Z by (vm_compute; reflexivity).
  unfold h_of_degree. repeat split; lra.
Qed.

Lemma h3s_values : h3s 1 = 0 /\ h3s 2 = 2 /\ h3s 3 = 5 /\ h3s 4 = 9.
Proof. unfold h3s, h_of_degree. simpl. repeat split; lra. Qed.

(* ---------------- linearity of the reference series ---------------- *)
Lemma series2_scale w phi e l : forall n, series2 w phi n (scale2 e l) = e * series2 w phi n l.
Proof.
  induction l as [|ab l IH]; intros n; simpl; [ring|]. rewrite IH. unfold term2. cbn [fst snd]. ring.
Qed.

Lemma dseries2_scale w phi e l : forall n, dseries2 w phi n (scale2 e l) = e * dseries2 w phi n l.
Proof.
  induction l as [|ab l IH]; intros n; simpl; [ring|]. rewrite IH. unfold dterm2. cbn [fst snd]. ring.
Qed.

Lemma series3_scale w Y e l : forall n, series3 w Y n (scale3 e l) = e * series3 w Y n l.
Proof. induction l as [|a l IH]; intros n; simpl; [ring|]. rewrite IH. ring. Qed.

Lemma series3_add w Y l1 : forall l2 n, length l1 = length l2 ->
  series3 w Y n (add3 l1 l2) = series3 w Y n l1 + series3 w Y n l2.
Proof.
  induction l1 as [|a l1 IH]; intros [|b l2] n Hlen; simpl in *; try discriminate; [ring|].
  rewrite IH by (injection Hlen; auto). ring.
Qed.

Lemma series2_zero w phi l : Forall (fun ab => ab = (0, 0)) l -> forall n, series2 w phi n l = 0.
Proof.
  induction 1 as [|ab l Hab _ IH]; intros n; simpl; [reflexivity|].
  rewrite IH, Hab. unfold term2. cbn [fst snd]. ring.
Qed.

Lemma series3_zero w Y l : Forall (fun a => a = 0) l -> forall n, series3 w Y n l = 0.
Proof.
  induction 1 as [|a l Ha _ IH]; intros n; simpl; [reflexivity|]. rewrite IH, Ha. ring.
Qed.

Lemma sumsq_zero l : Forall (fun ab => ab = (0, 0)) l -> sumsq l = 0.
Proof. induction 1 as [|ab l Hab _ IH]; simpl; [reflexivity|]. rewrite IH, Hab. cbn [fst snd]. ring. Qed.

Lemma sumsq_w_zero w l : Forall (fun ab => ab = (0, 0)) l -> forall n, sumsq_w w n l = 0.
Proof.
  unfold sumsq_w. induction 1 as [|ab l Hab _ IH]; intros n; simpl; [reflexivity|].
  rewrite IH, Hab. cbn [fst snd]. ring.
Qed.
